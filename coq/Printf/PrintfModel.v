(* Model of include/frg/printf.hpp: pop_arg (with the positional cache), printf_format (the
   directive parser, over an exact-size NUL-terminated buffer), do_printf_chars, do_printf_ints,
   and the agent that the tests / mlibc use to connect them.  Definitions only. *)
From Coq Require Import String.
From Coq Require Import NArith ZArith List Bool.
From FV Require Import Printf.PrintIntModel.
Import ListNotations.
Local Open Scope Z_scope.

(* ---------------------------------------------------------------------------------------- *)
(* variadic arguments                                                                         *)
(* ---------------------------------------------------------------------------------------- *)

(* what va_arg is instantiated with (x86-64 LP64: intptr_t/intmax_t = long, size_t/uintmax_t =
   unsigned long; signedness does not change which slot is read) *)
Inductive argty := ATInt | ATLong | ATLLong | ATPtr.

(* the C++ type T of pop_arg<T>: width in bits, signedness, va_arg class *)
Record ctype := mk_ct { ct_bits : N; ct_signed : bool; ct_va : argty }.
Definition t_schar := mk_ct 8 true ATInt.
Definition t_char := mk_ct 8 true ATInt.
Definition t_short := mk_ct 16 true ATInt.
Definition t_int := mk_ct 32 true ATInt.
Definition t_long := mk_ct 64 true ATLong.
Definition t_llong := mk_ct 64 true ATLLong.
Definition t_uchar := mk_ct 8 false ATInt.
Definition t_ushort := mk_ct 16 false ATInt.
Definition t_uint := mk_ct 32 false ATInt.
Definition t_ulong := mk_ct 64 false ATLong.
Definition t_ullong := mk_ct 64 false ATLLong.
Definition t_ptr := mk_ct 64 false ATPtr.

(* value of the low [ct_bits] bits of a 64-bit slot, read as T *)
Definition interp (ct : ctype) (raw : N) : Z :=
  let m := Z.of_N (N.modulo raw (2 ^ ct_bits ct)) in
  if ct_signed ct && (2 ^ (Z.of_N (ct_bits ct) - 1) <=? m) then m - 2 ^ Z.of_N (ct_bits ct) else m.

(* memory that pointer arguments point to: address -> the exact buffer contents (char or wchar_t
   units); reading at an index >= the length is out of bounds *)
Definition memory := list (N * list N).
Fixpoint mem_lookup (m : memory) (a : N) : option (list N) :=
  match m with
  | [] => None
  | (b, s) :: r => if N.eqb a b then Some s else mem_lookup r a
  end.

Record va_struct := mk_vs {
  va_rest : list N;        (* 64-bit slots not yet fetched *)
  va_pops : list argty;    (* log of va_arg invocations, oldest first *)
  arg_list : list N;       (* the positional cache: one 64-bit cell per union arg (member i/p) *)
  num_args : Z
}.

(* state threaded through printf_format: what reached the sink, and the va_struct *)
Record pstate := mk_ps { ps_out : list byte; ps_vs : va_struct }.

Definition M (A : Type) := pstate -> pstate * outcome A.
Definition ret {A} (a : A) : M A := fun st => (st, Ok a).
Definition fail_assert {A} (w : string) : M A := fun st => (st, AssertStop w).
Definition fail_ub {A} (w : string) : M A := fun st => (st, UB w).
Definition mbind {A B} (m : M A) (f : A -> M B) : M B :=
  fun st => match m st with
            | (st', Ok a) => f a st'
            | (st', AssertStop w) => (st', AssertStop w)
            | (st', UB w) => (st', UB w)
            | (st', OutOfFuel) => (st', OutOfFuel)
            end.
Notation "x <-- m ;;; f" := (mbind m (fun x => f)) (at level 61, m at next level, right associativity).
Definition lift {A} (o : outcome A) : M A := fun st => (st, o).
Definition emit (bs : list byte) : M unit := fun st => (mk_ps (ps_out st ++ bs) (ps_vs st), Ok tt).
Definition massert (b : bool) (w : string) : M unit := if b then ret tt else fail_assert w.

(* va_arg(vsp->args, T') followed by static_cast<T> *)
Definition pop_va (ct : ctype) : M Z := fun st =>
  let vs := ps_vs st in
  match va_rest vs with
  | [] => (st, UB "va_arg past the last argument")
  | raw :: r => (mk_ps (ps_out st) (mk_vs r (va_pops vs ++ [ct_va ct]) (arg_list vs) (num_args vs)),
                 Ok (interp ct raw))
  end.

(* *get_union_member(pos) = arg : writes sizeof(T) bytes of the cell (little endian) *)
Fixpoint set_nth (l : list N) (i : nat) (f : N -> N) : option (list N) :=
  match l, i with
  | [], _ => None
  | x :: r, O => Some (f x :: r)
  | x :: r, S i' => match set_nth r i' f with Some r' => Some (x :: r') | None => None end
  end.
Definition cell_write (ct : ctype) (v : Z) (cell : N) : N :=
  let b := ct_bits ct in
  (N.shiftl (N.shiftr cell b) b + Z.to_N (v mod 2 ^ Z.of_N b))%N.

Definition write_member (pos : Z) (ct : ctype) (v : Z) : M unit := fun st =>
  let vs := ps_vs st in
  if pos <? 0 then (st, UB "oob: arg_list index < 0") else
  match set_nth (arg_list vs) (Z.to_nat pos) (cell_write ct v) with
  | None => (st, UB "oob: arg_list index")
  | Some l => (mk_ps (ps_out st) (mk_vs (va_rest vs) (va_pops vs) l (num_args vs)), Ok tt)
  end.
Definition read_member (pos : Z) (ct : ctype) : M Z := fun st =>
  let vs := ps_vs st in
  if pos <? 0 then (st, UB "oob: arg_list index < 0") else
  match nth_error (arg_list vs) (Z.to_nat pos) with
  | None => (st, UB "oob: arg_list index")
  | Some cell => (st, Ok (interp ct cell))
  end.
Definition set_num_args (n : Z) : M unit := fun st =>
  let vs := ps_vs st in (mk_ps (ps_out st) (mk_vs (va_rest vs) (va_pops vs) (arg_list vs) n), Ok tt).
Definition get_num_args : M Z := fun st => (st, Ok (num_args (ps_vs st))).

(* printf.hpp:67-70  for(int i = vsp->num_args; i <= opts->arg_pos; i++) *)
Fixpoint pop_upto (n : nat) (i : Z) (ct : ctype) : M unit :=
  match n with
  | O => ret tt
  | S n' => v <-- pop_va ct ;;; _ <-- write_member i ct v ;;; pop_upto n' (i + 1) ct
  end.

(* pop_arg<T>, printf.hpp:38-79 *)
Definition pop_arg (ct : ctype) (opts : format_options) : M Z :=
  if arg_pos opts =? -1 then pop_va ct
  else if dollar_arg_pos opts then
    na <-- get_num_args ;;;
    _ <-- pop_upto (Z.to_nat (arg_pos opts + 1 - na)) na ct ;;;
    _ <-- (if na <=? arg_pos opts then set_num_args (arg_pos opts + 1) else ret tt) ;;;
    read_member (arg_pos opts) ct
  else
    v <-- pop_va ct ;;;
    na <-- get_num_args ;;;
    _ <-- write_member na ct v ;;;
    _ <-- set_num_args (na + 1) ;;;
    ret v.

(* ---------------------------------------------------------------------------------------- *)
(* do_printf_chars / do_printf_ints                                                           *)
(* ---------------------------------------------------------------------------------------- *)

Inductive printf_size_mod :=
| default_size | char_size | short_size | long_size | longlong_size | longdouble_size
| native_size | intmax_size.
Definition szmod_eqb (a b : printf_size_mod) : bool :=
  match a, b with
  | default_size, default_size | char_size, char_size | short_size, short_size
  | long_size, long_size | longlong_size, longlong_size | longdouble_size, longdouble_size
  | native_size, native_size | intmax_size, intmax_size => true
  | _, _ => false
  end.

Definition is_some {A} (o : option A) : bool := match o with Some _ => true | None => false end.

(* generic_strlen / generic_strnlen over an exact-size buffer *)
Fixpoint c_strnlen (buf : list N) (maxlen : option nat) (acc : Z) : outcome Z :=
  match maxlen with
  | Some O => Ok acc
  | _ =>
    match buf with
    | [] => UB "oob: string argument read past its buffer"
    | ch :: r => if N.eqb ch 0 then Ok acc
                 else c_strnlen r (match maxlen with Some (S m) => Some m | _ => None end) (acc + 1)
    end
  end.

Definition null_string : list N := [40; 110; 117; 108; 108; 41; 0]%N.     (* "(null)" *)

(* for(int i = 0; i < length && s[i]; i++) sink.append(s[i]) *)
Fixpoint copy_chars (n : nat) (buf : list N) : outcome (list byte) :=
  match n with
  | O => Ok []
  | S n' =>
    match buf with
    | [] => UB "oob: string argument read past its buffer"
    | ch :: r => if N.eqb ch 0 then Ok [] else x <- copy_chars n' r ;; Ok (N.modulo ch 256 :: x)
    end
  end.

Definition spaces (n : Z) : list byte := repeat 32%N (Z.to_nat n).

Section WithMemory.
Variable mem : memory.

Definition printf_string (opts : format_options) : M unit :=
  p <-- pop_arg t_ptr opts ;;;
  buf <-- (if p =? 0 then ret null_string
           else match mem_lookup mem (Z.to_N p) with
                | Some b => ret b
                | None => fail_ub "string argument is not a valid pointer"
                end) ;;;
  length <-- lift (match precision opts with
                   | Some pr => c_strnlen buf (if pr <? 0 then None else Some (Z.to_nat pr)) 0
                   | None => c_strnlen buf None 0
                   end) ;;;
  body <-- lift (copy_chars (Z.to_nat length) buf) ;;;
  let pad := if length <? minimum_width opts then spaces (minimum_width opts - length) else [] in
  if left_justify opts then emit (body ++ pad) else emit (pad ++ body).

(* printf.hpp:233-314 *)
Definition do_printf_chars (t : byte) (opts : format_options) (szmod : printf_size_mod) : M unit :=
  if N.eqb t 112 (* 'p' *) then
    _ <-- massert (negb (fill_zeros opts)) "!opts.fill_zeros" ;;;
    _ <-- massert (negb (left_justify opts)) "!opts.left_justify" ;;;
    _ <-- massert (negb (alt_conversion opts)) "!opts.alt_conversion" ;;;
    _ <-- massert (minimum_width opts =? 0) "opts.minimum_width == 0" ;;;
    _ <-- emit [48; 120]%N ;;;
    p <-- pop_arg t_ptr opts ;;;
    o <-- lift (print_int_default 64 p 16) ;;;
    emit o
  else if N.eqb t 99 (* 'c' *) then
    _ <-- massert (negb (fill_zeros opts)) "!opts.fill_zeros" ;;;
    _ <-- massert (negb (alt_conversion opts)) "!opts.alt_conversion" ;;;
    _ <-- massert (szmod_eqb szmod default_size) "szmod == printf_size_mod::default_size" ;;;
    _ <-- massert (negb (is_some (precision opts))) "!opts.precision" ;;;
    let pad : M unit :=
      if minimum_width opts =? INT_MIN then fail_ub "signed overflow: minimum_width - 1"
      else emit (spaces (minimum_width opts - 1)) in
    if left_justify opts then
      ch <-- pop_arg t_char opts ;;;
      _ <-- emit [Z.to_N (ch mod 256)] ;;;
      pad
    else
      _ <-- pad ;;;
      ch <-- pop_arg t_char opts ;;;
      emit [Z.to_N (ch mod 256)]
  else if N.eqb t 115 (* 's' *) then
    _ <-- massert (negb (fill_zeros opts)) "!opts.fill_zeros" ;;;
    _ <-- massert (negb (alt_conversion opts)) "!opts.alt_conversion" ;;;
    if szmod_eqb szmod default_size then printf_string opts
    else
      _ <-- massert (szmod_eqb szmod long_size) "szmod == printf_size_mod::long_size" ;;;
      printf_string opts
  else fail_assert "!""Unexpected printf terminal""".

Definition signed_type (szmod : printf_size_mod) : option ctype :=
  match szmod with
  | char_size => Some t_schar
  | short_size => Some t_short
  | long_size => Some t_long
  | longlong_size => Some t_llong
  | native_size => Some t_long       (* intptr_t *)
  | intmax_size => Some t_long       (* intmax_t *)
  | default_size => Some t_int
  | longdouble_size => None
  end.
Definition unsigned_type (szmod : printf_size_mod) : option ctype :=
  match szmod with
  | char_size => Some t_uchar
  | short_size => Some t_ushort
  | long_size => Some t_ulong
  | longlong_size => Some t_ullong
  | native_size => Some t_ulong      (* size_t *)
  | intmax_size => Some t_ulong      (* uintmax_t *)
  | default_size => Some t_uint
  | longdouble_size => None
  end.

(* bool zero_fill = opts.fill_zeros && !opts.precision;  padding = zero_fill ? '0' : ' ' *)
Definition padding_of (opts : format_options) : byte :=
  if fill_zeros opts && negb (is_some (precision opts)) then 48%N else 32%N.
Definition prec_or_1 (opts : format_options) : Z := match precision opts with Some p => p | None => 1 end.

(* for (auto n = number; n; n /= 8) num_digits++; *)
Fixpoint count_oct_digits (fuel : nat) (n : N) (acc : Z) : Z :=
  match fuel with
  | O => acc
  | S f => if N.eqb n 0 then acc else count_oct_digits f (N.div n 8) (acc + 1)
  end.
Definition octal_precision (opts : format_options) (number : Z) : Z :=
  let p := prec_or_1 opts in
  if alt_conversion opts then
    let nd := count_oct_digits 65 (Z.to_N number) 0 in
    if p <=? nd then nd + 1 else p
  else p.

(* the `print` lambdas of the unsigned conversions b B o x X u.  print_int is instantiated with
   the unsigned type of [number] (never negative), so its type width is irrelevant. *)
Definition print_unsigned (opts : format_options) (number : Z) (radix : N) (prec : Z) (prefix : list byte)
           (gt caps : bool) : M unit :=
  o <-- lift (print_int 64 number radix (minimum_width opts) prec (padding_of opts)
                        (left_justify opts) gt false false caps default_locale
                        (if negb (number =? 0) && alt_conversion opts then prefix else [])) ;;;
  emit o.

(* printf.hpp do_printf_ints *)
Definition do_printf_ints (t : byte) (opts : format_options) (szmod : printf_size_mod) : M unit :=
  if N.eqb t 100 || N.eqb t 105 (* d i *) then
    _ <-- massert (negb (alt_conversion opts)) "!opts.alt_conversion" ;;;
    match signed_type szmod with
    | None => fail_assert "szmod == printf_size_mod::default_size"
    | Some ct =>
      number <-- pop_arg ct opts ;;;
      o <-- lift (print_int 64 number 10 (minimum_width opts) (prec_or_1 opts) (padding_of opts)
                            (left_justify opts) (group_thousands opts) (always_sign opts)
                            (plus_becomes_space opts) false default_locale []) ;;;
      emit o
    end
  else if N.eqb t 98 || N.eqb t 66 || N.eqb t 111 || N.eqb t 120 || N.eqb t 88 (* b B o x X *) then
    match unsigned_type szmod with
    | None => fail_assert "szmod == printf_size_mod::default_size"
    | Some ct =>
      number <-- pop_arg ct opts ;;;
      if N.eqb t 98 then print_unsigned opts number 2 (prec_or_1 opts) [48; 98]%N false false
      else if N.eqb t 66 then print_unsigned opts number 2 (prec_or_1 opts) [48; 66]%N false false
      else if N.eqb t 111 then print_unsigned opts number 8 (octal_precision opts number) [] false false
      else if N.eqb t 120 then print_unsigned opts number 16 (prec_or_1 opts) [48; 120]%N false false
      else print_unsigned opts number 16 (prec_or_1 opts) [48; 88]%N false true
    end
  else if N.eqb t 117 (* u *) then
    match unsigned_type szmod with
    | None => fail_assert "szmod == printf_size_mod::default_size"
    | Some ct =>
      number <-- pop_arg ct opts ;;;
      _ <-- massert (negb (alt_conversion opts)) "!opts.alt_conversion" ;;;
      print_unsigned opts number 10 (prec_or_1 opts) [] (group_thousands opts) false
    end
  else fail_assert "!""Unexpected printf terminal""".

(* the agent of tests/tests.cpp and of mlibc: chars -> do_printf_chars, everything else that is
   not a float conversion -> do_printf_ints (whose default case is the assertion) *)
Definition agent (t : byte) (opts : format_options) (szmod : printf_size_mod) : M unit :=
  if N.eqb t 99 || N.eqb t 112 || N.eqb t 115 then do_printf_chars t opts szmod
  else do_printf_ints t opts szmod.

(* ---------------------------------------------------------------------------------------- *)
(* printf_format, printf.hpp:81-231                                                           *)
(* ---------------------------------------------------------------------------------------- *)

Section WithFormat.
Variable s : list byte.       (* the format string without its terminating NUL; the buffer is s ++ [0] *)

Definition read (i : nat) : M byte :=
  if Nat.ltb i (length s) then ret (nth i s 0%N)
  else if Nat.eqb i (length s) then ret 0%N
  else fail_ub "oob: format string read past its NUL".

Definition is_digit (c : byte) : bool := N.leb 48 c && N.leb c 57.
Definition assert_nz (i : nat) : M unit :=
  c <-- read i ;;; massert (negb (N.eqb c 0)) "*s".

(* while(s[n] && s[n] != '%') n++;   returns n *)
Fixpoint scan_literal (fuel : nat) (pos n : nat) : M nat :=
  match fuel with
  | O => lift OutOfFuel
  | S fuel' =>
    c <-- read (pos + n) ;;;
    if negb (N.eqb c 0) && negb (N.eqb c 37) then scan_literal fuel' pos (n + 1) else ret n
  end.

Definition set_flag (c : byte) (o : format_options) : option format_options :=
  let '(mk_fo cv mw ap da pr lj asg pbs alt fz gt uc) := o in
  if N.eqb c 45 then Some (mk_fo cv mw ap da pr true asg pbs alt fz gt uc)
  else if N.eqb c 43 then Some (mk_fo cv mw ap da pr lj true pbs alt fz gt uc)
  else if N.eqb c 32 then Some (mk_fo cv mw ap da pr lj asg true alt fz gt uc)
  else if N.eqb c 35 then Some (mk_fo cv mw ap da pr lj asg pbs true fz gt uc)
  else if N.eqb c 48 then Some (mk_fo cv mw ap da pr lj asg pbs alt true gt uc)
  else if N.eqb c 39 then Some (mk_fo cv mw ap da pr lj asg pbs alt fz true uc)
  else None.
Definition set_arg_pos (p : Z) (o : format_options) : format_options :=
  let '(mk_fo cv mw ap da pr lj asg pbs alt fz gt uc) := o in mk_fo cv mw p true pr lj asg pbs alt fz gt uc.
Definition set_dollar (b : bool) (o : format_options) : format_options :=
  let '(mk_fo cv mw ap da pr lj asg pbs alt fz gt uc) := o in mk_fo cv mw ap b pr lj asg pbs alt fz gt uc.
Definition set_width (w : Z) (o : format_options) : format_options :=
  let '(mk_fo cv mw ap da pr lj asg pbs alt fz gt uc) := o in mk_fo cv w ap da pr lj asg pbs alt fz gt uc.
Definition set_precision (p : Z) (o : format_options) : format_options :=
  let '(mk_fo cv mw ap da pr lj asg pbs alt fz gt uc) := o in mk_fo cv mw ap da (Some p) lj asg pbs alt fz gt uc.

(* the while(true) flag loop, printf.hpp:112-146; returns (position, opts, dollar_arg_pos) *)
Fixpoint flags_loop (fuel : nat) (pos : nat) (opts : format_options) (dollar : bool)
  : M (nat * format_options * bool) :=
  match fuel with
  | O => lift OutOfFuel
  | S fuel' =>
    c <-- read pos ;;;
    (* *s >= '0' && *s <= '9' && s[1] && s[1] == '$' : when *s is a digit it is not the NUL, so
       s[1] is inside the buffer *)
    positional <-- (if is_digit c then c1 <-- read (pos + 1) ;;; ret (N.eqb c1 36) else ret false) ;;;
    if positional then
      _ <-- assert_nz (pos + 2) ;;;
      flags_loop fuel' (pos + 2) (set_arg_pos (Z.of_N c - 48 - 1) opts) true
    else
      match set_flag c opts with
      | Some o' => _ <-- assert_nz (pos + 1) ;;; flags_loop fuel' (pos + 1) o' dollar
      | None => ret (pos, opts, dollar)
      end
  end.

(* int w = 0; while( *s is a digit ) { FRG_ASSERT(w <= (INT_MAX - ( *s - '0' )) / 10);
     w = w * 10 + ( *s - '0' ); ++s; FRG_ASSERT( *s ); }   -- [msg] is the text of the first assertion *)
Fixpoint number_loop (fuel : nat) (msg : string) (pos : nat) (w : Z) : M (nat * Z) :=
  match fuel with
  | O => lift OutOfFuel
  | S fuel' =>
    c <-- read pos ;;;
    if is_digit c then
      _ <-- massert (w <=? (INT_MAX - (Z.of_N c - 48)) / 10) msg ;;;
      if negb (in_int (w * 10)) then fail_ub "signed overflow: w * 10"
      else if negb (in_int (w * 10 + (Z.of_N c - 48))) then fail_ub "signed overflow: w * 10 + digit"
      else
        _ <-- assert_nz (pos + 1) ;;;
        number_loop fuel' msg (pos + 1) (w * 10 + (Z.of_N c - 48))
    else ret (pos, w)
  end.

Definition msg_width_overflow : string := "w <= (INT_MAX - (*s - '0')) / 10".
Definition msg_precision_overflow : string := "value <= (INT_MAX - (*s - '0')) / 10".

(* after opts.minimum_width = pop_arg<int>: a negative width is the - flag and a positive width *)
Definition set_left (o : format_options) : format_options :=
  let '(mk_fo cv mw ap da pr lj asg pbs alt fz gt uc) := o in mk_fo cv mw ap da pr true asg pbs alt fz gt uc.
Definition star_width (w : Z) (opts : format_options) : M format_options :=
  if w <? 0 then
    _ <-- massert (negb (w =? INT_MIN)) "opts.minimum_width != INT_MIN" ;;;
    ret (set_width (- w) (set_left opts))
  else ret (set_width w opts).

Definition parse_size_mod (pos : nat) : M (nat * printf_size_mod) :=
  c <-- read pos ;;;
  if N.eqb c 108 (* l *) then
    _ <-- assert_nz (pos + 1) ;;;
    c1 <-- read (pos + 1) ;;;
    if N.eqb c1 108 then _ <-- assert_nz (pos + 2) ;;; ret (pos + 2, longlong_size)%nat
    else ret (pos + 1, long_size)%nat
  else if N.eqb c 122 (* z *) then _ <-- assert_nz (pos + 1) ;;; ret (pos + 1, native_size)%nat
  else if N.eqb c 76 (* L *) then _ <-- assert_nz (pos + 1) ;;; ret (pos + 1, longdouble_size)%nat
  else if N.eqb c 104 (* h *) then
    _ <-- assert_nz (pos + 1) ;;;
    c1 <-- read (pos + 1) ;;;
    if N.eqb c1 104 then _ <-- assert_nz (pos + 2) ;;; ret (pos + 2, char_size)%nat
    else ret (pos + 1, short_size)%nat
  else if N.eqb c 116 (* t *) then _ <-- assert_nz (pos + 1) ;;; ret (pos + 1, native_size)%nat
  else if N.eqb c 106 (* j *) then _ <-- assert_nz (pos + 1) ;;; ret (pos + 1, intmax_size)%nat
  else ret (pos, default_size).

(* one directive after the '%' (pos is the index after it and *s != '%' was checked);
   parameterised by the agent so that the parser can be studied on its own *)
Definition parse_directive (ag : byte -> format_options -> printf_size_mod -> M unit)
           (pos : nat) (dollar : bool) : M (nat * bool) :=
  let fuel := S (length s) in
  x <-- flags_loop fuel pos (set_dollar dollar default_options) dollar ;;;
  let '(pos, opts, dollar) := x in
  c <-- read pos ;;;
  y <-- (if N.eqb c 42 (* '*' *) then
           _ <-- assert_nz (pos + 1) ;;;
           w <-- pop_arg t_int opts ;;;
           o <-- star_width w opts ;;;
           ret ((pos + 1)%nat, o)
         else
           z <-- number_loop fuel msg_width_overflow pos 0 ;;;
           ret (fst z, set_width (snd z) opts)) ;;;
  let '(pos, opts) := y in
  c <-- read pos ;;;
  y <-- (if N.eqb c 46 (* '.' *) then
           _ <-- assert_nz (pos + 1) ;;;
           c1 <-- read (pos + 1) ;;;
           if N.eqb c1 42 then
             _ <-- assert_nz (pos + 2) ;;;
             p <-- pop_arg t_int opts ;;;
             ret ((pos + 2)%nat, if 0 <=? p then set_precision p opts else opts)
           else
             z <-- number_loop fuel msg_precision_overflow (pos + 1) 0 ;;;
             ret (fst z, set_precision (snd z) opts)
         else ret (pos, opts)) ;;;
  let '(pos, opts) := y in
  z <-- parse_size_mod pos ;;;
  let '(pos, szmod) := z in
  t <-- read pos ;;;
  _ <-- ag t opts szmod ;;;
  ret ((pos + 1)%nat, dollar).

Fixpoint format_loop (ag : byte -> format_options -> printf_size_mod -> M unit)
         (fuel : nat) (pos : nat) (dollar : bool) : M unit :=
  match fuel with
  | O => lift OutOfFuel
  | S fuel' =>
    c <-- read pos ;;;
    if N.eqb c 0 then ret tt
    else if negb (N.eqb c 37) then
      n <-- scan_literal (S (length s)) pos 1 ;;;
      _ <-- emit (firstn n (skipn pos s)) ;;;
      format_loop ag fuel' (pos + n) dollar
    else
      _ <-- assert_nz (pos + 1) ;;;
      c1 <-- read (pos + 1) ;;;
      if N.eqb c1 37 then
        _ <-- emit [37%N] ;;;
        format_loop ag fuel' (pos + 2) dollar
      else
        x <-- parse_directive ag (pos + 1) dollar ;;;
        format_loop ag fuel' (fst x) (snd x)
  end.

Definition printf_format_with (ag : byte -> format_options -> printf_size_mod -> M unit) : M unit :=
  format_loop ag (S (length s)) 0 false.

Definition printf_format : M unit := printf_format_with agent.

End WithFormat.
End WithMemory.

(* entry point used by the driver and the theorems: format bytes, argument slots, memory for
   pointer arguments, positional cache (its initial, indeterminate, contents as given) *)
Definition run_printf (mem : memory) (fmt : list byte) (args : list N) (cache : list N)
  : pstate * outcome unit :=
  printf_format mem fmt (mk_ps [] (mk_vs args [] cache 0)).
