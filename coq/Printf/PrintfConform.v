(* Glue between the grammar of IsoPrintf.v and the frigg model: how a directive and its argument
   values are presented to printf_format (format bytes, va_list slots, pointee memory).
   Definitions only. *)
From Coq Require Import String.
From Coq Require Import NArith ZArith List Bool.
From FV Require Import Printf.PrintIntModel Printf.PrintfModel Printf.IsoPrintf.
Import ListNotations.
Local Open Scope Z_scope.

Definition str_addr : N := 123145302310912%N.     (* 0x700000000000: where the %s argument lives *)

Definition slot64 (z : Z) : N := Z.to_N (z mod 2 ^ 64).
Definition slot32 (z : Z) : N := Z.to_N (z mod 2 ^ 32).     (* an int passed in a 64-bit slot, upper half zero *)

(* the slot of the converted argument *)
Definition value_slot (d : directive) (v : argval) : list N :=
  match d_conv d with
  | Cd | Ci | Cu | Co | Cx | CX =>
    match d_len d with
    | LNone | Lhh | Lh => [slot32 (a_int v)]
    | _ => [slot64 (a_int v)]
    end
  | Cc => [slot32 (a_int v)]
  | Cs => [str_addr]
  | Cp => [slot64 (a_int v)]
  | Cpct => []
  end.

(* non-positional: '*' width, '.*' precision, value.  n$: the value is the n-th argument; the
   arguments before it are given the same type and value *)
Definition args_of (d : directive) (v : argval) : list N :=
  match d_pos d with
  | Some n => concat (repeat (value_slot d v) (N.to_nat n))
  | None =>
    (match d_width d with WStar => [slot32 (a_width v)] | _ => [] end)
    ++ (match d_prec d with PStar => [slot32 (a_prec v)] | _ => [] end)
    ++ value_slot d v
  end.

Definition mem_of (d : directive) (v : argval) : memory :=
  match d_conv d with Cs => [(str_addr, a_str v)] | _ => [] end.

Definition cache_init : list N := repeat 11936128518282651045%N 9.     (* 9 cells of 0xA5 bytes *)

Definition frigg_printf_with (cache : list N) (d : directive) (v : argval) : outcome (list byte) :=
  let '(st, o) := run_printf (mem_of d v) (render d) (args_of d v) cache in
  match o with
  | Ok _ => Ok (ps_out st)
  | AssertStop w => AssertStop w
  | UB w => UB w
  | OutOfFuel => OutOfFuel
  end.
Definition frigg_printf := frigg_printf_with cache_init.

(* number of va_arg fetches *)
Definition frigg_pops (d : directive) (v : argval) : nat :=
  length (va_pops (ps_vs (fst (run_printf (mem_of d v) (render d) (args_of d v) cache_init)))).
