(* Which variadic arguments does a printf format string name?  An independent, list-level reading of
   the directive syntax of include/frg/printf.hpp (no indices, no state monad, nothing imported from
   the models): the format is consumed as a list of bytes that ends at its first NUL or at its end.

   named_args fmt = Some ks : the directives name, in the order in which they are fetched from the
     va_list, arguments of the kinds ks: an int for "*" and ".*", the converted value with the type its
     length modifier and conversion give it (a %s argument together with its precision: none, a literal, or
     the int that ".*" fetched just before it); a directive "n$..." names all arguments up to position n
     that no earlier positional directive has named yet (with its own type - pop_arg caches them with
     the type of the directive that passes them, D33).  Scanning stops where printf_format stops in its
     assertion hook for purely syntactic reasons (the string ends inside a directive, a literal
     width/precision does not fit an int).
   named_args fmt = None : some argument position is named twice with two different kinds, so that no
     argument list "has the types the directives name". *)
From Coq Require Import NArith ZArith List Bool.
Import ListNotations.
Local Open Scope Z_scope.

(* how many bytes of its argument a %s may read: no precision / a literal precision / the int fetched by ".*"
   just before the string *)
Inductive slimit := SNone | SLit (n : nat) | SStar.
Inductive argkind := KInt | KLong | KLLong | KPtr | KStr (lim : slimit).     (* KStr: a pointer that %s dereferences *)

Definition slimit_eqb (a b : slimit) : bool :=
  match a, b with
  | SNone, SNone | SStar, SStar => true
  | SLit n, SLit m => Nat.eqb n m
  | _, _ => false
  end.
Definition kind_eqb (a b : argkind) : bool :=
  match a, b with
  | KInt, KInt | KLong, KLong | KLLong, KLLong | KPtr, KPtr => true
  | KStr l1, KStr l2 => slimit_eqb l1 l2
  | _, _ => false
  end.

Definition hd0 (l : list N) : N := hd 0%N l.
Definition isdig (c : N) : bool := N.leb 48 c && N.leb c 57.
Definition isflag (c : N) : bool :=
  N.eqb c 45 || N.eqb c 43 || N.eqb c 32 || N.eqb c 35 || N.eqb c 48 || N.eqb c 39.      (* - + space # 0 ' *)

(* n$ and flags.  ap = 0-based argument position or -1.  None: the string ends inside the directive *)
Fixpoint sk_flags (l : list N) (ap : Z) : option (Z * list N) :=
  match l with
  | [] => Some (ap, [])
  | c :: r =>
    if isdig c && N.eqb (hd0 r) 36 then
      match r with
      | [] => None
      | _ :: r' => if N.eqb (hd0 r') 0 then None else sk_flags r' (Z.of_N c - 48 - 1)
      end
    else if isflag c then (if N.eqb (hd0 r) 0 then None else sk_flags r ap)
    else Some (ap, l)
  end.

(* a literal width / precision.  None: the string ends after a digit, or the number does not fit an int *)
Fixpoint sk_number (l : list N) (w : Z) : option (Z * list N) :=      (* the value and the rest *)
  match l with
  | [] => Some (w, [])
  | c :: r =>
    if isdig c then
      if w <=? (2147483647 - (Z.of_N c - 48)) / 10 then
        (if N.eqb (hd0 r) 0 then None else sk_number r (w * 10 + (Z.of_N c - 48)))
      else None
    else Some (w, l)
  end.

Inductive lmod := MNone | Mhh | Mh | Ml | Mll | Mz | Mt | Mj | ML.

Definition sk_mod (l : list N) : option (lmod * list N) :=
  let c := hd0 l in
  let r := tl l in
  if N.eqb c 108 then
    if N.eqb (hd0 r) 0 then None
    else if N.eqb (hd0 r) 108 then (if N.eqb (hd0 (tl r)) 0 then None else Some (Mll, tl r))
    else Some (Ml, r)
  else if N.eqb c 122 then (if N.eqb (hd0 r) 0 then None else Some (Mz, r))
  else if N.eqb c 76 then (if N.eqb (hd0 r) 0 then None else Some (ML, r))
  else if N.eqb c 104 then
    if N.eqb (hd0 r) 0 then None
    else if N.eqb (hd0 r) 104 then (if N.eqb (hd0 (tl r)) 0 then None else Some (Mhh, tl r))
    else Some (Mh, r)
  else if N.eqb c 116 then (if N.eqb (hd0 r) 0 then None else Some (Mt, r))
  else if N.eqb c 106 then (if N.eqb (hd0 r) 0 then None else Some (Mj, r))
  else Some (MNone, l).

(* the argument the conversion character consumes *)
Definition is_int_conv_char (t : N) : bool :=
  N.eqb t 100 || N.eqb t 105 || N.eqb t 98 || N.eqb t 66 || N.eqb t 111 || N.eqb t 120 || N.eqb t 88 || N.eqb t 117.
(* lim: the precision of the directive; a positional %n$s is asked for a terminated string whatever its precision *)
Definition conv_kinds (t : N) (m : lmod) (lim : slimit) (ap : Z) : list argkind :=
  if is_int_conv_char t then
    match m with
    | ML => []
    | Mll => [KLLong]
    | Ml | Mz | Mt | Mj => [KLong]
    | MNone | Mhh | Mh => [KInt]
    end
  else if N.eqb t 99 then [KInt]
  else if N.eqb t 115 then [KStr (if ap =? -1 then lim else SNone)]
  else if N.eqb t 112 then [KPtr]
  else [].

(* naming an argument: sequentially (ap = -1) or by position.  ck = kinds of the positions named so far.
   Result: the arguments newly taken from the va_list, and the new ck.  None: kind conflict *)
Definition fetch (k : argkind) (ap : Z) (ck : list argkind) : option (list argkind * list argkind) :=
  if ap =? -1 then Some ([k], ck)
  else if ap <? Z.of_nat (length ck) then
    (if kind_eqb (nth (Z.to_nat ap) ck KInt) k then Some ([], ck) else None)
  else
    let n := Z.to_nat (ap + 1 - Z.of_nat (length ck)) in
    Some (repeat k n, ck ++ repeat k n).

Definition fetch_list (ks : list argkind) (ap : Z) (ck : list argkind) : option (list argkind * list argkind) :=
  match ks with
  | [] => Some ([], ck)
  | k :: _ => fetch k ap ck
  end.

Inductive wres := WCut | WConf | WOk (ks : list argkind) (ck : list argkind) (l : list N).
Inductive pres := PCut | PConf | POk (ks : list argkind) (ck : list argkind) (l : list N) (lim : slimit).
Inductive dres := DCut (ks : list argkind) | DConf | DOk (ks : list argkind) (ck : list argkind) (l : list N).

(* one directive; l starts after the '%' *)
Definition sk_directive (l : list N) (ck : list argkind) : dres :=
  match sk_flags l (-1) with
  | None => DCut []
  | Some (ap, l1) =>
    match (if N.eqb (hd0 l1) 42 then
             (if N.eqb (hd0 (tl l1)) 0 then WCut
              else match fetch KInt ap ck with None => WConf | Some (k1, ck1) => WOk k1 ck1 (tl l1) end)
           else match sk_number l1 0 with None => WCut | Some (_, l2) => WOk [] ck l2 end) with
    | WCut => DCut []
    | WConf => DConf
    | WOk k1 ck1 l2 =>
      match (if N.eqb (hd0 l2) 46 then
               let l3 := tl l2 in
               if N.eqb (hd0 l3) 0 then PCut
               else if N.eqb (hd0 l3) 42 then
                 (if N.eqb (hd0 (tl l3)) 0 then PCut
                  else match fetch KInt ap ck1 with None => PConf | Some (k2, ck2) => POk k2 ck2 (tl l3) SStar end)
               else match sk_number l3 0 with None => PCut | Some (v, l4) => POk [] ck1 l4 (SLit (Z.to_nat v)) end
             else POk [] ck1 l2 SNone) with
      | PCut => DCut k1
      | PConf => DConf
      | POk k2 ck2 l4 lim =>
        match sk_mod l4 with
        | None => DCut (k1 ++ k2)
        | Some (m, l5) =>
          match fetch_list (conv_kinds (hd0 l5) m lim ap) ap ck2 with
          | None => DConf
          | Some (k3, ck3) => DOk (k1 ++ k2 ++ k3) ck3 (tl l5)
          end
        end
      end
    end
  end.

Fixpoint drop_lit (l : list N) : list N :=
  match l with
  | [] => []
  | c :: r => if N.eqb c 0 || N.eqb c 37 then l else drop_lit r
  end.

Fixpoint sk_format (fuel : nat) (l : list N) (ck : list argkind) : option (list argkind) :=
  match fuel with
  | O => Some []
  | S f =>
    let c := hd0 l in
    if N.eqb c 0 then Some []
    else if negb (N.eqb c 37) then sk_format f (drop_lit (tl l)) ck
    else
      let l1 := tl l in
      if N.eqb (hd0 l1) 0 then Some []
      else if N.eqb (hd0 l1) 37 then sk_format f (tl l1) ck
      else match sk_directive l1 ck with
           | DCut ks => Some ks
           | DConf => None
           | DOk ks ck' l' => match sk_format f l' ck' with Some ks' => Some (ks ++ ks') | None => None end
           end
  end.

Definition named_args (fmt : list N) : option (list argkind) := sk_format (S (length fmt)) fmt [].
