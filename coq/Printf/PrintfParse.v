(* Stage A of the conformance proof: what printf_format's parser computes on the rendering of a
   directive of the grammar (IsoPrintf.render): exact evaluation lemmas for the flag loop, the
   number loops, the length modifiers. *)
From Coq Require Import String.
From Coq Require Import NArith ZArith List Bool Lia ZifyBool ZifyNat ZifyN.
From FV Require Import Printf.PrintIntModel Printf.IsoPrintf Printf.PrintfModel.
Import ListNotations.
Local Open Scope Z_scope.

(* ---- reading at a known offset *)
Lemma read_app : forall (pre t : list byte) (k : nat) st, (k <= length t)%nat ->
  read (pre ++ t) (length pre + k) st = (st, Ok (nth k t 0%N)).
Proof.
  intros pre t k st Hk. unfold read. rewrite app_length.
  destruct (Nat.ltb (length pre + k) (length pre + length t)) eqn:E.
  - apply Nat.ltb_lt in E. unfold ret. rewrite app_nth2_plus. reflexivity.
  - apply Nat.ltb_ge in E. assert (k = length t) by lia. subst k.
    rewrite Nat.eqb_refl. unfold ret. rewrite nth_overflow by lia. reflexivity.
Qed.

Lemma read_app0 : forall (pre t : list byte) st,
  read (pre ++ t) (length pre) st = (st, Ok (nth 0 t 0%N)).
Proof. intros. rewrite <- (Nat.add_0_r (length pre)) at 1. apply read_app. lia. Qed.

Lemma read_end : forall (s : list byte) st, read s (length s) st = (st, Ok 0%N).
Proof. intros s st. unfold read. rewrite Nat.ltb_irrefl, Nat.eqb_refl. reflexivity. Qed.

Lemma assert_nz_app : forall (pre t : list byte) (k : nat) st, (k <= length t)%nat -> nth k t 0%N <> 0%N ->
  assert_nz (pre ++ t) (length pre + k) st = (st, Ok tt).
Proof.
  intros pre t k st Hk Hn. unfold assert_nz, mbind. rewrite read_app by assumption.
  apply N.eqb_neq in Hn. rewrite Hn. reflexivity.
Qed.

Lemma mbind_ok : forall A B (m : M A) (f : A -> M B) st st' a,
  m st = (st', Ok a) -> mbind m f st = f a st'.
Proof. intros A B m f st st' a H. unfold mbind. rewrite H. reflexivity. Qed.

Ltac mstep t := erewrite mbind_ok; [ | t ]; cbv beta.

(* ---- flags *)
Definition apply_flag (f : flag) (o : format_options) : format_options :=
  let '(mk_fo cv mw ap da pr lj asg pbs alt fz gt uc) := o in
  match f with
  | FMinus => mk_fo cv mw ap da pr true asg pbs alt fz gt uc
  | FPlus => mk_fo cv mw ap da pr lj true pbs alt fz gt uc
  | FSpace => mk_fo cv mw ap da pr lj asg true alt fz gt uc
  | FHash => mk_fo cv mw ap da pr lj asg pbs true fz gt uc
  | FZero => mk_fo cv mw ap da pr lj asg pbs alt true gt uc
  | FQuote => mk_fo cv mw ap da pr lj asg pbs alt fz true uc
  end.
Definition apply_flags (fl : list flag) (o : format_options) : format_options := fold_left (fun o f => apply_flag f o) fl o.

Lemma set_flag_char : forall f o, set_flag (flag_char f) o = Some (apply_flag f o).
Proof. intros f o. destruct o, f; reflexivity. Qed.

(* a character at which the flag loop stops: not a flag, and if it is a digit the next one is not '$' *)
Definition not_flag (c : byte) : Prop :=
  c <> 45%N /\ c <> 43%N /\ c <> 32%N /\ c <> 35%N /\ c <> 48%N /\ c <> 39%N.

Lemma set_flag_none : forall c o, not_flag c -> set_flag c o = None.
Proof.
  intros c o [H1 [H2 [H3 [H4 [H5 H6]]]]]. destruct o. unfold set_flag.
  apply N.eqb_neq in H1, H2, H3, H4, H5, H6. rewrite H1, H2, H3, H4, H5, H6. reflexivity.
Qed.

Lemma flag_char_facts : forall f, flag_char f <> 0%N /\ flag_char f <> 36%N.
Proof. intros f; destruct f; cbn; split; discriminate. Qed.

(* t = the rest of the format after the flags: c :: r, with c a stopper *)
Lemma flags_loop_eval : forall (fl : list flag) (pre : list byte) (c : byte) (r : list byte) fuel opts dollar st,
  not_flag c -> c <> 0%N -> c <> 36%N -> (is_digit c = true -> nth 0 r 0%N <> 36%N) ->
  (length fl < fuel)%nat ->
  flags_loop (pre ++ map flag_char fl ++ c :: r) fuel (length pre) opts dollar st
  = (st, Ok ((length pre + length fl)%nat, apply_flags fl opts, dollar)).
Proof.
  induction fl as [|f fl IH]; intros pre c r fuel opts dollar st Hnf Hc0 Hc36 Hd Hf.
  - destruct fuel as [|fuel]; [cbn in Hf; lia|]. cbn [flags_loop map app length].
    mstep ltac:(apply read_app0). cbn [nth].
    assert (Hpos : (if is_digit c
                    then mbind (read (pre ++ c :: r) (length pre + 1)) (fun c1 => ret (N.eqb c1 36))
                    else ret false) st = (st, Ok false)).
    { destruct (is_digit c) eqn:Ed; [|reflexivity].
      mstep ltac:(apply read_app; cbn; lia). cbn [nth]. unfold ret.
      specialize (Hd eq_refl). apply N.eqb_neq in Hd. rewrite Hd. reflexivity. }
    mstep ltac:(exact Hpos).
    rewrite set_flag_none by assumption. unfold ret. rewrite Nat.add_0_r. reflexivity.
  - destruct fuel as [|fuel]; [cbn in Hf; lia|]. cbn [flags_loop map app length].
    mstep ltac:(apply read_app0). cbn [nth].
    set (t := map flag_char fl ++ c :: r).
    assert (Hnext : nth 0 t 0%N <> 0%N /\ nth 0 t 0%N <> 36%N).
    { subst t. destruct fl as [|f' fl']; cbn [map app nth]; [split; assumption | apply flag_char_facts]. }
    assert (Hpos : (if is_digit (flag_char f)
                    then mbind (read (pre ++ flag_char f :: t) (length pre + 1)) (fun c1 => ret (N.eqb c1 36))
                    else ret false) st = (st, Ok false)).
    { destruct (is_digit (flag_char f)); [|reflexivity].
      mstep ltac:(apply read_app; cbn; lia). cbn [nth]. unfold ret.
      destruct Hnext as [_ H36].
      match goal with |- context [N.eqb ?x 36] => destruct (N.eqb x 36) eqn:E36 end; [|reflexivity].
      apply N.eqb_eq in E36. exfalso. apply H36. exact E36. }
    mstep ltac:(exact Hpos).
    rewrite set_flag_char.
    mstep ltac:(apply (assert_nz_app pre (flag_char f :: t) 1); [cbn [length]; lia | apply Hnext]).
    replace (pre ++ flag_char f :: t) with ((pre ++ [flag_char f]) ++ t) by (rewrite <- app_assoc; reflexivity).
    replace (length pre + 1)%nat with (length (pre ++ [flag_char f])) by (rewrite app_length; reflexivity).
    subst t. rewrite IH; try assumption; [|cbn in Hf; lia].
    rewrite app_length. cbn [length apply_flags fold_left].
    replace (length pre + 1 + length fl)%nat with (length pre + S (length fl))%nat by lia. reflexivity.
Qed.

Lemma flags_loop_eval' : forall s pos (fl : list flag) (pre : list byte) (c : byte) (r : list byte) fuel opts dollar st,
  s = pre ++ map flag_char fl ++ c :: r -> pos = length pre ->
  not_flag c -> c <> 0%N -> c <> 36%N -> (is_digit c = true -> nth 0 r 0%N <> 36%N) ->
  (length fl < fuel)%nat ->
  flags_loop s fuel pos opts dollar st = (st, Ok ((pos + length fl)%nat, apply_flags fl opts, dollar)).
Proof. intros; subst; apply flags_loop_eval; assumption. Qed.

(* ---- decimal numbers *)
Definition digit_value (w : Z) (ds : list byte) : Z := fold_left (fun a c => a * 10 + (Z.of_N c - 48)) ds w.

Lemma digit_value_mono : forall ds w, Forall (fun c => is_digit c = true) ds -> 0 <= w -> w <= digit_value w ds.
Proof.
  induction ds as [|c ds IH]; intros w Hd Hw; cbn [digit_value fold_left]; [lia|].
  inversion Hd; subst. unfold is_digit in H1.
  specialize (IH (w * 10 + (Z.of_N c - 48)) H2 ltac:(lia)). unfold digit_value in IH. lia.
Qed.

Lemma number_loop_eval : forall (ds : list byte) (pre : list byte) (c : byte) (r : list byte) fuel msg w st,
  Forall (fun c => is_digit c = true) ds -> is_digit c = false -> c <> 0%N ->
  0 <= w -> digit_value w ds <= INT_MAX -> (length ds < fuel)%nat ->
  number_loop (pre ++ ds ++ c :: r) fuel msg (length pre) w st
  = (st, Ok ((length pre + length ds)%nat, digit_value w ds)).
Proof.
  induction ds as [|d ds IH]; intros pre c r fuel msg w st Hds Hc Hc0 Hw Hv Hf.
  - destruct fuel as [|fuel]; [cbn in Hf; lia|]. cbn [number_loop app length digit_value fold_left].
    mstep ltac:(apply read_app0). cbn [nth]. rewrite Hc. unfold ret. rewrite Nat.add_0_r. reflexivity.
  - destruct fuel as [|fuel]; [cbn in Hf; lia|]. cbn [number_loop app length].
    mstep ltac:(apply read_app0). cbn [nth].
    inversion Hds as [|? ? Hd Hds']; subst. rewrite Hd.
    assert (Hdv : 0 <= Z.of_N d - 48 <= 9) by (unfold is_digit in Hd; lia).
    assert (Hstep : w * 10 + (Z.of_N d - 48) <= INT_MAX).
    { pose proof (digit_value_mono ds (w * 10 + (Z.of_N d - 48)) Hds' ltac:(lia)).
      cbn [digit_value fold_left] in Hv. unfold digit_value in H. lia. }
    assert (Hass : (w <=? (INT_MAX - (Z.of_N d - 48)) / 10) = true).
    { apply Z.leb_le. apply Z.div_le_lower_bound; lia. }
    rewrite Hass. cbn [massert]. mstep ltac:(reflexivity).
    replace (in_int (w * 10)) with true by (unfold in_int, INT_MIN, INT_MAX in *; lia).
    replace (in_int (w * 10 + (Z.of_N d - 48))) with true by (unfold in_int, INT_MIN, INT_MAX in *; lia).
    cbn [negb].
    set (t := ds ++ c :: r).
    assert (Hnext : nth 0 t 0%N <> 0%N).
    { subst t. destruct ds as [|d' ds']; cbn [app nth]; [assumption|].
      inversion Hds'; subst. intro H0. rewrite H0 in H1. discriminate. }
    mstep ltac:(apply (assert_nz_app pre (d :: t) 1); [cbn [length]; lia | exact Hnext]).
    replace (pre ++ d :: t) with ((pre ++ [d]) ++ t) by (rewrite <- app_assoc; reflexivity).
    replace (length pre + 1)%nat with (length (pre ++ [d])) by (rewrite app_length; reflexivity).
    subst t. rewrite IH; try assumption; try lia; [|cbn in Hf; lia].
    rewrite app_length. cbn [length digit_value fold_left].
    replace (length pre + 1 + length ds)%nat with (length pre + S (length ds))%nat by lia. reflexivity.
Qed.

Lemma number_loop_eval' : forall s pos (ds : list byte) (pre : list byte) (c : byte) (r : list byte) fuel msg w st,
  s = pre ++ ds ++ c :: r -> pos = length pre ->
  Forall (fun c => is_digit c = true) ds -> is_digit c = false -> c <> 0%N ->
  0 <= w -> digit_value w ds <= INT_MAX -> (length ds < fuel)%nat ->
  number_loop s fuel msg pos w st = (st, Ok ((pos + length ds)%nat, digit_value w ds)).
Proof. intros; subst; apply number_loop_eval; assumption. Qed.

(* the decimal rendering of IsoPrintf *)
Lemma dec_digits_fuel_mono : forall f f' n, (N.to_nat (N.log2 n) < f)%nat -> (N.to_nat (N.log2 n) < f')%nat ->
  dec_digits_fuel f n = dec_digits_fuel f' n.
Proof.
  induction f as [|f IH]; intros f' n H1 H2; [lia|]. destruct f' as [|f']; [lia|]. cbn [dec_digits_fuel].
  destruct (N.ltb n 10) eqn:E; [reflexivity|]. apply N.ltb_ge in E.
  assert (Hd : (N.to_nat (N.log2 (n / 10)) < N.to_nat (N.log2 n))%nat).
  { assert (H2' : (n / 10 <= n / 2)%N) by (apply N.div_le_compat_l; lia).
    assert (Hh : (N.log2 (n / 2) = N.pred (N.log2 n))%N).
    { rewrite <- N.div2_div. rewrite N.div2_spec. rewrite N.log2_shiftr. lia. }
    assert (Hl : (N.log2 (n / 10) <= N.log2 (n / 2))%N) by (apply N.log2_le_mono; exact H2').
    assert (Hp : (0 < N.log2 n)%N) by (apply N.log2_pos; lia). lia. }
  rewrite (IH f' (n / 10)%N); [reflexivity | lia | lia].
Qed.

Lemma dec_digits_unfold : forall n,
  dec_digits n = if N.ltb n 10 then [(48 + n)%N] else dec_digits (n / 10) ++ [(48 + N.modulo n 10)%N].
Proof.
  intros n. unfold dec_digits at 1. cbn [dec_digits_fuel].
  destruct (N.ltb n 10) eqn:E; [reflexivity|]. apply N.ltb_ge in E.
  unfold dec_digits. f_equal. apply dec_digits_fuel_mono; [|lia].
  assert (H2' : (n / 10 <= n / 2)%N) by (apply N.div_le_compat_l; lia).
  assert (Hh : (N.log2 (n / 2) = N.pred (N.log2 n))%N).
  { rewrite <- N.div2_div. rewrite N.div2_spec. rewrite N.log2_shiftr. lia. }
  assert (Hl : (N.log2 (n / 10) <= N.log2 (n / 2))%N) by (apply N.log2_le_mono; exact H2').
  assert (Hp : (0 < N.log2 n)%N) by (apply N.log2_pos; lia). lia.
Qed.

Lemma dec_digits_spec : forall n,
  Forall (fun c => is_digit c = true) (dec_digits n)
  /\ (forall w, digit_value w (dec_digits n) = w * 10 ^ Z.of_nat (length (dec_digits n)) + Z.of_N n)
  /\ (exists c r, dec_digits n = c :: r /\ (n <> 0%N -> c <> 48%N)).
Proof.
  induction n as [n IH] using (well_founded_induction N.lt_wf_0).
  rewrite dec_digits_unfold. destruct (N.ltb n 10) eqn:E.
  - apply N.ltb_lt in E. split; [|split].
    + constructor; [unfold is_digit; lia | constructor].
    + intros w. cbn [digit_value fold_left length]. change (10 ^ Z.of_nat 1) with 10. lia.
    + eexists; eexists; split; [reflexivity|]. lia.
  - apply N.ltb_ge in E.
    destruct (IH (n / 10)%N ltac:(apply N.div_lt; lia)) as [H1 [H2 [c [r [H3 H4]]]]].
    split; [|split].
    + apply Forall_app. split; [assumption|]. constructor; [|constructor].
      pose proof (N.mod_lt n 10). unfold is_digit. lia.
    + intros w. unfold digit_value. rewrite fold_left_app. cbn [fold_left]. fold (digit_value w (dec_digits (n / 10))).
      rewrite H2. rewrite app_length. cbn [length]. rewrite Nat2Z.inj_add. change (Z.of_nat 1) with 1.
      rewrite Z.pow_add_r by lia. change (10 ^ 1) with 10.
      pose proof (N.div_mod n 10 ltac:(lia)). pose proof (N.mod_lt n 10 ltac:(lia)). lia.
    + rewrite H3. eexists; eexists; split; [reflexivity|]. intros _. apply H4.
      intro H0. apply N.div_small_iff in H0; lia.
Qed.

Lemma dec_digits_value : forall n, digit_value 0 (dec_digits n) = Z.of_N n.
Proof. intros n. destruct (dec_digits_spec n) as [_ [H _]]. rewrite H. lia. Qed.

(* ---- length modifiers *)
Definition szmod_of (l : lenmod) : printf_size_mod :=
  match l with
  | LNone => default_size | Lhh => char_size | Lh => short_size | Ll => long_size | Lll => longlong_size
  | Lz => native_size | Ltd => native_size | Lj => intmax_size
  end.

Definition is_conv_char (c : byte) : Prop :=
  c = 100%N \/ c = 105%N \/ c = 117%N \/ c = 111%N \/ c = 120%N \/ c = 88%N \/ c = 99%N \/ c = 115%N \/ c = 112%N.

Lemma parse_size_mod_eval : forall (l : lenmod) (pre : list byte) (cv : byte) st,
  is_conv_char cv ->
  parse_size_mod (pre ++ len_chars l ++ [cv]) (length pre) st
  = (st, Ok ((length pre + length (len_chars l))%nat, szmod_of l)).
Proof.
  intros l pre cv st Hcv.
  assert (Hcv' : N.eqb cv 108 = false /\ N.eqb cv 122 = false /\ N.eqb cv 76 = false /\ N.eqb cv 104 = false
                 /\ N.eqb cv 116 = false /\ N.eqb cv 106 = false /\ cv <> 0%N).
  { unfold is_conv_char in Hcv. repeat split; try apply N.eqb_neq; lia. }
  destruct Hcv' as [E1 [E2 [E3 [E4 [E5 [E6 Hcv0]]]]]].
  destruct l; cbn [len_chars app length szmod_of]; unfold parse_size_mod;
  repeat first
   [ mstep ltac:(apply read_app0); cbn [nth]
   | mstep ltac:(apply read_app; cbn [length]; lia); cbn [nth]
   | mstep ltac:(apply assert_nz_app; [cbn [length]; lia | cbn [nth]; first [discriminate | exact Hcv0]]); cbn [nth]
   | rewrite E1 | rewrite E2 | rewrite E3 | rewrite E4 | rewrite E5 | rewrite E6
   | progress cbn [N.eqb Pos.eqb] ];
  unfold ret; rewrite ?Nat.add_0_r; reflexivity.
Qed.
