(* The conformance theorem for one directive of the grammar without n$ :
   frigg_printf d v = Ok (iso_printf d v). *)
From Coq Require Import String.
From Coq Require Import NArith ZArith List Bool Lia ZifyBool ZifyNat ZifyN.
From FV Require Import Printf.PrintIntModel Printf.IsoPrintf Printf.PrintIntProofs Printf.PrintfModel
  Printf.PrintfParse Printf.PrintfConform Printf.PrintfStageA Printf.PrintfStageB.
Import ListNotations.
Local Open Scope Z_scope.

Lemma in_grammar_parts : forall d, in_grammar d = true -> d_conv d <> Cpct ->
  width_ok d = true /\ prec_ok d = true.
Proof.
  intros d H Hc. unfold in_grammar in H.
  destruct (d_conv d) eqn:Ec; try congruence;
    repeat (apply andb_true_iff in H; let H' := fresh "H" in destruct H as [H H']);
    try (split; assumption).
  - (* c *) split; [assumption|]. unfold prec_ok. destruct (d_prec d); try discriminate; reflexivity.
  - (* p *) unfold width_ok, prec_ok.
    destruct (d_flags d); [|destruct (d_pos d); discriminate].
    destruct (d_width d); try (destruct (d_pos d); discriminate).
    destruct (d_prec d); try (destruct (d_pos d); discriminate). split; reflexivity.
Qed.

Lemma fits_parts : forall d v, fits d v = true ->
  (match d_width d with WStar => in_int_range (a_width v) && negb (a_width v =? -2147483648) | _ => true end) = true
  /\ (match d_prec d with PStar => in_int_range (a_prec v) | _ => true end) = true.
Proof.
  intros d v H. unfold fits in H. apply andb_true_iff in H. destruct H as [H _].
  apply andb_true_iff in H. exact H.
Qed.

Lemma args_of_split : forall d v, d_pos d = None -> args_of d v = star_slots d v ++ value_slot d v.
Proof. intros d v H. unfold args_of, star_slots. rewrite H. rewrite app_assoc. reflexivity. Qed.

Theorem printf_conforms_nopos : forall d v,
  d_pos d = None -> in_grammar d = true -> fits d v = true ->
  frigg_printf d v = Ok (iso_printf d v).
Proof.
  intros d v Hpos Hgr Hfit.
  destruct (d_conv d) eqn:Ec.
  all: try (
    assert (Hne : d_conv d <> Cpct) by (rewrite Ec; discriminate);
    destruct (in_grammar_parts d Hgr Hne) as [Hwok Hpok];
    destruct (fits_parts d v Hfit) as [Hwfit Hpfit];
    unfold frigg_printf, frigg_printf_with, run_printf, printf_format;
    rewrite (args_of_split d v Hpos)).
  1-6: (* integers *)
    assert (Hint : is_int_conv (d_conv d) = true) by (rewrite Ec; reflexivity);
    pose proof (agent_int (mem_of d v) d v [] [] ([] ++ star_pops d) cache_init 0 Hint Hgr) as Hag;
    rewrite app_nil_r in Hag;
    rewrite (format_render (agent (mem_of d v)) d v [] (value_slot d v) [] cache_init 0 _ Hpos Hne Hwok Hpok Hwfit Hpfit Hag);
    reflexivity.
  - (* c *)
    pose proof (agent_char (mem_of d v) d v [] [] ([] ++ star_pops d) cache_init 0 Ec Hgr) as Hag.
    assert (Hvs : value_slot d v = [slot32 (a_int v)]) by (unfold value_slot; rewrite Ec; reflexivity).
    rewrite <- Hvs in Hag. change 99%N with (conv_char Cc) in Hag. rewrite <- Ec in Hag.
    rewrite (format_render (agent (mem_of d v)) d v [] (value_slot d v) [] cache_init 0 _ Hpos Hne Hwok Hpok Hwfit Hpfit Hag).
    reflexivity.
  - (* s *)
    pose proof (agent_str d v [] [] ([] ++ star_pops d) cache_init 0 Ec Hgr Hfit) as Hag.
    assert (Hvs : value_slot d v = [str_addr]) by (unfold value_slot; rewrite Ec; reflexivity).
    rewrite <- Hvs in Hag. change 115%N with (conv_char Cs) in Hag. rewrite <- Ec in Hag.
    rewrite (format_render (agent (mem_of d v)) d v [] (value_slot d v) [] cache_init 0 _ Hpos Hne Hwok Hpok Hwfit Hpfit Hag).
    reflexivity.
  - (* p *)
    pose proof (agent_ptr (mem_of d v) d v [] [] ([] ++ star_pops d) cache_init 0 Ec Hgr Hfit) as Hag.
    assert (Hvs : value_slot d v = [slot64 (a_int v)]) by (unfold value_slot; rewrite Ec; reflexivity).
    rewrite <- Hvs in Hag. change 112%N with (conv_char Cp) in Hag. rewrite <- Ec in Hag.
    rewrite (format_render (agent (mem_of d v)) d v [] (value_slot d v) [] cache_init 0 _ Hpos Hne Hwok Hpok Hwfit Hpfit Hag).
    reflexivity.
  - (* %% *)
    unfold in_grammar in Hgr. rewrite Ec in Hgr.
    destruct (d_flags d) eqn:Efl; [|destruct (d_pos d); discriminate].
    destruct (d_width d) eqn:Ew; try (destruct (d_pos d); discriminate).
    destruct (d_prec d) eqn:Ep; try (destruct (d_pos d); discriminate).
    destruct (d_len d) eqn:El; try (destruct (d_pos d); discriminate).
    unfold frigg_printf, frigg_printf_with, iso_printf, args_of, value_slot, mem_of, render.
    rewrite Hpos, Ec, Ew, Ep. reflexivity.
Qed.

(* ---- print_digits / print_int on their own (C19_digits) *)
Theorem digits_theorem :
  forall (v radix : N) (caps : bool),
    (v < 2 ^ 64)%N -> (radix = 2 \/ radix = 8 \/ radix = 10 \/ radix = 16)%N ->
    print_digits v false radix 0 1 32%N false false false false caps default_locale [] = Ok (digits radix caps v)
    /\ digits_value radix (digits radix caps v) = v
    /\ (length (digits radix caps v) <= 64)%nat
    /\ (v <> 0%N -> exists c r, digits radix caps v = c :: r /\ c <> 48%N)
    /\ (v = 0%N -> digits radix caps v = [48%N]).
Proof.
  intros v radix caps Hv Hr.
  assert (H2 : (2 <= radix)%N /\ (radix <= 16)%N) by lia.
  destruct H2 as [H2 H16].
  split; [|split; [|split; [|split]]].
  - rewrite print_digits_spec by assumption.
    f_equal. apply (print_digits_result_plain v radix caps H2).
  - apply digits_value_digits; assumption.
  - apply digits_length_64; assumption.
  - intros Hn. apply digits_head_nonzero; assumption.
  - intros ->. apply digits_zero; assumption.
Qed.

Lemma print_digits_result_neg_plain : forall mag radix caps, (2 <= radix)%N ->
  print_digits_result mag true radix 0 1 32%N false false false caps [] = 45%N :: digits radix caps mag.
Proof.
  intros mag radix caps Hr. unfold print_digits_result.
  change (1 =? 0) with false. rewrite andb_false_r.
  pose proof (digits_nonempty radix caps mag Hr) as Hne.
  assert (Hl : 1 <= zlen (digits radix caps mag)).
  { unfold zlen. destruct (digits radix caps mag); [congruence | cbn [length]; lia]. }
  cbn [sign_chars app N.eqb Pos.eqb].
  rewrite (repeat_neg _ 48%N (1 - zlen (digits radix caps mag))) by lia. cbn [app].
  rewrite repeat_neg by (unfold zlen in *; cbn [length] in *; lia).
  reflexivity.
Qed.

Theorem print_int_min_theorem :
  forall (tbits radix : N), (tbits = 32 \/ tbits = 64)%N -> (radix = 2 \/ radix = 8 \/ radix = 10 \/ radix = 16)%N ->
    print_int tbits (- 2 ^ (Z.of_N tbits - 1)) radix 0 1 32%N false false false false false default_locale []
    = Ok (45%N :: digits radix false (2 ^ (tbits - 1))).
Proof.
  intros tbits radix Ht Hr.
  assert (H2 : (2 <= radix)%N /\ (radix <= 16)%N) by lia.
  destruct H2 as [H2 H16].
  assert (Hpos : 0 < 2 ^ (Z.of_N tbits - 1)) by (apply Z.pow_pos_nonneg; lia).
  rewrite print_int_spec; [ | assumption | assumption | lia | lia | ].
  - replace (- 2 ^ (Z.of_N tbits - 1) <? 0) with true by lia.
    rewrite print_digits_result_neg_plain by assumption. f_equal. f_equal. f_equal.
    destruct Ht as [-> | ->]; reflexivity.
  - split; [lia|]. assert (0 < 2 ^ 64) by (apply Z.pow_pos_nonneg; lia). lia.
Qed.

(* ---- the complete final state for a directive without n$: every argument consumed, the va_arg
   log is exactly "*", ".*", the converted value; the positional cache is untouched *)
Definition value_argty (d : directive) : list argty :=
  match d_conv d with
  | Cd | Ci | Cu | Co | Cx | CX => [int_argty (d_len d)]
  | Cc => [ATInt]
  | Cs | Cp => [ATPtr]
  | Cpct => []
  end.

Theorem printf_nopos_run : forall d v,
  d_pos d = None -> in_grammar d = true -> fits d v = true ->
  run_printf (mem_of d v) (render d) (args_of d v) cache_init
  = (mk_ps (iso_printf d v) (mk_vs [] (star_pops d ++ value_argty d) cache_init 0), Ok tt).
Proof.
  intros d v Hpos Hgr Hfit.
  destruct (d_conv d) eqn:Ec.
  all: try (
    assert (Hne : d_conv d <> Cpct) by (rewrite Ec; discriminate);
    destruct (in_grammar_parts d Hgr Hne) as [Hwok Hpok];
    destruct (fits_parts d v Hfit) as [Hwfit Hpfit];
    unfold run_printf, printf_format;
    rewrite (args_of_split d v Hpos)).
  1-6: (* integers *)
    assert (Hint : is_int_conv (d_conv d) = true) by (rewrite Ec; reflexivity);
    pose proof (agent_int (mem_of d v) d v [] [] ([] ++ star_pops d) cache_init 0 Hint Hgr) as Hag;
    rewrite app_nil_r in Hag;
    rewrite (format_render (agent (mem_of d v)) d v [] (value_slot d v) [] cache_init 0 _ Hpos Hne Hwok Hpok Hwfit Hpfit Hag);
    unfold value_argty; rewrite Ec; reflexivity.
  - (* c *)
    pose proof (agent_char (mem_of d v) d v [] [] ([] ++ star_pops d) cache_init 0 Ec Hgr) as Hag.
    assert (Hvs : value_slot d v = [slot32 (a_int v)]) by (unfold value_slot; rewrite Ec; reflexivity).
    rewrite <- Hvs in Hag. change 99%N with (conv_char Cc) in Hag. rewrite <- Ec in Hag.
    rewrite (format_render (agent (mem_of d v)) d v [] (value_slot d v) [] cache_init 0 _ Hpos Hne Hwok Hpok Hwfit Hpfit Hag).
    unfold value_argty; rewrite Ec; reflexivity.
  - (* s *)
    pose proof (agent_str d v [] [] ([] ++ star_pops d) cache_init 0 Ec Hgr Hfit) as Hag.
    assert (Hvs : value_slot d v = [str_addr]) by (unfold value_slot; rewrite Ec; reflexivity).
    rewrite <- Hvs in Hag. change 115%N with (conv_char Cs) in Hag. rewrite <- Ec in Hag.
    rewrite (format_render (agent (mem_of d v)) d v [] (value_slot d v) [] cache_init 0 _ Hpos Hne Hwok Hpok Hwfit Hpfit Hag).
    unfold value_argty; rewrite Ec; reflexivity.
  - (* p *)
    pose proof (agent_ptr (mem_of d v) d v [] [] ([] ++ star_pops d) cache_init 0 Ec Hgr Hfit) as Hag.
    assert (Hvs : value_slot d v = [slot64 (a_int v)]) by (unfold value_slot; rewrite Ec; reflexivity).
    rewrite <- Hvs in Hag. change 112%N with (conv_char Cp) in Hag. rewrite <- Ec in Hag.
    rewrite (format_render (agent (mem_of d v)) d v [] (value_slot d v) [] cache_init 0 _ Hpos Hne Hwok Hpok Hwfit Hpfit Hag).
    unfold value_argty; rewrite Ec; reflexivity.
  - (* %% *)
    unfold in_grammar in Hgr. rewrite Ec in Hgr.
    destruct (d_flags d) eqn:Efl; [|destruct (d_pos d); discriminate].
    destruct (d_width d) eqn:Ew; try (destruct (d_pos d); discriminate).
    destruct (d_prec d) eqn:Ep; try (destruct (d_pos d); discriminate).
    destruct (d_len d) eqn:El; try (destruct (d_pos d); discriminate).
    unfold iso_printf, args_of, value_slot, mem_of, render, star_pops, value_argty.
    rewrite Hpos, Ec, Ew, Ep. reflexivity.
Qed.
