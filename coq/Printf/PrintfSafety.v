(* C20 for printf_format: on EVERY byte list the parser terminates within the fuel it is given,
   never reads outside the buffer s ++ [0], never overflows an int, never leaves the positional
   cache; the only UB outcomes left are faults of the argument list itself (too few arguments, a
   pointer argument that does not point to a string). *)
From Coq Require Import String.
From Coq Require Import NArith ZArith List Bool Lia ZifyBool ZifyNat ZifyN.
From FV Require Import Printf.PrintIntModel Printf.IsoPrintf Printf.PrintIntProofs Printf.PrintfModel.
Import ListNotations.
Local Open Scope Z_scope.

Definition caller_fault (w : string) : Prop :=
  w = "va_arg past the last argument"%string
  \/ w = "string argument is not a valid pointer"%string
  \/ w = "oob: string argument read past its buffer"%string.

(* state invariant: the positional cache has its 9 cells, num_args stays within it *)
Definition st_ok (st : pstate) : Prop :=
  (9 <= length (arg_list (ps_vs st)))%nat /\ 0 <= num_args (ps_vs st) <= 9.

Definition safe {A} (m : M A) (phi : A -> Prop) : Prop :=
  forall st, st_ok st ->
    match m st with
    | (st', Ok a) => st_ok st' /\ phi a
    | (_, AssertStop _) => True
    | (_, UB w) => caller_fault w
    | (_, OutOfFuel) => False
    end.

Lemma safe_ret : forall A (a : A) (phi : A -> Prop), phi a -> safe (ret a) phi.
Proof. intros A a phi H st Hst. cbn. auto. Qed.

Lemma safe_bind : forall A B (m : M A) (f : A -> M B) phi psi,
  safe m phi -> (forall a, phi a -> safe (f a) psi) -> safe (mbind m f) psi.
Proof.
  intros A B m f phi psi Hm Hf st Hst. unfold mbind. specialize (Hm st Hst).
  destruct (m st) as [st' [a|w|w|]]; try exact Hm.
  destruct Hm as [Hst' Ha]. exact (Hf a Ha st' Hst').
Qed.

Lemma safe_weaken : forall A (m : M A) (phi psi : A -> Prop),
  safe m phi -> (forall a, phi a -> psi a) -> safe m psi.
Proof.
  intros A m phi psi Hm Hw st Hst. specialize (Hm st Hst).
  destruct (m st) as [st' [a|w|w|]]; try exact Hm. destruct Hm; split; auto.
Qed.

Lemma safe_assert : forall b w, safe (massert b w) (fun _ => b = true).
Proof. intros b w st Hst. unfold massert. destruct b; cbn; auto. Qed.

Lemma safe_fail_assert : forall A w (phi : A -> Prop), safe (fail_assert w) phi.
Proof. intros A w phi st Hst. cbn. exact I. Qed.

Lemma safe_emit : forall bs, safe (emit bs) (fun _ => True).
Proof. intros bs st Hst. cbn. split; [exact Hst | exact I]. Qed.

Lemma safe_lift_ok : forall A (o : outcome A) (a : A) (phi : A -> Prop), o = Ok a -> phi a -> safe (lift o) phi.
Proof. intros A o a phi -> H st Hst. cbn. auto. Qed.

(* ---- arguments *)
Definition ctype_ok (ct : ctype) : Prop := (1 <= ct_bits ct)%N /\ (ct_bits ct <= 64)%N.

Lemma interp_range : forall ct raw, ctype_ok ct -> - 2 ^ 63 <= interp ct raw < 2 ^ 64.
Proof.
  intros ct raw [H1 H2]. unfold interp.
  assert (Hp : (0 < 2 ^ ct_bits ct)%N) by (apply N.neq_0_lt_0, N.pow_nonzero; lia).
  pose proof (N.mod_lt raw (2 ^ ct_bits ct) ltac:(lia)) as Hm.
  set (m := Z.of_N (raw mod 2 ^ ct_bits ct)) in *.
  assert (Hm' : 0 <= m < 2 ^ Z.of_N (ct_bits ct)).
  { subst m. split; [lia|]. rewrite <- (N2Z.inj_pow 2). lia. }
  assert (Hle : 2 ^ Z.of_N (ct_bits ct) <= 2 ^ 64) by (apply Z.pow_le_mono_r; lia).
  assert (Hhalf : 2 ^ Z.of_N (ct_bits ct) = 2 * 2 ^ (Z.of_N (ct_bits ct) - 1)).
  { rewrite <- Z.pow_succ_r by lia. f_equal. lia. }
  assert (Hle2 : 2 ^ (Z.of_N (ct_bits ct) - 1) <= 2 ^ 63) by (apply Z.pow_le_mono_r; lia).
  destruct (ct_signed ct && (2 ^ (Z.of_N (ct_bits ct) - 1) <=? m)) eqn:E; lia.
Qed.

Lemma safe_pop_va : forall ct, ctype_ok ct -> safe (pop_va ct) (fun v => - 2 ^ 63 <= v < 2 ^ 64).
Proof.
  intros ct Hct st Hst. unfold pop_va. destruct (va_rest (ps_vs st)) as [|raw r] eqn:E.
  - left; reflexivity.
  - split.
    + destruct Hst as [H1 H2]. split; cbn; assumption.
    + apply interp_range; assumption.
Qed.

Lemma set_nth_length : forall l i f l', set_nth l i f = Some l' -> length l' = length l.
Proof.
  induction l as [|x r IH]; intros i f l' H; cbn in H; [discriminate|].
  destruct i as [|i].
  - inversion H; subst. reflexivity.
  - destruct (set_nth r i f) as [r'|] eqn:E; [|discriminate]. inversion H; subst. cbn. f_equal. eapply IH; eassumption.
Qed.
Lemma set_nth_some : forall l i f, (i < length l)%nat -> exists l', set_nth l i f = Some l'.
Proof.
  induction l as [|x r IH]; intros i f H; cbn in H; [lia|].
  destruct i as [|i]; cbn; [eexists; reflexivity|].
  destruct (IH i f ltac:(lia)) as [r' Hr']. rewrite Hr'. eexists; reflexivity.
Qed.

Lemma safe_write_member : forall pos ct v, 0 <= pos <= 8 -> safe (write_member pos ct v) (fun _ => True).
Proof.
  intros pos ct v Hp st [H1 H2]. unfold write_member.
  replace (pos <? 0) with false by lia.
  destruct (set_nth_some (arg_list (ps_vs st)) (Z.to_nat pos) (cell_write ct v) ltac:(lia)) as [l Hl].
  rewrite Hl. split; [|exact I]. split; cbn; [rewrite (set_nth_length _ _ _ _ Hl); assumption | assumption].
Qed.

Lemma safe_read_member : forall pos ct, ctype_ok ct -> 0 <= pos <= 8 ->
  safe (read_member pos ct) (fun v => - 2 ^ 63 <= v < 2 ^ 64).
Proof.
  intros pos ct Hct Hp st [H1 H2]. unfold read_member.
  replace (pos <? 0) with false by lia.
  destruct (nth_error (arg_list (ps_vs st)) (Z.to_nat pos)) as [cell|] eqn:E.
  - split; [split; assumption | apply interp_range; assumption].
  - apply nth_error_None in E. lia.
Qed.

Lemma safe_set_num_args : forall n, 0 <= n <= 9 -> safe (set_num_args n) (fun _ => True).
Proof. intros n Hn st [H1 H2]. unfold set_num_args. cbn. split; [split; cbn; assumption | exact I]. Qed.
Lemma safe_get_num_args : safe get_num_args (fun n => 0 <= n <= 9).
Proof. intros st [H1 H2]. unfold get_num_args. split; [split; assumption | assumption]. Qed.

Lemma safe_pop_upto : forall n i ct, ctype_ok ct -> 0 <= i -> i + Z.of_nat n <= 9 ->
  safe (pop_upto n i ct) (fun _ => True).
Proof.
  induction n as [|n IH]; intros i ct Hct Hi Hn; cbn [pop_upto].
  - apply safe_ret. exact I.
  - eapply safe_bind; [apply safe_pop_va; assumption|]. intros v _.
    eapply safe_bind; [apply safe_write_member; lia|]. intros _ _.
    apply IH; [assumption | lia | lia].
Qed.

Definition opts_ok (o : format_options) : Prop :=
  -1 <= arg_pos o <= 8 /\ (arg_pos o = -1 \/ dollar_arg_pos o = true) /\ 0 <= minimum_width o.

Lemma safe_pop_arg : forall ct opts, ctype_ok ct -> opts_ok opts ->
  safe (pop_arg ct opts) (fun v => - 2 ^ 63 <= v < 2 ^ 64).
Proof.
  intros ct opts Hct [Hp [Hd Hw]]. unfold pop_arg.
  destruct (arg_pos opts =? -1) eqn:E; [apply safe_pop_va; assumption|].
  destruct Hd as [Hd | Hd]; [lia|]. rewrite Hd.
  eapply safe_bind; [apply safe_get_num_args|]. intros na Hna.
  eapply safe_bind; [apply safe_pop_upto; [assumption | lia | lia]|]. intros _ _.
  eapply safe_bind.
  { destruct (na <=? arg_pos opts); [apply safe_set_num_args; lia | apply safe_ret; exact I]. }
  intros _ _. apply safe_read_member; [assumption | lia].
Qed.

Lemma ct_ok_all : ctype_ok t_schar /\ ctype_ok t_char /\ ctype_ok t_short /\ ctype_ok t_int /\ ctype_ok t_long
  /\ ctype_ok t_llong /\ ctype_ok t_uchar /\ ctype_ok t_ushort /\ ctype_ok t_uint /\ ctype_ok t_ulong
  /\ ctype_ok t_ullong /\ ctype_ok t_ptr.
Proof. unfold ctype_ok; cbn; repeat split; lia. Qed.
Lemma signed_type_ok : forall m ct, signed_type m = Some ct -> ctype_ok ct /\ ct_signed ct = true.
Proof. intros m ct H; destruct m; inversion H; subst; unfold ctype_ok; cbn; repeat split; lia. Qed.
Lemma unsigned_type_ok : forall m ct, unsigned_type m = Some ct -> ctype_ok ct /\ ct_signed ct = false.
Proof. intros m ct H; destruct m; inversion H; subst; unfold ctype_ok; cbn; repeat split; lia. Qed.

Lemma interp_unsigned_nonneg : forall ct raw, ct_signed ct = false -> 0 <= interp ct raw.
Proof. intros ct raw H. unfold interp. rewrite H. cbn [andb]. lia. Qed.
