(* C20 for printf_format: on EVERY byte list the parser terminates within the fuel it is given,
   never reads outside the buffer s ++ [0], never overflows an int, never leaves the positional
   cache; the only UB outcomes left are faults of the argument list itself (too few arguments, a
   pointer argument that does not point to a string). *)
From Coq Require Import String.
From Coq Require Import NArith ZArith List Bool Lia ZifyBool ZifyNat ZifyN.
From FV Require Import Printf.PrintIntModel Printf.IsoPrintf Printf.PrintIntProofs Printf.PrintfModel.
Import ListNotations.
Local Open Scope Z_scope.

Definition caller_fault (w : string) : Prop :=
  w = "va_arg past the last argument"%string
  \/ w = "string argument is not a valid pointer"%string
  \/ w = "oob: string argument read past its buffer"%string.

(* state invariant: the positional cache has its 9 cells, num_args stays within it *)
Definition st_ok (st : pstate) : Prop :=
  (9 <= length (arg_list (ps_vs st)))%nat /\ 0 <= num_args (ps_vs st) <= 9.

Definition safe {A} (m : M A) (phi : A -> Prop) : Prop :=
  forall st, st_ok st ->
    match m st with
    | (st', Ok a) => st_ok st' /\ phi a
    | (_, AssertStop _) => True
    | (_, UB w) => caller_fault w
    | (_, OutOfFuel) => False
    end.

Lemma safe_ret : forall A (a : A) (phi : A -> Prop), phi a -> safe (ret a) phi.
Proof. intros A a phi H st Hst. cbn. auto. Qed.

Lemma safe_bind : forall A B (m : M A) (f : A -> M B) phi psi,
  safe m phi -> (forall a, phi a -> safe (f a) psi) -> safe (mbind m f) psi.
Proof.
  intros A B m f phi psi Hm Hf st Hst. unfold mbind. specialize (Hm st Hst).
  destruct (m st) as [st' [a|w|w|]]; try exact Hm.
  destruct Hm as [Hst' Ha]. exact (Hf a Ha st' Hst').
Qed.

Lemma safe_weaken : forall A (m : M A) (phi psi : A -> Prop),
  safe m phi -> (forall a, phi a -> psi a) -> safe m psi.
Proof.
  intros A m phi psi Hm Hw st Hst. specialize (Hm st Hst).
  destruct (m st) as [st' [a|w|w|]]; try exact Hm. destruct Hm; split; auto.
Qed.

Lemma safe_assert : forall b w, safe (massert b w) (fun _ => b = true).
Proof. intros b w st Hst. unfold massert. destruct b; cbn; auto. Qed.

Lemma safe_fail_assert : forall A w (phi : A -> Prop), safe (fail_assert w) phi.
Proof. intros A w phi st Hst. cbn. exact I. Qed.

Lemma safe_emit : forall bs, safe (emit bs) (fun _ => True).
Proof. intros bs st Hst. cbn. split; [exact Hst | exact I]. Qed.

Lemma safe_lift_ok : forall A (o : outcome A) (a : A) (phi : A -> Prop), o = Ok a -> phi a -> safe (lift o) phi.
Proof. intros A o a phi -> H st Hst. cbn. auto. Qed.

(* ---- arguments *)
Definition ctype_ok (ct : ctype) : Prop := (1 <= ct_bits ct)%N /\ (ct_bits ct <= 64)%N.

Lemma interp_range : forall ct raw, ctype_ok ct -> - 2 ^ 63 <= interp ct raw < 2 ^ 64.
Proof.
  intros ct raw [H1 H2]. unfold interp.
  assert (Hp : (0 < 2 ^ ct_bits ct)%N) by (apply N.neq_0_lt_0, N.pow_nonzero; lia).
  pose proof (N.mod_lt raw (2 ^ ct_bits ct) ltac:(lia)) as Hm.
  set (m := Z.of_N (raw mod 2 ^ ct_bits ct)) in *.
  assert (Hm' : 0 <= m < 2 ^ Z.of_N (ct_bits ct)).
  { subst m. split; [lia|]. rewrite <- (N2Z.inj_pow 2). lia. }
  assert (Hle : 2 ^ Z.of_N (ct_bits ct) <= 2 ^ 64) by (apply Z.pow_le_mono_r; lia).
  assert (Hhalf : 2 ^ Z.of_N (ct_bits ct) = 2 * 2 ^ (Z.of_N (ct_bits ct) - 1)).
  { rewrite <- Z.pow_succ_r by lia. f_equal. lia. }
  assert (Hle2 : 2 ^ (Z.of_N (ct_bits ct) - 1) <= 2 ^ 63) by (apply Z.pow_le_mono_r; lia).
  destruct (ct_signed ct && (2 ^ (Z.of_N (ct_bits ct) - 1) <=? m)) eqn:E; lia.
Qed.

Lemma safe_pop_va : forall ct, ctype_ok ct -> safe (pop_va ct) (fun v => - 2 ^ 63 <= v < 2 ^ 64).
Proof.
  intros ct Hct st Hst. unfold pop_va. destruct (va_rest (ps_vs st)) as [|raw r] eqn:E.
  - left; reflexivity.
  - split.
    + destruct Hst as [H1 H2]. split; cbn; assumption.
    + apply interp_range; assumption.
Qed.

Lemma set_nth_length : forall l i f l', set_nth l i f = Some l' -> length l' = length l.
Proof.
  induction l as [|x r IH]; intros i f l' H; cbn in H; [discriminate|].
  destruct i as [|i].
  - inversion H; subst. reflexivity.
  - destruct (set_nth r i f) as [r'|] eqn:E; [|discriminate]. inversion H; subst. cbn. f_equal. eapply IH; eassumption.
Qed.
Lemma set_nth_some : forall l i f, (i < length l)%nat -> exists l', set_nth l i f = Some l'.
Proof.
  induction l as [|x r IH]; intros i f H; cbn in H; [lia|].
  destruct i as [|i]; cbn; [eexists; reflexivity|].
  destruct (IH i f ltac:(lia)) as [r' Hr']. rewrite Hr'. eexists; reflexivity.
Qed.

Lemma safe_write_member : forall pos ct v, 0 <= pos <= 8 -> safe (write_member pos ct v) (fun _ => True).
Proof.
  intros pos ct v Hp st [H1 H2]. unfold write_member.
  replace (pos <? 0) with false by lia.
  destruct (set_nth_some (arg_list (ps_vs st)) (Z.to_nat pos) (cell_write ct v) ltac:(lia)) as [l Hl].
  rewrite Hl. split; [|exact I]. split; cbn; [rewrite (set_nth_length _ _ _ _ Hl); assumption | assumption].
Qed.

Lemma safe_read_member : forall pos ct, ctype_ok ct -> 0 <= pos <= 8 ->
  safe (read_member pos ct) (fun v => - 2 ^ 63 <= v < 2 ^ 64).
Proof.
  intros pos ct Hct Hp st [H1 H2]. unfold read_member.
  replace (pos <? 0) with false by lia.
  destruct (nth_error (arg_list (ps_vs st)) (Z.to_nat pos)) as [cell|] eqn:E.
  - split; [split; assumption | apply interp_range; assumption].
  - apply nth_error_None in E. lia.
Qed.

Lemma safe_set_num_args : forall n, 0 <= n <= 9 -> safe (set_num_args n) (fun _ => True).
Proof. intros n Hn st [H1 H2]. unfold set_num_args. cbn. split; [split; cbn; assumption | exact I]. Qed.
Lemma safe_get_num_args : safe get_num_args (fun n => 0 <= n <= 9).
Proof. intros st [H1 H2]. unfold get_num_args. split; [split; assumption | assumption]. Qed.

Lemma safe_pop_upto : forall n i ct, ctype_ok ct -> 0 <= i -> i + Z.of_nat n <= 9 ->
  safe (pop_upto n i ct) (fun _ => True).
Proof.
  induction n as [|n IH]; intros i ct Hct Hi Hn; cbn [pop_upto].
  - apply safe_ret. exact I.
  - eapply safe_bind; [apply safe_pop_va; assumption|]. intros v _.
    eapply safe_bind; [apply safe_write_member; lia|]. intros _ _.
    apply IH; [assumption | lia | lia].
Qed.

Definition opts_ok (o : format_options) : Prop :=
  -1 <= arg_pos o <= 8 /\ (arg_pos o = -1 \/ dollar_arg_pos o = true) /\ 0 <= minimum_width o.

Lemma safe_pop_arg : forall ct opts, ctype_ok ct -> opts_ok opts ->
  safe (pop_arg ct opts) (fun v => - 2 ^ 63 <= v < 2 ^ 64).
Proof.
  intros ct opts Hct [Hp [Hd Hw]]. unfold pop_arg.
  destruct (arg_pos opts =? -1) eqn:E; [apply safe_pop_va; assumption|].
  destruct Hd as [Hd | Hd]; [lia|]. rewrite Hd.
  eapply safe_bind; [apply safe_get_num_args|]. intros na Hna. cbv beta in Hna.
  eapply safe_bind; [apply safe_pop_upto; [assumption | lia | lia]|]. intros _ _.
  eapply safe_bind.
  { destruct (na <=? arg_pos opts); [apply safe_set_num_args; lia | apply safe_ret; exact I]. }
  intros _ _. apply safe_read_member; [assumption | lia].
Qed.

Lemma ct_ok_all : ctype_ok t_schar /\ ctype_ok t_char /\ ctype_ok t_short /\ ctype_ok t_int /\ ctype_ok t_long
  /\ ctype_ok t_llong /\ ctype_ok t_uchar /\ ctype_ok t_ushort /\ ctype_ok t_uint /\ ctype_ok t_ulong
  /\ ctype_ok t_ullong /\ ctype_ok t_ptr.
Proof. unfold ctype_ok; cbn; repeat split; lia. Qed.
Lemma signed_type_ok : forall m ct, signed_type m = Some ct -> ctype_ok ct /\ ct_signed ct = true.
Proof. intros m ct H; destruct m; inversion H; subst; unfold ctype_ok; cbn; repeat split; lia. Qed.
Lemma unsigned_type_ok : forall m ct, unsigned_type m = Some ct -> ctype_ok ct /\ ct_signed ct = false.
Proof. intros m ct H; destruct m; inversion H; subst; unfold ctype_ok; cbn; repeat split; lia. Qed.

Lemma interp_unsigned_nonneg : forall ct raw, ct_signed ct = false -> 0 <= interp ct raw.
Proof. intros ct raw H. unfold interp. rewrite H. cbn [andb]. lia. Qed.

(* ---- pure computations lifted into M *)
Definition outcome_safe {A} (o : outcome A) (phi : A -> Prop) : Prop :=
  match o with Ok a => phi a | AssertStop _ => True | UB w => caller_fault w | OutOfFuel => False end.

Lemma safe_lift : forall A (o : outcome A) (phi : A -> Prop), outcome_safe o phi -> safe (lift o) phi.
Proof. intros A o phi H st Hst. unfold lift. destruct o; cbn in *; auto. Qed.

Lemma print_int_safe : forall number radix width prec padding lj gt asign pspace caps prefix,
  (radix = 2 \/ radix = 8 \/ radix = 10 \/ radix = 16)%N -> - 2 ^ 63 <= number < 2 ^ 64 ->
  outcome_safe (print_int 64 number radix width prec padding lj gt asign pspace caps default_locale prefix) (fun _ => True).
Proof.
  intros. rewrite print_int_spec; [exact I | lia | lia | lia | lia | change (Z.of_N 64 - 1) with 63; lia].
Qed.

Lemma c_strnlen_safe : forall buf m acc, outcome_safe (c_strnlen buf m acc) (fun _ => True).
Proof.
  induction buf as [|ch r IH]; intros m acc; destruct m as [[|m]|]; cbn [c_strnlen]; try exact I.
  - right; right; reflexivity.
  - right; right; reflexivity.
  - destruct (N.eqb ch 0); [exact I | apply IH].
  - destruct (N.eqb ch 0); [exact I | apply IH].
Qed.

Lemma copy_chars_safe : forall n buf, outcome_safe (copy_chars n buf) (fun _ => True).
Proof.
  induction n as [|n IH]; intros buf; cbn [copy_chars]; [exact I|].
  destruct buf as [|ch r]; [right; right; reflexivity|].
  destruct (N.eqb ch 0); [exact I|].
  specialize (IH r). destruct (copy_chars n r); cbn in *; auto.
Qed.

Ltac sintro := let a := fresh "a" in let H := fresh "H" in intros a H; cbv beta in H.
Ltac sbind_with t := eapply safe_bind; [ t | sintro ].
Ltac sbind0 := eapply safe_bind.

Lemma safe_printf_string : forall mem opts, opts_ok opts -> safe (printf_string mem opts) (fun _ => True).
Proof.
  intros mem opts Ho. unfold printf_string.
  sbind_with ltac:(apply safe_pop_arg; [apply ct_ok_all | assumption]).
  sbind0.
  { instantiate (1 := fun _ => True).
    destruct (a =? 0); [apply safe_ret; exact I|].
    destruct (mem_lookup mem (Z.to_N a)); [apply safe_ret; exact I|].
    intros st Hst. cbn. right; left; reflexivity. }
  sintro.
  sbind0.
  { apply safe_lift. instantiate (1 := fun _ => True).
    destruct (precision opts); apply c_strnlen_safe. }
  sintro.
  sbind_with ltac:(apply safe_lift; apply copy_chars_safe).
  destruct (left_justify opts); apply safe_emit.
Qed.

Lemma safe_do_printf_chars : forall mem t opts szmod, opts_ok opts ->
  safe (do_printf_chars mem t opts szmod) (fun _ => True).
Proof.
  intros mem t opts szmod Ho. unfold do_printf_chars.
  destruct (N.eqb t 112).
  { sbind_with ltac:(apply safe_assert). sbind_with ltac:(apply safe_assert). sbind_with ltac:(apply safe_assert).
    sbind_with ltac:(apply safe_assert). sbind_with ltac:(apply safe_emit).
    sbind_with ltac:(apply safe_pop_arg; [apply ct_ok_all | assumption]).
    sbind_with ltac:(apply safe_lift; unfold print_int_default; apply print_int_safe; [right; right; right; reflexivity | assumption]).
    apply safe_emit. }
  destruct (N.eqb t 99).
  { sbind_with ltac:(apply safe_assert). sbind_with ltac:(apply safe_assert). sbind_with ltac:(apply safe_assert).
    sbind_with ltac:(apply safe_assert).
    destruct Ho as [Hp [Hd Hw]].
    replace (minimum_width opts =? INT_MIN) with false by (unfold INT_MIN; lia).
    destruct (left_justify opts).
    - sbind_with ltac:(apply safe_pop_arg; [apply ct_ok_all | repeat split; assumption || lia]).
      sbind_with ltac:(apply safe_emit). apply safe_emit.
    - sbind_with ltac:(apply safe_emit).
      sbind_with ltac:(apply safe_pop_arg; [apply ct_ok_all | repeat split; assumption || lia]).
      apply safe_emit. }
  destruct (N.eqb t 115).
  { sbind_with ltac:(apply safe_assert). sbind_with ltac:(apply safe_assert).
    destruct (szmod_eqb szmod default_size); [apply safe_printf_string; assumption|].
    sbind_with ltac:(apply safe_assert). apply safe_printf_string; assumption. }
  apply safe_fail_assert.
Qed.

Lemma safe_print_unsigned : forall opts number radix prec prefix gt caps,
  (radix = 2 \/ radix = 8 \/ radix = 10 \/ radix = 16)%N -> - 2 ^ 63 <= number < 2 ^ 64 ->
  safe (print_unsigned opts number radix prec prefix gt caps) (fun _ => True).
Proof.
  intros. unfold print_unsigned.
  sbind_with ltac:(apply safe_lift; apply print_int_safe; assumption). apply safe_emit.
Qed.

Lemma safe_do_printf_ints : forall t opts szmod, opts_ok opts ->
  safe (do_printf_ints t opts szmod) (fun _ => True).
Proof.
  intros t opts szmod Ho. unfold do_printf_ints.
  destruct (N.eqb t 100 || N.eqb t 105).
  { sbind_with ltac:(apply safe_assert).
    destruct (signed_type szmod) as [ct|] eqn:E; [|apply safe_fail_assert].
    sbind_with ltac:(apply safe_pop_arg; [apply (signed_type_ok _ _ E) | assumption]).
    sbind_with ltac:(apply safe_lift; apply print_int_safe; [right; right; left; reflexivity | assumption]).
    apply safe_emit. }
  destruct (N.eqb t 98 || N.eqb t 66 || N.eqb t 111 || N.eqb t 120 || N.eqb t 88).
  { destruct (unsigned_type szmod) as [ct|] eqn:E; [|apply safe_fail_assert].
    sbind_with ltac:(apply safe_pop_arg; [apply (unsigned_type_ok _ _ E) | assumption]).
    destruct (N.eqb t 98); [apply safe_print_unsigned; [left; reflexivity | assumption]|].
    destruct (N.eqb t 66); [apply safe_print_unsigned; [left; reflexivity | assumption]|].
    destruct (N.eqb t 111); [apply safe_print_unsigned; [right; left; reflexivity | assumption]|].
    destruct (N.eqb t 120); apply safe_print_unsigned; try assumption; right; right; right; reflexivity. }
  destruct (N.eqb t 117).
  { destruct (unsigned_type szmod) as [ct|] eqn:E; [|apply safe_fail_assert].
    sbind_with ltac:(apply safe_pop_arg; [apply (unsigned_type_ok _ _ E) | assumption]).
    sbind_with ltac:(apply safe_assert).
    apply safe_print_unsigned; [right; right; left; reflexivity | assumption]. }
  apply safe_fail_assert.
Qed.

Lemma safe_agent : forall mem t opts szmod, opts_ok opts -> safe (agent mem t opts szmod) (fun _ => True).
Proof.
  intros. unfold agent.
  destruct (N.eqb t 99 || N.eqb t 112 || N.eqb t 115);
    [apply safe_do_printf_chars | apply safe_do_printf_ints]; assumption.
Qed.

(* ------------------------------------------------------------------------------------------ *)
(* the parser, over an arbitrary byte list                                                      *)
(* ------------------------------------------------------------------------------------------ *)
Section Parser.
Variable s : list byte.

Lemma safe_read : forall i, (i <= length s)%nat ->
  safe (read s i) (fun c => c <> 0%N -> (i < length s)%nat).
Proof.
  intros i Hi. unfold read.
  destruct (Nat.ltb i (length s)) eqn:E.
  - apply safe_ret. intros _. apply Nat.ltb_lt. exact E.
  - destruct (Nat.eqb i (length s)) eqn:E2.
    + apply safe_ret. intros H; congruence.
    + apply Nat.ltb_ge in E. apply Nat.eqb_neq in E2. lia.
Qed.

Lemma safe_assert_nz : forall i, (i <= length s)%nat -> safe (assert_nz s i) (fun _ => (i < length s)%nat).
Proof.
  intros i Hi. unfold assert_nz. sbind_with ltac:(apply safe_read; assumption).
  eapply safe_weaken; [apply safe_assert|]. cbv beta. intros _ Hb.
  apply H. intro Ha. subst a. discriminate.
Qed.

Lemma is_digit_nz : forall c, is_digit c = true -> c <> 0%N.
Proof. intros c H ->. discriminate. Qed.

Lemma safe_scan_literal : forall fuel pos n, (pos + n <= length s)%nat -> (length s - (pos + n) < fuel)%nat ->
  safe (scan_literal s fuel pos n) (fun n' => (n <= n' /\ pos + n' <= length s)%nat).
Proof.
  induction fuel as [|fuel IH]; intros pos n Hp Hf; [lia|]. cbn [scan_literal].
  sbind_with ltac:(apply safe_read; assumption).
  destruct (negb (N.eqb a 0) && negb (N.eqb a 37)) eqn:E.
  - assert (Ha : a <> 0%N) by (intro; subst a; discriminate). specialize (H Ha).
    eapply safe_weaken; [apply IH; lia|]. cbv beta. intros n' Hn'. lia.
  - apply safe_ret. lia.
Qed.

Lemma set_flag_ok : forall c o o', set_flag c o = Some o' -> opts_ok o -> opts_ok o'.
Proof.
  intros c o o' H Ho. destruct o. unfold set_flag in H.
  repeat (match type of H with (if ?b then _ else _) = _ => destruct b end);
    try discriminate; inversion H; subst; exact Ho.
Qed.
Lemma set_arg_pos_ok : forall p o, -1 <= p <= 8 -> opts_ok o -> opts_ok (set_arg_pos p o).
Proof. intros p o Hp Ho. destruct o. unfold opts_ok in *. cbn in *. repeat split; try lia; try (right; reflexivity). Qed.
Lemma set_width_ok : forall w o, 0 <= w -> opts_ok o -> opts_ok (set_width w o).
Proof. intros w o Hw Ho. destruct o. unfold opts_ok in *. cbn in *. repeat split; try lia; try tauto. Qed.
Lemma set_precision_ok : forall p o, opts_ok o -> opts_ok (set_precision p o).
Proof. intros p o Ho. destruct o. exact Ho. Qed.
Lemma set_left_ok : forall o, opts_ok o -> opts_ok (set_left o).
Proof. intros o Ho. destruct o. exact Ho. Qed.
Lemma set_dollar_default_ok : forall b, opts_ok (set_dollar b default_options).
Proof. intros b. unfold opts_ok. cbn. repeat split; try lia; try (left; reflexivity). Qed.

Definition flags_post (p0 : nat) (x : nat * format_options * bool) : Prop :=
  (p0 <= fst (fst x) < length s)%nat /\ opts_ok (snd (fst x)).

Lemma safe_flags_loop : forall fuel pos opts dollar, (pos < length s)%nat -> opts_ok opts ->
  (length s - pos < fuel)%nat -> safe (flags_loop s fuel pos opts dollar) (flags_post pos).
Proof.
  induction fuel as [|fuel IH]; intros pos opts dollar Hp Ho Hf; [lia|]. cbn [flags_loop].
  sbind_with ltac:(apply safe_read; lia). rename a into c.
  sbind0.
  { instantiate (1 := fun b => b = true -> is_digit c = true /\ (pos + 1 < length s)%nat).
    destruct (is_digit c) eqn:Ed.
    - sbind_with ltac:(apply safe_read; lia). apply safe_ret. intros Hb. split; [reflexivity|].
      apply H0. intro Ha. subst a. discriminate.
    - apply safe_ret. discriminate. }
  sintro.
  rename a into positional. destruct positional.
  - destruct (H0 eq_refl) as [H0' H0'']. clear H0. rename H0' into H0.
    sbind_with ltac:(apply safe_assert_nz; lia).
    eapply safe_weaken; [apply IH; [assumption | | lia]|].
    + apply set_arg_pos_ok; [|assumption]. unfold is_digit in H0. lia.
    + intros x [Hx1 Hx2]. split; [lia | assumption].
  - destruct (set_flag c opts) as [o'|] eqn:Es.
    + sbind_with ltac:(apply safe_assert_nz; lia).
      eapply safe_weaken; [apply IH; [assumption | eapply set_flag_ok; eassumption | lia]|].
      intros x [Hx1 Hx2]. split; [lia | assumption].
    + apply safe_ret. split; [cbn [fst]; lia | cbn [snd]; assumption].
Qed.

Definition number_post (p0 : nat) (x : nat * Z) : Prop := (p0 <= fst x < length s)%nat /\ 0 <= snd x <= INT_MAX.

Lemma safe_number_loop : forall fuel msg pos w, (pos < length s)%nat -> 0 <= w <= INT_MAX ->
  (length s - pos < fuel)%nat -> safe (number_loop s fuel msg pos w) (number_post pos).
Proof.
  induction fuel as [|fuel IH]; intros msg pos w Hp Hw Hf; [lia|]. cbn [number_loop].
  sbind_with ltac:(apply safe_read; lia). rename a into c.
  destruct (is_digit c) eqn:Ed.
  - sbind_with ltac:(apply safe_assert).
    assert (Hd : 0 <= Z.of_N c - 48 <= 9) by (unfold is_digit in Ed; lia).
    assert (Hb : w * 10 + (Z.of_N c - 48) <= INT_MAX).
    { pose proof (Z.mul_div_le (INT_MAX - (Z.of_N c - 48)) 10 ltac:(lia)). lia. }
    replace (in_int (w * 10)) with true by (unfold in_int, INT_MIN, INT_MAX in *; lia).
    replace (in_int (w * 10 + (Z.of_N c - 48))) with true by (unfold in_int, INT_MIN, INT_MAX in *; lia).
    cbn [negb].
    sbind_with ltac:(apply safe_assert_nz; lia).
    eapply safe_weaken; [apply IH; [assumption | lia | lia]|].
    intros x [Hx1 Hx2]. split; [lia | assumption].
  - apply safe_ret. split; [cbn [fst]; lia | cbn [snd]; assumption].
Qed.

Lemma safe_parse_size_mod : forall pos, (pos < length s)%nat ->
  safe (parse_size_mod s pos) (fun x => (pos <= fst x < length s)%nat).
Proof.
  intros pos Hp. unfold parse_size_mod.
  sbind_with ltac:(apply safe_read; lia). rename a into c.
  destruct (N.eqb c 108).
  { sbind_with ltac:(apply safe_assert_nz; lia). sbind_with ltac:(apply safe_read; lia).
    destruct (N.eqb a0 108).
    - sbind_with ltac:(apply safe_assert_nz; lia). apply safe_ret; cbn [fst]; lia.
    - apply safe_ret; cbn [fst]; lia. }
  destruct (N.eqb c 122); [sbind_with ltac:(apply safe_assert_nz; lia); apply safe_ret; cbn [fst]; lia|].
  destruct (N.eqb c 76); [sbind_with ltac:(apply safe_assert_nz; lia); apply safe_ret; cbn [fst]; lia|].
  destruct (N.eqb c 104).
  { sbind_with ltac:(apply safe_assert_nz; lia). sbind_with ltac:(apply safe_read; lia).
    destruct (N.eqb a0 104).
    - sbind_with ltac:(apply safe_assert_nz; lia). apply safe_ret; cbn [fst]; lia.
    - apply safe_ret; cbn [fst]; lia. }
  destruct (N.eqb c 116); [sbind_with ltac:(apply safe_assert_nz; lia); apply safe_ret; cbn [fst]; lia|].
  destruct (N.eqb c 106); [sbind_with ltac:(apply safe_assert_nz; lia); apply safe_ret; cbn [fst]; lia|].
  apply safe_ret; cbn [fst]; lia.
Qed.

Lemma safe_star_width : forall w opts, opts_ok opts -> safe (star_width w opts) opts_ok.
Proof.
  intros w opts Ho. unfold star_width. destruct (w <? 0) eqn:E.
  - sbind_with ltac:(apply safe_assert). apply safe_ret. apply set_width_ok; [lia | apply set_left_ok; assumption].
  - apply safe_ret. apply set_width_ok; [lia | assumption].
Qed.

Section WithAgent.
Variable ag : byte -> format_options -> printf_size_mod -> M unit.
Hypothesis ag_safe : forall t opts szmod, opts_ok opts -> safe (ag t opts szmod) (fun _ => True).

Definition pos_opts_post (p0 : nat) (x : nat * format_options) : Prop := (p0 <= fst x < length s)%nat /\ opts_ok (snd x).

Lemma safe_parse_directive : forall pos dollar, (pos < length s)%nat ->
  safe (parse_directive s ag pos dollar) (fun x => (pos < fst x <= length s)%nat).
Proof.
  intros pos dollar Hp. unfold parse_directive.
  sbind_with ltac:(apply safe_flags_loop; [assumption | apply set_dollar_default_ok | lia]).
  destruct a as [[pos1 opts1] dollar1]. destruct H as [Hp1 Ho1]. cbn [fst snd] in Hp1, Ho1.
  sbind_with ltac:(apply safe_read; lia). rename a into c.
  sbind0.
  { instantiate (1 := pos_opts_post pos1).
    destruct (N.eqb c 42).
    - sbind_with ltac:(apply safe_assert_nz; lia).
      sbind_with ltac:(apply safe_pop_arg; [apply ct_ok_all | assumption]).
      sbind_with ltac:(apply safe_star_width; assumption).
      apply safe_ret. split; [cbn [fst]; lia | cbn [snd]; assumption].
    - sbind_with ltac:(apply safe_number_loop; [lia | unfold INT_MAX; lia | lia]).
      destruct H0 as [Hz1 Hz2]. apply safe_ret. split; [cbn [fst] in *; lia|].
      apply set_width_ok; [lia | assumption]. }
  sintro.
  destruct a as [pos2 opts2]. destruct H0 as [Hp2 Ho2]. cbn [fst snd] in Hp2, Ho2.
  sbind_with ltac:(apply safe_read; lia). rename a into c2.
  sbind0.
  { instantiate (1 := pos_opts_post pos2).
    destruct (N.eqb c2 46).
    - sbind_with ltac:(apply safe_assert_nz; lia). sbind_with ltac:(apply safe_read; lia).
      destruct (N.eqb a0 42).
      + sbind_with ltac:(apply safe_assert_nz; lia).
        sbind_with ltac:(apply safe_pop_arg; [apply ct_ok_all | assumption]).
        apply safe_ret. split; [cbn [fst] in *; lia|].
        destruct (0 <=? a2); [apply set_precision_ok|]; assumption.
      + sbind_with ltac:(apply safe_number_loop; [lia | unfold INT_MAX; lia | lia]).
        destruct H3 as [Hz1 Hz2]. apply safe_ret. split; [cbn [fst] in *; lia|].
        apply set_precision_ok; assumption.
    - apply safe_ret. split; [cbn [fst]; lia | cbn [snd]; assumption]. }
  sintro.
  destruct a as [pos3 opts3]. destruct H1 as [Hp3 Ho3]. cbn [fst snd] in Hp3, Ho3.
  sbind_with ltac:(apply safe_parse_size_mod; lia).
  destruct a as [pos4 szmod]. cbn [fst] in H1.
  sbind_with ltac:(apply safe_read; lia).
  sbind_with ltac:(apply ag_safe; assumption).
  apply safe_ret. cbn [fst]. lia.
Qed.

Lemma safe_format_loop : forall fuel pos dollar, (pos <= length s)%nat -> (length s - pos < fuel)%nat ->
  safe (format_loop s ag fuel pos dollar) (fun _ => True).
Proof.
  induction fuel as [|fuel IH]; intros pos dollar Hp Hf; [lia|]. cbn [format_loop].
  sbind_with ltac:(apply safe_read; assumption). rename a into c.
  destruct (N.eqb c 0) eqn:E0; [apply safe_ret; exact I|].
  assert (Hc : (pos < length s)%nat) by (apply H; intro; subst c; discriminate).
  destruct (negb (N.eqb c 37)).
  - sbind_with ltac:(apply safe_scan_literal; lia).
    sbind_with ltac:(apply safe_emit).
    apply IH; lia.
  - sbind_with ltac:(apply safe_assert_nz; lia).
    sbind_with ltac:(apply safe_read; lia).
    destruct (N.eqb a0 37).
    + sbind_with ltac:(apply safe_emit). apply IH; lia.
    + sbind_with ltac:(apply safe_parse_directive; assumption).
      apply IH; lia.
Qed.

Lemma safe_printf_format_with : safe (printf_format_with s ag) (fun _ => True).
Proof. unfold printf_format_with. apply safe_format_loop; lia. Qed.

End WithAgent.
End Parser.

(* ------------------------------------------------------------------------------------------ *)
(* the statement                                                                                *)
(* ------------------------------------------------------------------------------------------ *)
Theorem printf_format_total_safe : forall (mem : memory) (s : list byte) (args cache : list N),
  (9 <= length cache)%nat ->
  match snd (run_printf mem s args cache) with
  | Ok _ => True
  | AssertStop _ => True
  | UB w => caller_fault w
  | OutOfFuel => False
  end.
Proof.
  intros mem s args cache Hc. unfold run_printf, printf_format.
  pose proof (safe_printf_format_with s (agent mem) (safe_agent mem)
                (mk_ps [] (mk_vs args [] cache 0))) as H.
  assert (Hst : st_ok (mk_ps [] (mk_vs args [] cache 0))) by (split; cbn; lia).
  specialize (H Hst).
  destruct (printf_format_with s (agent mem) (mk_ps [] (mk_vs args [] cache 0))) as [st' [a|w|w|]]; cbn [snd]; try exact I; try exact H.
Qed.
