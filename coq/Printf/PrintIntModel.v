(* Model of frg::_fmt_basics::print_digits / print_int (include/frg/formatting.hpp) and of the
   option records they are called with.  Definitions only (no proofs).  This file is the interface
   that the printf model (PrintfModel.v) and the fmt()/logger models build on.

   Conventions: a byte is an [N] < 256; C [int]s are [Z]; the sink is a [list byte] (what was
   appended, in order).  [outcome] is the project-wide Ok / AssertStop / UB / OutOfFuel. *)
From Coq Require Import String.
From Coq Require Import NArith ZArith List Bool.
Import ListNotations.
Local Open Scope Z_scope.

Notation byte := N (only parsing).     (* a byte is an N < 256 *)

Inductive outcome (A : Type) : Type :=
| Ok (a : A)
| AssertStop (w : string)
| UB (w : string)
| OutOfFuel.
Arguments Ok {A} a.
Arguments AssertStop {A} w.
Arguments UB {A} w.
Arguments OutOfFuel {A}.

Definition bind {A B} (m : outcome A) (f : A -> outcome B) : outcome B :=
  match m with
  | Ok a => f a
  | AssertStop w => AssertStop w
  | UB w => UB w
  | OutOfFuel => OutOfFuel
  end.
Notation "x <- m ;; f" := (bind m (fun x => f)) (at level 61, m at next level, right associativity).

Definition INT_MAX : Z := 2147483647.
Definition INT_MIN : Z := -2147483648.
Definition in_int (z : Z) : bool := (INT_MIN <=? z) && (z <=? INT_MAX).

(* ---- frg::format_options (formatting.hpp:48-70) *)
Inductive format_conversion := conv_null | conv_character | conv_binary | conv_octal | conv_decimal | conv_hex.

Record format_options := mk_fo {
  fo_conversion : format_conversion;
  minimum_width : Z;
  arg_pos : Z;
  dollar_arg_pos : bool;
  precision : option Z;
  left_justify : bool;
  always_sign : bool;
  plus_becomes_space : bool;
  alt_conversion : bool;
  fill_zeros : bool;
  group_thousands : bool;
  use_capitals : bool
}.

Definition default_options : format_options :=
  mk_fo conv_null 0 (-1) false None false false false false false false false.

(* ---- frg::locale_options (formatting.hpp:72-85).  [loc_grouping] holds the chars of the
   grouping string as signed chars WITHOUT the terminating NUL; index = length reads the NUL,
   any other index outside is out of bounds.  [loc_sep_size = None]: the default constructor leaves
   thousands_sep_size uninitialised. *)
Record locale_options := mk_loc {
  loc_grouping : list Z;
  loc_sep : list byte;
  loc_sep_size : option N
}.
Definition default_locale : locale_options := mk_loc [(-83)] [] None.      (* grouping = "\255" *)

Definition read_grouping (loc : locale_options) (i : Z) : outcome Z :=
  if i <? 0 then UB "oob: locale grouping index < 0"
  else if i <? Z.of_nat (length (loc_grouping loc)) then Ok (nth (Z.to_nat i) (loc_grouping loc) 0)
  else if i =? Z.of_nat (length (loc_grouping loc)) then Ok 0
  else UB "oob: locale grouping index past the NUL".

(* grouping counters of print_digits: c (chars since last grouping), g (grouping index),
   r (repeats of the last grouping), extra (chars added by separators) *)
Record gstate := mk_gs { gs_c : Z; gs_g : Z; gs_r : Z; gs_extra : Z }.
Definition gs0 : gstate := mk_gs 0 0 0 0.

(* formatting.hpp:113-125 *)
Definition step_grouping (gt : bool) (loc : locale_options) (s : gstate) : outcome gstate :=
  if negb gt then Ok s else
  let c := gs_c s + 1 in
  gg <- read_grouping loc (gs_g s) ;;
  if c =? gg then
    gn <- read_grouping loc (gs_g s + 1) ;;
    match loc_sep_size loc with
    | None => UB "read of uninitialised thousands_sep_size"
    | Some sz =>
      if gn >? 0 then Ok (mk_gs 0 (gs_g s + 1) (gs_r s) (gs_extra s + Z.of_N sz))
      else Ok (mk_gs 0 (gs_g s) (gs_r s + 1) (gs_extra s + Z.of_N sz))
    end
  else Ok (mk_gs c (gs_g s) (gs_r s) (gs_extra s)).

(* formatting.hpp:127-137; returns the new counters and what was appended to the sink *)
Definition emit_grouping (gt : bool) (loc : locale_options) (s : gstate) : outcome (gstate * list byte) :=
  if negb gt then Ok (s, []) else
  let c := gs_c s - 1 in
  if c =? 0 then
    (* if ((!r || !--r) && g > 0) g--; *)
    let '(dec, r') :=
      if gs_r s =? 0 then (true, gs_r s)
      else if gs_r s - 1 =? 0 then (true, gs_r s - 1) else (false, gs_r s - 1) in
    let g' := if dec && (gs_g s >? 0) then gs_g s - 1 else gs_g s in
    c' <- read_grouping loc g' ;;
    Ok (mk_gs c' g' r' (gs_extra s), loc_sep loc)
  else Ok (mk_gs c (gs_g s) (gs_r s) (gs_extra s), []).

Fixpoint step_grouping_n (n : nat) (gt : bool) (loc : locale_options) (s : gstate) : outcome gstate :=
  match n with
  | O => Ok s
  | S n' => s' <- step_grouping gt loc s ;; step_grouping_n n' gt loc s'
  end.

Definition digit_char (caps : bool) (d : N) : byte :=
  (if N.ltb d 10 then 48 + d else (if caps then 55 else 87) + d)%N.

(* the do-while at formatting.hpp:140-145: buffer is returned most significant digit first
   (the C++ fills it in reverse and prints it backwards); k = length of the buffer *)
Fixpoint digits_loop (fuel : nat) (number radix : N) (caps gt : bool) (loc : locale_options)
         (buf : list byte) (k : Z) (s : gstate) : outcome (list byte * Z * gstate) :=
  match fuel with
  | O => OutOfFuel
  | S fuel' =>
    if negb (k <? 64) then AssertStop "k < 64" else
    let buf' := digit_char caps (N.modulo number radix) :: buf in
    let number' := N.div number radix in
    s' <- step_grouping gt loc s ;;
    if N.eqb number' 0 then Ok (buf', k + 1, s')
    else digits_loop fuel' number' radix caps gt loc buf' (k + 1) s'
  end.

(* the two emission loops (precision zeros, then the digits), formatting.hpp:167-177 *)
Fixpoint emit_chars (cs : list byte) (gt : bool) (loc : locale_options) (s : gstate) (acc : list byte)
  : outcome (gstate * list byte) :=
  match cs with
  | [] => Ok (s, acc)
  | ch :: r =>
    x <- emit_grouping gt loc s ;;
    emit_chars r gt loc (fst x) (acc ++ [ch] ++ snd x)
  end.

(* print_digits, formatting.hpp:99-205.  [number] is the (unsigned or non-negative) value;
   [prefix] is the alternate-form prefix ([] for nullptr). *)
Definition print_digits (number : N) (negative : bool) (radix : N) (width prec : Z) (padding : byte)
           (lj gt asign pspace caps : bool) (loc : locale_options) (prefix : list byte) : outcome (list byte) :=
  x <- (if negb (N.eqb number 0) || negb (prec =? 0)
        then digits_loop 65 number radix caps gt loc [] 0 gs0
        else Ok ([], 0, gs0)) ;;
  let '(buf, k, s) := x in
  s <- (if k <? prec then step_grouping_n (Z.to_nat (prec - k)) gt loc s else Ok s) ;;
  s <- (if gs_c s =? 0 then c' <- read_grouping loc (gs_g s) ;; Ok (mk_gs c' (gs_g s) (gs_r s) (gs_extra s))
        else Ok s) ;;
  let has_sign := negative || asign || pspace in
  let final_width := Z.max k prec + gs_extra s + (if has_sign then 1 else 0) + Z.of_nat (length prefix) in
  let sign := (if negative then [45%N] else if asign then [43%N] else if pspace then [32%N] else []) ++ prefix in
  let zero_pad := N.eqb padding 48 in
  let lpad := if negb lj && (final_width <? width) then repeat padding (Z.to_nat (width - final_width)) else [] in
  let zeros := if k <? prec then repeat 48%N (Z.to_nat (prec - k)) else [] in
  y <- emit_chars (zeros ++ buf) gt loc s [] ;;
  let rpad := if lj && (final_width <? width) then repeat 32%N (Z.to_nat (width - final_width)) else [] in
  Ok ((if zero_pad then sign ++ lpad else lpad ++ sign) ++ snd y ++ rpad).

(* print_int<T>, formatting.hpp:187-203, for T of rank >= int: [tbits] is the width of T,
   [number] its value (negative only for signed T).  (For T narrower than int the C++ promotes
   [~static_cast<unsigned T>(number)] to int; no caller in printf.hpp instantiates that.) *)
Definition twos_abs (tbits : N) (number : Z) : N :=
  let u := Z.to_N (number mod 2 ^ Z.of_N tbits) in
  N.modulo (N.lxor u (N.ones tbits) + 1) (2 ^ tbits).

Definition print_int (tbits : N) (number : Z) (radix : N) (width prec : Z) (padding : byte)
           (lj gt asign pspace caps : bool) (loc : locale_options) (prefix : list byte) : outcome (list byte) :=
  if number <? 0 then
    print_digits (twos_abs tbits number) true radix width prec padding lj gt asign pspace caps loc prefix
  else
    print_digits (Z.to_N number) false radix width prec padding lj gt asign pspace caps loc prefix.

(* print_int(sink, x, radix) with all defaults *)
Definition print_int_default (tbits : N) (number : Z) (radix : N) : outcome (list byte) :=
  print_int tbits number radix 0 1 32%N false false false false false default_locale [].
