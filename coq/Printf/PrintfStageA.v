(* Stage A of the conformance proof, assembled: running printf_format on the rendering of one
   directive of the grammar calls the agent exactly once, with the options the directive denotes,
   after fetching the '*' arguments. *)
From Coq Require Import String.
From Coq Require Import NArith ZArith List Bool Lia ZifyBool ZifyNat ZifyN.
From FV Require Import Printf.PrintIntModel Printf.IsoPrintf Printf.PrintfModel Printf.PrintfParse Printf.PrintfConform.
Import ListNotations.
Local Open Scope Z_scope.

(* ---- character classes of the rendering *)
Definition nz36 (c : byte) : Prop := c <> 0%N /\ c <> 36%N.
Definition plain (c : byte) : Prop :=
  nz36 c /\ c <> 37%N /\ c <> 42%N /\ c <> 46%N /\ not_flag c /\ is_digit c = false.

Lemma conv_char_plain : forall cv, is_conv_char cv -> plain cv.
Proof. intros cv H. unfold is_conv_char in H. unfold plain, nz36, not_flag, is_digit. repeat split; lia. Qed.

Lemma conv_char_is : forall c, c <> Cpct -> is_conv_char (conv_char c).
Proof. intros c H. destruct c; try congruence; unfold is_conv_char; cbn; lia. Qed.

Lemma len_chars_plain : forall l, Forall plain (len_chars l).
Proof. intros l; destruct l; cbn; repeat constructor; unfold nz36, not_flag, is_digit; try lia; repeat split; lia. Qed.

Lemma digit_nz36 : forall c, is_digit c = true -> nz36 c.
Proof. intros c H. unfold is_digit in H. unfold nz36. lia. Qed.

Lemma plain_nz36 : forall c, plain c -> nz36 c.
Proof. intros c H. apply H. Qed.

Lemma nth0_nz36 : forall (t : list byte), Forall nz36 t -> nth 0 t 0%N <> 36%N.
Proof. intros t H. destruct t as [|c r]; cbn; [discriminate|]. inversion H; subst. apply H2. Qed.

(* L ++ [cv] *)
Definition tail3 (d : directive) : list byte := len_chars (d_len d) ++ [conv_char (d_conv d)].

Lemma tail3_cons : forall d, d_conv d <> Cpct ->
  exists c r, tail3 d = c :: r /\ plain c /\ Forall nz36 r.
Proof.
  intros d Hc. unfold tail3.
  pose proof (conv_char_plain _ (conv_char_is _ Hc)) as Hp.
  pose proof (len_chars_plain (d_len d)) as Hl.
  destruct (len_chars (d_len d)) as [|c r] eqn:E; cbn [app].
  - eexists; eexists; split; [reflexivity|]. split; [assumption | constructor].
  - inversion Hl; subst. eexists; eexists; split; [reflexivity|]. split; [assumption|].
    apply Forall_app. split.
    + eapply Forall_impl; [|eassumption]. intros a Ha. apply Ha.
    + constructor; [apply Hp | constructor].
Qed.

(* the options a directive denotes *)
Definition width_opts (d : directive) (v : argval) (o : format_options) : format_options :=
  match d_width d with
  | WNone => set_width 0 o
  | WLit n => set_width (Z.of_N n) o
  | WStar => if a_width v <? 0 then set_width (- a_width v) (set_left o) else set_width (a_width v) o
  end.
Definition prec_opts (d : directive) (v : argval) (o : format_options) : format_options :=
  match d_prec d with
  | PNone => o
  | PDot => set_precision 0 o
  | PLit n => set_precision (Z.of_N n) o
  | PStar => if 0 <=? a_prec v then set_precision (a_prec v) o else o
  end.

Definition width_chars (d : directive) : list byte :=
  match d_width d with WNone => [] | WLit n => dec_digits n | WStar => [42%N] end.
Definition prec_chars (d : directive) : list byte :=
  match d_prec d with PNone => [] | PDot => [46%N] | PLit n => 46%N :: dec_digits n | PStar => [46; 42]%N end.

Lemma interp_int_slot32 : forall w, in_int_range w = true -> interp t_int (slot32 w) = w.
Proof.
  intros w H. unfold in_int_range in H. unfold interp, slot32, t_int. cbn [ct_bits ct_signed andb].
  change (2 ^ 32)%N with 4294967296%N. change (2 ^ 32) with 4294967296.
  change (Z.of_N 32 - 1) with 31. change (2 ^ 31) with 2147483648. change (2 ^ Z.of_N 32) with 4294967296.
  rewrite N.mod_small by (pose proof (Z.mod_pos_bound w 4294967296); lia).
  rewrite Z2N.id by (pose proof (Z.mod_pos_bound w 4294967296); lia).
  destruct (Z.leb 2147483648 (w mod 4294967296)) eqn:E.
  - assert (w < 0) by (destruct (Z.ltb w 0) eqn:E2; [lia|]; rewrite Z.mod_small in E by lia; lia).
    assert (Hm : w mod 4294967296 = w + 4294967296) by (symmetry; apply Z.mod_unique with (q := -1); lia). lia.
  - assert (0 <= w) by (destruct (Z.ltb w 0) eqn:E2; [|lia];
      assert (Hm : w mod 4294967296 = w + 4294967296) by (symmetry; apply Z.mod_unique with (q := -1); lia); lia).
    rewrite Z.mod_small by lia. reflexivity.
Qed.

Lemma nth0_app_cons : forall (l t : list byte) (c : byte) (r : list byte), l = c :: r -> nth 0 (l ++ t) 0%N = c.
Proof. intros l t c r ->. reflexivity. Qed.

Lemma mbind_assoc : forall A B C (m : M A) (f : A -> M B) (g : B -> M C) st,
  mbind (mbind m f) g st = mbind m (fun a => mbind (f a) g) st.
Proof. intros. unfold mbind. destruct (m st) as [st1 [a| | |]]; reflexivity. Qed.

Section StageA.
Variable ag : byte -> format_options -> printf_size_mod -> M unit.

(* the state after the '*' arguments have been fetched *)
Definition star_slots (d : directive) (v : argval) : list N :=
  (match d_width d with WStar => [slot32 (a_width v)] | _ => [] end)
  ++ (match d_prec d with PStar => [slot32 (a_prec v)] | _ => [] end).
Definition star_pops (d : directive) : list argty :=
  (match d_width d with WStar => [ATInt] | _ => [] end) ++ (match d_prec d with PStar => [ATInt] | _ => [] end).

(* width phase: at the first char after the flags *)
Lemma width_phase : forall d v (pre : list byte) (t2 : list byte) c2 r2 out rest pops cache na opts fuel,
  width_ok d = true ->
  (match d_width d with WStar => in_int_range (a_width v) && negb (a_width v =? -2147483648) | _ => true end) = true ->
  (d_width d = WStar -> arg_pos opts = -1) ->
  t2 = c2 :: r2 -> is_digit c2 = false -> c2 <> 42%N -> nz36 c2 ->
  (S (length (width_chars d)) < fuel)%nat ->
  let st := mk_ps out (mk_vs ((match d_width d with WStar => [slot32 (a_width v)] | _ => [] end) ++ rest) pops cache na) in
  let st' := mk_ps out (mk_vs rest (pops ++ match d_width d with WStar => [ATInt] | _ => [] end) cache na) in
  let s := pre ++ width_chars d ++ t2 in
  (c <-- read s (length pre) ;;;
   if N.eqb c 42 then
     _ <-- assert_nz s (length pre + 1) ;;;
     w <-- pop_arg t_int opts ;;;
     o <-- star_width w opts ;;;
     ret ((length pre + 1)%nat, o)
   else
     z <-- number_loop s fuel msg_width_overflow (length pre) 0 ;;;
     ret (fst z, set_width (snd z) opts)) st
  = (st', Ok ((length pre + length (width_chars d))%nat, width_opts d v opts)).
Proof.
  intros d v pre t2 c2 r2 out rest pops cache na opts fuel Hwok Hfit Hap Ht2 Hd2 H42 Hnz Hf st st' s.
  subst s st st'. unfold width_chars, width_opts in *. destruct (d_width d) as [|n|] eqn:Ew.
  - (* none *)
    cbn [app length]. mstep ltac:(apply read_app0). subst t2. cbn [nth].
    apply N.eqb_neq in H42. rewrite H42.
    mstep ltac:(apply (number_loop_eval [] pre c2 r2); [constructor | assumption | apply Hnz | lia | cbn; unfold INT_MAX; lia | cbn; lia]).
    unfold ret. cbn [fst snd digit_value fold_left length]. rewrite app_nil_r. reflexivity.
  - (* literal *)
    unfold width_ok in Hwok. rewrite Ew in Hwok.
    destruct (dec_digits_spec n) as [Hds [Hval [c [r [Hcr Hc48]]]]].
    mstep ltac:(apply read_app0).
    rewrite (nth0_app_cons _ _ _ _ Hcr).
    assert (Hcd : is_digit c = true) by (rewrite Hcr in Hds; inversion Hds; assumption).
    assert (Hc42 : N.eqb c 42 = false) by (unfold is_digit in Hcd; lia).
    rewrite Hc42. subst t2.
    mstep ltac:(apply (number_loop_eval (dec_digits n) pre c2 r2); [assumption | assumption | apply Hnz | lia | rewrite dec_digits_value; unfold INT_MAX; lia | lia]).
    unfold ret. cbn [fst snd]. rewrite dec_digits_value. rewrite app_nil_r. reflexivity.
  - (* star *)
    cbn [app length]. mstep ltac:(apply read_app0). cbn [nth N.eqb Pos.eqb].
    subst t2.
    mstep ltac:(apply (assert_nz_app pre (42%N :: c2 :: r2) 1); [cbn; lia | cbn [nth]; apply Hnz]).
    apply andb_true_iff in Hfit. destruct Hfit as [Hr Hmin].
    assert (Hpop : pop_arg t_int opts (mk_ps out (mk_vs ([slot32 (a_width v)] ++ rest) pops cache na))
                   = (mk_ps out (mk_vs rest (pops ++ [ATInt]) cache na), Ok (a_width v))).
    { unfold pop_arg. rewrite (Hap eq_refl). rewrite Z.eqb_refl. unfold pop_va. cbn [ps_vs va_rest app ps_out va_pops arg_list num_args].
      rewrite interp_int_slot32 by assumption. reflexivity. }
    mstep ltac:(exact Hpop).
    unfold star_width. destruct (a_width v <? 0) eqn:El.
    + replace (negb (a_width v =? INT_MIN)) with true by (unfold INT_MIN; lia). cbn [massert].
      mstep ltac:(reflexivity). unfold ret. reflexivity.
    + mstep ltac:(reflexivity). unfold ret. reflexivity.
Qed.

(* precision phase: at the first char after the width *)
Lemma prec_phase : forall d v (pre : list byte) (t3 : list byte) c3 r3 out rest pops cache na opts fuel,
  prec_ok d = true ->
  (match d_prec d with PStar => in_int_range (a_prec v) | _ => true end) = true ->
  (d_prec d = PStar -> arg_pos opts = -1) ->
  t3 = c3 :: r3 -> plain c3 ->
  (S (S (length (prec_chars d))) < fuel)%nat ->
  let st := mk_ps out (mk_vs ((match d_prec d with PStar => [slot32 (a_prec v)] | _ => [] end) ++ rest) pops cache na) in
  let st' := mk_ps out (mk_vs rest (pops ++ match d_prec d with PStar => [ATInt] | _ => [] end) cache na) in
  let s := pre ++ prec_chars d ++ t3 in
  (c <-- read s (length pre) ;;;
   if N.eqb c 46 then
     _ <-- assert_nz s (length pre + 1) ;;;
     c1 <-- read s (length pre + 1) ;;;
     if N.eqb c1 42 then
       _ <-- assert_nz s (length pre + 2) ;;;
       p <-- pop_arg t_int opts ;;;
       ret ((length pre + 2)%nat, if 0 <=? p then set_precision p opts else opts)
     else
       z <-- number_loop s fuel msg_precision_overflow (length pre + 1) 0 ;;;
       ret (fst z, set_precision (snd z) opts)
   else ret (length pre, opts)) st
  = (st', Ok ((length pre + length (prec_chars d))%nat, prec_opts d v opts)).
Proof.
  intros d v pre t3 c3 r3 out rest pops cache na opts fuel Hpok Hfit Hap Ht3 Hpl Hf st st' s.
  destruct Hpl as [[Hc0 Hc36] [Hc37 [Hc42 [Hc46 [Hnf Hcd]]]]].
  subst s st st'. unfold prec_chars, prec_opts in *. destruct (d_prec d) as [| |n|] eqn:Ep.
  - (* none *)
    cbn [app length]. mstep ltac:(apply read_app0). subst t3. cbn [nth].
    apply N.eqb_neq in Hc46. rewrite Hc46. unfold ret. rewrite app_nil_r, Nat.add_0_r. reflexivity.
  - (* "." *)
    cbn [app length]. mstep ltac:(apply read_app0). cbn [nth N.eqb Pos.eqb]. subst t3.
    mstep ltac:(apply (assert_nz_app pre (46%N :: c3 :: r3) 1); [cbn; lia | cbn [nth]; assumption]).
    mstep ltac:(apply (read_app pre (46%N :: c3 :: r3) 1); cbn; lia). cbn [nth].
    apply N.eqb_neq in Hc42. rewrite Hc42.
    mstep ltac:(apply (number_loop_eval' _ _ [] (pre ++ [46%N]) c3 r3);
                [rewrite <- app_assoc; reflexivity | rewrite app_length; reflexivity
                | constructor | assumption | assumption | lia | cbn; unfold INT_MAX; lia | cbn; lia]).
    unfold ret. cbn [fst snd digit_value fold_left length]. rewrite app_nil_r.
    rewrite Nat.add_0_r. reflexivity.
  - (* literal *)
    unfold prec_ok in Hpok. rewrite Ep in Hpok. cbn [length] in Hf.
    destruct (dec_digits_spec n) as [Hds [Hval [c [r [Hcr Hc48]]]]].
    assert (Hcdig : is_digit c = true) by (rewrite Hcr in Hds; inversion Hds; assumption).
    cbn [app length]. mstep ltac:(apply read_app0). cbn [nth N.eqb Pos.eqb]. subst t3.
    mstep ltac:(apply (assert_nz_app pre (46%N :: dec_digits n ++ c3 :: r3) 1);
                [cbn [length]; lia | cbn [nth]; rewrite Hcr; cbn [app nth]; unfold is_digit in Hcdig; lia]).
    mstep ltac:(apply (read_app pre (46%N :: dec_digits n ++ c3 :: r3) 1); cbn [length]; lia). cbn [nth].
    rewrite (nth0_app_cons _ _ _ _ Hcr).
    assert (E42 : N.eqb c 42 = false) by (unfold is_digit in Hcdig; lia). rewrite E42.
    mstep ltac:(apply (number_loop_eval' _ _ (dec_digits n) (pre ++ [46%N]) c3 r3);
                [rewrite <- app_assoc; reflexivity | rewrite app_length; reflexivity
                | assumption | assumption | assumption | lia | rewrite dec_digits_value; unfold INT_MAX; lia | lia]).
    unfold ret. cbn [fst snd]. rewrite dec_digits_value. rewrite app_nil_r.
    rewrite <- Nat.add_assoc. reflexivity.
  - (* ".*" *)
    cbn [app length]. mstep ltac:(apply read_app0). cbn [nth N.eqb Pos.eqb]. subst t3.
    mstep ltac:(apply (assert_nz_app pre (46%N :: 42%N :: c3 :: r3) 1); [cbn; lia | cbn [nth]; discriminate]).
    mstep ltac:(apply (read_app pre (46%N :: 42%N :: c3 :: r3) 1); cbn; lia). cbn [nth N.eqb Pos.eqb].
    mstep ltac:(apply (assert_nz_app pre (46%N :: 42%N :: c3 :: r3) 2); [cbn; lia | cbn [nth]; assumption]).
    assert (Hpop : pop_arg t_int opts (mk_ps out (mk_vs ([slot32 (a_prec v)] ++ rest) pops cache na))
                   = (mk_ps out (mk_vs rest (pops ++ [ATInt]) cache na), Ok (a_prec v))).
    { unfold pop_arg. rewrite (Hap eq_refl). rewrite Z.eqb_refl. unfold pop_va. cbn [ps_vs va_rest app ps_out va_pops arg_list num_args].
      rewrite interp_int_slot32 by assumption. reflexivity. }
    mstep ltac:(exact Hpop). unfold ret. reflexivity.
Qed.

Lemma width_phase_k : forall B (K : nat * format_options -> M B) s pos d v (pre : list byte) (t2 : list byte) c2 r2 out rest pops cache na opts fuel,
  s = pre ++ width_chars d ++ t2 -> pos = length pre ->
  width_ok d = true ->
  (match d_width d with WStar => in_int_range (a_width v) && negb (a_width v =? -2147483648) | _ => true end) = true ->
  (d_width d = WStar -> arg_pos opts = -1) ->
  t2 = c2 :: r2 -> is_digit c2 = false -> c2 <> 42%N -> nz36 c2 ->
  (S (length (width_chars d)) < fuel)%nat ->
  (c <-- read s pos ;;;
   y <-- (if N.eqb c 42 then
            _ <-- assert_nz s (pos + 1) ;;;
            w <-- pop_arg t_int opts ;;;
            o <-- star_width w opts ;;;
            ret ((pos + 1)%nat, o)
          else
            z <-- number_loop s fuel msg_width_overflow pos 0 ;;;
            ret (fst z, set_width (snd z) opts)) ;;;
   K y)
    (mk_ps out (mk_vs ((match d_width d with WStar => [slot32 (a_width v)] | _ => [] end) ++ rest) pops cache na))
  = K ((pos + length (width_chars d))%nat, width_opts d v opts)
      (mk_ps out (mk_vs rest (pops ++ match d_width d with WStar => [ATInt] | _ => [] end) cache na)).
Proof.
  intros B K s pos d v pre t2 c2 r2 out rest pops cache na opts fuel Hs Hp Hwok Hfit Hap Ht2 Hd2 H42 Hnz Hf.
  match goal with |- ?lhs ?st = _ =>
    transitivity (mbind (c <-- read s pos ;;;
       if N.eqb c 42 then
         _ <-- assert_nz s (pos + 1) ;;;
         w <-- pop_arg t_int opts ;;;
         o <-- star_width w opts ;;;
         ret ((pos + 1)%nat, o)
       else
         z <-- number_loop s fuel msg_width_overflow pos 0 ;;;
         ret (fst z, set_width (snd z) opts)) K st)
  end.
  { symmetry. apply mbind_assoc. }
  erewrite mbind_ok; [reflexivity|]. subst s pos. eapply width_phase; eassumption.
Qed.

Lemma prec_phase_k : forall B (K : nat * format_options -> M B) s pos d v (pre : list byte) (t3 : list byte) c3 r3 out rest pops cache na opts fuel,
  s = pre ++ prec_chars d ++ t3 -> pos = length pre ->
  prec_ok d = true ->
  (match d_prec d with PStar => in_int_range (a_prec v) | _ => true end) = true ->
  (d_prec d = PStar -> arg_pos opts = -1) ->
  t3 = c3 :: r3 -> plain c3 ->
  (S (S (length (prec_chars d))) < fuel)%nat ->
  (c <-- read s pos ;;;
   y <-- (if N.eqb c 46 then
            _ <-- assert_nz s (pos + 1) ;;;
            c1 <-- read s (pos + 1) ;;;
            if N.eqb c1 42 then
              _ <-- assert_nz s (pos + 2) ;;;
              p <-- pop_arg t_int opts ;;;
              ret ((pos + 2)%nat, if 0 <=? p then set_precision p opts else opts)
            else
              z <-- number_loop s fuel msg_precision_overflow (pos + 1) 0 ;;;
              ret (fst z, set_precision (snd z) opts)
          else ret (pos, opts)) ;;;
   K y)
    (mk_ps out (mk_vs ((match d_prec d with PStar => [slot32 (a_prec v)] | _ => [] end) ++ rest) pops cache na))
  = K ((pos + length (prec_chars d))%nat, prec_opts d v opts)
      (mk_ps out (mk_vs rest (pops ++ match d_prec d with PStar => [ATInt] | _ => [] end) cache na)).
Proof.
  intros B K s pos d v pre t3 c3 r3 out rest pops cache na opts fuel Hs Hp Hpok Hfit Hap Ht3 Hpl Hf.
  match goal with |- ?lhs ?st = _ =>
    transitivity (mbind (c <-- read s pos ;;;
       if N.eqb c 46 then
         _ <-- assert_nz s (pos + 1) ;;;
         c1 <-- read s (pos + 1) ;;;
         if N.eqb c1 42 then
           _ <-- assert_nz s (pos + 2) ;;;
           p <-- pop_arg t_int opts ;;;
           ret ((pos + 2)%nat, if 0 <=? p then set_precision p opts else opts)
         else
           z <-- number_loop s fuel msg_precision_overflow (pos + 1) 0 ;;;
           ret (fst z, set_precision (snd z) opts)
       else ret (pos, opts)) K st)
  end.
  { symmetry. apply mbind_assoc. }
  erewrite mbind_ok; [reflexivity|]. subst s pos. eapply prec_phase; eassumption.
Qed.

Lemma parse_size_mod_eval' : forall s pos (l : lenmod) (pre : list byte) (cv : byte) st,
  s = pre ++ len_chars l ++ [cv] -> pos = length pre -> is_conv_char cv ->
  parse_size_mod s pos st = (st, Ok ((pos + length (len_chars l))%nat, szmod_of l)).
Proof. intros; subst s pos; apply parse_size_mod_eval; assumption. Qed.

(* arg_pos is not touched by flags, width, precision *)
Lemma apply_flags_arg_pos : forall fl o, arg_pos (apply_flags fl o) = arg_pos o.
Proof.
  induction fl as [|f fl IH]; intros o; [reflexivity|]. cbn [apply_flags fold_left].
  fold (apply_flags fl (apply_flag f o)). rewrite IH. destruct o, f; reflexivity.
Qed.
Lemma width_opts_arg_pos : forall d v o, arg_pos (width_opts d v o) = arg_pos o.
Proof. intros d v o. unfold width_opts. destruct (d_width d); [| |destruct (a_width v <? 0)]; destruct o; reflexivity. Qed.
Lemma prec_opts_arg_pos : forall d v o, arg_pos (prec_opts d v o) = arg_pos o.
Proof. intros d v o. unfold prec_opts. destruct (d_prec d); [| | |destruct (0 <=? a_prec v)]; destruct o; reflexivity. Qed.

Definition opts_of (d : directive) (v : argval) : format_options :=
  prec_opts d v (width_opts d v (apply_flags (d_flags d) (set_dollar false default_options))).

(* the head of W ++ P ++ T3 *)
Lemma dec_digits_nz36 : forall n, Forall nz36 (dec_digits n).
Proof.
  intros n. destruct (dec_digits_spec n) as [H _]. eapply Forall_impl; [|exact H].
  intros a Ha. apply digit_nz36. exact Ha.
Qed.
Lemma prec_chars_nz36 : forall d, Forall nz36 (prec_chars d).
Proof.
  intros d. unfold prec_chars. destruct (d_prec d); repeat constructor; try (unfold nz36; lia).
  apply dec_digits_nz36.
Qed.

Lemma prec_tail_cons : forall d, d_conv d <> Cpct ->
  exists c r, prec_chars d ++ tail3 d = c :: r /\ is_digit c = false /\ c <> 42%N /\ c <> 37%N /\ nz36 c
              /\ not_flag c /\ Forall nz36 r.
Proof.
  intros d Hc. destruct (tail3_cons d Hc) as [c3 [r3 [H3 [Hp Hr]]]].
  pose proof (prec_chars_nz36 d) as Hpn.
  unfold prec_chars in *. destruct (d_prec d) eqn:Ep; cbn [app]; rewrite H3.
  - exists c3, r3. destruct Hp as [Hn [H37 [H42 [H46 [Hnf Hd]]]]].
    split; [reflexivity|]. split; [assumption|]. split; [assumption|]. split; [assumption|]. split; [assumption|]. split; assumption.
  - exists 46%N, (c3 :: r3). repeat split; try discriminate; try (unfold not_flag; repeat split; discriminate).
    constructor; [apply Hp | assumption].
  - exists 46%N, (dec_digits n ++ c3 :: r3). repeat split; try discriminate; try (unfold not_flag; repeat split; discriminate).
    apply Forall_app. split; [apply dec_digits_nz36|]. constructor; [apply Hp | assumption].
  - exists 46%N, (42%N :: c3 :: r3). repeat split; try discriminate; try (unfold not_flag; repeat split; discriminate).
    constructor; [unfold nz36; lia|]. constructor; [apply Hp | assumption].
Qed.

Lemma width_tail_cons : forall d, d_conv d <> Cpct -> width_ok d = true ->
  exists c r, width_chars d ++ prec_chars d ++ tail3 d = c :: r /\ not_flag c /\ c <> 0%N /\ c <> 36%N /\ c <> 37%N
              /\ (is_digit c = true -> nth 0 r 0%N <> 36%N).
Proof.
  intros d Hc Hw. destruct (prec_tail_cons d Hc) as [c2 [r2 [H2 [Hd2 [H42 [H37 [Hnz [Hnf Hr]]]]]]]].
  unfold width_chars, width_ok in *. destruct (d_width d) eqn:Ew; cbn [app]; rewrite H2.
  - exists c2, r2. split; [reflexivity|]. split; [assumption|]. split; [apply Hnz|]. split; [apply Hnz|]. split; [assumption|].
    intros Hd. congruence.
  - destruct (dec_digits_spec n) as [Hds [_ [c [r [Hcr Hc48]]]]]. rewrite Hcr. cbn [app].
    assert (Hcd : is_digit c = true) by (rewrite Hcr in Hds; inversion Hds; assumption).
    assert (Hn0 : n <> 0%N) by lia. specialize (Hc48 Hn0).
    exists c, (r ++ c2 :: r2). split; [reflexivity|].
    unfold is_digit in Hcd. unfold not_flag. repeat split; try lia.
    intros _. apply nth0_nz36. apply Forall_app. split.
    + pose proof (dec_digits_nz36 n) as Hall. rewrite Hcr in Hall. inversion Hall; assumption.
    + constructor; assumption.
  - exists 42%N, (c2 :: r2). unfold not_flag. repeat split; try discriminate.
Qed.

Lemma render_shape : forall d, d_pos d = None -> d_conv d <> Cpct ->
  render d = [37%N] ++ map flag_char (d_flags d) ++ width_chars d ++ prec_chars d ++ tail3 d.
Proof.
  intros d Hp Hc. unfold render, width_chars, prec_chars, tail3. rewrite Hp.
  destruct (d_conv d); try congruence; cbn [app]; reflexivity.
Qed.

(* the agent is called once, with the options the directive denotes *)
Theorem parse_directive_render : forall d v out rest pops cache na st2,
  d_pos d = None -> d_conv d <> Cpct -> width_ok d = true -> prec_ok d = true ->
  (match d_width d with WStar => in_int_range (a_width v) && negb (a_width v =? -2147483648) | _ => true end) = true ->
  (match d_prec d with PStar => in_int_range (a_prec v) | _ => true end) = true ->
  ag (conv_char (d_conv d)) (opts_of d v) (szmod_of (d_len d))
     (mk_ps out (mk_vs rest (pops ++ star_pops d) cache na)) = (st2, Ok tt) ->
  parse_directive (render d) ag 1 false (mk_ps out (mk_vs (star_slots d v ++ rest) pops cache na))
  = (st2, Ok (length (render d), false)).
Proof.
  intros d v out rest pops cache na st2 Hpos Hconv Hwok Hpok Hwfit Hpfit Hag.
  pose proof (render_shape d Hpos Hconv) as Hs.
  destruct (width_tail_cons d Hconv Hwok) as [c1 [r1 [H1 [Hnf1 [Hc10 [Hc136 [Hc137 Hd1]]]]]]].
  destruct (prec_tail_cons d Hconv) as [c2 [r2 [H2 [Hd2 [H242 [H237 [Hnz2 [Hnf2 Hr2]]]]]]]].
  destruct (tail3_cons d Hconv) as [c3 [r3 [H3 [Hpl3 Hr3]]]].
  remember (render d) as s eqn:Es. clear Es.
  set (F := map flag_char (d_flags d)) in *.
  assert (HF : length F = length (d_flags d)) by (subst F; apply map_length).
  assert (Hlen : length s = (1 + length F + length (width_chars d) + length (prec_chars d) + length (tail3 d))%nat).
  { rewrite Hs. rewrite !app_length. cbn [length]. lia. }
  assert (Hl3 : length (tail3 d) = (length (len_chars (d_len d)) + 1)%nat) by (unfold tail3; rewrite app_length; reflexivity).
  unfold parse_directive.
  mstep ltac:(apply (flags_loop_eval' s 1%nat (d_flags d) [37%N] c1 r1);
              [rewrite Hs; fold F; rewrite H1; reflexivity | reflexivity | assumption | assumption | assumption | assumption | lia]).
  cbv beta iota.
  set (o1 := apply_flags (d_flags d) (set_dollar false default_options)).
  assert (Ho1 : arg_pos o1 = -1) by (subst o1; rewrite apply_flags_arg_pos; reflexivity).
  unfold star_slots. rewrite <- app_assoc.
  rewrite (width_phase_k _ _ s _ d v ([37%N] ++ F) (prec_chars d ++ tail3 d) c2 r2);
    [ | rewrite Hs; rewrite <- app_assoc; reflexivity
      | rewrite app_length; rewrite HF; reflexivity
      | assumption | assumption | intros _; assumption | assumption | assumption | assumption | assumption | lia].
  cbv beta iota.
  set (o2 := width_opts d v o1).
  assert (Ho2 : arg_pos o2 = -1) by (subst o2; rewrite width_opts_arg_pos; assumption).
  rewrite (prec_phase_k _ _ s _ d v (([37%N] ++ F) ++ width_chars d) (tail3 d) c3 r3);
    [ | rewrite Hs; rewrite <- !app_assoc; reflexivity
      | rewrite !app_length; rewrite HF; cbn [length]; lia
      | assumption | assumption | intros _; assumption | assumption | assumption | lia].
  cbv beta iota.
  mstep ltac:(apply (parse_size_mod_eval' s _ (d_len d) ((([37%N] ++ F) ++ width_chars d) ++ prec_chars d) (conv_char (d_conv d)));
              [rewrite Hs; unfold tail3; rewrite <- !app_assoc; reflexivity
              | rewrite !app_length; rewrite HF; cbn [length]; lia
              | apply conv_char_is; assumption]).
  cbv beta iota.
  (* the conversion character *)
  assert (Hrd : forall st, read s (1 + length (d_flags d) + length (width_chars d) + length (prec_chars d) + length (len_chars (d_len d))) st
                           = (st, Ok (conv_char (d_conv d)))).
  { intros st. rewrite Hs. unfold tail3.
    replace ([37%N] ++ F ++ width_chars d ++ prec_chars d ++ len_chars (d_len d) ++ [conv_char (d_conv d)])
      with (([37%N] ++ F ++ width_chars d ++ prec_chars d ++ len_chars (d_len d)) ++ [conv_char (d_conv d)])
      by (rewrite <- !app_assoc; reflexivity).
    replace (1 + length (d_flags d) + length (width_chars d) + length (prec_chars d) + length (len_chars (d_len d)))%nat
      with (length ([37%N] ++ F ++ width_chars d ++ prec_chars d ++ len_chars (d_len d)))
      by (rewrite !app_length; rewrite HF; cbn [length]; lia).
    apply read_app0. }
  mstep ltac:(apply Hrd).
  rewrite <- app_assoc. fold (star_pops d).
  mstep ltac:(exact Hag).
  unfold ret. f_equal. f_equal. f_equal. lia.
Qed.

Lemma render_head : forall d, d_pos d = None -> d_conv d <> Cpct -> width_ok d = true ->
  exists c r, render d = 37%N :: c :: r /\ c <> 0%N /\ c <> 37%N.
Proof.
  intros d Hpos Hconv Hwok. rewrite (render_shape d Hpos Hconv).
  destruct (width_tail_cons d Hconv Hwok) as [c1 [r1 [H1 [Hnf1 [Hc10 [Hc136 [Hc137 Hd1]]]]]]].
  destruct (d_flags d) as [|f fl]; cbn [map app].
  - rewrite H1. eexists; eexists; split; [reflexivity | split; assumption].
  - eexists; eexists; split; [reflexivity|]. destruct f; cbn; split; discriminate.
Qed.

Theorem format_render : forall d v out rest pops cache na st2,
  d_pos d = None -> d_conv d <> Cpct -> width_ok d = true -> prec_ok d = true ->
  (match d_width d with WStar => in_int_range (a_width v) && negb (a_width v =? -2147483648) | _ => true end) = true ->
  (match d_prec d with PStar => in_int_range (a_prec v) | _ => true end) = true ->
  ag (conv_char (d_conv d)) (opts_of d v) (szmod_of (d_len d))
     (mk_ps out (mk_vs rest (pops ++ star_pops d) cache na)) = (st2, Ok tt) ->
  printf_format_with (render d) ag (mk_ps out (mk_vs (star_slots d v ++ rest) pops cache na)) = (st2, Ok tt).
Proof.
  intros d v out rest pops cache na st2 Hpos Hconv Hwok Hpok Hwfit Hpfit Hag.
  pose proof (parse_directive_render d v out rest pops cache na st2 Hpos Hconv Hwok Hpok Hwfit Hpfit Hag) as Hpd.
  destruct (render_head d Hpos Hconv Hwok) as [c [r [Hs [Hc0 Hc37]]]].
  remember (render d) as s eqn:Es. clear Es. subst s.
  unfold printf_format_with. cbn [length format_loop].
  mstep ltac:(apply (read_app0 [] (37%N :: c :: r))). cbn [nth N.eqb Pos.eqb negb].
  mstep ltac:(apply (assert_nz_app [37%N] (c :: r) 0); [cbn; lia | assumption]).
  mstep ltac:(apply (read_app0 [37%N] (c :: r))). cbn [nth].
  apply N.eqb_neq in Hc37. rewrite Hc37.
  mstep ltac:(exact Hpd). cbn [fst snd format_loop].
  mstep ltac:(apply read_end). cbn [N.eqb]. reflexivity.
Qed.

(* ------------------------------------------------------------------------------------------ *)
(* the same with an optional n$ prefix                                                          *)
(* ------------------------------------------------------------------------------------------ *)
Definition pos_chars (d : directive) : list byte :=
  match d_pos d with Some n => [(48 + n)%N; 36%N] | None => [] end.
Definition base_opts (d : directive) : format_options :=
  match d_pos d with
  | Some n => set_arg_pos (Z.of_N n - 1) (set_dollar false default_options)
  | None => set_dollar false default_options
  end.
Definition opts_from (d : directive) (v : argval) : format_options :=
  prec_opts d v (width_opts d v (apply_flags (d_flags d) (base_opts d))).
Definition dollar_of (d : directive) : bool := match d_pos d with Some _ => true | None => false end.

Lemma opts_from_nopos : forall d v, d_pos d = None -> opts_from d v = opts_of d v.
Proof. intros d v H. unfold opts_from, opts_of, base_opts. rewrite H. reflexivity. Qed.

Lemma render_shape_gen : forall d, d_conv d <> Cpct ->
  render d = [37%N] ++ pos_chars d ++ map flag_char (d_flags d) ++ width_chars d ++ prec_chars d ++ tail3 d.
Proof.
  intros d Hc. unfold render, width_chars, prec_chars, tail3, pos_chars.
  destruct (d_conv d); try congruence; destruct (d_pos d); cbn [app]; reflexivity.
Qed.

Lemma flags_phase_gen : forall s d (c : byte) (r : list byte) fuel st,
  pos_ok d = true ->
  s = [37%N] ++ pos_chars d ++ map flag_char (d_flags d) ++ c :: r ->
  not_flag c -> c <> 0%N -> c <> 36%N -> (is_digit c = true -> nth 0 r 0%N <> 36%N) ->
  (S (length (d_flags d)) < fuel)%nat ->
  flags_loop s fuel 1 (set_dollar false default_options) false st
  = (st, Ok ((1 + length (pos_chars d) + length (d_flags d))%nat, apply_flags (d_flags d) (base_opts d), dollar_of d)).
Proof.
  intros s d c r fuel st Hpok Hs Hnf Hc0 Hc36 Hd Hf.
  unfold pos_chars, base_opts, dollar_of, pos_ok in *. destruct (d_pos d) as [n|] eqn:Ep.
  - (* n$ *)
    assert (Hn : (1 <= n <= 9)%N).
    { apply andb_true_iff in Hpok. destruct Hpok as [Hpok _]. apply andb_true_iff in Hpok. destruct Hpok as [Hpok _].
      apply andb_true_iff in Hpok. destruct Hpok as [H1 H9]. lia. }
    destruct fuel as [|fuel]; [lia|]. cbn [flags_loop].
    set (t := map flag_char (d_flags d) ++ c :: r) in *.
    assert (Hnext : nth 0 t 0%N <> 0%N).
    { subst t. destruct (d_flags d) as [|f fl]; cbn [map app nth]; [assumption | apply flag_char_facts]. }
    mstep ltac:(rewrite Hs; apply (read_app [37%N] ([(48 + n)%N; 36%N] ++ t) 0); cbn; lia). cbn [app nth].
    assert (Hdig : is_digit (48 + n) = true) by (unfold is_digit; lia). rewrite Hdig.
    assert (Hpos : (mbind (read s (1 + 1)) (fun c1 => ret (N.eqb c1 36))) st = (st, Ok true)).
    { unfold mbind. rewrite Hs. rewrite (read_app [37%N] ([(48 + n)%N; 36%N] ++ t) 1) by (cbn; lia). reflexivity. }
    mstep ltac:(exact Hpos). cbv iota.
    mstep ltac:(rewrite Hs; apply (assert_nz_app [37%N] ([(48 + n)%N; 36%N] ++ t) 2); [cbn; lia | cbn [app nth]; exact Hnext]).
    replace (Z.of_N (48 + n) - 48 - 1) with (Z.of_N n - 1) by lia.
    rewrite (flags_loop_eval' s (1 + 2)%nat (d_flags d) [37%N; (48 + n)%N; 36%N] c r);
      [ | rewrite Hs; reflexivity | reflexivity | assumption | assumption | assumption | assumption | lia ].
    reflexivity.
  - (* no position *)
    rewrite (flags_loop_eval' s 1%nat (d_flags d) [37%N] c r);
      [ | rewrite Hs; reflexivity | reflexivity | assumption | assumption | assumption | assumption | lia ].
    reflexivity.
Qed.

Lemma base_opts_arg_pos : forall d, d_pos d = None -> arg_pos (base_opts d) = -1.
Proof. intros d H. unfold base_opts. rewrite H. reflexivity. Qed.

Lemma pos_ok_star : forall d, pos_ok d = true ->
  (d_width d = WStar -> d_pos d = None) /\ (d_prec d = PStar -> d_pos d = None).
Proof.
  intros d H. unfold pos_ok in H. destruct (d_pos d); [|split; reflexivity].
  apply andb_true_iff in H. destruct H as [H Hp]. apply andb_true_iff in H. destruct H as [_ Hw].
  split; intros E; rewrite E in *; discriminate.
Qed.

Theorem parse_directive_render_gen : forall d v out rest pops cache na st2,
  pos_ok d = true -> d_conv d <> Cpct -> width_ok d = true -> prec_ok d = true ->
  (match d_width d with WStar => in_int_range (a_width v) && negb (a_width v =? -2147483648) | _ => true end) = true ->
  (match d_prec d with PStar => in_int_range (a_prec v) | _ => true end) = true ->
  ag (conv_char (d_conv d)) (opts_from d v) (szmod_of (d_len d))
     (mk_ps out (mk_vs rest (pops ++ star_pops d) cache na)) = (st2, Ok tt) ->
  parse_directive (render d) ag 1 false (mk_ps out (mk_vs (star_slots d v ++ rest) pops cache na))
  = (st2, Ok (length (render d), dollar_of d)).
Proof.
  intros d v out rest pops cache na st2 Hposok Hconv Hwok Hpok Hwfit Hpfit Hag.
  pose proof (render_shape_gen d Hconv) as Hs.
  destruct (pos_ok_star d Hposok) as [Hws Hps].
  destruct (width_tail_cons d Hconv Hwok) as [c1 [r1 [H1 [Hnf1 [Hc10 [Hc136 [Hc137 Hd1]]]]]]].
  destruct (prec_tail_cons d Hconv) as [c2 [r2 [H2 [Hd2 [H242 [H237 [Hnz2 [Hnf2 Hr2]]]]]]]].
  destruct (tail3_cons d Hconv) as [c3 [r3 [H3 [Hpl3 Hr3]]]].
  remember (render d) as s eqn:Es. clear Es.
  set (F := map flag_char (d_flags d)) in *.
  set (PP := pos_chars d) in *.
  assert (HF : length F = length (d_flags d)) by (subst F; apply map_length).
  assert (Hlen : length s = (1 + length PP + length F + length (width_chars d) + length (prec_chars d) + length (tail3 d))%nat).
  { rewrite Hs. rewrite !app_length. cbn [length]. lia. }
  assert (Hl3 : length (tail3 d) = (length (len_chars (d_len d)) + 1)%nat) by (unfold tail3; rewrite app_length; reflexivity).
  unfold parse_directive.
  mstep ltac:(apply (flags_phase_gen s d c1 r1);
              [assumption | rewrite Hs; fold F; fold PP; rewrite H1; reflexivity | assumption | assumption | assumption | assumption | lia]).
  cbv beta iota. fold PP.
  set (o1 := apply_flags (d_flags d) (base_opts d)).
  assert (Ho1 : d_pos d = None -> arg_pos o1 = -1).
  { intros Hn. subst o1. rewrite apply_flags_arg_pos. apply base_opts_arg_pos. assumption. }
  unfold star_slots. rewrite <- app_assoc.
  rewrite (width_phase_k _ _ s _ d v (([37%N] ++ PP) ++ F) (prec_chars d ++ tail3 d) c2 r2);
    [ | rewrite Hs; rewrite <- !app_assoc; reflexivity
      | rewrite !app_length; rewrite HF; cbn [length]; lia
      | assumption | assumption | intros E; apply Ho1; apply Hws; exact E | assumption | assumption | assumption | assumption | lia].
  cbv beta iota.
  set (o2 := width_opts d v o1).
  assert (Ho2 : d_pos d = None -> arg_pos o2 = -1) by (intros Hn; subst o2; rewrite width_opts_arg_pos; apply Ho1; assumption).
  rewrite (prec_phase_k _ _ s _ d v ((([37%N] ++ PP) ++ F) ++ width_chars d) (tail3 d) c3 r3);
    [ | rewrite Hs; rewrite <- !app_assoc; reflexivity
      | rewrite !app_length; rewrite HF; cbn [length]; lia
      | assumption | assumption | intros E; apply Ho2; apply Hps; exact E | assumption | assumption | lia].
  cbv beta iota.
  mstep ltac:(apply (parse_size_mod_eval' s _ (d_len d) (((([37%N] ++ PP) ++ F) ++ width_chars d) ++ prec_chars d) (conv_char (d_conv d)));
              [rewrite Hs; unfold tail3; rewrite <- !app_assoc; reflexivity
              | rewrite !app_length; rewrite HF; cbn [length]; lia
              | apply conv_char_is; assumption]).
  cbv beta iota.
  assert (Hrd : forall st, read s (1 + length PP + length (d_flags d) + length (width_chars d) + length (prec_chars d) + length (len_chars (d_len d))) st
                           = (st, Ok (conv_char (d_conv d)))).
  { intros st. rewrite Hs. unfold tail3.
    replace ([37%N] ++ PP ++ F ++ width_chars d ++ prec_chars d ++ len_chars (d_len d) ++ [conv_char (d_conv d)])
      with (([37%N] ++ PP ++ F ++ width_chars d ++ prec_chars d ++ len_chars (d_len d)) ++ [conv_char (d_conv d)])
      by (rewrite <- !app_assoc; reflexivity).
    replace (1 + length PP + length (d_flags d) + length (width_chars d) + length (prec_chars d) + length (len_chars (d_len d)))%nat
      with (length ([37%N] ++ PP ++ F ++ width_chars d ++ prec_chars d ++ len_chars (d_len d)))
      by (rewrite !app_length; rewrite HF; cbn [length]; lia).
    apply read_app0. }
  mstep ltac:(apply Hrd).
  rewrite <- app_assoc. fold (star_pops d).
  mstep ltac:(exact Hag).
  unfold ret. f_equal. f_equal. f_equal. lia.
Qed.

Lemma render_head_gen : forall d, pos_ok d = true -> d_conv d <> Cpct -> width_ok d = true ->
  exists c r, render d = 37%N :: c :: r /\ c <> 0%N /\ c <> 37%N.
Proof.
  intros d Hpos Hconv Hwok. rewrite (render_shape_gen d Hconv).
  destruct (width_tail_cons d Hconv Hwok) as [c1 [r1 [H1 [Hnf1 [Hc10 [Hc136 [Hc137 Hd1]]]]]]].
  unfold pos_chars, pos_ok in *. destruct (d_pos d) as [n|].
  - cbn [app]. eexists; eexists; split; [reflexivity|].
    apply andb_true_iff in Hpos. destruct Hpos as [Hpos _]. apply andb_true_iff in Hpos. destruct Hpos as [Hpos _].
    apply andb_true_iff in Hpos. destruct Hpos as [Hn1 Hn9]. split; lia.
  - destruct (d_flags d) as [|f fl]; cbn [map app].
    + rewrite H1. eexists; eexists; split; [reflexivity | split; assumption].
    + eexists; eexists; split; [reflexivity|]. destruct f; cbn; split; discriminate.
Qed.

Theorem format_render_gen : forall d v out rest pops cache na st2,
  pos_ok d = true -> d_conv d <> Cpct -> width_ok d = true -> prec_ok d = true ->
  (match d_width d with WStar => in_int_range (a_width v) && negb (a_width v =? -2147483648) | _ => true end) = true ->
  (match d_prec d with PStar => in_int_range (a_prec v) | _ => true end) = true ->
  ag (conv_char (d_conv d)) (opts_from d v) (szmod_of (d_len d))
     (mk_ps out (mk_vs rest (pops ++ star_pops d) cache na)) = (st2, Ok tt) ->
  printf_format_with (render d) ag (mk_ps out (mk_vs (star_slots d v ++ rest) pops cache na)) = (st2, Ok tt).
Proof.
  intros d v out rest pops cache na st2 Hpos Hconv Hwok Hpok Hwfit Hpfit Hag.
  pose proof (parse_directive_render_gen d v out rest pops cache na st2 Hpos Hconv Hwok Hpok Hwfit Hpfit Hag) as Hpd.
  destruct (render_head_gen d Hpos Hconv Hwok) as [c [r [Hs [Hc0 Hc37]]]].
  remember (render d) as s eqn:Es. clear Es. subst s.
  unfold printf_format_with. cbn [length format_loop].
  mstep ltac:(apply (read_app0 [] (37%N :: c :: r))). cbn [nth N.eqb Pos.eqb negb].
  mstep ltac:(apply (assert_nz_app [37%N] (c :: r) 0); [cbn; lia | assumption]).
  mstep ltac:(apply (read_app0 [37%N] (c :: r))). cbn [nth].
  apply N.eqb_neq in Hc37. rewrite Hc37.
  mstep ltac:(exact Hpd). cbn [fst snd format_loop].
  mstep ltac:(apply read_end). cbn [N.eqb]. reflexivity.
Qed.

End StageA.
