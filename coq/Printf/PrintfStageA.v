(* Stage A of the conformance proof, assembled: running printf_format on the rendering of one
   directive of the grammar calls the agent exactly once, with the options the directive denotes,
   after fetching the '*' arguments. *)
From Coq Require Import String.
From Coq Require Import NArith ZArith List Bool Lia ZifyBool ZifyNat ZifyN.
From FV Require Import Printf.PrintIntModel Printf.IsoPrintf Printf.PrintfModel Printf.PrintfParse Printf.PrintfConform.
Import ListNotations.
Local Open Scope Z_scope.

(* ---- character classes of the rendering *)
Definition nz36 (c : byte) : Prop := c <> 0%N /\ c <> 36%N.
Definition plain (c : byte) : Prop :=
  nz36 c /\ c <> 37%N /\ c <> 42%N /\ c <> 46%N /\ not_flag c /\ is_digit c = false.

Lemma conv_char_plain : forall cv, is_conv_char cv -> plain cv.
Proof. intros cv H. unfold is_conv_char in H. unfold plain, nz36, not_flag, is_digit. repeat split; lia. Qed.

Lemma conv_char_is : forall c, c <> Cpct -> is_conv_char (conv_char c).
Proof. intros c H. destruct c; try congruence; unfold is_conv_char; cbn; lia. Qed.

Lemma len_chars_plain : forall l, Forall plain (len_chars l).
Proof. intros l; destruct l; cbn; repeat constructor; unfold nz36, not_flag, is_digit; try lia; repeat split; lia. Qed.

Lemma digit_nz36 : forall c, is_digit c = true -> nz36 c.
Proof. intros c H. unfold is_digit in H. unfold nz36. lia. Qed.

Lemma plain_nz36 : forall c, plain c -> nz36 c.
Proof. intros c H. apply H. Qed.

Lemma nth0_nz36 : forall (t : list byte), Forall nz36 t -> nth 0 t 0%N <> 36%N.
Proof. intros t H. destruct t as [|c r]; cbn; [discriminate|]. inversion H; subst. apply H2. Qed.

(* L ++ [cv] *)
Definition tail3 (d : directive) : list byte := len_chars (d_len d) ++ [conv_char (d_conv d)].

Lemma tail3_cons : forall d, d_conv d <> Cpct ->
  exists c r, tail3 d = c :: r /\ plain c /\ Forall nz36 r.
Proof.
  intros d Hc. unfold tail3.
  pose proof (conv_char_plain _ (conv_char_is _ Hc)) as Hp.
  pose proof (len_chars_plain (d_len d)) as Hl.
  destruct (len_chars (d_len d)) as [|c r] eqn:E; cbn [app].
  - eexists; eexists; split; [reflexivity|]. split; [assumption | constructor].
  - inversion Hl; subst. eexists; eexists; split; [reflexivity|]. split; [assumption|].
    apply Forall_app. split.
    + eapply Forall_impl; [|eassumption]. intros a Ha. apply Ha.
    + constructor; [apply Hp | constructor].
Qed.

(* the options a directive denotes *)
Definition width_opts (d : directive) (v : argval) (o : format_options) : format_options :=
  match d_width d with
  | WNone => set_width 0 o
  | WLit n => set_width (Z.of_N n) o
  | WStar => if a_width v <? 0 then set_width (- a_width v) (set_left o) else set_width (a_width v) o
  end.
Definition prec_opts (d : directive) (v : argval) (o : format_options) : format_options :=
  match d_prec d with
  | PNone => o
  | PDot => set_precision 0 o
  | PLit n => set_precision (Z.of_N n) o
  | PStar => if 0 <=? a_prec v then set_precision (a_prec v) o else o
  end.

Definition width_chars (d : directive) : list byte :=
  match d_width d with WNone => [] | WLit n => dec_digits n | WStar => [42%N] end.
Definition prec_chars (d : directive) : list byte :=
  match d_prec d with PNone => [] | PDot => [46%N] | PLit n => 46%N :: dec_digits n | PStar => [46; 42]%N end.

Lemma interp_int_slot32 : forall w, in_int_range w = true -> interp t_int (slot32 w) = w.
Proof.
  intros w H. unfold in_int_range in H. unfold interp, slot32, t_int. cbn [ct_bits ct_signed andb].
  change (2 ^ 32)%N with 4294967296%N. change (2 ^ 32) with 4294967296.
  change (Z.of_N 32 - 1) with 31. change (2 ^ 31) with 2147483648. change (2 ^ Z.of_N 32) with 4294967296.
  rewrite N.mod_small by (pose proof (Z.mod_pos_bound w 4294967296); lia).
  rewrite Z2N.id by (pose proof (Z.mod_pos_bound w 4294967296); lia).
  destruct (Z.leb 2147483648 (w mod 4294967296)) eqn:E.
  - assert (w < 0) by (destruct (Z.ltb w 0) eqn:E2; [lia|]; rewrite Z.mod_small in E by lia; lia).
    assert (Hm : w mod 4294967296 = w + 4294967296) by (symmetry; apply Z.mod_unique with (q := -1); lia). lia.
  - assert (0 <= w) by (destruct (Z.ltb w 0) eqn:E2; [|lia];
      assert (Hm : w mod 4294967296 = w + 4294967296) by (symmetry; apply Z.mod_unique with (q := -1); lia); lia).
    rewrite Z.mod_small by lia. reflexivity.
Qed.

Section StageA.
Variable ag : byte -> format_options -> printf_size_mod -> M unit.

(* the state after the '*' arguments have been fetched *)
Definition star_slots (d : directive) (v : argval) : list N :=
  (match d_width d with WStar => [slot32 (a_width v)] | _ => [] end)
  ++ (match d_prec d with PStar => [slot32 (a_prec v)] | _ => [] end).
Definition star_pops (d : directive) : list argty :=
  (match d_width d with WStar => [ATInt] | _ => [] end) ++ (match d_prec d with PStar => [ATInt] | _ => [] end).

(* width phase: at the first char after the flags *)
Lemma width_phase : forall d v (pre : list byte) (t2 : list byte) c2 r2 out rest pops cache na opts fuel,
  width_ok d = true ->
  (match d_width d with WStar => in_int_range (a_width v) && negb (a_width v =? -2147483648) | _ => true end) = true ->
  arg_pos opts = -1 ->
  t2 = c2 :: r2 -> is_digit c2 = false -> c2 <> 42%N -> nz36 c2 ->
  (S (length (width_chars d)) < fuel)%nat ->
  let st := mk_ps out (mk_vs ((match d_width d with WStar => [slot32 (a_width v)] | _ => [] end) ++ rest) pops cache na) in
  let st' := mk_ps out (mk_vs rest (pops ++ match d_width d with WStar => [ATInt] | _ => [] end) cache na) in
  let s := pre ++ width_chars d ++ t2 in
  (c <-- read s (length pre) ;;;
   if N.eqb c 42 then
     _ <-- assert_nz s (length pre + 1) ;;;
     w <-- pop_arg t_int opts ;;;
     o <-- star_width w opts ;;;
     ret ((length pre + 1)%nat, o)
   else
     z <-- number_loop s fuel msg_width_overflow (length pre) 0 ;;;
     ret (fst z, set_width (snd z) opts)) st
  = (st', Ok ((length pre + length (width_chars d))%nat, width_opts d v opts)).
Proof.
  intros d v pre t2 c2 r2 out rest pops cache na opts fuel Hwok Hfit Hap Ht2 Hd2 H42 Hnz Hf st st' s.
  subst s st st'. unfold width_chars, width_opts in *. destruct (d_width d) as [|n|] eqn:Ew.
  - (* none *)
    cbn [app length]. mstep ltac:(apply read_app0). subst t2. cbn [nth].
    apply N.eqb_neq in H42. rewrite H42.
    mstep ltac:(apply (number_loop_eval [] pre c2 r2); [constructor | assumption | apply Hnz | lia | cbn; unfold INT_MAX; lia | cbn; lia]).
    unfold ret. cbn [fst snd digit_value fold_left length]. rewrite app_nil_r. reflexivity.
  - (* literal *)
    unfold width_ok in Hwok. rewrite Ew in Hwok.
    destruct (dec_digits_spec n) as [Hds [Hval [c [r [Hcr Hc48]]]]].
    mstep ltac:(apply read_app0).
    match goal with |- context [nth 0 ?l ?z] => replace (nth 0 l z) with c by (rewrite Hcr; reflexivity) end.
    assert (Hcd : is_digit c = true) by (rewrite Hcr in Hds; inversion Hds; assumption).
    assert (Hc42 : N.eqb c 42 = false) by (unfold is_digit in Hcd; lia).
    rewrite Hc42. subst t2.
    mstep ltac:(apply (number_loop_eval (dec_digits n) pre c2 r2); [assumption | assumption | apply Hnz | lia | rewrite dec_digits_value; unfold INT_MAX; lia | lia]).
    unfold ret. cbn [fst snd]. rewrite dec_digits_value. rewrite app_nil_r. reflexivity.
  - (* star *)
    cbn [app length]. mstep ltac:(apply read_app0). cbn [nth N.eqb Pos.eqb].
    subst t2.
    mstep ltac:(apply (assert_nz_app pre (42%N :: c2 :: r2) 1); [cbn; lia | cbn [nth]; apply Hnz]).
    apply andb_true_iff in Hfit. destruct Hfit as [Hr Hmin].
    assert (Hpop : pop_arg t_int opts (mk_ps out (mk_vs ([slot32 (a_width v)] ++ rest) pops cache na))
                   = (mk_ps out (mk_vs rest (pops ++ [ATInt]) cache na), Ok (a_width v))).
    { unfold pop_arg. rewrite Hap. cbn [Z.eqb]. unfold pop_va. cbn [ps_vs va_rest app ps_out va_pops arg_list num_args].
      rewrite interp_int_slot32 by assumption. reflexivity. }
    mstep ltac:(exact Hpop).
    unfold star_width. destruct (a_width v <? 0) eqn:El.
    + replace (negb (a_width v =? INT_MIN)) with true by (unfold INT_MIN; lia). cbn [massert].
      mstep ltac:(reflexivity). mstep ltac:(reflexivity). unfold ret. reflexivity.
    + mstep ltac:(reflexivity). unfold ret. reflexivity.
Qed.

End StageA.
