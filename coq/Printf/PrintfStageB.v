(* Stage B of the conformance proof: given the options a directive denotes, do_printf_ints /
   do_printf_chars append exactly what IsoPrintf.iso_printf prescribes. *)
From Coq Require Import String.
From Coq Require Import NArith ZArith List Bool Lia ZifyBool ZifyNat ZifyN.
From FV Require Import Printf.PrintIntModel Printf.IsoPrintf Printf.PrintIntProofs Printf.PrintfModel
  Printf.PrintfParse Printf.PrintfConform Printf.PrintfStageA.
Import ListNotations.
Local Open Scope Z_scope.

(* ---- the fields of opts_of *)
Definition is_flag (f g : flag) : bool :=
  match f, g with
  | FMinus, FMinus | FPlus, FPlus | FSpace, FSpace | FHash, FHash | FZero, FZero | FQuote, FQuote => true
  | _, _ => false
  end.
Lemma has_existsb : forall f d, has f d = existsb (is_flag f) (d_flags d).
Proof.
  intros f d. unfold has. induction (d_flags d) as [|g l IH]; [reflexivity|].
  cbn [existsb]. rewrite IH. reflexivity.
Qed.

Lemma apply_flags_fields : forall fl o,
  left_justify (apply_flags fl o) = left_justify o || existsb (is_flag FMinus) fl
  /\ always_sign (apply_flags fl o) = always_sign o || existsb (is_flag FPlus) fl
  /\ plus_becomes_space (apply_flags fl o) = plus_becomes_space o || existsb (is_flag FSpace) fl
  /\ alt_conversion (apply_flags fl o) = alt_conversion o || existsb (is_flag FHash) fl
  /\ fill_zeros (apply_flags fl o) = fill_zeros o || existsb (is_flag FZero) fl
  /\ group_thousands (apply_flags fl o) = group_thousands o || existsb (is_flag FQuote) fl
  /\ minimum_width (apply_flags fl o) = minimum_width o
  /\ precision (apply_flags fl o) = precision o.
Proof.
  induction fl as [|f fl IH]; intros o.
  - cbn. rewrite !orb_false_r. repeat split; reflexivity.
  - cbn [apply_flags fold_left]. fold (apply_flags fl (apply_flag f o)).
    destruct (IH (apply_flag f o)) as [H1 [H2 [H3 [H4 [H5 [H6 [H7 H8]]]]]]].
    rewrite H1, H2, H3, H4, H5, H6, H7, H8. cbn [existsb].
    destruct o as [cv mw ap da pr lj asg pbs alt fz gt uc], f; cbn [apply_flag left_justify always_sign plus_becomes_space alt_conversion fill_zeros
                          group_thousands minimum_width precision is_flag orb];
      rewrite ?orb_true_r, ?orb_false_r; repeat split; try reflexivity;
      try (destruct (existsb _ fl); rewrite ?orb_true_r, ?orb_false_r; reflexivity).
Qed.

Lemma prec_opts_fields : forall d v o, precision o = None ->
  left_justify (prec_opts d v o) = left_justify o
  /\ always_sign (prec_opts d v o) = always_sign o
  /\ plus_becomes_space (prec_opts d v o) = plus_becomes_space o
  /\ alt_conversion (prec_opts d v o) = alt_conversion o
  /\ fill_zeros (prec_opts d v o) = fill_zeros o
  /\ group_thousands (prec_opts d v o) = group_thousands o
  /\ minimum_width (prec_opts d v o) = minimum_width o
  /\ precision (prec_opts d v o) = eff_prec d v.
Proof.
  intros d v o Hp. unfold prec_opts, eff_prec. destruct o as [cv mw ap da pr lj asg pbs alt fz gt uc].
  cbn [precision] in Hp. subst pr.
  destruct (d_prec d) as [| |m|]; cbn; try (repeat split; reflexivity).
  destruct (0 <=? a_prec v) eqn:E.
  - replace (a_prec v <? 0) with false by lia. cbn. repeat split; reflexivity.
  - replace (a_prec v <? 0) with true by lia. cbn. repeat split; reflexivity.
Qed.

Lemma width_opts_fields : forall d v o,
  left_justify (width_opts d v o) = left_justify o || (eff_width d v <? 0)
  /\ always_sign (width_opts d v o) = always_sign o
  /\ plus_becomes_space (width_opts d v o) = plus_becomes_space o
  /\ alt_conversion (width_opts d v o) = alt_conversion o
  /\ fill_zeros (width_opts d v o) = fill_zeros o
  /\ group_thousands (width_opts d v o) = group_thousands o
  /\ minimum_width (width_opts d v o) = Z.abs (eff_width d v)
  /\ precision (width_opts d v o) = precision o.
Proof.
  intros d v o. unfold width_opts, eff_width. destruct o as [cv mw ap da pr lj asg pbs alt fz gt uc].
  destruct (d_width d) as [|n|]; cbn [set_width left_justify always_sign plus_becomes_space alt_conversion
                                      fill_zeros group_thousands minimum_width precision].
  - change (0 <? 0) with false. rewrite orb_false_r. repeat split; reflexivity.
  - replace (Z.of_N n <? 0) with false by lia. rewrite orb_false_r. repeat split; try reflexivity. lia.
  - destruct (a_width v <? 0) eqn:E;
      cbn [set_width set_left left_justify always_sign plus_becomes_space alt_conversion
           fill_zeros group_thousands minimum_width precision];
      rewrite ?orb_true_r, ?orb_false_r; repeat split; try reflexivity; lia.
Qed.

Lemma opts_of_fields : forall d v,
  let o := opts_of d v in
  left_justify o = has FMinus d || (eff_width d v <? 0)
  /\ always_sign o = has FPlus d
  /\ plus_becomes_space o = has FSpace d
  /\ alt_conversion o = has FHash d
  /\ fill_zeros o = has FZero d
  /\ group_thousands o = has FQuote d
  /\ minimum_width o = Z.abs (eff_width d v)
  /\ precision o = eff_prec d v
  /\ arg_pos o = -1.
Proof.
  intros d v. cbv zeta. unfold opts_of.
  destruct (apply_flags_fields (d_flags d) (set_dollar false default_options)) as [H1 [H2 [H3 [H4 [H5 [H6 [H7 H8]]]]]]].
  set (o1 := apply_flags (d_flags d) (set_dollar false default_options)) in *.
  cbn [set_dollar default_options left_justify always_sign plus_becomes_space alt_conversion fill_zeros
       group_thousands minimum_width precision orb] in H1, H2, H3, H4, H5, H6, H7, H8.
  destruct (width_opts_fields d v o1) as [W1 [W2 [W3 [W4 [W5 [W6 [W7 W8]]]]]]].
  set (o2 := width_opts d v o1) in *.
  destruct (prec_opts_fields d v o2 ltac:(rewrite W8; exact H8)) as [P1 [P2 [P3 [P4 [P5 [P6 [P7 P8]]]]]]].
  rewrite !has_existsb.
  rewrite P1, P2, P3, P4, P5, P6, P7, P8, W1, W2, W3, W4, W5, W6, W7, H1, H2, H3, H4, H5, H6.
  repeat split; try reflexivity.
  rewrite prec_opts_arg_pos. subst o2. rewrite width_opts_arg_pos. subst o1. rewrite apply_flags_arg_pos. reflexivity.
Qed.

(* ---- the padding algebra against the ISO text *)
Lemma zlen_len : forall l, zlen l = len l.
Proof. reflexivity. Qed.

Lemma assemble_eq : forall (sign prefix body : list N) width (lj zero : bool) (padding : N),
  padding = (if zero then 48%N else 32%N) ->
  (let s' := sign ++ prefix in
   let fill := width - (zlen s' + zlen body) in
   if lj then s' ++ body ++ repeat 32%N (Z.to_nat fill)
   else if N.eqb padding 48 then s' ++ repeat 48%N (Z.to_nat fill) ++ body
   else repeat padding (Z.to_nat fill) ++ s' ++ body)
  = (let n := len (sign ++ prefix ++ body) in
     if lj then sign ++ prefix ++ body ++ blanks (width - n)
     else if zero then sign ++ prefix ++ zeros (width - n) ++ body
     else blanks (width - n) ++ sign ++ prefix ++ body).
Proof.
  intros sign prefix body width lj zero padding Hp. cbv zeta.
  assert (Hn : zlen (sign ++ prefix) + zlen body = len (sign ++ prefix ++ body)).
  { unfold zlen, len. rewrite !app_length. lia. }
  rewrite Hn. unfold blanks, zeros. subst padding.
  destruct lj; [rewrite <- !app_assoc; reflexivity|].
  destruct zero; cbn [N.eqb Pos.eqb]; rewrite <- !app_assoc; reflexivity.
Qed.

(* octal alternate form: raising the precision = prepending a zero when the body does not start with one *)
Lemma count_oct_digits_spec : forall fuel n acc, (N.to_nat (N.log2 n) < fuel)%nat -> n <> 0%N ->
  count_oct_digits fuel n acc = acc + Z.of_nat (length (digits 8 false n)).
Proof.
  induction fuel as [|fuel IH]; intros n acc Hf Hn; [lia|]. cbn [count_oct_digits].
  apply N.eqb_neq in Hn. rewrite Hn. apply N.eqb_neq in Hn.
  rewrite (digits_unfold 8 false n) by lia.
  destruct (N.ltb n 8) eqn:E.
  - apply N.ltb_lt in E. rewrite N.div_small by assumption.
    destruct fuel; cbn [count_oct_digits N.eqb length]; lia.
  - apply N.ltb_ge in E. rewrite app_length. cbn [length].
    rewrite IH.
    + lia.
    + pose proof (log2_div_lt n 8 ltac:(lia) E). lia.
    + intro H0. apply N.div_small_iff in H0; lia.
Qed.

Lemma count_oct_digits_0 : forall fuel acc, count_oct_digits fuel 0 acc = acc.
Proof. intros [|fuel] acc; reflexivity. Qed.

(* ---- the integer conversions *)

Lemma signed_result_iso : forall d v,
  (d_conv d = Cd \/ d_conv d = Ci) ->
  let o := opts_of d v in
  let value := to_signed (len_bits (d_len d)) (a_int v) in
  print_digits_result (Z.to_N (Z.abs value)) (value <? 0) 10 (minimum_width o) (prec_or_1 o) (padding_of o)
      (left_justify o) (always_sign o) (plus_becomes_space o) false []
  = iso_int d v.
Proof.
  intros d v Hc o value.
  destruct (opts_of_fields d v) as [F1 [F2 [F3 [F4 [F5 [F6 [F7 [F8 F9]]]]]]]]. fold o in F1, F2, F3, F4, F5, F6, F7, F8, F9.
  unfold print_digits_result, padding_of, prec_or_1. rewrite F1, F2, F3, F5, F7, F8.
  rewrite (assemble_eq _ [] _ _ _ (has FZero d && negb (is_some (eff_prec d v)))) by reflexivity.
  unfold iso_int. fold value.
  destruct Hc as [Hc | Hc]; rewrite Hc; cbv zeta; cbn [radix_of andb app].
  all: unfold sign_chars, zeros, blanks, zlen, len, is_some; reflexivity.
Qed.


Lemma mag_eqb : forall z, N.eqb (Z.to_N (Z.abs z)) 0 = (z =? 0).
Proof. intros z. destruct (z =? 0) eqn:E; [apply N.eqb_eq | apply N.eqb_neq]; lia. Qed.

Lemma hex_result_iso : forall d v (upper : bool),
  d_conv d = (if upper then CX else Cx) ->
  let o := opts_of d v in
  let value := to_unsigned (len_bits (d_len d)) (a_int v) in
  print_digits_result (Z.to_N (Z.abs value)) false 16 (minimum_width o) (prec_or_1 o) (padding_of o)
      (left_justify o) false false upper
      (if negb (value =? 0) && alt_conversion o then (if upper then [48; 88]%N else [48; 120]%N) else [])
  = iso_int d v.
Proof.
  intros d v upper Hc o value.
  destruct (opts_of_fields d v) as [F1 [F2 [F3 [F4 [F5 [F6 [F7 [F8 F9]]]]]]]]. fold o in F1, F2, F3, F4, F5, F6, F7, F8, F9.
  unfold print_digits_result, padding_of, prec_or_1. rewrite F1, F4, F5, F7, F8.
  rewrite (assemble_eq _ _ _ _ _ (has FZero d && negb (is_some (eff_prec d v)))) by reflexivity.
  unfold iso_int. fold value. rewrite Hc. rewrite !mag_eqb.
  destruct upper; cbv zeta; cbn [radix_of andb app];
    unfold sign_chars, zeros, blanks, zlen, len, is_some;
    destruct (value =? 0), (has FHash d); cbn [negb andb app]; reflexivity.
Qed.


Lemma zeros_S : forall z, 1 <= z -> zeros z = 48%N :: zeros (z - 1).
Proof. intros z Hz. unfold zeros. replace (Z.to_nat z) with (S (Z.to_nat (z - 1))) by lia. reflexivity. Qed.
Lemma zeros_nonpos : forall z, z <= 0 -> zeros z = [].
Proof. intros z Hz. unfold zeros. replace (Z.to_nat z) with O by lia. reflexivity. Qed.

Lemma starts48_cons : forall (c : N) (r : list N),
  match c :: r with 48%N :: _ => true | _ => false end = N.eqb c 48.
Proof.
  intros [|p] r; [reflexivity|].
  destruct (N.eqb_spec (N.pos p) 48) as [He|Hne]; [inversion He; reflexivity|].
  repeat (destruct p as [p|p|]; try reflexivity; try congruence).
Qed.

Lemma octal_body : forall (mag : N) (p : Z) (alt : bool), 0 <= p -> (mag < 2 ^ 64)%N ->
  let nd := count_oct_digits 65 mag 0 in
  let p' := if alt then (if p <=? nd then nd + 1 else p) else p in
  let ds' := if N.eqb mag 0 && (p' =? 0) then [] else digits 8 false mag in
  let ds := if N.eqb mag 0 && (p =? 0) then [] else digits 8 false mag in
  let body0 := zeros (p - len ds) ++ ds in
  zeros (p' - len ds') ++ ds'
  = (if alt && negb (match body0 with 48%N :: _ => true | _ => false end) then 48%N :: body0 else body0).
Proof.
  intros mag p alt Hp Hm. cbv zeta. destruct alt; cbn [andb]; [|reflexivity].
  destruct (N.eqb mag 0) eqn:E0.
  - apply N.eqb_eq in E0. subst mag. rewrite count_oct_digits_0. cbn [andb].
    rewrite (digits_zero 8 false) by lia.
    destruct (p =? 0) eqn:Ep.
    { assert (p = 0) by lia. subst p. reflexivity. }
    assert (Hle : (p <=? 0) = false) by lia. rewrite Hle. rewrite Ep.
    change (len [48%N]) with 1.
    destruct (p - 1 =? 0) eqn:E1.
    { assert (p = 1) by lia. subst p. reflexivity. }
    rewrite (zeros_S (p - 1)) by lia. cbn [app negb]. reflexivity.
  - apply N.eqb_neq in E0. cbn [andb].
    rewrite count_oct_digits_spec by (try assumption; assert (N.log2 mag < 64)%N by (apply N.log2_lt_pow2; lia); lia).
    destruct (digits_head_nonzero 8 false mag ltac:(lia) ltac:(lia) E0) as [c [r [Hd Hc]]].
    fold (len (digits 8 false mag)). rewrite Z.add_0_l.
    destruct (p <=? len (digits 8 false mag)) eqn:Ep.
    + replace (len (digits 8 false mag) + 1 - len (digits 8 false mag)) with 1 by lia.
      rewrite (zeros_nonpos (p - len (digits 8 false mag))) by lia.
      rewrite Hd. cbn [app]. rewrite (starts48_cons c r). apply N.eqb_neq in Hc. rewrite Hc. reflexivity.
    + rewrite (zeros_S (p - len (digits 8 false mag))) by lia. cbn [app negb]. reflexivity.
Qed.

Lemma to_unsigned_range : forall bits z, 0 < bits <= 64 -> 0 <= to_unsigned bits z < 2 ^ 64.
Proof.
  intros bits z Hb. unfold to_unsigned.
  assert (0 < 2 ^ bits) by (apply Z.pow_pos_nonneg; lia).
  assert (2 ^ bits <= 2 ^ 64) by (apply Z.pow_le_mono_r; lia).
  pose proof (Z.mod_pos_bound z (2 ^ bits) ltac:(lia)). lia.
Qed.

Lemma len_bits_range : forall l, 0 < len_bits l <= 64.
Proof. intros l; destruct l; cbn; lia. Qed.

Lemma unsigned_dec_result_iso : forall d v (pre : list N),
  d_conv d = Cu ->
  let o := opts_of d v in
  let value := to_unsigned (len_bits (d_len d)) (a_int v) in
  print_digits_result (Z.to_N (Z.abs value)) false 10 (minimum_width o) (prec_or_1 o) (padding_of o)
      (left_justify o) false false false []
  = iso_int d v.
Proof.
  intros d v pre Hc o value.
  destruct (opts_of_fields d v) as [F1 [F2 [F3 [F4 [F5 [F6 [F7 [F8 F9]]]]]]]]. fold o in F1, F2, F3, F4, F5, F6, F7, F8, F9.
  unfold print_digits_result, padding_of, prec_or_1. rewrite F1, F5, F7, F8.
  rewrite (assemble_eq _ [] _ _ _ (has FZero d && negb (is_some (eff_prec d v)))) by reflexivity.
  unfold iso_int. fold value. rewrite Hc. cbv zeta; cbn [radix_of andb app].
  unfold sign_chars, zeros, blanks, zlen, len, is_some; reflexivity.
Qed.

Lemma eff_prec_nonneg : forall d v p, eff_prec d v = Some p -> 0 <= p.
Proof.
  intros d v p H. unfold eff_prec in H. destruct (d_prec d); try discriminate; inversion H; subst; try lia.
  destruct (a_prec v <? 0) eqn:E; [discriminate|]. inversion H1. lia.
Qed.

Lemma octal_result_iso : forall d v,
  d_conv d = Co ->
  let o := opts_of d v in
  let value := to_unsigned (len_bits (d_len d)) (a_int v) in
  print_digits_result (Z.to_N (Z.abs value)) false 8 (minimum_width o) (octal_precision o value) (padding_of o)
      (left_justify o) false false false []
  = iso_int d v.
Proof.
  intros d v Hc o value.
  pose proof (to_unsigned_range (len_bits (d_len d)) (a_int v) (len_bits_range _)) as Hv. fold value in Hv.
  assert (Hva : Z.to_N value = Z.to_N (Z.abs value)) by (clearbody value; f_equal; lia).
  assert (Hm : (Z.to_N (Z.abs value) < 2 ^ 64)%N).
  { clearbody value. apply N2Z.inj_lt. rewrite Z2N.id by lia. change (Z.of_N (2 ^ 64)) with (2 ^ 64). lia. }
  set (p := match eff_prec d v with Some p => p | None => 1 end).
  assert (Hp : 0 <= p).
  { subst p. destruct (eff_prec d v) eqn:E; [eapply eff_prec_nonneg; eassumption | clear; lia]. }
  pose proof (octal_body (Z.to_N (Z.abs value)) p (has FHash d) Hp Hm) as Hb. cbv zeta in Hb.
  unfold zeros, len in Hb.
  destruct (opts_of_fields d v) as [F1 [F2 [F3 [F4 [F5 [F6 [F7 [F8 F9]]]]]]]]. fold o in F1, F2, F3, F4, F5, F6, F7, F8, F9.
  unfold print_digits_result, padding_of, octal_precision, prec_or_1. rewrite F1, F4, F5, F7, F8.
  rewrite Hva. fold p.
  rewrite (assemble_eq _ [] _ _ _ (has FZero d && negb (is_some (eff_prec d v)))) by reflexivity.
  unfold zlen. rewrite Hb. clear Hb.
  unfold iso_int. fold value. rewrite Hc. cbv zeta; cbn [radix_of andb app]. fold p.
  unfold sign_chars, zeros, blanks, zlen, len, is_some; reflexivity.
Qed.
