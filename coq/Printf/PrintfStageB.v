(* Stage B of the conformance proof: given the options a directive denotes, do_printf_ints /
   do_printf_chars append exactly what IsoPrintf.iso_printf prescribes. *)
From Coq Require Import String.
From Coq Require Import NArith ZArith List Bool Lia ZifyBool ZifyNat ZifyN.
From FV Require Import Printf.PrintIntModel Printf.IsoPrintf Printf.PrintIntProofs Printf.PrintfModel
  Printf.PrintfParse Printf.PrintfConform Printf.PrintfStageA.
Import ListNotations.
Local Open Scope Z_scope.

(* ---- the fields of opts_of *)
Definition is_flag (f g : flag) : bool :=
  match f, g with
  | FMinus, FMinus | FPlus, FPlus | FSpace, FSpace | FHash, FHash | FZero, FZero | FQuote, FQuote => true
  | _, _ => false
  end.
Lemma has_existsb : forall f d, has f d = existsb (is_flag f) (d_flags d).
Proof.
  intros f d. unfold has. induction (d_flags d) as [|g l IH]; [reflexivity|].
  cbn [existsb]. rewrite IH. reflexivity.
Qed.

Lemma apply_flags_fields : forall fl o,
  left_justify (apply_flags fl o) = left_justify o || existsb (is_flag FMinus) fl
  /\ always_sign (apply_flags fl o) = always_sign o || existsb (is_flag FPlus) fl
  /\ plus_becomes_space (apply_flags fl o) = plus_becomes_space o || existsb (is_flag FSpace) fl
  /\ alt_conversion (apply_flags fl o) = alt_conversion o || existsb (is_flag FHash) fl
  /\ fill_zeros (apply_flags fl o) = fill_zeros o || existsb (is_flag FZero) fl
  /\ group_thousands (apply_flags fl o) = group_thousands o || existsb (is_flag FQuote) fl
  /\ minimum_width (apply_flags fl o) = minimum_width o
  /\ precision (apply_flags fl o) = precision o.
Proof.
  induction fl as [|f fl IH]; intros o.
  - cbn. rewrite !orb_false_r. repeat split; reflexivity.
  - cbn [apply_flags fold_left]. fold (apply_flags fl (apply_flag f o)).
    destruct (IH (apply_flag f o)) as [H1 [H2 [H3 [H4 [H5 [H6 [H7 H8]]]]]]].
    rewrite H1, H2, H3, H4, H5, H6, H7, H8. cbn [existsb].
    destruct o as [cv mw ap da pr lj asg pbs alt fz gt uc], f; cbn [apply_flag left_justify always_sign plus_becomes_space alt_conversion fill_zeros
                          group_thousands minimum_width precision is_flag orb];
      rewrite ?orb_true_r, ?orb_false_r; repeat split; try reflexivity;
      try (destruct (existsb _ fl); rewrite ?orb_true_r, ?orb_false_r; reflexivity).
Qed.

Lemma prec_opts_fields : forall d v o, precision o = None ->
  left_justify (prec_opts d v o) = left_justify o
  /\ always_sign (prec_opts d v o) = always_sign o
  /\ plus_becomes_space (prec_opts d v o) = plus_becomes_space o
  /\ alt_conversion (prec_opts d v o) = alt_conversion o
  /\ fill_zeros (prec_opts d v o) = fill_zeros o
  /\ group_thousands (prec_opts d v o) = group_thousands o
  /\ minimum_width (prec_opts d v o) = minimum_width o
  /\ precision (prec_opts d v o) = eff_prec d v.
Proof.
  intros d v o Hp. unfold prec_opts, eff_prec. destruct o as [cv mw ap da pr lj asg pbs alt fz gt uc].
  cbn [precision] in Hp. subst pr.
  destruct (d_prec d) as [| |m|]; cbn; try (repeat split; reflexivity).
  destruct (0 <=? a_prec v) eqn:E.
  - replace (a_prec v <? 0) with false by lia. cbn. repeat split; reflexivity.
  - replace (a_prec v <? 0) with true by lia. cbn. repeat split; reflexivity.
Qed.

Lemma width_opts_fields : forall d v o,
  left_justify (width_opts d v o) = left_justify o || (eff_width d v <? 0)
  /\ always_sign (width_opts d v o) = always_sign o
  /\ plus_becomes_space (width_opts d v o) = plus_becomes_space o
  /\ alt_conversion (width_opts d v o) = alt_conversion o
  /\ fill_zeros (width_opts d v o) = fill_zeros o
  /\ group_thousands (width_opts d v o) = group_thousands o
  /\ minimum_width (width_opts d v o) = Z.abs (eff_width d v)
  /\ precision (width_opts d v o) = precision o.
Proof.
  intros d v o. unfold width_opts, eff_width. destruct o as [cv mw ap da pr lj asg pbs alt fz gt uc].
  destruct (d_width d) as [|n|]; cbn [set_width left_justify always_sign plus_becomes_space alt_conversion
                                      fill_zeros group_thousands minimum_width precision].
  - change (0 <? 0) with false. rewrite orb_false_r. repeat split; reflexivity.
  - replace (Z.of_N n <? 0) with false by lia. rewrite orb_false_r. repeat split; try reflexivity. lia.
  - destruct (a_width v <? 0) eqn:E;
      cbn [set_width set_left left_justify always_sign plus_becomes_space alt_conversion
           fill_zeros group_thousands minimum_width precision];
      rewrite ?orb_true_r, ?orb_false_r; repeat split; try reflexivity; lia.
Qed.

Lemma opts_of_fields : forall d v,
  let o := opts_of d v in
  left_justify o = has FMinus d || (eff_width d v <? 0)
  /\ always_sign o = has FPlus d
  /\ plus_becomes_space o = has FSpace d
  /\ alt_conversion o = has FHash d
  /\ fill_zeros o = has FZero d
  /\ group_thousands o = has FQuote d
  /\ minimum_width o = Z.abs (eff_width d v)
  /\ precision o = eff_prec d v
  /\ arg_pos o = -1.
Proof.
  intros d v. cbv zeta. unfold opts_of.
  destruct (apply_flags_fields (d_flags d) (set_dollar false default_options)) as [H1 [H2 [H3 [H4 [H5 [H6 [H7 H8]]]]]]].
  set (o1 := apply_flags (d_flags d) (set_dollar false default_options)) in *.
  cbn [set_dollar default_options left_justify always_sign plus_becomes_space alt_conversion fill_zeros
       group_thousands minimum_width precision orb] in H1, H2, H3, H4, H5, H6, H7, H8.
  destruct (width_opts_fields d v o1) as [W1 [W2 [W3 [W4 [W5 [W6 [W7 W8]]]]]]].
  set (o2 := width_opts d v o1) in *.
  destruct (prec_opts_fields d v o2 ltac:(rewrite W8; exact H8)) as [P1 [P2 [P3 [P4 [P5 [P6 [P7 P8]]]]]]].
  rewrite !has_existsb.
  rewrite P1, P2, P3, P4, P5, P6, P7, P8, W1, W2, W3, W4, W5, W6, W7, H1, H2, H3, H4, H5, H6.
  repeat split; try reflexivity.
  rewrite prec_opts_arg_pos. subst o2. rewrite width_opts_arg_pos. subst o1. rewrite apply_flags_arg_pos. reflexivity.
Qed.

(* ---- the padding algebra against the ISO text *)
Lemma zlen_len : forall l, zlen l = len l.
Proof. reflexivity. Qed.

Lemma assemble_eq : forall (sign prefix body : list N) width (lj zero : bool) (padding : N),
  padding = (if zero then 48%N else 32%N) ->
  (let s' := sign ++ prefix in
   let fill := width - (zlen s' + zlen body) in
   if lj then s' ++ body ++ repeat 32%N (Z.to_nat fill)
   else if N.eqb padding 48 then s' ++ repeat 48%N (Z.to_nat fill) ++ body
   else repeat padding (Z.to_nat fill) ++ s' ++ body)
  = (let n := len (sign ++ prefix ++ body) in
     if lj then sign ++ prefix ++ body ++ blanks (width - n)
     else if zero then sign ++ prefix ++ zeros (width - n) ++ body
     else blanks (width - n) ++ sign ++ prefix ++ body).
Proof.
  intros sign prefix body width lj zero padding Hp. cbv zeta.
  assert (Hn : zlen (sign ++ prefix) + zlen body = len (sign ++ prefix ++ body)).
  { unfold zlen, len. rewrite !app_length. lia. }
  rewrite Hn. unfold blanks, zeros. subst padding.
  destruct lj; [rewrite <- !app_assoc; reflexivity|].
  destruct zero; cbn [N.eqb Pos.eqb]; rewrite <- !app_assoc; reflexivity.
Qed.

(* octal alternate form: raising the precision = prepending a zero when the body does not start with one *)
Lemma count_oct_digits_spec : forall fuel n acc, (N.to_nat (N.log2 n) < fuel)%nat -> n <> 0%N ->
  count_oct_digits fuel n acc = acc + Z.of_nat (length (digits 8 false n)).
Proof.
  induction fuel as [|fuel IH]; intros n acc Hf Hn; [lia|]. cbn [count_oct_digits].
  apply N.eqb_neq in Hn. rewrite Hn. apply N.eqb_neq in Hn.
  rewrite (digits_unfold 8 false n) by lia.
  destruct (N.ltb n 8) eqn:E.
  - apply N.ltb_lt in E. rewrite N.div_small by assumption.
    destruct fuel; cbn [count_oct_digits N.eqb length]; lia.
  - apply N.ltb_ge in E. rewrite app_length. cbn [length].
    rewrite IH.
    + lia.
    + pose proof (log2_div_lt n 8 ltac:(lia) E). lia.
    + intro H0. apply N.div_small_iff in H0; lia.
Qed.

Lemma count_oct_digits_0 : forall fuel acc, count_oct_digits fuel 0 acc = acc.
Proof. intros [|fuel] acc; reflexivity. Qed.
