(* Stage B of the conformance proof: given the options a directive denotes, do_printf_ints /
   do_printf_chars append exactly what IsoPrintf.iso_printf prescribes. *)
From Coq Require Import String.
From Coq Require Import NArith ZArith Znumtheory List Bool Lia ZifyBool ZifyNat ZifyN.
From FV Require Import Printf.PrintIntModel Printf.IsoPrintf Printf.PrintIntProofs Printf.PrintfModel
  Printf.PrintfParse Printf.PrintfConform Printf.PrintfStageA.
Import ListNotations.
Local Open Scope Z_scope.

(* ---- the fields of opts_of *)
Definition is_flag (f g : flag) : bool :=
  match f, g with
  | FMinus, FMinus | FPlus, FPlus | FSpace, FSpace | FHash, FHash | FZero, FZero | FQuote, FQuote => true
  | _, _ => false
  end.
Lemma has_existsb : forall f d, has f d = existsb (is_flag f) (d_flags d).
Proof.
  intros f d. unfold has. induction (d_flags d) as [|g l IH]; [reflexivity|].
  cbn [existsb]. rewrite IH. reflexivity.
Qed.

Lemma apply_flags_fields : forall fl o,
  left_justify (apply_flags fl o) = left_justify o || existsb (is_flag FMinus) fl
  /\ always_sign (apply_flags fl o) = always_sign o || existsb (is_flag FPlus) fl
  /\ plus_becomes_space (apply_flags fl o) = plus_becomes_space o || existsb (is_flag FSpace) fl
  /\ alt_conversion (apply_flags fl o) = alt_conversion o || existsb (is_flag FHash) fl
  /\ fill_zeros (apply_flags fl o) = fill_zeros o || existsb (is_flag FZero) fl
  /\ group_thousands (apply_flags fl o) = group_thousands o || existsb (is_flag FQuote) fl
  /\ minimum_width (apply_flags fl o) = minimum_width o
  /\ precision (apply_flags fl o) = precision o.
Proof.
  induction fl as [|f fl IH]; intros o.
  - cbn. rewrite !orb_false_r. repeat split; reflexivity.
  - cbn [apply_flags fold_left]. fold (apply_flags fl (apply_flag f o)).
    destruct (IH (apply_flag f o)) as [H1 [H2 [H3 [H4 [H5 [H6 [H7 H8]]]]]]].
    rewrite H1, H2, H3, H4, H5, H6, H7, H8. cbn [existsb].
    destruct o as [cv mw ap da pr lj asg pbs alt fz gt uc], f; cbn [apply_flag left_justify always_sign plus_becomes_space alt_conversion fill_zeros
                          group_thousands minimum_width precision is_flag orb];
      rewrite ?orb_true_r, ?orb_false_r; repeat split; try reflexivity;
      try (destruct (existsb _ fl); rewrite ?orb_true_r, ?orb_false_r; reflexivity).
Qed.

Lemma prec_opts_fields : forall d v o, precision o = None ->
  left_justify (prec_opts d v o) = left_justify o
  /\ always_sign (prec_opts d v o) = always_sign o
  /\ plus_becomes_space (prec_opts d v o) = plus_becomes_space o
  /\ alt_conversion (prec_opts d v o) = alt_conversion o
  /\ fill_zeros (prec_opts d v o) = fill_zeros o
  /\ group_thousands (prec_opts d v o) = group_thousands o
  /\ minimum_width (prec_opts d v o) = minimum_width o
  /\ precision (prec_opts d v o) = eff_prec d v.
Proof.
  intros d v o Hp. unfold prec_opts, eff_prec. destruct o as [cv mw ap da pr lj asg pbs alt fz gt uc].
  cbn [precision] in Hp. subst pr.
  destruct (d_prec d) as [| |m|]; cbn; try (repeat split; reflexivity).
  destruct (0 <=? a_prec v) eqn:E.
  - replace (a_prec v <? 0) with false by lia. cbn. repeat split; reflexivity.
  - replace (a_prec v <? 0) with true by lia. cbn. repeat split; reflexivity.
Qed.

Lemma width_opts_fields : forall d v o,
  left_justify (width_opts d v o) = left_justify o || (eff_width d v <? 0)
  /\ always_sign (width_opts d v o) = always_sign o
  /\ plus_becomes_space (width_opts d v o) = plus_becomes_space o
  /\ alt_conversion (width_opts d v o) = alt_conversion o
  /\ fill_zeros (width_opts d v o) = fill_zeros o
  /\ group_thousands (width_opts d v o) = group_thousands o
  /\ minimum_width (width_opts d v o) = Z.abs (eff_width d v)
  /\ precision (width_opts d v o) = precision o.
Proof.
  intros d v o. unfold width_opts, eff_width. destruct o as [cv mw ap da pr lj asg pbs alt fz gt uc].
  destruct (d_width d) as [|n|]; cbn [set_width left_justify always_sign plus_becomes_space alt_conversion
                                      fill_zeros group_thousands minimum_width precision].
  - change (0 <? 0) with false. rewrite orb_false_r. repeat split; reflexivity.
  - replace (Z.of_N n <? 0) with false by lia. rewrite orb_false_r. repeat split; try reflexivity. lia.
  - destruct (a_width v <? 0) eqn:E;
      cbn [set_width set_left left_justify always_sign plus_becomes_space alt_conversion
           fill_zeros group_thousands minimum_width precision];
      rewrite ?orb_true_r, ?orb_false_r; repeat split; try reflexivity; lia.
Qed.

Lemma opts_of_fields : forall d v,
  let o := opts_of d v in
  left_justify o = has FMinus d || (eff_width d v <? 0)
  /\ always_sign o = has FPlus d
  /\ plus_becomes_space o = has FSpace d
  /\ alt_conversion o = has FHash d
  /\ fill_zeros o = has FZero d
  /\ group_thousands o = has FQuote d
  /\ minimum_width o = Z.abs (eff_width d v)
  /\ precision o = eff_prec d v
  /\ arg_pos o = -1.
Proof.
  intros d v. cbv zeta. unfold opts_of.
  destruct (apply_flags_fields (d_flags d) (set_dollar false default_options)) as [H1 [H2 [H3 [H4 [H5 [H6 [H7 H8]]]]]]].
  set (o1 := apply_flags (d_flags d) (set_dollar false default_options)) in *.
  cbn [set_dollar default_options left_justify always_sign plus_becomes_space alt_conversion fill_zeros
       group_thousands minimum_width precision orb] in H1, H2, H3, H4, H5, H6, H7, H8.
  destruct (width_opts_fields d v o1) as [W1 [W2 [W3 [W4 [W5 [W6 [W7 W8]]]]]]].
  set (o2 := width_opts d v o1) in *.
  destruct (prec_opts_fields d v o2 ltac:(rewrite W8; exact H8)) as [P1 [P2 [P3 [P4 [P5 [P6 [P7 P8]]]]]]].
  rewrite !has_existsb.
  rewrite P1, P2, P3, P4, P5, P6, P7, P8, W1, W2, W3, W4, W5, W6, W7, H1, H2, H3, H4, H5, H6.
  repeat split; try reflexivity.
  rewrite prec_opts_arg_pos. subst o2. rewrite width_opts_arg_pos. subst o1. rewrite apply_flags_arg_pos. reflexivity.
Qed.

(* ---- the padding algebra against the ISO text *)
Lemma zlen_len : forall l, zlen l = len l.
Proof. reflexivity. Qed.

Lemma assemble_eq : forall (sign prefix body : list N) width (lj zero : bool) (padding : N),
  padding = (if zero then 48%N else 32%N) ->
  (let s' := sign ++ prefix in
   let fill := width - (zlen s' + zlen body) in
   if lj then s' ++ body ++ repeat 32%N (Z.to_nat fill)
   else if N.eqb padding 48 then s' ++ repeat 48%N (Z.to_nat fill) ++ body
   else repeat padding (Z.to_nat fill) ++ s' ++ body)
  = (let n := len (sign ++ prefix ++ body) in
     if lj then sign ++ prefix ++ body ++ blanks (width - n)
     else if zero then sign ++ prefix ++ zeros (width - n) ++ body
     else blanks (width - n) ++ sign ++ prefix ++ body).
Proof.
  intros sign prefix body width lj zero padding Hp. cbv zeta.
  assert (Hn : zlen (sign ++ prefix) + zlen body = len (sign ++ prefix ++ body)).
  { unfold zlen, len. rewrite !app_length. lia. }
  rewrite Hn. unfold blanks, zeros. subst padding.
  destruct lj; [rewrite <- !app_assoc; reflexivity|].
  destruct zero; cbn [N.eqb Pos.eqb]; rewrite <- !app_assoc; reflexivity.
Qed.

(* octal alternate form: raising the precision = prepending a zero when the body does not start with one *)
Lemma count_oct_digits_spec : forall fuel n acc, (N.to_nat (N.log2 n) < fuel)%nat -> n <> 0%N ->
  count_oct_digits fuel n acc = acc + Z.of_nat (length (digits 8 false n)).
Proof.
  induction fuel as [|fuel IH]; intros n acc Hf Hn; [lia|]. cbn [count_oct_digits].
  apply N.eqb_neq in Hn. rewrite Hn. apply N.eqb_neq in Hn.
  rewrite (digits_unfold 8 false n) by lia.
  destruct (N.ltb n 8) eqn:E.
  - apply N.ltb_lt in E. rewrite N.div_small by assumption.
    destruct fuel; cbn [count_oct_digits N.eqb length]; lia.
  - apply N.ltb_ge in E. rewrite app_length. cbn [length].
    rewrite IH.
    + lia.
    + pose proof (log2_div_lt n 8 ltac:(lia) E). lia.
    + intro H0. apply N.div_small_iff in H0; lia.
Qed.

Lemma count_oct_digits_0 : forall fuel acc, count_oct_digits fuel 0 acc = acc.
Proof. intros [|fuel] acc; reflexivity. Qed.

(* ---- the integer conversions *)

Lemma signed_result_iso : forall d v,
  (d_conv d = Cd \/ d_conv d = Ci) ->
  let o := opts_of d v in
  let value := to_signed (len_bits (d_len d)) (a_int v) in
  print_digits_result (Z.to_N (Z.abs value)) (value <? 0) 10 (minimum_width o) (prec_or_1 o) (padding_of o)
      (left_justify o) (always_sign o) (plus_becomes_space o) false []
  = iso_int d v.
Proof.
  intros d v Hc o value.
  destruct (opts_of_fields d v) as [F1 [F2 [F3 [F4 [F5 [F6 [F7 [F8 F9]]]]]]]]. fold o in F1, F2, F3, F4, F5, F6, F7, F8, F9.
  unfold print_digits_result, padding_of, prec_or_1. rewrite F1, F2, F3, F5, F7, F8.
  rewrite (assemble_eq _ [] _ _ _ (has FZero d && negb (is_some (eff_prec d v)))) by reflexivity.
  unfold iso_int. fold value.
  destruct Hc as [Hc | Hc]; rewrite Hc; cbv zeta; cbn [radix_of andb app].
  all: unfold sign_chars, zeros, blanks, zlen, len, is_some; reflexivity.
Qed.


Lemma mag_eqb : forall z, N.eqb (Z.to_N (Z.abs z)) 0 = (z =? 0).
Proof. intros z. destruct (z =? 0) eqn:E; [apply N.eqb_eq | apply N.eqb_neq]; lia. Qed.

Lemma hex_result_iso : forall d v (upper : bool),
  d_conv d = (if upper then CX else Cx) ->
  let o := opts_of d v in
  let value := to_unsigned (len_bits (d_len d)) (a_int v) in
  print_digits_result (Z.to_N (Z.abs value)) false 16 (minimum_width o) (prec_or_1 o) (padding_of o)
      (left_justify o) false false upper
      (if negb (value =? 0) && alt_conversion o then (if upper then [48; 88]%N else [48; 120]%N) else [])
  = iso_int d v.
Proof.
  intros d v upper Hc o value.
  destruct (opts_of_fields d v) as [F1 [F2 [F3 [F4 [F5 [F6 [F7 [F8 F9]]]]]]]]. fold o in F1, F2, F3, F4, F5, F6, F7, F8, F9.
  unfold print_digits_result, padding_of, prec_or_1. rewrite F1, F4, F5, F7, F8.
  rewrite (assemble_eq _ _ _ _ _ (has FZero d && negb (is_some (eff_prec d v)))) by reflexivity.
  unfold iso_int. fold value. rewrite Hc. rewrite !mag_eqb.
  destruct upper; cbv zeta; cbn [radix_of andb app];
    unfold sign_chars, zeros, blanks, zlen, len, is_some;
    destruct (value =? 0), (has FHash d); cbn [negb andb app]; reflexivity.
Qed.


Lemma zeros_S : forall z, 1 <= z -> zeros z = 48%N :: zeros (z - 1).
Proof. intros z Hz. unfold zeros. replace (Z.to_nat z) with (S (Z.to_nat (z - 1))) by lia. reflexivity. Qed.
Lemma zeros_nonpos : forall z, z <= 0 -> zeros z = [].
Proof. intros z Hz. unfold zeros. replace (Z.to_nat z) with O by lia. reflexivity. Qed.

Lemma starts48_cons : forall (c : N) (r : list N),
  match c :: r with 48%N :: _ => true | _ => false end = N.eqb c 48.
Proof.
  intros [|p] r; [reflexivity|].
  destruct (N.eqb_spec (N.pos p) 48) as [He|Hne]; [inversion He; reflexivity|].
  repeat (destruct p as [p|p|]; try reflexivity; try congruence).
Qed.

Lemma octal_body : forall (mag : N) (p : Z) (alt : bool), 0 <= p -> (mag < 2 ^ 64)%N ->
  let nd := count_oct_digits 65 mag 0 in
  let p' := if alt then (if p <=? nd then nd + 1 else p) else p in
  let ds' := if N.eqb mag 0 && (p' =? 0) then [] else digits 8 false mag in
  let ds := if N.eqb mag 0 && (p =? 0) then [] else digits 8 false mag in
  let body0 := zeros (p - len ds) ++ ds in
  zeros (p' - len ds') ++ ds'
  = (if alt && negb (match body0 with 48%N :: _ => true | _ => false end) then 48%N :: body0 else body0).
Proof.
  intros mag p alt Hp Hm. cbv zeta. destruct alt; cbn [andb]; [|reflexivity].
  destruct (N.eqb mag 0) eqn:E0.
  - apply N.eqb_eq in E0. subst mag. rewrite count_oct_digits_0. cbn [andb].
    rewrite (digits_zero 8 false) by lia.
    destruct (p =? 0) eqn:Ep.
    { assert (p = 0) by lia. subst p. reflexivity. }
    assert (Hle : (p <=? 0) = false) by lia. rewrite Hle. rewrite Ep.
    change (len [48%N]) with 1.
    destruct (p - 1 =? 0) eqn:E1.
    { assert (p = 1) by lia. subst p. reflexivity. }
    rewrite (zeros_S (p - 1)) by lia. cbn [app negb]. reflexivity.
  - apply N.eqb_neq in E0. cbn [andb].
    rewrite count_oct_digits_spec by (try assumption; assert (N.log2 mag < 64)%N by (apply N.log2_lt_pow2; lia); lia).
    destruct (digits_head_nonzero 8 false mag ltac:(lia) ltac:(lia) E0) as [c [r [Hd Hc]]].
    fold (len (digits 8 false mag)). rewrite Z.add_0_l.
    destruct (p <=? len (digits 8 false mag)) eqn:Ep.
    + replace (len (digits 8 false mag) + 1 - len (digits 8 false mag)) with 1 by lia.
      rewrite (zeros_nonpos (p - len (digits 8 false mag))) by lia.
      rewrite Hd. cbn [app]. rewrite (starts48_cons c r). apply N.eqb_neq in Hc. rewrite Hc. reflexivity.
    + rewrite (zeros_S (p - len (digits 8 false mag))) by lia. cbn [app negb]. reflexivity.
Qed.

Lemma to_unsigned_range : forall bits z, 0 < bits <= 64 -> 0 <= to_unsigned bits z < 2 ^ 64.
Proof.
  intros bits z Hb. unfold to_unsigned.
  assert (0 < 2 ^ bits) by (apply Z.pow_pos_nonneg; lia).
  assert (2 ^ bits <= 2 ^ 64) by (apply Z.pow_le_mono_r; lia).
  pose proof (Z.mod_pos_bound z (2 ^ bits) ltac:(lia)). lia.
Qed.

Lemma len_bits_range : forall l, 0 < len_bits l <= 64.
Proof. intros l; destruct l; cbn; lia. Qed.

Lemma unsigned_dec_result_iso : forall d v (pre : list N),
  d_conv d = Cu ->
  let o := opts_of d v in
  let value := to_unsigned (len_bits (d_len d)) (a_int v) in
  print_digits_result (Z.to_N (Z.abs value)) false 10 (minimum_width o) (prec_or_1 o) (padding_of o)
      (left_justify o) false false false []
  = iso_int d v.
Proof.
  intros d v pre Hc o value.
  destruct (opts_of_fields d v) as [F1 [F2 [F3 [F4 [F5 [F6 [F7 [F8 F9]]]]]]]]. fold o in F1, F2, F3, F4, F5, F6, F7, F8, F9.
  unfold print_digits_result, padding_of, prec_or_1. rewrite F1, F5, F7, F8.
  rewrite (assemble_eq _ [] _ _ _ (has FZero d && negb (is_some (eff_prec d v)))) by reflexivity.
  unfold iso_int. fold value. rewrite Hc. cbv zeta; cbn [radix_of andb app].
  unfold sign_chars, zeros, blanks, zlen, len, is_some; reflexivity.
Qed.

Lemma eff_prec_nonneg : forall d v p, eff_prec d v = Some p -> 0 <= p.
Proof.
  intros d v p H. unfold eff_prec in H. destruct (d_prec d); try discriminate; inversion H; subst; try lia.
  destruct (a_prec v <? 0) eqn:E; [discriminate|]. inversion H1. lia.
Qed.

Lemma octal_result_iso : forall d v,
  d_conv d = Co ->
  let o := opts_of d v in
  let value := to_unsigned (len_bits (d_len d)) (a_int v) in
  print_digits_result (Z.to_N (Z.abs value)) false 8 (minimum_width o) (octal_precision o value) (padding_of o)
      (left_justify o) false false false []
  = iso_int d v.
Proof.
  intros d v Hc o value.
  pose proof (to_unsigned_range (len_bits (d_len d)) (a_int v) (len_bits_range _)) as Hv. fold value in Hv.
  assert (Hva : Z.to_N value = Z.to_N (Z.abs value)) by (clearbody value; f_equal; lia).
  assert (Hm : (Z.to_N (Z.abs value) < 2 ^ 64)%N).
  { clearbody value. apply N2Z.inj_lt. rewrite Z2N.id by lia. change (Z.of_N (2 ^ 64)) with (2 ^ 64). lia. }
  set (p := match eff_prec d v with Some p => p | None => 1 end).
  assert (Hp : 0 <= p).
  { subst p. destruct (eff_prec d v) eqn:E; [eapply eff_prec_nonneg; eassumption | clear; lia]. }
  pose proof (octal_body (Z.to_N (Z.abs value)) p (has FHash d) Hp Hm) as Hb. cbv zeta in Hb.
  unfold zeros, len in Hb.
  destruct (opts_of_fields d v) as [F1 [F2 [F3 [F4 [F5 [F6 [F7 [F8 F9]]]]]]]]. fold o in F1, F2, F3, F4, F5, F6, F7, F8, F9.
  unfold print_digits_result, padding_of, octal_precision, prec_or_1. rewrite F1, F4, F5, F7, F8.
  rewrite Hva. fold p.
  rewrite (assemble_eq _ [] _ _ _ (has FZero d && negb (is_some (eff_prec d v)))) by reflexivity.
  unfold zlen. rewrite Hb. clear Hb.
  unfold iso_int. fold value. rewrite Hc. cbv zeta; cbn [radix_of andb app]. fold p.
  unfold sign_chars, zeros, blanks, zlen, len, is_some; reflexivity.
Qed.

(* ---- what the agent appends *)

Lemma interp_slot : forall ct (k : N) z, (ct_bits ct <= k)%N -> (1 <= ct_bits ct)%N ->
  interp ct (Z.to_N (z mod 2 ^ Z.of_N k))
  = if ct_signed ct then to_signed (Z.of_N (ct_bits ct)) z else to_unsigned (Z.of_N (ct_bits ct)) z.
Proof.
  intros ct k z Hk Hb. unfold interp, to_signed, to_unsigned.
  set (b := Z.of_N (ct_bits ct)).
  assert (Hb0 : 0 < 2 ^ b) by (apply Z.pow_pos_nonneg; lia).
  assert (Hk0 : 0 < 2 ^ Z.of_N k) by (apply Z.pow_pos_nonneg; lia).
  assert (Hm : Z.of_N (Z.to_N (z mod 2 ^ Z.of_N k) mod 2 ^ ct_bits ct) = z mod 2 ^ b).
  { rewrite N2Z.inj_mod. rewrite Z2N.id by (pose proof (Z.mod_pos_bound z (2 ^ Z.of_N k)); lia).
    rewrite N2Z.inj_pow. change (Z.of_N 2) with 2. fold b.
    assert (Hdiv : (2 ^ b | 2 ^ Z.of_N k)).
    { exists (2 ^ (Z.of_N k - b)). rewrite <- Z.pow_add_r by lia. f_equal. lia. }
    symmetry. apply Zmod_div_mod; assumption. }
  rewrite Hm. destruct (ct_signed ct); reflexivity.
Qed.

Lemma interp_slot32 : forall ct z, (ct_bits ct <= 32)%N -> (1 <= ct_bits ct)%N ->
  interp ct (slot32 z) = if ct_signed ct then to_signed (Z.of_N (ct_bits ct)) z else to_unsigned (Z.of_N (ct_bits ct)) z.
Proof. intros. exact (interp_slot ct 32 z H H0). Qed.
Lemma interp_slot64 : forall ct z, (ct_bits ct <= 64)%N -> (1 <= ct_bits ct)%N ->
  interp ct (slot64 z) = if ct_signed ct then to_signed (Z.of_N (ct_bits ct)) z else to_unsigned (Z.of_N (ct_bits ct)) z.
Proof. intros. exact (interp_slot ct 64 z H H0). Qed.

Definition int_slot (l : lenmod) (a : Z) : N := match l with LNone | Lhh | Lh => slot32 a | _ => slot64 a end.

Lemma value_slot_int : forall d v, is_int_conv (d_conv d) = true -> value_slot d v = [int_slot (d_len d) (a_int v)].
Proof. intros d v H. unfold value_slot, int_slot. destruct (d_conv d); try discriminate; destruct (d_len d); reflexivity. Qed.

Lemma pop_va_eval : forall ct opts out raw rest pops cache na, arg_pos opts = -1 ->
  pop_arg ct opts (mk_ps out (mk_vs (raw :: rest) pops cache na))
  = (mk_ps out (mk_vs rest (pops ++ [ct_va ct]) cache na), Ok (interp ct raw)).
Proof. intros. unfold pop_arg. rewrite H. rewrite Z.eqb_refl. reflexivity. Qed.

Definition int_argty (l : lenmod) : argty :=
  match l with LNone | Lhh | Lh => ATInt | Lll => ATLLong | _ => ATLong end.

Lemma pop_signed : forall l a opts out rest pops cache na, arg_pos opts = -1 ->
  exists ct, signed_type (szmod_of l) = Some ct /\
    pop_arg ct opts (mk_ps out (mk_vs (int_slot l a :: rest) pops cache na))
    = (mk_ps out (mk_vs rest (pops ++ [int_argty l]) cache na), Ok (to_signed (len_bits l) a)).
Proof.
  intros l a opts out rest pops cache na Hap.
  destruct l; (eexists; split; [reflexivity|]); rewrite pop_va_eval by assumption; unfold int_slot;
    first [rewrite interp_slot32 by (cbn; lia) | rewrite interp_slot64 by (cbn; lia)]; reflexivity.
Qed.

Lemma pop_unsigned : forall l a opts out rest pops cache na, arg_pos opts = -1 ->
  exists ct, unsigned_type (szmod_of l) = Some ct /\
    pop_arg ct opts (mk_ps out (mk_vs (int_slot l a :: rest) pops cache na))
    = (mk_ps out (mk_vs rest (pops ++ [int_argty l]) cache na), Ok (to_unsigned (len_bits l) a)).
Proof.
  intros l a opts out rest pops cache na Hap.
  destruct l; (eexists; split; [reflexivity|]); rewrite pop_va_eval by assumption; unfold int_slot;
    first [rewrite interp_slot32 by (cbn; lia) | rewrite interp_slot64 by (cbn; lia)]; reflexivity.
Qed.

Lemma to_signed_range : forall bits z, 0 < bits <= 64 -> - 2 ^ 63 <= to_signed bits z < 2 ^ 64.
Proof.
  intros bits z Hb. unfold to_signed.
  assert (0 < 2 ^ (bits - 1)) by (apply Z.pow_pos_nonneg; lia).
  assert (2 ^ bits = 2 * 2 ^ (bits - 1)) by (rewrite <- Z.pow_succ_r by lia; f_equal; lia).
  assert (2 ^ (bits - 1) <= 2 ^ 63) by (apply Z.pow_le_mono_r; lia).
  pose proof (Z.mod_pos_bound z (2 ^ bits) ltac:(lia)).
  destruct (2 ^ (bits - 1) <=? z mod 2 ^ bits) eqn:E; lia.
Qed.

(* what the agent appends for an integer directive *)
Lemma agent_int : forall mem d v out rest pops cache na,
  is_int_conv (d_conv d) = true -> in_grammar d = true ->
  agent mem (conv_char (d_conv d)) (opts_of d v) (szmod_of (d_len d))
        (mk_ps out (mk_vs (value_slot d v ++ rest) pops cache na))
  = (mk_ps (out ++ iso_printf d v) (mk_vs rest (pops ++ [int_argty (d_len d)]) cache na), Ok tt).
Proof.
  intros mem d v out rest pops cache na Hint Hgr.
  rewrite (value_slot_int d v Hint). cbn [app].
  destruct (opts_of_fields d v) as [F1 [F2 [F3 [F4 [F5 [F6 [F7 [F8 F9]]]]]]]].
  unfold iso_printf.
  destruct (d_conv d) eqn:Ec; try discriminate; cbn [conv_char]; unfold agent; cbn [N.eqb Pos.eqb orb];
    unfold do_printf_ints; cbn [N.eqb Pos.eqb orb].
  - (* d *)
    assert (Halt : alt_conversion (opts_of d v) = false).
    { rewrite F4. unfold in_grammar in Hgr. rewrite Ec in Hgr. destruct (has FHash d); [|reflexivity].
      rewrite !andb_false_r in Hgr. discriminate. }
    rewrite Halt. cbn [negb massert]. mstep ltac:(reflexivity).
    destruct (pop_signed (d_len d) (a_int v) (opts_of d v) out rest pops cache na F9) as [ct [Hct Hpop]].
    rewrite Hct. mstep ltac:(exact Hpop).
    rewrite print_int_spec; [ | compute; discriminate | compute; discriminate | compute; discriminate | compute; discriminate | change (Z.of_N 64 - 1) with 63; apply to_signed_range; apply len_bits_range ].
    mstep ltac:(reflexivity).
    rewrite (signed_result_iso d v (or_introl Ec)). reflexivity.
  - (* i *)
    assert (Halt : alt_conversion (opts_of d v) = false).
    { rewrite F4. unfold in_grammar in Hgr. rewrite Ec in Hgr. destruct (has FHash d); [|reflexivity].
      rewrite !andb_false_r in Hgr. discriminate. }
    rewrite Halt. cbn [negb massert]. mstep ltac:(reflexivity).
    destruct (pop_signed (d_len d) (a_int v) (opts_of d v) out rest pops cache na F9) as [ct [Hct Hpop]].
    rewrite Hct. mstep ltac:(exact Hpop).
    rewrite print_int_spec; [ | compute; discriminate | compute; discriminate | compute; discriminate | compute; discriminate | change (Z.of_N 64 - 1) with 63; apply to_signed_range; apply len_bits_range ].
    mstep ltac:(reflexivity).
    rewrite (signed_result_iso d v (or_intror Ec)). reflexivity.
  - (* u *)
    assert (Halt : alt_conversion (opts_of d v) = false).
    { rewrite F4. unfold in_grammar in Hgr. rewrite Ec in Hgr. destruct (has FHash d); [|reflexivity].
      rewrite !andb_false_r in Hgr. discriminate. }
    destruct (pop_unsigned (d_len d) (a_int v) (opts_of d v) out rest pops cache na F9) as [ct [Hct Hpop]].
    rewrite Hct. mstep ltac:(exact Hpop).
    rewrite Halt. cbn [negb massert]. mstep ltac:(reflexivity).
    unfold print_unsigned. rewrite Halt. rewrite andb_false_r.
    pose proof (to_unsigned_range (len_bits (d_len d)) (a_int v) (len_bits_range _)) as Hv.
    rewrite print_int_spec; [ | compute; discriminate | compute; discriminate | compute; discriminate | compute; discriminate | change (Z.of_N 64 - 1) with 63; clear - Hv; lia ].
    mstep ltac:(reflexivity).
    replace (to_unsigned (len_bits (d_len d)) (a_int v) <? 0) with false by (clear - Hv; lia).
    rewrite (unsigned_dec_result_iso d v [] Ec). reflexivity.
  - (* o *)
    destruct (pop_unsigned (d_len d) (a_int v) (opts_of d v) out rest pops cache na F9) as [ct [Hct Hpop]].
    rewrite Hct. mstep ltac:(exact Hpop).
    unfold print_unsigned.
    pose proof (to_unsigned_range (len_bits (d_len d)) (a_int v) (len_bits_range _)) as Hv.
    rewrite print_int_spec; [ | compute; discriminate | compute; discriminate | compute; discriminate | compute; discriminate | change (Z.of_N 64 - 1) with 63; clear - Hv; lia ].
    mstep ltac:(reflexivity).
    replace (to_unsigned (len_bits (d_len d)) (a_int v) <? 0) with false by (clear - Hv; lia).
    replace (if negb (to_unsigned (len_bits (d_len d)) (a_int v) =? 0) && alt_conversion (opts_of d v) then [] else []) with (@nil N)
      by (destruct (negb (to_unsigned (len_bits (d_len d)) (a_int v) =? 0) && alt_conversion (opts_of d v)); reflexivity).
    rewrite (octal_result_iso d v Ec). reflexivity.
  - (* x *)
    destruct (pop_unsigned (d_len d) (a_int v) (opts_of d v) out rest pops cache na F9) as [ct [Hct Hpop]].
    rewrite Hct. mstep ltac:(exact Hpop).
    unfold print_unsigned.
    pose proof (to_unsigned_range (len_bits (d_len d)) (a_int v) (len_bits_range _)) as Hv.
    rewrite print_int_spec; [ | compute; discriminate | compute; discriminate | compute; discriminate | compute; discriminate | change (Z.of_N 64 - 1) with 63; clear - Hv; lia ].
    mstep ltac:(reflexivity).
    replace (to_unsigned (len_bits (d_len d)) (a_int v) <? 0) with false by (clear - Hv; lia).
    rewrite (hex_result_iso d v false Ec). reflexivity.
  - (* X *)
    destruct (pop_unsigned (d_len d) (a_int v) (opts_of d v) out rest pops cache na F9) as [ct [Hct Hpop]].
    rewrite Hct. mstep ltac:(exact Hpop).
    unfold print_unsigned.
    pose proof (to_unsigned_range (len_bits (d_len d)) (a_int v) (len_bits_range _)) as Hv.
    rewrite print_int_spec; [ | compute; discriminate | compute; discriminate | compute; discriminate | compute; discriminate | change (Z.of_N 64 - 1) with 63; clear - Hv; lia ].
    mstep ltac:(reflexivity).
    replace (to_unsigned (len_bits (d_len d)) (a_int v) <? 0) with false by (clear - Hv; lia).
    rewrite (hex_result_iso d v true Ec). reflexivity.
Qed.


(* ---- %s *)
Lemma strnlen_take : forall buf lim acc,
  has_nul_within buf lim = true ->
  c_strnlen buf lim acc = Ok (acc + len (take_str buf lim)).
Proof.
  induction buf as [|ch r IH]; intros lim acc H.
  - destruct lim as [[|m]|]; cbn in *; try discriminate. f_equal. unfold len. cbn. lia.
  - destruct lim as [[|m]|]; cbn [c_strnlen take_str has_nul_within] in *.
    + f_equal. unfold len. cbn. lia.
    + destruct (N.eqb ch 0) eqn:E; [f_equal; unfold len; cbn; lia|].
      cbn [orb] in H. rewrite IH by assumption. f_equal. unfold len. cbn [length]. lia.
    + destruct (N.eqb ch 0) eqn:E; [f_equal; unfold len; cbn; lia|].
      cbn [orb] in H. rewrite IH by assumption. f_equal. unfold len. cbn [length]. lia.
Qed.

Lemma copy_take : forall buf lim,
  has_nul_within buf lim = true -> forallb (fun ch => N.ltb ch 256) buf = true ->
  copy_chars (length (take_str buf lim)) buf = Ok (take_str buf lim).
Proof.
  induction buf as [|ch r IH]; intros lim H Hb.
  - destruct lim as [[|m]|]; cbn in *; try discriminate; reflexivity.
  - cbn [forallb] in Hb. apply andb_true_iff in Hb. destruct Hb as [Hch Hr].
    destruct lim as [[|m]|]; cbn [take_str has_nul_within] in *.
    + reflexivity.
    + destruct (N.eqb ch 0) eqn:E; [reflexivity|]. cbn [orb] in H. cbn [length copy_chars]. rewrite E.
      rewrite IH by assumption. cbn [bind]. rewrite N.mod_small by (apply N.ltb_lt; assumption). reflexivity.
    + destruct (N.eqb ch 0) eqn:E; [reflexivity|]. cbn [orb] in H. cbn [length copy_chars]. rewrite E.
      rewrite IH by assumption. cbn [bind]. rewrite N.mod_small by (apply N.ltb_lt; assumption). reflexivity.
Qed.

Lemma only_minus_flags : forall d f,
  forallb (fun g => match g with FMinus => true | _ => false end) (d_flags d) = true ->
  f <> FMinus -> has f d = false.
Proof.
  intros d f H Hf. rewrite has_existsb. induction (d_flags d) as [|g l IH]; [reflexivity|].
  cbn [forallb existsb] in *. apply andb_true_iff in H. destruct H as [Hg Hl].
  rewrite IH by assumption. destruct g; try discriminate. destruct f; try reflexivity. congruence.
Qed.

Lemma to_signed8_mod256 : forall a, to_signed 8 a mod 256 = a mod 256.
Proof.
  intros a. unfold to_signed. change (2 ^ 8) with 256. change (2 ^ (8 - 1)) with 128.
  destruct (128 <=? a mod 256).
  - rewrite <- (Z.mod_add (a mod 256 - 256) 1 256) by lia. replace (a mod 256 - 256 + 1 * 256) with (a mod 256) by lia.
    apply Z.mod_mod. lia.
  - apply Z.mod_mod. lia.
Qed.

(* %c *)
Lemma agent_char : forall mem d v out rest pops cache na,
  d_conv d = Cc -> in_grammar d = true ->
  agent mem 99%N (opts_of d v) (szmod_of (d_len d))
        (mk_ps out (mk_vs (slot32 (a_int v) :: rest) pops cache na))
  = (mk_ps (out ++ iso_printf d v) (mk_vs rest (pops ++ [ATInt]) cache na), Ok tt).
Proof.
  intros mem d v out rest pops cache na Ec Hgr.
  destruct (opts_of_fields d v) as [F1 [F2 [F3 [F4 [F5 [F6 [F7 [F8 F9]]]]]]]].
  unfold in_grammar in Hgr. rewrite Ec in Hgr.
  apply andb_true_iff in Hgr. destruct Hgr as [Hgr Hlen].
  apply andb_true_iff in Hgr. destruct Hgr as [Hgr Hprec].
  apply andb_true_iff in Hgr. destruct Hgr as [Hgr Hfl].
  assert (Hl : d_len d = LNone) by (destruct (d_len d); try discriminate; reflexivity).
  assert (Hp : d_prec d = PNone) by (destruct (d_prec d); try discriminate; reflexivity).
  unfold agent. cbn [N.eqb Pos.eqb orb]. unfold do_printf_chars. cbn [N.eqb Pos.eqb].
  rewrite F5, F4, F8. rewrite (only_minus_flags d FZero Hfl) by discriminate.
  rewrite (only_minus_flags d FHash Hfl) by discriminate.
  rewrite Hl. cbn [szmod_of szmod_eqb]. unfold eff_prec. rewrite Hp. cbn [is_some negb massert].
  mstep ltac:(reflexivity). mstep ltac:(reflexivity). mstep ltac:(reflexivity). mstep ltac:(reflexivity).
  rewrite F7. replace (Z.abs (eff_width d v) =? INT_MIN) with false by (unfold INT_MIN; clear; lia).
  unfold iso_printf. rewrite Ec. unfold justify.
  assert (Hch : Z.to_N (interp t_char (slot32 (a_int v)) mod 256) = Z.to_N (a_int v mod 256)).
  { rewrite interp_slot32 by (compute; discriminate). cbn [ct_signed t_char ct_bits]. change (Z.of_N 8) with 8.
    rewrite to_signed8_mod256. reflexivity. }
  rewrite F1. destruct (has FMinus d || (eff_width d v <? 0)).
  - mstep ltac:(apply pop_va_eval; assumption).
    mstep ltac:(reflexivity). unfold emit. cbn [ps_out ps_vs]. rewrite Hch.
    unfold spaces, blanks, len. cbn [length]. rewrite <- app_assoc. reflexivity.
  - mstep ltac:(reflexivity).
    mstep ltac:(apply pop_va_eval; assumption).
    unfold emit. cbn [ps_out ps_vs]. rewrite Hch.
    unfold spaces, blanks, len. cbn [length]. rewrite <- app_assoc. reflexivity.
Qed.

(* %s *)
Lemma interp_ptr : forall a, 0 <= a < 2 ^ 64 -> interp t_ptr (slot64 a) = a.
Proof.
  intros a Ha. rewrite interp_slot64 by (compute; discriminate). cbn [ct_signed t_ptr ct_bits].
  unfold to_unsigned. change (Z.of_N 64) with 64. apply Z.mod_small. exact Ha.
Qed.

Lemma agent_str : forall d v out rest pops cache na,
  d_conv d = Cs -> in_grammar d = true -> fits d v = true ->
  agent (mem_of d v) 115%N (opts_of d v) (szmod_of (d_len d))
        (mk_ps out (mk_vs (str_addr :: rest) pops cache na))
  = (mk_ps (out ++ iso_printf d v) (mk_vs rest (pops ++ [ATPtr]) cache na), Ok tt).
Proof.
  intros d v out rest pops cache na Ec Hgr Hfit.
  destruct (opts_of_fields d v) as [F1 [F2 [F3 [F4 [F5 [F6 [F7 [F8 F9]]]]]]]].
  unfold in_grammar in Hgr. rewrite Ec in Hgr.
  apply andb_true_iff in Hgr. destruct Hgr as [Hgr Hlen].
  apply andb_true_iff in Hgr. destruct Hgr as [Hgr Hfl].
  assert (Hl : d_len d = LNone) by (destruct (d_len d); try discriminate; reflexivity).
  unfold fits in Hfit. rewrite Ec in Hfit.
  apply andb_true_iff in Hfit. destruct Hfit as [_ Hstr].
  apply andb_true_iff in Hstr. destruct Hstr as [Hnul Hbytes].
  unfold agent. cbn [N.eqb Pos.eqb orb]. unfold do_printf_chars. cbn [N.eqb Pos.eqb].
  rewrite F5, F4. rewrite (only_minus_flags d FZero Hfl) by discriminate.
  rewrite (only_minus_flags d FHash Hfl) by discriminate. cbn [negb massert].
  mstep ltac:(reflexivity). mstep ltac:(reflexivity).
  rewrite Hl. cbn [szmod_of szmod_eqb].
  unfold printf_string.
  mstep ltac:(apply pop_va_eval; assumption).
  assert (Hptr : interp t_ptr str_addr = Z.of_N str_addr) by reflexivity.
  rewrite Hptr. change (Z.of_N str_addr =? 0) with false. cbv iota.
  unfold mem_of. rewrite Ec. rewrite N2Z.id. cbn [mem_lookup]. rewrite N.eqb_refl.
  mstep ltac:(reflexivity).
  rewrite F8.
  set (lim := match eff_prec d v with Some p => Some (Z.to_nat p) | None => None end) in *.
  assert (Hlim : match eff_prec d v with
                 | Some pr => c_strnlen (a_str v) (if pr <? 0 then None else Some (Z.to_nat pr)) 0
                 | None => c_strnlen (a_str v) None 0
                 end = Ok (len (take_str (a_str v) lim))).
  { subst lim. destruct (eff_prec d v) as [pr|] eqn:Ep.
    - pose proof (eff_prec_nonneg d v pr Ep). replace (pr <? 0) with false by (clear - H; lia).
      rewrite strnlen_take by assumption. reflexivity.
    - rewrite strnlen_take by assumption. reflexivity. }
  rewrite Hlim. mstep ltac:(reflexivity).
  unfold len at 1. rewrite Nat2Z.id. rewrite copy_take by assumption.
  mstep ltac:(reflexivity).
  unfold iso_printf. rewrite Ec. unfold justify. fold lim.
  rewrite F1, F7.
  assert (Hpad : (if len (take_str (a_str v) lim) <? Z.abs (eff_width d v)
                  then spaces (Z.abs (eff_width d v) - len (take_str (a_str v) lim)) else [])
                 = blanks (Z.abs (eff_width d v) - len (take_str (a_str v) lim))).
  { unfold spaces, blanks. destruct (len (take_str (a_str v) lim) <? Z.abs (eff_width d v)) eqn:E; [reflexivity|].
    rewrite repeat_neg by (clear - E; lia). reflexivity. }
  rewrite Hpad.
  destruct (has FMinus d || (eff_width d v <? 0)); unfold emit; cbn [ps_out ps_vs]; reflexivity.
Qed.

(* %p *)
Lemma print_digits_result_plain : forall mag radix caps, (2 <= radix)%N ->
  print_digits_result mag false radix 0 1 32%N false false false caps [] = digits radix caps mag.
Proof.
  intros mag radix caps Hr. unfold print_digits_result.
  change (1 =? 0) with false. rewrite andb_false_r.
  pose proof (digits_nonempty radix caps mag Hr) as Hne.
  assert (Hl : 1 <= zlen (digits radix caps mag)).
  { unfold zlen. destruct (digits radix caps mag); [congruence | cbn [length]; lia]. }
  cbn [sign_chars app N.eqb Pos.eqb].
  rewrite (repeat_neg _ 48%N (1 - zlen (digits radix caps mag))) by lia. cbn [app].
  rewrite repeat_neg by (unfold zlen in *; cbn [length] in *; lia).
  reflexivity.
Qed.

Lemma agent_ptr : forall mem d v out rest pops cache na,
  d_conv d = Cp -> in_grammar d = true -> fits d v = true ->
  agent mem 112%N (opts_of d v) (szmod_of (d_len d))
        (mk_ps out (mk_vs (slot64 (a_int v) :: rest) pops cache na))
  = (mk_ps (out ++ iso_printf d v) (mk_vs rest (pops ++ [ATPtr]) cache na), Ok tt).
Proof.
  intros mem d v out rest pops cache na Ec Hgr Hfit.
  unfold in_grammar in Hgr. rewrite Ec in Hgr.
  destruct (d_flags d) eqn:Efl; [|destruct (d_pos d); discriminate].
  destruct (d_width d) eqn:Ew; try (destruct (d_pos d); discriminate).
  destruct (d_prec d) eqn:Ep; try (destruct (d_pos d); discriminate).
  destruct (d_len d) eqn:El; try (destruct (d_pos d); discriminate).
  unfold fits in Hfit. rewrite Ec, Ew, Ep in Hfit. cbn [andb] in Hfit.
  assert (Ha : 0 <= a_int v < 2 ^ 64) by (clear - Hfit; lia).
  assert (Ho : opts_of d v = set_width 0 (set_dollar false default_options)).
  { unfold opts_of, prec_opts, width_opts. rewrite Efl, Ew, Ep. reflexivity. }
  rewrite Ho.
  unfold agent. cbn [N.eqb Pos.eqb orb]. unfold do_printf_chars. cbn [N.eqb Pos.eqb].
  cbn [set_width set_dollar default_options fill_zeros left_justify alt_conversion minimum_width negb massert Z.eqb].
  mstep ltac:(reflexivity). mstep ltac:(reflexivity). mstep ltac:(reflexivity). mstep ltac:(reflexivity).
  mstep ltac:(reflexivity).
  mstep ltac:(apply pop_va_eval; reflexivity).
  rewrite interp_ptr by assumption.
  unfold print_int_default.
  rewrite print_int_spec; [ | compute; discriminate | compute; discriminate | compute; discriminate | compute; discriminate
                          | change (Z.of_N 64 - 1) with 63; clear - Ha; lia ].
  mstep ltac:(reflexivity).
  replace (a_int v <? 0) with false by (clear - Ha; lia).
  rewrite print_digits_result_plain by (compute; discriminate).
  unfold iso_printf. rewrite Ec. unfold emit. cbn [ps_out ps_vs].
  replace (Z.to_N (Z.abs (a_int v))) with (Z.to_N (a_int v)) by (f_equal; clear - Ha; lia).
  rewrite <- app_assoc. reflexivity.
Qed.
