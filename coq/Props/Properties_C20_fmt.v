(* C20, fmt() part.  For EVERY byte list used as a format string and every well-typed argument list the
   brace state machine + parse_fmt_spec (FmtModel.v; every byte read through the bounds-checked [read],
   UB "oob" outside the buffer; the int accumulation of the width is UB "signed overflow" when it leaves
   int) terminates within fuel length+1, never ends in UB (so: no read outside the buffer, no signed
   overflow, no wrapped view length), and either completes or stops in the library's assertion hook; the
   latter only if the format contains the conversion character "c" (it is then the assertion of
   format_integer on a non-char integer argument; see fmt_ref for the exact condition). *)
From Coq Require Import String.
From Coq Require Import NArith ZArith List Bool.
From FV Require Import Printf.PrintIntModel Fmt.FmtModel Fmt.FmtRef Fmt.FmtProofs.
Import ListNotations.
Local Open Scope N_scope.

Theorem C20_fmt_total_safe : forall (buf : list byte) (args : list arg),
  args_ok args ->
  let r := fmt_loop (S (length buf)) buf args 0 false 0 0 in
  snd r <> OutOfFuel /\
  (forall w, snd r <> UB w) /\
  (snd r = Ok tt \/ ((exists w, snd r = AssertStop w) /\ In 99 buf)).
Proof. intros buf args H. exact (run_fmt_total_safe buf args H). Qed.
Print Assumptions C20_fmt_total_safe.

(* non-vacuity: "{:99999999999}{18446744073709551616}}{" (width does not fit int, position does not fit
   size_t, stray "}", unclosed "{") is echoed and completes; "x{:c}y" on an int stops in the assertion *)
Example C20_fmt_example :
  args_ok [ASInt 32 7] /\
  run_fmt [123; 58; 57; 57; 57; 57; 57; 57; 57; 57; 57; 57; 57; 125; 123; 49; 56; 52; 52; 54; 55; 52; 52; 48; 55;
           51; 55; 48; 57; 53; 53; 49; 54; 49; 54; 125; 125; 123] [ASInt 32 7] =
    ([123; 58; 57; 57; 57; 57; 57; 57; 57; 57; 57; 57; 57; 125; 123; 49; 56; 52; 52; 54; 55; 52; 52; 48; 55;
      51; 55; 48; 57; 53; 53; 49; 54; 49; 54; 125; 125; 123], Ok tt) /\
  run_fmt [120; 123; 58; 99; 125; 121] [ASInt 32 65] =
    ([120], AssertStop "fo.conversion == format_conversion::null || fo.conversion == format_conversion::decimal").
Proof.
  split; [|split; vm_compute; reflexivity].
  split; [|vm_compute; reflexivity].
  repeat constructor; vm_compute; try reflexivity; intros H; discriminate H.
Qed.
