(* C16, radix tree part: every node is deallocated exactly once with the size it was allocated with, every value
   present at destruction is destroyed exactly once, values are constructed only in raw slots of live nodes, and
   nothing is alive or allocated after the destructor.
   The log is the model's own event log (Common/EventLog.v): EAlloc/EDealloc of node blocks (block id = node id + 1),
   EConstruct/EDestroy of value slots (block, slot).  wf_closed = the whole log is well-formed and ends with no block
   and no object.  History = any list of OFind/OFoi/OInsert/OErase/OIter respecting the documented preconditions
   (valid_all); OErase is the documented protocol find + erase + caller destroys the value (DESIGN C16: erase itself
   only clears the presence bit; the erased value is caller-owned). esz/lsz are sizeof(entry_node)/sizeof(link_node). *)
From Coq Require Import List NArith Bool.
From FV Require Import Common.EventLog Radix.RadixModel Radix.RadixBits Radix.RadixHist Radix.RadixFull
  Radix.RadixLogHist Radix.RadixDtor.
Import ListNotations.
Local Open Scope N_scope.

(* the destructor, from any state reachable by a history *)
Theorem C16_radix_destructor : forall esz lsz s M, Full s M -> LogOK esz lsz s ->
  exists s', destructor esz lsz s = Ok s' /\ wf_closed (elog s') = true.
Proof. exact destructor_closed. Qed.
Print Assumptions C16_radix_destructor.

(* every history followed by the destructor *)
Theorem C16_radix_log_wf : forall esz lsz ops, valid_all esz lsz st0 gempty ops ->
  exists s M s', run_ghost esz lsz st0 gempty ops = Ok (s, M) /\ wf_log (elog s) = true /\
                 destructor esz lsz s = Ok s' /\ wf_closed (elog s') = true.
Proof.
  intros esz lsz ops V.
  destruct (history_log esz lsz ops st0 gempty Full_st0 (LogOK_st0 esz lsz) V) as (s & M & R & F & LO).
  destruct (destructor_closed esz lsz s M F LO) as (s' & RD & W).
  exists s, M, s'. split; [exact R|]. split; [|split; assumption].
  destruct LO as (L & EL & _). unfold wf_log. rewrite EL. reflexivity.
Qed.
Print Assumptions C16_radix_log_wf.

(* --- non-vacuity *)
Definition ex_ops : list op :=
  [OInsert 5 1; OInsert 1152921504606846981 2; OFoi 18446744073709551615 3; OErase 5; OFoi 5 4; OInsert 21 7; OErase 21; OIter].

Example C16_radix_ex_log :
  match run_ops 288 152 st0 ex_ops with
  | Ok s => match destructor 288 152 s with
            | Ok s' => (wf_closed (elog s'), length (elog s'), length (nodes s)) = (true, 22%nat, 6%nat)
            | _ => False end
  | _ => False
  end.
Proof. vm_compute. reflexivity. Qed.

Ltac valid_step :=
  cbn [valid_all]; split; [vm_compute; try reflexivity; exact I|]; split; [vm_compute; try reflexivity; try discriminate; try exact I|];
  intros ? ? E; vm_compute in E; injection E as <- <-.
Example C16_radix_ex_valid : valid_all 288 152 st0 gempty ex_ops.
Proof. unfold ex_ops. repeat valid_step. exact I. Qed.

(* why the erase protocol is part of the history: erase alone leaves the value constructed, and inserting the key
   again constructs over it (the log is then ill-formed) -- the erased value is the caller's to destroy *)
Example C16_radix_ex_erase_without_reclaim :
  match run_ops 288 152 st0 [OInsert 5 1] with
  | Ok s => match erase s 5 with
            | Ok (s1, _) => match find_or_insert 288 152 s1 5 2 with
                            | Ok (s2, _) => wf_log (elog s2) = false
                            | _ => False end
            | _ => False end
  | _ => False
  end.
Proof. vm_compute. reflexivity. Qed.
