(* C11 -- QS domain: callbacks run once, by the owner's run(), only after a full grace period, the
   node is not touched after its callback started, and no call blocks or stops on valid use.
   Statements only; proofs are in Qs/QsWoProofs.v, Qs/QsWoGen.v (whole-operation granularity).
   Model: Qs/QsModel.v; source-derived facts: Gen/QsOrders.v (translator/gen_qs.py). *)
From Coq Require Import List NArith Bool Arith.
Import ListNotations.
From FV Require Import Qs.QsTypes Qs.QsModel Qs.QsGenOk Qs.QsWoProofs Qs.QsWoGen.
Local Open Scope N_scope.

(* ---- generated obligations (recomputed from the current qs.hpp on every run) ---------------- *)

(* the lock_guard constructor calls lock() once, its destructor unlock() once (D04 repaired) *)
Theorem C11_gen_guard_locks_then_unlocks : gen_enter = [MLock] /\ gen_exit = [MUnlock].
Proof. exact (conj gen_enter_eq gen_exit_eq). Qed.
Print Assumptions C11_gen_guard_locks_then_unlocks.

(* orders_match_model: atomic accesses (kind, location, position), guard scopes, control structure
   and the pop_front-before-callback order of run() (D05 repaired) are what the model follows *)
Theorem C11_gen_orders_match_model :
  gen_sites_ok = true /\ gen_skeleton_ok = true /\ gen_numagents_guarded = true /\ gen_pop_first = true.
Proof. exact (conj gen_sites_ok_true (conj gen_skeleton_ok_true (conj gen_numagents_guarded_true gen_pop_first_true))). Qed.
Print Assumptions C11_gen_orders_match_model.

(* orders_sufficient: acq_rel ack, release counter stores, acquire counter loads (D06 repaired) *)
Theorem C11_gen_orders_sufficient : orders_sufficient gen_ord = true.
Proof. exact gen_orders_sufficient_true. Qed.
Print Assumptions C11_gen_orders_sufficient.

(* ---- whole-operation granularity: for every finite set U of agents (fewer than 2^32), every
        sequence of API calls by agents of U ------------------------------------------------- *)

(* A callback is invoked only inside run() of the agent that registered the node; over the whole
   trace every callback is preceded by a registration of that node by that agent with no other
   callback of the node in between (at most once per registration). *)
Theorem C11_callback_once_by_owner_wholeop :
  forall U, NoDup U -> few U -> forall s tr, reach_wo U s tr ->
    (forall t c s' evs n t', gen_w_step t c s = Ok (s', evs) -> In (WCb n t') evs ->
        c = CRun /\ t' = t /\ wowner s n = Some t) /\
    (forall a n t c, tr = a ++ WCb n t :: c ->
        exists a1 a2, a = a1 ++ WReg n t :: a2 /\ clean n a2).
Proof.
  intros U ND HB s tr Hr. split.
  - intros t c s' evs n t'. apply (gen_callback_in_run U ND HB s tr t c s' evs n t' Hr).
  - intros a n t c E. apply (trace_callback_registered tr a n t c (gen_trace_ok U ND HB s tr Hr) E).
Qed.
Print Assumptions C11_callback_once_by_owner_wholeop.

(* At the callback step the waiting set of the node is empty: every agent that was online when the
   node was registered has since entered quiescent_state() or offline(); quiescent_barrier()
   returns only under the same condition. *)
Theorem C11_grace_period_wholeop :
  forall U, NoDup U -> few U -> forall s tr, reach_wo U s tr ->
    (forall t c s' evs n t', gen_w_step t c s = Ok (s', evs) -> In (WCb n t') evs ->
        forall x, wwait s n x = false) /\
    (forall t s' evs, In t U -> gen_w_step t CQBarrier s = Ok (s', evs) -> forall x, wqbw s' t x = false).
Proof.
  intros U ND HB s tr Hr. split.
  - intros t c s' evs n t'. apply (gen_grace U ND HB s tr t c s' evs n t' Hr).
  - intros t s' evs. apply (gen_qb_grace U ND HB s tr t s' evs Hr).
Qed.
Print Assumptions C11_grace_period_wholeop.

(* The counting invariants J1-J5, K and the pending-list structure hold in every reachable state. *)
Theorem C11_invariants_wholeop :
  forall U, NoDup U -> few U -> forall s tr, reach_wo U s tr -> Core U s /\ Kinv s /\ Pinv s.
Proof. intros U ND HB s tr Hr. exact (gen_inv U ND HB s tr Hr). Qed.
Print Assumptions C11_invariants_wholeop.

(* The library touches a node only between its registration and the start of its callback
   ([trace_ok], Qs/QsModel.v); in particular after the callback started, the next event about the
   node is a new registration by the user. *)
Theorem C11_node_untouched_after_callback_wholeop :
  forall U, NoDup U -> few U -> forall s tr, reach_wo U s tr ->
    trace_ok tr /\
    (forall a n t b e c, tr = a ++ WCb n t :: b ++ e :: c ->
        (e = WNode n \/ exists t2, e = WCb n t2) -> exists t', In (WReg n t') b).
Proof.
  intros U ND HB s tr Hr. pose proof (gen_trace_ok U ND HB s tr Hr) as T. split; [exact T|].
  intros a n t b e c E He. apply (trace_after_callback tr a n t b e c T E He).
Qed.
Print Assumptions C11_node_untouched_after_callback_wholeop.

(* Every call returns with the mutex released (never Blocked, never an unlock of a free mutex); it
   stops in FRG_ASSERT only when a documented precondition is violated -- or offline() is called by
   the agent that holds a deferred period (known finding D07); only quiescent_barrier() can fail to
   terminate when run in isolation (it waits for the other agents). *)
Theorem C11_no_deadlock_wholeop :
  forall U, NoDup U -> few U -> forall s tr, reach_wo U s tr -> forall t c, In t U ->
    match gen_w_step t c s with
    | Ok (s', _) => wheld s' = false
    | AssertStop _ => precondition_violated s t c
    | Blocked => False
    | UB _ => False
    | OutOfFuel => c = CQBarrier
    end.
Proof. intros U ND HB s tr Hr t c Ht. apply (gen_outcomes U ND HB s tr t c Hr Ht). Qed.
Print Assumptions C11_no_deadlock_wholeop.

(* ---- non-vacuity ---------------------------------------------------------------------------- *)

(* two agents; agent 0 defers a period, registers node 0, agent 1 joins while the barrier is pending,
   the deferred period is restarted, two more periods pass, agent 0's run() invokes the callback *)
Definition ex_ops : list (tid * call) :=
  [ (0, COnline); (0, CQsCall); (0, CAwait 0); (1, COnline); (0, CQsCall); (1, CQsCall);
    (0, CQsCall); (1, CQsCall); (0, CQsCall); (0, CRun) ]%nat.

Example C11_example_reachable :
  exists s tr, reach_wo [0; 1]%nat s tr /\ In (WCb 0 0) tr /\ ctr (wd s) = 4 /\
               deferred (wa s 0%nat) = true /\ NoDup [0; 1]%nat /\ few [0; 1]%nat.
Proof.
  destruct (gen_w_run_ops ex_ops w0 []) as [[s tr] stop] eqn:E.
  exists s, tr. split.
  - apply (run_ops_reach [0; 1]%nat ex_ops w0 [] s tr stop (rwo_init _)); [|exact E].
    intros t c H. cbn in H. repeat (destruct H as [H|H]; [inversion H; subst; cbn; tauto|]). destruct H.
  - vm_compute in E. inversion E; subst. cbn. repeat split; try tauto.
    all: try (repeat constructor; cbn; intuition discriminate).
Qed.

(* the D07 call: a valid-looking offline() stops in the assertion; the theorem classifies it *)
Definition ex_d07 : list (tid * call) := [(0, COnline); (0, CQsCall)]%nat.
Example C11_example_d07 :
  exists s tr, reach_wo [0]%nat s tr /\ gen_w_step 0%nat COffline s = AssertStop 127 /\
               deferred (wa s 0%nat) = true.
Proof.
  destruct (gen_w_run_ops ex_d07 w0 []) as [[s tr] stop] eqn:E.
  exists s, tr. split.
  - apply (run_ops_reach [0]%nat ex_d07 w0 [] s tr stop (rwo_init _)); [|exact E].
    intros t c H. cbn in H. repeat (destruct H as [H|H]; [inversion H; subst; cbn; tauto|]). destruct H.
  - vm_compute in E. inversion E; subst. split; vm_compute; reflexivity.
Qed.
