(* C11 -- QS domain: callbacks run once, by the owner's run(), only after a full grace period, the
   node is not touched after its callback started, and no call blocks or stops on valid use.
   Statements only; proofs are in Qs/QsWoProofs.v, Qs/QsWoGen.v (whole-operation granularity) and
   Qs/QsFgProofs.v, Qs/QsFgThms.v, Qs/QsFgGen.v (one atomic access or mutex call per step),
   Qs/QsHbProofs.v, Qs/QsHbBarrier.v, Qs/QsHbGen.v (vector clocks).
   Model: Qs/QsModel.v; source-derived facts: Gen/QsOrders.v (translator/gen_qs.py). *)
From Coq Require Import List NArith Bool Arith.
Import ListNotations.
From FV Require Import Qs.QsTypes Qs.QsModel Qs.QsFgModel Qs.QsGenOk Qs.QsWoProofs Qs.QsWoLive Qs.QsWoGen
  Qs.QsFgProofs Qs.QsFgThms Qs.QsFgGen Qs.QsHbProofs Qs.QsHbBarrier Qs.QsHbGen.
Local Open Scope N_scope.

(* ---- generated obligations (recomputed from the current qs.hpp on every run) ---------------- *)

(* the lock_guard constructor calls lock() once, its destructor unlock() once (D04 repaired) *)
Theorem C11_gen_guard_locks_then_unlocks : gen_enter = [MLock] /\ gen_exit = [MUnlock].
Proof. exact (conj gen_enter_eq gen_exit_eq). Qed.
Print Assumptions C11_gen_guard_locks_then_unlocks.

(* orders_match_model: atomic accesses (kind, location, position), guard scopes, control structure
   and the pop_front-before-callback order of run() (D05 repaired) are what the model follows *)
Theorem C11_gen_orders_match_model :
  gen_sites_ok = true /\ gen_skeleton_ok = true /\ gen_numagents_guarded = true /\ gen_pop_first = true.
Proof. exact (conj gen_sites_ok_true (conj gen_skeleton_ok_true (conj gen_numagents_guarded_true gen_pop_first_true))). Qed.
Print Assumptions C11_gen_orders_match_model.

(* orders_sufficient: acq_rel ack, release counter stores, acquire counter loads (D06 repaired) *)
Theorem C11_gen_orders_sufficient : orders_sufficient gen_ord = true.
Proof. exact gen_orders_sufficient_true. Qed.
Print Assumptions C11_gen_orders_sufficient.

(* ---- whole-operation granularity: for every finite set U of agents (fewer than 2^32), every
        sequence of API calls by agents of U ------------------------------------------------- *)

(* A callback is invoked only inside run() of the agent that registered the node; over the whole
   trace every callback is preceded by a registration of that node by that agent with no other
   callback of the node in between (at most once per registration). *)
Theorem C11_callback_once_by_owner_wholeop :
  forall U, NoDup U -> few U -> forall s tr, reach_wo U s tr ->
    (forall t c s' evs n t', gen_w_step t c s = Ok (s', evs) -> In (WCb n t') evs ->
        c = CRun /\ t' = t /\ wowner s n = Some t) /\
    (forall a n t c, tr = a ++ WCb n t :: c ->
        exists a1 a2, a = a1 ++ WReg n t :: a2 /\ clean n a2).
Proof.
  intros U ND HB s tr Hr. split.
  - intros t c s' evs n t'. apply (gen_callback_in_run U ND HB s tr t c s' evs n t' Hr).
  - intros a n t c E. apply (trace_callback_registered tr a n t c (gen_trace_ok U ND HB s tr Hr) E).
Qed.
Print Assumptions C11_callback_once_by_owner_wholeop.

(* At the callback step the waiting set of the node is empty: every agent that was online when the
   node was registered has since entered quiescent_state() or offline(); quiescent_barrier()
   returns only under the same condition. *)
Theorem C11_grace_period_wholeop :
  forall U, NoDup U -> few U -> forall s tr, reach_wo U s tr ->
    (forall t c s' evs n t', gen_w_step t c s = Ok (s', evs) -> In (WCb n t') evs ->
        forall x, wwait s n x = false) /\
    (forall t s' evs, In t U -> gen_w_step t CQBarrier s = Ok (s', evs) -> forall x, wqbw s' t x = false).
Proof.
  intros U ND HB s tr Hr. split.
  - intros t c s' evs n t'. apply (gen_grace U ND HB s tr t c s' evs n t' Hr).
  - intros t s' evs. apply (gen_qb_grace U ND HB s tr t s' evs Hr).
Qed.
Print Assumptions C11_grace_period_wholeop.

(* The counting invariants J1-J5, K and the pending-list structure hold in every reachable state. *)
Theorem C11_invariants_wholeop :
  forall U, NoDup U -> few U -> forall s tr, reach_wo U s tr -> Core U s /\ Kinv s /\ Pinv s.
Proof. intros U ND HB s tr Hr. exact (gen_inv U ND HB s tr Hr). Qed.
Print Assumptions C11_invariants_wholeop.

(* The library touches a node only between its registration and the start of its callback
   ([trace_ok], Qs/QsModel.v); in particular after the callback started, the next event about the
   node is a new registration by the user. *)
Theorem C11_node_untouched_after_callback_wholeop :
  forall U, NoDup U -> few U -> forall s tr, reach_wo U s tr ->
    trace_ok tr /\
    (forall a n t b e c, tr = a ++ WCb n t :: b ++ e :: c ->
        (e = WNode n \/ exists t2, e = WCb n t2) -> exists t', In (WReg n t') b).
Proof.
  intros U ND HB s tr Hr. pose proof (gen_trace_ok U ND HB s tr Hr) as T. split; [exact T|].
  intros a n t b e c E He. apply (trace_after_callback tr a n t b e c T E He).
Qed.
Print Assumptions C11_node_untouched_after_callback_wholeop.

(* Every call returns with the mutex released (never Blocked, never an unlock of a free mutex); it
   stops in FRG_ASSERT only when a documented precondition is violated -- or offline() is called by
   the agent that holds a deferred period (known finding D07); only quiescent_barrier() can fail to
   terminate when run in isolation (it waits for the other agents). *)
Theorem C11_no_deadlock_wholeop :
  forall U, NoDup U -> few U -> forall s tr, reach_wo U s tr -> forall t c, In t U ->
    match gen_w_step t c s with
    | Ok (s', _) => wheld s' = false
    | AssertStop _ => precondition_violated s t c
    | Blocked => False
    | UB _ => False
    | OutOfFuel => c = CQBarrier
    end.
Proof. intros U ND HB s tr Hr t c Ht. apply (gen_outcomes U ND HB s tr t c Hr Ht). Qed.
Print Assumptions C11_no_deadlock_wholeop.

(* ============================================================================================ *)
(* Fine-grained granularity: one access to an atomic or one mutex call per step, a program counter
   per thread, SC interleaving.  For every finite set U of threads (fewer than 2^32), every scripts
   of API calls in which a node is passed to await_barrier by one agent only ([scripts_ok]), every
   scheduler [sched : list tid].                                                                 *)
(* ============================================================================================ *)

(* A callback is invoked only by a step of run() ([PRun2]) of the thread that registered the node;
   over the whole trace every callback is preceded by a registration of that node by that thread
   with no other callback (or registration) of the node in between. *)
Theorem C11_callback_once_by_owner :
  forall U nown scripts sched s tr, NoDup U -> few U -> scripts_ok U nown scripts ->
    gen_f_run sched (f0 scripts) [] = (s, tr) ->
    (forall t s' evs op n t', gen_f_step t s = (s', evs, op) -> In (WCb n t') evs ->
        t' = t /\ (exists c, tpc (fth s t) = PRun2 c) /\ fowner s n = Some t) /\
    (forall a n t c, tr = a ++ WCb n t :: c -> exists a1 a2, a = a1 ++ WReg n t :: a2 /\ clean n a2).
Proof.
  intros U nown scripts sched s tr ND HB Hok Hrun.
  pose proof (run_reach scripts sched s tr Hrun) as Hr. split.
  - intros t s' evs op n t' H Hin.
    destruct (fgen_grace U nown scripts ND HB Hok s tr t s' evs op n t' Hr H Hin) as (A & B & C & _). auto.
  - intros a n t c E. apply (trace_callback_registered tr a n t c (reach_trace_ok U nown scripts ND HB Hok s tr Hr) E).
Qed.
Print Assumptions C11_callback_once_by_owner.

(* At the callback step [waiting n] is empty: every agent that was online and outside
   quiescent_state()/offline() when await_barrier loaded the counter has since entered one of them;
   quiescent_barrier() returns only when the set formed at its first load is empty. *)
Theorem C11_grace_period :
  forall U nown scripts sched s tr, NoDup U -> few U -> scripts_ok U nown scripts ->
    gen_f_run sched (f0 scripts) [] = (s, tr) ->
    (forall t s' evs op n t', gen_f_step t s = (s', evs, op) -> In (WCb n t') evs ->
        forall x, fwait s n x = false) /\
    (forall t s' evs op t', gen_f_step t s = (s', evs, op) -> In (WQbRet t') evs ->
        t' = t /\ forall x, fqbw s' t x = false).
Proof.
  intros U nown scripts sched s tr ND HB Hok Hrun.
  pose proof (run_reach scripts sched s tr Hrun) as Hr. split.
  - intros t s' evs op n t' H Hin.
    destruct (fgen_grace U nown scripts ND HB Hok s tr t s' evs op n t' Hr H Hin) as (_ & _ & _ & D). exact D.
  - intros t s' evs op t'. apply (fgen_qb_grace U nown scripts ND HB Hok s tr t s' evs op t' Hr).
Qed.
Print Assumptions C11_grace_period.

(* The invariants behind it: J1-J3 (with the in-flight adjustments: [memb], [eack], [needs], the
   virtual period [vctr]), J4 and the uniqueness of the restarting thread, K for both kinds of
   waiting set, the structure of the pending lists -- in every reachable state that has not stopped. *)
Theorem C11_invariants :
  forall U nown scripts sched s tr, NoDup U -> few U -> scripts_ok U nown scripts ->
    gen_f_run sched (f0 scripts) [] = (s, tr) -> fstop s = None -> FCore U nown s /\ FGhost nown s.
Proof.
  intros U nown scripts sched s tr ND HB Hok Hrun.
  apply (reach_inv U nown scripts ND HB Hok s tr (run_reach scripts sched s tr Hrun)).
Qed.
Print Assumptions C11_invariants.

(* The library touches a node only between its registration and the start of its callback. *)
Theorem C11_node_untouched_after_callback :
  forall U nown scripts sched s tr, NoDup U -> few U -> scripts_ok U nown scripts ->
    gen_f_run sched (f0 scripts) [] = (s, tr) ->
    trace_ok tr /\
    (forall a n t b e c, tr = a ++ WCb n t :: b ++ e :: c ->
        (e = WNode n \/ exists t2, e = WCb n t2) -> exists t', In (WReg n t') b).
Proof.
  intros U nown scripts sched s tr ND HB Hok Hrun.
  pose proof (reach_trace_ok U nown scripts ND HB Hok s tr (run_reach scripts sched s tr Hrun)) as T.
  split; [exact T|]. intros a n t b e c E He. apply (trace_after_callback tr a n t b e c T E He).
Qed.
Print Assumptions C11_node_untouched_after_callback.

(* No deadlock: while the system has not stopped and some call is in flight or still to be made,
   some thread can take a step that changes the state; a thread between calls does not hold the
   mutex (every path of every call releases it); the system stops only in the assertions that guard
   the documented preconditions (online when online: 102; offline/quiescent_state/quiescent_barrier
   when offline: 124, 151; a node registered twice: 214) or in offline() of the agent holding a
   deferred period (127, known finding D07) -- never in an internal assertion (114, 137, 154, 169),
   never by unlocking a mutex that is not held. *)
Theorem C11_no_deadlock :
  forall U nown scripts sched s tr, NoDup U -> few U -> scripts_ok U nown scripts ->
    gen_f_run sched (f0 scripts) [] = (s, tr) -> fstop s = None ->
    ((exists t, tpc (fth s t) <> PIdle \/ tscript (fth s t) <> []) ->
       exists t', fst (fst (gen_f_step t' s)) <> s) /\
    (forall t, tpc (fth s t) = PIdle -> fmx s <> Some t) /\
    (forall t s' evs op st, gen_f_step t s = (s', evs, op) -> fstop s' = Some st ->
       exists l, st = StopAssert t l /\ In l [102; 124; 127; 151; 214]).
Proof.
  intros U nown scripts sched s tr ND HB Hok Hrun Hstop.
  pose proof (run_reach scripts sched s tr Hrun) as Hr. split; [|split].
  - apply (fgen_no_deadlock U nown scripts ND HB Hok s tr Hr Hstop).
  - intros t. apply (fgen_mutex_released U nown scripts ND HB Hok s tr t Hr Hstop).
  - intros t s' evs op st. apply (fgen_stops U nown scripts ND HB Hok s tr t s' evs op st Hr Hstop).
Qed.
Print Assumptions C11_no_deadlock.

(* non-vacuity: two threads, a round-robin scheduler; thread 0's callback runs, a period is deferred *)
Definition ex_scripts (t : tid) : list call :=
  match t with
  | 0%nat => [COnline; CQsCall; CAwait 0; CQsCall; CQsCall; CQsCall; CQsCall; CRun]
  | 1%nat => [COnline; CQsCall; CQsCall; CQsCall; COffline]
  | _ => [] end.
Fixpoint round_robin (k : nat) : list tid := match k with O => [] | S k' => 0%nat :: 1%nat :: round_robin k' end.

Example C11_example_fine_grained :
  let '(s, tr) := gen_f_run (round_robin 60) (f0 ex_scripts) [] in
  In (WCb 0 0) tr /\ fstop s = None /\ 3 <= ctr (fd s) /\
  scripts_ok [0; 1]%nat (fun _ => 0%nat) ex_scripts /\ NoDup [0; 1]%nat /\ few [0; 1]%nat.
Proof.
  vm_compute. repeat split; try tauto; try discriminate.
  - intros t H. destruct t as [|[|t]]; [tauto|tauto|reflexivity].
  - intros t n H. destruct t as [|[|t]]; cbn in H; [reflexivity| |destruct H].
    repeat (destruct H as [H|H]; [discriminate|]). destruct H.
  - repeat constructor; cbn; intuition discriminate.
Qed.

(* Happens-before (fine-grained model + vector clocks driven by the memory orders of the current
   source, Qs/QsFgModel.v [gen_h_step]; release store sets the location's clock, relaxed store clears it,
   an RMW continues the release sequence, acquire load/RMW joins it, mutex unlock/lock likewise).
   [hleft h n X = Some k]: agent X left waiting(n) -- by entering quiescent_state() or offline() -- when
   its own clock component was k.  At the callback of n the calling thread's clock covers k: everything
   X did before it entered that call happens-before the callback.  Needs exactly the orders of
   C11_gen_orders_sufficient (acq_rel on the ack in quiescent_state, acquire on the ack in offline,
   release on every counter store, acquire on the counter load of run()). *)
Theorem C11_hb :
  forall U nown scripts sched h tr, NoDup U -> few U -> scripts_ok U nown scripts ->
    gen_h_run sched (h0 scripts) [] = (h, tr) ->
    forall t h' evs n t', gen_h_step t h = (h', evs) -> In (WCb n t') evs ->
    forall X k, hleft h n X = Some k -> (k <= vc (hk h') t' X)%nat.
Proof.
  intros U nown scripts sched h tr ND HB Hok Hrun t h' evs n t'.
  apply (gen_hb U nown scripts ND HB Hok sched h tr t h' evs n t' Hrun).
Qed.
Print Assumptions C11_hb.

(* ... and the same for quiescent_barrier(): [hleftq h b X = Some k]: X left the waiting set of b's
   current barrier at its local time k; when the barrier returns, b's clock covers k.  (Uses in addition
   the acquire on the counter load of quiescent_barrier's loop.) *)
Theorem C11_hb_barrier :
  forall U nown scripts sched h tr, NoDup U -> few U -> scripts_ok U nown scripts ->
    gen_h_run sched (h0 scripts) [] = (h, tr) ->
    forall t h' evs b, gen_h_step t h = (h', evs) -> In (WQbRet b) evs ->
    forall X k, hleftq h b X = Some k -> (k <= vc (hk h') b X)%nat.
Proof.
  intros U nown scripts sched h tr ND HB Hok Hrun t h' evs b.
  apply (gen_hb_barrier U nown scripts ND HB Hok sched h tr t h' evs b Hrun).
Qed.
Print Assumptions C11_hb_barrier.

(* non-vacuity: two threads under a round-robin scheduler; thread 1 is online when thread 0 registers
   node 0 and leaves waiting(0) at its local time 16; when thread 0's run() invokes the callback it
   knows thread 1 up to time 26 *)
Definition ex_hb_scripts (t : tid) : list call :=
  match t with
  | 0%nat => [COnline; CQsCall; CQsCall; CAwait 0; CQsCall; CQsCall; CQsCall; CQsCall; CQsCall; CQsCall; CRun]
  | 1%nat => [COnline; CQsCall; CQsCall; CQsCall; CQsCall; CQsCall; CQsCall; CQsCall; CQsCall]
  | _ => [] end.

Example C11_example_hb :
  let '(h, _) := gen_h_run (round_robin 44) (h0 ex_hb_scripts) [] in
  let '(h', evs) := gen_h_step 0%nat h in
  In (WCb 0 0) evs /\ hleft h 0%nat 1%nat = Some 16%nat /\ vc (hk h') 0%nat 1%nat = 26%nat.
Proof. vm_compute. repeat split. tauto. Qed.

(* Liveness (whole-operation granularity).  A round = a sequence of calls, all returning, in which every
   agent that is online at its start calls quiescent_state() or offline(), with somebody online at
   its start; agents may join and leave inside a round.  After k rounds the counter has advanced by
   at least k as long as it is below a value tg that some barrier desires (tg <= desired): in
   particular a node registered with target tg is reached after tg - ctr rounds (stronger than the
   bound 2(tg - ctr) + 1 of the design). *)
Theorem C11_liveness_wholeop :
  forall U, NoDup U -> few U -> forall s tr, reach_wo U s tr ->
  forall ls s' tg, gen_rounds U ls s -> gen_wrun (concat ls) s = Some s' ->
    tg <= desired (wd s) -> tg <= ctr (wd s) + N.of_nat (length ls) -> tg <= ctr (wd s').
Proof. intros U ND HB s tr Hr ls s' tg. apply (gen_liveness U ND HB s tr ls s' tg Hr). Qed.
Print Assumptions C11_liveness_wholeop.

(* ... and once the counter has reached the target of a pending node, the next run() of its owner
   invokes its callback (no grace period is lost). *)
Theorem C11_run_fires_wholeop :
  forall U, NoDup U -> few U -> forall s tr, reach_wo U s tr ->
  forall t n, In n (pending (wa s t)) -> wtarget s n <= ctr (wd s) ->
    exists s' evs, gen_w_step t CRun s = Ok (s', evs) /\ In (WCb n t) evs.
Proof. intros U ND HB s tr Hr t n. apply (gen_run_fires U ND HB s tr t n Hr). Qed.
Print Assumptions C11_run_fires_wholeop.

(* NOT PROVED (statements kept visible):

   C11_liveness at access granularity: for every fair scheduler every call terminates (the CAS loops of
   await_barrier / quiescent_barrier retry only when [desired] grew, which is bounded by the target), and
   the round theorem above for interleaved calls. *)

(* ---- non-vacuity (whole-operation) ---- *)

(* two agents; agent 0 defers a period, registers node 0, agent 1 joins while the barrier is pending,
   the deferred period is restarted, two more periods pass, agent 0's run() invokes the callback *)
Definition ex_ops : list (tid * call) :=
  [ (0, COnline); (0, CQsCall); (0, CAwait 0); (1, COnline); (0, CQsCall); (1, CQsCall);
    (0, CQsCall); (1, CQsCall); (0, CQsCall); (0, CRun) ]%nat.

Example C11_example_reachable :
  exists s tr, reach_wo [0; 1]%nat s tr /\ In (WCb 0 0) tr /\ ctr (wd s) = 4 /\
               deferred (wa s 0%nat) = true /\ NoDup [0; 1]%nat /\ few [0; 1]%nat.
Proof.
  destruct (gen_w_run_ops ex_ops w0 []) as [[s tr] stop] eqn:E.
  exists s, tr. split.
  - apply (run_ops_reach [0; 1]%nat ex_ops w0 [] s tr stop (rwo_init _)); [|exact E].
    intros t c H. cbn in H. repeat (destruct H as [H|H]; [inversion H; subst; cbn; tauto|]). destruct H.
  - vm_compute in E. inversion E; subst. cbn. repeat split; try tauto.
    all: try (repeat constructor; cbn; intuition discriminate).
Qed.

(* the D07 call: a valid-looking offline() stops in the assertion; the theorem classifies it *)
Definition ex_d07 : list (tid * call) := [(0, COnline); (0, CQsCall)]%nat.
Example C11_example_d07 :
  exists s tr, reach_wo [0]%nat s tr /\ gen_w_step 0%nat COffline s = AssertStop 127 /\
               deferred (wa s 0%nat) = true.
Proof.
  destruct (gen_w_run_ops ex_d07 w0 []) as [[s tr] stop] eqn:E.
  exists s, tr. split.
  - apply (run_ops_reach [0]%nat ex_d07 w0 [] s tr stop (rwo_init _)); [|exact E].
    intros t c H. cbn in H. repeat (destruct H as [H|H]; [inversion H; subst; cbn; tauto|]). destruct H.
  - vm_compute in E. inversion E; subst. split; vm_compute; reflexivity.
Qed.

(* liveness: two agents online, node 0 registered with target 4 while the counter is 2; two rounds
   (both agents pass a quiescent state) bring the counter to 4 and agent 0's run() invokes the callback *)
Definition ex_live_ops : list (tid * call) := [(0, COnline); (1, COnline); (0, CAwait 0)]%nat.
Definition ex_round : list (tid * call) := [(0, CQsCall); (1, CQsCall)]%nat.

Example C11_example_liveness :
  exists s tr s', reach_wo [0; 1]%nat s tr /\ wtarget s 0%nat = 4 /\ ctr (wd s) = 2 /\
    gen_rounds [0; 1]%nat [ex_round; ex_round] s /\ gen_wrun (concat [ex_round; ex_round]) s = Some s' /\
    4 <= ctr (wd s') /\ exists s'' evs, gen_w_step 0%nat CRun s' = Ok (s'', evs) /\ In (WCb 0 0) evs.
Proof.
  destruct (gen_w_run_ops ex_live_ops w0 []) as [[s tr] stop] eqn:E.
  assert (Hr : reach_wo [0; 1]%nat s tr).
  { apply (run_ops_reach [0; 1]%nat ex_live_ops w0 [] s tr stop (rwo_init _)); [|exact E].
    intros t c H. cbn in H. repeat (destruct H as [H|H]; [inversion H; subst; cbn; tauto|]). destruct H. }
  vm_compute in E. inversion E; subst s tr stop. clear E.
  eexists _, _, _. split; [exact Hr|]. split; [reflexivity|]. split; [reflexivity|].
  assert (Hq : forall l x, (In (0%nat, CQsCall) l /\ In (1%nat, CQsCall) l) -> (x = 0 \/ x = 1)%nat -> has_qop x l).
  { intros l x [H0 H1] [->| ->]; exists CQsCall; split; auto. }
  assert (Hin : forall t c, In (t, c) ex_round -> In t [0; 1]%nat).
  { intros t c H. cbn in H. repeat (destruct H as [H|H]; [inversion H; subst; cbn; tauto|]). destruct H. }
  split.
  - cbn [gen_rounds]. split; [exists 0%nat; reflexivity|]. split.
    + intros x Hx. apply Hq; [cbn; tauto|]. destruct x as [|[|x]]; [tauto|tauto|]. vm_compute in Hx. discriminate.
    + split; [exact Hin|].
      match goal with |- match ?g with _ => _ end => destruct g as [s1|] eqn:E1 end; vm_compute in E1; [|discriminate].
      inversion E1; subst s1; clear E1.
      split; [exists 0%nat; reflexivity|]. split.
      * intros x Hx. apply Hq; [cbn; tauto|]. destruct x as [|[|x]]; [tauto|tauto|]. vm_compute in Hx. discriminate.
      * split; [exact Hin|].
        match goal with |- match ?g with _ => _ end => destruct g as [s2|] eqn:E2 end; vm_compute in E2; [exact I|discriminate].
  - split; [vm_compute; reflexivity|]. split; [vm_compute; discriminate|].
    eexists _, _. split; [vm_compute; reflexivity|]. cbn. tauto.
Qed.
