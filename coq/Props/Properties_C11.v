(* C11 -- QS domain: callbacks run once, by the owner's run(), only after a full grace period, the
   node is not touched after its callback started, and no call blocks or stops on valid use.
   Statements only; proofs are in Qs/QsWoProofs.v, Qs/QsWoGen.v (whole-operation granularity) and
   Qs/QsFgProofs.v, Qs/QsFgThms.v, Qs/QsFgGen.v (one atomic access or mutex call per step),
   Qs/QsHbProofs.v, Qs/QsHbBarrier.v, Qs/QsHbGen.v (vector clocks),
   Qs/QsFgTerm.v, Qs/QsFgLive.v, Qs/QsFgLiveGen.v (termination of calls, liveness at access granularity).
   Model: Qs/QsModel.v; source-derived facts: Gen/QsOrders.v (translator/gen_qs.py). *)
From Coq Require Import List NArith Bool Arith.
Import ListNotations.
From FV Require Import Qs.QsTypes Qs.QsModel Qs.QsFgModel Qs.QsGenOk Qs.QsWoProofs Qs.QsWoLive Qs.QsWoGen
  Qs.QsFgProofs Qs.QsFgThms Qs.QsFgGen Qs.QsHbProofs Qs.QsHbBarrier Qs.QsHbGen
  Qs.QsFgTerm Qs.QsFgLive Qs.QsFgLiveGen.
Local Open Scope N_scope.

(* ---- generated obligations (recomputed from the current qs.hpp on every run) ---------------- *)

(* the lock_guard constructor calls lock() once, its destructor unlock() once (D04 repaired) *)
Theorem C11_gen_guard_locks_then_unlocks : gen_enter = [MLock] /\ gen_exit = [MUnlock].
Proof. exact (conj gen_enter_eq gen_exit_eq). Qed.
Print Assumptions C11_gen_guard_locks_then_unlocks.

(* orders_match_model: atomic accesses (kind, location, position), guard scopes, control structure
   and the pop_front-before-callback order of run() (D05 repaired) are what the model follows *)
Theorem C11_gen_orders_match_model :
  gen_sites_ok = true /\ gen_skeleton_ok = true /\ gen_numagents_guarded = true /\ gen_pop_first = true.
Proof. exact (conj gen_sites_ok_true (conj gen_skeleton_ok_true (conj gen_numagents_guarded_true gen_pop_first_true))). Qed.
Print Assumptions C11_gen_orders_match_model.

(* orders_sufficient: acq_rel ack, release counter stores, acquire counter loads (D06 repaired) *)
Theorem C11_gen_orders_sufficient : orders_sufficient gen_ord = true.
Proof. exact gen_orders_sufficient_true. Qed.
Print Assumptions C11_gen_orders_sufficient.

(* ---- whole-operation granularity: for every finite set U of agents (fewer than 2^32), every
        sequence of API calls by agents of U ------------------------------------------------- *)

(* A callback is invoked only inside run() of the agent that registered the node; over the whole
   trace every callback is preceded by a registration of that node by that agent with no other
   callback of the node in between (at most once per registration). *)
Theorem C11_callback_once_by_owner_wholeop :
  forall U, NoDup U -> few U -> forall s tr, reach_wo U s tr ->
    (forall t c s' evs n t', gen_w_step t c s = Ok (s', evs) -> In (WCb n t') evs ->
        c = CRun /\ t' = t /\ wowner s n = Some t) /\
    (forall a n t c, tr = a ++ WCb n t :: c ->
        exists a1 a2, a = a1 ++ WReg n t :: a2 /\ clean n a2).
Proof.
  intros U ND HB s tr Hr. split.
  - intros t c s' evs n t'. apply (gen_callback_in_run U ND HB s tr t c s' evs n t' Hr).
  - intros a n t c E. apply (trace_callback_registered tr a n t c (gen_trace_ok U ND HB s tr Hr) E).
Qed.
Print Assumptions C11_callback_once_by_owner_wholeop.

(* At the callback step the waiting set of the node is empty: every agent that was online when the
   node was registered has since entered quiescent_state() or offline(); quiescent_barrier()
   returns only under the same condition. *)
Theorem C11_grace_period_wholeop :
  forall U, NoDup U -> few U -> forall s tr, reach_wo U s tr ->
    (forall t c s' evs n t', gen_w_step t c s = Ok (s', evs) -> In (WCb n t') evs ->
        forall x, wwait s n x = false) /\
    (forall t s' evs, In t U -> gen_w_step t CQBarrier s = Ok (s', evs) -> forall x, wqbw s' t x = false).
Proof.
  intros U ND HB s tr Hr. split.
  - intros t c s' evs n t'. apply (gen_grace U ND HB s tr t c s' evs n t' Hr).
  - intros t s' evs. apply (gen_qb_grace U ND HB s tr t s' evs Hr).
Qed.
Print Assumptions C11_grace_period_wholeop.

(* The counting invariants J1-J5, K and the pending-list structure hold in every reachable state. *)
Theorem C11_invariants_wholeop :
  forall U, NoDup U -> few U -> forall s tr, reach_wo U s tr -> Core U s /\ Kinv s /\ Pinv s.
Proof. intros U ND HB s tr Hr. exact (gen_inv U ND HB s tr Hr). Qed.
Print Assumptions C11_invariants_wholeop.

(* The library touches a node only between its registration and the start of its callback
   ([trace_ok], Qs/QsModel.v); in particular after the callback started, the next event about the
   node is a new registration by the user. *)
Theorem C11_node_untouched_after_callback_wholeop :
  forall U, NoDup U -> few U -> forall s tr, reach_wo U s tr ->
    trace_ok tr /\
    (forall a n t b e c, tr = a ++ WCb n t :: b ++ e :: c ->
        (e = WNode n \/ exists t2, e = WCb n t2) -> exists t', In (WReg n t') b).
Proof.
  intros U ND HB s tr Hr. pose proof (gen_trace_ok U ND HB s tr Hr) as T. split; [exact T|].
  intros a n t b e c E He. apply (trace_after_callback tr a n t b e c T E He).
Qed.
Print Assumptions C11_node_untouched_after_callback_wholeop.

(* Every call returns with the mutex released (never Blocked, never an unlock of a free mutex); it
   stops in FRG_ASSERT only when a documented precondition is violated -- or offline() is called by
   the agent that holds a deferred period (known finding D07); only quiescent_barrier() can fail to
   terminate when run in isolation (it waits for the other agents). *)
Theorem C11_no_deadlock_wholeop :
  forall U, NoDup U -> few U -> forall s tr, reach_wo U s tr -> forall t c, In t U ->
    match gen_w_step t c s with
    | Ok (s', _) => wheld s' = false
    | AssertStop _ => precondition_violated s t c
    | Blocked => False
    | UB _ => False
    | OutOfFuel => c = CQBarrier
    end.
Proof. intros U ND HB s tr Hr t c Ht. apply (gen_outcomes U ND HB s tr t c Hr Ht). Qed.
Print Assumptions C11_no_deadlock_wholeop.

(* ============================================================================================ *)
(* Fine-grained granularity: one access to an atomic or one mutex call per step, a program counter
   per thread, SC interleaving.  For every finite set U of threads (fewer than 2^32), every scripts
   of API calls in which a node is passed to await_barrier by one agent only ([scripts_ok]), every
   scheduler [sched : list tid].                                                                 *)
(* ============================================================================================ *)

(* A callback is invoked only by a step of run() ([PRun2]) of the thread that registered the node;
   over the whole trace every callback is preceded by a registration of that node by that thread
   with no other callback (or registration) of the node in between. *)
Theorem C11_callback_once_by_owner :
  forall U nown scripts sched s tr, NoDup U -> few U -> scripts_ok U nown scripts ->
    gen_f_run sched (f0 scripts) [] = (s, tr) ->
    (forall t s' evs op n t', gen_f_step t s = (s', evs, op) -> In (WCb n t') evs ->
        t' = t /\ (exists c, tpc (fth s t) = PRun2 c) /\ fowner s n = Some t) /\
    (forall a n t c, tr = a ++ WCb n t :: c -> exists a1 a2, a = a1 ++ WReg n t :: a2 /\ clean n a2).
Proof.
  intros U nown scripts sched s tr ND HB Hok Hrun.
  pose proof (run_reach scripts sched s tr Hrun) as Hr. split.
  - intros t s' evs op n t' H Hin.
    destruct (fgen_grace U nown scripts ND HB Hok s tr t s' evs op n t' Hr H Hin) as (A & B & C & _). auto.
  - intros a n t c E. apply (trace_callback_registered tr a n t c (reach_trace_ok U nown scripts ND HB Hok s tr Hr) E).
Qed.
Print Assumptions C11_callback_once_by_owner.

(* At the callback step [waiting n] is empty: every agent that was online and outside
   quiescent_state()/offline() when await_barrier loaded the counter has since entered one of them;
   quiescent_barrier() returns only when the set formed at its first load is empty. *)
Theorem C11_grace_period :
  forall U nown scripts sched s tr, NoDup U -> few U -> scripts_ok U nown scripts ->
    gen_f_run sched (f0 scripts) [] = (s, tr) ->
    (forall t s' evs op n t', gen_f_step t s = (s', evs, op) -> In (WCb n t') evs ->
        forall x, fwait s n x = false) /\
    (forall t s' evs op t', gen_f_step t s = (s', evs, op) -> In (WQbRet t') evs ->
        t' = t /\ forall x, fqbw s' t x = false).
Proof.
  intros U nown scripts sched s tr ND HB Hok Hrun.
  pose proof (run_reach scripts sched s tr Hrun) as Hr. split.
  - intros t s' evs op n t' H Hin.
    destruct (fgen_grace U nown scripts ND HB Hok s tr t s' evs op n t' Hr H Hin) as (_ & _ & _ & D). exact D.
  - intros t s' evs op t'. apply (fgen_qb_grace U nown scripts ND HB Hok s tr t s' evs op t' Hr).
Qed.
Print Assumptions C11_grace_period.

(* The invariants behind it: J1-J3 (with the in-flight adjustments: [memb], [eack], [needs], the
   virtual period [vctr]), J4 and the uniqueness of the restarting thread, K for both kinds of
   waiting set, the structure of the pending lists -- in every reachable state that has not stopped. *)
Theorem C11_invariants :
  forall U nown scripts sched s tr, NoDup U -> few U -> scripts_ok U nown scripts ->
    gen_f_run sched (f0 scripts) [] = (s, tr) -> fstop s = None -> FCore U nown s /\ FGhost nown s.
Proof.
  intros U nown scripts sched s tr ND HB Hok Hrun.
  apply (reach_inv U nown scripts ND HB Hok s tr (run_reach scripts sched s tr Hrun)).
Qed.
Print Assumptions C11_invariants.

(* The library touches a node only between its registration and the start of its callback. *)
Theorem C11_node_untouched_after_callback :
  forall U nown scripts sched s tr, NoDup U -> few U -> scripts_ok U nown scripts ->
    gen_f_run sched (f0 scripts) [] = (s, tr) ->
    trace_ok tr /\
    (forall a n t b e c, tr = a ++ WCb n t :: b ++ e :: c ->
        (e = WNode n \/ exists t2, e = WCb n t2) -> exists t', In (WReg n t') b).
Proof.
  intros U nown scripts sched s tr ND HB Hok Hrun.
  pose proof (reach_trace_ok U nown scripts ND HB Hok s tr (run_reach scripts sched s tr Hrun)) as T.
  split; [exact T|]. intros a n t b e c E He. apply (trace_after_callback tr a n t b e c T E He).
Qed.
Print Assumptions C11_node_untouched_after_callback.

(* No deadlock: while the system has not stopped and some call is in flight or still to be made,
   some thread can take a step that changes the state; a thread between calls does not hold the
   mutex (every path of every call releases it); the system stops only in the assertions that guard
   the documented preconditions (online when online: 102; offline/quiescent_state/quiescent_barrier
   when offline: 124, 151; a node registered twice: 214) or in offline() of the agent holding a
   deferred period (127, known finding D07) -- never in an internal assertion (114, 137, 154, 169),
   never by unlocking a mutex that is not held. *)
Theorem C11_no_deadlock :
  forall U nown scripts sched s tr, NoDup U -> few U -> scripts_ok U nown scripts ->
    gen_f_run sched (f0 scripts) [] = (s, tr) -> fstop s = None ->
    ((exists t, tpc (fth s t) <> PIdle \/ tscript (fth s t) <> []) ->
       exists t', fst (fst (gen_f_step t' s)) <> s) /\
    (forall t, tpc (fth s t) = PIdle -> fmx s <> Some t) /\
    (forall t s' evs op st, gen_f_step t s = (s', evs, op) -> fstop s' = Some st ->
       exists l, st = StopAssert t l /\ In l [102; 124; 127; 151; 214]).
Proof.
  intros U nown scripts sched s tr ND HB Hok Hrun Hstop.
  pose proof (run_reach scripts sched s tr Hrun) as Hr. split; [|split].
  - apply (fgen_no_deadlock U nown scripts ND HB Hok s tr Hr Hstop).
  - intros t. apply (fgen_mutex_released U nown scripts ND HB Hok s tr t Hr Hstop).
  - intros t s' evs op st. apply (fgen_stops U nown scripts ND HB Hok s tr t s' evs op st Hr Hstop).
Qed.
Print Assumptions C11_no_deadlock.

(* non-vacuity: two threads, a round-robin scheduler; thread 0's callback runs, a period is deferred *)
Definition ex_scripts (t : tid) : list call :=
  match t with
  | 0%nat => [COnline; CQsCall; CAwait 0; CQsCall; CQsCall; CQsCall; CQsCall; CRun]
  | 1%nat => [COnline; CQsCall; CQsCall; CQsCall; COffline]
  | _ => [] end.
Fixpoint round_robin (k : nat) : list tid := match k with O => [] | S k' => 0%nat :: 1%nat :: round_robin k' end.

Example C11_example_fine_grained :
  let '(s, tr) := gen_f_run (round_robin 60) (f0 ex_scripts) [] in
  In (WCb 0 0) tr /\ fstop s = None /\ 3 <= ctr (fd s) /\
  scripts_ok [0; 1]%nat (fun _ => 0%nat) ex_scripts /\ NoDup [0; 1]%nat /\ few [0; 1]%nat.
Proof.
  vm_compute. repeat split; try tauto; try discriminate.
  - intros t H. destruct t as [|[|t]]; [tauto|tauto|reflexivity].
  - intros t n H. destruct t as [|[|t]]; cbn in H; [reflexivity| |destruct H].
    repeat (destruct H as [H|H]; [discriminate|]). destruct H.
  - repeat constructor; cbn; intuition discriminate.
Qed.

(* Happens-before (fine-grained model + vector clocks driven by the memory orders of the current
   source, Qs/QsFgModel.v [gen_h_step]; release store sets the location's clock, relaxed store clears it,
   an RMW continues the release sequence, acquire load/RMW joins it, mutex unlock/lock likewise).
   [hleft h n X = Some k]: agent X left waiting(n) -- by entering quiescent_state() or offline() -- when
   its own clock component was k.  At the callback of n the calling thread's clock covers k: everything
   X did before it entered that call happens-before the callback.  Needs exactly the orders of
   C11_gen_orders_sufficient (acq_rel on the ack in quiescent_state, acquire on the ack in offline,
   release on every counter store, acquire on the counter load of run()). *)
Theorem C11_hb :
  forall U nown scripts sched h tr, NoDup U -> few U -> scripts_ok U nown scripts ->
    gen_h_run sched (h0 scripts) [] = (h, tr) ->
    forall t h' evs n t', gen_h_step t h = (h', evs) -> In (WCb n t') evs ->
    forall X k, hleft h n X = Some k -> (k <= vc (hk h') t' X)%nat.
Proof.
  intros U nown scripts sched h tr ND HB Hok Hrun t h' evs n t'.
  apply (gen_hb U nown scripts ND HB Hok sched h tr t h' evs n t' Hrun).
Qed.
Print Assumptions C11_hb.

(* ... and the same for quiescent_barrier(): [hleftq h b X = Some k]: X left the waiting set of b's
   current barrier at its local time k; when the barrier returns, b's clock covers k.  (Uses in addition
   the acquire on the counter load of quiescent_barrier's loop.) *)
Theorem C11_hb_barrier :
  forall U nown scripts sched h tr, NoDup U -> few U -> scripts_ok U nown scripts ->
    gen_h_run sched (h0 scripts) [] = (h, tr) ->
    forall t h' evs b, gen_h_step t h = (h', evs) -> In (WQbRet b) evs ->
    forall X k, hleftq h b X = Some k -> (k <= vc (hk h') b X)%nat.
Proof.
  intros U nown scripts sched h tr ND HB Hok Hrun t h' evs b.
  apply (gen_hb_barrier U nown scripts ND HB Hok sched h tr t h' evs b Hrun).
Qed.
Print Assumptions C11_hb_barrier.

(* non-vacuity: two threads under a round-robin scheduler; thread 1 is online when thread 0 registers
   node 0 and leaves waiting(0) at its local time 16; when thread 0's run() invokes the callback it
   knows thread 1 up to time 26 *)
Definition ex_hb_scripts (t : tid) : list call :=
  match t with
  | 0%nat => [COnline; CQsCall; CQsCall; CAwait 0; CQsCall; CQsCall; CQsCall; CQsCall; CQsCall; CQsCall; CRun]
  | 1%nat => [COnline; CQsCall; CQsCall; CQsCall; CQsCall; CQsCall; CQsCall; CQsCall; CQsCall]
  | _ => [] end.

Example C11_example_hb :
  let '(h, _) := gen_h_run (round_robin 44) (h0 ex_hb_scripts) [] in
  let '(h', evs) := gen_h_step 0%nat h in
  In (WCb 0 0) evs /\ hleft h 0%nat 1%nat = Some 16%nat /\ vc (hk h') 0%nat 1%nat = 26%nat.
Proof. vm_compute. repeat split. tauto. Qed.

(* Liveness (whole-operation granularity).  A round = a sequence of calls, all returning, in which every
   agent that is online at its start calls quiescent_state() or offline(), with somebody online at
   its start; agents may join and leave inside a round.  After k rounds the counter has advanced by
   at least k as long as it is below a value tg that some barrier desires (tg <= desired): in
   particular a node registered with target tg is reached after tg - ctr rounds (stronger than the
   bound 2(tg - ctr) + 1 of the design). *)
Theorem C11_liveness_wholeop :
  forall U, NoDup U -> few U -> forall s tr, reach_wo U s tr ->
  forall ls s' tg, gen_rounds U ls s -> gen_wrun (concat ls) s = Some s' ->
    tg <= desired (wd s) -> tg <= ctr (wd s) + N.of_nat (length ls) -> tg <= ctr (wd s').
Proof. intros U ND HB s tr Hr ls s' tg. apply (gen_liveness U ND HB s tr ls s' tg Hr). Qed.
Print Assumptions C11_liveness_wholeop.

(* ... and once the counter has reached the target of a pending node, the next run() of its owner
   invokes its callback (no grace period is lost). *)
Theorem C11_run_fires_wholeop :
  forall U, NoDup U -> few U -> forall s tr, reach_wo U s tr ->
  forall t n, In n (pending (wa s t)) -> wtarget s n <= ctr (wd s) ->
    exists s' evs, gen_w_step t CRun s = Ok (s', evs) /\ In (WCb n t) evs.
Proof. intros U ND HB s tr Hr t n. apply (gen_run_fires U ND HB s tr t n Hr). Qed.
Print Assumptions C11_run_fires_wholeop.

(* Callbacks that re-arm their node (await_barrier(node) from inside the callback of that node) and reuse of a
   node object after its callback: once the callback has started the node belongs to the user again, so
   this is a new registration.  [gen_w_run_rearm t flag] = run() of agent t where the callbacks of the
   nodes with [flag n] re-arm their node: a reachable state again, so every theorem above applies to it
   (in particular the trace automaton: the library touches the node again only after the new
   registration, and the new registration is called back at most once, after its own grace period). *)
Theorem C11_rearm_is_registration_wholeop :
  forall U, NoDup U -> few U -> forall s tr, reach_wo U s tr ->
  forall t flag s' evs, In t U -> gen_w_run_rearm t flag s = Ok (s', evs) ->
    reach_wo U s' (tr ++ evs) /\ trace_ok (tr ++ evs).
Proof.
  intros U ND HB s tr Hr t flag s' evs Ht H.
  pose proof (run_rearm_reach U t flag s tr s' evs Hr Ht H) as Hr'. split; [exact Hr'|].
  apply (gen_trace_ok U ND HB s' _ Hr').
Qed.
Print Assumptions C11_rearm_is_registration_wholeop.

(* non-vacuity: one agent, nodes 0 and 1 both pending with target 4; run() at counter 4 calls both back,
   the callback of node 0 re-arms it: node 0 is pending again with target 6, node 1 is free; three more
   quiescent states and a run() call node 0 back a second time *)
Definition ex_rearm_pre : list (tid * call) :=
  [(0, COnline); (0, CAwait 0); (0, CAwait 1); (0, CQsCall); (0, CQsCall); (0, CQsCall)]%nat.
Definition ex_rearm_post : list (tid * call) := [(0, CQsCall); (0, CQsCall); (0, CQsCall); (0, CRun)]%nat.

Definition is_cb00 (e : wev) : bool := match e with WCb O O => true | _ => false end.

Example C11_example_rearm :
  exists s tr s1 e1 s2 tr2,
    reach_wo [0]%nat s tr /\ pending (wa s 0%nat) = [0; 1]%nat /\ ctr (wd s) = 4 /\
    gen_w_run_rearm 0%nat (Nat.eqb 0) s = Ok (s1, e1) /\
    e1 = [WNode 0; WNode 0; WNode 0; WNode 0; WCb 0 0; WNode 1; WNode 1; WNode 1; WNode 1; WCb 1 0;
          WReg 0 0; WNode 0; WNode 0; WNode 0] /\
    pending (wa s1 0%nat) = [0%nat] /\ wtarget s1 0%nat = 6 /\ wtarget s1 1%nat = 0 /\
    reach_wo [0]%nat s2 tr2 /\ length (filter is_cb00 tr2) = 2%nat /\ pending (wa s2 0%nat) = [].
Proof.
  destruct (gen_w_run_ops ex_rearm_pre w0 []) as [[s tr] stop] eqn:E.
  assert (Hin : forall ops : list (tid * call), (forall t c, In (t, c) ops -> t = 0%nat) -> forall t c, In (t, c) ops -> In t [0%nat]).
  { intros ops H t c Hi. rewrite (H t c Hi). now left. }
  assert (Hr : reach_wo [0]%nat s tr).
  { apply (run_ops_reach [0]%nat ex_rearm_pre w0 [] s tr stop (rwo_init _)); [|exact E].
    apply Hin. intros t c H. cbn in H. repeat (destruct H as [H|H]; [now inversion H|]). destruct H. }
  destruct (gen_w_run_rearm 0%nat (Nat.eqb 0) s) as [[s1 e1]| | | |] eqn:E1.
  2-5: (vm_compute in E; inversion E; subst s; vm_compute in E1; discriminate).
  pose proof (run_rearm_reach [0]%nat 0%nat (Nat.eqb 0) s tr s1 e1 Hr (or_introl eq_refl) E1) as Hr1.
  destruct (gen_w_run_ops ex_rearm_post s1 (tr ++ e1)) as [[s2 tr2] stop2] eqn:E2.
  assert (Hr2 : reach_wo [0]%nat s2 tr2).
  { apply (run_ops_reach [0]%nat ex_rearm_post s1 (tr ++ e1) s2 tr2 stop2 Hr1); [|exact E2].
    apply Hin. intros t c H. cbn in H. repeat (destruct H as [H|H]; [now inversion H|]). destruct H. }
  exists s, tr, s1, e1, s2, tr2.
  vm_compute in E. inversion E; subst s tr stop. clear E.
  vm_compute in E1. inversion E1; subst s1 e1. clear E1.
  vm_compute in E2. inversion E2; subst s2 tr2 stop2. clear E2.
  repeat split; try assumption; try reflexivity.
Qed.

(* ... and the further invariants used for liveness ([FAll] = FCore /\ FGhost /\ FLive, Qs/QsFgLive.v): when
   agents_to_ack is 0 and somebody is online, some thread holds the period deferred or is on its way to
   restart it; [desired] covers every node target and every quiescent_barrier target in its loop; the
   expected value of a compare-exchange loop is at most [desired] and below the loop's target; every
   agent's pending list is sorted by target, with targets at most counter + 2. *)
Theorem C11_invariants_liveness :
  forall U nown scripts sched s tr, NoDup U -> few U -> scripts_ok U nown scripts ->
    gen_f_run sched (f0 scripts) [] = (s, tr) -> fstop s = None -> FAll U nown s.
Proof. intros U nown scripts sched s tr ND HB Hok. apply (run_all U nown scripts ND HB Hok sched s tr). Qed.
Print Assumptions C11_invariants_liveness.

(* ---- termination of calls and liveness at access granularity --------------------------------
   Bounded progress under explicit scheduling assumptions (no coinduction).  [fexec sched s] and
   [ftrace sched s] are the state and the events of a run of the fine-grained model ([gen_f_run]);
   [fnext t s] is one step of thread t. *)
Theorem C11_gen_run_is_exec :
  (forall t s, fst (fst (gen_f_step t s)) = fnext t s) /\
  (forall sched s tr, gen_f_run sched s tr = (fexec sched s, tr ++ ftrace sched s)).
Proof. exact (conj gen_fnext gen_f_run_exec). Qed.
Print Assumptions C11_gen_run_is_exec.

(* Every call finishes within a bounded number of its own steps, not counting lock attempts on a held
   mutex, failed compare-exchanges on [desired] and the iterations of quiescent_barrier's spin.
   [rank th] (Qs/QsFgTerm.v) bounds the steps the thread still takes in its current call; [step_kind t s]
   (a function of the state) classifies the step thread t takes in s.
   (1) A step of kind KProgress decreases the rank; a call starts (KStart) with a rank of at most
       [call_bound]: 7 for online/offline, 8 for quiescent_state, 4 for await_barrier and for
       quiescent_barrier (up to its spin), 3 + the length of the agent's pending list for run(); a blocked
       lock attempt (KBlocked) changes nothing; a failed compare-exchange (KCasFail) changes nothing
       but the expected value, which was below [desired] and becomes [desired]; an iteration of the spin
       (KSpin) calls quiescent_state().
   (2) Over a run: the KProgress steps of t are paid for by the ranks its calls start with (+7 per spin
       iteration) -- so a call other than quiescent_barrier finishes within [call_bound] such steps.
   (3) The holder of the mutex is never blocked (its steps are KProgress) and releases the mutex
       within 5 of its own steps ([hrank] decreases to 0); the steps of the other threads leave the
       holder and the mutex alone.  So a blocked lock attempt is enabled after at most 5 steps of the
       holder. *)
Theorem C11_call_terminates :
  forall U nown scripts sched s tr, NoDup U -> few U -> scripts_ok U nown scripts ->
    gen_f_run sched (f0 scripts) [] = (s, tr) -> fstop s = None ->
    (forall t s' evs op, gen_f_step t s = (s', evs, op) -> fstop s' = None ->
       match step_kind t s with
       | KNone => s' = s
       | KStart c => (1 <= rank (fth s' t) <= call_bound c (tag (fth s t)))%nat
       | KBlocked => s' = s
       | KCasFail => rank (fth s' t) = rank (fth s t) /\ fd s' = fd s /\
                     exists c, cas_expected (fth s t) = Some c /\ c < desired (fd s) /\
                               cas_expected (fth s' t) = Some (desired (fd s))
       | KSpin => (rank (fth s' t) <= rank (fth s t) + 7)%nat
       | KProgress => (rank (fth s' t) < rank (fth s t))%nat
       end) /\
    (forall t sched', fstop (fexec sched' s) = None ->
       (progress_steps t sched' s + rank (fth (fexec sched' s) t)
        <= rank (fth s t) + start_budget t sched' s + 7 * spins t sched' s)%nat) /\
    (forall h, fmx s = Some h ->
       (forall s' evs op, gen_f_step h s = (s', evs, op) -> fstop s' = None ->
          step_kind h s = KProgress /\
          (hrank (tpc (fth s' h)) < hrank (tpc (fth s h)) <= 5)%nat /\
          (hrank (tpc (fth s' h)) = 0%nat -> fmx s' = None) /\
          ((1 <= hrank (tpc (fth s' h)))%nat -> fmx s' = Some h)) /\
       (forall x s' evs op, x <> h -> gen_f_step x s = (s', evs, op) -> fstop s' = None ->
          fmx s' = Some h /\ fth s' h = fth s h)).
Proof.
  intros U nown scripts sched s tr ND HB Hok Hrun Hstop.
  pose proof (run_reach scripts sched s tr Hrun) as Hr. split; [|split].
  - intros t s' evs op. apply (fgen_step_rank U nown scripts ND HB Hok s tr t s' evs op Hr Hstop).
  - intros t sched'. apply fg_call_steps_bounded.
  - intros h Hm. split.
    + intros s' evs op. apply (fgen_holder U nown scripts ND HB Hok s tr h s' evs op Hr Hstop Hm).
    + intros x s' evs op Hx. apply (fgen_holder_frame s x h s' evs op Hstop Hm Hx).
Qed.
Print Assumptions C11_call_terminates.

(* The compare-exchange loop of await_barrier / quiescent_barrier: the number of failed compare-exchanges
   of thread t in a run is at most the number of steps of OTHER threads that changed [desired] (their
   successful compare-exchanges) during the run, +1 if t's expected value was stale already at the
   start ([stale], 0 when t is not in the loop). *)
Theorem C11_cas_failures_bounded :
  forall t sched s, fstop (fexec sched s) = None ->
    (cas_fails t sched s + stale t (fexec sched s) <= desired_changes_by_others t sched s + stale t s)%nat.
Proof. exact fg_cas_failures_bounded. Qed.
Print Assumptions C11_cas_failures_bounded.

(* Liveness.  A round ([round sched s], Qs/QsFgLive.v) is a run segment such that
     - some agent is online throughout,
     - every agent that is online at its start completes one call of quiescent_state() or offline()
       that begins inside the segment (after the call of that kind it may be inside at the start has
       returned),
     - every thread that is inside quiescent_state()/offline() at its start returns from that call;
   the interleaving inside the segment is arbitrary, agents may come online at any time, an agent goes
   offline only when it does not hold a deferred period (otherwise the run stops in assertion 127, D07:
   the hypothesis is that the run does not stop).
   After k consecutive rounds the period counter has advanced by at least k, as long as it is below a
   value tg that some barrier desires: in particular it reaches the target of a pending node n after
   [ftarget s n - ctr] rounds.  From then on the owner's next complete run() invokes the callback of
   n: if the owner t is about to call run(), the callback is in the trace as soon as t has taken
   3 + (the length of its pending list) steps, whatever the other threads do (exactly once:
   C11_callback_once_by_owner). *)
Theorem C11_liveness :
  forall U nown scripts sched s tr, NoDup U -> few U -> scripts_ok U nown scripts ->
    gen_f_run sched (f0 scripts) [] = (s, tr) ->
    forall ls, rounds ls s ->
    let s1 := fexec (concat ls) s in
    (fstop s1 = None ->
     forall tg, tg <= desired (fd s) -> tg <= ctr (fd s) + N.of_nat (length ls) -> tg <= ctr (fd s1)) /\
    (forall sched2 t n, fstop (fexec sched2 s1) = None ->
       ftarget s n <= ctr (fd s) + N.of_nat (length ls) ->
       ftarget s n <= ctr (fd s1) /\
       (In n (pending (tag (fth s1 t))) -> ftarget s1 n = ftarget s n ->
        tpc (fth s1 t) = PIdle -> (exists rest, tscript (fth s1 t) = CRun :: rest) ->
        (length (pending (tag (fth s1 t))) + 2 < count_occ Nat.eq_dec sched2 t)%nat ->
        In (WCb n t) (ftrace sched2 s1))).
Proof.
  intros U nown scripts sched s tr ND HB Hok Hrun ls HR s1.
  pose proof (run_reach scripts sched s tr Hrun) as Hr. split.
  - intros Hns tg. apply (fgen_rounds U nown scripts ND HB Hok s tr ls tg Hr Hns HR).
  - intros sched2 t n Hns. apply (fgen_liveness U nown scripts ND HB Hok s tr ls sched2 t n Hr Hns HR).
Qed.
Print Assumptions C11_liveness.

(* the same for one round: the counter advances *)
Theorem C11_round_progress :
  forall U nown scripts sched s tr, NoDup U -> few U -> scripts_ok U nown scripts ->
    gen_f_run sched (f0 scripts) [] = (s, tr) ->
    forall l, round l s -> fstop (fexec l s) = None -> ctr (fd s) < desired (fd s) ->
    ctr (fd s) < ctr (fd (fexec l s)).
Proof.
  intros U nown scripts sched s tr ND HB Hok Hrun l HR Hns Hd.
  pose proof (run_reach scripts sched s tr Hrun) as Hr.
  apply (round_progress U nown ND HB l s); try assumption.
  apply (reach_all U nown scripts ND HB Hok s tr Hr). apply (fexec_nostop_head _ _ Hns).
Qed.
Print Assumptions C11_round_progress.

(* quiescent_barrier() leaves its loop: thread b is in the loop of a barrier with target tg (at the
   loop head, or inside the quiescent_state() the loop calls); after tg - ctr rounds the counter has
   reached tg, and from then on b's next test of the loop condition returns from quiescent_barrier
   (the quiescent_state() call in between is bounded by C11_call_terminates). *)
Theorem C11_quiescent_barrier_returns :
  forall U nown scripts sched s tr, NoDup U -> few U -> scripts_ok U nown scripts ->
    gen_f_run sched (f0 scripts) [] = (s, tr) ->
    forall ls b tg, rounds ls s ->
    let s1 := fexec (concat ls) s in
    fstop s1 = None ->
    (tpc (fth s b) = PQb4 tg \/ tret (fth s b) = Some tg) ->
    tg <= ctr (fd s) + N.of_nat (length ls) ->
    tg <= ctr (fd s1) /\
    forall sched2, let s2 := fexec sched2 s1 in
      fstop s2 = None -> tpc (fth s2 b) = PQb4 tg ->
      forall s3 evs op, gen_f_step b s2 = (s3, evs, op) ->
        tpc (fth s3 b) = PIdle /\ In (WQbRet b) evs /\ fstop s3 = None.
Proof.
  intros U nown scripts sched s tr ND HB Hok Hrun ls b tg HR s1 Hns Hb Hlen.
  pose proof (run_reach scripts sched s tr Hrun) as Hr.
  apply (fgen_qb_returns U nown scripts ND HB Hok s tr ls b tg Hr Hns HR Hb Hlen).
Qed.
Print Assumptions C11_quiescent_barrier_returns.

(* non-vacuity: three agents.  Agent 0 comes online, passes a quiescent state and holds the period
   deferred (nothing is desired); agent 1 comes online; agent 0 registers node 0: counter 2, target 4.
   Round 1 (round-robin 0,1,2): agent 0 restarts the deferred period, agent 2 comes online
   mid-period, agents 0 and 1 pass quiescent states; round 2 (round-robin 2,1,0).  After the
   2 = target - counter rounds the counter is 4 and four steps of agent 0 (the start of run(), the
   load of the counter, the look at the node) invoke the callback.  [rounds_b] is the executable
   check of [rounds] (Qs/QsFgLive.v, rounds_b_ok). *)
Definition ex_lscripts (t : tid) : list call :=
  match t with
  | 0%nat => [COnline; CQsCall; CAwait 0; CQsCall; CQsCall; CQsCall; CQsCall; CRun; CRun]
  | 1%nat => [COnline; CQsCall; CQsCall; CQsCall; CQsCall; CQsCall; CQsCall; CQsCall]
  | 2%nat => [COnline; CQsCall; CQsCall; CQsCall; CQsCall]
  | _ => [] end.
Fixpoint rep {A} (k : nat) (l : list A) : list A := match k with O => [] | S k' => l ++ rep k' l end.
Definition ex_lsetup : list tid := rep 7 [0%nat] ++ rep 4 [0%nat] ++ rep 4 [1%nat] ++ rep 4 [0%nat].
Definition ex_lround1 : list tid := rep 9 [0; 1; 2]%nat.
Definition ex_lround2 : list tid := rep 11 [2; 1; 0]%nat ++ [0%nat].

Example C11_example_liveness_fine_grained :
  let U := [0; 1; 2]%nat in
  let '(s, tr) := gen_f_run ex_lsetup (f0 ex_lscripts) [] in
  let s1 := fexec (ex_lround1 ++ ex_lround2) s in
  scripts_ok U (fun _ => 0%nat) ex_lscripts /\ NoDup U /\ few U /\
  ctr (fd s) = 2 /\ ftarget s 0%nat = 4 /\ deferred (tag (fth s 0%nat)) = true /\
  acked (tag (fth s 2%nat)) = 0 /\ acked (tag (fth s1 2%nat)) <> 0 /\
  rounds [ex_lround1; ex_lround2] s /\ fstop s1 = None /\ ctr (fd s1) = 4 /\
  tpc (fth s1 0%nat) = PIdle /\ tscript (fth s1 0%nat) = [CRun; CRun] /\ pending (tag (fth s1 0%nat)) = [0%nat] /\
  ftrace (rep 4 [0%nat]) s1 = [WNode 0; WNode 0; WNode 0; WNode 0; WCb 0 0].
Proof.
  destruct (gen_f_run ex_lsetup (f0 ex_lscripts) []) as [s tr] eqn:E. cbv zeta.
  assert (Hok : scripts_ok [0; 1; 2]%nat (fun _ => 0%nat) ex_lscripts).
  { split.
    - intros t H. destruct t as [|[|[|t]]]; [cbn in H; tauto|cbn in H; tauto|cbn in H; tauto|reflexivity].
    - intros t n H. destruct t as [|[|[|t]]]; [reflexivity| | |destruct H];
        cbn in H; repeat (destruct H as [H|H]; [discriminate|]); destruct H. }
  assert (ND : NoDup [0; 1; 2]%nat) by (repeat constructor; cbn; intuition discriminate).
  assert (HB : few [0; 1; 2]%nat) by (vm_compute; reflexivity).
  pose proof (run_all [0; 1; 2]%nat (fun _ => 0%nat) ex_lscripts ND HB Hok ex_lsetup s tr E) as HA.
  vm_compute in E. inversion E; subst s tr; clear E.
  split; [exact Hok|]. split; [exact ND|]. split; [exact HB|].
  split; [vm_compute; reflexivity|]. split; [vm_compute; reflexivity|]. split; [vm_compute; reflexivity|].
  split; [vm_compute; reflexivity|]. split; [vm_compute; discriminate|].
  split.
  - apply (rounds_b_ok [0; 1; 2]%nat (fun _ => 0%nat) ND HB); [apply HA; vm_compute; reflexivity| |]; vm_compute; reflexivity.
  - repeat split; vm_compute; reflexivity.
Qed.

(* non-vacuity of C11_call_terminates / C11_cas_failures_bounded: two threads, two nodes.  Thread 1 enters
   await_barrier(node 1) while the counter is 1 (target 3) and reads desired = 0; thread 0 comes
   online (6 progress steps after the start of the call; counter 2), enters await_barrier(node 0)
   (target 4) and reads desired = 0; thread 1's compare-exchange succeeds (desired = 3); thread 0's
   fails (kind KCasFail: expected 0 < 3, 3 < 4), re-reads 3 and succeeds: one failure, one change of
   [desired] by another thread.  Then thread 1 takes the mutex in online(); thread 0, last to ack in
   quiescent_state(), is blocked at its lock() (KBlocked) until thread 1 has taken 5 more steps. *)
Definition ex_kscripts (t : tid) : list call :=
  match t with
  | 0%nat => [COnline; CAwait 0; CQsCall]
  | 1%nat => [CAwait 1; COnline]
  | _ => [] end.

Example C11_example_call_kinds :
  let s0 := fexec (rep 3 [1%nat] ++ rep 7 [0%nat] ++ rep 3 [0%nat]) (f0 ex_kscripts) in
  let s1 := fnext 1%nat s0 in
  let s2 := fexec ([1; 0; 0] ++ [1; 1] ++ [0; 0; 0; 0])%nat s0 in
  progress_steps 0%nat (rep 7 [0%nat]) (f0 ex_kscripts) = 6%nat /\ call_bound COnline agent0 = 7%nat /\
  tpc (fth (fexec (rep 7 [0%nat]) (f0 ex_kscripts)) 0%nat) = PIdle /\
  step_kind 0%nat s1 = KCasFail /\ cas_expected (fth s1 0%nat) = Some 0 /\ desired (fd s1) = 3 /\
  cas_expected (fth (fnext 0%nat s1) 0%nat) = Some 3 /\
  cas_fails 0%nat [1; 0; 0]%nat s0 = 1%nat /\ desired_changes_by_others 0%nat [1; 0; 0]%nat s0 = 1%nat /\
  stale 0%nat s0 = 0%nat /\ desired (fd (fexec [1; 0; 0]%nat s0)) = 4 /\
  step_kind 0%nat s2 = KBlocked /\ fmx s2 = Some 1%nat /\ hrank (tpc (fth s2 1%nat)) = 5%nat /\
  fmx (fexec (rep 5 [1%nat]) s2) = None /\ step_kind 0%nat (fexec (rep 5 [1%nat]) s2) = KProgress /\
  fstop (fexec (rep 5 [1%nat]) s2) = None.
Proof. vm_compute. repeat split; reflexivity. Qed.

(* NOT PROVED (statement kept visible):

   "For every fair scheduler every call returns and every registered callback is eventually invoked" as a
   statement about infinite runs.  Proved above instead, for all finite runs: every call takes a bounded
   number of own steps apart from lock attempts on a held mutex (the holder releases it within 5 of
   its own steps), failed compare-exchanges (bounded by the successful ones of other threads) and
   the spin of quiescent_barrier (left once the counter has reached the target); the counter advances in
   every round.  Behaviours that are not sequentially consistent are outside the model (DESIGN 7). *)

(* ---- non-vacuity (whole-operation) ---- *)

(* two agents; agent 0 defers a period, registers node 0, agent 1 joins while the barrier is pending,
   the deferred period is restarted, two more periods pass, agent 0's run() invokes the callback *)
Definition ex_ops : list (tid * call) :=
  [ (0, COnline); (0, CQsCall); (0, CAwait 0); (1, COnline); (0, CQsCall); (1, CQsCall);
    (0, CQsCall); (1, CQsCall); (0, CQsCall); (0, CRun) ]%nat.

Example C11_example_reachable :
  exists s tr, reach_wo [0; 1]%nat s tr /\ In (WCb 0 0) tr /\ ctr (wd s) = 4 /\
               deferred (wa s 0%nat) = true /\ NoDup [0; 1]%nat /\ few [0; 1]%nat.
Proof.
  destruct (gen_w_run_ops ex_ops w0 []) as [[s tr] stop] eqn:E.
  exists s, tr. split.
  - apply (run_ops_reach [0; 1]%nat ex_ops w0 [] s tr stop (rwo_init _)); [|exact E].
    intros t c H. cbn in H. repeat (destruct H as [H|H]; [inversion H; subst; cbn; tauto|]). destruct H.
  - vm_compute in E. inversion E; subst. cbn. repeat split; try tauto.
    all: try (repeat constructor; cbn; intuition discriminate).
Qed.

(* the D07 call: a valid-looking offline() stops in the assertion; the theorem classifies it *)
Definition ex_d07 : list (tid * call) := [(0, COnline); (0, CQsCall)]%nat.
Example C11_example_d07 :
  exists s tr, reach_wo [0]%nat s tr /\ gen_w_step 0%nat COffline s = AssertStop 127 /\
               deferred (wa s 0%nat) = true.
Proof.
  destruct (gen_w_run_ops ex_d07 w0 []) as [[s tr] stop] eqn:E.
  exists s, tr. split.
  - apply (run_ops_reach [0]%nat ex_d07 w0 [] s tr stop (rwo_init _)); [|exact E].
    intros t c H. cbn in H. repeat (destruct H as [H|H]; [inversion H; subst; cbn; tauto|]). destruct H.
  - vm_compute in E. inversion E; subst. split; vm_compute; reflexivity.
Qed.

(* liveness: two agents online, node 0 registered with target 4 while the counter is 2; two rounds
   (both agents pass a quiescent state) bring the counter to 4 and agent 0's run() invokes the callback *)
Definition ex_live_ops : list (tid * call) := [(0, COnline); (1, COnline); (0, CAwait 0)]%nat.
Definition ex_round : list (tid * call) := [(0, CQsCall); (1, CQsCall)]%nat.

Example C11_example_liveness :
  exists s tr s', reach_wo [0; 1]%nat s tr /\ wtarget s 0%nat = 4 /\ ctr (wd s) = 2 /\
    gen_rounds [0; 1]%nat [ex_round; ex_round] s /\ gen_wrun (concat [ex_round; ex_round]) s = Some s' /\
    4 <= ctr (wd s') /\ exists s'' evs, gen_w_step 0%nat CRun s' = Ok (s'', evs) /\ In (WCb 0 0) evs.
Proof.
  destruct (gen_w_run_ops ex_live_ops w0 []) as [[s tr] stop] eqn:E.
  assert (Hr : reach_wo [0; 1]%nat s tr).
  { apply (run_ops_reach [0; 1]%nat ex_live_ops w0 [] s tr stop (rwo_init _)); [|exact E].
    intros t c H. cbn in H. repeat (destruct H as [H|H]; [inversion H; subst; cbn; tauto|]). destruct H. }
  vm_compute in E. inversion E; subst s tr stop. clear E.
  eexists _, _, _. split; [exact Hr|]. split; [reflexivity|]. split; [reflexivity|].
  assert (Hq : forall l x, (In (0%nat, CQsCall) l /\ In (1%nat, CQsCall) l) -> (x = 0 \/ x = 1)%nat -> has_qop x l).
  { intros l x [H0 H1] [->| ->]; exists CQsCall; split; auto. }
  assert (Hin : forall t c, In (t, c) ex_round -> In t [0; 1]%nat).
  { intros t c H. cbn in H. repeat (destruct H as [H|H]; [inversion H; subst; cbn; tauto|]). destruct H. }
  split.
  - cbn [gen_rounds]. split; [exists 0%nat; reflexivity|]. split.
    + intros x Hx. apply Hq; [cbn; tauto|]. destruct x as [|[|x]]; [tauto|tauto|]. vm_compute in Hx. discriminate.
    + split; [exact Hin|].
      match goal with |- match ?g with _ => _ end => destruct g as [s1|] eqn:E1 end; vm_compute in E1; [|discriminate].
      inversion E1; subst s1; clear E1.
      split; [exists 0%nat; reflexivity|]. split.
      * intros x Hx. apply Hq; [cbn; tauto|]. destruct x as [|[|x]]; [tauto|tauto|]. vm_compute in Hx. discriminate.
      * split; [exact Hin|].
        match goal with |- match ?g with _ => _ end => destruct g as [s2|] eqn:E2 end; vm_compute in E2; [exact I|discriminate].
  - split; [vm_compute; reflexivity|]. split; [vm_compute; discriminate|].
    eexists _, _. split; [vm_compute; reflexivity|]. cbn. tauto.
Qed.
