(* C02 -- slab pool: realloc/free semantics, content stability, bounded footprint. *)
From Coq Require Import List NArith Bool.
From FV Require Import Slab.SlabModel Slab.SlabBasics.
Import ListNotations.
Local Open Scope N_scope.

(* the special cases of realloc/free/deallocate, for every state *)
Theorem C02_null_and_zero_cases :
  forall c s,
    (forall n e, step c s (Realloc 0 n e) = step c s (Alloc n e))
    /\ step c s (Free 0) = (s, RUnit, [])
    /\ (forall n, step c s (Dealloc 0 n) = (s, RUnit, []))
    /\ (forall p e, p <> 0 ->
          st_of (step c s (Realloc p 0 e)) = st_of (step c s (Free p))
          /\ cbs_of (step c s (Realloc p 0 e)) = cbs_of (step c s (Free p))
          /\ (res_of (step c s (Free p)) = RUnit -> res_of (step c s (Realloc p 0 e)) = RNull)).
Proof.
  intros c s. split; [intros; apply realloc_null_is_alloc|].
  split; [apply free_null_identity|]. split; [intros; apply dealloc_null_identity|].
  intros p e Hp. apply realloc_zero_is_free. assumption.
Qed.
Print Assumptions C02_null_and_zero_cases.

Definition c02_cfg : cfg := mkCfg 4096 4096 4096 4 true true 40 104.
Example C02_null_cases_nonvacuous :
  let s := run c02_cfg [Alloc 24 (MapRet 4096)] in
  res_of (step c02_cfg s (Realloc 8160 0 MapFail)) = RNull
  /\ live (st_of (step c02_cfg s (Realloc 8160 0 MapFail))) = []
  /\ res_of (step c02_cfg s (Realloc 0 0 (MapRet 8192))) = RPtr 12280.
Proof. vm_compute. repeat split; reflexivity. Qed.
