(* C02 -- slab pool: realloc/free semantics, content stability, bounded footprint.
   Contents of a live block = the log of its owner's writes ([contents s p i] = byte at offset i, None = indeterminate);
   the pool's memcpy is modelled as the transfer of that log (the harness compares real bytes against canaries). *)
From Coq Require Import List NArith Bool.
From FV Require Import Slab.SlabModel Slab.SlabBasics Slab.SlabFail Slab.SlabInv Slab.SlabC01 Slab.SlabC02 Slab.SlabChurn Slab.SlabWrites.
Import ListNotations.
Local Open Scope N_scope.

(* realloc(p, n), p live, n > 0, at the end of any admissible history:
   - n <= get_size(p): returns p; the first n bytes of p are unchanged; every other block, the mapped regions and
     used_pages are unchanged (nothing was freed, nothing mapped);
   - n > get_size(p): either null with the state EQUAL to the state before (only when the policy's map failed), or a
     block q <> p whose contents are those of p at every offset (so in particular the first min(old,new) bytes), p is
     no longer live and every other block is untouched. *)
Theorem C02_realloc_spec :
  forall (c : cfg) (ops : list op) (p n : N) (e : env) (b : blk),
    cfg_ok c = true ->
    policy_ok c (ops ++ [Realloc p n e]) -> api_ok c (ops ++ [Realloc p n e]) ->
    let s := run c ops in
    let x := step c s (Realloc p n e) in
    find_blk p (live s) = Some b -> n <> 0 ->
    (n <= size_of c s p ->
       res_of x = RPtr p
       /\ (forall i, i < n -> contents (st_of x) p i = contents s p i)
       /\ (forall q, q <> p -> find_blk q (live (st_of x)) = find_blk q (live s))
       /\ mapped (st_of x) = mapped s /\ used (st_of x) = used s)
    /\ (size_of c s p < n ->
        (res_of x = RNull /\ st_of x = s /\ env_ret e = 0)
        \/ exists q, res_of x = RPtr q /\ q <> p
             /\ find_blk p (live (st_of x)) = None
             /\ (forall i, contents (st_of x) q i = contents s p i)
             /\ (forall q', q' <> p -> q' <> q -> find_blk q' (live (st_of x)) = find_blk q' (live s))).
Proof. exact C02_realloc_main. Qed.
Print Assumptions C02_realloc_spec.

(* the special cases, for every state *)
Theorem C02_null_and_zero_cases :
  forall c s,
    (forall n e, step c s (Realloc 0 n e) = step c s (Alloc n e))
    /\ step c s (Free 0) = (s, RUnit, [])
    /\ (forall n, step c s (Dealloc 0 n) = (s, RUnit, []))
    /\ (forall p e, p <> 0 ->
          st_of (step c s (Realloc p 0 e)) = st_of (step c s (Free p))
          /\ cbs_of (step c s (Realloc p 0 e)) = cbs_of (step c s (Free p))
          /\ (res_of (step c s (Free p)) = RUnit -> res_of (step c s (Realloc p 0 e)) = RNull)).
Proof.
  intros c s. split; [intros; apply realloc_null_is_alloc|].
  split; [apply free_null_identity|]. split; [intros; apply dealloc_null_identity|].
  intros p e Hp. apply realloc_zero_is_free. assumption.
Qed.
Print Assumptions C02_null_and_zero_cases.

(* Footprint, after every prefix of every admissible (single-threaded) history, per size class i:
   slabs ever mapped for the class <= ceil(peak live blocks of the class / blocks per slab), where
   [nlive_of] = blocks of the class handed out and not returned (= all objects of the class's slabs minus those on free
   lists, third conjunct) and [peak_of] = the running maximum of [nlive_of] (ghost, raised in hand_out only).
   Key fact (fourth conjunct): a slab is mapped only when the partial tree of the class is empty, and then no object of
   the class is free.  Hence steady alloc/free cycles below the peak map nothing new. *)
Theorem C02_footprint :
  forall (c : cfg) (ops : list op),
    cfg_ok c = true -> policy_ok c ops -> api_ok c ops ->
    forall pre, prefix pre ops ->
    let s := run c pre in
    forall i, i < nbuckets c ->
      cnum s i <= (peak_of s i + nobj c (b2s i) - 1) / nobj c (b2s i)
      /\ nlive_of s i <= peak_of s i
      /\ nlive_of s i + cfree s i = cnum s i * nobj c (b2s i)
      /\ (bucket s i = [] -> cfree s i = 0).
Proof. exact C02_footprint_main. Qed.
Print Assumptions C02_footprint.

(* Arbitrarily long churn (D42): after any admissible history, cnt+1 allocate(n)/free pairs of a small size whose class
   has a partial slab never stop and end in the SAME pool state as a single pair (slabs with their free lists and
   num_reserved, partial trees, used pages, live blocks all unchanged; only the ghost peak counter is raised), for
   every cnt.  Before the D42 fix num_reserved grew by one per pair and the 2^32-th free stopped in FRG_ASSERT. *)
Theorem C02_churn_returns_to_same_state :
  forall (c : cfg) (ops : list op) (n : N) (e : env) (idx : N) (cnt : nat),
    cfg_ok c = true -> policy_ok c ops -> api_ok c ops ->
    let s := run c ops in
    churn_class c s n = Some idx ->
    let pairs := concat (repeat [Alloc n e; Free (churn_ptr s idx)] (S cnt)) in
    run_from c s pairs = churn_fast s idx
    /\ Forall (fun x => is_stop (fst x) = false) (trace_from c s pairs)
    /\ slabs (churn_fast s idx) = slabs s /\ larges (churn_fast s idx) = larges s /\ partial (churn_fast s idx) = partial s
    /\ used (churn_fast s idx) = used s /\ live (churn_fast s idx) = live s.
Proof. exact C02_churn_main. Qed.
Print Assumptions C02_churn_returns_to_same_state.

(* The bytes of a live block are changed only by its owner: every write access the pool itself makes during a call
   (frame headers, link words of free objects, the memcpy destination of a moving realloc: the [CAccess true] entries of
   the call's event list) is disjoint from every block that is live after the call and was already live before it.
   (The memcpy destination is the block being returned, which was not live before; a freed block's link word is written
   after the block stopped being live.)  Holds with and without poison hooks. *)
Theorem C02_owner_only_writes :
  forall (c : cfg) (ops : list op) (o : op),
    cfg_ok c = true -> policy_ok c (ops ++ [o]) -> api_ok c (ops ++ [o]) ->
    let s := run c ops in
    let s' := st_of (step c s o) in
    forall a n, In (CAccess true a n) (cbs_of (step c s o)) ->
    forall b', In b' (live s') -> In (bk_p b') (live_ptrs s) -> disjoint (bk_p b') (bk_size0 b') a n.
Proof. exact C02_owner_only_writes_main. Qed.
Print Assumptions C02_owner_only_writes.

Definition c02_cfg : cfg := mkCfg 4096 4096 4096 4 true true 40 104.
Definition c02_ops : list op :=
  [Alloc 24 (MapRet 4096); Write 8160 0 24 5; Realloc 8160 30 MapFail; Realloc 8160 10 MapFail; Realloc 8160 60 (MapRet 8192)].
Example C02_hyps_satisfiable :
  cfg_ok c02_cfg = true /\ policy_ok c02_cfg c02_ops /\ api_ok c02_cfg c02_ops
  /\ (let s := run c02_cfg c02_ops in
      contents s 12224 0 = Some 5 /\ contents s 12224 9 = Some 68 /\ contents s 12224 10 = None
      /\ find_blk 8160 (live s) = None /\ cnum s 2 = 1 /\ cnum s 3 = 1 /\ peak_of s 2 = 1 /\ nlive_of s 2 = 0).
Proof. unfold policy_ok, api_ok. vm_compute. repeat split; reflexivity. Qed.
Example C02_churn_nonvacuous :
  let s := run c02_cfg [Alloc 24 (MapRet 4096)] in
  churn_class c02_cfg s 30 = Some 2 /\ churn_ptr s 2 = 8128
  /\ run_from c02_cfg s (concat (repeat [Alloc 30 MapFail; Free 8128] 50)) = churn_fast s 2
  /\ map sl_nres (slabs (churn_fast s 2)) = [1].
Proof. vm_compute. repeat split; reflexivity. Qed.
Example C02_null_cases_nonvacuous :
  let s := run c02_cfg [Alloc 24 (MapRet 4096)] in
  res_of (step c02_cfg s (Realloc 8160 0 MapFail)) = RNull
  /\ live (st_of (step c02_cfg s (Realloc 8160 0 MapFail))) = []
  /\ res_of (step c02_cfg s (Realloc 0 0 (MapRet 8192))) = RPtr 12280.
Proof. vm_compute. repeat split; reflexivity. Qed.
