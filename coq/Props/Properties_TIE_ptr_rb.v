(* TIE_ptr (rb): the pointer-level definitions REGENERATED from include/frg/rbtree.hpp (tree_crtp_struct) on every run
   (Gen/Ptr_rb.v, translator/cxx2heap.py: the accessors, isRed / isBlack, aggregate_node / aggregate_path, rotateLeft /
   rotateRight, fix_insert, insert_root / insert_left / insert_right, fix_remove, remove_half_leaf, replace_node, remove)
   EQUAL the hand-written pointer-level model Rb/RbPtr.v -- same outcome INCLUDING which FRG_ASSERT (PAssert line) or which
   null dereference (PUB line) stops the run, same final heap incl. the model's write log -- for ALL heaps, fuel, node
   arguments, element / annotation types and aggregators (so for frg::null_aggregator, C06, and for the interval tree's
   aggregator, C07, alike).  Statements only; proofs in PtrGen/Tie_rb.v, Tie_rb_remove.v, Tie_rb_run.v.
   [model_lines]: the line labels of RbPtr.v by failure site of the generated code (the generated code is parametric in
   the labels; Gen/Ptr_rb.src_lines are those of the current source).
   FINDING (labels only): a null sibling loaded at rbtree.hpp:396 / :409 is reported by the model as PUB 396 / PUB 409; the
   source dereferences it at line 412, which the generated code reports.  [relabel] identifies 396, 409 and 412; the
   statements about fix_remove and its callers are up to [relabel] (everything else, incl. all PAssert lines, is exact). *)
From Coq Require Import List NArith Bool Lia PeanoNat.
From FV Require Import Rb.RbModel Rb.RbInorder Rb.RbInvariant Rb.RbLayout Rb.RbHistory Rb.RbPtr Rb.RbPtrBase Rb.RbPtrRefineTop
  Rb.RbPtrHistory Props.Properties_C06 Props.Properties_C06_ptr.
From FV Require Import PtrGen.Bind_rb Gen.Ptr_rb PtrGen.Tie_rb PtrGen.Tie_rb_remove PtrGen.Tie_rb_run.
Import ListNotations.
Local Open Scope N_scope.

Section TIE_ptr_rb.
Variables elt annot : Type.
Variable agg : elt -> option annot -> option annot -> annot.     (* the aggregator's recomputation: any function *)
Variable aeqb : annot -> annot -> bool.
Variable ek : N -> elt.
Notation L := model_lines.

Theorem TIE_ptr_getters : forall (s : pstate annot) i,
  g_get_parent annot L s (Some i) = POk (get_parent s i) /\ g_get_left annot L s (Some i) = POk (get_left s i) /\
  g_get_right annot L s (Some i) = POk (get_right s i) /\ g_predecessor annot L s (Some i) = POk (get_pred s i) /\
  g_successor annot L s (Some i) = POk (get_succ s i) /\ g_get_root annot s = POk (p_root s).
Proof. exact (gen_getters_eq annot). Qed.

Theorem TIE_ptr_isRed_isBlack : forall (s : pstate annot) o,
  g_isRed annot L s o = POk (p_isRed s o) /\ g_isBlack annot L s o = POk (p_isBlack s o).
Proof. intros. split; [apply gen_isRed_eq | apply gen_isBlack_eq]. Qed.

Theorem TIE_ptr_aggregate_node : forall s i,
  g_aggregate_node elt annot agg aeqb ek L s (Some i) = POk (aggregate_node agg aeqb ek s i).
Proof. exact (gen_aggregate_node_eq elt annot agg aeqb ek). Qed.

Theorem TIE_ptr_aggregate_path : forall fuel s cur,
  g_aggregate_path elt annot agg aeqb ek L fuel s cur = aggregate_path agg aeqb ek fuel s cur.
Proof. exact (gen_aggregate_path_eq elt annot agg aeqb ek). Qed.

Theorem TIE_ptr_rotateLeft : forall s n,
  g_rotateLeft elt annot agg aeqb ek L s (Some n) = rotateLeft agg aeqb ek s n.
Proof. exact (gen_rotateLeft_eq elt annot agg aeqb ek). Qed.

Theorem TIE_ptr_rotateRight : forall s n,
  g_rotateRight elt annot agg aeqb ek L s (Some n) = rotateRight agg aeqb ek s n.
Proof. exact (gen_rotateRight_eq elt annot agg aeqb ek). Qed.

Theorem TIE_ptr_fix_insert : forall fuel s n,
  g_fix_insert elt annot agg aeqb ek L fuel s (Some n) = fix_insert agg aeqb ek fuel s n.
Proof. exact (gen_fix_insert_eq elt annot agg aeqb ek). Qed.

Theorem TIE_ptr_insert_root : forall fuel s node,
  g_insert_root elt annot agg aeqb ek L fuel s (Some node) = insert_root agg aeqb ek fuel s node.
Proof. exact (gen_insert_root_eq elt annot agg aeqb ek). Qed.

Theorem TIE_ptr_insert_left : forall fuel s parent node,
  g_insert_left elt annot agg aeqb ek L fuel s (Some parent) (Some node) = insert_left agg aeqb ek fuel s parent node.
Proof. exact (gen_insert_left_eq elt annot agg aeqb ek). Qed.

Theorem TIE_ptr_insert_right : forall fuel s parent node,
  g_insert_right elt annot agg aeqb ek L fuel s (Some parent) (Some node) = insert_right agg aeqb ek fuel s parent node.
Proof. exact (gen_insert_right_eq elt annot agg aeqb ek). Qed.

Theorem TIE_ptr_replace_node : forall fuel s node replacement,
  g_replace_node elt annot agg aeqb ek L fuel s (Some node) (Some replacement) =
  replace_node agg aeqb ek fuel s node replacement.
Proof. exact (gen_replace_node_eq elt annot agg aeqb ek). Qed.

(* the remove side, up to [relabel] (one theorem: its proof terms are large, Print Assumptions walks them once).
   [relabel] only touches the label of a null-dereference outcome, so a normal return or an assertion stop of the model is
   exactly the outcome of the generated code (last two clauses) *)
Theorem TIE_ptr_remove_side :
  (forall A (m : pres A),
     relabel m = match m with
                 | PUB l => PUB (if N.eqb l 396 then 412 else if N.eqb l 409 then 412 else l)
                 | POk a => POk a | PAssert l => PAssert l | POutOfFuel => POutOfFuel
                 end) /\
  (forall fuel s n,
     relabel (g_fix_remove elt annot agg aeqb ek L fuel s (Some n)) = relabel (fix_remove agg aeqb ek fuel s n)) /\
  (forall fuel s node child,
     relabel (g_remove_half_leaf elt annot agg aeqb ek L fuel s (Some node) child) =
     relabel (remove_half_leaf agg aeqb ek fuel s node child)) /\
  (forall fuel s node,
     relabel (g_remove elt annot agg aeqb ek L fuel s (Some node)) = relabel (p_remove agg aeqb ek fuel s node)) /\
  (forall fuel s node s',
     p_remove agg aeqb ek fuel s node = POk s' -> g_remove elt annot agg aeqb ek L fuel s (Some node) = POk s') /\
  (forall fuel s node l,
     p_remove agg aeqb ek fuel s node = PAssert l -> g_remove elt annot agg aeqb ek L fuel s (Some node) = PAssert l).
Proof.
  split; [intros A [a|l|l|]; reflexivity|].
  split; [exact (gen_fix_remove_rel elt annot agg aeqb ek)|].
  split; [exact (gen_remove_half_leaf_rel elt annot agg aeqb ek)|].
  split; [exact (gen_remove_rel elt annot agg aeqb ek)|].
  split; intros fuel s node x H.
  - apply relabel_ok. rewrite (gen_remove_rel elt annot agg aeqb ek), H. reflexivity.
  - apply relabel_assert. rewrite (gen_remove_rel elt annot agg aeqb ek), H. reflexivity.
Qed.

End TIE_ptr_rb.

(* COROLLARIES (with C06_ptr_remove_refines and C06_ptr_history; one theorem for the same reason).
   (1) the GENERATED remove, on any heap that represents a red-black tree with unique ids, returns normally and leaves the
       heap that represents the functional remove;
   (2) the run of ANY valid insert/remove history from the empty heap through the GENERATED insert_root / insert_left /
       insert_right / fix_insert / rotations / remove / remove_half_leaf / replace_node / fix_remove (the comparator descent
       of tree_struct::insert, a member of the derived class, is the model's) returns normally and represents the
       functional run *)
Theorem TIE_ptr_rb_refines :
  (forall (elt annot : Type) (id_of : elt -> N) agg aeqb (ek : N -> elt)
          (i : N) (t : tree elt annot) (s : pstate annot) (fuel : nat),
     NoDup (map id_of (inorder t)) -> rb t -> In i (map id_of (inorder t)) ->
     repr elt annot id_of s t -> (2 * Nat.log2 (size t + 1) + 2 < fuel)%nat ->
     exists s', g_remove elt annot agg aeqb ek model_lines fuel s (Some i) = POk s'
                /\ repr elt annot id_of s' (remove id_of agg i t)) /\
  (forall (elt annot : Type) (id_of : elt -> N) (less : elt -> elt -> bool) agg aeqb
          (ops : list (op elt)) (a0 : annot) (ek0 : N -> elt) (fuel : nat),
     tops_ok elt annot id_of less agg E ops -> (2 * Nat.log2 (length ops + 1) + 2 < fuel)%nat ->
     let t := fold_left (rb_step id_of less agg) ops E in
     exists s' ek', g_run elt annot id_of less agg aeqb fuel ops (p_empty a0) ek0 = POk (s', ek')
                    /\ repr elt annot id_of s' t /\ rb t /\ NoDup (map id_of (inorder t))
                    /\ ptr_consistent elt annot id_of (p_hooks s') t /\ p_root s' = root_id id_of t).
Proof.
  split.
  - intros elt annot id_of agg aeqb ek i t s fuel H1 H2 H3 H4 H5.
    destruct (C06_ptr_remove_refines elt annot id_of agg aeqb ek i t s fuel H1 H2 H3 H4 H5) as (s' & E & R & _).
    exists s'. split; [|exact R]. apply relabel_ok. rewrite (gen_remove_rel elt annot agg aeqb ek), E. reflexivity.
  - intros elt annot id_of less agg aeqb ops a0 ek0 fuel Hok Hf t.
    destruct (C06_ptr_history elt annot id_of less agg aeqb ops a0 ek0 fuel Hok Hf) as (s' & ek' & A & B & C & D & _ & F & G).
    exists s', ek'. split; [apply gen_run_ok, A|]. split; [exact B|]. split; [exact C|]. split; [exact D|]. split; [exact F|exact G].
Qed.

Print Assumptions TIE_ptr_getters.
Print Assumptions TIE_ptr_isRed_isBlack.
Print Assumptions TIE_ptr_aggregate_node.
Print Assumptions TIE_ptr_aggregate_path.
Print Assumptions TIE_ptr_rotateLeft.
Print Assumptions TIE_ptr_rotateRight.
Print Assumptions TIE_ptr_fix_insert.
Print Assumptions TIE_ptr_insert_root.
Print Assumptions TIE_ptr_insert_left.
Print Assumptions TIE_ptr_insert_right.
Print Assumptions TIE_ptr_replace_node.
Print Assumptions TIE_ptr_remove_side.
Print Assumptions TIE_ptr_rb_refines.

(* ---- non-vacuity: the GENERATED functions run on concrete heaps by vm_compute (scripts of Properties_C06_ptr.v) ---- *)
Definition g_demo (ops : list (op pelt)) := g_run pelt unit pid (pless N.ltb) pagg paeqb 12 ops pp_empty ptr_ek0.

(* the insert/remove history of C06_ptr_demo_remove through the generated code: same heap as the model, field by field *)
Example TIE_ptr_rb_history_ex :
  match g_demo ptr_demo_ops, p_run pelt unit pid (pless N.ltb) pagg paeqb 12 ptr_demo_ops pp_empty ptr_ek0 with
  | POk (s, _), POk (s', _) =>
      map (p_hooks s) ptr_pool = map (p_hooks s') ptr_pool /\ p_root s = p_root s' /\ p_root s = Some 6 /\ p_wlog s = p_wlog s'
  | _, _ => False
  end.
Proof. vm_compute. repeat split; reflexivity. Qed.

(* the source's own line labels: rotateLeft at the root of a one-node tree stops in the FRG_ASSERT of line 480 *)
Definition one_node : ppstate :=
  match g_demo [OIns (5, 0)] with POk (s, _) => s | _ => pp_empty end.
Example TIE_ptr_rb_failures_ex :
  g_rotateLeft pelt unit pagg paeqb ptr_ek0 model_lines one_node (Some 0) = PAssert 480 /\
  g_rotateLeft pelt unit pagg paeqb ptr_ek0 src_lines one_node (Some 0) = PAssert (src_lines 12) /\
  g_rotateLeft pelt unit pagg paeqb ptr_ek0 model_lines one_node None = PUB 479 /\
  g_insert_root pelt unit pagg paeqb ptr_ek0 model_lines 5 one_node (Some 1) = PAssert 125 /\
  g_fix_insert pelt unit pagg paeqb ptr_ek0 model_lines 0 one_node (Some 0) = POutOfFuel /\
  g_insert_left pelt unit pagg paeqb ptr_ek0 model_lines 5 one_node None (Some 1) = PAssert 135.
Proof. vm_compute. repeat split; reflexivity. Qed.

(* remove of the root of a 7-node tree (two children: predecessor unlinked, then replace_node); fix_remove runs *)
Example TIE_ptr_rb_remove_ex :
  let ops := [OIns (5, 0); OIns (3, 1); OIns (5, 2); OIns (3, 3); OIns (7, 4); OIns (5, 5); OIns (1, 6)] in
  match g_demo ops with
  | POk (s, ek) =>
      match g_remove pelt unit pagg paeqb ek model_lines 12 s (p_root s), p_root s with
      | POk s', Some r => links_of (p_hooks s' r) = (None, None, None, None, None) /\ p_root s' <> Some r /\
                          g_remove pelt unit pagg paeqb ek model_lines 0 s (p_root s) = POutOfFuel
      | _, _ => False
      end
  | _ => False
  end.
Proof. vm_compute. repeat split; try reflexivity. discriminate. Qed.

Example TIE_ptr_rb_history_instance :
  exists s' ek', g_demo ptr_demo_ops = POk (s', ek') /\
    repr pelt unit pid s' (fold_left (rb_step pid (pless N.ltb) pagg) ptr_demo_ops E).
Proof.
  destruct C06_ptr_demo_remove_hypotheses as [Hf Hl].
  assert (Hok : tops_ok pelt unit pid (pless N.ltb) pagg E ptr_demo_ops).
  { vm_compute. repeat split; intuition discriminate. }
  destruct (proj2 TIE_ptr_rb_refines pelt unit pid (pless N.ltb) pagg paeqb ptr_demo_ops tt ptr_ek0 12%nat Hok Hl)
    as (s' & ek' & A & B & _).
  exists s', ek'. split; assumption.
Qed.
