(* C19, printf part: printf_format + do_printf_* produce byte for byte what ISO C prescribes.

   C19_printf_conforms is the FULL statement of DESIGN Appendix A: for every directive of the grammar
     %[n$][-+ #0']*[width|*][.prec|.*][hh|h|l|ll|z|t|j]{d,i,u,o,x,X}, %[n$][-][width|*][.prec|.*]{c,s}, %[n$]p, %%
   (IsoPrintf.in_grammar: any flag list incl. order and repetition; literal width 1..INT_MAX, precision 0..INT_MAX,
   "." alone, "*" / ".*" with any int incl. negative ones; n in 1..9, not combined with "*" as in POSIX) and every
   argument value of the promoted type (IsoPrintf.fits; INT_MIN as a "*" width and null pointers are outside ISO's
   defined behaviour), the model of printf_format / pop_arg / do_printf_* / print_int run on the rendering of the
   directive returns Ok with exactly the bytes of the independent specification IsoPrintf.iso_printf.
   For n$ the argument is the n-th of n arguments of the directive's type (frigg_printf / PrintfConform.args_of).

   On the unrepaired tree this was false in the ways D24-D30 and D40 (the first version of this file carried one
   vm_compute _refuted witness per class, each replayed on the real code before its fix: commit; see
   comp/printf/NOTES.md); after the fixes no class of deviating directives is left, so there is no
   `deviates` side condition any more.  What remains known (D33) concerns FORMATS with several positional
   directives whose arguments have different types - outside the quantifier of this statement, inside the
   property's text: C19_printf_positional_refuted_D33. *)
From Coq Require Import String.
From Coq Require Import NArith ZArith List Bool.
From FV Require Import Printf.PrintIntModel Printf.PrintfModel Printf.IsoPrintf Printf.PrintfConform
  Printf.PrintIntProofs Printf.PrintfConformProofs Printf.PrintfConformGen Printf.PrintfFormat.
Import ListNotations.
Local Open Scope Z_scope.

Theorem C19_printf_conforms :
  forall (d : directive) (v : argval),
    in_grammar d = true -> fits d v = true ->
    frigg_printf d v = Ok (iso_printf d v).
Proof. exact printf_conforms. Qed.
Print Assumptions C19_printf_conforms.

(* non-vacuity: the former witnesses of D24-D30 and D40 and a positional directive meet the hypotheses, and the
   outputs are the padded / signed / prefixed ones *)
Example C19_printf_conforms_examples :
  let ok d v := (in_grammar d = true /\ fits d v = true) in
  ok (mk_dir None [FZero] (WLit 5) PNone LNone Cd) (mk_av 0 0 (-12) [])
  /\ iso_printf (mk_dir None [FZero] (WLit 5) PNone LNone Cd) (mk_av 0 0 (-12) []) = [45; 48; 48; 49; 50]%N       (* "-0012" *)
  /\ ok (mk_dir None [FHash; FMinus] WStar PStar Lll CX) (mk_av (-9) 4 255 [])
  /\ iso_printf (mk_dir None [FHash; FMinus] WStar PStar Lll CX) (mk_av (-9) 4 255 [])
     = [48; 88; 48; 48; 70; 70; 32; 32; 32]%N                                                                     (* "0X00FF   " *)
  /\ ok (mk_dir None [FMinus] (WLit 6) (PLit 2) LNone Cs) (mk_av 0 0 0 [104; 105; 33; 0]%N)
  /\ iso_printf (mk_dir None [FMinus] (WLit 6) (PLit 2) LNone Cs) (mk_av 0 0 0 [104; 105; 33; 0]%N)
     = [104; 105; 32; 32; 32; 32]%N                                                                               (* "hi    " *)
  /\ ok (mk_dir (Some 3%N) [FPlus; FQuote] (WLit 4) PNone Lhh Cd) (mk_av 0 0 300 [])
  /\ frigg_printf (mk_dir (Some 3%N) [FPlus; FQuote] (WLit 4) PNone Lhh Cd) (mk_av 0 0 300 [])
     = Ok [32; 43; 52; 52]%N.                                                                                     (* " +44" *)
Proof. repeat split; reflexivity. Qed.

(* %c of the NUL character is ONE byte (value 0), inside its field: "%3c" -> "  \0", "%-3c" -> "\0  " *)
Example C19_printf_conforms_char_nul :
  let d1 := mk_dir None [] (WLit 3) PNone LNone Cc in
  let d2 := mk_dir None [FMinus] WStar PNone LNone Cc in
  in_grammar d1 = true /\ fits d1 (mk_av 0 0 0 []) = true
  /\ frigg_printf d1 (mk_av 0 0 0 []) = Ok [32; 32; 0]%N /\ iso_printf d1 (mk_av 0 0 0 []) = [32; 32; 0]%N
  /\ in_grammar d2 = true /\ fits d2 (mk_av 3 0 256 []) = true
  /\ frigg_printf d2 (mk_av 3 0 256 []) = Ok [0; 32; 32]%N
  /\ frigg_printf (mk_dir (Some 2%N) [] WNone PNone LNone Cc) (mk_av 0 0 0 []) = Ok [0%N].
Proof. repeat split; reflexivity. Qed.

(* Whole format strings: a format that is a concatenation of literal text (bytes other than NUL and '%') and
   directives of the grammar WITHOUT n$ (and %%), run with the arguments of its directives in order
   (fmt_slots: "*", ".*", the value; a %s item names the address its string lives at in [mem]), prints the
   literal pieces and iso_printf of every directive, in order, and consumes every argument.
   [wf_items] = every literal piece is non-empty and maximal (no two adjacent literal items; merge_lits_same
   shows that merging adjacent pieces changes neither the format, the arguments nor the ISO text), every directive
   item satisfies in_grammar / fits / d_pos = None.  Formats with n$ directives: single-directive theorem above
   plus the known finding D33 below. *)
Theorem C19_printf_format_conforms :
  forall (mem : memory) (its : list fitem) (cache : list N),
    wf_items mem its ->
    let r := run_printf mem (fmt_render its) (fmt_slots its) cache in
    snd r = Ok tt /\ ps_out (fst r) = fmt_iso its /\ va_rest (ps_vs (fst r)) = [].
Proof. exact printf_format_conforms. Qed.
Print Assumptions C19_printf_format_conforms.

(* non-vacuity: "[%-4s|%+.3d] %#x%% %s" with ("ab", 7, 255, "xyz") *)
Example C19_printf_format_example :
  let mem := [(4096, [97; 98; 0]); (8192, [120; 121; 122; 0])]%N in
  let its := [FLit [91%N];
              FDir (mk_dir None [FMinus] (WLit 4) PNone LNone Cs) (mk_av 0 0 0 [97; 98; 0]%N) 4096%N;
              FLit [124%N];
              FDir (mk_dir None [FPlus] WNone (PLit 3) LNone Cd) (mk_av 0 0 7 []) 0%N;
              FLit [93; 32]%N;
              FDir (mk_dir None [FHash] WNone PNone LNone Cx) (mk_av 0 0 255 []) 0%N;
              FDir (mk_dir None [] WNone PNone LNone Cpct) (mk_av 0 0 0 []) 0%N;
              FLit [32%N];
              FDir (mk_dir None [] WNone PNone LNone Cs) (mk_av 0 0 0 [120; 121; 122; 0]%N) 8192%N] in
  wf_items mem its
  /\ fmt_iso its = [91; 97; 98; 32; 32; 124; 43; 48; 48; 55; 93; 32; 48; 120; 102; 102; 37; 32; 120; 121; 122]%N.
Proof.
  split; [|reflexivity].
  cbn [wf_items item_ok]. repeat split; try reflexivity; try discriminate; try (intros; discriminate);
    repeat constructor; try discriminate.
Qed.

(* D33 (known): "%2$d %1$ld" with (long 6000000000, int 7): ISO/POSIX print "7 6000000000"; frigg fetches
   the first argument with the type of the directive that skips over it (int) *)
Theorem C19_printf_positional_refuted_D33 :
  let fmt := [37; 50; 36; 100; 32; 37; 49; 36; 108; 100]%N in
  let r := run_printf [] fmt [slot64 6000000000; slot32 7] cache_init in
  snd r = Ok tt
  /\ ps_out (fst r) <> iso_printf (mk_dir (Some 2%N) [] WNone PNone LNone Cd) (mk_av 0 0 7 []) ++ [32%N]
                       ++ iso_printf (mk_dir (Some 1%N) [] WNone PNone Ll Cd) (mk_av 0 0 6000000000 []).
Proof. split; [reflexivity | vm_compute; discriminate]. Qed.
Print Assumptions C19_printf_positional_refuted_D33.

(* print_digits emits the positional representation: for every value below 2^64 and radix 2, 8, 10, 16
   it returns Ok (so FRG_ASSERT(k < 64) does not fire) the digit string [digits], which has at most 64
   digits, no leading zero, and whose value in that radix is the number *)
Theorem C19_digits :
  forall (v radix : N) (caps : bool),
    (v < 2 ^ 64)%N -> (radix = 2 \/ radix = 8 \/ radix = 10 \/ radix = 16)%N ->
    print_digits v false radix 0 1 32%N false false false false caps default_locale [] = Ok (digits radix caps v)
    /\ digits_value radix (digits radix caps v) = v
    /\ (length (digits radix caps v) <= 64)%nat
    /\ (v <> 0%N -> exists c r, digits radix caps v = c :: r /\ c <> 48%N)
    /\ (v = 0%N -> digits radix caps v = [48%N]).
Proof. exact digits_theorem. Qed.
Print Assumptions C19_digits.

Example C19_digits_example :
  print_digits 18446744073709551615 false 2 0 1 32%N false false false false false default_locale []
  = Ok (repeat 49%N 64)                                      (* 64 ones: the buffer is used up to its last slot *)
  /\ digits 16 true 48879 = [66; 69; 69; 70]%N.             (* "BEEF" *)
Proof. split; vm_compute; reflexivity. Qed.

(* print_int of the minimum of every signed type prints its magnitude (the ~x + 1 trick) *)
Theorem C19_print_int_min :
  forall (tbits radix : N), (tbits = 32 \/ tbits = 64)%N -> (radix = 2 \/ radix = 8 \/ radix = 10 \/ radix = 16)%N ->
    print_int tbits (- 2 ^ (Z.of_N tbits - 1)) radix 0 1 32%N false false false false false default_locale []
    = Ok (45%N :: digits radix false (2 ^ (tbits - 1))).
Proof. exact print_int_min_theorem. Qed.
Print Assumptions C19_print_int_min.

Example C19_print_int_min_example :
  print_int 32 (-2147483648) 10 0 1 32%N false false false false false default_locale []
  = Ok [45; 50; 49; 52; 55; 52; 56; 51; 54; 52; 56]%N.             (* "-2147483648" *)
Proof. vm_compute. reflexivity. Qed.
