(* C19, printf part.  (interim version: the former _refuted witnesses of D24-D30, D34 conform
   after the fix: commits; the general theorems replace this file) *)
From Coq Require Import String.
From Coq Require Import NArith ZArith List Bool.
From FV Require Import Printf.PrintIntModel Printf.PrintfModel Printf.IsoPrintf Printf.PrintfConform.
Import ListNotations.
Local Open Scope Z_scope.

Definition av (x : Z) := mk_av 0 0 x [].
Definition conforms (d : directive) (v : argval) : Prop :=
  in_grammar d = true /\ fits d v = true /\ frigg_printf d v = Ok (iso_printf d v).

Theorem C19_printf_conforms_corpus :
  conforms (mk_dir None [] (WLit 5) PNone LNone Cd) (av (-12)) /\
  conforms (mk_dir None [FZero] (WLit 5) PNone LNone Cd) (av (-12)) /\
  conforms (mk_dir None [FMinus; FZero] (WLit 5) PNone LNone Cd) (av 12) /\
  conforms (mk_dir None [FHash] (WLit 6) PNone LNone Cx) (av 12) /\
  conforms (mk_dir None [] (WLit 5) (PLit 0) LNone Cd) (av 0) /\
  conforms (mk_dir None [FPlus] WNone PNone LNone Cu) (av 12) /\
  conforms (mk_dir None [] WStar PNone LNone Cd) (mk_av (-5) 0 12 []) /\
  conforms (mk_dir None [FQuote] WNone PNone LNone Cd) (av 1234567).
Proof. repeat split; vm_compute; reflexivity. Qed.
Print Assumptions C19_printf_conforms_corpus.
