(* TIE_ptr (pairing): the pointer-level definitions REGENERATED from include/frg/pairing_heap.hpp on every run
   (Gen/Ptr_pairing.v, translator/cxx2heap.py: _merge, _collapse with its two loops, push, pop, remove) EQUAL the
   hand-written pointer-level model Pairing/PairingPtr.v -- same outcome (POk / PAssertStop / PNullDeref / POutOfFuel),
   same final state -- for ALL states, fuel and arguments; hence the refinement theorem of C08_ptr holds of the generated
   definitions.  Statements only; proofs in PtrGen/Tie_pairing.v.  [lift_f s f]: the model's hook memory put back into
   the state (the generated functions thread the whole pstate, the model's _merge/_collapse the hook memory only). *)
From Coq Require Import List NArith Bool.
From FV Require Import Pairing.PairingModel Pairing.PairingSpec Pairing.PairingPtr Pairing.PairingRefine.
From FV Require Import PtrGen.Bind_pairing Gen.Ptr_pairing PtrGen.Tie_pairing.
Import ListNotations.
Local Open Scope N_scope.

Section TIE_ptr_pairing.
Variable cmp : elt -> elt -> bool.          (* the user's Compare: any function *)

Theorem TIE_ptr_merge : forall s a b,
  g_merge cmp s (Some a) (Some b) =
  bind (p_merge cmp (p_prio s) (p_hooks s) a b) (fun fr => POk (lift_f s (fst fr), Some (snd fr))).
Proof. exact (gen_merge_eq cmp). Qed.

(* the two loops of _collapse (loop-carried locals: paired, element / paired, joined) *)
Theorem TIE_ptr_collapse_loop1 : forall fuel s paired element,
  g_collapse_loop1 cmp fuel s paired element =
  bind (p_collapse_pair cmp (p_prio s) fuel (p_hooks s) paired element)
       (fun r => POk (lift_f s (fst (fst r)), snd (fst r), snd r)).
Proof. exact (gen_collapse_loop1_eq cmp). Qed.

Theorem TIE_ptr_collapse_loop2 : forall fuel s paired joined,
  g_collapse_loop2 cmp fuel s paired (Some joined) =
  bind (p_collapse_join cmp (p_prio s) fuel (p_hooks s) joined paired)
       (fun r => POk (lift_f s (fst r), None, Some (snd r))).
Proof. exact (gen_collapse_loop2_eq cmp). Qed.

Theorem TIE_ptr_collapse : forall fuel s head,
  g_collapse cmp fuel s head =
  bind (p_collapse cmp (p_prio s) fuel (p_hooks s) head) (fun fr => POk (lift_f s (fst fr), Some (snd fr))).
Proof. exact (gen_collapse_eq cmp). Qed.

Theorem TIE_ptr_push : forall s e, g_push cmp s (Some e) = p_push cmp s e.
Proof. exact (gen_push_eq cmp). Qed.

Theorem TIE_ptr_pop : forall fuel s, g_pop cmp fuel s = p_pop cmp fuel s.
Proof. exact (gen_pop_eq cmp). Qed.

Theorem TIE_ptr_remove : forall fuel s e, g_remove cmp fuel s (Some e) = p_remove cmp fuel s e.
Proof. exact (gen_remove_eq cmp). Qed.

(* scripts: [g_run] is PairingPtr.p_run with the generated push/pop/remove in place of the hand-written ones *)
Theorem TIE_ptr_run : forall fuel ops s, g_run cmp fuel s ops = p_run cmp fuel s ops.
Proof. exact (gen_run_eq cmp). Qed.

(* COROLLARY (with C08_ptr_history = ptr_run_refines): the GENERATED pointer-level run of any script from the empty
   state is the layout of the functional run; it stops in an FRG_ASSERT exactly when the functional model does *)
Theorem TIE_ptr_pairing_history : forall ops fuel,
  (length ops <= fuel)%nat ->
  match run cmp None ops with
  | Ok h => exists s, g_run cmp fuel p_init ops = POk s /\ R h s
  | AssertStop => g_run cmp fuel p_init ops = PAssertStop
  | UB => True
  end.
Proof. intros ops fuel H. rewrite (gen_run_eq cmp). exact (ptr_run_refines cmp ops fuel H). Qed.

End TIE_ptr_pairing.

Print Assumptions TIE_ptr_merge.
Print Assumptions TIE_ptr_collapse_loop1.
Print Assumptions TIE_ptr_collapse_loop2.
Print Assumptions TIE_ptr_collapse.
Print Assumptions TIE_ptr_push.
Print Assumptions TIE_ptr_pop.
Print Assumptions TIE_ptr_remove.
Print Assumptions TIE_ptr_run.
Print Assumptions TIE_ptr_pairing_history.

(* ---- non-vacuity: the GENERATED functions run on concrete heaps by vm_compute ---- *)
Definition ltp (a b : elt) : bool := N.ltb (fst a) (fst b).
Definition st0 (prios : list (N * N)) : pstate :=
  mk_pstate null_hooks (fun i => match find (fun x => N.eqb (fst x) i) prios with Some x => snd x | None => 0 end) None.
Definition dump (s : pstate) (n : nat) : list hook := map (fun i => p_hooks s (N.of_nat i)) (seq 0 n).

(* _merge of two detached single nodes 0 (prio 5) and 1 (prio 9): 0 < 1, so 0 becomes the child of 1 *)
Example TIE_ptr_merge_ex :
  match g_merge ltp (st0 [(0, 5); (1, 9)]) (Some 0) (Some 1) with
  | POk (s, r) => r = Some 1 /\ dump s 2 = [mk_hook None (Some 1) None; mk_hook (Some 0) None None]
  | _ => False
  end /\ g_merge ltp (st0 []) None (Some 1) = PNullDeref.
Proof. vm_compute. repeat split; reflexivity. Qed.

(* push 0..4, then _collapse of the root's 4 children by pop; a node whose hook is in use makes push stop in FRG_ASSERT *)
Definition ex_ops : list op := [Push (100, 0); Push (7, 1); Push (9, 2); Push (7, 3); Push (8, 4); Pop; Remove 1; Pop].
Example TIE_ptr_run_ex :
  match g_run ltp 8 p_init ex_ops with
  | POk s => p_root s = Some 4 /\ dump s 5 = dump (match p_run ltp 8 p_init ex_ops with POk s' => s' | _ => p_init end) 5
  | _ => False
  end /\
  g_run ltp 1 p_init ex_ops = POutOfFuel /\
  g_run ltp 8 p_init [Push (1, 0); Push (2, 1); Push (3, 0)] = PAssertStop.
Proof. vm_compute. repeat split; reflexivity. Qed.

(* _collapse on a hand-built sibling chain 1 - 2 - 3 (stale head backlink 9): pairs (1,2), then joins with 3 *)
Definition chain3 : pstate :=
  mk_pstate (upd (upd (upd null_hooks 1 (mk_hook None (Some 9) (Some 2))) 2 (mk_hook None (Some 1) (Some 3)))
                 3 (mk_hook None (Some 2) None))
            (fun i => i) None.
Example TIE_ptr_collapse_ex :
  match g_collapse ltp 3 chain3 (Some 1) with
  | POk (s, r) => r = Some 3 /\ dump s 4 = [null_hook; mk_hook None (Some 2) None; mk_hook (Some 1) (Some 3) None;
                                           mk_hook (Some 2) None None]
  | _ => False
  end /\ g_collapse ltp 0 chain3 (Some 1) = POutOfFuel /\ g_collapse ltp 3 chain3 None = PAssertStop.
Proof. vm_compute. repeat split; reflexivity. Qed.

Example TIE_ptr_pop_remove_ex :
  g_pop ltp 3 p_init = PAssertStop /\
  g_remove ltp 3 p_init (Some 4) = PAssertStop /\       (* FRG_ASSERT(predecessor) *)
  g_remove ltp 3 p_init None = PAssertStop /\         (* _root == element == nullptr: pop(), FRG_ASSERT(_root) *)
  g_remove ltp 3 (wr_root p_init (Some 0)) None = PNullDeref /\
  g_push ltp p_init None = PNullDeref.
Proof. vm_compute. repeat split; reflexivity. Qed.

Example TIE_ptr_pairing_history_instance :
  exists s, g_run ltp 8 p_init ex_ops = POk s /\ exists h, run ltp None ex_ops = Ok h /\ R h s.
Proof.
  pose proof (TIE_ptr_pairing_history ltp ex_ops 8 (le_n _)) as H.
  destruct (run ltp None ex_ops) as [h| |] eqn:E; [|vm_compute in E; discriminate E..].
  destruct H as (s & H1 & H2). exists s. split; [exact H1|]. exists h. split; [reflexivity | exact H2].
Qed.
