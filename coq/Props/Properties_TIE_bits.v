(* TIE (bits): pcg_basic32 and mt19937 regenerated from include/frg/random.hpp on every run (Gen/Cxx_bits.v) equal the
   hand-written Bits/PrngModel.v.  Members are passed/returned explicitly: pcg (inc_, state_), mt (_ctr, _st). *)
From Coq Require Import List NArith ZArith.
From FV Require Import CxxLeaf.CxxSem Gen.Cxx_bits CxxLeaf.Tie_bits.
From FV Require Gen.Cxx_sort CxxLeaf.Tie_sort.
From FV Require Bits.PrngModel Bits.SortModel.
Import ListNotations.
Local Open Scope N_scope.

Theorem TIE_pcg_next : forall inc st, st < 2 ^ 64 ->
  pcg_next inc st = Ok (snd (PrngModel.pcg_next (PrngModel.mk_pcg st inc)),
                        PrngModel.pcg_state (fst (PrngModel.pcg_next (PrngModel.mk_pcg st inc)))).
Proof. exact gen_pcg_next_eq_model. Qed.
Print Assumptions TIE_pcg_next.
(* first output of the pcg32 demo (seed 42, seq 54): 0xa15c02b7 *)
Example TIE_pcg_next_ex : pcg_next 109 1753877967969059832 = Ok (0xa15c02b7, 3118741472915405573).
Proof. vm_compute. reflexivity. Qed.

Theorem TIE_pcg_seed : forall inc0 st0 seed seq,
  pcg_seed inc0 st0 seed seq = Ok (PrngModel.pcg_inc (PrngModel.pcg_seed seed seq), PrngModel.pcg_state (PrngModel.pcg_seed seed seq)).
Proof. exact gen_pcg_seed_eq_model. Qed.
Print Assumptions TIE_pcg_seed.
Example TIE_pcg_seed_ex : pcg_seed 7 7 42 54 = Ok (109, 1753877967969059832).
Proof. vm_compute. reflexivity. Qed.

Theorem TIE_pcg_bounded : forall fuel inc st bound, st < 2 ^ 64 -> bound < 2 ^ 32 ->
  draw_rel inc (pcg_bounded fuel inc st bound) (PrngModel.pcg_bounded fuel (PrngModel.mk_pcg st inc) bound).
Proof. exact gen_pcg_bounded_eq_model. Qed.
Print Assumptions TIE_pcg_bounded.
Example TIE_pcg_bounded_ex : pcg_bounded 5 109 1753877967969059832 6 = Ok (3, 3118741472915405573)
  /\ pcg_bounded 5 109 1 0 = UB UDivZero /\ pcg_bounded 0 109 1 6 = OutOfFuel.
Proof. vm_compute. repeat split; reflexivity. Qed.

Theorem TIE_mt_seed : forall fuel ctr st s, (624 <= fuel)%nat -> length st = 624%nat -> s < 2 ^ 32 ->
  mt_seed fuel ctr st s = Ok (Z.of_nat (PrngModel.mt_ctr (PrngModel.mt_seed s)), PrngModel.mt_st (PrngModel.mt_seed s)).
Proof. exact gen_mt_seed_eq_model. Qed.
Print Assumptions TIE_mt_seed.
Example TIE_mt_seed_ex :
  match mt_seed 624 0%Z (repeat 7 624) 5489 with Ok (c, st) => c = 624%Z /\ nth 1 st 0 = 1301868182 /\ nth 623 st 0 = 79981964 | _ => False end.
Proof. vm_compute. repeat split; reflexivity. Qed.

Theorem TIE_mt_next : forall fuel (c : nat) st, (397 <= fuel)%nat -> length st = 624%nat -> (c <= 624)%nat ->
  mt_next fuel (Z.of_nat c) st =
  Ok (snd (PrngModel.mt_next (PrngModel.mk_mt st c)),
      Z.of_nat (PrngModel.mt_ctr (fst (PrngModel.mt_next (PrngModel.mk_mt st c)))),
      PrngModel.mt_st (fst (PrngModel.mt_next (PrngModel.mk_mt st c)))).
Proof. exact gen_mt_next_eq_model. Qed.
Print Assumptions TIE_mt_next.
(* first output of std::mt19937 seeded with 5489 *)
Example TIE_mt_next_ex :
  match mt_seed 624 0%Z (repeat 0 624) 5489 with
  | Ok (c, st) => match mt_next 397 c st with Ok (r, c', _) => r = 3499211612 /\ c' = 1%Z | _ => False end
  | _ => False end.
Proof. vm_compute. split; reflexivity. Qed.

(* insertion_sort, instance int* / `<` (include/frg/algorithm.hpp; Gen/Cxx_sort.v): every int array, whole range *)
Theorem TIE_insertion_sort : forall fuel (l : list Z), (2 * length l + 1 <= fuel)%nat ->
  Cxx_sort.insertion_sort fuel l 0%Z (Z.of_nat (length l)) = Ok (SortModel.insertion_sort Tie_sort.lt l).
Proof. exact Tie_sort.gen_insertion_sort_eq_model. Qed.
Print Assumptions TIE_insertion_sort.
(* as frg sorts: descending for `<` (a swap happens when the earlier element is smaller) *)
Example TIE_insertion_sort_ex : Cxx_sort.insertion_sort 20 [3; -1; 4; 1; -5; 9]%Z 0%Z 6%Z = Ok [9; 4; 3; 1; -1; -5]%Z
  /\ Cxx_sort.insertion_sort 20 [3; 1]%Z 0%Z 3%Z = UB UOutOfBounds.
Proof. vm_compute. split; reflexivity. Qed.
