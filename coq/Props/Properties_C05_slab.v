(* C05, part 2: the CONCRETE slab pool of C01-C04 (coq/Slab/SlabModel.v) under concurrency.
   Statements only; proofs are in SlabConc/ConcSlab{State,Solo,Step,Proofs,Check}.v.

   System (SlabConc/ConcSlabModel.v): an arbitrary pool of threads, each running a script of allocate / free /
   deallocate / realloc / get_size calls; every call is the sequence of segments the source has at lock granularity
   (the lock shapes of the GENERATED skeleton, obligation conc_slab_shapes_match); the bodies are the functions of
   SlabModel.v themselves; one scheduler step = one segment (a locked body is one step, justified by
   C05_conc_slab_reduction below together with C05_mutual_exclusion_of_bodies / C05_lock_discipline of
   Properties_C05.v); a lock step is enabled only while the mutex is free; the scheduler is an arbitrary list of
   thread ids.  Hypotheses, per step (sched_ok): api -- a pointer argument is null or a live block that no OTHER
   in-flight call works on (it may have been allocated by any thread); policy -- a non-zero answer of map() is
   disjoint from every region the pool still owns (mapped frames and private regions of in-flight allocations) and
   sb-aligned for the aligned map.

   NOT claimed concurrently: C02's footprint bound (two threads that find a class empty both map a slab:
   Example C05_two_threads_find_class_empty exhibits 2 slabs for 2 live objects).
   Granularity gap that remains: the locked bodies are atomic steps here; their read/write-split form is proved
   at the abstract data level only (AllocModel.v, C05_free_lists_consistent). *)
From Coq Require Import List NArith Bool Arith String.
From FV Require Import SlabConc.Skeleton SlabConc.Shapes SlabConc.ConcModel.
From FV Require Import Slab.SlabModel Slab.SlabFail Slab.SlabInv Slab.SlabC01 SlabConc.ConcSlabModel SlabConc.ConcSlabState
  SlabConc.ConcSlabSolo SlabConc.ConcSlabStep SlabConc.ConcSlabProofs SlabConc.ConcSlabCheck SlabConc.ConcSlabSoloRun.
From FV Require Import SlabConc.SkeletonSound.
From FV Require Import Gen.SlabSkeleton.
From FV Require Gen.SlabSkeletonTR.
Import ListNotations.
Open Scope list_scope.
Local Open Scope N_scope.

(* ---- generated obligation, second instantiation of the source: slab.hpp preprocessed with -DFRG_SLAB_TRACK_REGIONS
        (the pool-wide region tree _frame_tree and its hooks exist only there; translator/gen_slabconc.py writes
        Gen/SlabSkeletonTR.v from that AST on every run).  The same checker, the same field -> lock table:
        _frame_tree / frame_hook / _usedPages only under _tree_mutex, bucket fields only under the bucket mutex, policy
        callbacks with no lock, no mutable static storage.  (_verify_integrity / _verify_frame_integrity are stubbed
        there: the translator checks that enable_checking is the constant false and that they are called only under
        `if(enable_checking)`.) ---- *)
Theorem skeleton_disciplined_track_regions : check_skeleton Gen.SlabSkeletonTR.actual = true.
Proof. vm_compute. reflexivity. Qed.
Print Assumptions skeleton_disciplined_track_regions.

Theorem C05_lock_discipline_track_regions :
  forall f tr, In f api -> api_trace Gen.SlabSkeletonTR.actual f tr -> disciplined s0 tr.
Proof. exact (check_skeleton_sound Gen.SlabSkeletonTR.actual skeleton_disciplined_track_regions). Qed.
Print Assumptions C05_lock_discipline_track_regions.

Example skeleton_track_regions_nonvacuous :
  existsb (fun x => String.eqb (fst x) "allocate") Gen.SlabSkeletonTR.actual = true /\
  Gen.SlabSkeletonTR.actual <> Gen.SlabSkeleton.actual.
Proof.
  split; [vm_compute; reflexivity|]. intro H.
  apply (f_equal (fun sk => Skeleton.lookup sk "free_huge_")) in H. vm_compute in H. discriminate H.
Qed.

(* ---- generated obligation: the lock shapes of the model's call paths (allocate: fast, slow, map failure, large,
        large map failure; free / deallocate: slab, large) are path shapes of the skeleton regenerated from
        /repo's slab.hpp.  (The realloc paths are matched by the extracted enumerator in comp/slabconc/check.py:
        [shapes actual "realloc"] takes minutes under vm_compute.) ---- *)
Theorem conc_slab_shapes_match :
  forallb (fun x : string * list cpc =>
             existsb (fun w => if list_eq_dec string_dec w (cshape_of_path (snd x)) then true else false)
                     (shapes Gen.SlabSkeleton.actual (fst x))) cmodel_paths = true.
Proof. vm_compute. reflexivity. Qed.
Print Assumptions conc_slab_shapes_match.

(* ---- the segments of one call, run without interference, are SlabModel.step: same state, same result, same
        callback list -- in every state (UB / FRG_ASSERT outcomes included).  So the sequential correspondence of
        C01-C04 (exact addresses, policy log, structure dumps) validates the bodies used here. ---- *)
Theorem C05_solo_call_is_sequential_step :
  forall c s o rest ou,
  exists j, (j <= 24)%nat /\
    diter c j s (mkThr Idle (o :: rest) [] ou)
    = (st_of (step c s o), mkThr Idle rest [] ((res_of (step c s o), cbs_of (step c s o)) :: ou)).
Proof. exact solo_run_is_step. Qed.
Print Assumptions C05_solo_call_is_sequential_step.

(* the same for the thread pool with its mutexes: from a state in which all mutexes are free, scheduling thread t alone
   (at most 24 slots) executes its next call exactly as the sequential pool does, leaves all mutexes free and does not
   touch any other thread.  (Every sequential history of C01-C04 is therefore an execution of this system.) *)
Theorem C05_solo_schedule_is_sequential_step :
  forall c g t o rest,
    (forall l, lk g l = None) -> pc (thr g t) = Idle -> todo (thr g t) = o :: rest -> acc (thr g t) = [] ->
    exists j, (j <= 24)%nat /\
      let g' := crun c (repeat t j) g in
      sh g' = st_of (step c (sh g) o)
      /\ thr g' t = mkThr Idle rest [] ((res_of (step c (sh g) o), cbs_of (step c (sh g) o)) :: outs (thr g t))
      /\ (forall l, lk g' l = None)
      /\ (forall t', t' <> t -> thr g' t' = thr g t').
Proof. exact solo_schedule_is_step. Qed.
Print Assumptions C05_solo_schedule_is_sequential_step.

(* ---- the reduction that justifies "one locked body = one step": in every interleaving, the micro-ops a thread
        has executed are accepted by the lock-discipline monitor of the control model (ConcModel.mrun) from "no lock
        held" and end in the lock state of the thread's pc; together with the exclusiveness of the mutexes
        (C05_conc_slab_locks) every Body of lock l is executed by the owner of l only, so no other thread can read or
        write bucket i (resp. _usedPages) between the sub-steps of a body of LB i (resp. LT). ---- *)
Theorem C05_conc_slab_reduction :
  forall c scripts sched t,
    mrun None (ctrace c sched (cinit c scripts) t)
    = Some (hold_of (pc (thr (crun c sched (cinit c scripts)) t))).
Proof. intros c scripts sched t. exact (trace_disciplined c sched (cinit c scripts) t). Qed.
Print Assumptions C05_conc_slab_reduction.

(* ---- C05_invariant_all_interleavings: for every configuration, every number of threads, every per-thread script,
        every scheduler whose steps satisfy the api / policy hypotheses: Inv_conc in the reached state --
        C01's invariant of the shared pool (ShInv), the accounting relation, well-formed private slabs / frames of
        in-flight allocations in regions disjoint from everything mapped and from each other, in-flight frees on
        blocks that are still live and pairwise different, the mutex state = what the pcs say, no call stopped. ---- *)
Theorem C05_invariant_all_interleavings :
  forall c nthr scripts sched,
    cfg_ok c = true -> (forall t, (nthr <= t)%nat -> scripts t = []) ->
    sched_ok c (cinit c scripts) sched ->
    Inv_conc c nthr (crun c sched (cinit c scripts)).
Proof. exact reachable_inv_conc. Qed.
Print Assumptions C05_invariant_all_interleavings.

(* ---- corollary: no address is live twice (whoever allocated it), no block is in the hands of two in-flight
        calls, and the block a call is about to return is live ---- *)
Theorem C05_no_block_live_twice :
  forall c nthr scripts sched,
    cfg_ok c = true -> (forall t, (nthr <= t)%nat -> scripts t = []) ->
    sched_ok c (cinit c scripts) sched ->
    let g := crun c sched (cinit c scripts) in
    NoDup (live_ptrs (sh g))
    /\ (forall t1 t2 q, t1 <> t2 -> In q (claims (pc (thr g t1))) -> In q (claims (pc (thr g t2))) -> False)
    /\ (forall t o, returning (pc (thr g t)) (RPtr o) -> In o (live_ptrs (sh g))).
Proof.
  intros c nthr scripts sched Hc Hs Hok g. pose proof (reachable_inv_conc c nthr scripts sched Hc Hs Hok) as I.
  split; [exact (no_block_live_twice c nthr _ I)|]. split; [exact (ic_claims_disj _ _ _ I)|].
  exact (returned_block_live c nthr _ I).
Qed.
Print Assumptions C05_no_block_live_twice.

(* ---- corollary: C01's conclusions hold across threads: every live block (= every block returned to any thread
        and not freed since, by any thread) is big enough, inside a mapped region, disjoint from every other live
        block of every thread, from every frame header and every free object, aligned, get_size = its size at
        birth; private regions of in-flight allocations contain no live block; no call ended in UB / FRG_ASSERT ---- *)
Theorem C05_C01_across_threads :
  forall c nthr scripts sched,
    cfg_ok c = true -> (forall t, (nthr <= t)%nat -> scripts t = []) ->
    sched_ok c (cinit c scripts) sched ->
    let g := crun c sched (cinit c scripts) in
    (forall b, In b (live (sh g)) ->
       N.max (bk_req b) 1 <= bk_size0 b
       /\ size_of c (sh g) (bk_p b) = bk_size0 b
       /\ inside_mapped (sh g) (bk_p b) (bk_size0 b)
       /\ (forall b', In b' (live (sh g)) -> bk_p b' <> bk_p b -> disjoint (bk_p b) (bk_size0 b) (bk_p b') (bk_size0 b'))
       /\ disjoint_from_bookkeeping c (sh g) (bk_p b) (bk_size0 b)
       /\ N.divide (align_of c (N.max (bk_req b) 1)) (bk_p b))
    /\ (forall t rg b, region_of c (pc (thr g t)) = Some rg -> In b (live (sh g)) ->
          bk_p b + bk_size0 b <= fst rg \/ fst rg + snd rg <= bk_p b)
    /\ (forall t r cbs, In (r, cbs) (outs (thr g t)) -> is_stop r = false).
Proof.
  intros c nthr scripts sched Hc Hs Hok g. pose proof (reachable_inv_conc c nthr scripts sched Hc Hs Hok) as I.
  pose proof (cfg_ok_facts c Hc) as F.
  split; [exact (c01_across_threads c nthr _ F I)|]. split; [exact (private_region_unused c nthr _ F I)|].
  exact (no_call_stopped c nthr _ I).
Qed.
Print Assumptions C05_C01_across_threads.

(* ---- corollary: no update of _usedPages is lost: whenever no call is in flight, numUsedPages() is exactly the
        pages of the slabs and live large frames (C03's accounting, across threads) ---- *)
Theorem C05_accounting_at_quiescence :
  forall c nthr scripts sched,
    cfg_ok c = true -> (forall t, (nthr <= t)%nat -> scripts t = []) ->
    sched_ok c (cinit c scripts) sched ->
    let g := crun c sched (cinit c scripts) in
    (forall t, pc (thr g t) = Idle) -> used (sh g) = pages c (sh g).
Proof.
  intros c nthr scripts sched Hc Hs Hok g. exact (accounting_quiescent c nthr _ (reachable_inv_conc c nthr scripts sched Hc Hs Hok)).
Qed.
Print Assumptions C05_accounting_at_quiescence.

(* ---- the mutexes in the concrete system: a lock is held exactly by the thread whose pc is inside its critical
        section (so two threads are never inside critical sections of the same lock), a body of lock l is executed
        by the holder of l, policy callbacks (map, unmap) are made holding no lock, and whenever some thread is
        not finished some thread has an enabled (non-stuttering) step ---- *)
Theorem C05_conc_slab_locks :
  forall c nthr scripts sched,
    cfg_ok c = true -> (forall t, (nthr <= t)%nat -> scripts t = []) ->
    sched_ok c (cinit c scripts) sched ->
    let g := crun c sched (cinit c scripts) in
    (forall l t, lk g l = Some t <-> hold_of (pc (thr g t)) = Some l)
    /\ (forall t1 t2 l, hold_of (pc (thr g t1)) = Some l -> hold_of (pc (thr g t2)) = Some l -> t1 = t2)
    /\ (forall t l, mop_of (pc (thr g t)) = Some (MBody l) -> lk g l = Some t)
    /\ (forall t fn l, mop_of (pc (thr g t)) = Some (MPolicy fn) -> lk g l <> Some t)
    /\ ((exists t, idle_done (thr g t) = false) -> exists t, cenabled g t).
Proof.
  intros c nthr scripts sched Hc Hs Hok g. pose proof (reachable_inv_conc c nthr scripts sched Hc Hs Hok) as I.
  split; [exact (ic_locks _ _ _ I)|]. split; [exact (holder_unique c nthr _ I)|].
  split; [exact (body_under_lock_conc c nthr _ I)|]. split; [exact (policy_without_locks_conc c nthr _ I)|].
  exact (no_deadlock_conc c nthr _ I).
Qed.
Print Assumptions C05_conc_slab_locks.

(* ---- the hypotheses are decidable for a pool of nthr threads: the executable check implies them (used by the
        Examples below and, extracted, by the replay of the harness's multi-threaded logs) ---- *)
Theorem C05_checked_run :
  forall c nthr scripts sched,
    cfg_ok c = true -> (forall t, (nthr <= t)%nat -> scripts t = []) ->
    sched_okb c nthr (cinit c scripts) sched = true ->
    sched_ok c (cinit c scripts) sched /\ Inv_conc c nthr (crun c sched (cinit c scripts)).
Proof. exact checked_run_inv. Qed.
Print Assumptions C05_checked_run.

(* ==== non-vacuity ==== *)
(* 64 KiB slabs, 10 classes (the harness's "small" policy), aligned map, no poisoning *)
Definition ec : cfg := mkCfg 4096 65536 65536 10 true false 40 104.

(* Two threads allocate 64 bytes; both take the bucket lock, find head_slb empty, drop the lock, call map (answers
   0x100000 and 0x200000), build their slab privately, account it under _tree_mutex, re-take the bucket lock and
   attach.  Both slabs end up in the partial tree of class 3 (sorted), each thread gets the last carved object of ITS
   slab, _usedPages = 2 * 16 pages exactly, the hypotheses hold at every step (so Inv_conc holds by the theorem) --
   and there are 2 slabs for 2 live objects of a class with 1022 objects per slab: C02's footprint bound
   (slabs <= ceil(peak / per_slab) = 1) is false here, as announced. *)
Definition e_scripts (t : tid) : list op :=
  match t with
  | 0%nat => [Alloc 64 (MapRet 1048576)]
  | 1%nat => [Alloc 64 (MapRet 2097152)]
  | _ => []
  end.
Definition e_sched : list tid :=
  [0;0;0;0; 1;1;1;1; 0;1; 1;0; 0;0;0; 1;1;1; 1;1;1; 0;0;0; 0;1]%nat.

Example e_scripts_fin : forall t, (2 <= t)%nat -> e_scripts t = [].
Proof. intros [|[|t]] H; [inversion H|inversion H; match goal with H' : (_ <= 0)%nat |- _ => inversion H' end|reflexivity]. Qed.

Example C05_two_threads_find_class_empty :
  cfg_ok ec = true /\
  let mid := crun ec [0;0;0;0; 1;1;1;1]%nat (cinit ec e_scripts) in
  (* both have seen the class empty and are about to call Policy::map, holding nothing *)
  (exists e0 e1, pc (thr mid 0%nat) = PA (AS4 3 64 64 e0) None /\ pc (thr mid 1%nat) = PA (AS4 3 64 64 e1) None) /\
  lk mid (lb 3) = None /\
  sched_ok ec (cinit ec e_scripts) e_sched /\
  let g := crun ec e_sched (cinit ec e_scripts) in
  Inv_conc ec 2 g /\
  bucket (sh g) 3 = [1048576; 2097152] /\
  map (fun t => map fst (outs (thr g t))) [0; 1]%nat = [[RPtr 1114048]; [RPtr 2162624]] /\
  map bk_p (live (sh g)) = [1114048; 2162624] /\
  used (sh g) = 32 /\ pages ec (sh g) = 32 /\
  cnum (sh g) 3 = 2 /\ nobj ec (b2s 3) = 1022 /\ List.length (live (sh g)) = 2%nat.
Proof.
  split; [vm_compute; reflexivity|]. cbv zeta.
  split; [eexists _, _; split; vm_compute; reflexivity|]. split; [vm_compute; reflexivity|].
  destruct (checked_run_inv ec 2 e_scripts e_sched) as [A B]; [vm_compute; reflexivity|exact e_scripts_fin|vm_compute; reflexivity|].
  split; [exact A|]. split; [exact B|]. vm_compute. repeat split; reflexivity.
Qed.

(* A contended run with ownership hand-over: after the run above, thread 1 deallocates the block thread 0
   allocated (A = 1114048) while thread 0 allocates again from the same class: thread 0 reaches its LockB 3 while
   thread 1 is inside free_in_slab_'s critical section and is blocked (two scheduler slots are stutters), gets in
   after the unlock and is handed A again (LIFO free list of the head slab).  Then thread 0 frees thread 1's block,
   thread 1 allocates and frees a large block (map / _tree_mutex / unmap).  The hypotheses hold at every step; at
   the end only A is live, nothing is private, the page counter is exact, the large frame is gone. *)
Definition e2_scripts (t : tid) : list op :=
  match t with
  | 0%nat => [Alloc 64 (MapRet 1048576); Alloc 64 MapFail; Free 2162624]
  | 1%nat => [Alloc 64 (MapRet 2097152); Dealloc 1114048 64; Alloc 70000 (MapRet 4194304); Free 4198400]
  | _ => []
  end.
Definition e2_sched : list tid :=
  (e_sched ++ [1;1; 0;0;0; 1;1; 0;0;0;0; 1] ++ [0;0;0;0;0] ++ [1;1;1;1;1;1;1] ++ [1;1;1;1;1;1])%nat.

Example e2_scripts_fin : forall t, (2 <= t)%nat -> e2_scripts t = [].
Proof. intros [|[|t]] H; [inversion H|inversion H; match goal with H' : (_ <= 0)%nat |- _ => inversion H' end|reflexivity]. Qed.

Example C05_contended_run :
  sched_ok ec (cinit ec e2_scripts) e2_sched /\
  let mid := crun ec (e_sched ++ [1;1; 0;0;0])%nat (cinit ec e2_scripts) in
  (* thread 1 inside the critical section of bucket 3, thread 0 at its LockB 3: blocked *)
  lk mid (lb 3) = Some 1%nat /\ pc (thr mid 1%nat) = PF (FS2 3 1114048) RUnit /\
  pc (thr mid 0%nat) = PA (AS0 3 64 64 MapFail) None /\ stutters mid 0%nat = true /\ stutters mid 1%nat = false /\
  let g := crun ec e2_sched (cinit ec e2_scripts) in
  Inv_conc ec 2 g /\
  map (fun t => map fst (outs (thr g t))) [0; 1]%nat
    = [[RUnit; RPtr 1114048; RPtr 1114048]; [RUnit; RPtr 4198400; RUnit; RPtr 2162624]] /\
  map bk_p (live (sh g)) = [1114048] /\ larges (sh g) = [] /\ used (sh g) = 32 /\ pages ec (sh g) = 32 /\
  (forall l, lk g l = None) /\
  (* thread 1's micro-op trace: slow-path allocate, free in a slab, large allocate, large free *)
  flat_map cobs_of_mop (ctrace ec e2_sched (cinit ec e2_scripts) 1%nat)
    = ["LB"; "UB"; "P:map"; "LT"; "UT"; "LB"; "UB";  "LB"; "UB";  "P:map"; "LT"; "UT";  "LT"; "UT"; "P:unmap"]%string /\
  mrun None (ctrace ec e2_sched (cinit ec e2_scripts) 1%nat) = Some None.
Proof.
  destruct (checked_run_inv ec 2 e2_scripts e2_sched) as [A B]; [vm_compute; reflexivity|exact e2_scripts_fin|vm_compute; reflexivity|].
  split; [exact A|]. cbv zeta.
  split; [vm_compute; reflexivity|]. split; [vm_compute; reflexivity|]. split; [vm_compute; reflexivity|].
  split; [vm_compute; reflexivity|]. split; [vm_compute; reflexivity|]. split; [exact B|].
  split; [vm_compute; reflexivity|]. split; [vm_compute; reflexivity|]. split; [vm_compute; reflexivity|].
  split; [vm_compute; reflexivity|]. split; [vm_compute; reflexivity|].
  split.
  { assert (P0 : pc (thr (crun ec e2_sched (cinit ec e2_scripts)) 0%nat) = Idle) by (vm_compute; reflexivity).
    assert (P1 : pc (thr (crun ec e2_sched (cinit ec e2_scripts)) 1%nat) = Idle) by (vm_compute; reflexivity).
    revert P0 P1 B. generalize (crun ec e2_sched (cinit ec e2_scripts)). intros g P0 P1 B l.
    destruct (lk g l) as [t|] eqn:E; [|reflexivity].
    exfalso. apply (ic_locks _ _ _ B) in E.
    assert (Hp : pc (thr g t) = Idle).
    { destruct t as [|[|t]]; [exact P0|exact P1|].
      assert (Hle : (2 <= S (S t))%nat) by (do 2 apply le_n_S; apply Nat.le_0_l).
      exact (idle_pc 2 g (ic_idle _ _ _ B) (S (S t)) Hle). }
    rewrite Hp in E. discriminate. }
  split; vm_compute; reflexivity.
Qed.

(* the solo theorem is not vacuous: one slow-path allocate run alone takes 13 segments and equals step *)
Example C05_solo_nonvacuous :
  diter ec 13 (init ec) (mkThr Idle [Alloc 64 (MapRet 1048576)] [] [])
  = (st_of (step ec (init ec) (Alloc 64 (MapRet 1048576))),
     mkThr Idle [] [] [(res_of (step ec (init ec) (Alloc 64 (MapRet 1048576))), cbs_of (step ec (init ec) (Alloc 64 (MapRet 1048576))))])
  /\ res_of (step ec (init ec) (Alloc 64 (MapRet 1048576))) = RPtr 1114048.
Proof. vm_compute. split; reflexivity. Qed.
