(* C16, basic_string: every block obtained from the allocator is given back exactly once and nothing is left
   allocated when the owners are destroyed (strings hold chars: there are no element lifetimes, only blocks).
   [run_ops (world0 ct) ops = Some w]: the script ops (any operations of Str/StrModel.op with any operands, including
   self-aliasing and detach followed by the caller's free) ran line by line from the empty world, every line
   ending in Ok.  [finish w] destroys every live string in slot order. *)
From Coq Require Import List NArith.
From FV Require Import Common.EventLog Str.StrModel Str.StrLogProofs.
Import ListNotations.

Theorem C16_str_log_wf : forall (ct : cty) (ops : list op) (w : world) (evs : list ev) (s' : st),
  run_ops (world0 ct) ops = Some w -> finish w = (Ok evs, s') -> wf_closed (sevs s') = true.
Proof. exact str_log_wf_closed. Qed.
Print Assumptions C16_str_log_wf.

(* the log of every prefix of a run is well-formed: no double free, no free of a foreign block, no id reused *)
Theorem C16_str_log_wf_prefix : forall (ct : cty) (ops : list op) (w : world),
  run_ops (world0 ct) ops = Some w -> wf_log (sevs (wst w)) = true.
Proof. exact str_log_wf_prefix. Qed.
Print Assumptions C16_str_log_wf_prefix.

Example C16_str_ex :   (* scs "a"; s0 + view "a" (D15: scratch freed); s0 += s0; s1 = s1; swap; resize; detach; end *)
  let ops := [OBuf [97%N; 0%N]; OSCstr 0 0%N; OSPlusV 0 (EPtrLen 0 0%N 1%N); OSAppV 0 (EStr 0); OSAssign 1 1; OSSwap 0 1;
              OSResize 0 5%N 205%N; OSDetach 1] in
  exists w evs s', run_ops (world0 char16_t) ops = Some w /\ finish w = (Ok evs, s') /\
    sevs s' = [EAlloc 2 2%N; EAlloc 3 3%N; EAlloc 4 3%N; EFree 3; EAlloc 5 3%N; EFree 2; EAlloc 6 3%N; EFree 4;
               EAlloc 7 6%N; EFree 6; EFree 5; EFree 7] /\ wf_closed (sevs s') = true.
Proof. eexists _, _, _. split; [vm_compute; reflexivity|]. split; [vm_compute; reflexivity|]. split; vm_compute; reflexivity. Qed.
