(* Properties_C06.v — C06: red-black tree (frg::rbtree, frg::rbtree_order): order, balance and neighbour
   links after any insert/remove.  Statements only; proofs are in coq/Rb/*.v.

   Model: Rb/RbModel.v instantiated with elements (key, id) : N * N, no aggregate ([pless], [pid], [pagg]).
   [less] is the comparator on keys, an arbitrary strict weak order (asymmetric, negatively transitive).
   Preconditions of the C++ API (insert only what is not contained, remove / insert-before only contained
   elements) are the hypotheses [ids_fresh] / [oops_ok]; node identities of contained elements are distinct. *)
From Coq Require Import NArith List Bool Sorted Lia PeanoNat.
From FV Require Import Rb.RbModel Rb.RbInorder Rb.RbInvariant Rb.RbLayout Rb.RbHistory Rb.RbAnnot.
Import ListNotations.

Section C06.
  Variable less : N -> N -> bool.
  Hypothesis less_asym : forall a b, less a b = true -> less b a = false.
  Hypothesis less_negtrans : forall a b c, less a b = false -> less b c = false -> less a c = false.

  Let lt : pelt -> pelt -> bool := pless less.
  Let lt_asym : forall a b, lt a b = true -> lt b a = false := fun a b => less_asym (fst a) (fst b).
  Let lt_negtrans : forall a b c, lt a b = false -> lt b c = false -> lt a c = false :=
    fun a b c => less_negtrans (fst a) (fst b) (fst c).

  (* in-order walk of insert = stable sorted insertion: x goes after every element that is not greater
     (so after all equal keys: insertion order among equal keys), before every greater one *)
  Theorem C06_inorder_insert : forall (x : pelt) (t : ptree),
    sorted lt (inorder t) -> inorder (insert lt pagg x t) = ins_stable lt x (inorder t).
  Proof. exact (inorder_insert pelt unit lt pagg lt_negtrans). Qed.

  Theorem C06_stable_position : forall (x : pelt) (l : list pelt), sorted lt l ->
    exists l1 l2, l = l1 ++ l2 /\ ins_stable lt x l = l1 ++ x :: l2
                  /\ Forall (fun e => lt x e = false) l1 /\ Forall (fun e => lt x e = true) l2.
  Proof. exact (ins_stable_position pelt lt lt_negtrans). Qed.

  Theorem C06_inorder_remove : forall (i : N) (t : ptree),
    NoDup (ids pid (inorder t)) -> inorder (remove pid pagg i t) = filter (not_id pid i) (inorder t).
  Proof. exact (inorder_remove pelt unit pid pagg). Qed.

  (* any history refines the obvious list specification *)
  Theorem C06_history_refines_sorted_list : forall ops : list (op pelt),
    ids_fresh pid lt ops ->
    let t : ptree := fold_left (rb_step pid lt pagg) ops E in
    let l := fold_left (list_step pid lt) ops [] in
    inorder t = l /\ sorted lt l /\ NoDup (ids pid l).
  Proof.
    exact (fun ops H => history_refines pelt unit pid lt pagg lt_asym lt_negtrans ops E [] eq_refl
                          (SSorted_nil _) (NoDup_nil _) H).
  Qed.

  (* the red-black colouring (root black, no red node with a red child, equal black height on all paths) *)
  Theorem C06_rb_invariant : forall (t : ptree), rb t ->
    (forall x, rb (insert lt pagg x t)) /\ (forall i, rb (remove pid pagg i t))
    /\ (forall b x, rb (insert_before pid pagg b x t)).
  Proof.
    exact (fun t H => conj (fun x => insert_rb pelt unit lt pagg x t H)
                      (conj (fun i => remove_rb pelt unit pid pagg i t H)
                            (fun b x => insert_before_rb pelt unit pid pagg b x t H))).
  Qed.

  Theorem C06_height : forall (t : ptree), rb t -> height t <= 2 * Nat.log2 (size t + 1).
  Proof. exact (rb_height pelt unit). Qed.

  Theorem C06_first_is_min : forall (t : ptree), first t = hd_error (inorder t).
  Proof. exact (first_is_head pelt unit). Qed.

  Theorem C06_first_minimal : forall (t : ptree) (x : pelt), sorted lt (inorder t) -> first t = Some x ->
    Forall (fun e => lt e x = false) (inorder t).
  Proof. exact (first_minimal pelt unit lt lt_asym). Qed.

  (* the comparator-less variant *)
  Theorem C06_order_variant : forall (x : pelt) (t : ptree),
    inorder (insert_before pid pagg None x t) = inorder t ++ [x]
    /\ forall l1 b l2, NoDup (ids pid (inorder t)) -> inorder t = l1 ++ b :: l2 ->
         inorder (insert_before pid pagg (Some (pid b)) x t) = l1 ++ x :: b :: l2.
  Proof.
    exact (fun x t => conj (inorder_insert_before_none pelt unit pid pagg x t)
                           (fun l1 b l2 => inorder_insert_before_some pelt unit pid pagg x t l1 b l2)).
  Qed.

  Theorem C06_order_history : forall ops : list (oop pelt),
    oops_ok pid [] ops ->
    let t : ptree := fold_left (rbo_step pid pagg) ops E in
    inorder t = fold_left (olist_step pid) ops []
    /\ NoDup (ids pid (inorder t))
    /\ rb t /\ height t <= 2 * Nat.log2 (size t + 1)
    /\ links_consistent pid (layout pid t) t.
  Proof. exact (order_history_all pelt unit pid pagg). Qed.

  (* hook fields: successor walk from first = in-order walk, pred/succ inverse, parent inverse of left/right,
     left/right/colour are those of the subtree roots, non-members have the null hook *)
  Theorem C06_links : forall (t : ptree), NoDup (ids pid (inorder t)) -> links_consistent pid (layout pid t) t.
  Proof. exact (layout_links_consistent pelt unit pid). Qed.

  Theorem C06_removed_hook_reset : forall (t : ptree) (i : N),
    NoDup (ids pid (inorder t)) -> layout pid (remove pid pagg i t) i = null_hook.
  Proof. exact (removed_hook_reset pelt unit pid pagg). Qed.

  Theorem C06_reinsert : forall (t : ptree) (x : pelt),
    rb t -> sorted lt (inorder t) -> NoDup (ids pid (inorder t)) ->
    let t' := insert lt pagg x (remove pid pagg (pid x) t) in
    inorder t' = ins_stable lt x (filter (not_id pid (pid x)) (inorder t))
    /\ sorted lt (inorder t') /\ NoDup (ids pid (inorder t'))
    /\ rb t' /\ height t' <= 2 * Nat.log2 (size t' + 1)
    /\ links_consistent pid (layout pid t') t'
    /\ layout pid (remove pid pagg (pid x) t) (pid x) = null_hook.
  Proof. exact (reinsert_all pelt unit pid lt pagg lt_asym lt_negtrans). Qed.

  (* DESIGN Appendix A: everything over every history *)
  Theorem C06_history : forall ops : list (op pelt),
    ids_fresh pid lt ops ->
    let t : ptree := fold_left (rb_step pid lt pagg) ops E in
    inorder t = fold_left (list_step pid lt) ops []          (* order, stability, membership *)
    /\ sorted lt (inorder t) /\ NoDup (ids pid (inorder t))
    /\ rb t /\ height t <= 2 * Nat.log2 (size t + 1)          (* colouring, balance *)
    /\ links_consistent pid (layout pid t) t                  (* parent/child, pred/succ inverse, walk *)
    /\ forall i, ~ In i (ids pid (inorder t)) -> layout pid t i = null_hook.
  Proof. exact (history_all pelt unit pid lt pagg lt_asym lt_negtrans). Qed.
End C06.

(* for ANY element type and aggregate function (interface of the interval tree, C07): every stored annotation
   is the aggregate of the node's element and its children's annotations, after every operation *)
Theorem C06_annotations_recomputed :
  forall (elt annot : Type) (id_of : elt -> N) (less : elt -> elt -> bool)
         (agg : elt -> option annot -> option annot -> annot) (t : tree elt annot),
    ann_ok agg t ->
    (forall x, ann_ok agg (insert less agg x t)) /\ (forall i, ann_ok agg (remove id_of agg i t))
    /\ (forall b x, ann_ok agg (insert_before id_of agg b x t)).
Proof.
  exact (fun elt annot id_of less agg t H =>
           conj (fun x => insert_ann elt annot id_of less agg x t H)
                (conj (fun i => remove_ann elt annot id_of less agg i t H)
                      (fun b x => insert_before_ann elt annot id_of less agg b x t H))).
Qed.

Print Assumptions C06_annotations_recomputed.
Print Assumptions C06_inorder_insert.
Print Assumptions C06_stable_position.
Print Assumptions C06_inorder_remove.
Print Assumptions C06_history_refines_sorted_list.
Print Assumptions C06_rb_invariant.
Print Assumptions C06_height.
Print Assumptions C06_first_is_min.
Print Assumptions C06_first_minimal.
Print Assumptions C06_order_variant.
Print Assumptions C06_order_history.
Print Assumptions C06_links.
Print Assumptions C06_removed_hook_reset.
Print Assumptions C06_reinsert.
Print Assumptions C06_history.

(* ---- non-vacuity: N.ltb is a strict weak order; a concrete history with duplicate keys, removal of the
   root and of a node with two children, and re-insertion of a removed node meets the hypotheses *)
Example C06_ltb_asym : forall a b, N.ltb a b = true -> N.ltb b a = false.
Proof. intros a b H. apply N.ltb_lt in H. apply N.ltb_ge. lia. Qed.
Example C06_ltb_negtrans : forall a b c, N.ltb a b = false -> N.ltb b c = false -> N.ltb a c = false.
Proof. intros a b c H1 H2. apply N.ltb_ge in H1, H2. apply N.ltb_ge. lia. Qed.

Definition demo_ops : list (op pelt) :=
  [OIns (5, 0); OIns (3, 1); OIns (5, 2); OIns (3, 3); OIns (7, 4); OIns (5, 5); OIns (1, 6);
   ORem 0; ORem 2; OIns (5, 0); ORem 6; OIns (3, 6)]%N.

Example C06_demo_ids_fresh : ids_fresh pid (pless N.ltb) demo_ops.
Proof. vm_compute. repeat split; intuition discriminate. Qed.

Example C06_demo_history :
  let t : ptree := fold_left (rb_step pid (pless N.ltb) pagg) demo_ops E in
  map pid (inorder t) = [1; 3; 6; 5; 0; 4]%N        (* keys 3 3 3 5 5 7: equal keys in insertion order *)
  /\ rb t /\ height t <= 2 * Nat.log2 (size t + 1)
  /\ links_consistent pid (layout pid t) t
  /\ walk_succ (layout pid t) 10 (option_map pid (first t)) = [1; 3; 6; 5; 0; 4]%N
  /\ layout pid t 2%N = null_hook.
Proof.
  pose proof (C06_history N.ltb C06_ltb_asym C06_ltb_negtrans demo_ops C06_demo_ids_fresh) as H.
  cbv zeta in H. destruct H as (_ & _ & _ & R & Hh & L & _).
  split; [vm_compute; reflexivity|]. split; [exact R|]. split; [exact Hh|]. split; [exact L|].
  split; vm_compute; reflexivity.
Qed.

Definition demo_oops : list (oop pelt) :=
  [OInsBefore None (0, 0); OInsBefore (Some 0) (0, 1); OInsBefore None (0, 2); OInsBefore (Some 2) (0, 3);
   OORem 0; OInsBefore (Some 1) (0, 0)]%N.
Example C06_demo_order :
  oops_ok pid [] demo_oops
  /\ map pid (inorder (fold_left (rbo_step pid pagg) demo_oops (E : ptree))) = [0; 1; 3; 2]%N.
Proof. split; [vm_compute; repeat split; intuition discriminate|vm_compute; reflexivity]. Qed.

Example C06_demo_rb_nonempty :
  exists t : ptree, rb t /\ size t = 6 /\ sorted (pless N.ltb) (inorder t) /\ NoDup (ids pid (inorder t)).
Proof.
  exists (fold_left (rb_step pid (pless N.ltb) pagg) demo_ops E).
  pose proof (C06_history N.ltb C06_ltb_asym C06_ltb_negtrans demo_ops C06_demo_ids_fresh) as H.
  cbv zeta in H. destruct H as (_ & S & Nd & R & _). repeat split; try assumption; apply R.
Qed.

(* an aggregate that is not trivial: subtree size; after the demo history the root stores 6 *)
Definition size_agg (_ : pelt) (l r : option N) : N :=
  (1 + match l with Some a => a | None => 0 end + match r with Some a => a | None => 0 end)%N.
Example C06_demo_annot :
  let t := fold_left (rb_step pid (pless N.ltb) size_agg) demo_ops E in
  ann_ok size_agg t /\ ann t = Some 6%N.
Proof. split; vm_compute; intuition reflexivity. Qed.
