(* Properties_C06_ptr.v — C06, pointer level: the assignment-by-assignment model of include/frg/rbtree.hpp
   (Rb/RbPtr.v: a heap of hooks + _root; FRG_ASSERT -> PAssert, null dereference -> PUB, loops with fuel)
   REFINES the functional red-black core about which Properties_C06.v speaks.  Statements only; proofs are in
   coq/Rb/RbPtrBase.v, RbPtrRefineRot.v, RbPtrRefineIns.v, RbPtrRefineFix.v, RbPtrRefineInsert.v, RbPtrRefineTop.v,
   RbPtrHistory.v.

     repr s t        the heap s represents the tree t: _root = root of t and EVERY hook has the parent / left /
                     right / predecessor / successor of [layout t] and, for members, its colour (the colour of a
                     non-member is stale in the C++ and not constrained);
     plug ctx sub    the tree with [sub] at the focus of the zipper context [ctx] (every node of every tree is the
                     focus of some context: C06_ptr_zipper_complete);
     reprs sk s t    the same as repr (C06_ptr_repr_forms), in separated form, with the colour of node sk exempted
                     (fix_insert is entered before the new node has a colour).

   All theorems hold for EVERY element type, annotation type, aggregate, comparator (no order axioms are needed for
   the refinement), every tree with pairwise distinct node ids, every heap.

   PROVED for all trees: rotateLeft / rotateRight (a), the link assignments of insert_left / insert_right with the
   predecessor/successor splice (b), the fix_insert loop = the functional up_ins chain, and tree_struct::insert as a
   whole (c), remove_half_leaf and replace_node (d), the fix_remove loop = the functional balL / balR chain and
   tree_crtp_struct::remove as a whole (e), histories of insertions AND removals, transfer of the C06 link-consistency /
   colouring / order theorems to the heap.
   Also proved: tree_order_struct::insert(before, node) refines insert_before (C06_ptr_insert_before_refines,
   C06_ptr_order_history), and the ANNOTATION heap: for aggregators whose "changed?" test reflects equality and whose
   aggregate is invariant under rotation ([agg_ok]; the C++ does not re-aggregate ancestors after a rotation, so for other
   aggregates the real code does not maintain the annotations either) the values written by aggregate_node / aggregate_path
   WITH its early stop are exactly the annotations of the functional result (C06_ptr_*_annot; interval instance in
   Properties_C07_ptr.v).  Nothing of rbtree.hpp is left compared-only. *)
From Coq Require Import NArith List Bool Lia PeanoNat Sorted.
From FV Require Import Rb.RbModel Rb.RbInorder Rb.RbInvariant Rb.RbLayout Rb.RbHistory Rb.RbPtr Rb.RbPtrBase Props.Properties_C06
  Rb.RbPtrRefineRot Rb.RbPtrRefineIns Rb.RbPtrRefineFix Rb.RbPtrRefineInsert Rb.RbPtrRemF Rb.RbPtrRefineRem
  Rb.RbPtrRefineUnlink Rb.RbPtrRefineReplace Rb.RbPtrRefineRemove Rb.RbPtrRefineTop Rb.RbPtrHistory Rb.RbAnnot
  Rb.RbPtrAnnot Rb.RbPtrAnnotRot Rb.RbPtrAnnotLoops Rb.RbPtrRefineAttach Rb.RbPtrRefineOrder.
Import ListNotations.

(* the two forms of the representation predicate agree *)
Theorem C06_ptr_repr_forms :
  forall (elt : Type) (id_of : elt -> N) (f : N -> hook) (rt : option N) (t : tree elt unit),
    NoDup (map id_of (inorder t)) -> (reprS id_of None f rt t <-> repr_f id_of f rt t).
Proof. exact reprS_repr. Qed.

Theorem C06_ptr_zipper_complete :
  forall (elt : Type) (id_of : elt -> N) (t : tree elt unit) par sub sp,
    occ id_of t par sub sp -> exists ctx, forall outer, plug (ctx ++ outer) sub = plug outer t.
Proof. exact (fun elt id_of => occ_plug elt id_of). Qed.

(* (a) rotateLeft(n) / rotateRight(n) on a heap that represents a tree = the heap that represents the rotated tree *)
Theorem C06_ptr_rotateLeft :
  forall (elt annot : Type) (id_of : elt -> N) agg aeqb (ek : N -> elt)
         ctx cu xl xu a1 cn v xn a2 y (s : pstate annot),
    NoDup (map id_of (inorder (plug ctx (T cu xl xu a1 (T cn v xn a2 y))))) ->
    repr_f id_of (p_hooks s) (p_root s) (plug ctx (T cu xl xu a1 (T cn v xn a2 y))) ->
    exists s', rotateLeft agg aeqb ek s (id_of xn) = POk s'
               /\ repr_f id_of (p_hooks s') (p_root s') (plug ctx (T cn (T cu xl xu tt v) xn tt y)).
Proof. exact rotateLeft_refines. Qed.

Theorem C06_ptr_rotateRight :
  forall (elt annot : Type) (id_of : elt -> N) agg aeqb (ek : N -> elt)
         ctx cu xl xu a1 cn v xn a2 y (s : pstate annot),
    NoDup (map id_of (inorder (plug ctx (T cu (T cn y xn a2 v) xu a1 xl)))) ->
    repr_f id_of (p_hooks s) (p_root s) (plug ctx (T cu (T cn y xn a2 v) xu a1 xl)) ->
    exists s', rotateRight agg aeqb ek s (id_of xn) = POk s'
               /\ repr_f id_of (p_hooks s') (p_root s') (plug ctx (T cn y xn tt (T cu v xu tt xl))).
Proof. exact rotateRight_refines. Qed.

(* (b) the seven assignments of insert_left / insert_right (child slot, parent, predecessor/successor splice)
   attach the new node as a leaf; its colour is not yet set *)
Theorem C06_ptr_insert_left_links :
  forall (elt annot : Type) (id_of : elt -> N) ctx c y r xn (s : pstate annot),
    NoDup (map id_of (inorder (plug (FL c y r :: ctx) (T Red E xn tt E)))) ->
    reprs elt annot id_of None s (plug (FL c y r :: ctx) E) ->
    reprs elt annot id_of (Some (id_of xn)) (insert_left_links s (id_of y) (id_of xn))
          (plug (FL c y r :: ctx) (T Red E xn tt E)).
Proof. exact insert_left_links_ok. Qed.

Theorem C06_ptr_insert_right_links :
  forall (elt annot : Type) (id_of : elt -> N) ctx c l y xn (s : pstate annot),
    NoDup (map id_of (inorder (plug (FR c l y :: ctx) (T Red E xn tt E)))) ->
    reprs elt annot id_of None s (plug (FR c l y :: ctx) E) ->
    reprs elt annot id_of (Some (id_of xn)) (insert_right_links s (id_of y) (id_of xn))
          (plug (FR c l y :: ctx) (T Red E xn tt E)).
Proof. exact insert_right_links_ok. Qed.

(* aggregate_path terminates within one step per ancestor and leaves hooks and _root alone *)
Theorem C06_ptr_aggregate_path :
  forall (elt annot : Type) (id_of : elt -> N) agg aeqb (ek : N -> elt) sk ctx rid fuel (s : pstate annot),
    cinv id_of sk (p_hooks s) ctx rid -> length ctx <= fuel ->
    exists s', aggregate_path agg aeqb ek fuel s (cpar id_of ctx) = POk s'
               /\ p_hooks s' = p_hooks s /\ p_root s' = p_root s.
Proof. exact aggregate_path_ok. Qed.

(* (c) the bottom-up loop fix_insert = the functional up_ins chain ([ins_up]: one up_ins per frame of the context),
   within length ctx + 1 iterations; [cok]: a red frame has a black frame above it *)
Theorem C06_ptr_fix_insert :
  forall (elt annot : Type) (id_of : elt -> N) agg aeqb (ek : N -> elt) fuel ctx c l x a r (s : pstate annot),
    NoDup (map id_of (inorder (plug ctx (T c l x a r)))) -> cok elt ctx ->
    reprs elt annot id_of (Some (id_of x)) s (plug ctx (T c l x a r)) -> length ctx < fuel ->
    exists s', fix_insert agg aeqb ek fuel s (id_of x) = POk s'
               /\ reprs elt annot id_of None s' (finish_ins (ins_up elt ctx (T c l x a r, IFix))).
Proof. exact fix_insert_ok. Qed.

(* tree_struct::insert: for every red-black tree t (any annotation), every heap that represents it, every
   comparator: the pointer-level insert returns normally within fuel = height t + 1 and the heap represents
   [insert less agg x t].  [ek] is the key memory: node (id x) holds x, member nodes hold their elements. *)
Theorem C06_ptr_insert_refines :
  forall (elt annot : Type) (id_of : elt -> N) (less : elt -> elt -> bool) agg aeqb (ek : N -> elt)
         (x : elt) (t : tree elt annot) (s : pstate annot) (fuel : nat),
    NoDup (id_of x :: map id_of (inorder t)) -> rb t -> ek (id_of x) = x -> keys_ok elt annot id_of ek t ->
    repr elt annot id_of s t -> height t < fuel ->
    exists s', p_insert less agg aeqb ek fuel s (id_of x) = POk s'
               /\ repr elt annot id_of s' (insert less agg x t)
               /\ NoDup (map id_of (inorder (insert less agg x t))).
Proof. exact p_insert_refines. Qed.

(* in particular on the heap [layout t] itself: p_insert x (layout t) "=" layout (insert x t) *)
Theorem C06_ptr_insert_layout :
  forall (elt annot : Type) (id_of : elt -> N) (less : elt -> elt -> bool) agg aeqb (ek : N -> elt) (a0 : annot)
         (x : elt) (t : tree elt annot),
    NoDup (id_of x :: map id_of (inorder t)) -> rb t -> ek (id_of x) = x -> keys_ok elt annot id_of ek t ->
    exists s', p_insert less agg aeqb ek (height t + 2) (layout_state elt annot id_of t a0) (id_of x) = POk s'
               /\ p_root s' = root_id id_of (insert less agg x t)
               /\ forall j, hook_sim (p_hooks s' j) (layout id_of (insert less agg x t) j).
Proof.
  intros elt annot id_of less agg aeqb ek a0 x t Nd Hrb Hx Hk.
  destruct (p_insert_refines elt annot id_of less agg aeqb ek x t (layout_state elt annot id_of t a0) (height t + 2)
              Nd Hrb Hx Hk (repr_layout_state elt annot id_of t a0) ltac:(lia)) as (s' & A & B & _).
  exists s'. split; [exact A|exact B].
Qed.

(* a heap that represents t has all the link consistency of C06_links *)
Theorem C06_ptr_links :
  forall (elt annot : Type) (id_of : elt -> N) (s : pstate annot) (t : tree elt annot),
    NoDup (map id_of (inorder t)) -> repr elt annot id_of s t ->
    ptr_consistent elt annot id_of (p_hooks s) t /\ p_root s = root_id id_of t.
Proof. exact repr_ptr_consistent. Qed.

(* (e) the loop fix_remove(n), n black at the focus: it only rearranges the CONTEXT — [rem_ctx ctx] is what the
   functional balL / balR chain makes of it ([fst (del_up ctx (S, true)) = plug (rem_ctx ctx) S] for every S) — and
   leaves predecessor / successor fields alone; [rem_ok]: the siblings on the way exist (black-height invariant) *)
Theorem C06_ptr_fix_remove :
  forall (elt annot : Type) (id_of : elt -> N) agg aeqb (ek : N -> elt) fuel ctx nl xn an nr (s : pstate annot),
    NoDup (map id_of (inorder (plug ctx (T Black nl xn an nr)))) -> rem_ok elt ctx ->
    treeSs elt annot id_of None s (plug ctx (T Black nl xn an nr)) -> length ctx < fuel ->
    exists s', fix_remove agg aeqb ek fuel s (id_of xn) = POk s'
               /\ treeSs elt annot id_of None s' (plug (rem_ctx ctx) (T Black nl xn an nr))
               /\ ps_same (p_hooks s) (p_hooks s').
Proof. exact fix_remove_t. Qed.

Theorem C06_ptr_fix_remove_functional :
  forall (elt : Type) (ctx : list (frame elt)) (t : tree elt unit),
    fst (del_up ctx (t, true)) = plug (rem_ctx ctx) t.
Proof. exact del_up_short. Qed.

(* (d) remove_half_leaf(node, child): node x with the single (possibly empty) child subtree ch ([hl]: on the right if
   side, else on the left) = the functional removal of that half leaf, [fst (del_up ctx (half c ch))] *)
Theorem C06_ptr_remove_half_leaf :
  forall (elt annot : Type) (id_of : elt -> N) agg aeqb (ek : N -> elt) side fuel ctx c ch x a (s : pstate annot),
    NoDup (map id_of (inorder (plug ctx (hl elt side c ch x a)))) ->
    reprs elt annot id_of None s (plug ctx (hl elt side c ch x a)) ->
    (snd (half c ch) = true -> rem_ok elt ctx) -> length ctx + 2 < fuel ->
    exists s', remove_half_leaf agg aeqb ek fuel s (id_of x) (root_id id_of ch) = POk s'
               /\ reprs elt annot id_of None s' (fst (del_up ctx (half c ch)))
               /\ (agg_ok agg aeqb -> tkeys elt id_of ek (plug ctx (hl elt side c ch x a)) ->
                   ainv elt annot id_of agg (p_annots s) (plug ctx (hl elt side c ch x a)) ->
                   ainv elt annot id_of agg (p_annots s') (fst (del_up ctx (half c ch)))).
Proof. exact remove_half_leaf_ok. Qed.

(* (d) replace_node(node, replacement): a non-member takes the member's place in tree and list; the member is reset *)
Theorem C06_ptr_replace_node :
  forall (elt annot : Type) (id_of : elt -> N) agg aeqb (ek : N -> elt) fuel ctx c l x a r xm (s : pstate annot),
    NoDup (id_of xm :: map id_of (inorder (plug ctx (T c l x a r)))) ->
    reprs elt annot id_of None s (plug ctx (T c l x a r)) -> length ctx <= fuel ->
    exists s', replace_node agg aeqb ek fuel s (id_of x) (id_of xm) = POk s'
               /\ reprs elt annot id_of None s' (plug ctx (T c l xm tt r))
               /\ (agg_ok agg aeqb -> ek (id_of xm) = xm -> tkeys elt id_of ek (plug ctx (T c l x a r)) ->
                   ainv elt annot id_of agg (p_annots s) (plug ctx (T c l x a r)) ->
                   ainv elt annot id_of agg (p_annots s') (plug ctx (T c l xm tt r))).
Proof. exact replace_node_ok. Qed.

(* tree_crtp_struct::remove: for every red-black tree t (any annotation), every member i, every heap that represents t:
   the pointer-level remove returns normally and the heap represents [remove id_of agg i t] (a stale colour stays in
   the removed hook, its five links are null) *)
Theorem C06_ptr_remove_refines :
  forall (elt annot : Type) (id_of : elt -> N) agg aeqb (ek : N -> elt)
         (i : N) (t : tree elt annot) (s : pstate annot) (fuel : nat),
    NoDup (map id_of (inorder t)) -> rb t -> In i (map id_of (inorder t)) ->
    repr elt annot id_of s t -> 2 * Nat.log2 (size t + 1) + 2 < fuel ->
    exists s', p_remove agg aeqb ek fuel s i = POk s'
               /\ repr elt annot id_of s' (remove id_of agg i t)
               /\ NoDup (map id_of (inorder (remove id_of agg i t))).
Proof. exact p_remove_refines. Qed.

(* histories: the pointer-level run of ANY history of insertions and removals from the empty heap (every operation valid
   when issued: [tops_ok] — insert only non-members, remove only members) returns normally with
   fuel > 2*log2(#ops+1)+2 and represents the functional run; no axioms on the comparator ... *)
Theorem C06_ptr_history :
  forall (elt annot : Type) (id_of : elt -> N) (less : elt -> elt -> bool) agg aeqb
         (ops : list (op elt)) (a0 : annot) (ek0 : N -> elt) (fuel : nat),
    tops_ok elt annot id_of less agg E ops -> 2 * Nat.log2 (length ops + 1) + 2 < fuel ->
    let t := fold_left (rb_step id_of less agg) ops E in
    exists s' ek', p_run elt annot id_of less agg aeqb fuel ops (p_empty a0) ek0 = POk (s', ek')
                   /\ repr elt annot id_of s' t /\ rb t /\ NoDup (map id_of (inorder t))
                   /\ keys_ok elt annot id_of ek' t
                   /\ ptr_consistent elt annot id_of (p_hooks s') t /\ p_root s' = root_id id_of t.
Proof.
  intros elt annot id_of less agg aeqb ops a0 ek0 fuel Hok Hf t.
  destruct (p_run_refines elt annot id_of less agg aeqb ops E (p_empty a0) ek0 fuel Hok (rb_E_ok elt annot) (NoDup_nil _))
    as (s' & ek' & A & B & C & D & K).
  - intros y [].
  - apply repr_empty.
  - cbn [size]. replace (length ops + 0 + 1) with (length ops + 1) by lia. exact Hf.
  - exists s', ek'. split; [exact A|]. split; [exact B|]. split; [exact C|]. split; [exact D|]. split; [exact K|].
    apply repr_ptr_consistent; assumption.
Qed.

(* ... hence every C06 theorem transfers to the heap the pointer code leaves behind: for a strict weak order and the
   documented precondition [ids_fresh] of Properties_C06, the successor walk over the REAL hook fields from first() is the
   contained multiset in comparator order with equal keys in insertion order, the colouring is red-black, the height is
   logarithmic, all links are consistent *)
Section C06_ptr_transfer.
  Variable less : N -> N -> bool.
  Hypothesis less_asym : forall a b, less a b = true -> less b a = false.
  Hypothesis less_negtrans : forall a b c, less a b = false -> less b c = false -> less a c = false.
  Let lt : pelt -> pelt -> bool := pless less.
  Let lt_asym : forall a b, lt a b = true -> lt b a = false := fun a b => less_asym (fst a) (fst b).
  Let lt_negtrans : forall a b c, lt a b = false -> lt b c = false -> lt a c = false :=
    fun a b c => less_negtrans (fst a) (fst b) (fst c).

  Theorem C06_ptr_history_transfer :
    forall (ops : list (op pelt)) (ek0 : N -> pelt) (fuel : nat),
      ids_fresh pid lt ops -> 2 * Nat.log2 (length ops + 1) + 2 < fuel ->
      exists (s' : ppstate) ek',
        p_run pelt unit pid lt pagg paeqb fuel ops pp_empty ek0 = POk (s', ek')
        /\ let t : ptree := fold_left (rb_step pid lt pagg) ops E in
           let l := fold_left (list_step pid lt) ops [] in
           inorder t = l /\ sorted lt l /\ NoDup (map pid l)
           /\ rb t /\ height t <= 2 * Nat.log2 (size t + 1)
           /\ walk_succ (p_hooks s') (size t) (option_map pid (first t)) = map pid l   (* successor walk on the heap *)
           /\ p_root s' = root_id pid t
           /\ ptr_consistent pelt unit pid (p_hooks s') t.
  Proof.
    intros ops ek0 fuel Hfresh Hf.
    assert (Hok : tops_ok pelt unit pid lt pagg E ops).
    { apply (ops_ok_tops pelt unit pid lt pagg lt_asym lt_negtrans ops E []); [reflexivity|constructor|constructor|exact Hfresh]. }
    destruct (p_run_refines pelt unit pid lt pagg paeqb ops E pp_empty ek0 fuel Hok (rb_E_ok pelt unit) (NoDup_nil _))
      as (s' & ek' & A & B & C & D & _).
    - intros y [].
    - apply repr_empty.
    - cbn [size]. replace (length ops + 0 + 1) with (length ops + 1) by lia. exact Hf.
    - exists s', ek'. split; [exact A|]. cbv zeta.
      destruct (history_all pelt unit pid lt pagg lt_asym lt_negtrans ops Hfresh) as (H1 & H2 & H3 & H4 & H5 & _).
      destruct (repr_ptr_consistent pelt unit pid s' _ D B) as [F G].
      rewrite <- H1. split; [reflexivity|]. split; [exact H2|]. split; [exact H3|]. split; [exact H4|]. split; [exact H5|].
      split; [apply F|]. split; [exact G|exact F].
  Qed.
End C06_ptr_transfer.

(* ================= the order variant (frg::rbtree_order) ================= *)
(* tree_order_struct::insert(before, node): the rightmost descent + insert_left / insert_right + fix_insert refine
   [insert_before] for every red-black tree, fuel height+1 (hooks: any aggregator; annotation heap: agg_ok) *)
Theorem C06_ptr_insert_before_refines :
  forall (elt annot : Type) (id_of : elt -> N) (less : elt -> elt -> bool) agg aeqb (ek : N -> elt)
         (before : option N) (x : elt) (t : tree elt annot) (s : pstate annot) (fuel : nat),
    NoDup (id_of x :: map id_of (inorder t)) -> rb t -> (forall b, before = Some b -> In b (map id_of (inorder t))) ->
    repr elt annot id_of s t -> height t < fuel ->
    exists s', p_insert_before agg aeqb ek fuel s before (id_of x) = POk s'
               /\ repr elt annot id_of s' (insert_before id_of agg before x t)
               /\ NoDup (map id_of (inorder (insert_before id_of agg before x t)))
               /\ (agg_ok agg aeqb -> ann_ok agg t -> ek (id_of x) = x -> keys_ok elt annot id_of ek t ->
                   areq id_of (p_annots s) t -> areq id_of (p_annots s') (insert_before id_of agg before x t)).
Proof. exact p_insert_before_refines. Qed.

(* any valid history of insert(before, x) / remove on the pointer level; with C06_order_history's precondition the
   in-order walk over the REAL hooks is the list specification (x immediately before `before`, last when null) *)
Theorem C06_ptr_order_history :
  forall (ops : list (oop pelt)) (ek0 : N -> pelt) (fuel : nat),
    oops_ok pid [] ops -> 2 * Nat.log2 (length ops + 1) + 2 < fuel ->
    exists (s' : ppstate) ek',
      p_orun pelt unit pid pagg paeqb fuel ops pp_empty ek0 = POk (s', ek')
      /\ let t : ptree := fold_left (rbo_step pid pagg) ops E in
         inorder t = fold_left (olist_step pid) ops []
         /\ rb t /\ height t <= 2 * Nat.log2 (size t + 1)
         /\ walk_succ (p_hooks s') (size t) (option_map pid (first t)) = map pid (fold_left (olist_step pid) ops [])
         /\ p_root s' = root_id pid t
         /\ ptr_consistent pelt unit pid (p_hooks s') t.
Proof.
  intros ops ek0 fuel Hok Hf.
  assert (Hto : toops_ok pelt unit pid pagg E ops).
  { apply (oops_ok_toops pelt unit pid pagg ops E []); [reflexivity|constructor|exact Hok]. }
  destruct (p_orun_refines pelt unit pid (pless N.ltb) pagg paeqb ops E pp_empty ek0 fuel Hto (rb_E_ok pelt unit) (NoDup_nil _))
    as (s' & ek' & A & B & C & D).
  - apply repr_empty.
  - cbn [size]. replace (length ops + 0 + 1) with (length ops + 1) by lia. exact Hf.
  - exists s', ek'. split; [exact A|]. cbv zeta.
    destruct (order_history_all pelt unit pid pagg ops Hok) as (H1 & H2 & H3 & H4 & _).
    destruct (repr_ptr_consistent pelt unit pid s' _ D B) as [F G].
    split; [exact H1|]. split; [exact H3|]. split; [exact H4|]. split; [rewrite <- H1; apply F|]. split; [exact G|exact F].
Qed.

(* ================= the annotation heap ================= *)
(* aggregate_path WITH its early stop: started at the innermost frame of a context that is consistent everywhere except
   at that frame, it re-establishes consistency of the whole context and touches only annotations of frame nodes *)
Theorem C06_ptr_aggregate_path_annot :
  forall (elt annot : Type) (id_of : elt -> N) agg aeqb (ek : N -> elt),
    (forall a b, aeqb a b = true <-> a = b) ->
    forall sk ctx L rid fuel (s : pstate annot),
      NoDup (cbefore id_of ctx ++ L ++ cafter id_of ctx) -> (forall i, rid = Some i -> In i L) ->
      cinv id_of sk (p_hooks s) ctx rid -> ckeys elt id_of ek ctx -> acopen elt annot id_of agg (p_annots s) ctx ->
      length ctx <= fuel ->
      exists s', aggregate_path agg aeqb ek fuel s (cpar id_of ctx) = POk s'
                 /\ p_hooks s' = p_hooks s /\ p_root s' = p_root s
                 /\ acinv elt annot id_of agg (p_annots s') ctx (option_map (p_annots s) rid)
                 /\ (forall j, ~ In j (cnodes elt id_of ctx) -> p_annots s' j = p_annots s j).
Proof. exact aggregate_path_annots. Qed.

(* a rotation + aggregate_node(u); aggregate_node(n) keeps a consistent annotation heap consistent (rotation-invariant agg) *)
Theorem C06_ptr_rotateLeft_annot :
  forall (elt annot : Type) (id_of : elt -> N) agg aeqb (ek : N -> elt),
    (forall a b, aeqb a b = true <-> a = b) ->
    (forall u n (A B C : option annot), agg n (Some (agg u A B)) C = agg u A (Some (agg n B C))) ->
    forall ctx cu xl xu a1 cn v xn a2 y (s s' : pstate annot),
      NoDup (map id_of (inorder (plug ctx (T cu xl xu a1 (T cn v xn a2 y))))) ->
      treeSs elt annot id_of None s (plug ctx (T cu xl xu a1 (T cn v xn a2 y))) ->
      ek (id_of xu) = xu -> ek (id_of xn) = xn ->
      ainv elt annot id_of agg (p_annots s) (plug ctx (T cu xl xu a1 (T cn v xn a2 y))) ->
      rotateLeft agg aeqb ek s (id_of xn) = POk s' ->
      treeSs elt annot id_of None s' (plug ctx (T cn (T cu xl xu tt v) xn tt y))
      /\ ainv elt annot id_of agg (p_annots s') (plug ctx (T cn (T cu xl xu tt v) xn tt y)).
Proof. exact rotateLeft_ainv. Qed.

(* insert / remove INCLUDING the annotation heap: [repr_a s t] = repr s t and every member's stored annotation is the
   one t carries; the result is repr_a of the functional result, whose annotations are [mk]-recomputed on the whole path *)
Theorem C06_ptr_insert_refines_annot :
  forall (elt annot : Type) (id_of : elt -> N) (less : elt -> elt -> bool) agg aeqb (ek : N -> elt)
         (x : elt) (t : tree elt annot) (s : pstate annot) (fuel : nat),
    agg_ok agg aeqb -> ann_ok agg t ->
    NoDup (id_of x :: map id_of (inorder t)) -> rb t -> ek (id_of x) = x -> keys_ok elt annot id_of ek t ->
    repr_a elt annot id_of s t -> height t < fuel ->
    exists s', p_insert less agg aeqb ek fuel s (id_of x) = POk s'
               /\ repr_a elt annot id_of s' (insert less agg x t)
               /\ NoDup (map id_of (inorder (insert less agg x t))).
Proof. exact p_insert_refines_a. Qed.

Theorem C06_ptr_remove_refines_annot :
  forall (elt annot : Type) (id_of : elt -> N) (less : elt -> elt -> bool) agg aeqb (ek : N -> elt)
         (i : N) (t : tree elt annot) (s : pstate annot) (fuel : nat),
    agg_ok agg aeqb -> ann_ok agg t -> keys_ok elt annot id_of ek t ->
    NoDup (map id_of (inorder t)) -> rb t -> In i (map id_of (inorder t)) -> repr_a elt annot id_of s t ->
    2 * Nat.log2 (size t + 1) + 2 < fuel ->
    exists s', p_remove agg aeqb ek fuel s i = POk s'
               /\ repr_a elt annot id_of s' (remove id_of agg i t)
               /\ NoDup (map id_of (inorder (remove id_of agg i t))).
Proof. exact p_remove_refines_a. Qed.

Theorem C06_ptr_history_annot :
  forall (elt annot : Type) (id_of : elt -> N) (less : elt -> elt -> bool) agg aeqb
         (ops : list (op elt)) (a0 : annot) (ek0 : N -> elt) (fuel : nat),
    agg_ok agg aeqb -> tops_ok elt annot id_of less agg E ops -> 2 * Nat.log2 (length ops + 1) + 2 < fuel ->
    let t := fold_left (rb_step id_of less agg) ops E in
    exists s' ek', p_run elt annot id_of less agg aeqb fuel ops (p_empty a0) ek0 = POk (s', ek')
                   /\ repr_a elt annot id_of s' t /\ ann_ok agg t /\ rb t /\ NoDup (map id_of (inorder t))
                   /\ keys_ok elt annot id_of ek' t.
Proof.
  intros elt annot id_of less agg aeqb ops a0 ek0 fuel Ao Hok Hf t.
  apply (p_run_refines_a elt annot id_of less agg aeqb ops E (p_empty a0) ek0 fuel Ao I Hok (rb_E_ok elt annot) (NoDup_nil _)).
  - intros y [].
  - split; [apply repr_empty|exact I].
  - cbn [size]. replace (length ops + 0 + 1) with (length ops + 1) by lia. exact Hf.
Qed.

Print Assumptions C06_ptr_repr_forms.
Print Assumptions C06_ptr_zipper_complete.
Print Assumptions C06_ptr_rotateLeft.
Print Assumptions C06_ptr_rotateRight.
Print Assumptions C06_ptr_insert_left_links.
Print Assumptions C06_ptr_insert_right_links.
Print Assumptions C06_ptr_aggregate_path.
Print Assumptions C06_ptr_fix_insert.
Print Assumptions C06_ptr_insert_refines.
Print Assumptions C06_ptr_insert_layout.
Print Assumptions C06_ptr_links.
Print Assumptions C06_ptr_history.
Print Assumptions C06_ptr_history_transfer.
Print Assumptions C06_ptr_fix_remove.
Print Assumptions C06_ptr_fix_remove_functional.
Print Assumptions C06_ptr_remove_half_leaf.
Print Assumptions C06_ptr_replace_node.
Print Assumptions C06_ptr_remove_refines.
Print Assumptions C06_ptr_insert_before_refines.
Print Assumptions C06_ptr_order_history.
Print Assumptions C06_ptr_aggregate_path_annot.
Print Assumptions C06_ptr_rotateLeft_annot.
Print Assumptions C06_ptr_insert_refines_annot.
Print Assumptions C06_ptr_remove_refines_annot.
Print Assumptions C06_ptr_history_annot.

(* ---- non-vacuity: concrete scripts through BOTH models by vm_compute *)
Definition ptr_demo_xs : list pelt :=
  [(5, 0); (3, 1); (5, 2); (3, 3); (7, 4); (5, 5); (1, 6); (9, 7); (2, 8); (8, 9); (5, 10); (4, 11)]%N.
Definition ptr_ek0 : N -> pelt := fun i => (0%N, i).
Definition ptr_pool : list N := [0; 1; 2; 3; 4; 5; 6; 7; 8; 9; 10; 11; 12; 13]%N.

(* 12 insertions (duplicates, all six fix_insert cases): the heap equals [layout] of the functional run on every pool
   node, field by field, including the colours and two never-inserted nodes *)
Example C06_ptr_demo_insert :
  match p_run pelt unit pid (pless N.ltb) pagg paeqb 12 (map (@OIns pelt) ptr_demo_xs) pp_empty ptr_ek0 with
  | POk (s', _) =>
      let t : ptree := fold_left (rb_step pid (pless N.ltb) pagg) (map (@OIns pelt) ptr_demo_xs) E in
      map (p_hooks s') ptr_pool = map (layout pid t) ptr_pool /\ p_root s' = root_id pid t
      /\ p_first 12 s' = POk (option_map pid (first t))
  | _ => False
  end.
Proof. vm_compute. repeat split; reflexivity. Qed.

Example C06_ptr_demo_hypotheses :
  ids_fresh pid (pless N.ltb) (map (@OIns pelt) ptr_demo_xs) /\ 2 * Nat.log2 (length (map (@OIns pelt) ptr_demo_xs) + 1) + 2 < 12.
Proof. split; [|vm_compute; lia]. vm_compute. repeat split; intuition discriminate. Qed.

(* a history with removals (root removal, node with two children, re-insertion of removed nodes) through p_remove:
   all links of all pool nodes and the colours of the members agree with the functional model after the whole script;
   the history meets the hypotheses of C06_ptr_history_transfer *)
Definition ptr_demo_ops : list (op pelt) :=
  [OIns (5, 0); OIns (3, 1); OIns (5, 2); OIns (3, 3); OIns (7, 4); OIns (5, 5); OIns (1, 6);
   ORem 0; ORem 2; OIns (5, 0); ORem 6; OIns (3, 6); ORem 3; ORem 4; OIns (0, 2)]%N.
Definition links_of (h : hook) := (h_parent h, h_left h, h_right h, h_pred h, h_succ h).
Example C06_ptr_demo_remove :
  match p_run pelt unit pid (pless N.ltb) pagg paeqb 12 ptr_demo_ops pp_empty ptr_ek0 with
  | POk (s', _) =>
      let t : ptree := fold_left (rb_step pid (pless N.ltb) pagg) ptr_demo_ops E in
      map (fun i => links_of (p_hooks s' i)) ptr_pool = map (fun i => links_of (layout pid t i)) ptr_pool
      /\ map (fun i => h_color (p_hooks s' i)) (map pid (inorder t)) = map (fun i => h_color (layout pid t i)) (map pid (inorder t))
      /\ p_root s' = root_id pid t
  | _ => False
  end.
Proof. vm_compute. repeat split; reflexivity. Qed.

Example C06_ptr_demo_remove_hypotheses :
  ids_fresh pid (pless N.ltb) ptr_demo_ops /\ 2 * Nat.log2 (length ptr_demo_ops + 1) + 2 < 12.
Proof. split; [|vm_compute; lia]. vm_compute. repeat split; intuition discriminate. Qed.

(* a rotation at an inner node of a concrete tree, through C06_ptr_rotateLeft's hypotheses *)
Example C06_ptr_demo_rotate :
  let t : ptree := fold_left (rb_step pid (pless N.ltb) pagg) (map (@OIns pelt) ptr_demo_xs) E in
  match t with
  | T _ _ _ _ (T cu xl xu _ (T cn v xn _ y)) =>
      match rotateLeft pagg paeqb ptr_ek0 (layout_state pelt unit pid t tt) (pid xn) with
      | POk s' => exists ctx, plug ctx (T cu xl xu tt (T cn v xn tt y)) = t
                              /\ map (p_hooks s') ptr_pool = map (layout pid (plug ctx (T cn (T cu xl xu tt v) xn tt y))) ptr_pool
      | _ => False
      end
  | _ => False
  end.
Proof. vm_compute. eexists [FR _ _ _]. vm_compute. split; reflexivity. Qed.

(* the order variant through p_insert_before / p_remove: Properties_C06.demo_oops plus removals *)
Definition ptr_demo_oops : list (oop pelt) :=
  [OInsBefore None (0, 0); OInsBefore (Some 0) (0, 1); OInsBefore None (0, 2); OInsBefore (Some 2) (0, 3);
   OORem 0; OInsBefore (Some 1) (0, 0); OInsBefore (Some 3) (0, 4); OInsBefore None (0, 5); OORem 1; OInsBefore (Some 0) (0, 1);
   OInsBefore (Some 5) (0, 6)]%N.
Example C06_ptr_demo_order :
  oops_ok pid [] ptr_demo_oops /\ 2 * Nat.log2 (length ptr_demo_oops + 1) + 2 < 12
  /\ match p_orun pelt unit pid pagg paeqb 12 ptr_demo_oops pp_empty ptr_ek0 with
     | POk (s', _) =>
         let t : ptree := fold_left (rbo_step pid pagg) ptr_demo_oops E in
         map (fun i => links_of (p_hooks s' i)) ptr_pool = map (fun i => links_of (layout pid t i)) ptr_pool
         /\ walk_succ (p_hooks s') 10 (option_map pid (first t)) = [1; 0; 4; 3; 2; 6; 5]%N
     | _ => False
     end.
Proof. split; [vm_compute; repeat split; intuition discriminate|]. split; [vm_compute; lia|]. vm_compute. split; reflexivity. Qed.

(* a non-trivial aggregate (subtree size: rotation-invariant, N.eqb reflects equality) through the pointer model with the
   early stop: after the 15-op history every member's annotation field equals the functional model's *)
Example C06_ptr_demo_annot :
  agg_ok size_agg N.eqb
  /\ match p_run pelt N pid (pless N.ltb) size_agg N.eqb 12 ptr_demo_ops (p_empty 0%N) ptr_ek0 with
     | POk (s', _) =>
         let t := fold_left (rb_step pid (pless N.ltb) size_agg) ptr_demo_ops E in
         areq pid (p_annots s') t /\ option_map (p_annots s') (p_root s') = Some 5%N
     | _ => False
     end.
Proof.
  split.
  - split; [intros a b; apply N.eqb_eq|]. intros u n A B C. unfold size_agg. destruct A, B, C; lia.
  - vm_compute. intuition reflexivity.
Qed.
