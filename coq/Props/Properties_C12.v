(* C12: spinlocks exclude, hand over in order, and lock guards stay balanced.
   Statements only; proofs in Locks/GuardProofs.v and Locks/SpinProofs.v. *)
From Coq Require Import List NArith ZArith Arith Bool.
From FV Require Import Locks.GuardModel Locks.GuardProofs Locks.SpinModel Locks.SpinProofs Gen.SpinOrders.
From FV Require Import Locks.RAMulti Locks.SpinWeak Locks.SpinWeakProofs.
Import ListNotations.

(* ---------------------------------------------------------------- spinlocks
   Model: Locks/SpinModel.v.  A state is reached by ANY schedule (list of thread ids, one atomic access per
   entry) from the initial state; n is the number of existing threads (steps of tid >= n do nothing) and must be
   below 2^32 (W); the uint32 wrap of next_ticket_/serving_ticket_ is part of the model; [base] lets a run start
   with both counters at base mod 2^32 (0 for a freshly constructed lock).  The theorems about exclusion, order
   and hand-over hold for every choice of memory orders [o]; the happens-before theorem is stated for the orders
   read from the source (Gen/SpinOrders.v, regenerated from spinlock.hpp on every check run). *)

(* at most one thread is between its successful acquisition and its release store *)
Theorem C12_ticket_mutex : forall o n base sched t1 t2, (N.of_nat n < W)%N ->
  let s := trun_at o n base sched in
  t_holding (t_pc (ti_real s) t1) = true -> t_holding (t_pc (ti_real s) t2) = true -> t1 = t2.
Proof. intros o n base sched t1 t2 Hn s. exact (ticket_mutex_inv o n base s t1 t2 (TInv_run o n base Hn sched)). Qed.
Print Assumptions C12_ticket_mutex.

Theorem C12_simple_mutex : forall o n sched t1 t2,
  let s := srun o n sched in
  s_holding (s_pc (si_real s) t1) = true -> s_holding (s_pc (si_real s) t2) = true -> t1 = t2.
Proof. intros o n sched t1 t2 s. exact (simple_mutex_inv o n s t1 t2 (SInv_run o n sched)). Qed.
Print Assumptions C12_simple_mutex.

(* the k-th acquisition is by the thread that drew the k-th ticket ([ti_draws] is appended to by every fetch_add,
   [ti_grants] by every successful load of serving_ticket_) *)
Theorem C12_ticket_fifo : forall o n base sched k t, (N.of_nat n < W)%N ->
  let s := trun_at o n base sched in
  nth_error (ti_grants s) k = Some t -> nth_error (ti_draws s) k = Some t.
Proof. intros o n base sched k t Hn s. exact (ticket_fifo_inv o n base s k t (TInv_run o n base Hn sched)). Qed.
Print Assumptions C12_ticket_fifo.

(* hand-over.  Ticket lock: whenever nobody holds the lock and some thread is spinning in lock(), there is a thread
   t whose NEXT step leaves lock() holding the lock, and whatever any other thread does in between, t still can
   and nobody else gets the lock -- so under any scheduler that eventually runs t, t acquires.
   Simple lock: whenever nobody holds the lock, every existing thread standing at its exchange acquires by that
   step, and one standing at the inner-loop load does so by its next two steps (if nobody else is scheduled
   in between: the lock is unfair, any waiter at its exchange may win). *)
Theorem C12_handover :
  (forall o n base sched, (N.of_nat n < W)%N ->
     let s := trun_at o n base sched in
     (forall u, t_holding (t_pc (ti_real s) u) = false) -> (exists u, t_waiting (t_pc (ti_real s) u) = true) ->
     exists t, t_can_acquire n s t /\ t_pc (ti_real (tstep o n s t)) t = TCrit /\
       forall u, u <> t -> let s' := tstep o n s u in
         t_can_acquire n s' t /\ (forall w, t_holding (t_pc (ti_real s') w) = false)) /\
  (forall o n sched,
     let s := srun o n sched in
     (forall u, s_holding (s_pc (si_real s) u) = false) ->
     (forall t, t < n -> (s_pc (si_real s) t = SOut \/ s_pc (si_real s) t = SXchg) ->
        s_pc (si_real (sstep o n s t)) t = SCrit) /\
     (forall t, t < n -> s_pc (si_real s) t = SLoad ->
        s_pc (si_real (sstep o n s t)) t = SXchg /\ s_pc (si_real (sstep o n (sstep o n s t) t)) t = SCrit)).
Proof.
  split.
  - intros o n base sched Hn s Hfree Hwait.
    destruct (ticket_handover_inv o n base Hn s (TInv_run o n base Hn sched) Hfree Hwait) as (t & Hca & Hothers).
    exists t. split; [exact Hca|]. split; [exact (t_can_acquire_step o n s t Hca)|]. exact Hothers.
  - intros o n sched s Hfree.
    destruct (simple_handover_inv o n s (SInv_run o n sched) Hfree) as (A & B).
    split; [exact A|]. intros t Hlt Hpc. destruct (B t Hlt Hpc) as (B1 & _ & B3). split; assumption.
Qed.
Print Assumptions C12_handover.

(* acquire/release: with the memory orders of the source, the vector clock of the thread entering the (k+1)-st
   critical section (right after its acquiring access) dominates the clock the k-th holder had at its release store.
   The recorders are faithful: one acquisition clock per grant, one release clock per release store, and the
   number of grants is the number of releases or one more. *)
Theorem C12_acq_rel :
  (forall n base sched, (N.of_nat n < W)%N ->
     let s := trun_at src_orders n base sched in
     (forall k, S k < length (ti_acqclk s) -> cle (nth k (ti_relclk s) cbot) (nth (S k) (ti_acqclk s) cbot)) /\
     length (ti_acqclk s) = length (ti_grants s) /\ length (ti_relclk s) = ti_released s /\
     (length (ti_grants s) = ti_released s \/ length (ti_grants s) = S (ti_released s))) /\
  (forall n sched,
     let s := srun src_orders n sched in
     (forall k, S k < length (si_acqclk s) -> cle (nth k (si_relclk s) cbot) (nth (S k) (si_acqclk s) cbot)) /\
     length (si_acqclk s) = length (si_grants s) /\ length (si_relclk s) = si_released s /\
     (length (si_grants s) = si_released s \/ length (si_grants s) = S (si_released s))).
Proof.
  pose proof orders_sufficient as Hs. unfold sufficient in Hs.
  apply andb_prop in Hs as (Hs & H4). apply andb_prop in Hs as (Hs & H3). apply andb_prop in Hs as (H1 & H2).
  split.
  - intros n base sched Hn s. split.
    + exact (ticket_acq_rel_inv src_orders n base s (TInv_run src_orders n base Hn sched) H1 H2).
    + exact (ticket_recorders_inv src_orders n base Hn s (TInv_run src_orders n base Hn sched)).
  - intros n sched s. split.
    + exact (simple_acq_rel_inv src_orders n s (SInv_run src_orders n sched) H3 H4).
    + exact (simple_recorders_inv src_orders n s (SInv_run src_orders n sched)).
Qed.
Print Assumptions C12_acq_rel.

(* the holder always sees is_locked() = true, also across the uint32 wrap (after fix 16d78ab) *)
Theorem C12_ticket_is_locked : forall o n base sched t, (N.of_nat n < W)%N ->
  let s := trun_at o n base sched in
  t_holding (t_pc (ti_real s) t) = true -> t_is_locked (ti_real s) = true.
Proof. intros o n base sched t Hn s. exact (ticket_is_locked_inv o n base Hn s t (TInv_run o n base Hn sched)). Qed.
Print Assumptions C12_ticket_is_locked.

(* the extracted real machines ([trstep]/[srstep], compared field by field with the real objects) are exactly the real
   component of the instrumented machines the theorems above talk about *)
Theorem C12_model_erasure :
  (forall o n base sched,
     ti_real (trun_at o n base sched) = fold_left (trstep n) sched (treal_init (N.modulo base W) (N.modulo base W))) /\
  (forall o n sched, si_real (srun o n sched) = fold_left (srstep n) sched sreal_init).
Proof. split; [exact trun_real|exact srun_real]. Qed.
Print Assumptions C12_model_erasure.

(* ---- non-vacuity.  3 threads, both counters start at 2^32-2, the run crosses the wrap: threads 0,1,2 draw
   tickets 2^32-2, 2^32-1, 0; thread 2 polls in vain; 0 acquires, releases; 1 acquires; 0 draws again (ticket 1);
   1 releases; 2 acquires (its ticket is 0 = wrapped serving). *)
Definition ex_sched : list tid := [0; 1; 2; 2; 0; 1; 0; 0; 1; 0; 1; 1; 2; 2]%nat.
Definition ex_base : N := 4294967294%N.

Example C12_ticket_example :
  let s := trun_at src_orders 3 ex_base ex_sched in
  ti_draws s = [0; 1; 2; 0]%nat /\ ti_grants s = [0; 1; 2]%nat /\ ti_released s = 2%nat /\
  t_next (ti_real s) = 2%N /\ t_serving (ti_real s) = 0%N /\
  t_holding (t_pc (ti_real s) 2) = true /\ t_is_locked (ti_real s) = true /\
  (* mutex hypothesis met: 2 holds; fifo hypothesis met: 3 grants; acq_rel hypothesis met with non-trivial clocks:
     the 3rd acquisition (by thread 2) has seen 4 steps of thread 0 and 5 of thread 1 *)
  length (ti_acqclk s) = 3%nat /\
  (nth 1 (ti_relclk s) cbot 1%nat = 5 /\ nth 2 (ti_acqclk s) cbot 0%nat = 4 /\ nth 2 (ti_acqclk s) cbot 1%nat = 5)%nat.
Proof. vm_compute. repeat split; reflexivity. Qed.

(* hand-over hypothesis met: after 0 released, nobody holds, 1 and 2 spin; the thread that can acquire is 1 *)
Example C12_handover_example :
  let s := trun_at src_orders 3 ex_base [0; 1; 2; 0; 0; 0]%nat in
  (forall u, u < 3 -> t_holding (t_pc (ti_real s) u) = false) /\ t_waiting (t_pc (ti_real s) 2) = true /\
  t_pc (ti_real (tstep src_orders 3 s 1)) 1%nat = TCrit /\ t_pc (ti_real (tstep src_orders 3 s 2)) 2%nat = TSpin 0.
Proof.
  split; [|vm_compute; repeat split; reflexivity].
  intros u Hu. destruct u as [|[|[|u]]]; [vm_compute; reflexivity ..|]. exfalso.
  do 3 apply Nat.succ_lt_mono in Hu. inversion Hu.
Qed.

(* the orders matter: with a relaxed unlock store (everything else as in the source) the clock of the second holder
   does NOT dominate the first holder's release clock on the same schedule *)
Example C12_acq_rel_needs_release_store :
  let weak := mk_orders Relaxed Acquire Relaxed Relaxed Acquire Relaxed Relaxed in
  let s := trun_at weak 2 0 [0; 0; 1; 0; 0; 1]%nat in
  length (ti_acqclk s) = 2%nat /\ nth 0 (ti_relclk s) cbot 0%nat = 4%nat /\ nth 1 (ti_acqclk s) cbot 0%nat = 0%nat.
Proof. vm_compute. repeat split; reflexivity. Qed.

Example C12_simple_example :
  let s := srun src_orders 3 [0; 1; 2; 1; 0; 1; 2; 1; 1; 2]%nat in
  si_grants s = [0; 1; 2]%nat /\ si_released s = 2%nat /\ s_holding (s_pc (si_real s) 2) = true /\
  s_lock (si_real s) = true /\ length (si_acqclk s) = 3%nat /\
  (nth 1 (si_relclk s) cbot 1%nat = 5 /\ nth 2 (si_acqclk s) cbot 1%nat = 5 /\ nth 2 (si_acqclk s) cbot 2%nat = 3)%nat.
Proof. vm_compute. repeat split; reflexivity. Qed.


(* ---------------------------------------------------------------- spinlocks over a memory with STALE reads
   Model: Locks/SpinWeak.v over Locks/RAMulti.v (multi-writer release/acquire memory: per location a modification
   order of messages, per thread a view; an atomic load returns ANY message at or after the thread's view, chosen by
   the schedule entry (thread, choice) -- choice 0 = the last message = the SC machines above; stores append; RMWs read
   the last message and continue its release sequence).  Every theorem is for every schedule AND every choice stream.
   [stale_bounded n sc]: no load returns a message that is 2^32 - n or more messages behind the last one.  It is only
   needed for the ticket lock and only because of the uint32 wrap: C++11 does not forbid a thread that never read
   serving_ticket_ from reading a message that is 2^32 releases old, which carries its own ticket value again. *)

Theorem C12_ticket_mutex_weak : forall o n base sc t1 t2, (N.of_nat n < W)%N -> stale_bounded n sc ->
  let s := wt_run_at o n base sc in
  w_holding (wt_pc s t1) = true -> w_holding (wt_pc s t2) = true -> t1 = t2.
Proof. intros o n base sc t1 t2 Hn Hb s. exact (TW1_mutex n base s t1 t2 (TW1_run o n base Hn sc Hb)). Qed.
Print Assumptions C12_ticket_mutex_weak.

Theorem C12_simple_mutex_weak : forall o n sc t1 t2,
  let s := ws_run o n sc in
  ws_holding (ws_pc s t1) = true -> ws_holding (ws_pc s t2) = true -> t1 = t2.
Proof. intros o n sc t1 t2 s. exact (SW1_mutex n s t1 t2 (SW1_run o n sc)). Qed.
Print Assumptions C12_simple_mutex_weak.

Theorem C12_ticket_fifo_weak : forall o n base sc k t, (N.of_nat n < W)%N -> stale_bounded n sc ->
  let s := wt_run_at o n base sc in
  nth_error (wt_grants s) k = Some t -> nth_error (wt_draws s) k = Some t.
Proof. intros o n base sc k t Hn Hb s. exact (TW1_fifo n base s k t (TW1_run o n base Hn sc Hb)). Qed.
Print Assumptions C12_ticket_fifo_weak.

(* acquire/release with the orders of the source: right after the (k+1)-st acquisition the acquirer's VIEW includes the
   view the k-th holder had right after its release store (so everything the previous holder had written or seen is
   visible); consequently the plain access inside the critical section never races ([race] stays false: the holder's
   view covers the last write to the protected data).  The recorders are faithful. *)
Theorem C12_acq_rel_weak :
  (forall n base sc, (N.of_nat n < W)%N -> stale_bounded n sc ->
     let s := wt_run_at src_orders n base sc in
     (forall k, S k < length (wt_acqview s) -> vle (nth k (wt_relview s) vbot) (nth (S k) (wt_acqview s) vbot)) /\
     wt_race s = false /\
     (forall t, w_holding (wt_pc s t) = true -> wt_view s t WData = last_idx (wt_mem s) WData) /\
     length (wt_acqview s) = length (wt_grants s) /\ length (wt_relview s) = wt_released s) /\
  (forall n sc,
     let s := ws_run src_orders n sc in
     (forall k, S k < length (ws_acqview s) -> vle (nth k (ws_relview s) vbot) (nth (S k) (ws_acqview s) vbot)) /\
     ws_race s = false /\
     (forall t, ws_holding (ws_pc s t) = true -> ws_view s t WData = last_idx (ws_mem s) WData) /\
     length (ws_acqview s) = length (ws_grants s) /\ length (ws_relview s) = ws_released s).
Proof.
  pose proof orders_sufficient as Hs. unfold sufficient in Hs.
  apply andb_prop in Hs as (Hs & H4). apply andb_prop in Hs as (Hs & H3). apply andb_prop in Hs as (H1 & H2).
  split.
  - intros n base sc Hn Hb s.
    pose proof (TW1_run src_orders n base Hn sc Hb) as I. pose proof (TW2_run src_orders n base Hn H1 H2 sc Hb) as J.
    split; [exact (w_hb _ J)|]. split; [exact (w_norace _ J)|]. split; [exact (w_hdata _ J)|].
    split; [exact (w_alen _ _ _ I)|exact (w_rlen _ _ _ I)].
  - intros n sc s. destruct (SW12_run src_orders n H3 H4 sc) as (I & J).
    split; [exact (sw_hb _ J)|]. split; [exact (sw_norace _ J)|]. split; [exact (sw_hdata _ J)|].
    split; [exact (sw_alen _ _ I)|exact (sw_rlen _ _ I)].
Qed.
Print Assumptions C12_acq_rel_weak.

(* hand-over under a fair memory.  Ticket lock: lock free + somebody spinning => the head waiter t is ready (the LAST
   message of serving_ticket_ carries its ticket); whatever the other threads do and however stale t's own loads are
   meanwhile, nobody else can acquire, and as soon as the rest of the schedule contains (t, 0) -- t scheduled with a
   load that reads the last message: fair scheduler + fair memory -- t has left lock().
   Simple lock: lock free => a thread at its exchange acquires by that step whatever the choice (an RMW reads the
   last message); a thread in the inner loop returns to the exchange as soon as one of its loads reads the last
   message; and if a thread at its exchange is scheduled at all in the rest of the schedule, somebody acquires. *)
Theorem C12_handover_weak :
  (forall o n base sc, (N.of_nat n < W)%N -> stale_bounded n sc ->
     let s := wt_run_at o n base sc in
     (forall u, w_holding (wt_pc s u) = false) -> (exists u, w_waiting (wt_pc s u) = true) ->
     exists t, w_ready n s t /\
       forall rest, stale_bounded n rest -> In (t, 0) rest ->
         exists p q, rest = p ++ q /\ wt_pc (fold_left (wt_step o n) p s) t = WCrit) /\
  (forall o n sc,
     let s := ws_run o n sc in
     (forall u, ws_holding (ws_pc s u) = false) ->
     (forall t c, t < n -> (ws_pc s t = WSOut \/ ws_pc s t = WSXchg) -> ws_pc (ws_step o n s (t, c)) t = WSCrit) /\
     (forall t, t < n -> ws_pc s t = WSLoad -> ws_pc (ws_step o n s (t, 0)) t = WSXchg) /\
     (forall t rest, t < n -> (ws_pc s t = WSOut \/ ws_pc s t = WSXchg) -> (exists c, In (t, c) rest) ->
        exists p q u, rest = p ++ q /\ ws_holding (ws_pc (fold_left (ws_step o n) p s) u) = true)).
Proof.
  split.
  - intros o n base sc Hn Hb s Hfree Hwait.
    pose proof (TW1_run o n base Hn sc Hb) as I.
    exists (whead s). split; [exact (w_ready_exists n base Hn s I Hfree Hwait)|].
    intros rest Hbr Hin.
    exact (w_handover_eventually o n base Hn rest s (whead s) I Hfree (w_ready_exists n base Hn s I Hfree Hwait) Hbr Hin).
  - intros o n sc s Hfree. pose proof (SW1_run o n sc) as I. split; [|split].
    + intros t c Hlt Hpc. exact (ws_xchg_acquires o n s t c I Hfree Hlt Hpc).
    + intros t Hlt Hpc. exact (proj1 (ws_load_last o n s t I Hfree Hlt Hpc)).
    + intros t rest Hlt Hpc Hin. exact (ws_handover_eventually o n rest s t I Hfree Hlt Hpc Hin).
Qed.
Print Assumptions C12_handover_weak.

(* ---- non-vacuity (weak memory).  3 threads, counters start at 2^32-2.  Thread 2 (ticket 0) polls serving_ticket_
   with stale choices 5, 1, 3, 1, 2, 1 while threads 0 and 1 take and release the lock; after 12 entries serving_ticket_
   has the messages 2^32-2, 2^32-1 but thread 2 has still only seen message 0.  At the end thread 2 holds, the
   modification order of serving_ticket_ is 2^32-2, 2^32-1, 0 (wrapped), grants = draws, no race, and thread 2's view
   covers both earlier critical-section writes (data message 2). *)
Definition wk_sched : sched :=
  [(0,0);(1,0);(2,0);(2,0);(0,0);(2,5);(0,0);(2,1);(0,0);(2,3);(0,0);(2,1);(1,1);(1,0);(2,2);(1,0);(1,0);(1,0);(2,1);(2,0)]%nat.

Example wk_sched_bounded : stale_bounded 3 wk_sched.
Proof. unfold stale_bounded, wk_sched. repeat constructor; vm_compute; discriminate. Qed.

Example C12_weak_stale_example :
  (let s := wt_run_at src_orders 3 ex_base (firstn 12 wk_sched) in
   map (@mval wloc) (wt_mem s WServing) = [4294967294; 4294967295]%N /\
   wt_pc s 2%nat = WSpin 0 /\ wt_view s 2%nat WServing = 0%nat) /\
  (let s := wt_run_at src_orders 3 ex_base wk_sched in
   map (@mval wloc) (wt_mem s WServing) = [4294967294; 4294967295; 0]%N /\
   wt_grants s = [0; 1; 2]%nat /\ wt_draws s = [0; 1; 2]%nat /\ wt_pc s 2%nat = WCrit /\ wt_race s = false /\
   length (wt_acqview s) = 3%nat /\ nth 1 (wt_relview s) vbot WData = 2%nat /\ nth 2 (wt_acqview s) vbot WData = 2%nat /\
   wt_view s 2%nat WData = last_idx (wt_mem s) WData).
Proof. vm_compute. repeat split; reflexivity. Qed.

(* each of the four orders in [sufficient] is needed: weakening any one of them to relaxed gives a run in which the
   second holder enters its critical section WITHOUT the first holder's critical-section write in its view (its view
   of the data is still message 0 while message 1 exists), i.e. the plain access races *)
Example C12_acq_rel_weak_needs_orders :
  let sc_t : sched := [(0,0);(0,0);(0,0);(1,0);(0,0);(0,0);(1,0);(1,0)]%nat in
  let sc_s : sched := [(0,0);(0,0);(1,0);(0,0);(1,0);(1,0);(1,0)]%nat in
  let relaxed_unlock_store := mk_orders Relaxed Acquire Relaxed Relaxed Acquire Relaxed Release in
  let relaxed_spin_load := mk_orders Relaxed Relaxed Relaxed Release Acquire Relaxed Release in
  let relaxed_exchange := mk_orders Relaxed Acquire Relaxed Release Relaxed Relaxed Release in
  let relaxed_simple_store := mk_orders Relaxed Acquire Relaxed Release Acquire Relaxed Relaxed in
  (forall o, In o [relaxed_unlock_store; relaxed_spin_load] ->
     let s := wt_run_at o 2 0 sc_t in
     wt_grants s = [0; 1]%nat /\ nth 0 (wt_relview s) vbot WData = 1%nat /\ nth 1 (wt_acqview s) vbot WData = 0%nat /\ wt_race s = true) /\
  (forall o, In o [relaxed_exchange; relaxed_simple_store] ->
     let s := ws_run o 2 sc_s in
     ws_grants s = [0; 1]%nat /\ nth 0 (ws_relview s) vbot WData = 1%nat /\ nth 1 (ws_acqview s) vbot WData = 0%nat /\ ws_race s = true) /\
  (* ... and with the orders of the source the same schedules are fine *)
  wt_race (wt_run_at src_orders 2 0 sc_t) = false /\ ws_race (ws_run src_orders 2 sc_s) = false.
Proof.
  cbv zeta. split; [|split].
  - intros o [<-|[<-|[]]]; vm_compute; repeat split; reflexivity.
  - intros o [<-|[<-|[]]]; vm_compute; repeat split; reflexivity.
  - vm_compute. split; reflexivity.
Qed.

(* hand-over hypothesis met: after thread 0 released, nobody holds and 1, 2 spin; the ready waiter is 1 *)
Example C12_handover_weak_example :
  let s := wt_run_at src_orders 3 ex_base [(0,0);(1,0);(2,0);(0,0);(0,0);(0,0);(0,0);(2,7)]%nat in
  w_waiting (wt_pc s 1) = true /\ w_waiting (wt_pc s 2) = true /\ whead s = 1%nat /\
  wt_pc (wt_step src_orders 3 s (1%nat, 0%nat)) 1%nat = WCrit /\ wt_pc (wt_step src_orders 3 s (2%nat, 0%nat)) 2%nat = WSpin 0.
Proof. vm_compute. repeat split; reflexivity. Qed.

Local Open Scope Z_scope.

(* ---------------------------------------------------------------- guards *)

(* For EVERY script of guard operations over any number of guard slots and mutexes, run from the empty store
   (exec stops at the first FRG_ASSERT / null-mutex dereference; every prefix of a script is a script, so
   "after every prefix" is the statement for all [ops]):
   (1) per mutex and mode, hold (= acquire calls, adoptions counted at adoption, minus release calls in the log)
       equals the number of live guards that own that mutex in that mode;
   (2) at the granularity of single calls no hold ever goes negative (each release has its own earlier acquisition);
   (3) once no guard is alive, every acquisition has exactly one release (all holds are 0);
   (4) every release call a step makes is the matching release (unlock for lock, unlock_shared for lock_shared) of a
       live guard that owned exactly that mutex, and it is the only call of that step;
   (5) move-construction and swap make no call and preserve, per mutex and mode, the number of owning guards; swap
       exchanges the two guard objects exactly;
   (6) move-assignment g = std::move(h) leaves in g exactly what h had, empties h, and releases what g owned before
       exactly once through the matching call (nothing when g = h);
   (7) a run stops only as documented: lock() on an owning guard / unlock() on a non-owning guard (FRG_ASSERT), or
       lock() on a guard without mutex (default-constructed / moved-from: null dereference, excluded precondition). *)
Theorem C12_guard_balance :
  (forall ops s log st, exec empty_store ops = (s, log, st) ->
     (forall m, hold_x m log = cnt_x m s /\ hold_s m log = cnt_s m s) /\
     (forall p q m, log = p ++ q -> 0 <= hold_x m p /\ 0 <= hold_s m p) /\
     (no_live s = true -> forall m, hold_x m log = 0 /\ hold_s m log = 0)) /\
  (forall s o s' cs r c m, step s o = (s', cs, r) -> In c cs -> is_release c = Some m ->
     exists g x, sget s g = Some x /\ g_owns x = true /\ g_mutex x = Some m /\
                 c = matching_release (g_kind x) m /\ cs = [c]) /\
  (forall s o s' cs r, is_transfer o = true -> step s o = (s', cs, r) ->
     cs = [] /\ forall m, cnt_x m s' = cnt_x m s /\ cnt_s m s' = cnt_s m s) /\
  (forall s g h s' cs, step s (OSwap g h) = (s', cs, RUnit) ->
     sget s' g = sget s h /\ sget s' h = sget s g /\ (forall i, i <> g -> i <> h -> sget s' i = sget s i)) /\
  (forall s g h s' cs, step s (OMoveAssign g h) = (s', cs, RUnit) ->
     exists dst src, sget s g = Some dst /\ sget s h = Some src /\ sget s' g = Some src /\
       (g <> h -> sget s' h = Some (guard_empty (g_kind dst))) /\
       (forall i, i <> g -> i <> h -> sget s' i = sget s i) /\
       cs = (if Nat.eqb g h then [] else
             if g_owns dst then match g_mutex dst with Some m => [matching_release (g_kind dst) m] | None => cs end
             else [])) /\
  (forall ops s log r, exec empty_store ops = (s, log, Some r) ->
     exists pre o post, ops = pre ++ o :: post /\ exec empty_store pre = (s, log, None) /\
     exists g x, sget s g = Some x /\
       ((o = OLock g /\ g_owns x = true /\ r = RAssert ALockWhileOwning) \/
        (o = OUnlock g /\ g_owns x = false /\ r = RAssert AUnlockWhileNotOwning) \/
        (o = OLock g /\ g_owns x = false /\ g_mutex x = None /\ r = RUB))).
Proof.
  split; [exact guard_balance_main|]. split; [exact step_release_matching|]. split; [exact step_transfer|].
  split; [exact step_swap_exact|]. split; [exact step_moveassign_exact|].
  intros ops s log r H. exact (exec_stop_exact ops _ _ _ _ r swf_empty H eq_refl).
Qed.
Print Assumptions C12_guard_balance.

(* non-vacuity: a script with adopt, shared and exclusive guards, a move-assignment over an owning target, a swap and
   destruction runs to the end, makes 3 acquisitions + 1 adoption and exactly 4 matching releases *)
Example C12_guard_balance_example :
  let ops := [ONew KUnique 0 0; OAdopt KShared 1 1; ONew KQs 2 2; ONew KUnique 3 1%nat; OMoveAssign 0 3;
              ODefer KShared 4 0; OSwap 1 4; OUnlock 2; ODestroy 4; ODestroy 0; ODestroy 1; ODestroy 2; ODestroy 3]%nat in
  exec empty_store ops =
    ([None; None; None; None; None],
     [CLock 0; CAdoptShared 1; CLock 2; CLock 1; CUnlock 0; CUnlock 2; CUnlockShared 1; CUnlock 1]%nat, None).
Proof. vm_compute. reflexivity. Qed.
