(* C16, hash_map part: lifetimes and allocations.
   HashMap/HashMapLog.v runs the C14 model ([step], unchanged) together with the block bookkeeping and
   emits the event log of Common/EventLog.v: table allocate/deallocate with sizeof(chain * ) * capacity,
   one allocate(sizeof(chain)) + construct per new entry, move-from + destroy + deallocate(sizeof(chain))
   per removed entry, reads/assignments of stored values, and the destructor's events.
   [wf_closed] = every construct goes into a live block and a dead slot, every use/destroy hits a live
   object, every deallocate names a live block with its allocation size and no live object inside, and at
   the end no block and no object is left.
   For EVERY hash function, EVERY pair of sizes (psz = sizeof(chain * ), nsz = sizeof(chain)) and every
   history in which insert() is only called with absent keys. *)
From Coq Require Import List NArith.
From FV Require Import Common.EventLog HashMap.HashMapModel HashMap.HashMapProofs HashMap.HashMapLog
  HashMap.HashMapLogProofs HashMap.HashMapExamples.
Import ListNotations.
Local Open Scope N_scope.

Theorem C16_hashmap_log_wf : forall hash psz nsz ops,
  inserts_absent ops ->
  wf_closed (log_of (lrun hash psz nsz empty_lhm ops)
             ++ destructor_evs psz nsz (final_of (lrun hash psz nsz empty_lhm ops))) = true.
Proof. exact hashmap_log_wf. Qed.
Print Assumptions C16_hashmap_log_wf.

(* the log before the destructor is well-formed as well (nothing ill-formed happens while the map lives) *)
Theorem C16_hashmap_log_prefix_wf : forall hash psz nsz ops,
  inserts_absent ops -> wf_log (log_of (lrun hash psz nsz empty_lhm ops)) = true.
Proof. exact hashmap_log_prefix_wf. Qed.
Print Assumptions C16_hashmap_log_prefix_wf.

(* the logged run computes exactly what the C14 model computes (for every history) *)
Theorem C16_hashmap_log_functional : forall hash psz nsz ops,
  core (final_of (lrun hash psz nsz empty_lhm ops)) = fst (run hash empty_hm ops) /\
  outs_of (lrun hash psz nsz empty_lhm ops) = snd (run hash empty_hm ops).
Proof. exact hashmap_log_functional. Qed.
Print Assumptions C16_hashmap_log_functional.

(* ---- non-vacuity: ex_ops (HashMapExamples.v) satisfies the hypothesis, rehashes three times (capacity
   10, 20, 40), removes entries; its log is long, and the statement is not trivially true: the same log
   without the destructor's last event (the table's deallocate) is rejected, and so is a double destructor. *)
Example C16_hashmap_log_wf_nonvacuous :
  let r := lrun ex_const 8 40 empty_lhm ex_ops in
  ops_okb [] ex_ops = true /\
  length (log_of r) = 142%nat /\
  length (filter (fun e => match e with EAlloc _ _ => true | _ => false end) (log_of r)) = 32%nat /\
  length (destructor_evs 8 40 (final_of r)) = 55%nat /\
  last (destructor_evs 8 40 (final_of r)) (EFree 0) = EDealloc 23 320 /\
  wf_closed (log_of r ++ destructor_evs 8 40 (final_of r)) = true /\
  wf_closed (log_of r ++ removelast (destructor_evs 8 40 (final_of r))) = false /\
  wf_closed (log_of r ++ destructor_evs 8 40 (final_of r) ++ destructor_evs 8 40 (final_of r)) = false /\
  wf_closed (log_of r) = false.
Proof. vm_compute. repeat split. Qed.

Example C16_hashmap_log_prefix_wf_nonvacuous :
  ops_okb [] ex_ops = true /\
  firstn 9 (log_of (lrun ex_id 8 40 empty_lhm ex_ops)) =
    [EAlloc 1 80; EAlloc 2 40; EConstruct (2, 0)%nat; EUse (2, 0)%nat; EUse (2, 0)%nat;
     EAlloc 3 40; EConstruct (3, 0)%nat; EUse (3, 0)%nat; EUse (3, 0)%nat] /\
  wf_log (log_of (lrun ex_id 8 40 empty_lhm ex_ops)) = true /\
  wf_log (log_of (lrun ex_id 8 40 empty_lhm ex_ops) ++ [EDestroy (2, 0)%nat; EDealloc 2 40]) = true /\
  wf_log (log_of (lrun ex_id 8 40 empty_lhm ex_ops) ++ [EDestroy (2, 0)%nat; EDealloc 2 32]) = false.
Proof. vm_compute. repeat split. Qed.

Example C16_hashmap_log_functional_nonvacuous :
  cap (core (final_of (lrun ex_id 8 40 empty_lhm ex_ops))) = 40%nat /\
  size (core (final_of (lrun ex_id 8 40 empty_lhm ex_ops))) = 27%nat /\
  length (outs_of (lrun ex_id 8 40 empty_lhm ex_ops)) = 38%nat.
Proof. vm_compute. repeat split. Qed.
