(* C20, to_number part: to_number<T> is memory-safe and total on arbitrary input (DESIGN section 4, C20).
   The loop is structurally recursive with N.to_nat (length of the view) iterations (no fuel can run out);
   [Ok (Some n)] is a value, [Ok None] is null_opt; no UB outcome, no assertion stop. *)
From Coq Require Import List NArith Bool.
From FV Require Import Str.StrModel Str.StrProofs Str.StrNumProofs.
Import ListNotations.
Local Open Scope N_scope.

(* for EVERY byte list placed in a buffer of exactly that size, and every integer type *)
Theorem C20_to_number_total_safe : forall (bytes : list byte) (t : ity),
  exists (r : option N) (reads : list range),
    to_number (exact_mem bytes) t (whole bytes) = (Ok r, reads) /\
    Forall (fun rg => rb rg = 1%nat /\ ro rg + rn rg <= N.of_nat (length bytes)) reads.
Proof. exact to_number_every_byte_list. Qed.
Print Assumptions C20_to_number_total_safe.

(* the same for any view that lies inside a buffer of any memory: reads stay inside the VIEW *)
Theorem C20_to_number_total_safe_view : forall (m : mem) (t : ity) (v : view), valid_view m v ->
  exists (r : option N) (reads : list range),
    to_number m t v = (Ok r, reads) /\ r = num_ref t (vtext m v) 0 /\
    Forall (within v) reads /\ Forall (in_mem m) reads.
Proof. exact to_number_total_safe. Qed.
Print Assumptions C20_to_number_total_safe_view.

(* history: with the accumulation of the code before the D12 repair the UB outcome is reachable *)
Theorem C20_to_number_refuted_before_fix :
  fst (to_number_with (exact_mem d12_bytes) acc_plain (mkT true 32) (whole d12_bytes)) = UB signed_overflow.
Proof. exact to_number_plain_refuted. Qed.
Print Assumptions C20_to_number_refuted_before_fix.

Example C20_to_number_ex1 :   (* "99999999999" as int: null_opt, 10 bytes read (the 10th digit overflows) *)
  fst (to_number (exact_mem d12_bytes) (mkT true 32) (whole d12_bytes)) = Ok None /\
  length (snd (to_number (exact_mem d12_bytes) (mkT true 32) (whole d12_bytes))) = 10%nat.
Proof. vm_compute. split; reflexivity. Qed.
Example C20_to_number_ex2 :   (* "2147483647" as int fits; "12a" does not parse; view in the middle of a buffer *)
  fst (to_number (exact_mem [50;49;52;55;52;56;51;54;52;55]) (mkT true 32) (whole [50;49;52;55;52;56;51;54;52;55])) = Ok (Some 2147483647) /\
  to_number [(7%nat, [0;49;50;97;0])] (mkT false 8) (V 7 1 3) = (Ok None, [mkR 7 1 1; mkR 7 2 1; mkR 7 3 1]) /\
  valid_view [(7%nat, [0;49;50;97;0])] (V 7 1 3).
Proof. split; [vm_compute; reflexivity|]. split; [vm_compute; reflexivity|]. simpl. eexists. split; [reflexivity|]. vm_compute. discriminate. Qed.
