(* TIE (str): generic_strlen / generic_strnlen / basic_string_view<char>::find_first / find_last regenerated from
   include/frg/string.hpp on every run (Gen/Cxx_str.v) agree with Str/StrModel.v (out_rel: same value / both undefined). *)
From Coq Require Import List NArith ZArith.
From FV Require Import CxxLeaf.CxxSem Gen.Cxx_str CxxLeaf.Tie_str.
From FV Require Str.StrModel.
Import ListNotations.
Local Open Scope N_scope.

Theorem TIE_generic_strlen : forall m b l, StrModel.mem_get m b = Some l -> bytes l -> N.of_nat (length l) < 2 ^ 64 ->
  forall fuel off, (length l < fuel)%nat ->
  out_rel (generic_strlen fuel (cmem l) (Z.of_N off)) (StrModel.generic_strlen m (StrModel.P b off)).
Proof. exact gen_strlen_eq_model. Qed.
Print Assumptions TIE_generic_strlen.
Example TIE_generic_strlen_ex : generic_strlen 9 (cmem [104; 105; 200; 0; 7]) 1 = Ok 2
  /\ generic_strlen 9 (cmem [104; 105]) 0 = UB UPtrRange.
Proof. vm_compute. split; reflexivity. Qed.

Theorem TIE_generic_strnlen : forall m b l, StrModel.mem_get m b = Some l -> bytes l -> N.of_nat (length l) < 2 ^ 64 ->
  forall fuel off mx, (length l < fuel)%nat ->
  out_rel (generic_strnlen fuel (cmem l) (Z.of_N off) mx) (StrModel.generic_strnlen m (StrModel.P b off) mx).
Proof. exact gen_strnlen_eq_model. Qed.
Print Assumptions TIE_generic_strnlen.
Example TIE_generic_strnlen_ex : generic_strnlen 9 (cmem [104; 105; 106]) 0 2 = Ok 2
  /\ generic_strnlen 9 (cmem [104; 0; 106]) 0 5 = Ok 1.
Proof. vm_compute. split; reflexivity. Qed.

Theorem TIE_find_first : forall m b l off len, StrModel.mem_get m b = Some l -> bytes l -> len < 2 ^ 64 ->
  forall fuel c start, c < 256 -> (N.to_nat (len - start) < fuel)%nat ->
  out_rel (find_first fuel len (Z.of_N off) (cmem l) (StrModel.schar c) start)
          (StrModel.find_first m (StrModel.V b off len) c start).
Proof. exact gen_find_first_eq_model. Qed.
Print Assumptions TIE_find_first.
Example TIE_find_first_ex : find_first 9 4 1 (cmem [1; 97; 200; 97; 200]) (StrModel.schar 200) 0 = Ok 1
  /\ find_first 9 4 1 (cmem [1; 97; 200; 97; 200]) (StrModel.schar 5) 0 = Ok 18446744073709551615.
Proof. vm_compute. split; reflexivity. Qed.

Theorem TIE_find_last : forall m b l off len, StrModel.mem_get m b = Some l -> bytes l -> len < 2 ^ 64 ->
  forall fuel c, c < 256 -> (N.to_nat len < fuel)%nat ->
  out_rel (find_last fuel len (Z.of_N off) (cmem l) (StrModel.schar c)) (StrModel.find_last m (StrModel.V b off len) c).
Proof. exact gen_find_last_eq_model. Qed.
Print Assumptions TIE_find_last.
Example TIE_find_last_ex : find_last 9 4 1 (cmem [1; 97; 200; 97; 200]) (StrModel.schar 200) = Ok 3
  /\ find_last 9 9 1 (cmem [1; 97; 200]) (StrModel.schar 5) = UB UOutOfBounds.
Proof. vm_compute. split; reflexivity. Qed.

(* basic_string<char, A>::compare(const char *other): strlen(other), then lengths, then the first differing char *)
Theorem TIE_compare_cstr : forall m ba bb la lb offa lena offb,
  StrModel.mem_get m ba = Some la -> StrModel.mem_get m bb = Some lb -> bytes la -> bytes lb ->
  N.of_nat (length lb) < 2 ^ 64 -> lena < 2 ^ 64 ->
  forall fuel, (length lb < fuel)%nat -> (N.to_nat lena < fuel)%nat ->
  out_rel (compare_cstr fuel (Z.of_N offa) (cmem la) lena (cmem lb) (Z.of_N offb))
          (StrModel.bindR (StrModel.generic_strlen m (StrModel.P bb offb))
             (fun n => StrModel.compare_len m (StrModel.V ba offa lena) (StrModel.P bb offb) n)).
Proof. exact gen_compare_cstr_eq_model. Qed.
Print Assumptions TIE_compare_cstr.
Example TIE_compare_cstr_ex : compare_cstr 9 0 (cmem [97; 200; 99]) 3 (cmem [97; 98; 99; 0]) 0 = Ok (-1)%Z
  /\ compare_cstr 9 0 (cmem [97; 98]) 2 (cmem [97; 98; 0]) 0 = Ok 0%Z
  /\ compare_cstr 9 0 (cmem [97; 98]) 2 (cmem [97; 0]) 0 = Ok 1%Z.
Proof. vm_compute. repeat split; reflexivity. Qed.

(* basic_string_view<char>::to_number<unsigned long>() (instance T = unsigned long): digits only, null_opt when the exact
   value does not fit (__builtin_mul_overflow / __builtin_add_overflow) *)
Theorem TIE_to_number_u64 : forall m b l off len, StrModel.mem_get m b = Some l -> bytes l -> len < 2 ^ 64 ->
  forall fuel, (N.to_nat len < fuel)%nat ->
  out_rel (to_number_u64 fuel len (Z.of_N off) (cmem l)) (StrModel.to_number m u64 (StrModel.V b off len)).
Proof. exact gen_to_number_u64_eq_model. Qed.
Print Assumptions TIE_to_number_u64.
Example TIE_to_number_u64_ex :
  to_number_u64 30 20 0 (cmem [49;56;52;52;54;55;52;52;48;55;51;55;48;57;53;53;49;54;49;53]) = Ok (Some 18446744073709551615)
  /\ to_number_u64 30 20 0 (cmem [49;56;52;52;54;55;52;52;48;55;51;55;48;57;53;53;49;54;49;54]) = Ok None
  /\ to_number_u64 30 2 0 (cmem [49; 200]) = Ok None.
Proof. vm_compute. repeat split; reflexivity. Qed.
