(* C10: rcu_radixtree - lock-free readers never see partial state or lose present keys.

   Model (RadixConc/ConcModel.v): ONE writer executing the micro-step programs of the sequential model C09
   (Radix/RadixModel.v: find_or_insert / insert / erase, one micro-step per scheduler slot) over a view-based
   release/acquire memory (RadixConc/RAView.v), any number of readers running `find` one load per step, an arbitrary
   scheduler (list of thread ids) and an arbitrary choice, at every load, of which admissible (possibly stale)
   message is returned.  The memory orders are the ones extracted from the source by translator/gen_radixconc.py
   (Gen/RadixConcOrders.v: `actual`).
     run_conc o esz lsz wops scripts sched choices : list sys      the states the system goes through
     full_log o esz lsz wops                                        the complete write log of the history (every
                                                                    interleaving produces a prefix of it)
     hist_okb esz lsz st0 wops = true                               the history respects the documented preconditions
                                                                    (keys < 2^64, insert only absent, erase only present)
     find_call tr r f                                               f is the record of a completed find of reader r:
        f_key, f_res, f_start/f_end (step numbers), f_view (the reader's view at the return) and the ghosts
        f_base0 (a lower bound of the reader's whole view when the call started), f_mask (stamp of the mask message
        it read), f_len (length of the write log when it returned).
   pfxP k 15 / idxP k 15 are pfx_of k 15 / idx_of k 15 as div/mod (C09_pfx_of_is_div, C09_idx_of_is_mod).
   Iterators under concurrent modification are documented as unsupported in the header and are not modelled. *)
From Coq Require Import List NArith Arith Bool Lia.
From FV Require Import Common.EventLog Radix.RadixModel Radix.RadixBits Radix.RadixInv Radix.RadixSpec
  RadixConc.RAView RadixConc.ConcModel RadixConc.ConcProg RadixConc.ConcWriter RadixConc.ConcLog RadixConc.ConcStatic
  RadixConc.ConcStatic2 RadixConc.ConcStep RadixConc.ConcReader RadixConc.ConcSys RadixConc.ConcFound
  RadixConc.ConcFoundDyn RadixConc.ConcSkel RadixConc.ConcTop RadixConc.ConcErase Gen.RadixConcOrders.
Import ListNotations.
Local Open Scope N_scope.

(* --- the memory orders of the source are sufficient, and sufficiency is all the theorems below use:
   acquire on the three loads of find; release on the stores that publish (_root / links[] of an existing node in
   cases 1-2, the mask in case 3 and in erase); anything - in particular relaxed - on the stores into a node that is
   not yet published.  Weakening any of the nine in the source makes `actual_sufficient` (regenerated on every run)
   fail. *)
Theorem C10_orders_sufficient :
  orders_sufficient actual = true /\
  forall o, orders_sufficient o = true ->
    is_acq (o_f_root o) = true /\ is_acq (o_f_mask o) = true /\ is_acq (o_f_link o) = true /\
    is_rel (o_c1_link o) = true /\ is_rel (o_c1_root o) = true /\ is_rel (o_c2_link o) = true /\
    is_rel (o_c2_root o) = true /\ is_rel (o_c3_mask o) = true /\ is_rel (o_e_mask o) = true.
Proof. split; [exact actual_sufficient|exact suff]. Qed.
Print Assumptions C10_orders_sufficient.

(* the model CAN express the failure: the same orders with a relaxed store of a new root (case 1) lead a reader into
   a racy read of the node header (undefined behaviour), under sequentially consistent choices *)
Example C10_relaxed_publish_races :
  orders_sufficient (weaken_c1_root actual) = false /\
  let tr := run_conc (weaken_c1_root actual) 1 2 [WInsert 5 1] (fun _ => [RFind 5]) [0; 0; 0; 0; 0; 0; 0; 0; 0; 1; 1]%nat (fun _ => 0%nat) in
  r_pc (s_rd (last tr (sys_init [] (fun _ => []))) 0%nat) = PStuck URace.
Proof. vm_compute. split; reflexivity. Qed.

(* release on the mask store of erase is needed too (C++20: a later relaxed store by the same thread does not continue
   a release sequence): after insert 5, insert 6 (same leaf, published by the release mask store of case 3) and an
   erase 5 whose mask store is relaxed, a reader that is served the erase's mask message gets the pointer to 6's slot
   without having synchronised with its construction - dereferencing it is a data race.  (ThreadSanitizer does not
   report this one - it lets the relaxed store inherit the earlier release - so the generated obligation is the leg
   that rejects a relaxed erase store.) *)
Example C10_relaxed_erase_store_races_on_deref :
  orders_sufficient (weaken_e_mask actual) = false /\
  let tr := run_conc (weaken_e_mask actual) 1 2 [WInsert 5 1; WInsert 6 2; WErase 5] (fun _ => [RFind 6])
                     (repeat 0 13 ++ [1; 1; 1])%nat (fun _ => 0%nat) in
  let S1 := last tr (sys_init [] (fun _ => [])) in
  let f := hd (mk_frec 0 None 0 0 0 None 0 (fun _ => 0%nat)) (r_done (s_rd S1 0%nat)) in
  w_done (s_w S1) = 3%nat /\ f_res f = Some (0%nat, 6) /\ rna (s_log S1) (f_view f) (LSlot 0 6) = RRace.
Proof. vm_compute. repeat split; reflexivity. Qed.

(* --- no reader step is undefined behaviour: for every accepted writer history, every number of readers and every
   script, every scheduler, every choice of admissible message at every load.  Moreover, whenever a reader is about
   to dereference a node pointer c it obtained from _root / links[], EVERY write to c's header (prefix, depth) in
   the whole history is already in the current memory and covered by the reader's view: the header was written
   before the release store that published c (or an ancestor link to it) and is never written again. *)
Theorem C10_reader_race_free : forall esz lsz wops scripts sched choices,
  hist_okb esz lsz st0 wops = true -> scripts_ok scripts ->
  let tr := run_conc actual esz lsz wops scripts sched choices in
  no_ub tr /\
  forall S0 r k c, In S0 tr -> r_pc (s_rd S0 r) = PHdr k c ->
    forall j m, nth_error (full_log actual esz lsz wops) j = Some m -> (mloc m = LPrefix c \/ mloc m = LDepth c) ->
      (j < r_view (s_rd S0 r) (mloc m))%nat /\ (j < length (s_log S0))%nat.
Proof. intros esz lsz wops scripts sched choices. exact (top_race_free actual esz lsz wops scripts sched choices actual_sufficient). Qed.
Print Assumptions C10_reader_race_free.

(* --- a find that returns (e, i) returns the slot of exactly the requested key, fully constructed:
   e's header is (pfx_of k 15, 15), i = idx_of k 15, the mask message read (stamp tm) has bit i, and there is a
   construction message of Slot e i, made by an insertion of exactly k (VSlot k v), that the reader's view covers;
   it is the construction the mask bit stands for (it precedes the mask message, or it is the one that immediately
   follows the initial relaxed mask store of a node under construction). *)
Theorem C10_result_sound : forall esz lsz wops scripts sched choices,
  hist_okb esz lsz st0 wops = true -> scripts_ok scripts ->
  let tr := run_conc actual esz lsz wops scripts sched choices in
  let LF := full_log actual esz lsz wops in
  forall r f e i, find_call tr r f -> f_res f = Some (e, i) ->
    lastval LF (LPrefix e) = Some (VNum (pfxP (f_key f) 15)) /\ lastval LF (LDepth e) = Some (VNum 15) /\
    i = idxP (f_key f) 15 /\
    exists tm mm mv, f_mask f = Some tm /\ nth_error LF tm = Some mm /\ mloc mm = LMask e /\ mval mm = VNum mv /\
      N.testbit mv i = true /\
      exists tc mc v, nth_error LF tc = Some mc /\ mloc mc = LSlot e i /\ mval mc = VSlot (f_key f) v /\
        (tc < f_view f (LSlot e i))%nat /\ ((tc < tm)%nat \/ tc = S tm).
Proof. intros esz lsz wops scripts sched choices. exact (top_result_sound actual esz lsz wops scripts sched choices actual_sufficient). Qed.
Print Assumptions C10_result_sound.

(* "still valid after return": dereferencing the returned pointer later (state S1, at or after the return) is
   race-free and yields a value constructed under exactly k, provided the reader's view covers every construction of
   the slot so far - i.e. the slot was not re-constructed (erase + re-insert of k) without the reader synchronising:
   that is the caller's grace-period obligation (qs.hpp), a hypothesis here and not of the per-call statement. *)
Theorem C10_deref_after_return : forall esz lsz wops scripts sched choices,
  hist_okb esz lsz st0 wops = true -> scripts_ok scripts ->
  let tr := run_conc actual esz lsz wops scripts sched choices in
  forall r f e i S1, find_call tr r f -> f_res f = Some (e, i) -> In S1 tr -> (f_len f <= length (s_log S1))%nat ->
    (forall j, RAView.at_loc loc val (s_log S1) (LSlot e i) j -> (j < f_view f (LSlot e i))%nat) ->
    exists j m v, rna (s_log S1) (f_view f) (LSlot e i) = RGot j m (f_view f) /\ mval m = VSlot (f_key f) v.
Proof. intros esz lsz wops scripts sched choices. exact (top_deref actual esz lsz wops scripts sched choices actual_sufficient). Qed.
Print Assumptions C10_deref_after_return.

Definition ex_ops_e : list wop := [WInsert 5 1; WInsert 1152921504606846981 2; WInsert 21 3; WInsert 6 4; WErase 5].

(* --- erase k only unpublishes: its whole micro-step program is ONE release store that clears k's bit in the leaf's mask;
   it contains no destroy step and no write to the value's storage (the generated obligations skel_erase_ok /
   skel_erase_no_destroy tie this to the source: erase() contains no p->~T() / destroy_at / destruct).  Hence the slot
   keeps its last construction, stored under exactly k, across the erase: a reader that obtained the address before
   the erase (or reads a stale mask) still reads an initialised object (C10_deref_after_return) until the CALLER, after
   its grace period, destroys or re-constructs it. *)
Theorem C10_erase_leaves_slot_constructed : forall esz lsz wops p k,
  hist_okb esz lsz st0 wops = true -> nth_error wops p = Some (WErase k) ->
  exists e en v,
    find (bstate esz lsz wops p) k = Ok (Some (e, idxP k 15)) /\ nth_error (nodes (bstate esz lsz wops p)) e = Some en /\
    op_steps esz lsz (bstate esz lsz wops p) (WErase k) = [MStoreMask e (clear_bit (n_mask en) (idxP k 15)) Release] /\
    blog actual esz lsz wops (S p) = blog actual esz lsz wops p ++
      [mk (LMask e) (VNum (clear_bit (n_mask en) (idxP k 15))) (is_rel (o_e_mask actual)) false] /\
    (forall e' i', lastval (blog actual esz lsz wops (S p)) (LSlot e' i') = lastval (blog actual esz lsz wops p) (LSlot e' i')) /\
    lastval (blog actual esz lsz wops p) (LSlot e (idxP k 15)) = Some (VSlot k v) /\
    lastval (blog actual esz lsz wops (S p)) (LSlot e (idxP k 15)) = Some (VSlot k v).
Proof. intros esz lsz wops p k H. exact (erase_leaves_slot actual esz lsz wops actual_sufficient H p k). Qed.
Print Assumptions C10_erase_leaves_slot_constructed.

Example C10_erase_example :
  nth_error ex_ops_e 4 = Some (WErase 5) /\ hist_okb 1 2 st0 ex_ops_e = true /\
  lastval (blog actual 1 2 ex_ops_e 5) (LSlot 0 5) = Some (VSlot 5 1) /\
  find (bstate 1 2 ex_ops_e 5) 5 = Ok None.
Proof. vm_compute. repeat split; reflexivity. Qed.

(* --- a key that is present when the find starts and is not erased before it returns is found, at its address,
   whatever restructuring (splits at and below the root, insertions into the same leaf, other erases) happens
   meanwhile and whatever stale messages the reader is served:
     present_after p k a        after the first p operations of the history, find k = a                (k in M)
     view_covers p f            the reader's whole view at the start of the call included the writer's view at the
                                end of operation p (e.g. it synchronised with the writer, or an earlier find of its
                                own acquired the publication)
     not_erased_until k p q f   none of the operations p..q-1 is erase k, and the call returned before the writer
                                went beyond operation q *)
Theorem C10_present_key_found : forall esz lsz wops scripts sched choices r f a p q,
  hist_okb esz lsz st0 wops = true -> scripts_ok scripts ->
  let tr := run_conc actual esz lsz wops scripts sched choices in
  find_call tr r f ->
  present_after esz lsz wops p (f_key f) a -> view_covers actual esz lsz wops p f ->
  not_erased_until actual esz lsz wops (f_key f) p q f ->
  f_res f = Some a /\ no_ub tr.
Proof.
  intros esz lsz wops scripts sched choices r f a p q H1 H2.
  exact (top_present_found actual esz lsz wops scripts sched choices actual_sufficient H1 H2 r f a p q).
Qed.
Print Assumptions C10_present_key_found.

(* the writer is schedule-independent: in every reachable state the memory is a prefix of the write log of the
   history, the writer has not stopped, and the ghost bounds are what they claim (a reader's base is below its whole
   view, which lies within the current memory) *)
Theorem C10_memory_is_prefix : forall esz lsz wops scripts sched choices,
  hist_okb esz lsz st0 wops = true -> scripts_ok scripts ->
  forall S0, In S0 (run_conc actual esz lsz wops scripts sched choices) ->
    (exists X, full_log actual esz lsz wops = s_log S0 ++ X) /\
    forall r l, (r_base (s_rd S0 r) <= r_view (s_rd S0 r) l)%nat /\ (r_view (s_rd S0 r) l <= length (s_log S0))%nat.
Proof. intros esz lsz wops scripts sched choices. exact (top_prefix actual esz lsz wops scripts sched choices actual_sufficient). Qed.
Print Assumptions C10_memory_is_prefix.

(* --- non-vacuity: a history with all three insertion cases (first node, split at the root, split below it, insertion
   into an existing leaf) and an erase; two readers.  Reader 0 starts find 21 right after synchronising with the writer
   at the end of insert 21 (memory length 113); while it walks down, the writer inserts 6 and erases 5 (memory length
   116 when the find returns); it is served non-latest messages (choice i mod 3) - the mask message it reads is the
   RELAXED initial mask store of the new leaf (stamp 88) - and still finds 21.  Its next call, find 6, is served the
   stale mask of leaf 0 and legitimately returns null (6 was inserted after its last synchronisation).
   Reader 1 finds 5 early and no longer after the erase. *)
Definition ex_ops : list wop := [WInsert 5 1; WInsert 1152921504606846981 2; WInsert 21 3; WInsert 6 4; WErase 5].
Definition ex_scripts (r : nat) : list ritem :=
  match r with O => [RFind 7; RSync; RFind 21; RFind 6] | S O => [RFind 5; RFind 5] | _ => [] end.
Definition ex_sched : list nat :=
  (repeat 0 8 ++ [2; 2; 2] ++ [1; 1; 1] ++ repeat 0 62 ++ [1; 1] ++ repeat 0 3 ++ [1; 1] ++ repeat 0 2 ++
   repeat 1 5 ++ repeat 1 7 ++ repeat 2 7)%nat.
Definition ex_choices (i : nat) : nat := (i mod 3)%nat.
Definition ex_tr : list sys := run_conc actual 1 2 ex_ops ex_scripts ex_sched ex_choices.
Definition ex_last : sys := last ex_tr (sys_init [] (fun _ => [])).
Definition ex_f : frec := nth 1 (r_done (s_rd ex_last 0%nat)) (mk_frec 0 None 0 0 0 None 0 (fun _ => 0%nat)).

Example C10_hyps_satisfiable :
  hist_okb 1 2 st0 ex_ops = true /\ scripts_ok ex_scripts /\
  find_call ex_tr 0%nat ex_f /\ f_key ex_f = 21 /\
  present_after 1 2 ex_ops 3 21 (3%nat, 5) /\ view_covers actual 1 2 ex_ops 3 ex_f /\
  not_erased_until actual 1 2 ex_ops 21 3 5 ex_f /\
  f_res ex_f = Some (3%nat, 5) /\
  map (fun f => (f_key f, f_res f)) (r_done (s_rd ex_last 0%nat)) = [(6, None); (21, Some (3%nat, 5)); (7, None)] /\
  map (fun f => (f_key f, f_res f)) (r_done (s_rd ex_last 1%nat)) = [(5, None); (5, Some (0%nat, 5))].
Proof.
  split; [vm_compute; reflexivity|]. split.
  { intros [|[|r]]; cbn [ex_scripts]; repeat constructor; cbn; unfold K64; lia. }
  split.
  { exists ex_last. split; [|vm_compute; auto].
    unfold ex_last. apply (exists_last_in ex_tr). vm_compute. discriminate. }
  split; [vm_compute; reflexivity|]. split; [vm_compute; reflexivity|]. split; [vm_compute; lia|].
  split.
  { unfold not_erased_until. split; [lia|]. split; [vm_compute; lia|]. split; [vm_compute; lia|].
    intros t Ht. assert (t = 3 \/ t = 4)%nat as [-> | ->] by lia; vm_compute; discriminate. }
  split; [vm_compute; reflexivity|]. split; vm_compute; reflexivity.
Qed.
