(* C15: strings and string views denote exactly their character sequence, in bounds (DESIGN section 4, C15).
   Vocabulary (Str/StrProofs*.v, Str/StrMProofs.v):
     vtext m v / txt m s   the bytes a view / a string denotes (any byte values, 0 included)
     valid_view m v        v = (buf, off, len) lies inside a buffer of m (or is the null view)
     str_ok m s            s owns no buffer and has length 0, or its buffer has EXACTLY slen s + 1 bytes
                           and the byte at index slen s is 0
     okR c Q B             the read-only computation c ends in Ok with a result satisfying Q, and every
                           range it read satisfies B        (so: never UB, never an assertion stop)
     okM c s Q             the same for an owning-string operation started in state s
     within v r            the read range r lies inside [off, off+len) of the view v
     constructed / replaced / plus_post   describe the complete final state of a string-producing operation:
                           result {fresh buffer, |text|}, memory = (fresh buffer -> text ++ [0]) on top of the
                           old memory (minus the freed buffer), the allocation events, reads satisfying B *)
From Coq Require Import List NArith ZArith Bool.
From FV Require Import Str.StrLogProofs Str.StrWorldProofs.
From FV Require Import Common.EventLog Str.StrModel Str.StrProofs Str.StrNumProofs Str.StrProofs2 Str.StrMProofs.
Import ListNotations.
Local Open Scope N_scope.

(* ===== C15_refines_reference, one theorem per operation; every one also states "ends in Ok" and where it reads ===== *)

Theorem C15_refines_reference_find_first : forall m v c start, valid_view m v ->
  okR (find_first m v c start) (ff_spec (vtext m v) c start) (within v).
Proof. exact find_first_ok. Qed.
Print Assumptions C15_refines_reference_find_first.

Theorem C15_refines_reference_find_first_of : forall m v chars start, valid_view m v -> valid_view m chars ->
  okR (find_first_of m v chars start) (ffo_spec (vtext m v) (vtext m chars) start) (either v chars).
Proof. exact find_first_of_ok. Qed.
Print Assumptions C15_refines_reference_find_first_of.

Theorem C15_refines_reference_find_last : forall m v c, valid_view m v ->
  okR (find_last m v c) (fl_spec (vtext m v) c (vlen v)) (within v).
Proof. exact find_last_ok. Qed.
Print Assumptions C15_refines_reference_find_last.

Theorem C15_refines_reference_view_eq : forall m a b, valid_view m a -> valid_view m b ->
  okR (view_eq m a b) (fun r => r = true <-> vtext m a = vtext m b) (either a b).
Proof. exact view_eq_ok. Qed.
Print Assumptions C15_refines_reference_view_eq.

(* sub_string: inside the view it returns exactly that part and reads nothing; outside (also when from + size
   wraps size_t) it stops in the assertion hook *)
Theorem C15_refines_reference_sub_string : forall m v from size, valid_view m v ->
  (from <= vlen v /\ size <= vlen v - from ->
     sub_string v from size = (Ok (sub_view v from size), []) /\
     valid_view m (sub_view v from size) /\
     vtext m (sub_view v from size) = sub_list (vtext m v) from size) /\
  (~ (from <= vlen v /\ size <= vlen v - from) -> sub_string v from size = (AssertStop a_sub_string, [])).
Proof. exact sub_string_reference. Qed.
Print Assumptions C15_refines_reference_sub_string.

Theorem C15_refines_reference_starts_with : forall m v o, valid_view m v -> valid_view m o ->
  okR (starts_with m v o) (fun r => r = true <-> is_prefix (vtext m o) (vtext m v)) (either v o).
Proof. exact starts_with_ok. Qed.
Print Assumptions C15_refines_reference_starts_with.

Theorem C15_refines_reference_ends_with : forall m v o, valid_view m v -> valid_view m o ->
  okR (ends_with m v o) (fun r => r = true <-> is_suffix (vtext m o) (vtext m v)) (either v o).
Proof. exact ends_with_ok. Qed.
Print Assumptions C15_refines_reference_ends_with.

(* hashing is a function of the text alone: equal texts hash equally, and the string hash is the view hash *)
Theorem C15_refines_reference_hash : forall m ct v, valid_view m v ->
  okR (hash_view m ct v) (fun r => r = hash_ref ct (vtext m v) 0) (within v).
Proof. exact hash_view_ok. Qed.
Print Assumptions C15_refines_reference_hash.
Theorem C15_refines_reference_hash_str : forall ct s a, str_ok (smem s) a ->
  okM (hash_str ct a) s (fun h s' => h = hash_ref ct (txt (smem s) a) 0 /\
     exists rl, Forall (within (str_view a)) rl /\ s' = st_reads s rl).
Proof. exact hash_str_ok. Qed.
Print Assumptions C15_refines_reference_hash_str.

Theorem C15_refines_reference_strlen : forall m b o n, cstr_at m b o n ->
  okR (generic_strlen m (P b o)) (fun r => r = n) (within (V b o (n + 1))).
Proof. exact strlen_ok. Qed.
Print Assumptions C15_refines_reference_strlen.
Theorem C15_refines_reference_strnlen : forall m b o n max, cstr_at m b o n ->
  okR (generic_strnlen m (P b o) max) (fun r => r = N.min max n) (within (V b o (N.min max (n + 1)))).
Proof. exact strnlen_ok. Qed.
Print Assumptions C15_refines_reference_strnlen.
Theorem C15_refines_reference_strnlen_no_nul : forall m b o max, valid_view m (V b o max) ->
  (forall j, j < max -> bat (vtext m (V b o max)) j <> 0) ->
  okR (generic_strnlen m (P b o) max) (fun r => r = max) (within (V b o max)).
Proof. exact strnlen_nonul_ok. Qed.
Print Assumptions C15_refines_reference_strnlen_no_nul.
Theorem C15_refines_reference_view_of_cstr : forall m b o n, cstr_at m b o n ->
  okR (view_of_cstr m (P b o)) (fun v => v = V b o n) (within (V b o (n + 1))).
Proof. exact view_of_cstr_ok. Qed.
Print Assumptions C15_refines_reference_view_of_cstr.

(* ---- constructors, copy, assignment *)
Theorem C15_refines_reference_ctor_ptr_len_and_view : forall s v, fresh s -> valid_view (smem s) v ->
  okM (s_from_ptr_len (vptr v) (vlen v)) s (constructed s (vtext (smem s) v) (within v)) /\
  okM (s_from_view v) s (constructed s (vtext (smem s) v) (within v)).
Proof. exact ctor_ptr_len_and_view_ok. Qed.
Print Assumptions C15_refines_reference_ctor_ptr_len_and_view.
Theorem C15_refines_reference_ctor_cstr : forall s b o n, fresh s -> cstr_at (smem s) b o n ->
  okM (s_from_cstr (P b o)) s (constructed s (vtext (smem s) (V b o n)) (within (V b o (n + 1)))).
Proof. exact s_from_cstr_ok. Qed.
Print Assumptions C15_refines_reference_ctor_cstr.
Theorem C15_refines_reference_ctor_fill : forall s n c, fresh s ->
  okM (s_fill n c) s (constructed s (repeat c (N.to_nat n)) (fun _ => False)).
Proof. exact s_fill_ok. Qed.
Print Assumptions C15_refines_reference_ctor_fill.
Theorem C15_refines_reference_copy : forall s x, fresh s -> str_ok (smem s) x ->
  okM (s_copy x) s (constructed s (txt (smem s) x) (within (str_view x))).
Proof. exact s_copy_ok. Qed.
Print Assumptions C15_refines_reference_copy.
Theorem C15_refines_reference_assign : forall s dst src, fresh s -> str_ok (smem s) dst -> str_ok (smem s) src ->
  okM (s_assign dst src) s (replaced s (sbuf dst) (txt (smem s) src) (within (str_view src))).
Proof. exact s_assign_ok. Qed.
Print Assumptions C15_refines_reference_assign.

(* ---- resize: exactly n bytes, the first min(n, len) are kept (the rest is whatever the allocator returned) *)
Theorem C15_refines_reference_resize : forall s x n junk, fresh s -> str_ok (smem s) x ->
  okM (s_resize x n junk) s (fun r s' => exists text,
     length text = N.to_nat n /\
     firstn (N.to_nat (N.min (slen x) n)) text = firstn (N.to_nat (N.min (slen x) n)) (txt (smem s) x) /\
     replaced s (sbuf x) text (within (str_view x)) r s').
Proof. exact s_resize_ok. Qed.
Print Assumptions C15_refines_reference_resize.

(* ---- + and += with a view / a character, push_back: txt (s + v) = txt s ++ txt v *)
Theorem C15_refines_reference_plus_view : forall s x v, fresh s -> str_ok (smem s) x -> valid_view (smem s) v ->
  okM (s_plus_view x v) s (plus_post s (txt (smem s) x ++ vtext (smem s) v) (or_own x (within v))).
Proof. exact plus_view_ok. Qed.
Print Assumptions C15_refines_reference_plus_view.
Theorem C15_refines_reference_plus_char : forall s x c, fresh s -> str_ok (smem s) x ->
  okM (s_plus_char x c) s (plus_post s (txt (smem s) x ++ [c]) (or_own x (fun _ => False))).
Proof. exact plus_char_ok. Qed.
Print Assumptions C15_refines_reference_plus_char.
Theorem C15_refines_reference_append_view : forall s x v, fresh s -> str_ok (smem s) x -> valid_view (smem s) v ->
  okM (s_append_view x v) s (replaced s (sbuf x) (txt (smem s) x ++ vtext (smem s) v) (or_own x (within v))).
Proof. exact append_view_ok. Qed.
Print Assumptions C15_refines_reference_append_view.
Theorem C15_refines_reference_append_char_push_back : forall s x c, fresh s -> str_ok (smem s) x ->
  okM (s_append_char x c) s (replaced s (sbuf x) (txt (smem s) x ++ [c]) (or_own x (fun _ => False))) /\
  s_push_back = s_append_char.
Proof. exact append_char_ok. Qed.
Print Assumptions C15_refines_reference_append_char_push_back.

(* ---- compare / == : length first, then the first differing char (signed comparison), as the source defines it *)
Theorem C15_refines_reference_compare : forall ct s a b, str_ok (smem s) a -> str_ok (smem s) b ->
  okM (s_compare ct a b) s (fun z s' => z = cmp_ref ct (txt (smem s) a) (txt (smem s) b) /\
     exists rl, Forall (either (str_view a) (str_view b)) rl /\ s' = st_reads s rl).
Proof. exact s_compare_ok. Qed.
Print Assumptions C15_refines_reference_compare.
Theorem C15_refines_reference_compare_cstr : forall ct s a b o n, str_ok (smem s) a -> cstr_at (smem s) b o n ->
  okM (s_compare_cstr ct a (P b o)) s (fun z s' => z = cmp_ref ct (txt (smem s) a) (vtext (smem s) (V b o n)) /\
     exists rl, Forall (either (str_view a) (V b o (n + 1))) rl /\ s' = st_reads s rl).
Proof. exact s_compare_cstr_ok. Qed.
Print Assumptions C15_refines_reference_compare_cstr.
Theorem C15_refines_reference_compare_zero_iff_equal : forall ct a b, cmp_ref ct a b = 0%Z <-> a = b.
Proof. exact cmp_ref_zero. Qed.
Print Assumptions C15_refines_reference_compare_zero_iff_equal.
Theorem C15_refines_reference_string_starts_ends_with : forall s a v, str_ok (smem s) a -> valid_view (smem s) v ->
  okM (s_starts_with a v) s (fun r s' => (r = true <-> is_prefix (vtext (smem s) v) (txt (smem s) a)) /\
     exists rl, Forall (either (str_view a) v) rl /\ s' = st_reads s rl) /\
  okM (s_ends_with a v) s (fun r s' => (r = true <-> is_suffix (vtext (smem s) v) (txt (smem s) a)) /\
     exists rl, Forall (either (str_view a) v) rl /\ s' = st_reads s rl).
Proof. exact string_starts_ends_with_ok. Qed.
Print Assumptions C15_refines_reference_string_starts_ends_with.

(* ===== C15_terminator: whatever a string-producing operation returns owns a buffer of exactly len+1 bytes whose
   last byte is 0, and denotes the stated text (the three shapes of final state used above) ===== *)
Theorem C15_terminator : forall s text B r s',
  constructed s text B r s' \/ (exists old, replaced s old text B r s') \/ plus_post s text B r s' ->
  (exists b l, sbuf r = Some b /\ mem_get (smem s') b = Some l /\
               N.of_nat (length l) = slen r + 1 /\ bat l (slen r) = 0) /\
  txt (smem s') r = text.
Proof. exact terminator_of_posts. Qed.
Print Assumptions C15_terminator.

(* the same as a state invariant: after ANY script (Str/StrModel.op, any operands, self-aliasing, swap, detach, destroy)
   whose lines all end in Ok, every live string owns no buffer and has length 0 (default-constructed / detached:
   data() == nullptr by design), or owns a buffer of exactly len+1 bytes whose last byte is 0; and no two live
   strings share a buffer *)
Theorem C15_terminator_every_script : forall (ct : cty) (ops : list op) (w : world), run_ops (world0 ct) ops = Some w ->
  (forall k x, get_str w k = Some x ->
     match sbuf x with
     | None => slen x = 0
     | Some b => exists l, mem_get (smem (wst w)) b = Some l /\ N.of_nat (length l) = slen x + 1 /\ bat l (slen x) = 0
     end) /\
  (forall k1 k2 x1 x2 b, get_str w k1 = Some x1 -> get_str w k2 = Some x2 ->
     sbuf x1 = Some b -> sbuf x2 = Some b -> k1 = k2).
Proof. exact terminator_world. Qed.
Print Assumptions C15_terminator_every_script.

(* std::move(s) of a basic_string is a COPY (no move constructor / move assignment is declared): basic_string
   t(std::move(s)) yields the source's text in a fresh buffer on top of the unchanged memory; the source is untouched,
   so C15_terminator_every_script also covers every "moved-from" string *)
Theorem C15_move_is_copy : forall w k x, fresh (wst w) -> str_ok (smem (wst w)) x -> get_str w k = Some x ->
  exists r s', do_op w (OSMoveCtor k) (wst w) = (Ok (src_out k x s', FNewStr r), s') /\
               constructed (wst w) (txt (smem (wst w)) x) (within (str_view x)) r s'.
Proof. exact move_ctor_is_copy. Qed.
Print Assumptions C15_move_is_copy.

(* ===== C15_reads_in_bounds: a read range that lies within a valid view lies inside its buffer; all the
   operations above confine their reads to [within] their source views / own buffer (the B argument) ===== *)
Theorem C15_reads_in_bounds : forall m v r, valid_view m v -> within v r ->
  exists l, mem_get m (rb r) = Some l /\ ro r + rn r <= N.of_nat (length l).
Proof. exact within_in_mem. Qed.
Print Assumptions C15_reads_in_bounds.
(* the constructor from a view (D11 repaired): its only read is the view itself *)
Theorem C15_reads_in_bounds_ctor_view : forall s v, fresh s -> valid_view (smem s) v ->
  exists r s', s_from_view v s = (Ok r, s') /\
    exists rl, sreads s' = sreads s ++ rl /\ Forall (within v) rl.
Proof. exact ctor_view_reads. Qed.
Print Assumptions C15_reads_in_bounds_ctor_view.

(* the compare used for Char = char under its own name (the one the translator tie TIE_str speaks about) is the
   char instance of the width-generic compare *)
Theorem C15_compare_char_instance : forall m a bp n, compare_len_g m char_t a bp n = compare_len m a bp n.
Proof. exact compare_len_g_char. Qed.
Print Assumptions C15_compare_char_instance.

(* read ranges are in ELEMENTS; in bytes (element index x sizeof(Char), any character width cw ct) a range within a
   view lies inside the view's bytes and inside the buffer's bytes *)
Theorem C15_reads_in_bounds_bytes : forall (ct : cty) (m : mem) b off len r,
  valid_view m (V b off len) -> within (V b off len) r ->
  exists l, mem_get m (rb r) = Some l /\
            cw ct * off <= cw ct * ro r /\ cw ct * ro r + cw ct * rn r <= cw ct * (off + len) /\
            cw ct * (off + len) <= cw ct * N.of_nat (length l).
Proof. exact reads_in_bounds_bytes. Qed.
Print Assumptions C15_reads_in_bounds_bytes.

(* ===== C15_to_number ===== *)
Theorem C15_to_number : forall (m : mem) (t : ity) (v : view), valid_view m v ->
  exists (r : option N) (reads : list range), to_number m t v = (Ok r, reads) /\
    (forallb is_digit (vtext m v) = true -> dec (vtext m v) <= t_max t -> r = Some (dec (vtext m v))) /\
    (forallb is_digit (vtext m v) = true -> t_max t < dec (vtext m v) -> r = None) /\
    (forallb is_digit (vtext m v) = false -> r = None).
Proof. exact to_number_value. Qed.
Print Assumptions C15_to_number.

(* ===== non-vacuity ===== *)
Definition ex_mem : mem := [(1%nat, [97; 0; 98; 57]); (2%nat, [97; 0])].
Definition ex_st : st := mkSt ex_mem 3 [] [].
Example C15_ex_view_ops :   (* text a NUL b 9 : embedded NUL; flush against the end of the 4-byte buffer *)
  valid_view ex_mem (V 1 0 4) /\ valid_view ex_mem (V 1 2 2) /\
  find_first ex_mem (V 1 0 4) 57 1 = (Ok 3, [mkR 1 1 1; mkR 1 2 1; mkR 1 3 1]) /\
  fst (ends_with ex_mem (V 1 0 4) (V 1 2 2)) = Ok true /\
  fst (view_eq ex_mem (V 1 0 2) (V 2 0 2)) = Ok true /\
  cstr_at ex_mem 1 0 1.
Proof.
  split; [eexists; split; [reflexivity|vm_compute; discriminate]|].
  split; [eexists; split; [reflexivity|vm_compute; discriminate]|].
  split; [vm_compute; reflexivity|]. split; [vm_compute; reflexivity|]. split; [vm_compute; reflexivity|].
  eexists. split; [reflexivity|]. split; [vm_compute; reflexivity|]. split; [reflexivity|].
  intros j Hj. assert (j = 0) as -> by (destruct j; [reflexivity|destruct p; discriminate]). vm_compute. discriminate.
Qed.
Example C15_ex_string_ops :
  fresh ex_st /\ valid_view (smem ex_st) (V 1 0 4) /\
  (exists r s', s_from_view (V 1 0 4) ex_st = (Ok r, s') /\ txt (smem s') r = [97; 0; 98; 57] /\
     sreads s' = [mkR 1 0 4] /\
     exists r2 s2, s_plus_char r 0 s' = (Ok r2, s2) /\ txt (smem s2) r2 = [97; 0; 98; 57; 0] /\
       sevs s2 = [EAlloc 3 5; EAlloc 4 6; EAlloc 5 6; EFree 4]).
Proof.
  split.
  { intros b l. unfold ex_st, ex_mem. cbn [smem snext mem_get].
    destruct b as [|[|[|b]]]; cbn; intros H; try discriminate; auto with arith. }
  split; [eexists; split; [reflexivity|vm_compute; discriminate]|].
  eexists _, _. split; [vm_compute; reflexivity|]. split; [vm_compute; reflexivity|]. split; [vm_compute; reflexivity|].
  eexists _, _. split; [vm_compute; reflexivity|]. split; vm_compute; reflexivity.
Qed.

Example C15_ex_script :   (* a script with aliasing runs to Ok, so the invariant above applies to its final world *)
  exists w, run_ops (world0 char_t) [OBuf [97; 0; 98]; OSPtrLen 0 0 3; OSAppV 0 (EStr 0); OSResize 0 2 205; OSPlusC 0 0; OSSwap 0 1;
                            OSAssign 1 1; OSDetach 0] = Some w /\
            map (fun o => match o with Some x => Some (slen x) | None => None end) (wstrs w) = [Some 0; Some 2].
Proof. eexists. split; vm_compute; reflexivity. Qed.

Example C15_ex_wide :   (* char16_t: two views that agree in their first element (and in every low byte) but differ in the
                           second element are unequal; char16_t compares unsigned, wchar_t signed *)
  fst (view_eq [(1%nat, [97; 98; 97; 354])] (V 1 0 2) (V 1 2 2)) = Ok false /\
  fst (starts_with [(1%nat, [97; 98; 97; 354])] (V 1 0 2) (V 1 2 1)) = Ok true /\
  cmp_ref char16_t [65535] [1] = 1%Z /\ cmp_ref wchar_t [4294967295] [1] = (-1)%Z /\ cmp_ref char_t [255] [1] = (-1)%Z /\
  (exists w, run_ops (world0 char32_t) [OBuf [97; 65633]; OSPtrLen 0 0 2; OSAppC 0 0; OSHash 0] = Some w /\
             map (fun o => match o with Some x => Some (slen x) | None => None end) (wstrs w) = [Some 3]).
Proof. repeat split; try (vm_compute; reflexivity). eexists. split; vm_compute; reflexivity. Qed.

Example C15_ex_move :   (* move-construct, move-assign (also onto itself), pass by value, then keep using the source *)
  exists w, run_ops (world0 char_t) [OBuf [97; 98; 0]; OSCstr 0 0; OSMoveCtor 0; OSMoveAssign 1 0; OSMoveAssign 0 0; OSByVal 0;
                                     OSAppC 0 99; OSResize 0 1 205; OSCopy 0; OSDel 0; OTraits] = Some w /\
            map (fun o => match o with Some x => Some (slen x) | None => None end) (wstrs w) = [None; Some 2; Some 1].
Proof. eexists. split; vm_compute; reflexivity. Qed.
