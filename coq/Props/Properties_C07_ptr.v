(* Properties_C07_ptr.v — C07 on the POINTER level: frg::interval_tree run on the assignment-by-assignment model of
   rbtree.hpp (Rb/RbPtr.v) with the interval aggregator (subtree_max; aggregate returns "changed"; aggregate_path stops at
   the first unchanged ancestor).  Statements only; proofs in coq/Rb/RbPtrAnnot*.v, RbPtrRefineTop.v, RbPtrHistory.v,
   RbPtrInterval.v.

     p_iinsert / p_iremove      interval_tree::insert (FRG_ASSERT(lower <= upper); subtree_max = upper; _rbtree.insert) / remove
     p_for_overlaps             for_overlaps -> _for_overlaps_in_subtree transliterated on the heap: it reads get_left /
                                get_right and h(left)->subtree_max of the HEAP
     repr_a s t                 the heap s represents t: all links and colours = layout t, and the subtree_max FIELD of
                                every member = the annotation t carries there

   The early-stop argument used here is local (RbPtrAnnot.aggregate_path_annots: an unchanged node makes every equation above
   it still hold); the zipper-level facts of Interval/IntervalPath.v (C07_early_stop_sound and its variants) are about the same walk on the
   functional side and are not needed for it. *)
From Coq Require Import NArith List Bool Lia PeanoNat Sorted Permutation.
From FV Require Import Rb.RbModel Rb.RbInorder Rb.RbInvariant Rb.RbLayout Rb.RbHistory Rb.RbAnnot Rb.RbPtr Rb.RbPtrBase
  Rb.RbPtrAnnot Rb.RbPtrRefineTop Rb.RbPtrHistory Rb.RbPtrInterval Interval.IntervalModel Interval.IntervalProofs.
Import ListNotations.
Local Open Scope N_scope.

(* the interval aggregator: "changed?" is decided by ==, and max is invariant under rotation — which the C++ relies on:
   rotateLeft / rotateRight re-aggregate only the two rotated nodes, not their ancestors *)
Theorem C07_ptr_aggregator_ok : agg_ok iagg N.eqb.
Proof. exact iagg_ok. Qed.

(* the lower <= upper assertion of interval_tree::insert, on the pointer level *)
Theorem C07_ptr_assert : forall fuel (s : pstate N) ek (x : ielt),
  ~ wf x -> p_iinsert fuel s ek x = PAssert 73.
Proof. intros fuel s ek x H. unfold p_iinsert, wf in *. destruct (N.leb_spec (ilo x) (ihi x)); [contradiction|reflexivity]. Qed.

(* every history: the pointer-level run returns normally and the heap represents the functional tree INCLUDING the
   subtree_max field of every member *)
Theorem C07_ptr_subtree_max_fields : forall (ops : list (op ielt)) (t : itree) (fuel : nat),
  ids_fresh iid iless ops -> irun ops = Some t -> (2 * Nat.log2 (length ops + 1) + 2 < fuel)%nat ->
  exists s' ek', p_irun fuel ops = POk (s', ek')
                 /\ repr_a ielt N iid s' t /\ keys_ok ielt N iid ek' t /\ NoDup (map iid (inorder t)).
Proof. exact p_irun_refines. Qed.

(* the search on a heap that represents t reports exactly the functional for_overlaps, in the same call order *)
Theorem C07_ptr_for_overlaps : forall (s : pstate N) ek (t : itree) lb ub (fuel : nat),
  NoDup (map iid (inorder t)) -> repr_a ielt N iid s t -> keys_ok ielt N iid ek t -> (height t <= fuel)%nat ->
  p_for_overlaps fuel s ek lb ub = POk (for_overlaps lb ub t).
Proof. exact p_for_overlaps_exact. Qed.

(* everything: after ANY history the subtree_max fields of the heap are exact (the maximum upper bound of the subtree),
   and for_overlaps ON THE HEAP calls fn exactly once for every stored interval that overlaps [lb, ub] and for no other *)
Theorem C07_ptr_history : forall (ops : list (op ielt)) (t : itree) (fuel : nat),
  ids_fresh iid iless ops -> irun ops = Some t -> (2 * Nat.log2 (length ops + 1) + 2 < fuel)%nat ->
  exists s' ek', p_irun fuel ops = POk (s', ek')
    /\ repr_a ielt N iid s' t                                                  (* links, colours, subtree_max fields *)
    /\ annot_exact t                                                           (* ... which are the subtree maxima *)
    /\ forall lb ub, lb <= ub ->
         exists out, p_for_overlaps fuel s' ek' lb ub = POk out
                     /\ Permutation out (map iid (filter (ovl_spec lb ub) (inorder t)))
                     /\ NoDup out
                     /\ (forall i, In i out <-> exists e, In e (inorder t) /\ iid e = i /\ ilo e <= ub /\ lb <= ihi e).
Proof.
  intros ops t fuel Hfresh Hrun Hf.
  destruct (p_irun_refines ops t fuel Hfresh Hrun Hf) as (s' & ek' & A & B & K & Nd).
  destruct (history_interval ops t Hfresh Hrun) as (_ & _ & _ & _ & Hrb & Hh & Hx & Hq).
  exists s', ek'. split; [exact A|]. split; [exact B|]. split; [exact Hx|].
  intros lb ub Hlu. exists (for_overlaps lb ub t). split; [|exact (Hq lb ub Hlu)].
  apply (p_for_overlaps_exact s' ek' t lb ub fuel Nd B K).
  assert (Hsz : (size t <= length ops)%nat).
  { unfold irun in Hrun. pose proof (irun_some_wf _ _ _ Hrun) as Hw. pose proof (irun_rb ops E Hw) as R.
    assert (t = fold_left (rb_step iid iless iagg) ops E) as -> by (unfold itree in *; congruence).
    destruct (history_all ielt N iid iless iagg iless_asym iless_negtrans ops Hfresh) as (H1 & _).
    rewrite (size_length ielt N), H1. clear.
    assert (G : forall (os : list (op ielt)) (l : list ielt), (length (fold_left (list_step iid iless) os l) <= length os + length l)%nat).
    { induction os as [|o os IH]; intros l; [cbn; lia|]. cbn [fold_left]. change (length (o :: os)) with (S (length os)). specialize (IH (list_step iid iless l o)).
      assert ((length (list_step iid iless l o) <= S (length l))%nat).
      { destruct o as [x|i]; cbn [list_step].
        - clear. induction l as [|y l IHl]; cbn [ins_stable length]; [lia|]. destruct (iless x y); cbn [length]; lia.
        - clear. induction l as [|y l IHl]; cbn [filter length]; [lia|]. destruct (not_id iid i y); cbn [length]; lia. }
      lia. }
    specialize (G ops []). cbn [length] in G. lia. }
  assert ((Nat.log2 (size t + 1) <= Nat.log2 (length ops + 1))%nat) by (apply Nat.log2_le_mono; lia). lia.
Qed.

Print Assumptions C07_ptr_aggregator_ok.
Print Assumptions C07_ptr_assert.
Print Assumptions C07_ptr_subtree_max_fields.
Print Assumptions C07_ptr_for_overlaps.
Print Assumptions C07_ptr_history.

(* ---- non-vacuity: a concrete history with nested / touching / duplicate-lower-bound intervals, removals of the root and of
   nodes with two children; the subtree_max fields of the heap and three queries through the pointer-level search *)
Definition c07p_ops : list (op ielt) :=
  [OIns (mkI 10 20 0); OIns (mkI 5 30 1); OIns (mkI 15 16 2); OIns (mkI 10 12 3); OIns (mkI 1 2 4); OIns (mkI 25 40 5);
   OIns (mkI 7 8 6); ORem 1; OIns (mkI 3 50 7); ORem 0; OIns (mkI 11 11 8); ORem 5; OIns (mkI 5 9 1)].

Example C07_ptr_demo_hypotheses :
  ids_fresh iid iless c07p_ops /\ (exists t, irun c07p_ops = Some t) /\ (2 * Nat.log2 (length c07p_ops + 1) + 2 < 12)%nat.
Proof. split; [vm_compute; repeat split; intuition discriminate|]. split; [eexists; vm_compute; reflexivity|vm_compute; lia]. Qed.

Example C07_ptr_demo :
  match p_irun 12 c07p_ops, irun c07p_ops with
  | POk (s', ek'), Some t =>
      areq iid (p_annots s') t
      /\ map (fun e => (iid e, p_annots s' (iid e))) (inorder t) = maxes t
      /\ p_for_overlaps 12 s' ek' 8 10 = POk (for_overlaps 8 10 t)
      /\ p_for_overlaps 12 s' ek' 8 10 = POk [6; 7; 1; 3]
      /\ p_for_overlaps 12 s' ek' 60 70 = POk []
      /\ p_for_overlaps 12 s' ek' 0 100 = POk (for_overlaps 0 100 t)
  | _, _ => False
  end.
Proof. vm_compute. intuition reflexivity. Qed.
