(* C20, cmdline part: frg::parse_arguments is memory-safe and total on arbitrary input
   (DESIGN section 4, C20), for EVERY byte list as command line and EVERY option table. *)
From Coq Require Import List NArith Bool.
From FV Require Import Str.StrModel Str.StrProofs Str.StrNumProofs Cmdline.CmdlineModel Cmdline.CmdlineProofs.
Import ListNotations.
Local Open Scope N_scope.

(* The command line is a buffer of exactly n = length cl bytes (n < 2^64: it is a size_t), the option names
   are separate exact-size buffers.  [run_cmdline] runs parse_loop with fuel n + 1 (CmdlineModel.parse_fuel).
   - the table is arbitrary: names, has_arg flags and handlers (entries with a null handler included);
   - it never ends in UB (in particular no UB oob: every byte read goes through the bounds-checked read)
     and never runs out of fuel: it ends Ok or in the assertion hook (AssertStop);
   - every byte it read lies inside a buffer of the memory (IRead items);
   - every view handed to an option callback (IApply items) is null or (buffer 0, off, len) with off+len <= n. *)
Theorem C20_cmdline_total_safe : forall (tbl : list tentry) (cl : list byte) (null_cl : bool),
  N.of_nat (length cl) < W64 ->
  match run_cmdline tbl cl null_cl with
  | (Ok _, items) => Forall (run_item_ok tbl cl) items
  | (AssertStop _, items) => Forall (run_item_ok tbl cl) items
  | (UB _, _) => False
  | (OutOfFuel, _) => False
  end.
Proof. exact run_cmdline_safe. Qed.
Print Assumptions C20_cmdline_total_safe.

(* general form, fuel spelled out: any command-line view lying inside a buffer of any memory, any option table
   whose name views are valid; [safeT m cl c _] = c ends Ok/AssertStop, its reads are inside buffers of m,
   its callback views are valid and lie inside cl *)
Theorem C20_cmdline_total_safe_view : forall (m : mem) (cl : view) (opts : list copt),
  valid_view m cl -> vlen cl < W64 -> Forall (valid_opt m) opts ->
  safeT m cl (parse_loop m sub_string opts (S (N.to_nat (vlen cl))) cl) (fun _ => True).
Proof. exact parse_loop_total_safe. Qed.
Print Assumptions C20_cmdline_total_safe_view.

(* option::apply asserts fn.ptr: an option with a NULL handler (has_fn = false in the table; any table is allowed by
   C20_cmdline_total_safe) that is named on the command line in the matching shape ends in the assertion hook --
   an outcome C20 allows -- and never in a call through the null pointer; not named / wrong shape: no stop *)
Theorem C20_cmdline_null_handler_stops :
  fst (run_cmdline [([100], false, false)] [100] false) = AssertStop a_option_apply /\
  fst (run_cmdline [([99], true, false)] [120; 32; 99; 61; 49; 32; 121] false) = AssertStop a_option_apply /\
  fst (run_cmdline [([99], true, false)] [120; 32; 99; 32; 121] false) = Ok tt.
Proof. exact null_handler_stops. Qed.
Print Assumptions C20_cmdline_null_handler_stops.

(* the assertion stop is reachable and is what an unbalanced quote ends in (D32 repaired) *)
Theorem C20_cmdline_unbalanced_quote_stops :
  fst (run_cmdline [([97], true, true)] d32_cl false) = AssertStop a_sub_string.
Proof. exact unbalanced_quote_stops. Qed.
Print Assumptions C20_cmdline_unbalanced_quote_stops.

(* history (D32): with the bound check of the code before the repair, from + size <= _length computed mod 2^64,
   the same input leaves the buffer *)
Theorem C20_cmdline_refuted_before_fix :
  fst (run_cmdline_with (sub_string_with chk_wrapping) [([97], true, true)] d32_cl false) = UB oob.
Proof. exact parse_wrapping_check_refuted. Qed.
Print Assumptions C20_cmdline_refuted_before_fix.

(* composition with the to_number parser (as_number<T> options): whatever view a callback receives during a run,
   to_number<T> on it ends Ok (value or null_opt) and reads only inside buffers *)
Theorem C20_cmdline_as_number_safe : forall (tbl : list tentry) (cl : list byte) (null_cl : bool) (t : ity),
  N.of_nat (length cl) < W64 ->
  forall idx v, In (IApply idx v) (snd (run_cmdline tbl cl null_cl)) ->
  exists r reads, to_number (run_mem tbl cl) t v = (Ok r, reads) /\ Forall (in_mem (run_mem tbl cl)) reads.
Proof. exact run_apply_view_to_number. Qed.
Print Assumptions C20_cmdline_as_number_safe.

Example C20_cmdline_ex1 :   (* foo bar=x "baz=a b" z   with options foo, bar=, baz= : three callbacks, 2nd and 3rd inside *)
  let cl := [102;111;111;32;98;97;114;61;120;32;34;98;97;122;61;97;32;98;34;32;122] in
  let tbl := [([102;111;111], false, true); ([98;97;114], true, true); ([98;97;122], true, true)] in
  fst (run_cmdline tbl cl false) = Ok tt /\
  filter (fun it => match it with IApply _ _ => true | _ => false end) (snd (run_cmdline tbl cl false))
    = [IApply 0 VNull; IApply 1 (V 0 8 1); IApply 2 (V 0 15 3)].
Proof. vm_compute. split; reflexivity. Qed.

Example C20_cmdline_ex2 :   (* n=12 with an as_number<unsigned char> option: the callback view is (0, 2, 2), the target becomes 12 *)
  snd (run_cmdline_targets [([110], true, true)] [KNum (mkT false 8)] [110; 61; 49; 50] false) = [TNum 12] /\
  In (IApply 0 (V 0 2 2)) (snd (run_cmdline [([110], true, true)] [110; 61; 49; 50] false)).
Proof. split; [vm_compute; reflexivity|]. vm_compute. intuition. Qed.
