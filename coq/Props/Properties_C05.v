(* C05  Slab pool under concurrency: lock discipline of the GENERATED skeleton, and its consequences for every
   number of threads, every per-thread script of API operations and every scheduler.
   Statements only; proofs are in SlabConc/{SkeletonSound,ConcProofs,ConcInst,AllocProofs}.v. *)
From Coq Require Import List String Bool Arith.
From FV Require Import SlabConc.Skeleton SlabConc.SkeletonSound SlabConc.SmallStepSound SlabConc.Shapes SlabConc.ShapesSound.
From FV Require Import SlabConc.ConcModel SlabConc.ConcProofs SlabConc.ConcInst SlabConc.AllocModel SlabConc.AllocProofs.
From FV Require Import Gen.SlabSkeleton.
Import ListNotations.
Open Scope string_scope.
Open Scope list_scope.

(* ---- generated obligation: the skeleton regenerated from /repo's slab.hpp passes the checker ---- *)
Theorem skeleton_disciplined : check_skeleton Gen.SlabSkeleton.actual = true.
Proof. vm_compute. reflexivity. Qed.
Print Assumptions skeleton_disciplined.

Example skeleton_checker_rejects :
  check_skeleton bad_map_under_lock = false /\ check_skeleton bad_unmap_in_tree_scope = false /\
  check_skeleton bad_no_relock = false /\ check_skeleton bad_touch_after_unlock = false /\
  check_skeleton bad_no_tree_guard = false /\ check_skeleton bad_two_locks = false /\
  check_skeleton bad_locked_at_early_return = false /\ check_skeleton bad_loop_leaks_lock = false /\
  check_skeleton bad_published_slab = false /\ check_skeleton good_private_slab = true.
Proof. vm_compute. repeat split; reflexivity. Qed.

(* ---- soundness of the checker, for any skeleton ---- *)
Theorem skeleton_checker_sound :
  forall fs, check_skeleton fs = true ->
  forall f tr, In f api -> api_trace fs f tr -> disciplined s0 tr.
Proof. exact check_skeleton_sound. Qed.
Print Assumptions skeleton_checker_sound.

(* the same for the small-step semantics: every PARTIAL execution (stack of frames, one construct at a time) of a
   checked API function is accepted by the monitor at every event *)
Theorem skeleton_checker_sound_small_step :
  forall fs, check_skeleton fs = true ->
  forall f b t c', In f api -> lookup fs f = Some b -> ssteps fs [[b]] t c' -> disciplined s0 t.
Proof. exact check_skeleton_sound_small_step. Qed.
Print Assumptions skeleton_checker_sound_small_step.

Example skeleton_checker_sound_nonvacuous :
  api_trace actual "allocate" tr_alloc_slow /\ In (EPolicy "map") tr_alloc_slow /\
  In (ELock "allocate.bucket_guard" MB) tr_alloc_slow /\ In (ELock "allocate.tree_guard" MT) tr_alloc_slow /\
  api_trace actual "allocate" tr_alloc_fast /\ In (EAccess "available" W "allocate.slb") tr_alloc_fast.
Proof.
  assert (Hs : follow_api actual 1 "allocate" ch_alloc_slow = Some tr_alloc_slow) by (vm_compute; reflexivity).
  assert (Hf : follow_api actual 1 "allocate" ch_alloc_fast = Some tr_alloc_fast) by (vm_compute; reflexivity).
  split; [eapply follow_api_trace; exact Hs|].
  split; [vm_compute; tauto|]. split; [vm_compute; tauto|]. split; [vm_compute; tauto|].
  split; [eapply follow_api_trace; exact Hf|]. vm_compute; tauto.
Qed.

(* ---- the matcher of the model-vs-implementation tie: every word of [shapes actual f] (the set against which the
        harness's per-call lock/unlock/callback logs are compared) is the observation of a genuine path-trace ---- *)
Theorem skeleton_shapes_are_path_traces :
  forall f w, In w (shapes actual f) ->
    exists tr, api_trace actual f tr /\ rev (fst (obs_run ([], None) tr)) = w.
Proof. exact (shapes_sound actual). Qed.
Print Assumptions skeleton_shapes_are_path_traces.

Example skeleton_shapes_nonvacuous :
  In ["LB"; "UB"; "P:map"; "LT"; "UT"; "LB"; "UB"] (shapes actual "allocate") /\
  In ["LB"; "UB"; "P:map"] (shapes actual "allocate") /\
  In ["LT"; "UT"; "P:unmap"] (shapes actual "free") /\
  ~ In ["LB"; "P:map"; "UB"] (shapes actual "allocate") /\
  rev (fst (obs_run ([], None) tr_alloc_slow)) = ["LB"; "UB"; "P:map"; "LT"; "UT"; "LB"; "UB"].
Proof. vm_compute. repeat split; try tauto. intro H. repeat (destruct H as [H|H]; [discriminate H|]). exact H. Qed.

(* ---- C05_lock_discipline, instantiated with the generated skeleton:
        on every path (early `return nullptr` paths included) of every API function, at every event:
        a lock is taken only when none is held (never two), unlock() only on the owning guard, every access to a
        bucket-protected field under the bucket lock (or on a slab/object still private to the thread), every
        access to _usedPages under _tree_mutex, header fields written only before publication, EVERY policy
        callback (map, unmap, poison, unpoison, ...) with no pool lock held, no lock held at return;
        and the micro-op projection of the trace (for every assignment of bucket indices) is disciplined. ---- *)
Theorem C05_lock_discipline :
  forall f tr, In f api -> api_trace actual f tr ->
    (forall pre e post, tr = pre ++ e :: post -> exists s1, run_mon s0 pre = Some s1 /\ event_ok s1 e) /\
    (forall idx, mdisc None (project_api idx tr) = true).
Proof.
  intros f tr Hf Ht. split.
  - exact (lock_discipline_events skeleton_disciplined f tr Hf Ht).
  - intro idx. exact (lock_discipline_mops skeleton_disciplined f tr idx Hf Ht).
Qed.
Print Assumptions C05_lock_discipline.

Example C05_lock_discipline_nonvacuous :
  project_api (fun _ => 3) tr_alloc_slow =
    [LockB 3; MBody (LB 3); UnlockB 3; PolicyMap] ++ skipn 4 (project_api (fun _ => 3) tr_alloc_slow) /\
  In LockT (project_api (fun _ => 3) tr_alloc_slow) /\ In (MBody LT) (project_api (fun _ => 3) tr_alloc_slow) /\
  mdisc None (project_api (fun _ => 3) tr_alloc_slow) = true /\
  mdisc None [LockB 3; PolicyMap; UnlockB 3; MRet] = false /\ mdisc None [LockB 3; LockT; UnlockT; UnlockB 3; MRet] = false /\
  mdisc None [LockB 3; MRet] = false /\ mdisc None [LockB 3; UnlockB 3; MBody (LB 3); MRet] = false.
Proof. vm_compute. repeat split; tauto. Qed.

(* ---- the thread pool: for every number of threads (tid = nat, idle threads have the empty script), every
        per-thread script of API operations (each a path-trace of the generated skeleton), every scheduler ---- *)

(* a Body protected by lock l is only ever executed by the owner of l: two threads are never simultaneously at
   bodies protected by the same lock.  With the access table of the skeleton (every access to head_slb,
   partial_tree and hooks, available, num_reserved, free-object links is a Body of its bucket lock; _usedPages a
   Body of the tree lock) this is data-race freedom on pool state. *)
Theorem C05_mutual_exclusion_of_bodies :
  forall prog, (forall t, script_ok (prog t)) ->
  forall sched t1 t2 l, let s := run sched (init prog) in
    (at_body s t1 l -> owner s l = Some t1) /\
    (at_body s t1 l -> at_body s t2 l -> t1 = t2).
Proof.
  intros prog Hp sched t1 t2 l s.
  pose proof (reachable_inv skeleton_disciplined prog sched Hp) as HI. split.
  - exact (body_under_lock _ HI t1 l).
  - exact (bodies_exclusive _ HI t1 t2 l).
Qed.
Print Assumptions C05_mutual_exclusion_of_bodies.

Theorem C05_policy_called_without_locks :
  forall prog, (forall t, script_ok (prog t)) ->
  forall sched t f l, let s := run sched (init prog) in
    at_policy s t f -> owner s l <> Some t.
Proof.
  intros prog Hp sched t f l s. exact (policy_without_locks _ (reachable_inv skeleton_disciplined prog sched Hp) t f l).
Qed.
Print Assumptions C05_policy_called_without_locks.

Theorem C05_at_most_one_lock_none_at_return :
  forall prog, (forall t, script_ok (prog t)) ->
  forall sched t, let s := run sched (init prog) in
    (forall l1 l2, owner s l1 = Some t -> owner s l2 = Some t -> l1 = l2) /\
    (forall l, at_ret s t -> owner s l <> Some t) /\
    (forall l, rest s t = [] -> owner s l <> Some t).
Proof.
  intros prog Hp sched t s. pose proof (reachable_inv skeleton_disciplined prog sched Hp) as HI.
  split; [exact (at_most_one_lock _ HI t)|]. split; intro l; [exact (return_without_locks _ HI t l)|exact (finished_without_locks _ HI t l)].
Qed.
Print Assumptions C05_at_most_one_lock_none_at_return.

(* in every reachable state in which some operation is still in flight some thread has an enabled step; whoever
   holds a lock is enabled and reaches the unlock of that lock through steps that never block (to_unlock own
   steps); an enabled step consumes exactly one micro-op of its thread and none of the others, so an operation of
   k micro-ops is complete after k enabled steps of its own thread, whatever the others do. *)
Theorem C05_no_deadlock :
  forall prog, (forall t, script_ok (prog t)) ->
  forall sched, let s := run sched (init prog) in
    ((exists t, rest s t <> []) -> exists t, enabled s t) /\
    (forall t l, owner s l = Some t ->
       enabled s t /\ exists pre r, rest s t = pre ++ MUnlock l :: r /\ Forall nonblocking pre /\
                                    to_unlock (rest s t) = S (List.length pre)) /\
    (forall t, enabled s t ->
       rest (step s t) t = tl (rest s t) /\ forall t', t' <> t -> rest (step s t) t' = rest s t') /\
    (forall t, ~ enabled s t -> step s t = s).
Proof.
  intros prog Hp sched s. pose proof (reachable_inv skeleton_disciplined prog sched Hp) as HI.
  split; [exact (no_deadlock_state _ HI)|]. split.
  - intros t l Ho. split; [exact (holder_enabled _ HI t l Ho)|exact (holder_releases _ HI t l Ho)].
  - split; [exact (step_progress s)|exact (step_disabled s)].
Qed.
Print Assumptions C05_no_deadlock.

(* two threads run the fast path of allocate on the same bucket: after thread 0 took the lock, thread 1 is at its
   LockB and blocked, thread 0 is at a body of the bucket and enabled; after 0 ran to its unlock, 1 gets in *)
Example C05_pool_nonvacuous :
  (forall t, script_ok (ex_prog t)) /\
  let s := run [0; 1; 1; 0] (init ex_prog) in
    at_body s 0 (LB 3) /\ rest s 1 <> [] /\ ~ enabled s 1 /\ enabled s 0 /\ owner s (LB 3) = Some 0 /\
    let s' := run ([0; 1; 1; 0] ++ repeat 0 60 ++ [1; 1]) (init ex_prog) in
      rest s' 0 = [] /\ at_body s' 1 (LB 3) /\ owner s' (LB 3) = Some 1.
Proof.
  split.
  - intro t. unfold ex_prog. destruct (Nat.ltb t 2).
    + exists [project_api (fun _ => 3) tr_alloc_fast]. split; [|cbn [List.concat]; rewrite app_nil_r; reflexivity].
      constructor; [|constructor]. exists "allocate", tr_alloc_fast, (fun _ => 3).
      split; [vm_compute; tauto|]. split; [|reflexivity].
      eapply follow_api_trace with (k := 1) (ch := ch_alloc_fast). vm_compute. reflexivity.
    + exists []. split; [constructor|reflexivity].
  - vm_compute. repeat split; try (eexists; reflexivity); try discriminate; tauto.
Qed.

(* ---- the data layer: the abstract allocator of SlabConc/AllocModel.v (per-bucket free lists, private slabs
        under construction, owned blocks, the page counter; every read-modify-write of lock-protected state split
        into a read and a later write; paths chosen at run time by the data), for every number of threads, every
        per-thread script of allocate/free operations (frees of blocks allocated by other threads included: the
        precondition is only that the caller owns the block when it frees it), every scheduler ---- *)

(* obligation: the lock shapes of the data model's pc paths are path shapes of the generated skeleton *)
Theorem skeleton_matches_model :
  forallb (fun x : string * list pcs =>
             existsb (fun w => if list_eq_dec string_dec w (shape_of_path (snd x)) then true else false)
                     (shapes Gen.SlabSkeleton.actual (fst x))) model_paths = true.
Proof. vm_compute. reflexivity. Qed.
Print Assumptions skeleton_matches_model.

(* C05_invariant_all_interleavings, consequence 1: no block is handed out twice.  A block owned by a thread is
   owned once, by nobody else, is not the object any other in-flight operation is about to return or push, is not
   part of a slab under construction, and is not in any bucket's free list. *)
Theorem C05_no_double_handout :
  forall scripts sched t b, let s := arun sched (ainit scripts) in
    In b (mine (thr s t)) ->
    NoDup (mine (thr s t)) /\
    (forall t', t' <> t -> ~ In b (mine (thr s t')) /\ cur (thr s t') <> Some b /\ ~ In b (slab (thr s t'))) /\
    (forall i, ~ In b (avail s i)).
Proof. intros scripts sched t b s. exact (no_double_handout s (AInv_reachable scripts sched) t b). Qed.
Print Assumptions C05_no_double_handout.

(* consequence 2: the free lists stay well formed in every interleaving, and while a thread holds a bucket lock
   between its read and its write the snapshot it read is still the bucket's current content; the mutex state
   always agrees with the pcs (so at most one thread is inside a critical section of a lock) *)
Theorem C05_free_lists_consistent :
  forall scripts sched, let s := arun sched (ainit scripts) in
    (forall i, NoDup (avail s i) /\ (forall b, In b (avail s i) -> fst b = i) /\
               (forall b j, In b (avail s i) -> In b (avail s j) -> i = j) /\
               (forall b t, In b (avail s i) -> ~ In b (hb (thr s t)))) /\
    (forall t i, pc (thr s t) = A2 i \/ pc (thr s t) = S9 i \/ pc (thr s t) = F3 i -> snap (thr s t) = avail s i) /\
    (forall t l, aowner s l = Some t <-> lock_of_pc (pc (thr s t)) = Some l).
Proof.
  intros scripts sched s. pose proof (AInv_reachable scripts sched) as HI.
  split; [exact (free_objects_consistent s HI)|]. split; [exact (snapshot_current s HI)|exact (lock_state_matches_pc s HI)].
Qed.
Print Assumptions C05_free_lists_consistent.

(* C05_linearizable_partial: the commit log (one entry per completed allocate, appended at its return step, one
   per free, appended at its first step; commit_points) is a legal history of the abstract allocator -- every
   allocation hands out a block that is not live at that point of the history, every free releases a live one --
   the blocks live according to the history are exactly the blocks owned by the threads, and the page counter
   equals the number of accounting updates performed (no lost update).
   FULL STATEMENT NOT PROVED ("behaves like some sequential order of those calls" for the CONCRETE pool of C01):
   what is abstracted is (1) the per-slab structure of a bucket's free objects, the partial tree's order and the
   choice of head_slb -- avail i is the union of the slabs' lists; (2) addresses, sizes, frame headers,
   poisoning and large blocks; (3) Policy::map returns fresh names.  As DESIGN.md says, the sequential order is
   with respect to the abstract allocator: two threads that find a class empty both map a slab, which no
   sequential run of the deterministic pool does. *)
Theorem C05_linearizable_partial :
  forall scripts sched, let s := arun sched (ainit scripts) in
    legal (hist s) /\
    (forall b, In b (live (hist s)) <-> exists t, In b (mine (thr s t))) /\
    used s = acc s /\
    (forall t, hist (astep s t) = hist s \/
               exists e, hist (astep s t) = e :: hist s /\ (pc (thr s t) = ARet \/ pc (thr s t) = Idle)).
Proof.
  intros scripts sched s. pose proof (AInv_reachable scripts sched) as HI.
  destruct (history_legal s HI) as [H1 H2]. split; [exact H1|]. split; [exact H2|]. split; [exact (no_lost_update s HI)|].
  intro t. exact (commit_points s t).
Qed.
Print Assumptions C05_linearizable_partial.

(* every step of the data model is a micro-op that the lock discipline allows in the lock state of its pc *)
Theorem C05_data_model_disciplined :
  forall p m, mop_of_pc p = Some m -> mstep (lock_of_pc p) m <> None.
Proof. exact data_steps_disciplined. Qed.
Print Assumptions C05_data_model_disciplined.

(* Non-vacuity: thread 0 maps a slab of three objects of class 3 and keeps one; then threads 1 and 2 interleave
   step by step.  With the mutex semantics they end up with different blocks and the history is
   [alloc (3,0); alloc (3,1); alloc (3,2)].  With a lock() that excludes nobody (astep_nolock) the SAME schedule
   hands block (3,1) to both threads: the model can express the failure, the theorem excludes it. *)
Example C05_no_double_handout_nonvacuous :
  let s1 := arun ex_first (ainit ex_scripts) in
  avail s1 3 = [(3, 1); (3, 2)] /\ mine (thr s1 0) = [(3, 0)] /\ used s1 = 1 /\
  let s_locked := arun (ex_racy ++ [2; 2; 2; 2; 2; 2]) s1 in
  mine (thr s_locked 1) = [(3, 1)] /\ mine (thr s_locked 2) = [(3, 2)] /\
  hist s_locked = [HAlloc 2 (3, 2); HAlloc 1 (3, 1); HAlloc 0 (3, 0)] /\
  let s_racy := fold_left astep_nolock ex_racy s1 in
  mine (thr s_racy 1) = [(3, 1)] /\ mine (thr s_racy 2) = [(3, 1)].
Proof. vm_compute. repeat split; reflexivity. Qed.
