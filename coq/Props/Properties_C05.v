(* C05  Slab pool under concurrency: lock discipline of the GENERATED skeleton, and its consequences for every
   number of threads, every per-thread script of API operations and every scheduler.
   Statements only; proofs are in SlabConc/{SkeletonSound,ConcProofs,ConcInst,AllocProofs}.v. *)
From Coq Require Import List String Bool Arith.
From FV Require Import SlabConc.Skeleton SlabConc.SkeletonSound SlabConc.ConcModel SlabConc.ConcProofs SlabConc.ConcInst.
From FV Require Import Gen.SlabSkeleton.
Import ListNotations.
Open Scope string_scope.
Open Scope list_scope.

(* ---- generated obligation: the skeleton regenerated from /repo's slab.hpp passes the checker ---- *)
Theorem skeleton_disciplined : check_skeleton Gen.SlabSkeleton.actual = true.
Proof. vm_compute. reflexivity. Qed.
Print Assumptions skeleton_disciplined.

Example skeleton_checker_rejects :
  check_skeleton bad_map_under_lock = false /\ check_skeleton bad_unmap_in_tree_scope = false /\
  check_skeleton bad_no_relock = false /\ check_skeleton bad_touch_after_unlock = false /\
  check_skeleton bad_no_tree_guard = false /\ check_skeleton bad_two_locks = false /\
  check_skeleton bad_locked_at_early_return = false /\ check_skeleton bad_loop_leaks_lock = false /\
  check_skeleton bad_published_slab = false /\ check_skeleton good_private_slab = true.
Proof. vm_compute. repeat split; reflexivity. Qed.

(* ---- soundness of the checker, for any skeleton ---- *)
Theorem skeleton_checker_sound :
  forall fs, check_skeleton fs = true ->
  forall f tr, In f api -> api_trace fs f tr -> disciplined s0 tr.
Proof. exact check_skeleton_sound. Qed.
Print Assumptions skeleton_checker_sound.

Example skeleton_checker_sound_nonvacuous :
  api_trace actual "allocate" tr_alloc_slow /\ In (EPolicy "map") tr_alloc_slow /\
  In (ELock "allocate.bucket_guard" MB) tr_alloc_slow /\ In (ELock "allocate.tree_guard" MT) tr_alloc_slow /\
  api_trace actual "allocate" tr_alloc_fast /\ In (EAccess "available" W "allocate.slb") tr_alloc_fast.
Proof.
  assert (Hs : follow_api actual 1 "allocate" ch_alloc_slow = Some tr_alloc_slow) by (vm_compute; reflexivity).
  assert (Hf : follow_api actual 1 "allocate" ch_alloc_fast = Some tr_alloc_fast) by (vm_compute; reflexivity).
  split; [eapply follow_api_trace; exact Hs|].
  split; [vm_compute; tauto|]. split; [vm_compute; tauto|]. split; [vm_compute; tauto|].
  split; [eapply follow_api_trace; exact Hf|]. vm_compute; tauto.
Qed.

(* ---- C05_lock_discipline, instantiated with the generated skeleton:
        on every path (early `return nullptr` paths included) of every API function, at every event:
        a lock is taken only when none is held (never two), unlock() only on the owning guard, every access to a
        bucket-protected field under the bucket lock (or on a slab/object still private to the thread), every
        access to _usedPages under _tree_mutex, header fields written only before publication, EVERY policy
        callback (map, unmap, poison, unpoison, ...) with no pool lock held, no lock held at return;
        and the micro-op projection of the trace (for every assignment of bucket indices) is disciplined. ---- *)
Theorem C05_lock_discipline :
  forall f tr, In f api -> api_trace actual f tr ->
    (forall pre e post, tr = pre ++ e :: post -> exists s1, run_mon s0 pre = Some s1 /\ event_ok s1 e) /\
    (forall idx, mdisc None (project_api idx tr) = true).
Proof.
  intros f tr Hf Ht. split.
  - exact (lock_discipline_events skeleton_disciplined f tr Hf Ht).
  - intro idx. exact (lock_discipline_mops skeleton_disciplined f tr idx Hf Ht).
Qed.
Print Assumptions C05_lock_discipline.

Example C05_lock_discipline_nonvacuous :
  project_api (fun _ => 3) tr_alloc_slow =
    [LockB 3; MBody (LB 3); UnlockB 3; PolicyMap] ++ skipn 4 (project_api (fun _ => 3) tr_alloc_slow) /\
  In LockT (project_api (fun _ => 3) tr_alloc_slow) /\ In (MBody LT) (project_api (fun _ => 3) tr_alloc_slow) /\
  mdisc None (project_api (fun _ => 3) tr_alloc_slow) = true /\
  mdisc None [LockB 3; PolicyMap; UnlockB 3; MRet] = false /\ mdisc None [LockB 3; LockT; UnlockT; UnlockB 3; MRet] = false /\
  mdisc None [LockB 3; MRet] = false /\ mdisc None [LockB 3; UnlockB 3; MBody (LB 3); MRet] = false.
Proof. vm_compute. repeat split; tauto. Qed.

(* ---- the thread pool: for every number of threads (tid = nat, idle threads have the empty script), every
        per-thread script of API operations (each a path-trace of the generated skeleton), every scheduler ---- *)

(* a Body protected by lock l is only ever executed by the owner of l: two threads are never simultaneously at
   bodies protected by the same lock.  With the access table of the skeleton (every access to head_slb,
   partial_tree and hooks, available, num_reserved, free-object links is a Body of its bucket lock; _usedPages a
   Body of the tree lock) this is data-race freedom on pool state. *)
Theorem C05_mutual_exclusion_of_bodies :
  forall prog, (forall t, script_ok (prog t)) ->
  forall sched t1 t2 l, let s := run sched (init prog) in
    (at_body s t1 l -> owner s l = Some t1) /\
    (at_body s t1 l -> at_body s t2 l -> t1 = t2).
Proof.
  intros prog Hp sched t1 t2 l s.
  pose proof (reachable_inv skeleton_disciplined prog sched Hp) as HI. split.
  - exact (body_under_lock _ HI t1 l).
  - exact (bodies_exclusive _ HI t1 t2 l).
Qed.
Print Assumptions C05_mutual_exclusion_of_bodies.

Theorem C05_policy_called_without_locks :
  forall prog, (forall t, script_ok (prog t)) ->
  forall sched t f l, let s := run sched (init prog) in
    at_policy s t f -> owner s l <> Some t.
Proof.
  intros prog Hp sched t f l s. exact (policy_without_locks _ (reachable_inv skeleton_disciplined prog sched Hp) t f l).
Qed.
Print Assumptions C05_policy_called_without_locks.

Theorem C05_at_most_one_lock_none_at_return :
  forall prog, (forall t, script_ok (prog t)) ->
  forall sched t, let s := run sched (init prog) in
    (forall l1 l2, owner s l1 = Some t -> owner s l2 = Some t -> l1 = l2) /\
    (forall l, at_ret s t -> owner s l <> Some t) /\
    (forall l, rest s t = [] -> owner s l <> Some t).
Proof.
  intros prog Hp sched t s. pose proof (reachable_inv skeleton_disciplined prog sched Hp) as HI.
  split; [exact (at_most_one_lock _ HI t)|]. split; intro l; [exact (return_without_locks _ HI t l)|exact (finished_without_locks _ HI t l)].
Qed.
Print Assumptions C05_at_most_one_lock_none_at_return.

(* in every reachable state in which some operation is still in flight some thread has an enabled step; whoever
   holds a lock is enabled and reaches the unlock of that lock through steps that never block (to_unlock own
   steps); an enabled step consumes exactly one micro-op of its thread and none of the others, so an operation of
   k micro-ops is complete after k enabled steps of its own thread, whatever the others do. *)
Theorem C05_no_deadlock :
  forall prog, (forall t, script_ok (prog t)) ->
  forall sched, let s := run sched (init prog) in
    ((exists t, rest s t <> []) -> exists t, enabled s t) /\
    (forall t l, owner s l = Some t ->
       enabled s t /\ exists pre r, rest s t = pre ++ MUnlock l :: r /\ Forall nonblocking pre /\
                                    to_unlock (rest s t) = S (List.length pre)) /\
    (forall t, enabled s t ->
       rest (step s t) t = tl (rest s t) /\ forall t', t' <> t -> rest (step s t) t' = rest s t') /\
    (forall t, ~ enabled s t -> step s t = s).
Proof.
  intros prog Hp sched s. pose proof (reachable_inv skeleton_disciplined prog sched Hp) as HI.
  split; [exact (no_deadlock_state _ HI)|]. split.
  - intros t l Ho. split; [exact (holder_enabled _ HI t l Ho)|exact (holder_releases _ HI t l Ho)].
  - split; [exact (step_progress s)|exact (step_disabled s)].
Qed.
Print Assumptions C05_no_deadlock.

(* two threads run the fast path of allocate on the same bucket: after thread 0 took the lock, thread 1 is at its
   LockB and blocked, thread 0 is at a body of the bucket and enabled; after 0 ran to its unlock, 1 gets in *)
Example C05_pool_nonvacuous :
  (forall t, script_ok (ex_prog t)) /\
  let s := run [0; 1; 1; 0] (init ex_prog) in
    at_body s 0 (LB 3) /\ rest s 1 <> [] /\ ~ enabled s 1 /\ enabled s 0 /\ owner s (LB 3) = Some 0 /\
    let s' := run ([0; 1; 1; 0] ++ repeat 0 60 ++ [1; 1]) (init ex_prog) in
      rest s' 0 = [] /\ at_body s' 1 (LB 3) /\ owner s' (LB 3) = Some 1.
Proof.
  split.
  - intro t. unfold ex_prog. destruct (Nat.ltb t 2).
    + exists [project_api (fun _ => 3) tr_alloc_fast]. split; [|cbn [List.concat]; rewrite app_nil_r; reflexivity].
      constructor; [|constructor]. exists "allocate", tr_alloc_fast, (fun _ => 3).
      split; [vm_compute; tauto|]. split; [|reflexivity].
      eapply follow_api_trace with (k := 1) (ch := ch_alloc_fast). vm_compute. reflexivity.
    + exists []. split; [constructor|reflexivity].
  - vm_compute. repeat split; try (eexists; reflexivity); try discriminate; tauto.
Qed.
