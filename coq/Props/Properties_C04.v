(* C04 -- slab pool tolerates map() failure at any point.
   Every theorem is about the model coq/Slab/SlabModel.v for EVERY state s (reachable or not), every op, every
   configuration with cfg_ok; "needs a mapping" is the decidable [map_len c s o = Some len]. *)
From Coq Require Import List NArith Bool.
From FV Require Import Slab.SlabModel Slab.SlabFail Slab.SlabC01 Slab.SlabC02.
Import ListNotations.
Local Open Scope N_scope.

(* Whenever the allocate / realloc needs a mapping and the policy answers 0 (MapFail or MapRet 0): the state after the
   call is EQUAL to the state before (live blocks, their contents log, free lists, partial trees, used pages, ghost
   counters: nothing leaked, the realloc source block untouched), the result is null (or the call was stopped by an
   assertion/UB that C01 excludes for admissible histories) and the only policy call made is the failing map. *)
Theorem C04_map_failure_transparent :
  forall c s o len e,
    cfg_ok c = true -> map_len c s o = Some len -> op_env o = Some e -> env_ret e = 0 ->
    st_of (step c s o) = s
    /\ (res_of (step c s o) = RNull \/ is_stop (res_of (step c s o)) = true)
    /\ (res_of (step c s o) = RNull ->
        policy_calls (cbs_of (step c s o)) = [CMap len (if aligned c then sb c else 0) 0]).
Proof. exact map_failure_transparent. Qed.
Print Assumptions C04_map_failure_transparent.

(* "The pool keeps working": the rest of the history runs exactly as if the failed call had not been made. *)
Theorem C04_failed_call_invisible :
  forall c s o len e rest,
    cfg_ok c = true -> map_len c s o = Some len -> op_env o = Some e -> env_ret e = 0 ->
    run_from c s (o :: rest) = run_from c s rest /\
    trace_from c s (o :: rest) = (res_of (step c s o), cbs_of (step c s o)) :: trace_from c s rest.
Proof. exact failed_op_is_invisible. Qed.
Print Assumptions C04_failed_call_invisible.

(* In an admissible history the failed call cannot stop in an assertion either: it returns null, the state is equal,
   the only policy call is the failing map.  (That later requests succeed as soon as map succeeds again is
   C01_allocate_succeeds; that C01's conclusions hold for the continued history is C01 itself.) *)
Theorem C04_failed_call_returns_null :
  forall (c : cfg) (ops : list op) (o : op) (len : N) (e : env),
    cfg_ok c = true -> policy_ok c (ops ++ [o]) -> api_ok c (ops ++ [o]) ->
    let s := run c ops in
    map_len c s o = Some len -> op_env o = Some e -> env_ret e = 0 ->
    st_of (step c s o) = s /\ res_of (step c s o) = RNull
    /\ policy_calls (cbs_of (step c s o)) = [CMap len (if aligned c then sb c else 0) 0].
Proof. exact C04_null_main. Qed.
Print Assumptions C04_failed_call_returns_null.

(* non-vacuity: first slab of a class, large frame, and the allocate inside a copying realloc, each failing *)
Definition c04_cfg : cfg := mkCfg 4096 4096 4096 4 true true 40 104.
Example C04_hyps_satisfiable :
  cfg_ok c04_cfg = true
  /\ map_len c04_cfg (init c04_cfg) (Alloc 24 MapFail) = Some 4096
  /\ map_len c04_cfg (init c04_cfg) (Alloc 100 MapFail) = Some 8192
  /\ (let s := run c04_cfg [Alloc 24 (MapRet 4096)] in
      map_len c04_cfg s (Realloc 8160 60 MapFail) = Some 4096
      /\ step c04_cfg s (Realloc 8160 60 MapFail) = (s, RNull, [CAccess false 4096 104; CMap 4096 4096 0])
      /\ res_of (step c04_cfg s (Realloc 8160 60 (MapRet 8192))) = RPtr 12224).
Proof. vm_compute. repeat split; reflexivity. Qed.
