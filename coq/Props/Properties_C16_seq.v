(* C16 (sequence containers): each element is destroyed exactly once; each allocation is returned exactly once.
   Statements only; proofs are in coq/Seq/{LogProofs,Footprint,VectorLog,StackListLog,DynArrayLog,SmallVectorLog}.v.
   The models (coq/Seq/*Model.v) emit the lifetime/allocation events of every operation; the harness
   (comp/seq/harness.cpp) prints the same events from the real containers and they are compared line by line.
   [wf_closed] (coq/Common/EventLog.v): construction only into dead slots of a live block (or inline storage),
   use/destroy only of live objects, every block released exactly once (deallocate with the allocation size),
   nothing live or allocated at the end.  Scripts use the container variables 0..2 ([*regs_ok]) and stay within
   the preconditions the source does not check ([*ref_ok], see Properties_C13.v); the log is the one of the whole
   script followed by the destructors of all container variables.
   Allocator instances: the container variables of a script live on different instances of a stateful allocator
   (variable r starts on instance r); the model carries the instance with the container exactly as the source does
   (swap exchanges it, copy/move construction take the source's).  Block [b] handed out by instance [a] is named
   [enc a b]; a release through instance [a'] names [reenc a' blk], which is a live block only if a' = a -- so
   [wf_closed] requires every block to be released into the instance that handed it out.
   The instance a container designates is always a live handle: the harness's allocator handle is emptied by a
   move, and any allocation/release through a moved-from handle is an oracle failure (the models have no notion of
   a moved-from handle: als/sals/dals are plain instance ids, i.e. the source never uses one). *)
From Coq Require Import List NArith Arith Bool.
From FV Require Import Common.EventLog Seq.SlotModel Seq.VectorModel Seq.VectorProofs Seq.VectorLog
  Seq.StackModel Seq.ListModel Seq.DynArrayModel Seq.DynStackListProofs Seq.StackListLog Seq.DynArrayLog
  Seq.SmallVectorModel Seq.SmallVectorProofs Seq.SmallVectorLog.
Import ListNotations.

Theorem C16_vector_log_wf : forall esz veq ops, ref_ok veq rs0 ops -> Forall regs_ok ops ->
  exists st outs e fin, vrun esz veq vst0 ops = Ok (st, outs, e) /\ vfinish st = Ok fin /\ wf_closed (e ++ fin) = true.
Proof. exact vector_log_wf. Qed.
Print Assumptions C16_vector_log_wf.
Example C16_vector_log_wf_ex :
  let ops := [VPush 0 1%N; VPush 0 2%N; VPush 0 3%N; VResize 0 7 0%N; VAssign 1 0; VPop 1; VMoveAssign 2 1; VSwap 0 2; VCopyCtor 1 0; VClear 2] in
  ref_ok N.eqb rs0 ops /\ Forall regs_ok ops /\
  exists st outs e fin, vrun 24%N N.eqb vst0 ops = Ok (st, outs, e) /\ vfinish st = Ok fin /\ wf_closed (e ++ fin) = true.
Proof. vm_compute. split; [repeat split; discriminate|]. split; [repeat constructor|]. do 4 eexists. repeat split. Qed.
(* D08 as it was (relocation bound _capacity): the log of push x3; resize(7) is rejected *)
(* a block handed out by instance 1 (name 5 = enc 1 1) released through instance 0 (name 4 = reenc 0 5): rejected *)
Example C16_foreign_release_rejected :
  reenc 0 (enc 1 1) = 4 /\ wf_log [EAlloc (enc 1 1) 16; EFree (reenc 0 (enc 1 1))] = false /\
  wf_closed [EAlloc (enc 1 1) 16; EFree (reenc 1 (enc 1 1))] = true.
Proof. vm_compute. repeat split. Qed.
Example C16_vector_d08_log_rejected :
  wf_log [EAlloc 1 48; EConstruct (1, 0); EConstruct (1, 1); EAlloc 2 144; EUse (1, 0); EConstruct (2, 0); EUse (1, 1); EConstruct (2, 1);
          EDestroy (1, 0); EDestroy (1, 1); EFree 1; EConstruct (2, 2);
          EAlloc 3 336; EUse (2, 0); EConstruct (3, 0); EUse (2, 1); EConstruct (3, 1); EUse (2, 2); EConstruct (3, 2); EUse (2, 3)] = false.
Proof. reflexivity. Qed.

(* small_vector N, on both sides of the inline/heap boundary; [None] = FRG_ASSERT stopped the script
   (pop_back/front/back of an empty vector).  After the D16 fix swap/move construction relocate the inline
   elements one by one, so the log of scripts that swap or move vectors with inline elements is well-formed. *)
Theorem C16_small_vector_log_wf : forall esz NI ops, sref_ok rs0 ops -> Forall sregs_ok ops ->
  match sref_run rs0 ops with
  | Some (_, outs) =>
    exists st e fin, srun esz NI (sst0 NI) ops = Ok (st, outs, e) /\ sfinish esz NI st = Ok fin /\ wf_closed (e ++ fin) = true
  | None => srun esz NI (sst0 NI) ops = AssertStop
  end.
Proof. exact small_vector_log_wf. Qed.
Print Assumptions C16_small_vector_log_wf.
Example C16_small_vector_log_wf_ex :
  let ops := [SPush 0 1%N; SPushMove 0 2%N; SPush 1 7%N; SSwap 0 1; SEmplace 0 8%N; SEmplace 0 9%N; SEmplace 0 10%N; SEmplace 0 11%N;
              SSwap 0 1; SMoveCtor 2 1; SCopyCtor 1 2; SResize 1 2 0%N; SPop 1; SResize 0 9 5%N; SSwap 2 0] in
  sref_ok rs0 ops /\ Forall sregs_ok ops /\
  exists st outs e fin, srun 24%N 4 (sst0 4) ops = Ok (st, outs, e) /\ sfinish 24%N 4 st = Ok fin /\ wf_closed (e ++ fin) = true.
Proof. vm_compute. split; [repeat split; repeat constructor|]. split; [repeat constructor|]. do 4 eexists. repeat split. Qed.
(* D16 as it was (bytewise swap of the inline storage): a construct at 0.0 followed by a destroy at 0.4 is rejected *)
Example C16_small_vector_d16_log_rejected : wf_log [EConstruct (0, 0); EDestroy (0, 4)] = false.
Proof. reflexivity. Qed.

Theorem C16_stack_log_wf : forall esz ops, kref_ok [] ops ->
  exists st outs e fin, krun esz (stk_empty, 1) ops = Ok (st, outs, e) /\ kfinish st = Ok fin /\ wf_closed (e ++ fin) = true.
Proof. exact stack_log_wf. Qed.
Print Assumptions C16_stack_log_wf.
Example C16_stack_log_wf_ex :
  let ops := [KPush 1%N; KEmplace 2%N; KPush 3%N; KPop; KTop] in
  kref_ok [] ops /\ exists st outs e fin, krun 8%N (stk_empty, 1) ops = Ok (st, outs, e) /\ kfinish st = Ok fin /\ wf_closed (e ++ fin) = true.
Proof. vm_compute. split; [repeat split; discriminate|]. do 4 eexists. repeat split. Qed.

Theorem C16_list_log_wf : forall isz ops, lref_ok [] ops ->
  exists st outs e, lrun isz (fl_empty, 1) ops = Ok (st, outs, e) /\ wf_closed (e ++ lfinish isz st) = true.
Proof. exact list_log_wf. Qed.
Print Assumptions C16_list_log_wf.
(* destroyed while non-empty: the destructor drains the list (D14 fixed) *)
Example C16_list_log_wf_ex :
  let ops := [LEmplaceBack 1%N; LEmplaceBack 2%N; LEmplaceBack 3%N; LPopFront] in
  lref_ok [] ops /\ exists st outs e, lrun 48%N (fl_empty, 1) ops = Ok (st, outs, e) /\ wf_closed (e ++ lfinish 48%N st) = true /\
    lfinish 48%N st = [EDestroy (2, 0); EDealloc 2 48; EDestroy (3, 0); EDealloc 3 48].
Proof. vm_compute. split; [repeat split; discriminate|]. do 3 eexists. repeat split. Qed.

Theorem C16_dyn_array_log_wf : forall esz ops, dref_ok rs0 ops -> Forall dregs_ok ops ->
  exists st outs e fin, drun esz dst0 ops = Ok (st, outs, e) /\ dfinish esz st = Ok fin /\ wf_closed (e ++ fin) = true.
Proof. exact dyn_array_log_wf. Qed.
Print Assumptions C16_dyn_array_log_wf.
Example C16_dyn_array_log_wf_ex :
  let ops := [DMake 0 3; DSet 0 1 5%N; DAssign 1 0; DMake 2 0; DSwap 0 2; DMoveAssign 1 2; DCopyCtor 2 1; DMoveCtor 0 2] in
  dref_ok rs0 ops /\ Forall dregs_ok ops /\
  exists st outs e fin, drun 24%N dst0 ops = Ok (st, outs, e) /\ dfinish 24%N st = Ok fin /\ wf_closed (e ++ fin) = true.
Proof. vm_compute. split; [repeat split; repeat constructor|]. split; [repeat constructor|]. do 4 eexists. repeat split. Qed.
