(* placeholder while the C16 theorems for the sequence containers are being written (replaced below) *)
From Coq Require Import List NArith.
From FV Require Import Common.EventLog Seq.ListModel.
Import ListNotations.
Theorem C16_seq_list_empty_log_wf : wf_closed [] = true.
Proof. reflexivity. Qed.
Print Assumptions C16_seq_list_empty_log_wf.
