(* C16 (sequence containers): each element is destroyed exactly once; each allocation is returned exactly once.
   Statements only; proofs are in coq/Seq/{LogProofs,Footprint,VectorLog,StackListLog,DynArrayLog,SmallVectorLog}.v.
   The models (coq/Seq/*Model.v) emit the lifetime/allocation events of every operation; the harness
   (comp/seq/harness.cpp) prints the same events from the real containers and they are compared line by line.
   [wf_closed] (coq/Common/EventLog.v): construction only into dead slots of a live block (or inline storage),
   use/destroy only of live objects, every block released exactly once (deallocate with the allocation size),
   nothing live or allocated at the end.  Scripts use the container variables 0..2 ([*regs_ok]) and stay within
   the preconditions the source does not check ([*ref_ok], see Properties_C13.v); the log is the one of the whole
   script followed by the destructors of all container variables. *)
From Coq Require Import List NArith Arith Bool.
From FV Require Import Common.EventLog Seq.SlotModel Seq.VectorModel Seq.VectorProofs Seq.VectorLog
  Seq.StackModel Seq.ListModel Seq.DynArrayModel Seq.DynStackListProofs Seq.StackListLog Seq.DynArrayLog.
Import ListNotations.

Theorem C16_vector_log_wf : forall esz ops, ref_ok rs0 ops -> Forall regs_ok ops ->
  exists st outs e fin, vrun esz vst0 ops = Ok (st, outs, e) /\ vfinish st = Ok fin /\ wf_closed (e ++ fin) = true.
Proof. exact vector_log_wf. Qed.
Print Assumptions C16_vector_log_wf.
Example C16_vector_log_wf_ex :
  let ops := [VPush 0 1%N; VPush 0 2%N; VPush 0 3%N; VResize 0 7 0%N; VAssign 1 0; VPop 1; VMoveAssign 2 1; VSwap 0 2; VCopyCtor 1 0; VClear 2] in
  ref_ok rs0 ops /\ Forall regs_ok ops /\
  exists st outs e fin, vrun 24%N vst0 ops = Ok (st, outs, e) /\ vfinish st = Ok fin /\ wf_closed (e ++ fin) = true.
Proof. vm_compute. split; [repeat split; discriminate|]. split; [repeat constructor|]. do 4 eexists. repeat split. Qed.
(* D08 as it was (relocation bound _capacity): the log of push x3; resize(7) is rejected *)
Example C16_vector_d08_log_rejected :
  wf_log [EAlloc 1 48; EConstruct (1, 0); EConstruct (1, 1); EAlloc 2 144; EUse (1, 0); EConstruct (2, 0); EUse (1, 1); EConstruct (2, 1);
          EDestroy (1, 0); EDestroy (1, 1); EFree 1; EConstruct (2, 2);
          EAlloc 3 336; EUse (2, 0); EConstruct (3, 0); EUse (2, 1); EConstruct (3, 1); EUse (2, 2); EConstruct (3, 2); EUse (2, 3)] = false.
Proof. reflexivity. Qed.

Theorem C16_stack_log_wf : forall esz ops, kref_ok [] ops ->
  exists st outs e fin, krun esz (stk_empty, 1) ops = Ok (st, outs, e) /\ kfinish st = Ok fin /\ wf_closed (e ++ fin) = true.
Proof. exact stack_log_wf. Qed.
Print Assumptions C16_stack_log_wf.
Example C16_stack_log_wf_ex :
  let ops := [KPush 1%N; KEmplace 2%N; KPush 3%N; KPop; KTop] in
  kref_ok [] ops /\ exists st outs e fin, krun 8%N (stk_empty, 1) ops = Ok (st, outs, e) /\ kfinish st = Ok fin /\ wf_closed (e ++ fin) = true.
Proof. vm_compute. split; [repeat split; discriminate|]. do 4 eexists. repeat split. Qed.

Theorem C16_list_log_wf : forall isz ops, lref_ok [] ops ->
  exists st outs e, lrun isz (fl_empty, 1) ops = Ok (st, outs, e) /\ wf_closed (e ++ lfinish isz st) = true.
Proof. exact list_log_wf. Qed.
Print Assumptions C16_list_log_wf.
(* destroyed while non-empty: the destructor drains the list (D14 fixed) *)
Example C16_list_log_wf_ex :
  let ops := [LEmplaceBack 1%N; LEmplaceBack 2%N; LEmplaceBack 3%N; LPopFront] in
  lref_ok [] ops /\ exists st outs e, lrun 48%N (fl_empty, 1) ops = Ok (st, outs, e) /\ wf_closed (e ++ lfinish 48%N st) = true /\
    lfinish 48%N st = [EDestroy (2, 0); EDealloc 2 48; EDestroy (3, 0); EDealloc 3 48].
Proof. vm_compute. split; [repeat split; discriminate|]. do 3 eexists. repeat split. Qed.

Theorem C16_dyn_array_log_wf : forall esz ops, dref_ok rs0 ops -> Forall dregs_ok ops ->
  exists st outs e fin, drun esz dst0 ops = Ok (st, outs, e) /\ dfinish esz st = Ok fin /\ wf_closed (e ++ fin) = true.
Proof. exact dyn_array_log_wf. Qed.
Print Assumptions C16_dyn_array_log_wf.
Example C16_dyn_array_log_wf_ex :
  let ops := [DMake 0 3; DSet 0 1 5%N; DAssign 1 0; DMake 2 0; DSwap 0 2; DMoveAssign 1 2; DCopyCtor 2 1; DMoveCtor 0 2] in
  dref_ok rs0 ops /\ Forall dregs_ok ops /\
  exists st outs e fin, drun 24%N dst0 ops = Ok (st, outs, e) /\ dfinish 24%N st = Ok fin /\ wf_closed (e ++ fin) = true.
Proof. vm_compute. split; [repeat split; repeat constructor|]. split; [repeat constructor|]. do 4 eexists. repeat split. Qed.
