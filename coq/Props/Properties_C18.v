(* C18: bitset, array, PRNGs and sort agree with their standard references.
   Statements only; the proofs are in coq/Bits/*.v. *)
From Coq Require Import List NArith ZArith Arith Bool Permutation.
From FV Require Import Bits.BitsetModel Bits.BitsetBase Bits.BitsetProofs Bits.BitsetShift Bits.BitsetQueries
  Bits.BitsetCount Bits.BitsetTop Bits.PrngModel Bits.PcgProofs Bits.LcgPeriod Bits.PcgTermination Bits.MtProofs Bits.SortModel Bits.SortProofs.
Import ListNotations.

(* ================================================================================================
   bitset<N>, FOR EVERY N >= 1.
     bit ws i        = bit (i mod 64) of word (i / 64)                       (BitsetProofs.bit)
     wf n ws         = ceil(n/64) words, each < 2^64, no bit at or beyond n  (BitsetProofs.wf)
     spec_op / spec_query / count_spec = the std::bitset<N> definitions on bit functions
                       (BitsetTop.spec_op: e.g. BShl p => fun i => (p <=? i) && f (i - p),
                                                       BShr p => fun i => (i + p <? n) && f (i + p))
     valid_op / valid_query = positions below N, other operands well-formed bitsets
   ================================================================================================ *)
Local Open Scope N_scope.

Theorem C18_bitset_refines_bits : forall n : N, 1 <= n ->
  (* constructors *)
  (wf n (ctor_default n) /\ forall i, bit (ctor_default n) i = false) /\
  (forall v, v < 2 ^ 64 ->
     exists ws, ctor_val n v = Ok ws /\ wf n ws /\ forall i, i < n -> bit ws i = N.testbit v i) /\
  (* every mutating operation, incl. the proxy reference and shifts by ANY amount *)
  (forall ws o, wf n ws -> valid_op n o ->
     exists ws', apply_op n ws o = Ok ws' /\ forall i, i < n -> bit ws' i = spec_op n o (bit ws) i) /\
  (* shifts by p >= N give the empty set *)
  (forall ws p, wf n ws -> n <= p ->
     exists wl wr, apply_op n ws (BShl p) = Ok wl /\ apply_op n ws (BShr p) = Ok wr /\
                   forall i, i < n -> bit wl i = false /\ bit wr i = false) /\
  (* test, bool(ref), ~ref, any, all, none, == *)
  (forall ws q, wf n ws -> valid_query n q -> query n ws q = Ok (spec_query n q (bit ws))) /\
  (* count = number of set bits below N *)
  (forall ws, wf n ws -> count ws = Ok (count_spec n (bit ws))).
Proof. exact bitset_refines_bits_all. Qed.
Print Assumptions C18_bitset_refines_bits.

(* bits >= N of the last word are 0 (and every word is a uint64_t, and the word count is right) for
   every bitset that can be built from the constructors with the operations, any shift amounts *)
Theorem C18_bitset_padding_zero : forall n : N, 1 <= n -> forall ws, reachable n ws ->
  length ws = nwords n /\ Forall (fun w => w < 2 ^ 64) ws /\ forall i, n <= i -> bit ws i = false.
Proof. intros n Hn ws R. exact (reachable_wf n Hn ws R). Qed.
Print Assumptions C18_bitset_padding_zero.

(* no word index >= ceil(N/64) is read or written, for ANY shift amount (the model returns UB for
   every such access, and for the size_t wrap of buffer_size - wshift - 1) *)
Theorem C18_bitset_in_bounds : forall (n : N) ws (p : N), 1 <= n -> wf n ws ->
  shl n ws p <> UB /\ shr n ws p <> UB.
Proof. intros n ws p Hn Hwf. exact (shifts_in_bounds n ws p Hn Hwf). Qed.
Print Assumptions C18_bitset_in_bounds.

Example C18_bitset_nonvacuous :
  (* bitset<70>: 0xFFFF...F constructed, shifted left by 9 and right by 200 *)
  exists ws, ctor_val 70 18446744073709551615 = Ok ws /\ reachable 70 ws /\
    apply_op 70 ws (BShl 9) = Ok [18446744073709551104; 63] /\
    apply_op 70 ws (BShr 200) = Ok [0; 0] /\ count ws = Ok 64.
Proof.
  eexists. split; [vm_compute; reflexivity|]. split.
  - eapply R_val; [|vm_compute; reflexivity]. reflexivity.
  - vm_compute. auto.
Qed.

(* ================================================================================================
   mt19937: for every seed and every output index, output i is the tempered x_{i+624}, where x is the
   published recurrence with the published seeding.
   ================================================================================================ *)
Theorem C18_mt_recurrence : forall (s : N) (i : nat),
  nth i (mt_outputs (S i) (mt_seed s)) 0 = temper (mt_x s (i + 624)) /\
  mt_x s (i + 624) = N.lxor (mt_x s (i + 397)) (twist (mt_x s i) (mt_x s (i + 1))) /\
  (forall j, (j < 624)%nat -> mt_x s j = seed_x s j) /\
  seed_x s 0 = s mod 2 ^ 32 /\
  (forall j, seed_x s (S j) =
     (1812433253 * N.lxor (seed_x s j) (seed_x s j / 2 ^ 30) + N.of_nat (S j)) mod 2 ^ 32).
Proof. exact mt_recurrence_all. Qed.
Print Assumptions C18_mt_recurrence.
Example C18_mt_nonvacuous :
  (* first output and output 9999 of the default seed: the values required by the C++ standard *)
  hd 0 (mt_outputs 1 (mt_seed 5489)) = 3499211612 /\ nth 9999 (mt_outputs 10000 (mt_seed 5489)) 0 = 4123659995.
Proof. vm_compute. auto. Qed.

(* ================================================================================================
   pcg_basic32
   ================================================================================================ *)
Theorem C18_pcg_step : forall g : pcg,
  (* state recurrence *)
  pcg_next g = (mk_pcg ((pcg_state g * 6364136223846793005 + pcg_inc g) mod 2 ^ 64) (pcg_inc g),
                pcg_output (pcg_state g)) /\
  (* output = ror32 (((s >> 18) xor s) >> 27) (s >> 59) *)
  (forall s, s < 2 ^ 64 ->
     let xorshifted := (N.lxor (s / 2 ^ 18) s / 2 ^ 27) mod 2 ^ 32 in
     let rot := s / 2 ^ 59 in
     pcg_output s = rotr_expr xorshifted rot /\ xorshifted < 2 ^ 32 /\ rot < 32) /\
  (* (x >> r) | (x << ((-r) & 31)) IS the rotation, for every r < 32 *)
  (forall x r, x < 2 ^ 32 -> r < 32 ->
     rotr_expr x r < 2 ^ 32 /\ forall i, i < 32 -> N.testbit (rotr_expr x r) i = N.testbit x ((i + r) mod 32)).
Proof. exact pcg_step_all. Qed.
Print Assumptions C18_pcg_step.
Example C18_pcg_nonvacuous :
  (* the published pcg32 demo vector: seed 42, sequence 54 *)
  let g0 := pcg_seed 42 54 in
  map (fun k => pcg_out k g0) [0; 1; 2; 3; 4; 5]%nat =
  [2707161783; 2068313097; 3122475824; 2211639955; 3215226955; 3421331566].
Proof. vm_compute. reflexivity. Qed.

(* bounded draw: the value is below the bound, it is r mod bound for the first output r that reaches
   the threshold, and the threshold computed as -bound % bound in uint32 is 2^32 mod bound.
   Termination for every seed is C18_pcg_bounded_terminates below. *)
Theorem C18_pcg_bounded : forall fuel g bound g' v, 0 < bound < 2 ^ 32 ->
  pcg_threshold bound = 2 ^ 32 mod bound /\
  pcg_bounded fuel g bound <> DDivZero /\
  (pcg_bounded fuel g bound = DOk g' v ->
     v < bound /\
     exists k, (k < fuel)%nat /\ (forall j, (j < k)%nat -> pcg_out j g < 2 ^ 32 mod bound) /\
               2 ^ 32 mod bound <= pcg_out k g /\ v = pcg_out k g mod bound /\ g' = pcg_iter (S k) g).
Proof. exact pcg_bounded_all. Qed.
Print Assumptions C18_pcg_bounded.
(* Full period of x -> (a*x + c) mod 2^k for a = 1 (mod 4), c odd: from every x every residue is reached
   within 2^k steps (k abstract; pcg uses k = 64, a = 6364136223846793005, c = (seq << 1) | 1). *)
Theorem C18_lcg_full_period : forall (a c : Z) (k : nat), (a mod 4 = 1)%Z -> (c mod 2 = 1)%Z ->
  forall x y, (0 <= x < 2 ^ Z.of_nat k)%Z -> (0 <= y < 2 ^ Z.of_nat k)%Z ->
  exists n, (Z.of_nat n < 2 ^ Z.of_nat k)%Z /\ lcg_iter a c k n x = y.
Proof. exact lcg_full_period. Qed.
Print Assumptions C18_lcg_full_period.
Example C18_lcg_nonvacuous : (* k = 4, a = 5, c = 3: the orbit of 0 is a permutation of 0..15 *)
  map (fun n => lcg_iter 5 3 4 n 0%Z) (seq 0 16) = [0; 3; 2; 13; 4; 7; 6; 1; 8; 11; 10; 5; 12; 15; 14; 9]%Z.
Proof. vm_compute. reflexivity. Qed.

(* Termination of the rejection loop for EVERY seed, sequence and bound: some fuel makes the bounded draw
   return a value below the bound; the same holds in every later generator state (uint64 state, odd
   increment - preserved by plain and bounded draws). Uses the full period and a state with output 2^32-1. *)
Theorem C18_pcg_bounded_terminates : forall seed seq bound, 0 < bound < 2 ^ 32 ->
  (exists fuel g' v, pcg_bounded fuel (pcg_seed seed seq) bound = DOk g' v /\ v < bound /\ pcg_wf g') /\
  (forall g, pcg_wf g -> pcg_wf (fst (pcg_next g)) /\
     exists fuel g' v, pcg_bounded fuel g bound = DOk g' v /\ v < bound /\ pcg_wf g').
Proof. exact pcg_bounded_terminates_all. Qed.
Print Assumptions C18_pcg_bounded_terminates.
Example C18_pcg_terminates_nonvacuous :
  pcg_wf (pcg_seed 42 54) /\ pcg_output pcg_top_state = 4294967295 /\
  (6364136223846793005 mod 4 = 1)%Z /\ (Z.of_N (pcg_inc (pcg_seed 42 54)) mod 2 = 1)%Z.
Proof. split; [apply pcg_seed_wf|]. split; [apply pcg_top_output|]. split; vm_compute; reflexivity. Qed.
Example C18_pcg_bounded_nonvacuous :
  exists g' v, pcg_bounded 100 (pcg_seed 42 54) 2147483649 = DOk g' v /\ v < 2147483649.
Proof. eexists. eexists. split; [vm_compute; reflexivity|]. reflexivity. Qed.

(* ================================================================================================
   insertion_sort: for comp asymmetric and transitive the result is a permutation of the input in
   which no earlier element is comp-below a later one.
   ================================================================================================ *)
Local Close Scope N_scope.
Theorem C18_sort : forall (A : Type) (comp : A -> A -> bool),
  (forall a b, comp a b = true -> comp b a = false) ->
  (forall a b c, comp a b = true -> comp b c = true -> comp a c = true) ->
  forall l : list A,
    Permutation l (insertion_sort comp l) /\
    (forall i j a b, i < j -> nth_error (insertion_sort comp l) i = Some a ->
                     nth_error (insertion_sort comp l) j = Some b -> comp a b = false).
Proof. intros A comp Ha Ht l. exact (insertion_sort_correct comp Ha Ht l). Qed.
Print Assumptions C18_sort.
Example C18_sort_nonvacuous :
  insertion_sort (fun a b => Nat.ltb (a / 16) (b / 16)) [16; 0; 17; 1; 32] = [32; 17; 16; 1; 0].
Proof. vm_compute. reflexivity. Qed.

(* the literal reading of the double loop (indices, nth/upd swaps over the whole list) is the same function *)
Theorem C18_sort_index_version : forall (A : Type) (comp : A -> A -> bool) (d : A) (l : list A),
  isort_idx comp d l = insertion_sort comp l.
Proof. intros A comp d l. exact (isort_idx_eq comp d l). Qed.
Print Assumptions C18_sort_index_version.
Example C18_sort_index_nonvacuous :
  isort_idx (fun a b => Nat.ltb (a / 16) (b / 16)) 0 [16; 0; 17; 1; 32] = [32; 17; 16; 1; 0].
Proof. vm_compute. reflexivity. Qed.

(* array: the list identities (the clause is carried by the correspondence with std::array) *)
Theorem C18_array_identities : forall (A : Type) (l : list A) (d : A), l <> [] ->
  arr_back l = Some (last l d) /\ arr_front l = Some (hd d l) /\
  (forall i, i < length l -> arr_index l i = Some (nth i l d)) /\
  (forall ls : list (list A), arr_concat ls = concat ls) /\
  (* == / != : list equality under the element type's own ==, about which NOTHING is assumed (NaN, -0.0, padding) *)
  (forall (eqA : A -> A -> bool) l1 l2,
     (arr_eqb eqA l1 l2 = true <-> Forall2 (fun x y => eqA x y = true) l1 l2) /\
     arr_neb eqA l1 l2 = negb (arr_eqb eqA l1 l2)).
Proof. exact array_identities_all. Qed.
Print Assumptions C18_array_identities.
Example C18_array_nonvacuous : arr_back [10; 20; 30] = Some 30 /\ arr_concat [[1]; [2; 3]; []; [4]] = [1; 2; 3; 4] /\
  (* empty pieces first, in the middle (twice) and last: [] is the unit of the concatenation *)
  arr_concat [[]; [1; 2]; []; []; [3]; []] = [1; 2; 3] /\ arr_concat [[]; []] = ([] : list nat) /\
  (* an element == that is not reflexive (2 plays NaN): the array is not equal to itself *)
  arr_eqb (fun a b => negb (Nat.eqb a 2) && Nat.eqb a b) [1; 2] [1; 2] = false /\
  (* an element == that is not bitwise (ignores the low bit, like -0.0 == +0.0) *)
  arr_eqb (fun a b => Nat.eqb (a / 2) (b / 2)) [0; 3] [1; 2] = true.
Proof. repeat split; reflexivity. Qed.
