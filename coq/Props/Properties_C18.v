(* C18: bitset, array, PRNGs and sort agree with their standard references. *)
From Coq Require Import List NArith Arith Bool Permutation.
From FV Require Import Bits.SortModel Bits.SortProofs.
Import ListNotations.

(* insertion_sort: for comp asymmetric and transitive the result is a permutation of the input in
   which no earlier element is comp-below a later one. *)
Theorem C18_sort : forall (A : Type) (comp : A -> A -> bool),
  (forall a b, comp a b = true -> comp b a = false) ->
  (forall a b c, comp a b = true -> comp b c = true -> comp a c = true) ->
  forall l : list A,
    Permutation l (insertion_sort comp l) /\
    (forall i j a b, i < j -> nth_error (insertion_sort comp l) i = Some a ->
                     nth_error (insertion_sort comp l) j = Some b -> comp a b = false).
Proof. intros A comp Ha Ht l. exact (insertion_sort_correct comp Ha Ht l). Qed.
Print Assumptions C18_sort.
Example C18_sort_nonvacuous :
  insertion_sort (fun a b => Nat.ltb (a / 16) (b / 16)) [16; 0; 17; 1; 32] = [32; 17; 16; 1; 0].
Proof. vm_compute. reflexivity. Qed.
