(* Properties_C07.v — C07: interval tree (frg::interval_tree on rbtree.hpp's aggregator support): overlap queries
   are exact after any insert/remove history.  Statements only; proofs are in coq/Interval/*.v (on top of coq/Rb/*.v).

   Model: Rb/RbModel.v instantiated with elements (lo, hi, id) : N * N * N, comparator [iless] (lower bound),
   annotation = interval_hook::subtree_max, aggregate [iagg] = aggregator::aggregate; [ovl] / [for_overlaps] transliterate
   _for_overlaps_in_subtree / for_overlaps including the boolean result and the pruning rule; [path_early] is
   rbtree.hpp's aggregate_path with its early stop on a zipper of the ancestor chain, [path_full] the recomputation of
   the whole chain (what the functional model does through [mk]).
   Preconditions of the C++ API are hypotheses: insert only what is not contained, remove only contained nodes
   ([ids_fresh]); lower <= upper for inserted intervals is ASSERTED by the code ([irun] = None models the stop);
   queries with lb <= ub (for lb > ub the test in the source is a different predicate: C07_inverted_query_differs). *)
From Coq Require Import NArith ZArith List Bool Sorted Lia Permutation PeanoNat.
From FV Require Import Rb.RbModel Rb.RbInorder Rb.RbInvariant Rb.RbLayout Rb.RbHistory Rb.RbAnnot.
From FV Require Import Interval.IntervalModel Interval.IntervalProofs Interval.IntervalPath Interval.IntervalOrder.
Import ListNotations.
Local Open Scope N_scope.

(* ---- the annotation.  [annot_exact t]: for EVERY subtree, the stored subtree_max equals the maximum of the upper
   bounds over the subtree ([hmax] of its in-order walk). *)

(* the generic Rb invariant "stored annotation = aggregate of element and children's annotations" is, for the interval
   aggregate, exactly that *)
Theorem C07_annotation_is_subtree_max : forall t : itree, ann_ok iagg t <-> annot_exact t.
Proof. exact ann_ok_exact. Qed.

(* ... which means: an upper bound of all upper bounds in the subtree, and attained by one of them *)
Theorem C07_annotation_meaning : forall c (l : itree) x a (r : itree), annot_exact (T c l x a r) ->
  (forall e, In e (inorder (T c l x a r)) -> ihi e <= a)
  /\ exists e, In e (inorder (T c l x a r)) /\ ihi e = a.
Proof. exact annot_exact_spec. Qed.

(* every tree reachable by any insert/remove history (every rotation, replacement and unlink case) *)
Theorem C07_annotation_exact : forall (ops : list (op ielt)) (t : itree), irun ops = Some t -> annot_exact t.
Proof. exact irun_exact. Qed.

Theorem C07_annotation_exact_step : forall t : itree, annot_exact t ->
  (forall x, annot_exact (insert iless iagg x t)) /\ (forall i, annot_exact (iremove i t)).
Proof. exact exact_step. Qed.

(* ---- aggregate_path's early stop (rbtree.hpp:547-554), for ANY element type / aggregate with a decidable "unchanged"
   test: if every ancestor's stored aggregate equals the aggregate of its children before the change
   ([chain_ok old ch]), recomputing bottom-up and stopping at the first unchanged node ([path_early]) yields the same
   stored values as recomputing the whole chain ([path_full]), whatever the new value [new] below the chain is *)
Theorem C07_early_stop_sound :
  forall (elt annot : Type) (agg : elt -> option annot -> option annot -> annot) (aeqb : annot -> annot -> bool),
    (forall a b, aeqb a b = true <-> a = b) ->
    forall (old new : option annot) (ch : chain elt annot),
      chain_ok elt annot agg old ch -> path_early agg aeqb new ch = path_full agg new ch.
Proof. exact early_stop_sound. Qed.

(* the hypothesis actually needed: consistency ABOVE the node the walk starts at (that node itself may hold anything:
   the replacement in replace_node carries the stale value of its old position) *)
Theorem C07_early_stop_sound_above :
  forall (elt annot : Type) (agg : elt -> option annot -> option annot -> annot) (aeqb : annot -> annot -> bool),
    (forall a b, aeqb a b = true <-> a = b) ->
    forall (new : option annot) (ch : chain elt annot),
      above_ok elt annot agg ch -> path_early agg aeqb new ch = path_full agg new ch.
Proof. exact early_stop_sound_above. Qed.

(* on trees, for the interval instance: overwriting the element of node i in an exactly annotated tree and then calling
   aggregate_path(node i) WITH the early stop gives an exactly annotated tree again, the same one as without it *)
Theorem C07_aggregate_path_restores : forall (i : N) (x' : ielt) (t : itree), iid x' = i -> annot_exact t ->
  annot_exact (iaggregate_path true i (set_elt iid i x' t))
  /\ iaggregate_path true i (set_elt iid i x' t) = iaggregate_path false i (set_elt iid i x' t).
Proof. exact iaggregate_path_restores. Qed.

(* on an exactly annotated tree aggregate_path is the identity (it stops at the first node) *)
Theorem C07_aggregate_path_clean : forall (i : N) (t : itree), annot_exact t -> iaggregate_path true i t = t.
Proof. exact iaggregate_path_clean. Qed.

(* ---- the search *)
(* the test in the source, (lo <= lb <= hi) || (lb <= lo <= ub), is the property's lo <= ub /\ lb <= hi
   when lb <= ub and lo <= hi *)
Theorem C07_source_test_is_overlap : forall lb ub x, lb <= ub -> wf x -> hit lb ub x = ovl_spec lb ub x.
Proof. exact hit_spec. Qed.

(* exactly once for every stored interval with lo <= ub and lb <= hi, and for no other *)
Theorem C07_overlaps_exact : forall (lb ub : N) (t : itree),
  sorted iless (inorder t) -> annot_exact t -> Forall wf (inorder t) -> NoDup (ids iid (inorder t)) -> lb <= ub ->
  Permutation (for_overlaps_nodes lb ub t) (filter (fun e => (ilo e <=? ub) && (lb <=? ihi e)) (inorder t))
  /\ Permutation (for_overlaps lb ub t) (map iid (filter (fun e => (ilo e <=? ub) && (lb <=? ihi e)) (inorder t)))
  /\ NoDup (for_overlaps lb ub t).
Proof. exact overlaps_exact. Qed.

Theorem C07_overlaps_membership : forall (lb ub : N) (t : itree) (i : N),
  sorted iless (inorder t) -> annot_exact t -> Forall wf (inorder t) -> NoDup (ids iid (inorder t)) -> lb <= ub ->
  In i (for_overlaps lb ub t) <-> exists e, In e (inorder t) /\ iid e = i /\ ilo e <= ub /\ lb <= ihi e.
Proof. exact (fun lb ub t i => overlaps_in lb ub t i). Qed.

(* the boolean result of _for_overlaps_in_subtree, on which the pruning of the caller relies *)
Theorem C07_overlaps_result : forall (lb ub : N) (t : itree), lb <= ub ->
  sorted iless (inorder t) -> annot_exact t -> Forall wf (inorder t) ->
  snd (ovl lb ub t) = true <-> exists e, In e (inorder t) /\ ilo e <= ub /\ lb <= ihi e.
Proof. exact ovl_found. Qed.

(* the one-argument form is the case lb = ub *)
Theorem C07_one_argument_form : forall (p : N) (t : itree), for_point p t = for_overlaps p p t.
Proof. reflexivity. Qed.

(* ---- everything over every insert/remove history and every query *)
Theorem C07_history : forall (ops : list (op ielt)) (t : itree),
  ids_fresh iid iless ops -> irun ops = Some t ->
  inorder t = fold_left (list_step iid iless) ops []          (* the stored intervals, by lower bound, stable *)
  /\ sorted iless (inorder t) /\ NoDup (ids iid (inorder t)) /\ Forall wf (inorder t)
  /\ rb t /\ (height t <= 2 * Nat.log2 (size t + 1))%nat
  /\ annot_exact t
  /\ forall lb ub, lb <= ub ->
       Permutation (for_overlaps lb ub t) (map iid (filter (ovl_spec lb ub) (inorder t)))
       /\ NoDup (for_overlaps lb ub t)
       /\ (forall i, In i (for_overlaps lb ub t) <->
                     exists e, In e (inorder t) /\ iid e = i /\ ilo e <= ub /\ lb <= ihi e).
Proof. exact history_interval. Qed.

(* the run stops in FRG_ASSERT(lower <= upper) exactly when some inserted interval has lower > upper *)
Theorem C07_assert_exact : forall ops : list (op ielt), irun ops = None <-> ~ Forall op_wf ops.
Proof. exact irun_assert. Qed.

(* ---- the endpoint type.  interval_tree<T, P, ...> is a template in P and only compares endpoints.  The theorems above are
   stated for the extracted model (P = N); the SAME model text over an arbitrary endpoint type P, assuming only that
   [leb] is a total preorder and [ltb a b = negb (leb b a)] (no arithmetic, no least element: the maximum of an absent
   subtree is absent, never a sentinel value), satisfies the same statement -- so signed integers with negative bounds and
   floating-point bounds (NaN excluded: not ordered) are inside the quantifier of C07 *)
Theorem C07_any_ordered_endpoint_type :
  forall (P : Type) (leb ltb : P -> P -> bool),
    (forall a b, leb a b = true \/ leb b a = true) ->
    (forall a b c, leb a b = true -> leb b c = true -> leb a c = true) ->
    (forall a b, ltb a b = negb (leb b a)) ->
    forall (ops : list (op (gelt P))) (t : gtree P),
      ids_fresh (gid P) (gless P ltb) ops -> grun P leb ltb ops = Some t ->
      inorder t = fold_left (list_step (gid P) (gless P ltb)) ops []
      /\ sorted (gless P ltb) (inorder t) /\ NoDup (ids (gid P) (inorder t)) /\ Forall (gwf P leb) (inorder t)
      /\ rb t /\ (height t <= 2 * Nat.log2 (size t + 1))%nat
      /\ gexact P leb t            (* every subtree: stored max is an upper bound of its upper bounds and attained *)
      /\ forall lb ub, leb lb ub = true ->
           Permutation (gfor_overlaps P leb lb ub t) (map (gid P) (filter (gspec P leb lb ub) (inorder t)))
           /\ NoDup (gfor_overlaps P leb lb ub t).
Proof. exact ghistory. Qed.

(* the instance with signed endpoints *)
Theorem C07_signed_endpoints : forall (ops : list (op (gelt Z))) (t : gtree Z),
  ids_fresh (gid Z) (gless Z Z.ltb) ops -> grun Z Z.leb Z.ltb ops = Some t ->
  sorted (gless Z Z.ltb) (inorder t) /\ NoDup (ids (gid Z) (inorder t))
  /\ gexact Z Z.leb t
  /\ forall lb ub : Z, (lb <= ub)%Z ->
       Permutation (gfor_overlaps Z Z.leb lb ub t)
                   (map (gid Z) (filter (fun e => Z.leb (glo Z e) ub && Z.leb lb (ghi Z e)) (inorder t)))
       /\ NoDup (gfor_overlaps Z Z.leb lb ub t).
Proof. exact history_Z. Qed.

(* the extracted model that the correspondence check runs is the instance P = N of that generic text (by conversion) *)
Theorem C07_extracted_model_is_N_instance :
  iagg = gagg N N.ltb /\ iless = gless N N.ltb /\ iinsert = ginsert N N.leb N.ltb /\ iremove = gremove N N.ltb
  /\ ovl = govl N N.leb /\ for_overlaps = gfor_overlaps N N.leb.
Proof.
  exact (conj N_instance_agg (conj N_instance_less (conj N_instance_insert (conj N_instance_remove
           (conj N_instance_ovl N_instance_for_overlaps))))).
Qed.

Print Assumptions C07_annotation_is_subtree_max.
Print Assumptions C07_annotation_meaning.
Print Assumptions C07_annotation_exact.
Print Assumptions C07_annotation_exact_step.
Print Assumptions C07_early_stop_sound.
Print Assumptions C07_early_stop_sound_above.
Print Assumptions C07_aggregate_path_restores.
Print Assumptions C07_aggregate_path_clean.
Print Assumptions C07_source_test_is_overlap.
Print Assumptions C07_overlaps_exact.
Print Assumptions C07_overlaps_membership.
Print Assumptions C07_overlaps_result.
Print Assumptions C07_one_argument_form.
Print Assumptions C07_history.
Print Assumptions C07_assert_exact.
Print Assumptions C07_any_ordered_endpoint_type.
Print Assumptions C07_signed_endpoints.
Print Assumptions C07_extracted_model_is_N_instance.

(* ---- non-vacuity.  A history with nested ([1,6] ⊃ [3,4], [0,7] ⊃ [1,6]), touching ([3,4] | [4,5] | [5,7]), single-point
   ([4,4], [2,2]) and duplicate ([3,4] twice) intervals; behind it: LL and RR rotations on insertion, removal with
   red sibling + far nephew rotations, removal of holders of the maximum (7 -> 6, then 9 inserted), removal of the
   root with two children (replace_node).  The same script is corpus-demo of comp/interval/gen.py, i.e. it is also run
   on the real code. *)
Definition demo_ops : list (op ielt) :=
  [OIns (3, 4, 0); OIns (1, 6, 1); OIns (0, 7, 2); OIns (4, 4, 3); OIns (4, 5, 4); OIns (5, 7, 5);
   OIns (2, 2, 6); OIns (3, 4, 7); ORem 2; ORem 5; OIns (6, 9, 2); ORem 1; ORem 3].
Definition demo_tree : itree :=
  T Black (T Black (T Red E (2, 2, 6) 2 E) (3, 4, 0) 4 E) (3, 4, 7) 9 (T Black E (4, 5, 4) 9 (T Red E (6, 9, 2) 9 E)).

Example C07_demo_ids_fresh : ids_fresh iid iless demo_ops.
Proof. vm_compute. repeat split; intuition discriminate. Qed.
Example C07_demo_run : irun demo_ops = Some demo_tree.
Proof. vm_compute. reflexivity. Qed.

Example C07_demo_history :
  annot_exact demo_tree
  /\ maxes demo_tree = [(6, 2); (0, 4); (7, 9); (4, 9); (2, 9)]
  /\ for_overlaps 4 4 demo_tree = [7; 0; 4]             (* [3,4] twice, [4,5]; not [2,2], [6,9] *)
  /\ for_overlaps 5 6 demo_tree = [4; 2]                (* touching at both ends *)
  /\ for_overlaps 0 1 demo_tree = [] /\ for_overlaps 10 12 demo_tree = []      (* before / after *)
  /\ for_overlaps 0 9 demo_tree = [7; 0; 6; 4; 2]       (* spanning *)
  /\ for_point 2 demo_tree = [6] /\ for_point 9 demo_tree = [2]
  /\ Permutation (for_overlaps 3 3 demo_tree) [0; 7] /\ NoDup (for_overlaps 3 3 demo_tree).
Proof.
  destruct (C07_history demo_ops demo_tree C07_demo_ids_fresh C07_demo_run) as (_ & _ & _ & _ & _ & _ & X & Q).
  split; [exact X|]. repeat (split; [vm_compute; reflexivity|]).
  destruct (Q 3 3 ltac:(lia)) as (P & Nd & _). split; [|exact Nd].
  eapply Permutation_trans; [exact P|]. vm_compute. apply Permutation_refl.
Qed.

(* the hypotheses of C07_overlaps_exact are met by that tree *)
Example C07_demo_overlaps_hyps :
  sorted iless (inorder demo_tree) /\ annot_exact demo_tree /\ Forall wf (inorder demo_tree)
  /\ NoDup (ids iid (inorder demo_tree)) /\ size demo_tree = 5%nat.
Proof.
  destruct (C07_history demo_ops demo_tree C07_demo_ids_fresh C07_demo_run) as (_ & S & Nd & W & _ & _ & X & _).
  repeat split; assumption.
Qed.

(* the pruning result on that tree: nothing overlaps [10,12] (false), [2,2] is found (true) *)
Example C07_demo_result : ovl 10 12 demo_tree = ([], false) /\ ovl 2 2 demo_tree = ([(2, 2, 6)], true).
Proof. split; vm_compute; reflexivity. Qed.

(* lb > ub is outside the property's quantifier, and the exclusion is necessary: for the stored interval [4,6] and the
   "query" lb = 5, ub = 3 the source's test reports the node, the property's predicate (4 <= 3 /\ 5 <= 6) does not *)
Example C07_inverted_query_differs :
  let t : itree := insert iless iagg (4, 6, 0) E in
  for_overlaps 5 3 t = [0] /\ filter (ovl_spec 5 3) (inorder t) = [].
Proof. split; vm_compute; reflexivity. Qed.

(* lower > upper stops in the assertion *)
Example C07_demo_assert : irun [OIns (1, 2, 0); OIns (5, 4, 1)] = None.
Proof. vm_compute. reflexivity. Qed.

(* the early stop: a chain of three ancestors (right spine), consistent with the old value 3 below; the new value 5
   below changes the first two frames, the third is unchanged -> the walk stops there; both walks agree *)
Definition demo_chain : chain ielt N :=
  [CF SR Black (2, 3, 10) 3 E; CF SR Red (1, 4, 11) 4 E; CF SL Black (7, 9, 12) 9 E].
Example C07_demo_early_stop :
  chain_ok ielt N iagg (Some 3) demo_chain
  /\ path_early iagg N.eqb (Some 5) demo_chain
     = [CF SR Black (2, 3, 10) 5 E; CF SR Red (1, 4, 11) 5 E; CF SL Black (7, 9, 12) 9 E]
  /\ path_early iagg N.eqb (Some 5) demo_chain = path_full iagg (Some 5) demo_chain.
Proof. split; [vm_compute; auto|]. split; vm_compute; reflexivity. Qed.

(* without the precondition the early stop is NOT sound: a stale ancestor above an unchanged node stays stale *)
Example C07_demo_early_stop_needs_consistency :
  let ch : chain ielt N := [CF SR Black (2, 3, 10) 3 E; CF SR Red (1, 4, 11) 99 E] in
  path_early iagg N.eqb (Some 3) ch = ch /\ path_full iagg (Some 3) ch <> ch.
Proof. split; vm_compute; [reflexivity|discriminate]. Qed.

(* aggregate_path after overwriting upper(node 6) := 20 in the demo tree: the maximum travels to the root *)
Example C07_demo_aggregate_path :
  let t := iaggregate_path true 6 (iset_hi 6 20 demo_tree) in
  annot_exact t /\ maxes t = [(6, 20); (0, 20); (7, 20); (4, 9); (2, 9)].
Proof.
  split; [|vm_compute; reflexivity].
  exact (proj1 (C07_aggregate_path_restores 6 (2, 20, 6) demo_tree eq_refl (proj1 C07_demo_history))).
Qed.

(* negative and mixed-sign endpoints: the demo history shifted by -4 (endpoints -4 .. 5), as signed integers.  Every upper
   bound of the left part is negative: a sentinel "maximum of an absent child" above them would make the annotation
   inexact and the search would skip the right subtree (the search relies on gexact). *)
Local Open Scope Z_scope.
Definition demo_ops_Z : list (op (gelt Z)) :=
  [OIns (-1, 0, 0%N); OIns (-3, 2, 1%N); OIns (-4, 3, 2%N); OIns (0, 0, 3%N); OIns (0, 1, 4%N); OIns (1, 3, 5%N);
   OIns (-2, -2, 6%N); OIns (-1, 0, 7%N); ORem 2%N; ORem 5%N; OIns (2, 5, 2%N); ORem 1%N; ORem 3%N].
Example C07_demo_signed :
  exists t, grun Z Z.leb Z.ltb demo_ops_Z = Some t
    /\ ids_fresh (gid Z) (gless Z Z.ltb) demo_ops_Z
    /\ gfor_overlaps Z Z.leb 0 0 t = [7; 0; 4]%N /\ gfor_overlaps Z Z.leb (-2) (-2) t = [6]%N
    /\ gfor_overlaps Z Z.leb (-4) (-3) t = [] /\ gfor_overlaps Z Z.leb 1 2 t = [4; 2]%N
    /\ map (fun n => match n with T _ _ _ a _ => a | E => 0%Z end) [t] = [5%Z].
Proof.
  eexists. split; [vm_compute; reflexivity|]. split; [vm_compute; repeat split; intuition discriminate|].
  repeat split; vm_compute; reflexivity.
Qed.
