(* TIE (radix): definitions regenerated from include/frg/rcu_radixtree.hpp on every run (Gen/Cxx_radix.v, by
   translator/cxx2coq.py) agree with the hand-written model Radix/RadixModel.v -- for every k, d, defined or not. *)
From Coq Require Import NArith ZArith.
From FV Require Import CxxLeaf.CxxSem Gen.Cxx_radix CxxLeaf.Tie_radix.
From FV Require Radix.RadixModel.
Local Open Scope N_scope.

Theorem TIE_pfx_of : forall k d, out_rel (pfx_of k d) (RadixModel.pfx_of k d).
Proof. exact gen_pfx_of_eq_model. Qed.
Print Assumptions TIE_pfx_of.
Example TIE_pfx_of_ex : pfx_of 0x123456789abcdef0 3 = Ok 0x1230000000000000 /\ pfx_of 5 17 = UB UShift.
Proof. vm_compute. split; reflexivity. Qed.

Theorem TIE_idx_of : forall k d, out_rel (idx_of k d) (RadixModel.idx_of k d).
Proof. exact gen_idx_of_eq_model. Qed.
Print Assumptions TIE_idx_of.
Example TIE_idx_of_ex : idx_of 0x123456789abcdef0 3 = Ok 4 /\ idx_of 5 16 = UB UShift.
Proof. vm_compute. split; reflexivity. Qed.
