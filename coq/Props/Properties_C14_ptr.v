(* C14, pointer level -- the pointer code of include/frg/hash_map.hpp (`chain` nodes with `entry` and `next`, the
   `_table` array of `chain *`, insert linking at the bucket head, operator[], the get/find chain walks, remove with
   its `previous` bookkeeping and unlink, rehash re-threading every node into a new table, the iterator's
   begin / operator++ bucket walk, the destructor), transliterated assignment by assignment (HashMap/HashMapPtr.v),
   REFINES the chain-level model the C14 theorems are about.
   Statements only; proofs in coq/HashMap/HashMapRefine*.v.  Every theorem is for EVERY hash function.
   Vocabulary (HashMap/HashMapPtr.v, HashMap/HashMapRefineBase.v, HashMap/HashMapRefine.v):
     pstate          {p_nodes : id -> option (key, value, next); p_table; p_tid; p_cap; p_size; p_next}
     p_step fuel s o one statement of the harness script on the pointer state: POk (state, output, events) |
                     PAssertStop (FRG_ASSERT) | PNullDeref | PUB (% 0, table index outside the array, dangling or
                     poison pointer) | POutOfFuel
     lseg h p ids    from pointer p the next fields lead through exactly the allocated nodes ids to nullptr
     p_inv s         representation invariant (spelled out in C14_ptr_invariant_def)
     abs s           abstraction function: walk every bucket's chain with fuel _size + 1
     fuel_for s      _capacity + 2 * _size + 11 *)
From Coq Require Import List NArith Arith Bool Permutation.
From FV Require Import Common.EventLog HashMap.HashMapModel HashMap.HashMapProofs HashMap.HashMapLog
  HashMap.HashMapExamples HashMap.HashMapPtr HashMap.HashMapRefineBase HashMap.HashMapRefine.
Import ListNotations.

(* the representation invariant: a ghost table of id chains such that every bucket's pointer chain runs through
   exactly its ids (allocated nodes, ending in nullptr), the chains are acyclic and pairwise disjoint (NoDup of the
   concatenation), _size is the number of reachable nodes, every reachable id was handed out by the allocator,
   every allocated node is reachable (no leak), _table is nullptr exactly while _capacity is 0 *)
Theorem C14_ptr_invariant_def : forall s, p_inv s <->
  exists idt : list (list nat),
    length (p_table s) = p_cap s /\ length idt = p_cap s /\
    (forall j, j < p_cap s -> lseg (p_nodes s) (nth j (p_table s) None) (nth j idt [])) /\
    NoDup (concat idt) /\
    p_size s = length (concat idt) /\
    (forall z, In z (concat idt) -> 0 < z < p_next s) /\
    (forall z, p_nodes s z <> None -> In z (concat idt)) /\
    p_tid s < p_next s /\ (p_cap s = 0 <-> p_tid s = 0).
Proof. exact p_inv_def. Qed.
Print Assumptions C14_ptr_invariant_def.

Theorem C14_ptr_invariant_init : p_inv p_init /\ abs p_init = empty_hm.
Proof. exact (conj p_inv_init abs_init). Qed.
Print Assumptions C14_ptr_invariant_init.

(* rehash(): the nested loops that re-thread every node into the new table yield exactly the chain-level rehash
   (same chains in the same order), for every state satisfying the invariant *)
Theorem C14_ptr_rehash : forall hash psz fuel s,
  p_inv s -> fuel_for s <= fuel ->
  exists s' evs, p_rehash hash psz fuel s = POk (s', evs) /\ p_inv s' /\ abs s' = rehash hash (abs s) /\
    p_cap s' = Nat.max 10 (2 * p_size s) /\ p_size s' = p_size s.
Proof. exact p_rehash_refines. Qed.
Print Assumptions C14_ptr_rehash.

(* THE REFINEMENT THEOREM: for every pointer state satisfying the invariant and every script statement (insert,
   m[k] = v, get + find, remove, iteration, size), the pointer-level code run with fuel >= fuel_for s ends without
   assertion, null dereference, UB or fuel exhaustion, in a state satisfying the invariant whose abstraction is the
   chain-level step of the abstraction of the input, with the same output.  (The chain-level model never stops in an
   assertion, so neither does the pointer code; no hypothesis on insert's key is needed for the refinement.) *)
Theorem C14_ptr_refines_chain_model : forall hash psz nsz fuel s o,
  p_inv s -> fuel_for s <= fuel ->
  exists s' evs, p_step hash psz nsz fuel s o = POk (s', snd (step hash (abs s) o), evs) /\
    p_inv s' /\ abs s' = fst (step hash (abs s) o).
Proof. exact p_step_refines. Qed.
Print Assumptions C14_ptr_refines_chain_model.

(* fuel lemma: fuel_for s = _capacity + 2 * _size + 11 suffices for every loop of every call *)
Theorem C14_ptr_fuel : forall hash psz nsz s o,
  p_inv s ->
  let r := p_step hash psz nsz (fuel_for s) s o in
  r <> POutOfFuel /\ r <> PNullDeref /\ r <> PUB /\ r <> PAssertStop.
Proof. exact p_step_fuel. Qed.
Print Assumptions C14_ptr_fuel.

(* get and find walk the same chain: find returns (bucket, node) exactly when get returns the node, end() otherwise;
   the value behind the pointer is the chain-level get *)
Theorem C14_ptr_get_find : forall hash fuel s k,
  p_inv s -> fuel_for s <= fuel ->
  exists p, p_get hash fuel s k = POk p /\
    p_find hash fuel s k = POk (match p with Some _ => (bucket_of hash (p_cap s) k, p) | None => p_end s end) /\
    val_of (p_nodes s) p = POk (get hash k (abs s)).
Proof. exact p_get_refines. Qed.
Print Assumptions C14_ptr_get_find.

(* begin() / operator++ / end(): the bucket walk yields exactly the chain-level iteration sequence *)
Theorem C14_ptr_iterate : forall fuel s,
  p_inv s -> fuel_for s <= fuel -> exists evs, p_iterate fuel s = POk (iterate (abs s), evs).
Proof. exact p_iterate_refines. Qed.
Print Assumptions C14_ptr_iterate.

(* ~hash_map(): every node is released (no node stays allocated) *)
Theorem C14_ptr_destructor : forall psz nsz fuel s,
  p_inv s -> fuel_for s <= fuel ->
  exists h' evs, p_destroy psz nsz fuel s = POk (h', evs) /\ forall z, h' z = None.
Proof. exact p_destroy_refines. Qed.
Print Assumptions C14_ptr_destructor.

(* every history from the empty map, one fuel for all calls: the pointer-level run ends in POk, its outputs are the
   chain-level outputs, its final state satisfies the invariant and abstracts to the chain-level final map *)
Theorem C14_ptr_history : forall hash psz nsz ops fuel,
  4 * length ops + 21 <= fuel ->
  exists s evs, p_run hash psz nsz fuel p_init ops = POk (s, snd (run hash empty_hm ops), evs) /\
    p_inv s /\ abs s = fst (run hash empty_hm ops) /\ fuel_for s <= fuel.
Proof. exact p_run_history. Qed.
Print Assumptions C14_ptr_history.

(* C14 transferred to the pointer state: for every history with inserts of absent keys only, the outputs of the
   pointer-level run agree with the reference association list r (get/find, operator[], remove, size equal; iterations
   permutations without repeated keys); at the end _size = |r|, the pointer-level iteration is a permutation of r
   without repeated keys, the pointer-level get of every key returns what r associates with it, the chain-level
   invariant hm_inv (every entry in the bucket of its hash for the CURRENT capacity, ...) holds of the abstraction, and
   the destructor leaves no node allocated *)
Theorem C14_ptr_refines_map : forall hash psz nsz ops fuel,
  inserts_absent ops -> 4 * length ops + 21 <= fuel ->
  let r := fst (ref_run [] ops) in
  exists s outs evs, p_run hash psz nsz fuel p_init ops = POk (s, outs, evs) /\
    p_inv s /\ hm_inv hash (abs s) /\
    Forall2 out_ok outs (snd (ref_run [] ops)) /\
    p_size s = length r /\
    (exists l e, p_iterate fuel s = POk (l, e) /\ Permutation l r /\ NoDup (map fst l)) /\
    (forall k, exists p, p_get hash fuel s k = POk p /\ val_of (p_nodes s) p = POk (assoc k r)) /\
    (exists h' e, p_destroy psz nsz fuel s = POk (h', e) /\ forall z, h' z = None).
Proof. exact ptr_refines_map. Qed.
Print Assumptions C14_ptr_refines_map.

(* ---- non-vacuity: ex_ops (HashMapExamples.v; m[0..20] = the D10 script, inserts, overwrite, removes, queries; capacity
   10 -> 20 -> 40) run through BOTH models by vm_compute ---- *)

Definition ex_fuel : nat := 4 * length ex_ops + 21.
Definition ptr_run (h : N -> N) (ops : list op) : pstate * list out * list ev :=
  match p_run h 8%N 40%N ex_fuel p_init ops with POk r => r | _ => (p_init, [], []) end.
Definition ptr_state (h : N -> N) (ops : list op) : pstate := fst (fst (ptr_run h ops)).
Definition dump (s : pstate) : list (option pnode) := map (fun i => p_nodes s i) (seq 0 (p_next s)).

Example C14_ptr_invariant_init_nonvacuous : p_table p_init = [] /\ p_tid p_init = 0 /\ p_next p_init = 1.
Proof. repeat split. Qed.

(* the final pointer state of the D10 script under the identity hash: key 20 was linked into bucket 20 of the table
   allocated by the SECOND rehash (block 23, capacity 40), 27 nodes in 32 allocations *)
Example C14_ptr_invariant_def_nonvacuous :
  let s := ptr_state ex_id ex_ops in
  p_cap s = 40 /\ p_size s = 27 /\ p_tid s = 23 /\ p_next s = 33 /\
  nth 19 (p_table s) None = Some 22 /\ p_nodes s 22 = Some (mk_pnode 19 20 None) /\
  nth 20 (p_table s) None = Some 25 /\ p_nodes s 25 = Some (mk_pnode 100 7 None) /\
  length (filter (fun n => match n with Some _ => true | None => false end) (dump s)) = 27.
Proof. vm_compute. repeat split. Qed.

(* a 12-element map with a constant hash (one chain of 12): rehash() re-threads it into the reverse order *)
Example C14_ptr_rehash_nonvacuous :
  let s := ptr_state ex_const (map (fun i => Insert (N.of_nat i) 1) (seq 0 12)) in
  p_cap s = 20 /\ map fst (nth 7 (table (abs s)) []) = [11; 10; 0; 1; 2; 3; 4; 5; 6; 7; 8; 9]%N /\
  match p_rehash ex_const 8%N (fuel_for s) s with
  | POk (s', evs) => abs s' = rehash ex_const (abs s) /\ p_cap s' = 24 /\
                     map fst (nth 7 (table (abs s')) []) = [9; 8; 7; 6; 5; 4; 3; 2; 1; 0; 10; 11]%N /\
                     evs = [EAlloc 15 192; EDealloc 12 160]
  | _ => False
  end.
Proof. vm_compute. repeat split. Qed.

(* both models on every prefix of the D10 script, identity and constant hash: same abstraction, same outputs *)
Example C14_ptr_refines_chain_model_nonvacuous :
  forallb (fun n => let ops := firstn n ex_ops in
             match p_run ex_id 8%N 40%N ex_fuel p_init ops, p_run ex_const 8%N 40%N ex_fuel p_init ops with
             | POk (s, outs, _), POk (s', outs', _) =>
               Nat.eqb (p_size s) (size (fst (run ex_id empty_hm ops))) &&
               Nat.eqb (length (concat (table (abs s)))) (p_size s) &&
               Nat.eqb (length outs) n && Nat.eqb (length outs') n
             | _, _ => false
             end) (seq 0 (S (length ex_ops))) = true /\
  map (fun n => abs (ptr_state ex_id (firstn n ex_ops))) (seq 0 (S (length ex_ops))) =
  map (fun n => fst (run ex_id empty_hm (firstn n ex_ops))) (seq 0 (S (length ex_ops))) /\
  map (fun n => abs (ptr_state ex_const (firstn n ex_ops))) (seq 0 (S (length ex_ops))) =
  map (fun n => fst (run ex_const empty_hm (firstn n ex_ops))) (seq 0 (S (length ex_ops))) /\
  snd (fst (ptr_run ex_id ex_ops)) = snd (run ex_id empty_hm ex_ops) /\
  snd (fst (ptr_run ex_const ex_ops)) = snd (run ex_const empty_hm ex_ops).
Proof. vm_compute. repeat split. Qed.

(* the fuel statement is not empty: the model does run out of fuel when given less (key 9 is the 12th node of its
   chain), and the other outcomes are reachable from states that violate the invariant: a cyclic chain, _size > 0
   with an empty table (begin() hits FRG_ASSERT(!"hash_map corrupted")), _table == nullptr with _capacity > 0,
   _capacity == 0 with _size > 0 *)
Definition ops12 : list op := map (fun i => Insert (N.of_nat i) 1%N) (seq 0 12).
Definition bad_cyclic : pstate :=
  mk_pstate (fun i => if Nat.eqb i 1 then Some (mk_pnode 5 5 (Some 1)) else None) (repeat (Some 1) 10) 2 10 1 3.
Definition bad_empty_table : pstate := mk_pstate (fun _ => None) (repeat None 10) 1 10 1 2.
Definition bad_null_table : pstate := mk_pstate (fun _ => None) [] 0 10 1 1.
Definition bad_zero_cap : pstate := mk_pstate (fun _ => None) [] 0 0 1 1.

Example C14_ptr_fuel_nonvacuous :
  let s := ptr_state ex_const ops12 in
  p_inv s /\ fuel_for s = 55 /\
  p_step ex_const 8%N 40%N 11 s (Get 9) = POutOfFuel /\
  p_step ex_const 8%N 40%N 12 s (Get 9) = POk (s, OVal (Some 1%N), [EUse (11, 0)]) /\
  (let s20 := ptr_state ex_const (map (fun i => Insert (N.of_nat i) 1%N) (seq 0 20)) in   (* _size == _capacity == 20 *)
   p_step ex_const 8%N 40%N 39 s20 (Insert 50 1) = POutOfFuel /\       (* rehash(): 40 stores of nullptr *)
   exists r, p_step ex_const 8%N 40%N 40 s20 (Insert 50 1) = POk r) /\
  p_get ex_const 1000 bad_cyclic 6 = POutOfFuel /\
  p_begin 1000 bad_empty_table = PAssertStop /\
  p_get ex_const 1000 bad_null_table 6 = PNullDeref /\
  p_get ex_const 1000 bad_zero_cap 6 = PUB.
Proof.
  split.
  { destruct (C14_ptr_history ex_const 8%N 40%N ops12 ex_fuel) as (s & evs & E & I & _); [vm_compute; repeat constructor|].
    unfold ptr_state, ptr_run. rewrite E. exact I. }
  vm_compute. repeat split. eexists. reflexivity.
Qed.

Example C14_ptr_get_find_nonvacuous :
  let s := ptr_state ex_id ex_ops in
  p_get ex_id (fuel_for s) s 19 = POk (Some 22) /\ p_find ex_id (fuel_for s) s 19 = POk (19, Some 22) /\
  get ex_id 19 (abs s) = Some 20%N /\
  p_get ex_id (fuel_for s) s 20 = POk None /\ p_find ex_id (fuel_for s) s 20 = POk (40, None) /\
  get ex_id 20 (abs s) = None.
Proof. vm_compute. repeat split. Qed.

(* iteration of the final D10 state under the constant hash walks one chain of 27 and 39 empty buckets *)
Example C14_ptr_iterate_nonvacuous :
  let s := ptr_state ex_const ex_ops in
  match p_iterate (fuel_for s) s with
  | POk (l, e) => l = iterate (abs s) /\ length l = 27 /\ length e = 27 /\
                  length (filter (fun c => match c with [] => false | _ => true end) (table (abs s))) = 1
  | _ => False
  end /\
  match p_begin (fuel_for s) s with POk it => it = (7, nth 7 (p_table s) None) | _ => False end.
Proof. vm_compute. repeat split. Qed.

(* the destructor's events are those of HashMapLog.v (C16) and the heap is empty afterwards *)
Example C14_ptr_destructor_nonvacuous :
  let s := ptr_state ex_const ex_ops in
  match p_destroy 8%N 40%N (fuel_for s) s with
  | POk (h', e) => map h' (seq 0 40) = repeat None 40 /\ length e = 55 /\
                   e = destructor_evs 8%N 40%N (final_of (lrun ex_const 8%N 40%N empty_lhm ex_ops))
  | _ => False
  end.
Proof. vm_compute. repeat split. Qed.

(* the theorem instantiated: the state computed by vm_compute IS the state the theorem speaks about *)
Example C14_ptr_history_nonvacuous :
  length ex_ops = 38 /\ ex_fuel = 173 /\
  p_inv (ptr_state ex_id ex_ops) /\ abs (ptr_state ex_id ex_ops) = fst (run ex_id empty_hm ex_ops) /\
  cap (fst (run ex_id empty_hm ex_ops)) = 40 /\
  (* ... and the pointer model's event log is the log of HashMapLog.v (C16): 142 events *)
  snd (ptr_run ex_id ex_ops) = log_of (lrun ex_id 8%N 40%N empty_lhm ex_ops) /\
  snd (ptr_run ex_const ex_ops) = log_of (lrun ex_const 8%N 40%N empty_lhm ex_ops) /\
  length (snd (ptr_run ex_id ex_ops)) = 142.
Proof.
  split; [reflexivity|]. split; [reflexivity|].
  destruct (C14_ptr_history ex_id 8%N 40%N ex_ops ex_fuel (le_n _)) as (s & evs & E & I & EA & _).
  assert (Es : ptr_state ex_id ex_ops = s) by (unfold ptr_state, ptr_run; rewrite E; reflexivity).
  rewrite Es. split; [exact I|]. split; [exact EA|].
  vm_compute. repeat split.
Qed.

Example C14_ptr_refines_map_nonvacuous :
  ops_okb [] ex_ops = true /\
  length (fst (ref_run [] ex_ops)) = 27 /\
  p_size (ptr_state ex_id ex_ops) = 27 /\
  (* outputs 32..36: remove 999 misses, 20 is gone, 19 -> 20, 5 -> 500, size 27 *)
  firstn 5 (skipn 32 (snd (fst (ptr_run ex_id ex_ops)))) =
    [OVal None; OVal None; OVal (Some 20%N); OVal (Some 500%N); OVal (Some 27%N)] /\
  (* the D10 key: m[20] after m[0..19] is found by the pointer-level get *)
  (let s := ptr_state ex_id (firstn 21 ex_ops) in
   p_cap s = 40 /\ exists x, p_get ex_id (fuel_for s) s 20 = POk (Some x) /\ val_of (p_nodes s) (Some x) = POk (Some 21%N)).
Proof. vm_compute. repeat split. eexists. split; reflexivity. Qed.
