(* C17: optional, expected, variant, manual_box are faithful value holders; tuple (partial).
   Statements only; proofs are in Holders/*Proofs.v. *)
From Coq Require Import List NArith Arith Bool.
From FV Require Import Common.EventLog Holders.HoldersCommon Holders.OptionalModel Holders.ExpectedModel
  Holders.VariantModel Holders.BoxModel Holders.TupleModel
  Holders.OptionalProofs Holders.ExpectedProofs Holders.VariantProofs Holders.BoxProofs Holders.TupleProofs.
Import ListNotations.
Local Open Scope N_scope.

(* For every element category k, every number n of holder variables (all starting as raw storage) and
   every sequence of operations (constructors, destructor, the four assignment operators incl.
   self-assignment, emplace, reset, accessors): the engaged state and held value of every variable equal
   those of the reference run on Coq's [option] (= std::optional), and every output -- in particular what
   the accessors return, and where they stop in the assertion hook -- equals the reference's. *)
Theorem C17_optional_refines_std : forall (k : ekind) (n : nat) (ops : list oop),
  map (abs_cell abs_opt) (fst (fst (orun k (ovars0 n) ops))) = fst (fst (rorun (repeat Dead n) ops)) /\
  snd (fst (orun k (ovars0 n) ops)) = snd (fst (rorun (repeat Dead n) ops)).
Proof. exact optional_refines_std. Qed.
Print Assumptions C17_optional_refines_std.

Example C17_optional_nonvacuous :
  let ops := [ONewConv 0 5; ONew 1; OMAssign 1 0; OAssign 0 0; OCAssign 2 (Some 9); OEmplace 1 7; OReset 0; OGet 1; OGet 0] in
  fst (orun KFull (ovars0 3) ops) =
    ([Live (mk_opt false (mk_elem 5 false)); Live (mk_opt true (mk_elem 7 false)); Dead],
     [RUnit; RUnit; RUnit; RUnit; RSkip; RUnit; RUnit; RVal 7; RAssert]) /\
  fst (rorun (repeat Dead 3) ops) =
    ([Live None; Live (Some 7); Dead], [RUnit; RUnit; RUnit; RUnit; RSkip; RUnit; RUnit; RVal 7; RAssert]).
Proof. vm_compute. split; reflexivity. Qed.

(* Throwing element constructors.  The element's converting constructor throws on the designated argument
   [throw_magic] (output [RThrow], the run goes on): the theorems above/below cover optional::emplace and
   optional(U&&), variant::emplace, manual_box::initialize / construct_with on that argument -- the reference says what
   std::optional::emplace specifies ("if the constructor throws, *this does not contain a value"; for variant: the
   destroy-then-construct order leaves it holding nothing, std: valueless_by_exception, here: empty; manual_box stays
   uninitialized; a throwing optional(U&&) creates no optional).  Intended semantics of the remaining throwing paths
   (copy/move/converting assignment into engaged and disengaged targets, variant assignment with a different
   alternative, expected's assignments and constructors), carried by the harness oracle only
   (comp/holders/throw_part.hpp, a fault at every element construction/assignment point): a holder reports a value /
   an alternative if and only if an element object is alive in its storage, nothing is destroyed twice or leaked;
   optional's state equals std::optional's under the same fault; variant is unchanged or empty after a throw.
   expected does not meet this (recorded: D60). *)
Example C17_throwing_emplace_nonvacuous :
  snd (fst (orun KFull (ovars0 1) [ONewConv 0 5; OEmplace 0 throw_magic; OHas 0; OEmplace 0 7; OGet 0])) =
    [RUnit; RThrow; RBool false; RUnit; RVal 7] /\
  snd (orun KFull (ovars0 1) [ONewConv 0 5; OEmplace 0 throw_magic]) = [EConstruct (sv 0); EDestroy (sv 0)] /\
  snd (fst (vrun 3 KFull (vvars0 1) [VNewVal 0 1 5; VEmplace 0 2 throw_magic; VTag 0])) = [RUnit; RThrow; RNone] /\
  snd (fst (brun (bvars0 1) [BNew 0; BInit 0 throw_magic; BValid 0; BInit 0 4])) = [RUnit; RThrow; RBool false; RUnit] /\
  snd (fst (orun KFull (ovars0 1) [ONewConv 0 throw_magic; ONew 0])) = [RThrow; RUnit].
Proof. vm_compute. repeat split; reflexivity. Qed.

(* expected<E, T>: error state/code and held value equal the reference on the sum type N + N
   (inl = error code, inr = value), for construction, copy/move construction, copy/move assignment
   (incl. self-assignment), accessors, unwrap, map, map_error. *)
Theorem C17_expected_refines_std : forall (k : ekind) (n : nat) (ops : list xop),
  map (abs_cell abs_exp) (fst (fst (xrun k (xvars0 n) ops))) = fst (fst (rxrun (repeat Dead n) ops)) /\
  snd (fst (xrun k (xvars0 n) ops)) = snd (fst (rxrun (repeat Dead n) ops)).
Proof. exact expected_refines_std. Qed.
Print Assumptions C17_expected_refines_std.

Example C17_expected_nonvacuous :
  let ops := [XNewVal 0 5; XNewErr 1 3; XAssign 2 0; XNewCopy 2 1; XMAssign 1 0; XMAssign 0 0; XMap 1; XMapError 2; XAssign 0 2; XValue 0] in
  snd (fst (xrun KFull (xvars0 3) ops)) =
    [RUnit; RUnit; RSkip; RUnit; RUnit; RUnit; RVal 11; RErr 13; RUnit; RAssert] /\
  map (abs_cell abs_exp) (fst (fst (xrun KFull (xvars0 3) ops))) = [Live (inl 3); Live (inr 5); Live (inl 3)].
Proof. vm_compute. split; reflexivity. Qed.

(* variant<T0..T(nalt-1)>: the alternative (or emptiness) and the held value equal the reference on
   option (nat * N), for construction from a value, copy/move construction, assignment (same
   alternative: assign; different: destroy then construct; empty to empty: nothing), assignment from a
   value, emplace, get, is, tag, apply. *)
Theorem C17_variant_refines_std : forall (nalt : nat) (k : ekind) (n : nat) (ops : list vop),
  map (abs_cell abs_var) (fst (fst (vrun nalt k (vvars0 n) ops))) = fst (fst (rvrun nalt (repeat Dead n) ops)) /\
  snd (fst (vrun nalt k (vvars0 n) ops)) = snd (fst (rvrun nalt (repeat Dead n) ops)).
Proof. exact variant_refines_std. Qed.
Print Assumptions C17_variant_refines_std.

Example C17_variant_nonvacuous :
  let ops := [VNew 0; VNew 1; VAssign 0 1; VNewVal 2 2 7; VMAssign 0 2; VAssign 0 2; VEmplace 1 0 4; VAssign 0 1; VAssign 1 1;
              VApply 0; VIs 0 2; VGet 2 2; VGet 0 2] in
  snd (fst (vrun 3 KFull (vvars0 3) ops)) =
    [RUnit; RUnit; RUnit; RUnit; RUnit; RUnit; RUnit; RUnit; RUnit; RVal 4; RBool false; RVal 7; RAssert] /\
  map (abs_cell abs_var) (fst (fst (vrun 3 KFull (vvars0 3) ops))) = [Live (Some (0%nat, 4)); Live (Some (0%nat, 4)); Live (Some (2%nat, 7))].
Proof. vm_compute. split; reflexivity. Qed.

(* manual_box<T>: initialized flag and held value equal the reference on [option]; initialize /
   construct_with on an initialized box and destruct / get on an empty one stop in the assertion hook.
   Intended semantics of the argument-forwarding operations (manual_box::initialize, optional::emplace and
   optional(U&&), variant::emplace): the held object is T(args...) -- direct (parenthesised) initialisation,
   exactly what std::optional<T>::emplace(args...) / std::variant::emplace<T>(args...) hold; NOT T{args...}, which
   selects an initializer_list constructor where T has one (std::vector<int>(3, 7) = {7,7,7} vs {3,7}).
   construct_with(f) and expected(T) hold a copy/move of the given object.  The model's element is a number built
   from one argument, so this clause is outside what the model expresses: it is carried by the harness oracle only
   (comp/holders/il_part.hpp: std::vector<int> and a user-defined Bag with 1, 2 and 3 constructor arguments, compared
   with the std:: counterparts). *)
Theorem C17_manual_box_refines_std : forall (n : nat) (ops : list bop),
  map (abs_cell abs_box) (fst (fst (brun (bvars0 n) ops))) = fst (fst (rbrun (repeat Dead n) ops)) /\
  snd (fst (brun (bvars0 n) ops)) = snd (fst (rbrun (repeat Dead n) ops)).
Proof. exact box_refines_std. Qed.
Print Assumptions C17_manual_box_refines_std.

Example C17_manual_box_nonvacuous :
  let ops := [BNew 0; BInit 0 5; BGet 0; BDestruct 0; BConstructWith 0 6; BValid 0; BInit 0 7] in
  fst (brun (bvars0 2) ops) =
    ([Live (mk_box true (mk_elem 6 false)); Dead], [RUnit; RUnit; RVal 5; RUnit; RUnit; RBool true; RAssert]).
Proof. vm_compute. reflexivity. Qed.

(* tuple.  FULL STATEMENT WANTED (not proved): "frg::tuple's get<i>, apply and tuple_cat, as compiled from
   tuple.hpp for every element type list, preserve element order, values and reference identity".
   The substance of tuple.hpp is template metaprogramming (nth_type, access_helper, tuple_concater,
   index sequences), which a Gallina model does not capture.  What is proved is only the list-level
   specification that the harness checks the real code against (comp/holders/tuple_part.hpp:
   static_asserts on the result types + run-time checks over trivial, move-only, copy-only and reference
   element types, std::tuple_cat / std::apply as oracle): get is indexing, tuple_cat is concatenation,
   copy/move construction keeps order and values, and -- outside the recorded class D17 -- tuple_cat
   treats its arguments as the standard does.  GAP: the tie between this specification and tuple.hpp is
   the correspondence run only; reference identity is checked at run time only.
   Intended semantics of the converting constructors tuple<T...>(const tuple<U...>&) / (tuple<U...>&&), also
   oracle-only (tuple_conversion_checks in comp/holders/tuple_part.hpp, std::tuple as reference): element i of the
   result is T_i initialised from (an lvalue / xvalue of) element i OF THE SOURCE OBJECT ITSELF.  Hence
   values<-values and values<-refs copy (or move) the value and leave what a reference element refers to alone on copy;
   refs<-values from an lvalue (or a named xvalue) source and refs<-refs ALIAS the source's elements
   (&get<i>(view) == &get<i>(src)); no element object is constructed or moved by building a view.  tuple.hpp defines
   no converting assignment. *)
Theorem C17_tuple_partial :
  (forall vs n, tup_get (tup_make vs) n = option_map fresh (nth_error vs n)) /\
  (forall k args, map val (fst (tup_cat_impl k args)) = concat (map (fun a => map val (snd a)) args)) /\
  (forall k args, d17_class k args = false -> tup_cat_impl k args = tup_cat_spec k args) /\
  (forall t, map val (fst (tup_copy t)) = map val t /\ snd (tup_copy t) = t) /\
  (forall k t, map val (fst (tup_move k t)) = map val t /\ map val (snd (tup_move k t)) = map val t).
Proof.
  exact (conj tup_get_make (conj tup_cat_values (conj tup_cat_outside_known (conj tup_copy_spec tup_move_spec)))).
Qed.
Print Assumptions C17_tuple_partial.

(* D17 (recorded, known_findings.txt): with an lvalue argument and a movable element type the code as it
   is leaves the argument tuples moved-from, which the specification (std::tuple_cat) does not. *)
Theorem C17_tuple_cat_lvalue_refuted :
  exists args, snd (tup_cat_impl KFull args) <> snd (tup_cat_spec KFull args).
Proof. exact tup_cat_refuted. Qed.
Print Assumptions C17_tuple_cat_lvalue_refuted.

Example C17_tuple_nonvacuous :
  tup_cat_impl KFull [(false, tup_make [1; 2; 3]); (false, tup_make [4; 5])] =
    (tup_make [1; 2; 3; 4; 5], [map (mark_moved KFull) (tup_make [1; 2; 3]); map (mark_moved KFull) (tup_make [4; 5])]) /\
  d17_class KFull [(false, tup_make [1; 2; 3]); (false, tup_make [4; 5])] = false /\
  d17_class KFull [(true, tup_make [1])] = true /\
  apply_fold (tup_make [1; 2; 3]) = 209563.
Proof. vm_compute. repeat split; reflexivity. Qed.
