(* C13: sequence containers equal their abstract sequence after any operation sequence.
   Statements only; proofs are in coq/Seq/*Proofs.v and coq/Seq/SeqTheorems.v.  Models: coq/Seq/*Model.v, tied
   to /repo by checks/c13.py (extracted models vs. the real containers on the same scripts).
   In every model an access outside a buffer, a read/destroy of a raw slot or a construction over a live slot
   is the outcome UB; FRG_ASSERT is the outcome AssertStop. *)
From Coq Require Import List NArith Arith Bool.
From FV Require Import Common.EventLog Seq.SlotModel Seq.SlotProofs Seq.VectorModel Seq.VectorProofs
  Seq.SmallVectorModel Seq.SmallVectorProofs Seq.DynArrayModel Seq.StackModel Seq.ListModel Seq.DynStackListProofs
  Seq.IListModel Seq.IListProofs Seq.SeqTheorems.
Import ListNotations.

(* Element values are abstract codes (V = N) in all models.  Two properties of the real element type are therefore
   outside the models and are checked by oracle + correspondence only (comp/seq/harness.cpp, NOTES.md):
   - operations that forward constructor arguments (vector::emplace_back, stack::emplace, small_vector::emplace_back,
     list::emplace_back, resize(k, args...)) store T(args...) -- direct-initialisation, as the std:: containers do;
     the scripts' `emplace2 n x` / `resize2 k n x` denote VEmplace/VResize with the value code of T(n, x);
   - "storage they own" includes its alignment: every element lives at an address that is a multiple of
     alignof(T), inline as well as on the heap (element type alignas(64), oracle kind `alignment`);
   - relocation is the xfer_loop of the models for EVERY element type: one copy/move construction per element (an
     element type with user-provided copy/move constructors and no destructor must not be moved bytewise);
   - `resize(n)` / `dyn_array(n)` construct the new elements by VALUE-initialisation (model value 0 = what
     std::vector<T>(n) holds: zero scalars, null pointers, null member pointers), whatever the fresh block contained. *)

(* ------------------------------------------------------------------------------------------ vector
   [ref_step] is the operation on lists (push = snoc, pop = removelast/last, resize = firstn / padding with the
   value, copy/move/assign/swap on the register file); [ref_ok] = the preconditions the source does not check
   (pop/front/back of an empty vector, index within size) hold along the run.
   [veq] is the element type's operator==, any function: it need not be reflexive (NaN), bitwise (+0.0/-0.0, a
   struct compared by key) or symmetric.  r == s is [list_eqb veq (rs s) (rs r)]: equal lengths and
   veq (s_i) (r_i) for every i (C13_vector_eq_is_list_equality) -- Leibniz equality of the lists exactly when
   veq is Leibniz equality of elements. *)
Theorem C13_vector_refines_list : forall esz veq ops, ref_ok veq rs0 ops ->
  exists st evs,
    vrun esz veq vst0 ops = Ok (st, snd (ref_run veq rs0 ops), evs) /\
    forall r, let l := fst (ref_run veq rs0 ops) r in
      size (regs st r) = length l /\
      (empty (regs st r) = true <-> l = []) /\
      iterate (regs st r) = map Some l /\
      (forall i, i < length l -> index (regs st r) i = Ok (nth i l 0%N)) /\
      (l <> [] -> front (regs st r) = Ok (hd 0%N l) /\ back (regs st r) = Ok (last l 0%N)) /\
      length (v_cells (regs st r)) = v_cap (regs st r).
Proof. exact vector_refines_list. Qed.
Print Assumptions C13_vector_refines_list.

Definition ex_vops : list vop :=
  [VPush 0 1%N; VPushMove 0 2%N; VEmplace 0 3%N; VResize 0 7 9%N; VPop 0; VAssign 1 0; VEq 0 1; VResize 1 2 0%N;
   VEq 0 1; VMoveAssign 2 1; VSwap 0 2; VCopyCtor 1 2; VMoveCtor 2 0; VBack 1; VIndex 2 1; VClear 0; VFront 2].
Example C13_vector_refines_list_ex :
  ref_ok N.eqb rs0 ex_vops /\
  snd (ref_run N.eqb rs0 ex_vops) = [OUnit; OUnit; OUnit; OUnit; OVal 9%N; OUnit; OBool true; OUnit; OBool false; OUnit; OUnit;
                               OUnit; OUnit; OVal 9%N; OVal 2%N; OUnit; OVal 1%N] /\
  fst (ref_run N.eqb rs0 ex_vops) 1 = [1%N; 2%N; 3%N; 9%N; 9%N; 9%N].
Proof. vm_compute. repeat split; try discriminate; repeat constructor. Qed.

Theorem C13_vector_eq_is_list_equality : forall veq a b,
  (list_eqb veq a b = true <-> length a = length b /\ forall i, i < length a -> veq (nth i a 0%N) (nth i b 0%N) = true) /\
  ((forall x y, veq x y = true <-> x = y) -> (list_eqb veq a b = true <-> a = b)).
Proof. exact vector_eq_is_list_equality. Qed.
Print Assumptions C13_vector_eq_is_list_equality.
(* element equality of double on value codes (0 = +0.0, 1 = -0.0, 2 = NaN, as in comp/seq/harness.cpp): a vector
   holding a NaN is not equal to its copy, [+0.0] equals [-0.0] *)
Definition ex_dbl_eq (a b : N) : bool :=
  negb (N.eqb a 2) && negb (N.eqb b 2) && (N.eqb a b || (N.leb a 1 && N.leb b 1)).
Example C13_vector_eq_is_list_equality_ex :
  snd (ref_run ex_dbl_eq rs0 [VPush 0 0%N; VPush 1 1%N; VEq 0 1; VPush 0 2%N; VAssign 1 0; VEq 0 1; VEq 0 0]) =
    [OUnit; OUnit; OBool true; OUnit; OUnit; OBool false; OBool false] /\
  list_eqb N.eqb [0%N] [1%N] = false.
Proof. vm_compute. split; reflexivity. Qed.

(* outside the preconditions the model reports UB (so nothing above holds by totalisation) *)
Theorem C13_vector_pre_exact : forall esz veq st rs o, vrel st rs -> ~ ref_pre rs o -> vstep esz veq st o = UB.
Proof. exact vstep_pre_exact. Qed.
Print Assumptions C13_vector_pre_exact.
Example C13_vector_pre_exact_ex : vstep 8%N N.eqb vst0 (VPop 0) = UB /\ vstep 8%N N.eqb vst0 (VIndex 1 0) = UB.
Proof. split; reflexivity. Qed.

(* ------------------------------------------------------------------------------------ small_vector N
   [sref_step] = None where FRG_ASSERT stops the operation (pop_back/front/back of an empty vector); the only
   unchecked precondition is operator[] within size.  The statement covers both sides of the inline/heap
   boundary: [is_small] <-> capacity <= N, the container in use has exactly [capacity] slots. *)
Theorem C13_small_vector_refines_list : forall esz NI ops, sref_ok rs0 ops ->
  match sref_run rs0 ops with
  | Some (rs, outs) =>
    exists st evs,
      srun esz NI (sst0 NI) ops = Ok (st, outs, evs) /\
      forall r, let l := rs r in
        sv_size (sregs st r) = length l /\
        (sv_is_empty (sregs st r) = true <-> l = []) /\
        sv_iterate NI (sregs st r) = map Some l /\
        (forall i, i < length l -> sv_index NI (sregs st r) i = Ok (nth i l 0%N)) /\
        (l <> [] -> sv_front NI (sregs st r) = Ok (hd 0%N l) /\ sv_back NI (sregs st r) = Ok (last l 0%N)) /\
        length (cont NI (sregs st r)) = s_cap (sregs st r) /\
        (is_small NI (sregs st r) = true <-> s_cap (sregs st r) <= NI)
  | None => srun esz NI (sst0 NI) ops = AssertStop
  end.
Proof. exact small_vector_refines_list. Qed.
Print Assumptions C13_small_vector_refines_list.

Definition ex_sops : list sop :=
  [SPush 0 1%N; SPushMove 0 2%N; SPush 1 7%N; SSwap 0 1; SEmplace 0 8%N; SEmplace 0 9%N; SEmplace 0 10%N; SEmplace 0 11%N;
   SSwap 0 1; SMoveCtor 2 1; SCopyCtor 1 2; SResize 1 2 0%N; SPop 1; SBack 2; SIndex 0 1; SFront 1; SResize 0 9 5%N].
Example C13_small_vector_refines_list_ex :
  sref_ok rs0 ex_sops /\
  exists rs, sref_run rs0 ex_sops =
    Some (rs, [OUnit; OUnit; OUnit; OUnit; OUnit; OUnit; OUnit; OUnit; OUnit; OUnit; OUnit; OUnit; OUnit; OVal 11%N;
               OVal 2%N; OVal 7%N; OUnit]) /\
    rs 2 = [7%N; 8%N; 9%N; 10%N; 11%N] /\ rs 0 = [1%N; 2%N; 5%N; 5%N; 5%N; 5%N; 5%N; 5%N; 5%N].
Proof. split; [vm_compute; repeat split; repeat constructor|]. eexists. vm_compute. repeat split. Qed.
Example C13_small_vector_assert_ex : sref_run rs0 [SPush 0 1%N; SPop 0; SPop 0] = None.
Proof. reflexivity. Qed.

(* ------------------------------------------------------------------------------ dyn_array, stack, list *)
Theorem C13_dyn_array_refines_list : forall esz ops, dref_ok rs0 ops ->
  exists st evs,
    drun esz dst0 ops = Ok (st, snd (dref_run rs0 ops), evs) /\
    forall r, let l := fst (dref_run rs0 ops) r in
      da_size (dregs st r) = length l /\
      (da_empty (dregs st r) = true <-> l = []) /\
      (da_empty (dregs st r) = true <-> da_size (dregs st r) = 0) /\
      da_iterate (dregs st r) = map Some l /\
      (forall i, i < length l -> da_index (dregs st r) i = Ok (nth i l 0%N)).
Proof. exact dyn_array_refines_list. Qed.
Print Assumptions C13_dyn_array_refines_list.
Example C13_dyn_array_refines_list_ex :
  let ops := [DMake 0 3; DSet 0 1 5%N; DAssign 1 0; DSet 1 2 6%N; DSwap 0 1; DMoveAssign 2 0; DEmpty 0; DEmpty 2; DIndex 2 2;
              DCopyCtor 0 1; DMoveCtor 1 2; DDefault 2; DIndex 1 1] in
  dref_ok rs0 ops /\
  snd (dref_run rs0 ops) = [OUnit; OUnit; OUnit; OUnit; OUnit; OUnit; OBool true; OBool false; OVal 6%N; OUnit; OUnit; OUnit; OVal 5%N]
  /\ fst (dref_run rs0 ops) 0 = [0%N; 5%N; 0%N].
Proof. vm_compute. repeat split; repeat constructor. Qed.

Theorem C13_dyn_array_empty : forall d, da_empty d = true <-> da_size d = 0.
Proof. exact dyn_array_empty. Qed.
Print Assumptions C13_dyn_array_empty.
Example C13_dyn_array_empty_ex : da_empty (mk_da 1 [Some 4%N] 1) = false /\ da_empty da_default = true.
Proof. split; reflexivity. Qed.

Theorem C13_stack_refines_list : forall esz ops, kref_ok [] ops ->
  exists st evs,
    krun esz (stk_empty, 1) ops = Ok (st, snd (kref_run [] ops), evs) /\
    let l := fst (kref_run [] ops) in
      stk_size (fst st) = length l /\ (stk_is_empty (fst st) = true <-> l = []) /\
      (l <> [] -> stk_top (fst st) = Ok (last l 0%N)).
Proof. exact stack_refines_list. Qed.
Print Assumptions C13_stack_refines_list.
Example C13_stack_refines_list_ex :
  let ops := [KPush 1%N; KEmplace 2%N; KTop; KPop; KTop; KPush 3%N; KPop; KPop] in
  kref_ok [] ops /\ kref_run [] ops = ([], [OUnit; OUnit; OVal 2%N; OUnit; OVal 1%N; OUnit; OUnit; OUnit]).
Proof. vm_compute. repeat split; discriminate. Qed.

Theorem C13_list_refines_list : forall isz ops, lref_ok [] ops ->
  exists st evs,
    lrun isz (fl_empty, 1) ops = Ok (st, snd (lref_run [] ops), evs) /\
    let l := fst (lref_run [] ops) in
      fabs (fst st) = l /\ (fl_is_empty (fst st) = true <-> l = []) /\
      (l <> [] -> fl_front (fst st) = Ok (hd 0%N l)).
Proof. exact list_refines_list. Qed.
Print Assumptions C13_list_refines_list.
Example C13_list_refines_list_ex :
  let ops := [LEmpty; LEmplaceBack 1%N; LEmplaceBack 2%N; LFront; LPopFront; LFront; LEmpty] in
  lref_ok [] ops /\ lref_run [] ops = ([2%N], [OBool true; OUnit; OUnit; OVal 1%N; OUnit; OVal 2%N; OBool false]).
Proof. vm_compute. repeat split; discriminate. Qed.

(* -------------------------------------------------------------------------------- intrusive_list
   Pointer-level model; the abstract state maps each list object to the list of object ids it links.
   [iref_step] = the same operation on lists; it says RAssert exactly where FRG_ASSERT stops the operation
   (null element, element already linked, iterator_to of an unlinked element) and RPre where a precondition
   that the library cannot check is violated (element of another list, pop of an empty list, self-splice,
   more than [fuel] elements for clear -- so OutOfFuel is excluded). *)
Theorem C13_intrusive_list_refines_list : forall fuel ops,
  match iref_run fuel as0 ops with
  | (outs, RDone als) => exists st, irun fuel ist0 ops = Ok (st, outs) /\ iinv st als
  | (_, RStopAssert) => irun fuel ist0 ops = AssertStop
  | (_, RStopPre) => True
  end.
Proof. exact intrusive_list_refines_list. Qed.
Print Assumptions C13_intrusive_list_refines_list.

(* prev-walk = reverse of next-walk, adjacent links inverse, in_list <-> member, non-members null *)
Theorem C13_intrusive_links : forall fuel ops outs als,
  iref_run fuel as0 ops = (outs, RDone als) ->
  exists st, irun fuel ist0 ops = Ok (st, outs) /\
    (forall k, length (als k) <= fuel ->
       walk fuel (hooks st) (l_front (lists st k)) = Ok (als k) /\
       walk_back fuel (hooks st) (l_back (lists st k)) = Ok (rev (als k)) /\
       (forall l1 a b l2, als k = l1 ++ a :: b :: l2 -> h_next (hooks st a) = b /\ h_prev (hooks st b) = a) /\
       (als k <> [] -> h_prev (hooks st (l_front (lists st k))) = 0 /\ h_next (hooks st (l_back (lists st k))) = 0) /\
       (il_empty (lists st k) = true <-> als k = [])) /\
    (forall x, x <> 0 ->
       (h_in (hooks st x) = true <-> exists k, In x (als k)) /\
       ((forall k, ~ In x (als k)) -> hooks st x = hook0)).
Proof. exact intrusive_links. Qed.
Print Assumptions C13_intrusive_links.

Definition ex_iops : list iop :=
  [IInsert 0 0 1; IInsert 0 1 2; IInsert 0 0 3; IInsert 0 1 4; IInsert 0 3 5; IErase 0 4; IErase 0 2; IErase 0 3;
   IPushFront 1 2; ISplice 1 0; ISplice 1 0; ISplice 0 1; IPopBack 0; IPopFront 0; IPushBack 1 6; IClear 0; ISplice 0 1].
Example C13_intrusive_list_refines_list_ex :
  exists als, iref_run 8 as0 ex_iops =
    ([OUnit; OUnit; OUnit; OUnit; OUnit; OVal 4%N; OVal 2%N; OVal 3%N; OUnit; OUnit; OUnit; OUnit; OVal 5%N; OVal 2%N;
      OUnit; OUnit; OUnit], RDone als) /\ als 0 = [6] /\ als 1 = [].
Proof. eexists. vm_compute. repeat split. Qed.
Example C13_intrusive_list_assert_ex :
  snd (iref_run 8 as0 [IPushBack 0 1; IPushBack 1 1]) = RStopAssert /\
  snd (iref_run 8 as0 [IPushBack 0 1; IErase 0 2]) = RStopAssert /\
  snd (iref_run 8 as0 [IPushBack 0 1; IErase 1 1]) = RStopPre.
Proof. vm_compute. repeat split. Qed.
Example C13_intrusive_links_ex :
  exists als, iref_run 8 as0 [IPushBack 0 1; IPushBack 0 2; IInsert 0 2 3] = ([OUnit; OUnit; OUnit], RDone als) /\
              als 0 = [1; 3; 2].
Proof. eexists. vm_compute. repeat split. Qed.

(* ------------------------------------------------------------------------------ owned storage only *)
Theorem C13_owned_storage_only :
  (forall b i v, rd b i = Ok v -> i < length b /\ nth_error b i = Some (Some v)) /\
  (forall b i v b', construct b i v = Ok b' -> i < length b /\ nth_error b i = Some None) /\
  (forall b i b', destroy b i = Ok b' -> i < length b /\ exists v, nth_error b i = Some (Some v)) /\
  (forall esz veq ops, ref_ok veq rs0 ops ->
     exists st outs evs, vrun esz veq vst0 ops = Ok (st, outs, evs) /\
       forall r, length (v_cells (regs st r)) = v_cap (regs st r) /\ v_size (regs st r) <= v_cap (regs st r)) /\
  (forall esz NI ops, sref_ok rs0 ops ->
     srun esz NI (sst0 NI) ops = AssertStop \/
     exists st outs evs, srun esz NI (sst0 NI) ops = Ok (st, outs, evs) /\
       forall r, length (cont NI (sregs st r)) = s_cap (sregs st r) /\ s_size (sregs st r) <= s_cap (sregs st r) /\
                 length (s_inl (sregs st r)) = NI).
Proof. exact owned_storage_only. Qed.
Print Assumptions C13_owned_storage_only.
(* the D08 replay (push x3; resize(7)) runs without UB and with the events of 3, not 6, relocations; register 0 is on
   allocator instance 0, so its blocks are named 4, 8, 12 (= enc 0 1, enc 0 2, enc 0 3) *)
Example C13_owned_storage_only_ex :
  exists st, vrun 24%N N.eqb vst0 [VPush 0 1%N; VPush 0 2%N; VPush 0 3%N; VResize 0 7 0%N] =
    Ok (st, [OUnit; OUnit; OUnit; OUnit],
        [EAlloc 4 48; EConstruct (4, 0); EConstruct (4, 1);
         EAlloc 8 144; EUse (4, 0); EConstruct (8, 0); EUse (4, 1); EConstruct (8, 1); EDestroy (4, 0); EDestroy (4, 1); EFree 4;
         EConstruct (8, 2);
         EAlloc 12 336; EUse (8, 0); EConstruct (12, 0); EUse (8, 1); EConstruct (12, 1); EUse (8, 2); EConstruct (12, 2);
         EDestroy (8, 0); EDestroy (8, 1); EDestroy (8, 2); EFree 8;
         EConstruct (12, 3); EConstruct (12, 4); EConstruct (12, 5); EConstruct (12, 6)]).
Proof. eexists. vm_compute. reflexivity. Qed.
