(* placeholder until RadixProofs.v is written *)
From FV Require Import Radix.RadixModel.
