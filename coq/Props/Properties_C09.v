(* C09: rcu_radixtree is an exact map over all 64-bit keys, with stable addresses and ordered iteration.
   Model: Radix/RadixModel.v (the code as it is in /repo after the D03 fix); definitions used in the statements:
   K64 = 2^64 (RadixBits), Good s M = heap invariant + mask/slot consistency + (forall k < 2^64, find s k = Ok (M k)),
   gset/ghost_step/pre_ok/res_ok/safe_outcome (RadixHist), Full s M = Good s M + parent pointers mirror the links (RadixShape),
   valid_all/res_full/iter_ok (RadixFull).  A history is a list of OFind / OFoi / OInsert / OErase / OIter. *)
From Coq Require Import List NArith Bool.
From Coq Require Import Sorting.Sorted.
From FV Require Import Common.EventLog Radix.RadixModel Radix.RadixBits Radix.RadixInv Radix.RadixSpec Radix.RadixHist
  Radix.RadixShape Radix.RadixFull.
Import ListNotations.
Local Open Scope N_scope.

(* --- bit-level facts, isolated as div/mod statements (hi k d = k / 16^(16-d)) *)
Theorem C09_pfx_of_is_div : forall k d, k < K64 -> d <= 16 -> pfx_of k d = Ok (k / 16 ^ (16 - d) * 16 ^ (16 - d)).
Proof. exact pfx_of_ok. Qed.
Print Assumptions C09_pfx_of_is_div.

Theorem C09_idx_of_is_mod : forall k d, d <= 15 -> idx_of k d = Ok (k / 16 ^ (16 - (d + 1)) mod 16).
Proof. exact idx_of_ok. Qed.
Print Assumptions C09_idx_of_is_mod.

(* --- no undefined behaviour: on every history (keys < 2^64) of find / find_or_insert / insert / erase / iterate,
   whatever the arguments, the run ends Ok or in one of the documented precondition assertions (insert of a present
   key, erase of an absent key).  In particular: no pfx_of/idx_of call shifts by >= 64 (UB UShift), no loop runs out of
   its fuel (17 for the depth loops), the case-2 loop stops with d < s->depth and the three assertions after it never
   fire, no static_cast is wrong, first_leaf/next_leaf never hit their assertions. *)
Theorem C09_no_ub : forall esz lsz ops,
  Forall op_keys_ok ops -> safe_outcome (run_ops esz lsz st0 ops).
Proof. intros esz lsz ops. exact (history_safe_all esz lsz ops st0 gempty Full_st0). Qed.
Print Assumptions C09_no_ub.

(* --- the tree refines the ghost map: after every history that respects the documented preconditions, for every
   k < 2^64, find k = M k *)
Theorem C09_refines_map : forall esz lsz ops,
  valid_all esz lsz st0 gempty ops ->
  exists s M, run_ghost esz lsz st0 gempty ops = Ok (s, M) /\ Full s M /\
              forall k, k < K64 -> find s k = Ok (M k).
Proof.
  intros esz lsz ops V. destruct (history_refines_all esz lsz ops st0 gempty Full_st0 V) as (s & M & R & G).
  exists s, M. split; [exact R|]. split; [exact G|]. exact (g_find _ _ (proj1 G)).
Qed.
Print Assumptions C09_refines_map.

(* --- one step from any reachable state: results are those of the map; find_or_insert returns the present address
   with false, or a fresh address (not the address of any present key) with true; never a second address;
   iteration is described by iter_ok *)
Theorem C09_step_semantics : forall esz lsz s M o,
  Full s M -> op_keys_ok o ->
  (exists s' r, step_op esz lsz s o = Ok (s', r) /\ Full s' (ghost_step M o r) /\ res_full M o r) \/
  (~ pre_ok M o /\ exists w, step_op esz lsz s o = AssertStop w /\ pre_assert w).
Proof. exact step_full. Qed.
Print Assumptions C09_step_semantics.

Theorem C09_find_or_insert : forall esz lsz s M k v, Good s M -> k < K64 ->
  exists s' a b, find_or_insert esz lsz s k v = Ok (s', (a, b)) /\
    (forall a0, M k = Some a0 -> a = a0 /\ b = false /\ s' = s) /\
    (M k = None -> b = true /\ forall k', k' < K64 -> M k' <> Some a) /\
    Good s' (if b then gset M k (Some a) else M).
Proof. exact foi_good. Qed.
Print Assumptions C09_find_or_insert.

(* two present keys never share an address *)
Theorem C09_addresses_injective : forall s k k' a, Inv_s s -> k < K64 -> k' < K64 ->
  find s k = Ok (Some a) -> find s k' = Ok (Some a) -> k = k'.
Proof. exact find_inj. Qed.
Print Assumptions C09_addresses_injective.

(* --- address stability: whatever else is inserted, erased, looked up or iterated, a present key keeps its address *)
Theorem C09_address_stable : forall esz lsz s M o s' r k a,
  Full s M -> op_keys_ok o -> k < K64 -> M k = Some a ->
  step_op esz lsz s o = Ok (s', r) -> o <> OErase k -> find s' k = Ok (Some a).
Proof. exact step_address_stable_all. Qed.
Print Assumptions C09_address_stable.

(* --- iteration (begin / operator++ through the parent pointers): the iterator sequence l is the list of addresses
   of exactly the present keys, once each, in ascending key order:
   there is a strictly ascending list ks of keys, containing exactly the present keys, with map M ks = map Some l *)
Theorem C09_iteration_sorted : forall s M, Full s M ->
  exists l, iterate s = Ok l /\
    exists ks, StronglySorted N.lt ks /\ (forall k, In k ks <-> k < K64 /\ M k <> None) /\ map M ks = map Some l.
Proof. exact iterate_full. Qed.
Print Assumptions C09_iteration_sorted.

(* --- erase of an ABSENT key (violated precondition), on any reachable tree, any k < 2^64: the call stops in one of erase's
   three assertions (null link / prefix of the visited node -- inner node OR LEAF -- differs / presence bit clear), and it stops
   before any store is issued (the program's micro-step list is empty), i.e. the state is unchanged: no other key's bit is touched *)
Theorem C09_erase_absent_stops : forall esz lsz s M k, Full s M -> k < K64 -> M k = None ->
  exists w, erase s k = AssertStop w /\ (w = AEraseNull \/ w = AErasePrefix \/ w = AEraseMask) /\
            fst (erase_prog s k) = [] /\ step_op esz lsz s (OErase k) = AssertStop w.
Proof. exact erase_absent_stops. Qed.
Print Assumptions C09_erase_absent_stops.

(* --- non-vacuity *)
Definition ex_ops : list op :=
  [OInsert 5 1; OInsert 1152921504606846981 2 (* 0x1000000000000005 *); OFoi 18446744073709551615 3; OFind 5; OIter;
   OErase 5; OIter; OFoi 5 4; OFoi 5 6; OInsert 21 7; OIter].

Example C09_ex_run :
  match run_ghost 1 2 st0 gempty ex_ops with
  | Ok (s, M) => (find s 5, M 5, find s 1152921504606846981, find s 18446744073709551615, find s 6, length (nodes s))
                 = (Ok (Some (0%nat, 5)), Some (0%nat, 5), Ok (Some (1%nat, 5)), Ok (Some (3%nat, 15)), Ok None, 6%nat)
  | _ => False
  end.
Proof. vm_compute. reflexivity. Qed.

Ltac valid_step :=
  cbn [valid_all]; split; [vm_compute; try reflexivity; exact I|]; split; [vm_compute; try reflexivity; try discriminate; try exact I|];
  intros ? ? E; vm_compute in E; injection E as <- <-.

Example C09_ex_valid : valid_all 1 2 st0 gempty ex_ops.
Proof. unfold ex_ops. repeat valid_step. exact I. Qed.

Example C09_ex_no_ub_hyps : Forall op_keys_ok ex_ops.
Proof. repeat constructor. Qed.

(* the iterator sequence of the example: 5 (node 0 slot 5), 21 (node 4 slot 5), 0x1000000000000005 (node 1 slot 5), 2^64-1 *)
Example C09_ex_iterate :
  match run_ops 1 2 st0 ex_ops with
  | Ok s => iterate s = Ok [(0%nat, 5); (4%nat, 5); (1%nat, 5); (3%nat, 15)]
  | _ => False
  end.
Proof. vm_compute. reflexivity. Qed.

(* D03 regression: the two keys differ in the top nibble; the older one is still found (the unfixed code lost it) *)
Example C09_ex_d03 :
  match run_ops 1 2 st0 [OInsert 5 1; OInsert 1152921504606846981 2] with
  | Ok s => (find s 5, root s, nth_error (nodes s) 2) =
            (Ok (Some (0%nat, 5)), Some 2%nat,
             Some (Link 0 0 None [Some 0%nat; Some 1%nat; None; None; None; None; None; None; None; None; None; None; None; None; None; None]))
  | _ => False
  end.
Proof. vm_compute. reflexivity. Qed.

(* erase of an absent key that reaches a LEAF with another prefix and shares the low nibble with the present key there
   (0x15 vs 0x5: the root is the leaf of 0x5; and through a compressed path): stops in the prefix assertion, no store *)
Example C09_ex_erase_absent_leaf_prefix :
  run_ops 1 2 st0 [OInsert 5 1; OErase 21] = AssertStop AErasePrefix /\
  (match run_ops 1 2 st0 [OInsert 5 1] with Ok s => fst (erase_prog s 21) = [] /\ find s 5 = Ok (Some (0%nat, 5)) | _ => False end) /\
  run_ops 1 2 st0 [OInsert 1152921504606846981 1; OInsert 2305843009213693957 2; OErase 1152921504606847237]
    = AssertStop AErasePrefix.
Proof. vm_compute. repeat split. Qed.

(* insert of a present key / erase of an absent key stop in the documented assertions *)
Example C09_ex_asserts :
  run_ops 1 2 st0 [OInsert 5 1; OInsert 5 2] = AssertStop AInsertPresent /\
  run_ops 1 2 st0 [OInsert 5 1; OErase 6] = AssertStop AEraseMask /\
  run_ops 1 2 st0 [OErase 6] = AssertStop AEraseNull /\
  run_ops 1 2 st0 [OInsert 5 1; OErase 21] = AssertStop AErasePrefix.
Proof. vm_compute. repeat split. Qed.
