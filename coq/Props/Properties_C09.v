(* C09: rcu_radixtree is an exact map over all 64-bit keys, with stable addresses and ordered iteration.
   Model: Radix/RadixModel.v (the code as it is in /repo after the D03 fix); definitions used in the statements:
   K64 = 2^64 (RadixBits), Good s M = heap invariant + mask/slot consistency + (forall k < 2^64, find s k = Ok (M k)),
   gset/ghost_step/pre_ok/res_ok/valid/safe_outcome (RadixHist). *)
From Coq Require Import List NArith Bool.
From FV Require Import Common.EventLog Radix.RadixModel Radix.RadixBits Radix.RadixInv Radix.RadixSpec Radix.RadixHist.
Import ListNotations.
Local Open Scope N_scope.

(* --- bit-level facts, isolated as div/mod statements (hi k d = k / 16^(16-d)) *)
Theorem C09_pfx_of_is_div : forall k d, k < K64 -> d <= 16 -> pfx_of k d = Ok (k / 16 ^ (16 - d) * 16 ^ (16 - d)).
Proof. exact pfx_of_ok. Qed.
Print Assumptions C09_pfx_of_is_div.

Theorem C09_idx_of_is_mod : forall k d, d <= 15 -> idx_of k d = Ok (k / 16 ^ (16 - (d + 1)) mod 16).
Proof. exact idx_of_ok. Qed.
Print Assumptions C09_idx_of_is_mod.

(* --- no undefined behaviour: on every history (keys < 2^64) of find / find_or_insert / insert / erase, whatever the
   arguments, the run ends Ok or in one of the documented precondition assertions (insert of a present key, erase of an
   absent key).  In particular: no pfx_of/idx_of call shifts by >= 64 (UB UShift), the case-2 loop never runs out of
   fuel and the three assertions after it (d > p->depth, d < s->depth, the indices differ) never fire. *)
Theorem C09_no_ub : forall esz lsz ops,
  Forall op_keys_ok ops -> Forall (fun o => is_iter o = false) ops ->
  safe_outcome (run_ops esz lsz st0 ops).
Proof. intros esz lsz ops. exact (history_safe esz lsz ops st0 gempty Good_st0). Qed.
Print Assumptions C09_no_ub.

(* --- the tree refines the ghost map: after every history that respects the documented preconditions, for every
   k < 2^64, find k = M k *)
Theorem C09_refines_map : forall esz lsz ops,
  valid esz lsz st0 gempty ops ->
  exists s M, run_ghost esz lsz st0 gempty ops = Ok (s, M) /\ Good s M /\
              forall k, k < K64 -> find s k = Ok (M k).
Proof.
  intros esz lsz ops V. destruct (history_refines esz lsz ops st0 gempty Good_st0 V) as (s & M & R & G).
  exists s, M. split; [exact R|]. split; [exact G|]. exact (g_find _ _ G).
Qed.
Print Assumptions C09_refines_map.

(* --- one step from any good state: results are those of the map; find_or_insert returns the present address with
   false, or a fresh address (not the address of any present key) with true; never a second address *)
Theorem C09_step_semantics : forall esz lsz s M o,
  Good s M -> op_keys_ok o -> is_iter o = false ->
  (exists s' r, step_op esz lsz s o = Ok (s', r) /\ Good s' (ghost_step M o r) /\ res_ok M o r) \/
  (~ pre_ok M o /\ exists w, step_op esz lsz s o = AssertStop w /\ pre_assert w).
Proof. exact step_safe. Qed.
Print Assumptions C09_step_semantics.

Theorem C09_find_or_insert : forall esz lsz s M k v, Good s M -> k < K64 ->
  exists s' a b, find_or_insert esz lsz s k v = Ok (s', (a, b)) /\
    (forall a0, M k = Some a0 -> a = a0 /\ b = false /\ s' = s) /\
    (M k = None -> b = true /\ forall k', k' < K64 -> M k' <> Some a) /\
    Good s' (if b then gset M k (Some a) else M).
Proof. exact foi_good. Qed.
Print Assumptions C09_find_or_insert.

(* two present keys never share an address *)
Theorem C09_addresses_injective : forall s k k' a, Inv_s s -> k < K64 -> k' < K64 ->
  find s k = Ok (Some a) -> find s k' = Ok (Some a) -> k = k'.
Proof. exact find_inj. Qed.
Print Assumptions C09_addresses_injective.

(* --- address stability: whatever else is inserted or erased (or looked up), a present key keeps its address *)
Theorem C09_address_stable : forall esz lsz s M o s' r k a,
  Good s M -> op_keys_ok o -> is_iter o = false -> k < K64 -> M k = Some a ->
  step_op esz lsz s o = Ok (s', r) -> o <> OErase k -> find s' k = Ok (Some a).
Proof. exact step_address_stable. Qed.
Print Assumptions C09_address_stable.

(* --- non-vacuity *)
Definition ex_ops : list op :=
  [OInsert 5 1; OInsert 1152921504606846981 2 (* 0x1000000000000005 *); OFoi 18446744073709551615 3; OFind 5;
   OErase 5; OFoi 5 4; OFoi 5 6; OInsert 21 7].

Example C09_ex_run :
  match run_ghost 1 2 st0 gempty ex_ops with
  | Ok (s, M) => (find s 5, M 5, find s 1152921504606846981, find s 18446744073709551615, find s 6, length (nodes s))
                 = (Ok (Some (0%nat, 5)), Some (0%nat, 5), Ok (Some (1%nat, 5)), Ok (Some (3%nat, 15)), Ok None, 6%nat)
  | _ => False
  end.
Proof. vm_compute. reflexivity. Qed.

Ltac valid_step :=
  cbn [valid]; split; [vm_compute; reflexivity|]; split; [reflexivity|]; split; [vm_compute; try reflexivity; try discriminate|];
  intros ? ? E; vm_compute in E; injection E as <- <-.

Example C09_ex_valid : valid 1 2 st0 gempty ex_ops.
Proof. unfold ex_ops. repeat valid_step. exact I. Qed.

Example C09_ex_no_ub_hyps : Forall op_keys_ok ex_ops /\ Forall (fun o => is_iter o = false) ex_ops.
Proof. split; repeat constructor. Qed.

(* D03 regression: the two keys differ in the top nibble; the older one is still found (the unfixed code lost it) *)
Example C09_ex_d03 :
  match run_ops 1 2 st0 [OInsert 5 1; OInsert 1152921504606846981 2] with
  | Ok s => (find s 5, root s, nth_error (nodes s) 2) =
            (Ok (Some (0%nat, 5)), Some 2%nat,
             Some (Link 0 0 None [Some 0%nat; Some 1%nat; None; None; None; None; None; None; None; None; None; None; None; None; None; None]))
  | _ => False
  end.
Proof. vm_compute. reflexivity. Qed.

(* insert of a present key / erase of an absent key stop in the documented assertions *)
Example C09_ex_asserts :
  run_ops 1 2 st0 [OInsert 5 1; OInsert 5 2] = AssertStop AInsertPresent /\
  run_ops 1 2 st0 [OInsert 5 1; OErase 6] = AssertStop AEraseMask /\
  run_ops 1 2 st0 [OErase 6] = AssertStop AEraseNull /\
  run_ops 1 2 st0 [OInsert 5 1; OErase 21] = AssertStop AErasePrefix.
Proof. vm_compute. repeat split. Qed.
