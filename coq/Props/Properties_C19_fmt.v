(* C19, fmt() and stack_buffer_logger part.  Statements only; proofs in coq/Fmt/FmtProofs.v, LoggerProofs.v.
   [run_fmt] is the transliteration of the brace state machine and parse_fmt_spec (FmtModel.v, tied to
   /repo by comp/fmt); [fmt_ref] is the independent list-level reference written from the documented
   grammar (FmtRef.v): text outside braces is copied ("}" too), "{{" gives "{", a specifier of the
   grammar ([0-9]+)?(:0?[0-9]*[bcdioXx]?)? renders the selected argument through the padding algebra
   [print_digits_result] of PrintIntProofs.v, every other brace group (not of the grammar, width not
   an int, position not the position of an argument) and an unclosed brace are copied verbatim; the
   output is the in-order concatenation of these pieces. *)
From Coq Require Import String.
From Coq Require Import NArith ZArith List Bool.
From FV Require Import Printf.PrintIntModel Printf.PrintIntProofs Fmt.FmtModel Fmt.FmtRef Fmt.FmtProofs
  Fmt.LoggerModel Fmt.LoggerProofs.
Import ListNotations.
Local Open Scope N_scope.

Theorem C19_fmt : forall (buf : list byte) (args : list arg),
  args_ok args -> run_fmt buf args = fmt_ref buf args.
Proof. intros buf args H. apply run_fmt_ref. exact H. Qed.
Print Assumptions C19_fmt.

(* reading aids for [fmt_ref]: brace-free text is copied ... *)
Theorem C19_fmt_text_copied : forall (s : list byte) (args : list arg),
  args_ok args -> ~ In 123 s -> run_fmt s args = (s, Ok tt).
Proof.
  intros s args H Hn. rewrite run_fmt_ref by exact H. apply fmt_ref_text; [apply le_n | exact Hn].
Qed.
Print Assumptions C19_fmt_text_copied.

(* ... and a specifier of the grammar renders the selected argument with the selected options:
   for an integer argument of value v that is [print_digits_result |v| (v<0) radix width 1 fill ...]
   (definition of [ref_arg] / [ref_number]) *)
Theorem C19_fmt_wellformed_spec : forall spec rs args a, args_ok args -> parse_ref spec = Some rs ->
  let pos := match rs_pos rs with Some p => p | None => 0 end in
  pos < N.of_nat (length args) -> nth_error args (N.to_nat pos) = Some a ->
  run_fmt (123 :: spec ++ [125]) args = piece (ref_arg a rs) (fun l => (l, Ok tt)).
Proof. exact fmt_wellformed_spec. Qed.
Print Assumptions C19_fmt_wellformed_spec.

Theorem C19_logger_chunks : forall (limit : nat) (appends : list (list byte)),
  (2 <= limit)%nat -> Forall nonul appends ->
  exists ev,
    run_logger limit (appends_ops appends) = (EvBegin :: ev ++ [EvFinalize true], Ok tt) /\
    concat (chunks_of ev) = concat appends /\
    Forall (fun c => (length c <= limit - 1)%nat) (chunks_of ev).
Proof. exact logger_chunks. Qed.
Print Assumptions C19_logger_chunks.

(* the chunks are maximal: every chunk but the last has exactly Limit-1 bytes (a message of exactly Limit-1
   bytes is not flushed before endlog; an empty message gives exactly one empty chunk) *)
Theorem C19_logger_chunks_maximal : forall (limit : nat) (appends : list (list byte)),
  (2 <= limit)%nat -> Forall nonul appends ->
  exists ev cs last,
    run_logger limit (appends_ops appends) = (EvBegin :: ev ++ [EvFinalize true], Ok tt) /\
    chunks_of ev = cs ++ [last] /\ full limit cs /\ (length last <= limit - 1)%nat /\
    concat (chunks_of ev) = concat appends.
Proof. exact logger_chunks_maximal. Qed.
Print Assumptions C19_logger_chunks_maximal.

(* non-vacuity: "a}}{{b{1:05x}|{}|{2:c}|{9}|{:q}|{0:3" with (int -5, unsigned long 255, char 'A')
   gives "a}}{b000ff|255|A|{9}|{:q}|{0:3" *)
Definition ex_fmt : list byte :=
  [97; 125; 125; 123; 123; 98; 123; 49; 58; 48; 53; 120; 125; 124; 123; 125; 124; 123; 50; 58; 99; 125; 124;
   123; 57; 125; 124; 123; 58; 113; 125; 124; 123; 48; 58; 51].
Definition ex_args : list arg := [ASInt 32 (-5); AUInt 64 255; AChar 65].

Example C19_fmt_example :
  args_ok ex_args /\
  run_fmt ex_fmt ex_args =
    ([97; 125; 125; 123; 98; 48; 48; 48; 102; 102; 124; 50; 53; 53; 124; 65; 124; 123; 57; 125; 124; 123; 58;
      113; 125; 124; 123; 48; 58; 51], Ok tt) /\
  fmt_ref ex_fmt ex_args = run_fmt ex_fmt ex_args.
Proof.
  split; [|split; vm_compute; reflexivity].
  split; [|vm_compute; reflexivity].
  repeat constructor; vm_compute; try reflexivity; intros H; discriminate H.
Qed.

(* "{:05x}" on int -255: sign, zero fill, digits *)
Example C19_fmt_wellformed_example :
  parse_ref [58; 48; 53; 120] = Some (mk_rs None true 5 RC_x) /\
  run_fmt [123; 58; 48; 53; 120; 125] [ASInt 32 (-255)] = ([45; 48; 48; 102; 102], Ok tt).
Proof. split; vm_compute; reflexivity. Qed.

(* Limit 3, "ab" then "cde": chunks "ab", "cd", "e" *)
Example C19_logger_example :
  Forall nonul [[97; 98]; [99; 100; 101]] /\
  run_logger 3 (appends_ops [[97; 98]; [99; 100; 101]]) =
    ([EvBegin; EvChunk [97; 98]; EvChunk [99; 100]; EvChunk [101]; EvFinalize true], Ok tt).
Proof.
  split; [|vm_compute; reflexivity].
  repeat constructor; intros H; discriminate H.
Qed.
