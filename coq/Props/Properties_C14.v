(* C14: frg::hash_map holds exactly the reference key->value association.
   Statements only; proofs are in HashMap/HashMapProofs.v.  Every theorem is for EVERY hash function
   (constant, colliding, anything) and every operation history in which insert() is only called with
   absent keys (the documented precondition of hash_map::insert; operator[] has no precondition).

   Vocabulary (HashMap/HashMapModel.v, HashMap/HashMapProofs.v):
     run hash empty_hm ops      the model run: final map and the list of outputs, one per op
     ref_run [] ops             the reference: an association list, newest first
                                (Insert/IndexSet-miss cons, IndexSet-hit overwrites, Remove filters)
     out_ok out rout            OUnit~RUnit, OVal v ~ RVal v (equal), OList l ~ RList r iff
                                Permutation l r and NoDup (map fst l)
     IndexSet k v               the statement  m[k] = v;  its output is the value found by operator[]
                                before the assignment, None when operator[] created the default entry *)
From Coq Require Import List NArith Permutation.
From FV Require Import HashMap.HashMapModel HashMap.HashMapProofs HashMap.HashMapExamples.
Import ListNotations.
Local Open Scope N_scope.

(* Invariant: every entry sits in chain [bucket_of hash (cap m) k] for the CURRENT capacity, keys are
   pairwise distinct, size = total chain length, table length = capacity, capacity > 0 or size = 0. *)
Theorem C14_invariant_init : forall hash, hm_inv hash empty_hm.
Proof. exact hm_inv_empty. Qed.
Print Assumptions C14_invariant_init.

Theorem C14_invariant_step : forall hash m o,
  hm_inv hash m ->
  (forall k v, o = Insert k v -> get hash k m = None) ->
  hm_inv hash (fst (step hash m o)).
Proof. exact hm_inv_step. Qed.
Print Assumptions C14_invariant_step.

Theorem C14_invariant : forall hash ops,
  inserts_absent ops -> hm_inv hash (fst (run hash empty_hm ops)).
Proof. exact hm_inv_run. Qed.
Print Assumptions C14_invariant.

(* Refinement: all outputs agree with the reference (get/find, operator[], remove, size, iteration),
   and at the end size = |R|, iteration is a permutation of R without repeated keys. *)
Theorem C14_refines_map : forall hash ops,
  inserts_absent ops ->
  let m := fst (run hash empty_hm ops) in
  let r := fst (ref_run [] ops) in
  Forall2 out_ok (snd (run hash empty_hm ops)) (snd (ref_run [] ops)) /\
  size m = length r /\
  Permutation (iterate m) r /\
  NoDup (map fst (iterate m)).
Proof. exact hm_refines_map. Qed.
Print Assumptions C14_refines_map.

(* remove(k) makes k absent in the map itself *)
Theorem C14_remove_makes_absent : forall hash ops k,
  inserts_absent (ops ++ [Remove k]) ->
  get hash k (fst (run hash empty_hm (ops ++ [Remove k]))) = None.
Proof. exact hm_remove_absent. Qed.
Print Assumptions C14_remove_makes_absent.

(* The reference is the intended one: remove deletes exactly k, a hit of operator[]= overwrites k. *)
Theorem C14_reference_remove : forall k k' r,
  assoc k (ref_del k r) = None /\ (k' <> k -> assoc k' (ref_del k r) = assoc k' r).
Proof. exact ref_remove_spec. Qed.
Print Assumptions C14_reference_remove.

Theorem C14_reference_index_hit : forall k v r old,
  assoc k r = Some old -> assoc k (ref_set k v r) = Some v /\ length (ref_set k v r) = length r.
Proof. exact ref_index_hit_spec. Qed.
Print Assumptions C14_reference_index_hit.

(* The executable check of the precondition used by the Examples is sound. *)
Theorem C14_inserts_absent_decidable : forall ops, ops_okb [] ops = true -> inserts_absent ops.
Proof. exact inserts_absentb_sound. Qed.
Print Assumptions C14_inserts_absent_decidable.

(* ---- non-vacuity: concrete histories that satisfy the hypotheses and cross rehash thresholds ---- *)

(* ex_ops, ex_id, ex_const: HashMap/HashMapExamples.v *)
Example C14_invariant_init_nonvacuous : cap empty_hm = 0%nat /\ size empty_hm = 0%nat.
Proof. vm_compute. split; reflexivity. Qed.

(* a state reached after a rehash, with a two-element chain, stepped with a removal from that chain *)
Example C14_invariant_step_nonvacuous :
  let m := fst (run ex_const empty_hm (map (fun i => Insert (N.of_nat i) 1) (seq 0 12))) in
  cap m = 20%nat /\ size m = 12%nat /\ get ex_const 12 m = None /\
  size (fst (step ex_const m (Remove 6))) = 11%nat /\ size (fst (step ex_const m (Insert 12 1))) = 13%nat.
Proof. vm_compute. repeat split. Qed.

Example C14_invariant_nonvacuous :
  ops_okb [] ex_ops = true /\
  cap (fst (run ex_id empty_hm ex_ops)) = 40%nat /\ cap (fst (run ex_const empty_hm ex_ops)) = 40%nat.
Proof. vm_compute. repeat split. Qed.

Example C14_refines_map_nonvacuous :
  ops_okb [] ex_ops = true /\
  length ex_ops = 38%nat /\
  cap (fst (run ex_id empty_hm ex_ops)) = 40%nat /\
  size (fst (run ex_id empty_hm ex_ops)) = 27%nat /\
  length (fst (ref_run [] ex_ops)) = 27%nat /\
  (* outputs 32..36, identity hash: remove 999 misses, 20 is gone, 19 -> 20, 5 -> 500, size 27 *)
  firstn 5 (skipn 32 (snd (run ex_id empty_hm ex_ops))) =
    [OVal None; OVal None; OVal (Some 20); OVal (Some 500); OVal (Some 27)] /\
  firstn 5 (skipn 32 (snd (run ex_const empty_hm ex_ops))) =
    [OVal None; OVal None; OVal (Some 20); OVal (Some 500); OVal (Some 27)] /\
  (* iteration orders differ between the two hash functions, the contents do not *)
  nth 37 (snd (run ex_id empty_hm ex_ops)) OUnit <> nth 37 (snd (run ex_const empty_hm ex_ops)) OUnit.
Proof. vm_compute. repeat split. discriminate. Qed.

Example C14_remove_makes_absent_nonvacuous :
  ops_okb [] (firstn 29 ex_ops ++ [Remove 13]) = true /\
  get ex_id 13 (fst (run ex_id empty_hm (firstn 29 ex_ops))) = Some 14 /\
  get ex_id 13 (fst (run ex_id empty_hm (firstn 29 ex_ops ++ [Remove 13]))) = None.
Proof. vm_compute. repeat split. Qed.

Example C14_reference_remove_nonvacuous :
  assoc 2 (ref_del 2 [(1, 10); (2, 20); (3, 30)]) = None /\ assoc 3 (ref_del 2 [(1, 10); (2, 20); (3, 30)]) = Some 30.
Proof. vm_compute. split; reflexivity. Qed.

Example C14_reference_index_hit_nonvacuous :
  assoc 2 [(1, 10); (2, 20)] = Some 20 /\ assoc 2 (ref_set 2 99 [(1, 10); (2, 20)]) = Some 99.
Proof. vm_compute. split; reflexivity. Qed.

Example C14_inserts_absent_decidable_nonvacuous :
  ops_okb [] ex_ops = true /\ ops_okb [] [Insert 1 1; Insert 1 2] = false /\ ops_okb [] [IndexSet 1 1; Insert 1 2] = false.
Proof. vm_compute. repeat split. Qed.
