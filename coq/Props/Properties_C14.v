(* placeholder until HashMapProofs.v is written *)
From FV Require Import HashMap.HashMapModel.
