(* C20, printf part.  (interim version: the former _refuted witnesses of D31 and D35 now end in
   the assertion hook / fetch exactly three arguments; the general theorem replaces this file) *)
From Coq Require Import String.
From Coq Require Import NArith ZArith List Bool.
From FV Require Import Printf.PrintIntModel Printf.PrintfModel.
Import ListNotations.

Theorem C20_printf_corpus :
  snd (run_printf [] [37; 57; 57; 57; 57; 57; 57; 57; 57; 57; 57; 57; 100]%N [1%N] [])
    = AssertStop msg_width_overflow
  /\ let r := run_printf [] [37; 51; 36; 100; 37; 49; 36; 100; 37; 50; 36; 100]%N [1; 2; 3]%N (repeat 0%N 9) in
     snd r = Ok tt /\ length (va_pops (ps_vs (fst r))) = 3%nat.
Proof. split; [reflexivity | split; reflexivity]. Qed.
Print Assumptions C20_printf_corpus.
