(* C20, printf part: printf_format is memory-safe and total on arbitrary input, and fetches exactly the
   variadic arguments its directives name.

   C20_printf_total_safe (the FULL statement of DESIGN section 4, C20): for EVERY byte list s (the buffer is
   s ++ [0], exactly; every byte is read through [read], which is UB "oob" beyond the NUL; int accumulation is
   UB "signed overflow" outside int), every initial content of the (>= 9 cell) positional cache, and every
   argument list [args] that supplies the arguments the format names -
       named_args s = Some ks          (coq/Printf/NamedArgs.v: an independent list-level reading of the directive
                                        syntax: "*", ".*", the converted value with its kind; for n$ the positions up
                                        to n not named before; None = a position named with two different kinds)
       args_ok mem 0 ks args           = at least length ks arguments, and every argument named as a %s string is a
                                        null pointer or points (in mem) to a buffer that - as ISO C asks - contains a
                                        NUL, or, when the directive has a precision p (a literal, or the int that ".*"
                                        fetched just before it), has at least p bytes (IsoPrintf.has_nul_within: a NUL
                                        among the first p bytes or p bytes present); positional %n$s: a NUL.
                                        The model's string buffers are exact-size (any read at or past the end is UB), so
                                        "never UB" includes: strnlen/the copy loop never touch index p of the argument.
   - run_printf (fuel = length s + 1) ends in Ok or in AssertStop, never in UB and never out of fuel; when it ends
   in Ok the va_arg log is exactly (the va_arg classes of) ks, when it stops in the assertion hook it is a
   prefix of it: no variadic argument beyond those the directives consume is ever fetched.
   The three faults of the argument list (too few arguments, invalid %s pointer, unterminated %s string) are
   hypotheses (args_ok), not exceptions in the conclusion.

   C20_printf_no_internal_ub (the former _partial) covers the remaining inputs - formats that name an argument
   position with two kinds (named_args = None, e.g. "%1$d%1$s": D33 territory) or argument lists that do not
   satisfy args_ok: still no out-of-bounds format read, no signed overflow, no cache overrun, termination; the
   only UB outcomes left are those three argument-list faults.
   C20_printf_fetches_named_directive: the complete final state for grammar directives without n$. *)
From Coq Require Import String.
From Coq Require Import NArith ZArith List Bool.
From FV Require Import Printf.PrintIntModel Printf.PrintfModel Printf.PrintfSafety Printf.IsoPrintf Printf.PrintfConform
  Printf.PrintfStageA Printf.PrintfConformProofs Printf.NamedArgs Printf.PrintfNamedProofs.
Import ListNotations.

Theorem C20_printf_total_safe :
  forall (mem : memory) (s : list byte) (args cache : list N) (ks : list argkind),
    (9 <= length cache)%nat ->
    named_args s = Some ks ->
    args_ok mem 0%N ks args ->
    let r := run_printf mem s args cache in
    match snd r with
    | Ok _ => va_pops (ps_vs (fst r)) = map kind_va ks
    | AssertStop _ => exists pre, is_prefix pre ks /\ va_pops (ps_vs (fst r)) = map kind_va pre
    | UB _ => False
    | OutOfFuel => False
    end.
Proof. exact printf_format_named. Qed.
Print Assumptions C20_printf_total_safe.

(* non-vacuity: what some formats name; a format with enough arguments of the right kinds; arrays WITHOUT a NUL of
   exactly `precision` bytes (literal and ".*" precision); a kind conflict *)
Example C20_printf_total_safe_examples :
  (* "a%%%-+ 0'12.34lld%2$*.*hhx" *)
  named_args [97; 37; 37; 37; 45; 43; 32; 48; 39; 49; 50; 46; 51; 52; 108; 108; 100; 37; 50; 36; 42; 46; 42; 104; 104; 120]%N
    = Some [KLLong; KInt; KInt]
  (* "%*.*s%p%5" : cut off inside the last directive *)
  /\ named_args [37; 42; 46; 42; 115; 37; 112; 37; 53]%N = Some [KInt; KInt; KStr SStar; KPtr]
  /\ args_ok [(4096, [104; 105; 0])]%N 0%N [KInt; KInt; KStr SStar; KPtr] [7; 1; 4096; 77; 99]%N
  /\ (let r := run_printf [(4096, [104; 105; 0])]%N [37; 42; 46; 42; 115; 37; 112; 37; 53]%N [7; 1; 4096; 77; 99]%N (repeat 0%N 9) in
      snd r = AssertStop "*s" /\ va_pops (ps_vs (fst r)) = [ATInt; ATInt; ATPtr; ATPtr] /\ va_rest (ps_vs (fst r)) = [99%N])
  (* "%.3s|%.*s" with two arrays of exactly 3 and 2 bytes and no NUL *)
  /\ named_args [37; 46; 51; 115; 124; 37; 46; 42; 115]%N = Some [KStr (SLit 3); KInt; KStr SStar]
  /\ args_ok [(4096, [97; 98; 99]); (8192, [120; 121])]%N 0%N [KStr (SLit 3); KInt; KStr SStar] [4096; 2; 8192]%N
  /\ (let r := run_printf [(4096, [97; 98; 99]); (8192, [120; 121])]%N [37; 46; 51; 115; 124; 37; 46; 42; 115]%N [4096; 2; 8192]%N (repeat 0%N 9) in
      snd r = Ok tt /\ ps_out (fst r) = [97; 98; 99; 124; 120; 121]%N)
  (* "%1$d%1$s" names argument 1 as an int and as a string *)
  /\ named_args [37; 49; 36; 100; 37; 49; 36; 115]%N = None.
Proof.
  repeat split; try reflexivity.
  - cbn. repeat constructor.
  - intros j Hj lim Hk. destruct j as [|[|[|[|j]]]]; cbn in Hk; try discriminate; try (destruct j; discriminate).
    inversion Hk; subst lim. right. exists [104; 105; 0]%N. split; reflexivity.
  - intros j Hj lim Hk. destruct j as [|[|[|j]]]; cbn in Hk; try discriminate; try (destruct j; discriminate);
      inversion Hk; subst lim; right; [exists [97; 98; 99]%N | exists [120; 121]%N]; split; reflexivity.
Qed.

Theorem C20_printf_no_internal_ub :
  forall (mem : memory) (s : list byte) (args cache : list N),
    (9 <= length cache)%nat ->
    match snd (run_printf mem s args cache) with
    | Ok _ => True
    | AssertStop _ => True
    | UB w => caller_fault w
    | OutOfFuel => False
    end.
Proof. exact printf_format_total_safe. Qed.
Print Assumptions C20_printf_no_internal_ub.

(* non-vacuity: a format that reaches every part of the parser ends Ok; a cut-off directive and an
   overlong width stop in the assertion hook (the former D31); a missing argument is a caller fault *)
Example C20_printf_no_internal_ub_examples :
  let run f args := snd (run_printf [] f args (repeat 0%N 9)) in
  (* "a%%%-+ #0'12.34lld%2$*.*hhx" *)
  run [97; 37; 37; 37; 45; 43; 32; 48; 39; 49; 50; 46; 51; 52; 108; 108; 100; 37; 50; 36; 42; 46; 42; 104; 104; 120]%N
      [5; 3; 4; 6]%N = Ok tt
  /\ run [37; 53; 46]%N [] = AssertStop "*s"
  /\ run [37; 57; 57; 57; 57; 57; 57; 57; 57; 57; 57; 57; 100]%N [1%N] = AssertStop msg_width_overflow
  /\ run [37; 100; 37; 100]%N [1%N] = UB "va_arg past the last argument".
Proof. repeat split; vm_compute; reflexivity. Qed.

(* the exact-fetch clause on well-formed input: a directive of the grammar (no n$) fetches exactly the arguments it names *)
Theorem C20_printf_fetches_named_directive :
  forall (d : directive) (v : argval),
    d_pos d = None -> in_grammar d = true -> fits d v = true ->
    run_printf (mem_of d v) (render d) (args_of d v) cache_init
    = (mk_ps (iso_printf d v) (mk_vs [] (star_pops d ++ value_argty d) cache_init 0), Ok tt).
Proof. exact printf_nopos_run. Qed.
Print Assumptions C20_printf_fetches_named_directive.

Example C20_printf_fetches_named_example :
  let d := mk_dir None [FMinus] WStar PStar Ll Cx in
  in_grammar d = true /\ fits d (mk_av 7 3 255 []) = true
  /\ star_pops d ++ value_argty d = [ATInt; ATInt; ATLong].
Proof. repeat split; reflexivity. Qed.
