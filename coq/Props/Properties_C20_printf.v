(* C20, printf part: printf_format is memory-safe and total on arbitrary input.

   FULL STATEMENT (DESIGN section 4, C20):
     for EVERY byte list s (the buffer is s ++ [0], exactly), every argument list and every initial
     content of the 9-cell positional cache: printf_format terminates within fuel (length s + 1),
     reads only indices <= length s, never overflows an int, ends in Ok or AssertStop - never UB -
     AND fetches exactly the arguments the directives name ("*", ".*", the converted value; for n$
     the positions up to n).

   PROVED below (C20_printf_total_safe_partial): everything except the last clause.  [run_printf]
   runs the parser with fuel S (length s); every byte is read through [read], which is
   UB "oob: format string read past its NUL" for an index > length s; the int accumulations are
   UB "signed overflow" when they leave int; the theorem excludes OutOfFuel and every UB that is not a
   fault of the argument list itself (too few arguments for the directives, a %s argument that is not a
   pointer to a string / not terminated within its buffer - the three messages of [caller_fault]).
   The exact-fetch clause is proved for well-formed input only (C20_printf_fetches_named_directive: for
   every directive of the grammar without n$, the va_arg log is exactly "*", ".*", the converted value, every
   supplied argument is consumed and the positional cache is untouched).
   MISSING for arbitrary byte lists: an independent list-level definition of "the arguments a format
   names" and a proof that the parser's va_arg log equals it; the check covers it dynamically
   (comp/printf/gen.py scan_args is that independent definition; the harness reads the number of
   fetches off the real va_list and the model's log is compared with it, kind "va-overrun"). *)
From Coq Require Import String.
From Coq Require Import NArith ZArith List Bool.
From FV Require Import Printf.PrintIntModel Printf.PrintfModel Printf.PrintfSafety Printf.IsoPrintf Printf.PrintfConform
  Printf.PrintfStageA Printf.PrintfConformProofs.
Import ListNotations.

Theorem C20_printf_total_safe_partial :
  forall (mem : memory) (s : list byte) (args cache : list N),
    (9 <= length cache)%nat ->
    match snd (run_printf mem s args cache) with
    | Ok _ => True
    | AssertStop _ => True
    | UB w => caller_fault w
    | OutOfFuel => False
    end.
Proof. exact printf_format_total_safe. Qed.
Print Assumptions C20_printf_total_safe_partial.

(* non-vacuity: a format that reaches every part of the parser ends Ok; a cut-off directive and an
   overlong width stop in the assertion hook (the former D31); a missing argument is a caller fault *)
Example C20_printf_total_safe_examples :
  let run f args := snd (run_printf [] f args (repeat 0%N 9)) in
  (* "a%%%-+ #0'12.34lld%2$*.*hhx" *)
  run [97; 37; 37; 37; 45; 43; 32; 48; 39; 49; 50; 46; 51; 52; 108; 108; 100; 37; 50; 36; 42; 46; 42; 104; 104; 120]%N
      [5; 3; 4; 6]%N = Ok tt
  /\ run [37; 53; 46]%N [] = AssertStop "*s"
  /\ run [37; 57; 57; 57; 57; 57; 57; 57; 57; 57; 57; 57; 100]%N [1%N] = AssertStop msg_width_overflow
  /\ run [37; 100; 37; 100]%N [1%N] = UB "va_arg past the last argument".
Proof. repeat split; vm_compute; reflexivity. Qed.

(* the exact-fetch clause on well-formed input: a directive of the grammar (no n$) fetches exactly the arguments it names *)
Theorem C20_printf_fetches_named_directive :
  forall (d : directive) (v : argval),
    d_pos d = None -> in_grammar d = true -> fits d v = true ->
    run_printf (mem_of d v) (render d) (args_of d v) cache_init
    = (mk_ps (iso_printf d v) (mk_vs [] (star_pops d ++ value_argty d) cache_init 0), Ok tt).
Proof. exact printf_nopos_run. Qed.
Print Assumptions C20_printf_fetches_named_directive.

Example C20_printf_fetches_named_example :
  let d := mk_dir None [FMinus] WStar PStar Ll Cx in
  in_grammar d = true /\ fits d (mk_av 7 3 255 []) = true
  /\ star_pops d ++ value_argty d = [ATInt; ATInt; ATLong].
Proof. repeat split; reflexivity. Qed.
