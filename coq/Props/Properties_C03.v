(* C03 -- slab pool: policy protocol -- map/unmap pairing, page accounting, poisoning. *)
From Coq Require Import List NArith Bool Permutation.
From FV Require Import Slab.SlabModel Slab.SlabInv Slab.SlabProto Slab.SlabC01 Slab.SlabLog Slab.SlabPoison Slab.SlabShadow.
Import ListNotations.
Local Open Scope N_scope.

(* Every admissible history, after every prefix:
   - the map/unmap sub-log passes the protocol checker [proto]: every unmap(b,l) is EXACTLY an earlier successful map
     answer (b, l) that has not been unmapped before (base and the length map was asked for), and the set of
     outstanding regions it computes is the set of regions the state holds;
   - used_pages = sum over slabs of (length+page)/page + sum over live large frames of (length+page)/page
     (no drift), and the decrement of the next large free never underflows;
   - when no block served from a large frame is live, exactly the slab reservations stay mapped. *)
Theorem C03_map_unmap_protocol :
  forall (c : cfg) (ops : list op),
    cfg_ok c = true -> policy_ok c ops -> api_ok c ops ->
    forall pre, prefix pre ops ->
    let s := run c pre in
    (exists m, proto [] (log c pre) = Some m /\ Permutation m (mapped s))
    /\ used s = pages c s
    /\ (forall x, In x (larges s) -> large_pages c x <= used s)
    /\ ((forall b x, In b (live s) -> In x (larges s) -> bk_p b <> lg_addr c x) ->
        larges s = [] /\ mapped s = map sl_region (slabs s)).
Proof. exact C03_protocol_main. Qed.
Print Assumptions C03_map_unmap_protocol.

(* ... and at the moment of an unmap no block that stays live intersects the region given back. *)
Theorem C03_unmap_never_under_live_block :
  forall (c : cfg) (ops : list op) (o : op),
    cfg_ok c = true -> policy_ok c (ops ++ [o]) -> api_ok c (ops ++ [o]) ->
    let s := run c ops in
    forall b0 l0, In (CUnmap b0 l0) (cbs_of (step c s o)) ->
      forall b', In b' (live (st_of (step c s o))) -> disjoint (bk_p b') (bk_size0 b') b0 l0.
Proof. exact C03_unmap_safe_main. Qed.
Print Assumptions C03_unmap_never_under_live_block.

(* state-independent: free / deallocate in EVERY state name a currently mapped region in an unmap call *)
Theorem C03_free_unmaps_only_mapped_partial :
  forall c s o b l,
    (exists p, o = Free p) \/ (exists p n, o = Dealloc p n) ->
    In (CUnmap b l) (cbs_of (step c s o)) -> In (b, l) (mapped s).
Proof. exact step_free_unmaps_mapped. Qed.
Print Assumptions C03_free_unmaps_only_mapped_partial.

(* Poisoning.  The shadow is computed from the callback log ALONE: start all-poisoned (fresh mappings arrive poisoned),
   [poison]/[unmap] clear a range, [unpoison]/[unpoison_expand] set it ([sh_fold sh0 log]).  For a policy with poison
   hooks, after every prefix of every admissible history:
   (c) [acc_ok]: walking the log, every access the pool itself makes (frame header reads/writes, link-word reads/writes,
       memcpy source and destination -- the CAccess entries) hits only bytes that are unpoisoned at that moment;
   and the invariant [Sh] holds:
   (a) S_live: every requested byte of every live block is unpoisoned;
   (b) S_free: every free small object (so in particular a block that has just been freed) is unpoisoned on exactly its
       first 8 bytes, the link word:  sh x = in_range o 8 x  for every x in [o, o+item);
       S_hs / S_hl: every frame header is unpoisoned;  S_out: no byte outside the mapped regions is unpoisoned. *)
Theorem C03_poison_protocol :
  forall (c : cfg) (ops : list op),
    cfg_ok c = true -> poison c = true -> policy_ok c ops -> api_ok c ops ->
    forall pre, prefix pre ops ->
    let s := run c pre in
    let sh := sh_fold sh0 (log c pre) in
    acc_ok sh0 (log c pre) /\ Sh c s sh.
Proof. exact C03_poison_protocol_main. Qed.
Print Assumptions C03_poison_protocol.

(* (b) spelled out for the block that has just been freed *)
Theorem C03_freed_small_block_poisoned_except_link :
  forall (c : cfg) (ops : list op) (p : N) (x : slab),
    cfg_ok c = true -> poison c = true -> policy_ok c (ops ++ [Free p]) -> api_ok c (ops ++ [Free p]) ->
    p <> 0 -> lookup c (run c ops) p = FSlab x ->
    let sh := sh_fold sh0 (log c (ops ++ [Free p])) in
    forall z, in_range p (sl_item x) z = true -> sh z = in_range p 8 z.
Proof. exact C03_freed_small_block_main. Qed.
Print Assumptions C03_freed_small_block_poisoned_except_link.

(* (a) on its own *)
Theorem C03_poison_live_requested :
  forall (c : cfg) (ops : list op),
    cfg_ok c = true -> poison c = true -> policy_ok c ops -> api_ok c ops ->
    forall pre, prefix pre ops ->
    let s := run c pre in
    let sh := sh_fold sh0 (log c pre) in
    forall b x, In b (live s) -> bk_p b <= x -> x < bk_p b + N.max (bk_req b) 1 -> sh x = true.
Proof. exact C03_poison_live_main. Qed.
Print Assumptions C03_poison_live_requested.

Definition c03_cfg : cfg := mkCfg 4096 4096 4096 4 false true 40 104.
Definition c03_ops : list op :=
  [Alloc 5000 (MapRet 20480); Alloc 24 (MapRet 65536); Alloc 9000 (MapRet 131072); Free 24576;
   Realloc 135168 20000 (MapRet 262144); Free 266240].
Example C03_hyps_satisfiable :
  cfg_ok c03_cfg = true /\ policy_ok c03_cfg c03_ops /\ api_ok c03_cfg c03_ops
  /\ proto [] (log c03_cfg c03_ops) = Some [(65536, 8192)]
  /\ mapped (run c03_cfg c03_ops) = [(65536, 8192)]
  /\ used (run c03_cfg c03_ops) = 1
  /\ (let sh := sh_fold sh0 (log c03_cfg c03_ops) in sh 65536 = true /\ sh 69504 = true /\ sh 69528 = false /\ sh 20480 = false)
  /\ filter is_mu (log c03_cfg c03_ops) =
     [CMap 16384 0 20480; CMap 8192 0 65536; CMap 20480 0 131072; CUnmap 20480 16384;
      CMap 28672 0 262144; CUnmap 131072 20480; CUnmap 262144 28672].
Proof. unfold policy_ok, api_ok. vm_compute. repeat split; reflexivity. Qed.
