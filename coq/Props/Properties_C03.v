(* C03 -- slab pool: policy protocol -- map/unmap pairing, page accounting, poisoning. *)
From Coq Require Import List NArith Bool.
From FV Require Import Slab.SlabModel Slab.SlabProto.
Import ListNotations.
Local Open Scope N_scope.

(* free / deallocate, in EVERY state: an unmap call names a region that is currently mapped, with exactly the base and
   the length of the map() answer that produced it (the whole reservation, not the frame's payload). *)
Theorem C03_free_unmaps_only_mapped_partial :
  forall c s o b l,
    (exists p, o = Free p) \/ (exists p n, o = Dealloc p n) ->
    In (CUnmap b l) (cbs_of (step c s o)) -> In (b, l) (mapped s).
Proof. exact step_free_unmaps_mapped. Qed.
Print Assumptions C03_free_unmaps_only_mapped_partial.

Definition c03_cfg : cfg := mkCfg 4096 4096 4096 4 false true 40 104.
Example C03_unmap_nonvacuous :
  let s := run c03_cfg [Alloc 5000 (MapRet 20480)] in
  mapped s = [(20480, 16384)]
  /\ cbs_of (step c03_cfg s (Free 24576)) =
     [CAccess false 20480 40; CPoison 20480 40; CPoison 24576 8192; CUnmap 20480 16384]
  /\ mapped (st_of (step c03_cfg s (Free 24576))) = [] /\ used (st_of (step c03_cfg s (Free 24576))) = 0.
Proof. vm_compute. repeat split; reflexivity. Qed.
