(* TIE (slab): bucket_to_size / size_to_bucket regenerated from include/frg/slab.hpp on every run (Gen/Cxx_slab.v)
   equal SlabModel.b2s / s2b. *)
From Coq Require Import NArith ZArith.
From FV Require Import CxxLeaf.CxxSem Gen.Cxx_slab Slab.SlabModel CxxLeaf.Tie_slab.
Local Open Scope N_scope.

Theorem TIE_bucket_to_size : forall idx, idx < 61 -> bucket_to_size idx = Ok (b2s idx).
Proof. exact gen_bucket_to_size_eq_model. Qed.
Print Assumptions TIE_bucket_to_size.
Example TIE_bucket_to_size_ex : bucket_to_size 2 = Ok 32 /\ bucket_to_size 12 = Ok 32768.
Proof. vm_compute. split; reflexivity. Qed.

(* the C++ shifts a 64-bit 1 by 6 + (idx - 3): undefined from idx = 61 on (the model's b2s is total there) *)
Theorem TIE_bucket_to_size_undefined : forall idx, 61 <= idx -> idx < 2 ^ 32 -> bucket_to_size idx = UB UShift.
Proof. exact gen_bucket_to_size_undefined. Qed.
Print Assumptions TIE_bucket_to_size_undefined.
Example TIE_bucket_to_size_undefined_ex : bucket_to_size 61 = UB UShift.
Proof. vm_compute. reflexivity. Qed.

Theorem TIE_size_to_bucket : forall fuel size, size < 2 ^ 64 -> size_to_bucket (4 + fuel) size = Ok (s2b size).
Proof. exact gen_size_to_bucket_eq_model. Qed.
Print Assumptions TIE_size_to_bucket.
Example TIE_size_to_bucket_ex : size_to_bucket 4 33 = Ok 3 /\ size_to_bucket 4 4097 = Ok 10 /\ size_to_bucket 3 64 = OutOfFuel.
Proof. vm_compute. repeat split; reflexivity. Qed.
