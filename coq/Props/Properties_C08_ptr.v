(* C08, pointer level -- the pointer surgery of include/frg/pairing_heap.hpp (_merge, _collapse with its
   backlink-threaded stack, push, pop, remove unlinking through the backlink), transliterated assignment by
   assignment (Pairing/PairingPtr.v), REFINES the functional model the C08 theorems are about.
   Statements only; proofs in coq/Pairing/PairingRefine*.v.
   Vocabulary: [rep f b h] the memory f holds exactly the hook fields of the sibling chain h, first node with
   backlink b; [same_except l f g] g differs from f at most on the ids in l; [R h s] the pointer-level state s is
   the layout of the functional heap h (every hook of every id, _root, priorities of contained nodes);
   [abs fuel s] the child/sibling tree read back out of the memory (Pairing/PairingRefineBase.v, PairingRefine.v). *)
From Coq Require Import List NArith Bool Permutation.
From FV Require Import Pairing.PairingModel Pairing.PairingSpec Pairing.PairingProofs Pairing.PairingLinks
  Pairing.PairingHistory Pairing.PairingPtr Pairing.PairingRefineBase Pairing.PairingRefineMerge
  Pairing.PairingRefineCollapse Pairing.PairingRefine Pairing.PairingRefineTransfer.
Import ListNotations.
Local Open Scope N_scope.

Section C08_ptr.
Variable cmp : elt -> elt -> bool.          (* the user's Compare; NO hypothesis is needed for the refinement *)

(* _merge(a, b) on two detached trees held by the memory: ends without assertion, returns the root of the
   functional merge, leaves exactly the layout of the functional merge and writes nothing outside the two trees *)
Theorem C08_ptr_merge : forall pr f a b,
  NoDup (tids a ++ tids b) ->
  rep f None (T a) -> rep f None (T b) ->
  pr (tid a) = fst (fst a) -> pr (tid b) = fst (fst b) ->
  exists f', p_merge cmp pr f (tid a) (tid b) = POk (f', tid (merge cmp a b)) /\
    rep f' None (T (merge cmp a b)) /\
    same_except (tids a ++ tids b) f f'.
Proof. exact (p_merge_spec cmp). Qed.

(* _collapse(head) on a non-empty sibling chain (the head may carry any, also a stale, backlink) with fuel >= the
   number of nodes: never out of fuel, no null dereference, no assertion; result = the functional two-pass collapse *)
Theorem C08_ptr_collapse : forall pr h fuel f bk,
  h <> Nil -> (length (elems h) <= fuel)%nat ->
  NoDup (ids h) -> prio_ok pr (elems h) -> rep f bk h ->
  exists f' t,
    collapse cmp h = Some t /\
    p_collapse cmp pr fuel f (head_id h) = POk (f', tid t) /\
    rep f' None (T t) /\
    same_except (ids h) f f'.
Proof. exact (p_collapse_spec cmp). Qed.

(* THE REFINEMENT THEOREM: for every functional heap h with unique ids, on the state that is the layout of h,
   every pointer-level operation run with fuel >= number of elements stops in an FRG_ASSERT exactly when the
   functional step does, and otherwise yields -- pointwise on every id -- the layout of the functional result.
   (UB = push of the sole contained element: no assertion notices; the node becomes its own child.) *)
Theorem C08_ptr_refines_functional : forall fuel h s o,
  NoDup (hids h) -> R h s -> (length (helems h) <= fuel)%nat ->
  match step cmp h o with
  | Ok h' => exists s', p_step cmp fuel s o = POk s' /\ R h' s'
  | AssertStop => p_step cmp fuel s o = PAssertStop
  | UB => exists s' x, o = Push x /\ p_step cmp fuel s o = POk s' /\
                       p_hooks s' (snd x) = mk_hook (Some (snd x)) (Some (snd x)) None
  end.
Proof. exact (step_refines cmp). Qed.

(* fuel = number of elements + 1 suffices: no operation runs out of fuel or dereferences null *)
Theorem C08_ptr_fuel : forall h s o,
  NoDup (hids h) -> R h s ->
  let r := p_step cmp (S (length (helems h))) s o in r <> POutOfFuel /\ r <> PNullDeref.
Proof. exact (step_fuel_suffices cmp). Qed.

(* every history from the empty heap: the pointer-level run equals the layout of the functional run *)
Theorem C08_ptr_history : forall ops fuel,
  (length ops <= fuel)%nat ->
  match run cmp None ops with
  | Ok h => exists s, p_run cmp fuel p_init ops = POk s /\ R h s
  | AssertStop => p_run cmp fuel p_init ops = PAssertStop
  | UB => True
  end.
Proof. exact (ptr_run_refines cmp). Qed.

(* the abstraction function inverts the layout *)
Theorem C08_ptr_abs : forall fuel h s,
  NoDup (hids h) -> R h s -> (length (helems h) <= fuel)%nat -> abs fuel s = h.
Proof. exact abs_R. Qed.

(* multiset laws of the pointer-level operations, read through abs: push adds exactly x, pop removes exactly the
   node _root pointed to, remove(id) removes exactly the node id *)
Theorem C08_ptr_multiset : forall fuel h s o h',
  NoDup (hids h) -> R h s -> (length (helems h) <= fuel)%nat -> step cmp h o = Ok h' ->
  exists s', p_step cmp fuel s o = POk s' /\ abs fuel s = h /\ abs (S fuel) s' = h' /\
    match o with
    | Push x => Permutation (helems (abs (S fuel) s')) (x :: helems (abs fuel s))
    | Pop => exists r, p_root s = Some r /\
               Permutation (helems (abs fuel s)) ((p_prio s r, r) :: helems (abs (S fuel) s'))
    | Remove id => exists p, Permutation (helems (abs fuel s)) ((p, id) :: helems (abs (S fuel) s'))
    end.
Proof. exact (ptr_multiset_step cmp). Qed.

(* C08 transferred: after every script that runs through, the pointer-level memory is the layout of abs, which is
   heap ordered with unique ids and consistent links, and _root points to a maximum of the content *)
Hypothesis cmp_asym : forall a b, cmp a b = true -> cmp b a = false.
Hypothesis cmp_negtrans : forall a b c, cmp a b = false -> cmp b c = false -> cmp a c = false.

Theorem C08_ptr_observations : forall ops fuel h,
  (length ops <= fuel)%nat -> run cmp None ops = Ok h ->
  exists s, p_run cmp fuel p_init ops = POk s /\
    let a := abs fuel s in
    a = h /\
    (forall i, p_hooks s i = layout a i) /\
    heap_ordered cmp a /\ NoDup (hids a) /\ links_consistent a /\
    match p_root s with
    | None => helems a = []
    | Some r => In (p_prio s r, r) (helems a) /\ forall y, In y (helems a) -> cmp (p_prio s r, r) y = false
    end.
Proof. exact (ptr_observations cmp cmp_asym cmp_negtrans). Qed.

End C08_ptr.

Print Assumptions C08_ptr_merge.
Print Assumptions C08_ptr_collapse.
Print Assumptions C08_ptr_refines_functional.
Print Assumptions C08_ptr_fuel.
Print Assumptions C08_ptr_history.
Print Assumptions C08_ptr_abs.
Print Assumptions C08_ptr_multiset.
Print Assumptions C08_ptr_observations.

(* ---- non-vacuity: concrete scripts run through BOTH models by vm_compute ---- *)
Definition ltp (a b : elt) : bool := N.ltb (fst a) (fst b).
Example ltp_asym : forall a b, ltp a b = true -> ltp b a = false.
Proof. unfold ltp. intros a b H. apply N.ltb_lt in H. apply N.ltb_ge. now apply N.lt_le_incl. Qed.
Example ltp_negtrans : forall a b c, ltp a b = false -> ltp b c = false -> ltp a c = false.
Proof.
  unfold ltp. intros a b c H1 H2. apply N.ltb_ge in H1, H2. apply N.ltb_ge.
  now apply N.le_trans with (fst b).
Qed.

Definition dump (f : hooks) (n : nat) : list hook := map (fun i => f (N.of_nat i)) (seq 0 n).
Definition fuel_of (ops : list op) : nat := length ops.

(* root 0 collects 6 children (ties among them); pop collapses 6 (even); later a root with 5 children (odd) is
   popped; an inner node with children is removed through its backlink *)
Definition ex_build : list op :=
  [Push (100, 0); Push (7, 1); Push (9, 2); Push (7, 3); Push (8, 4); Push (9, 5); Push (6, 6)].
Definition ex_ops : list op :=
  ex_build ++ [Pop; Push (50, 7); Push (60, 0); Push (1, 8); Push (2, 9); Push (3, 10); Remove 5; Pop; Pop].

Definition ptr_state (ops : list op) : pstate :=
  match p_run ltp (fuel_of ops) p_init ops with POk s => s | _ => p_init end.
Definition fun_heap (ops : list op) : heap :=
  match run ltp None ops with Ok h => h | _ => None end.

(* before the first pop the root has 6 children; before the second-to-last pop the root has 5 *)
Example ex_children :
  length (chain_roots (match fun_heap ex_build with Some t => snd t | None => Nil end)) = 6%nat /\
  length (chain_roots (match fun_heap (removelast (removelast ex_ops)) with Some t => snd t | None => Nil end)) = 5%nat.
Proof. split; vm_compute; reflexivity. Qed.

Example C08_ptr_history_ex :
  (exists s, p_run ltp (fuel_of ex_ops) p_init ex_ops = POk s) /\
  (exists h, run ltp None ex_ops = Ok h /\ h <> None) /\
  dump (p_hooks (ptr_state ex_ops)) 12 = dump (layout (fun_heap ex_ops)) 12 /\
  p_root (ptr_state ex_ops) = option_map snd (top (fun_heap ex_ops)) /\
  (* ... and after every prefix *)
  forallb (fun n => let ops := firstn n ex_ops in
             forallb (fun i => match p_hooks (ptr_state ops) (N.of_nat i), layout (fun_heap ops) (N.of_nat i) with
                               | mk_hook c b s, mk_hook c' b' s' => ptr_eqb c c' && ptr_eqb b b' && ptr_eqb s s' end)
                     (seq 0 12))
          (seq 0 (S (length ex_ops))) = true.
Proof.
  split; [eexists; vm_compute; reflexivity|]. split; [eexists; split; [vm_compute; reflexivity | discriminate]|].
  repeat split; vm_compute; reflexivity.
Qed.

Example C08_ptr_history_instance :
  exists s, p_run ltp (fuel_of ex_ops) p_init ex_ops = POk s /\ R (fun_heap ex_ops) s.
Proof.
  pose proof (C08_ptr_history ltp ex_ops (fuel_of ex_ops) (le_n _)) as H.
  assert (run ltp None ex_ops = Ok (fun_heap ex_ops)) as E by (vm_compute; reflexivity).
  rewrite E in H. exact H.
Qed.

Example C08_ptr_merge_ex :
  let f := upd (upd null_hooks 1 (mk_hook None None None)) 0 (mk_hook None None None) in
  p_merge ltp (fun i => if N.eqb i 0 then 5 else 9) f 0 1 =
    POk (set_child (set_backlink (set_sibling f 0 None) 0 (Some 1)) 1 (Some 0), 1) /\
  merge ltp ((5, 0), Nil) ((9, 1), Nil) = ((9, 1), Node (5, 0) Nil Nil).
Proof. split; reflexivity. Qed.

(* _collapse on a chain of 5 detached singletons with a stale backlink in the head, against the functional collapse *)
Definition ex_chain : ph :=
  Node (3, 0) Nil (Node (3, 1) Nil (Node (5, 2) Nil (Node (1, 3) Nil (Node (4, 4) Nil Nil)))).
Definition ex_chain_mem : hooks := fun i =>
  match lookup i (links (Some 9) ex_chain) with Some k => k | None => null_hook end.
Example C08_ptr_collapse_ex :
  match p_collapse ltp (fun i => nth (N.to_nat i) [3; 3; 5; 1; 4] 0) 5 ex_chain_mem (Some 0), collapse ltp ex_chain with
  | POk (f', r), Some t => r = tid t /\ dump f' 6 = dump (layout (Some t)) 6 /\ length (telems t) = 5%nat
  | _, _ => False
  end.
Proof. vm_compute. repeat split. Qed.

Example C08_ptr_refines_functional_ex :
  (* AssertStop on both sides: pop of the empty heap, remove of an absent node, push of a contained node *)
  p_step ltp 3 p_init Pop = PAssertStop /\ step ltp None Pop = AssertStop /\
  p_step ltp 9 (ptr_state ex_build) (Remove 8) = PAssertStop /\ step ltp (fun_heap ex_build) (Remove 8) = AssertStop /\
  p_step ltp 9 (ptr_state ex_build) (Push (1, 3)) = PAssertStop /\ step ltp (fun_heap ex_build) (Push (1, 3)) = AssertStop /\
  (* UB: the sole element pushed again becomes its own child *)
  (exists s', p_step ltp 3 (ptr_state [Push (4, 0)]) (Push (6, 0)) = POk s' /\ p_hooks s' 0 = mk_hook (Some 0) (Some 0) None).
Proof. repeat split; try (vm_compute; reflexivity). eexists. split; vm_compute; reflexivity. Qed.

Example C08_ptr_fuel_ex :
  (* with too little fuel the model says so: 6 children need 3 iterations of each loop *)
  p_step ltp 2 (ptr_state ex_build) Pop = POutOfFuel /\
  (exists s', p_step ltp 3 (ptr_state ex_build) Pop = POk s').
Proof. split; [vm_compute; reflexivity | eexists; vm_compute; reflexivity]. Qed.

Example C08_ptr_abs_ex : abs (fuel_of ex_ops) (ptr_state ex_ops) = fun_heap ex_ops /\ fun_heap ex_ops <> None.
Proof. split; [vm_compute; reflexivity | vm_compute; discriminate]. Qed.

Example C08_ptr_multiset_ex :
  exists s', p_step ltp 7 (ptr_state ex_build) Pop = POk s' /\
    Permutation (helems (abs 7 (ptr_state ex_build))) ((100, 0) :: helems (abs 8 s')).
Proof.
  assert (run ltp None ex_build = Ok (fun_heap ex_build)) as E by (vm_compute; reflexivity).
  pose proof (C08_ptr_history ltp ex_build 7 (le_n _)) as H. rewrite E in H. destruct H as (s & Hs & HR).
  assert (ptr_state ex_build = s) as Es by (unfold ptr_state, fuel_of; cbn [length ex_build]; now rewrite Hs).
  assert (NoDup (hids (fun_heap ex_build))) as Hn.
  { vm_compute. repeat constructor; cbn; intuition discriminate. }
  destruct (C08_ptr_multiset ltp 7 (fun_heap ex_build) s Pop _ Hn HR ltac:(vm_compute; repeat constructor) eq_refl)
    as (s' & H1 & H2 & H3 & r & Hr & Hp).
  rewrite Es. exists s'. split; [exact H1|].
  assert (r = 0) as -> by (rewrite <- Es in Hr; vm_compute in Hr; congruence).
  assert (p_prio s 0 = 100) as Ep by (rewrite <- Es; vm_compute; reflexivity).
  rewrite Ep in Hp. exact Hp.
Qed.

Example C08_ptr_observations_ex :
  exists s, p_run ltp (fuel_of ex_ops) p_init ex_ops = POk s /\
    heap_ordered ltp (abs (fuel_of ex_ops) s) /\ links_consistent (abs (fuel_of ex_ops) s) /\
    p_root s = Some 2 /\ length (helems (abs (fuel_of ex_ops) s)) = 8%nat.
Proof.
  assert (run ltp None ex_ops = Ok (fun_heap ex_ops)) as E by (vm_compute; reflexivity).
  destruct (C08_ptr_observations ltp ltp_asym ltp_negtrans ex_ops (fuel_of ex_ops) _ (le_n _) E)
    as (s & H1 & H2 & H3 & H4 & H5 & H6 & H7).
  exists s. split; [exact H1|]. split; [exact H4|]. split; [exact H6|].
  assert (ptr_state ex_ops = s) as Es by (unfold ptr_state; now rewrite H1).
  rewrite <- Es. split; vm_compute; reflexivity.
Qed.
