(* C08 -- frg::pairing_heap: top() is always a maximum; pop/remove take out exactly one element;
   hooks are consistent and reset.  Statements only; proofs in coq/Pairing/*.v.
   Vocabulary (reachable, heap_ordered, links_consistent, ref_step, lockstep): Pairing/PairingSpec.v. *)
From Coq Require Import List NArith Bool Permutation Sorted.
From FV Require Import Pairing.PairingModel Pairing.PairingSpec Pairing.PairingProofs
  Pairing.PairingLinks Pairing.PairingHistory.
Import ListNotations.
Local Open Scope N_scope.

Section C08.
(* the user's Compare: a strict weak order ([cmp a b] = "a is ordered below b") *)
Variable cmp : elt -> elt -> bool.
Hypothesis cmp_asym : forall a b, cmp a b = true -> cmp b a = false.
Hypothesis cmp_negtrans : forall a b c, cmp a b = false -> cmp b c = false -> cmp a c = false.

(* every heap that a history of successful push/pop/remove produces is heap ordered: no parent is
   ordered below any of its children (needs asymmetry only) *)
Theorem C08_heap_order : forall h,
  reachable cmp h -> forall p c, In (p, c) (parent_child (to_ph h)) -> cmp p c = false.
Proof. exact (heap_order_reachable cmp cmp_asym). Qed.

(* top() is a contained element that cmp orders below no contained element *)
Theorem C08_top_max : forall h x,
  reachable cmp h -> top h = Some x ->
  In x (helems h) /\ forall y, In y (helems h) -> cmp x y = false.
Proof. exact (top_max_reachable cmp cmp_asym cmp_negtrans). Qed.

Theorem C08_empty_iff : forall h, empty h = true <-> helems h = [].
Proof. exact empty_iff. Qed.

(* ids (node addresses) stay unique *)
Theorem C08_unique_ids : forall h, reachable cmp h -> NoDup (hids h).
Proof. exact (nodup_reachable cmp cmp_asym). Qed.

(* multiset laws *)
Theorem C08_multiset_push : forall h x h',
  step cmp h (Push x) = Ok h' ->
  ~ In (snd x) (hids h) /\ Permutation (helems h') (x :: helems h).
Proof. exact (step_push_elems cmp). Qed.

Theorem C08_multiset_pop : forall h h',
  step cmp h Pop = Ok h' ->
  exists t, top h = Some t /\ Permutation (helems h) (t :: helems h').
Proof. exact (step_pop_elems cmp). Qed.

Theorem C08_multiset_remove : forall h x,
  NoDup (hids h) -> In x (helems h) ->
  exists h', step cmp h (Remove (snd x)) = Ok h' /\ Permutation (helems h) (x :: helems h').
Proof. exact (remove_exactly cmp). Qed.

Theorem C08_multiset_remove_step : forall h id h',
  step cmp h (Remove id) = Ok h' ->
  exists x, snd x = id /\ In x (helems h) /\ Permutation (helems h) (x :: helems h').
Proof. exact (step_remove_elems cmp). Qed.

(* exactly which operations stop in an FRG_ASSERT (or corrupt the structure unnoticed) *)
Theorem C08_step_ok_iff : forall h o,
  (exists h', step cmp h o = Ok h') <->
  match o with
  | Push x => ~ In (snd x) (hids h)
  | Pop => helems h <> []
  | Remove id => In id (hids h)
  end.
Proof. exact (step_ok_iff cmp). Qed.

Theorem C08_step_ub_iff : forall h o,
  step cmp h o = UB <-> exists x y, o = Push x /\ h = Some (y, Nil) /\ snd x = snd y.
Proof. exact (step_ub_iff cmp). Qed.

(* layout: all three hook fields of all elements are consistent; non-members have the null hook *)
Theorem C08_links : forall h, reachable cmp h -> links_consistent h.
Proof. exact (links_reachable cmp cmp_asym). Qed.

(* the hook fields (plus the root) determine the whole child/sibling tree: comparing top() and every
   hook field, as the correspondence check does after every operation, compares the full model state *)
Theorem C08_layout_faithful : forall h1 h2,
  NoDup (hids h1) -> NoDup (hids h2) ->
  option_map snd (top h1) = option_map snd (top h2) ->
  (forall id, layout h1 id = layout h2 id) ->
  erase (to_ph h1) = erase (to_ph h2).
Proof. exact layout_faithful. Qed.

(* an element taken out by remove/pop has the null hook again and pushing it again is a plain push *)
Theorem C08_hook_reset_remove : forall h id h',
  reachable cmp h -> step cmp h (Remove id) = Ok h' ->
  ~ In id (hids h') /\ layout h' id = null_hook /\
  forall p, step cmp h' (Push (p, id)) = Ok (push cmp (p, id) h').
Proof. exact (removed_hook_null cmp cmp_asym). Qed.

Theorem C08_hook_reset_pop : forall h x h',
  reachable cmp h -> top h = Some x -> step cmp h Pop = Ok h' ->
  ~ In (snd x) (hids h') /\ layout h' (snd x) = null_hook /\
  forall p, step cmp h' (Push (p, snd x)) = Ok (push cmp (p, snd x) h').
Proof. exact (popped_hook_null cmp cmp_asym). Qed.

(* popping a reachable heap until empty (fuel = number of elements) delivers every element exactly
   once and never an element that is ordered below a later one *)
Theorem C08_drain_sorted : forall h,
  reachable cmp h ->
  Permutation (drain cmp (length (helems h)) h) (helems h) /\
  StronglySorted (fun a b => cmp a b = false) (drain cmp (length (helems h)) h).
Proof. exact (drain_sorted cmp cmp_asym cmp_negtrans). Qed.

(* history level: over EVERY script, the model and the reference multiset (fed with the model's
   top(), as the harness oracle feeds std::multiset with the real top()) stay in lock step: same
   content, top() a maximum of the reference, empty() right, heap order, unique ids, consistent
   links after every prefix; a step stops exactly when the reference's precondition fails *)
Theorem C08_history : forall ops, lockstep cmp None [] ops.
Proof. exact (history cmp cmp_asym cmp_negtrans). Qed.

End C08.

Print Assumptions C08_heap_order.
Print Assumptions C08_top_max.
Print Assumptions C08_empty_iff.
Print Assumptions C08_unique_ids.
Print Assumptions C08_multiset_push.
Print Assumptions C08_multiset_pop.
Print Assumptions C08_multiset_remove.
Print Assumptions C08_multiset_remove_step.
Print Assumptions C08_step_ok_iff.
Print Assumptions C08_step_ub_iff.
Print Assumptions C08_links.
Print Assumptions C08_layout_faithful.
Print Assumptions C08_hook_reset_remove.
Print Assumptions C08_hook_reset_pop.
Print Assumptions C08_drain_sorted.
Print Assumptions C08_history.

(* ---- non-vacuity: the hypotheses are met by std::less on the priority (many ties), and the
   statements talk about non-trivial heaps ---- *)
Definition lt_cmp (a b : elt) : bool := N.ltb (fst a) (fst b).
Example lt_cmp_asym : forall a b, lt_cmp a b = true -> lt_cmp b a = false.
Proof. unfold lt_cmp. intros a b H. apply N.ltb_lt in H. apply N.ltb_ge. now apply N.lt_le_incl. Qed.
Example lt_cmp_negtrans : forall a b c, lt_cmp a b = false -> lt_cmp b c = false -> lt_cmp a c = false.
Proof.
  unfold lt_cmp. intros a b c H1 H2. apply N.ltb_ge in H1, H2. apply N.ltb_ge.
  now apply N.le_trans with (fst b).
Qed.

(* pushes with ties, a pop with 4 children (even collapse), a remove of an inner node, a re-push *)
Definition ex_ops : list op :=
  [Push (5, 0); Push (3, 1); Push (5, 2); Push (7, 3); Push (1, 4); Push (7, 5); Push (2, 6);
   Pop; Remove 1; Push (9, 1); Remove 2].
Definition ex_heap : heap :=
  match run lt_cmp None ex_ops with Ok h => h | _ => None end.
Example ex_heap_reachable : reachable lt_cmp ex_heap /\ length (helems ex_heap) = 5%nat.
Proof.
  split; [|vm_compute; reflexivity].
  apply (run_reachable lt_cmp ex_ops None); [constructor | vm_compute; reflexivity].
Qed.

Example C08_heap_order_ex :
  length (parent_child (to_ph ex_heap)) = 4%nat /\
  forall p c, In (p, c) (parent_child (to_ph ex_heap)) -> lt_cmp p c = false.
Proof. split; [vm_compute; reflexivity | exact (C08_heap_order lt_cmp lt_cmp_asym ex_heap (proj1 ex_heap_reachable))]. Qed.

Example C08_top_max_ex :
  top ex_heap = Some (9, 1) /\ forall y, In y (helems ex_heap) -> lt_cmp (9, 1) y = false.
Proof.
  split; [vm_compute; reflexivity|].
  apply (C08_top_max lt_cmp lt_cmp_asym lt_cmp_negtrans ex_heap (9, 1) (proj1 ex_heap_reachable)).
  vm_compute; reflexivity.
Qed.

Example C08_empty_iff_ex : empty ex_heap = false /\ empty (@None tree) = true.
Proof. split; vm_compute; reflexivity. Qed.

Example C08_unique_ids_ex : NoDup (hids ex_heap) /\ hids ex_heap <> [].
Proof. split; [exact (C08_unique_ids lt_cmp lt_cmp_asym ex_heap (proj1 ex_heap_reachable)) | vm_compute; discriminate]. Qed.

Example C08_multiset_push_ex :
  exists h', step lt_cmp ex_heap (Push (7, 2)) = Ok h' /\ Permutation (helems h') ((7, 2) :: helems ex_heap).
Proof.
  eexists. split; [vm_compute; reflexivity|].
  refine (proj2 (C08_multiset_push lt_cmp ex_heap (7, 2) _ _)). vm_compute; reflexivity.
Qed.

Example C08_multiset_pop_ex :
  exists h', step lt_cmp ex_heap Pop = Ok h' /\ Permutation (helems ex_heap) ((9, 1) :: helems h').
Proof.
  eexists. split; [vm_compute; reflexivity|].
  destruct (C08_multiset_pop lt_cmp ex_heap _ eq_refl) as (t & Ht & Hp).
  vm_compute in Ht. inversion Ht; subst. exact Hp.
Qed.

Example C08_multiset_remove_ex :
  In (5, 0) (helems ex_heap) /\
  exists h', step lt_cmp ex_heap (Remove 0) = Ok h' /\ Permutation (helems ex_heap) ((5, 0) :: helems h').
Proof.
  assert (In (5, 0) (helems ex_heap)) as Hin by (vm_compute; tauto).
  split; [exact Hin|].
  exact (C08_multiset_remove lt_cmp ex_heap (5, 0) (proj1 C08_unique_ids_ex) Hin).
Qed.

Example C08_multiset_remove_step_ex :
  exists h', step lt_cmp ex_heap (Remove 5) = Ok h' /\ length (helems h') = 4%nat.
Proof. eexists. split; vm_compute; reflexivity. Qed.

Example C08_step_ok_iff_ex :
  step lt_cmp ex_heap (Push (1, 5)) = AssertStop /\ step lt_cmp ex_heap (Remove 2) = AssertStop /\
  step lt_cmp None Pop = AssertStop /\ exists h', step lt_cmp ex_heap (Push (1, 2)) = Ok h'.
Proof. repeat split; try (vm_compute; reflexivity). eexists. vm_compute. reflexivity. Qed.

Example C08_step_ub_iff_ex : step lt_cmp (Some ((4, 0), Nil)) (Push (6, 0)) = UB.
Proof. vm_compute. reflexivity. Qed.

Example C08_links_ex :
  links_consistent ex_heap /\
  layout ex_heap 1 = mk_hook (Some 5) None None /\ layout ex_heap 2 = null_hook /\
  h_backlink (layout ex_heap 5) = Some 1.
Proof.
  split; [exact (C08_links lt_cmp lt_cmp_asym ex_heap (proj1 ex_heap_reachable))|].
  repeat split; vm_compute; reflexivity.
Qed.

Example C08_layout_faithful_ex :
  let h1 := Some ((9, 1), Node (7, 5) (Node (1, 2) Nil Nil) Nil) in
  let h2 := Some ((8, 1), Node (2, 5) (Node (2, 2) Nil Nil) Nil) in
  h1 <> h2 /\ erase (to_ph h1) = erase (to_ph h2).
Proof.
  intros h1 h2. split; [discriminate|].
  assert (NoDup [1; 5; 2]) as Hn.
  { repeat constructor; cbn; intuition discriminate. }
  apply C08_layout_faithful; [exact Hn | exact Hn | reflexivity | intros id; reflexivity].
Qed.

Example C08_hook_reset_remove_ex :
  exists h', step lt_cmp ex_heap (Remove 5) = Ok h' /\ layout h' 5 = null_hook /\
             layout ex_heap 5 <> null_hook.
Proof.
  eexists. split; [vm_compute; reflexivity|]. split.
  - refine (proj1 (proj2 (C08_hook_reset_remove lt_cmp lt_cmp_asym ex_heap 5 _ (proj1 ex_heap_reachable) _))).
    vm_compute; reflexivity.
  - vm_compute. discriminate.
Qed.

Example C08_hook_reset_pop_ex :
  exists h', step lt_cmp ex_heap Pop = Ok h' /\ layout h' 1 = null_hook /\ layout ex_heap 1 <> null_hook.
Proof.
  eexists. split; [vm_compute; reflexivity|]. split.
  - refine (proj1 (proj2 (C08_hook_reset_pop lt_cmp lt_cmp_asym ex_heap (9, 1) _ (proj1 ex_heap_reachable) _ _)));
      vm_compute; reflexivity.
  - vm_compute. discriminate.
Qed.

Example C08_drain_sorted_ex :
  drain lt_cmp (length (helems ex_heap)) ex_heap = [(9, 1); (7, 5); (5, 0); (2, 6); (1, 4)] /\
  StronglySorted (fun a b => lt_cmp a b = false) (drain lt_cmp (length (helems ex_heap)) ex_heap).
Proof.
  split; [vm_compute; reflexivity|].
  exact (proj2 (C08_drain_sorted lt_cmp lt_cmp_asym lt_cmp_negtrans ex_heap (proj1 ex_heap_reachable))).
Qed.

Example C08_history_ex :
  lockstep lt_cmp None [] ex_ops /\ run lt_cmp None ex_ops = Ok ex_heap /\ ex_heap <> None.
Proof.
  split; [exact (C08_history lt_cmp lt_cmp_asym lt_cmp_negtrans ex_ops)|].
  split; [vm_compute; reflexivity | vm_compute; discriminate].
Qed.
