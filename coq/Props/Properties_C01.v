(* C01 -- slab pool: live blocks are valid, big enough, aligned and pairwise disjoint.
   Model: coq/Slab/SlabModel.v (tied to include/frg/slab.hpp by comp/slab: exact return addresses, get_size, the
   policy call log, numUsedPages, bucket/slab structure dumps on generated scripts over 12 template configurations). *)
From Coq Require Import List NArith Bool.
From FV Require Import Slab.SlabModel Slab.SlabArith Slab.SlabFail Slab.SlabC01.
Import ListNotations.
Local Open Scope N_scope.

(* Every history, every admissible configuration, every policy answer (DESIGN Appendix A).
   [Forall ... trace] says that no call of the history ends in UB or in an FRG_ASSERT.
   (Until the D42 fix the theorem needed `fewer than 2^32 calls`: num_reserved was never decremented.) *)
Theorem C01_blocks_valid_disjoint_aligned :
  forall (c : cfg) (ops : list op),
    cfg_ok c = true -> policy_ok c ops -> api_ok c ops ->
    forall pre, prefix pre ops ->
    let s := run c pre in
    Forall (fun x => is_stop (fst x) = false) (trace_from c (init c) pre)
    /\ forall p n, live_req s p = Some n ->
       N.max n 1 <= size_of c s p
       /\ inside_mapped s p (size_of c s p)
       /\ (forall q m, live_req s q = Some m -> q <> p -> disjoint p (size_of c s p) q (size_of c s q))
       /\ disjoint_from_bookkeeping c s p (size_of c s p)
       /\ N.divide (align_of c (N.max n 1)) p
       /\ size_of c s p = size_when_allocated s p.
Proof. exact C01_main. Qed.
Print Assumptions C01_blocks_valid_disjoint_aligned.

(* size_to_bucket picks, for EVERY request 1 <= n <= max_bucket_size and EVERY number of buckets (not only the 13
   sizes the static_assert samples), the smallest class that fits, and that class exists. *)
Theorem C01_size_class_exact :
  forall nb n, 1 <= nb -> 1 <= n -> n <= b2s (nb - 1) ->
    n <= b2s (s2b n) /\ (s2b n = 0 \/ b2s (s2b n - 1) < n) /\ s2b n < nb.
Proof.
  intros nb n Hnb Hn Hmax. split; [apply s2b_fits; assumption|].
  split; [apply s2b_least; assumption|apply s2b_bound; assumption].
Qed.
Print Assumptions C01_size_class_exact.

(* a request succeeds whenever the policy's map does *)
Theorem C01_allocate_succeeds :
  forall c ops n r,
    cfg_ok c = true -> policy_ok c (ops ++ [Alloc n (MapRet r)]) -> api_ok c (ops ++ [Alloc n (MapRet r)]) ->
    r <> 0 ->
    exists p, res_of (step c (run c ops) (Alloc n (MapRet r))) = RPtr p /\ p <> 0.
Proof. exact alloc_succeeds. Qed.
Print Assumptions C01_allocate_succeeds.

(* ---- non-vacuity: a small configuration (slab = superblock = one page, classes 8..64), unaligned map, a history
   that fills a slab of class 64 (62 objects), spills into a second one, drains, reallocs across classes and into
   the large path, with a failing map in between ---- *)
Definition c01_cfg : cfg := mkCfg 4096 4096 4096 4 false true 40 104.
Fixpoint fill (k : nat) (r : N) : list op :=
  match k with O => [] | S k' => Alloc 64 (MapRet r) :: fill k' r end.
Definition demo_ops : list op :=
  fill 62 8192 ++ [Alloc 33 (MapRet 20480); Alloc 64 MapFail;
                   Free 12224; Free 12160; Alloc 50 MapFail;
                   Realloc 12096 3 (MapRet 40960); Realloc 12032 5000 (MapRet 61440);
                   Dealloc 11968 60; GetSize 11904; Write 11904 0 64 7; Realloc 11904 0 MapFail; Free 0].
Example C01_hyps_satisfiable :
  cfg_ok c01_cfg = true /\ policy_ok c01_cfg demo_ops /\ api_ok c01_cfg demo_ops
  /\ length (live (run c01_cfg demo_ops)) = 61%nat /\ length (slabs (run c01_cfg demo_ops)) = 2%nat
  /\ length (larges (run c01_cfg demo_ops)) = 1%nat.
Proof. unfold policy_ok, api_ok. vm_compute. repeat split; reflexivity. Qed.

Example C01_size_class_nonvacuous :
  s2b 32768 = 12 /\ b2s 12 = 32768 /\ s2b 32767 = 12 /\ s2b 16385 = 12 /\ s2b 16384 = 11 /\ s2b 65 = 4 /\ s2b 64 = 3 /\ s2b 1 = 0.
Proof. vm_compute. repeat split; reflexivity. Qed.
