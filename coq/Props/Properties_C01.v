(* placeholder until SlabProofs.v is written *)
From FV Require Import Slab.SlabModel.
