(* C16 (holders part): the lifetime/allocation event log of every op sequence, followed by the
   destruction of all holder variables, is well-formed and closed ([wf_closed], Common/EventLog.v):
   construction only into dead slots, use/destroy only of live objects, every block released exactly
   once, nothing live or allocated at the end.  Statements only; proofs in Holders/*Proofs.v. *)
From Coq Require Import List NArith Arith Bool.
From FV Require Import Common.EventLog Holders.HoldersCommon Holders.OptionalModel Holders.ExpectedModel
  Holders.VariantModel Holders.BoxModel Holders.UniqueModel Holders.TupleModel
  Holders.OptionalProofs Holders.ExpectedProofs Holders.VariantProofs Holders.BoxProofs Holders.UniqueProofs Holders.TupleProofs.
Import ListNotations.
Local Open Scope N_scope.

Theorem C16_optional_log_wf : forall (k : ekind) (n : nat) (ops : list oop),
  wf_closed (snd (orun k (ovars0 n) ops) ++ ofinish (fst (fst (orun k (ovars0 n) ops)))) = true.
Proof. exact optional_log_wf. Qed.
Print Assumptions C16_optional_log_wf.

Example C16_optional_nonvacuous :
  let ops := [ONewVal 0 5; ONew 1; OMAssign 1 0; OAssignVal 0 9; OReset 1] in
  snd (orun KFull (ovars0 2) ops) ++ ofinish (fst (fst (orun KFull (ovars0 2) ops))) =
    [EConstruct sa; EUse sa; EConstruct (sv 0); EDestroy sa;  EUse (sv 0); EConstruct (sv 1);
     EConstruct sa; EUse sa; EConstruct (st 0); EUse (sv 0); EUse (st 0); EDestroy (st 0); EDestroy sa;
     EDestroy (sv 1);  EDestroy (sv 0)] /\
  wf_closed [EConstruct (sv 0); EConstruct (sv 0)] = false /\ wf_closed [EConstruct (sv 0)] = false.
Proof. vm_compute. repeat split; reflexivity. Qed.

Theorem C16_expected_log_wf : forall (k : ekind) (n : nat) (ops : list xop),
  wf_closed (snd (xrun k (xvars0 n) ops) ++ xfinish (fst (fst (xrun k (xvars0 n) ops)))) = true.
Proof. exact expected_log_wf. Qed.
Print Assumptions C16_expected_log_wf.

Example C16_expected_nonvacuous :
  let ops := [XNewVal 0 5; XNewErr 1 3; XAssign 1 0; XMAssign 0 0; XMapError 1] in
  length (snd (xrun KFull (xvars0 2) ops) ++ xfinish (fst (fst (xrun KFull (xvars0 2) ops)))) = 27%nat.
Proof. vm_compute. reflexivity. Qed.

Theorem C16_variant_log_wf : forall (nalt : nat) (k : ekind) (n : nat) (ops : list vop),
  wf_closed (snd (vrun nalt k (vvars0 n) ops) ++ vfinish (fst (fst (vrun nalt k (vvars0 n) ops)))) = true.
Proof. exact variant_log_wf. Qed.
Print Assumptions C16_variant_log_wf.

Example C16_variant_nonvacuous :
  let ops := [VNewVal 0 2 5; VNewVal 1 2 6; VAssign 0 1; VAssignVal 1 2 8; VEmplace 0 0 1; VMAssign 1 0] in
  length (snd (vrun 3 KFull (vvars0 2) ops) ++ vfinish (fst (fst (vrun 3 KFull (vvars0 2) ops)))) = 66%nat.
Proof. vm_compute. reflexivity. Qed.

(* manual_box never destroys its content by itself: the statement is for the documented use
   ([box_api_ok]: the storage of a box goes away only after destruct()). *)
Theorem C16_manual_box_log_wf : forall (n : nat) (ops : list bop), box_api_ok (bvars0 n) ops = true ->
  wf_closed (snd (brun (bvars0 n) ops) ++ bfinish (fst (fst (brun (bvars0 n) ops)))) = true.
Proof. exact box_log_wf. Qed.
Print Assumptions C16_manual_box_log_wf.

Example C16_manual_box_nonvacuous :
  box_api_ok (bvars0 2) [BNew 0; BInit 0 5; BDestruct 0; BDel 0; BNew 1; BInit 1 6] = true /\
  box_api_ok (bvars0 2) [BNew 0; BInit 0 5; BDel 0] = false /\
  wf_closed (snd (brun (bvars0 2) [BNew 0; BInit 0 5; BDel 0]) ++ bfinish (fst (fst (brun (bvars0 2) [BNew 0; BInit 0 5; BDel 0])))) = false.
Proof. vm_compute. repeat split; reflexivity. Qed.

(* unique_ptr (after the D13 fix: destructor and reset run ~T before freeing).
   Order inside reset(p) (unique.hpp:63-71, as std::unique_ptr::reset specifies): the new pointer is stored FIRST, the
   old object is destroyed and freed afterwards.  It is observable through a re-entrant pointee whose destructor resets
   the unique_ptr that held it: op [PResetNewRe] is that case -- the nested reset sees the NEW pointer (and destroys the
   new object), then the old object's destruction completes; every object is destroyed once and every block freed once.
   With the opposite order the nested reset would find the dying object still installed and destroy/free it twice;
   the harness runs every unique_ptr script also with re-entrant pointees (case type uptrre), registries as oracle. *)
Theorem C16_unique_ptr_log_wf : forall (esize : N) (n : nat) (ops : list pop),
  wf_closed (snd (prun esize (pstate0 n) ops) ++ pfinish (fst (fst (prun esize (pstate0 n) ops)))) = true.
Proof. exact unique_ptr_log_wf. Qed.
Print Assumptions C16_unique_ptr_log_wf.

Example C16_unique_ptr_nonvacuous :
  let ops := [PMake 0 5; PNew 1; PMAssign 1 0; PResetNew 1 6; PRelease 1; PMake 2 7] in
  snd (prun 16 (pstate0 3) ops) ++ pfinish (fst (fst (prun 16 (pstate0 3) ops))) =
    [EAlloc 1 16; EConstruct (1%nat, 0%nat);  EAlloc 2 16; EConstruct (2%nat, 0%nat); EDestroy (1%nat, 0%nat); EFree 1;
     EUse (2%nat, 0%nat); EDestroy (2%nat, 0%nat); EFree 2;  EAlloc 3 16; EConstruct (3%nat, 0%nat);
     EDestroy (3%nat, 0%nat); EFree 3] /\
  (* the log of the code before the D13 fix (free without ~T) is not accepted *)
  wf_closed [EAlloc 1 16; EConstruct (1%nat, 0%nat); EFree 1] = false.
Proof. vm_compute. split; reflexivity. Qed.

Example C16_unique_ptr_reentrant_nonvacuous :
  let ops := [PMake 0 5; PResetNewRe 0 6; PGet 0] in
  snd (prun 32 (pstate0 1) ops) =
    [EAlloc 1 32; EConstruct (1%nat, 0%nat);
     EAlloc 2 32; EConstruct (2%nat, 0%nat); EDestroy (2%nat, 0%nat); EFree 2; EDestroy (1%nat, 0%nat); EFree 1] /\
  snd (fst (prun 32 (pstate0 1) ops)) = [RUnit; RUnit; RNone] /\
  (* destroy-first order: the nested reset destroys and frees the dying object a second time -- rejected *)
  wf_closed [EAlloc 1 32; EConstruct (1%nat, 0%nat); EDestroy (1%nat, 0%nat); EFree 1; EDestroy (1%nat, 0%nat); EFree 1] = false.
Proof. vm_compute. repeat split; reflexivity. Qed.

Theorem C16_unique_memory_log_wf : forall (n : nat) (ops : list mop),
  wf_closed (snd (mrun (mstate0 n) ops) ++ mfinish (fst (fst (mrun (mstate0 n) ops)))) = true.
Proof. exact unique_memory_log_wf. Qed.
Print Assumptions C16_unique_memory_log_wf.

Example C16_unique_memory_nonvacuous :
  let ops := [MAlloc 0 16; MAlloc 1 32; MAssign 0 1; MAssign 0 0; MNewMove 2 0] in
  snd (mrun (mstate0 3) ops) ++ mfinish (fst (fst (mrun (mstate0 3) ops))) = [EAlloc 1 16; EAlloc 2 32; EFree 1; EFree 2] /\
  wf_closed [EAlloc 1 16; EFree 1; EFree 1] = false.
Proof. vm_compute. split; reflexivity. Qed.

(* tuple: element construction/destruction order only (members first to last, destroyed last to first) *)
Theorem C16_tuple_elements_log_wf : forall n : nat,
  wf_closed (tup_ctor_evs n ++ map (fun i => EUse (sv i)) (seq 0 n) ++ tup_dtor_evs n) = true.
Proof. exact tuple_elements_log_wf. Qed.
Print Assumptions C16_tuple_elements_log_wf.

Example C16_tuple_nonvacuous :
  tup_ctor_evs 3 ++ tup_dtor_evs 3 =
    [EConstruct (sv 0); EConstruct (sv 1); EConstruct (sv 2); EDestroy (sv 2); EDestroy (sv 1); EDestroy (sv 0)].
Proof. vm_compute. reflexivity. Qed.
