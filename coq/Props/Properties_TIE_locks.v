(* TIE (locks): ticket_spinlock::is_locked / unlock regenerated from include/frg/spinlock.hpp on every run
   (Gen/Cxx_locks.v; single-threaded reading of the atomics) equal Locks/SpinModel.v. *)
From Coq Require Import NArith ZArith.
From FV Require Import CxxLeaf.CxxSem Gen.Cxx_locks CxxLeaf.Tie_locks.
From FV Require Locks.SpinModel.
Local Open Scope N_scope.

Theorem TIE_ticket_is_locked : forall r : SpinModel.treal,
  ticket_is_locked (SpinModel.t_next r) (SpinModel.t_serving r) = Ok (SpinModel.t_is_locked r).
Proof. exact gen_ticket_is_locked_eq_model. Qed.
Print Assumptions TIE_ticket_is_locked.
(* the holder after next_ticket_ wrapped: serving = 2^32 - 1, next = 0 -> locked *)
Example TIE_ticket_is_locked_ex : ticket_is_locked 0 4294967295 = Ok true /\ ticket_is_locked 7 7 = Ok false.
Proof. vm_compute. split; reflexivity. Qed.

Theorem TIE_ticket_unlock : forall (n : nat) (r : SpinModel.treal) (t : SpinModel.tid), (t < n)%nat ->
  SpinModel.t_pc r t = SpinModel.TCrit ->
  ticket_unlock (SpinModel.t_serving r) = Ok (SpinModel.t_serving (SpinModel.trstep n (SpinModel.trstep n r t) t)).
Proof. exact gen_ticket_unlock_eq_model. Qed.
Print Assumptions TIE_ticket_unlock.
Example TIE_ticket_unlock_ex : ticket_unlock 4294967295 = Ok 0 /\ ticket_unlock 41 = Ok 42.
Proof. vm_compute. split; reflexivity. Qed.
