(* TIE_ptr (hashmap): the pointer-level definitions REGENERATED from include/frg/hash_map.hpp on every run
   (Gen/Ptr_hashmap.v, translator/cxx2heap.py: rehash with its three loops, both insert overloads, operator[], get, end,
   find, begin, remove, ~hash_map, iterator::operator++) compute the same outcome (POk / PAssertStop / PNullDeref / PUB /
   POutOfFuel) and the same final state and result as the hand-written pointer-level model HashMap/HashMapPtr.v, for ALL
   states, fuel, arguments and every hash; hence the refinement theorem of C14_ptr holds of the generated definitions.
   Statements only; proofs in PtrGen/Tie_hashmap.v.  The model's C16 event lists are projected away ([fst]): the generated
   code does not produce them.  Reading of the C++ names: PtrGen/Bind_hashmap.v. *)
From Coq Require Import List NArith Arith Bool.
From FV Require Import Common.EventLog HashMap.HashMapModel HashMap.HashMapPtr HashMap.HashMapRefineBase HashMap.HashMapRefine.
From FV Require Import PtrGen.PtrCtl PtrGen.Bind_hashmap Gen.Ptr_hashmap PtrGen.Tie_hashmap.
Import ListNotations.

Section TIE_ptr_hashmap.
Variable hash : N -> N.          (* the user's hasher: any function *)
Variables psz nsz : N.           (* sizeof(chain * ), sizeof(chain): only in the model's events *)

(* void rehash(): the generated loops take the whole state and the (block id, contents) pair of new_table *)
Theorem TIE_ptr_rehash_init : forall fuel nc s nt i,
  g_rehash_loop1 fuel nc s nt i = bind (rehash_init fuel (fst nt) (snd nt) nc i) (fun c => POk (fst nt, c)).
Proof. exact gen_rehash_loop1_eq. Qed.

Theorem TIE_ptr_rehash_chain : forall fuel nc s nt item,
  g_rehash_loop3 hash fuel nc s nt item =
  bind (rehash_chain hash fuel (p_nodes s) (fst nt) (snd nt) nc item)
       (fun r => POk (set_nodes s (fst r), (fst nt, snd r), None)).
Proof. exact (gen_rehash_loop3_eq hash). Qed.

Theorem TIE_ptr_rehash_buckets : forall fuel0 fuel nc s nt i,
  g_rehash_loop2 hash fuel0 fuel nc s nt i =
  bind (rehash_buckets hash fuel0 fuel (p_nodes s) (p_tid s) (p_table s) (p_cap s) (fst nt) (snd nt) nc i)
       (fun r => POk (set_nodes s (fst r), (fst nt, snd r))).
Proof. exact (gen_rehash_loop2_eq hash). Qed.

Theorem TIE_ptr_rehash : forall fuel s,
  g_rehash hash fuel s = bind (p_rehash hash psz fuel s) (fun r => POk (fst r)).
Proof. exact (gen_rehash_eq hash psz). Qed.

Theorem TIE_ptr_insert : forall fuel s k v,
  g_insert hash fuel s k v = bind (p_insert hash psz nsz fuel s k v) (fun r => POk (fst r)).
Proof. exact (gen_insert_eq hash psz nsz). Qed.

Theorem TIE_ptr_insert_move : forall fuel s k v,
  g_insert_move hash fuel s k v = bind (p_insert hash psz nsz fuel s k v) (fun r => POk (fst r)).
Proof. exact (gen_insert_move_eq hash psz nsz). Qed.

(* the three chain walks are the model's one chain_search *)
Theorem TIE_ptr_chain_search : forall fuel k b s item,
  g_index_loop1 fuel k s item =
    bind (chain_search fuel (p_nodes s) k item) (fun r => POk (match r with Some _ => Ret (s, r) | None => Norm tt end)) /\
  g_get_loop1 fuel k s item =
    bind (chain_search fuel (p_nodes s) k item) (fun r => POk (match r with Some _ => Ret r | None => Norm tt end)) /\
  g_find_loop1 fuel k b s item =
    bind (chain_search fuel (p_nodes s) k item) (fun r => POk (match r with Some _ => Ret (b, r) | None => Norm tt end)).
Proof. intros. split; [apply gen_index_loop1_eq | split; [apply gen_get_loop1_eq | apply gen_find_loop1_eq]]. Qed.

(* Value &operator[]: the returned reference is the node whose value it refers to *)
Theorem TIE_ptr_index : forall fuel s k,
  g_index hash fuel s k =
  bind (p_index hash psz nsz fuel s k) (fun r => POk (fst (fst r), Some (snd (fst r)))).
Proof. exact (gen_index_eq hash psz nsz). Qed.

Theorem TIE_ptr_get : forall fuel s k, g_get hash fuel s k = p_get hash fuel s k.
Proof. exact (gen_get_eq hash). Qed.

Theorem TIE_ptr_end : forall s, g_end s = POk (p_end s).
Proof. exact gen_end_eq. Qed.

Theorem TIE_ptr_find : forall fuel s k, g_find hash fuel s k = p_find hash fuel s k.
Proof. exact (gen_find_eq hash). Qed.

Theorem TIE_ptr_begin : forall fuel s, g_begin fuel s = p_begin fuel s.
Proof. exact gen_begin_eq. Qed.

Theorem TIE_ptr_incr : forall fuel s it, g_incr fuel s (fst it) (snd it) = p_incr fuel s it.
Proof. exact gen_incr_eq. Qed.

Theorem TIE_ptr_remove : forall fuel s k,
  g_remove hash fuel s k = bind (p_remove hash nsz fuel s k) (fun r => POk (fst r)).
Proof. exact (gen_remove_eq hash nsz). Qed.

Theorem TIE_ptr_destroy : forall fuel s,
  g_destroy fuel s = bind (p_destroy psz nsz fuel s) (fun r => POk (set_nodes s (fst r))).
Proof. exact (gen_destroy_eq psz nsz). Qed.

(* scripts: [g_run] is HashMapPtr.p_run with the generated member functions in place of the hand-written ones (the
   harness-level glue -- m[k] = v, the begin/!= end/++ loop -- is copied) *)
Theorem TIE_ptr_run : forall fuel ops s,
  g_run hash fuel s ops = bind (p_run hash psz nsz fuel s ops) (fun r => POk (fst r)).
Proof. exact (gen_run_eq hash psz nsz). Qed.

(* COROLLARY (with C14_ptr_history = p_run_history): the GENERATED pointer-level run of any script from the empty map
   ends in POk, its outputs are the chain-level model's outputs, its final state satisfies the representation invariant
   and abstracts to the chain-level final map *)
Theorem TIE_ptr_hashmap_history : forall ops fuel,
  4 * length ops + 21 <= fuel ->
  exists s, g_run hash fuel p_init ops = POk (s, snd (run hash empty_hm ops)) /\
    p_inv s /\ abs s = fst (run hash empty_hm ops).
Proof.
  intros ops fuel H. destruct (p_run_history hash psz nsz ops fuel H) as (s & evs & E & I & A & _).
  exists s. rewrite (gen_run_eq hash psz nsz), E. repeat split; assumption.
Qed.

End TIE_ptr_hashmap.

Print Assumptions TIE_ptr_rehash_init.
Print Assumptions TIE_ptr_rehash_chain.
Print Assumptions TIE_ptr_rehash_buckets.
Print Assumptions TIE_ptr_rehash.
Print Assumptions TIE_ptr_insert.
Print Assumptions TIE_ptr_insert_move.
Print Assumptions TIE_ptr_chain_search.
Print Assumptions TIE_ptr_index.
Print Assumptions TIE_ptr_get.
Print Assumptions TIE_ptr_end.
Print Assumptions TIE_ptr_find.
Print Assumptions TIE_ptr_begin.
Print Assumptions TIE_ptr_incr.
Print Assumptions TIE_ptr_remove.
Print Assumptions TIE_ptr_destroy.
Print Assumptions TIE_ptr_run.
Print Assumptions TIE_ptr_hashmap_history.

(* ---- non-vacuity: the GENERATED functions run on concrete heaps by vm_compute ---- *)
Definition hid (k : N) : N := k.
Definition ex_ops : list op :=
  [Insert 3 30; Insert 13 31; Insert 23 32; IndexSet 4 40; IndexSet 3 33; Get 13; Get 5; Remove 13; Remove 99; Iterate;
   Insert 1 1; Insert 2 2; Insert 5 5; Insert 6 6; Insert 7 7; Insert 8 8; Insert 9 9; Insert 10 10; Size; Iterate].
Definition ex_fuel : nat := 4 * length ex_ops + 21.

(* the whole script: same final state and outputs as the hand-written model; 11 entries, capacity 20 after the second rehash *)
Example TIE_ptr_run_ex :
  match g_run hid ex_fuel p_init ex_ops, p_run hid 8%N 40%N ex_fuel p_init ex_ops with
  | POk (s, outs), POk (s', outs', _) =>
      p_size s = 11 /\ p_cap s = 20 /\ outs = outs' /\ p_table s = p_table s' /\ p_tid s = p_tid s' /\ p_next s = p_next s' /\
      map (p_nodes s) (seq 0 (p_next s)) = map (p_nodes s') (seq 0 (p_next s))
  | _, _ => False
  end.
Proof. vm_compute. repeat split; reflexivity. Qed.

(* three keys in one bucket (3, 13, 23 mod 10), head insertion; get / find / operator[] / remove walk the chain *)
Definition st3 : pstate :=
  match g_run hid ex_fuel p_init [Insert 3 30; Insert 13 31; Insert 23 32] with POk (s, _) => s | _ => p_init end.
Example TIE_ptr_chain_ex :
  nth 3 (p_table st3) None = Some 4 /\ p_nodes st3 4 = Some (mk_pnode 23 32 (Some 3)) /\
  g_get hid 5 st3 3 = POk (Some 2) /\ g_find hid 5 st3 13 = POk (3, Some 3) /\ g_find hid 5 st3 7 = POk (10, None) /\
  g_get hid 2 st3 3 = POutOfFuel /\
  match g_remove hid 5 st3 13 with
  | POk (s, v) => v = Some 31%N /\ p_size s = 2 /\ p_nodes s 3 = None /\ p_nodes s 4 = Some (mk_pnode 23 32 (Some 2))
  | _ => False
  end /\
  match g_index hid 50 st3 4 with POk (s, r) => r = Some 5 /\ p_nodes s 5 = Some (mk_pnode 4 0 None) | _ => False end.
Proof. vm_compute. repeat split; reflexivity. Qed.

(* rehash of st3 (3 entries -> capacity 10 again): block 5 is the new table, every chain is reversed *)
Example TIE_ptr_rehash_ex :
  match g_rehash hid 20 st3 with
  | POk s => p_tid s = 5 /\ p_cap s = 10 /\ p_next s = 6 /\ nth 3 (p_table s) None = Some 2 /\
             p_nodes s 2 = Some (mk_pnode 3 30 (Some 3)) /\ p_nodes s 4 = Some (mk_pnode 23 32 None)
  | _ => False
  end /\ g_rehash hid 3 st3 = POutOfFuel.
Proof. vm_compute. repeat split; reflexivity. Qed.

(* begin / operator++ / end; the four bad outcomes on states violating the invariant *)
Example TIE_ptr_iter_ex :
  g_begin 20 st3 = POk (3, Some 4) /\ g_incr 20 st3 3 (Some 4) = POk (3, Some 3) /\
  g_incr 20 st3 3 (Some 2) = POk (10, None) /\ g_incr 20 st3 3 None = PAssertStop /\
  g_begin 20 (set_size p_init 1) = PAssertStop /\                                    (* FRG_ASSERT(!"hash_map corrupted") *)
  g_get hid 5 (set_size p_init 1) 7 = PUB /\                                         (* % _capacity with _capacity == 0 *)
  g_get hid 5 (mk_pstate (fun _ => None) [] 0 10 1 1) 7 = PNullDeref /\              (* _table == nullptr *)
  match g_destroy 20 st3 with POk s => map (p_nodes s) (seq 0 6) = repeat None 6 | _ => False end.
Proof. vm_compute. repeat split; reflexivity. Qed.

Example TIE_ptr_hashmap_history_instance :
  exists s, g_run hid ex_fuel p_init ex_ops = POk (s, snd (run hid empty_hm ex_ops)) /\ p_inv s.
Proof.
  destruct (TIE_ptr_hashmap_history hid 8%N 40%N ex_ops ex_fuel (le_n _)) as (s & E & I & _). exists s. split; assumption.
Qed.
