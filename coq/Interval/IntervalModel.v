(* IntervalModel.v — executable Gallina model of frg::interval_tree (include/frg/interval_tree.hpp) on top of
   the red-black tree model Rb/RbModel.v (include/frg/rbtree.hpp with its aggregator support).
   Definitions only, no proofs.

   * the Rb instance: element = (lo, hi, id) with N endpoints, comparator lb_less = "lower(x) < lower(y)",
     annotation = interval_hook::subtree_max, [iagg] = aggregator::aggregate (the value it stores);
   * [ovl] = _for_overlaps_in_subtree, INCLUDING its boolean result, the order self / left / right of the
     callbacks and the pruning rule exactly as written in the source; [for_overlaps] = the two-argument
     for_overlaps (null root: nothing), [for_point] = the one-argument form;
   * a zipper model of the ancestor chain for rbtree.hpp's aggregate_path WITH its early stop ([path_early]) and the
     same walk without it ([path_full], which is what the functional Rb model does through [mk]);
     [aggregate_path_at] runs either on a node of a tree (located by identity), [set_elt] overwrites the element of
     a node in place (the user changing upper(node) before calling aggregate_path), [remk] re-aggregates everything. *)
From Coq Require Import NArith List Bool.
From FV Require Import Rb.RbModel.
Import ListNotations.
Local Open Scope N_scope.

(* ---------------------------------------------------------------------------------------------
   the instance *)
Definition ielt := (N * N * N)%type.            (* (lower, upper, node identity) *)
Definition ilo (e : ielt) : N := fst (fst e).
Definition ihi (e : ielt) : N := snd (fst e).
Definition iid (e : ielt) : N := snd e.
Definition mkI (lo hi id : N) : ielt := (lo, hi, id).

(* lb_less *)
Definition iless (a b : ielt) : bool := ilo a <? ilo b.

(* aggregator::aggregate: new_max = upper(node); if(left && new_max < left->subtree_max) new_max = ...;
   if(right && new_max < right->subtree_max) new_max = ...   (the value stored; its boolean result
   "changed" is [negb (N.eqb new stored)], used by [path_early]) *)
Definition iagg (x : ielt) (l r : option N) : N :=
  let m0 := ihi x in
  let m1 := match l with Some a => if m0 <? a then a else m0 | None => m0 end in
  match r with Some a => if m1 <? a then a else m1 | None => m1 end.

Definition itree := tree ielt N.

(* interval_tree::insert: FRG_ASSERT(lower <= upper) (None = stopped in the assertion hook);
   subtree_max = upper(node) is what [mk] computes for the new leaf *)
Definition iinsert (x : ielt) (t : itree) : option itree :=
  if ilo x <=? ihi x then Some (insert iless iagg x t) else None.
Definition iremove (i : N) (t : itree) : itree := remove iid iagg i t.

(* ---------------------------------------------------------------------------------------------
   _for_overlaps_in_subtree(fn, lb, ub, node): the list of nodes passed to fn, in call order, and the result.
   The C++ is never called on a null node (callers test); [ovl _ _ E = ([], false)] makes the guards
   "if(left)" / "if(right)" / "else if(right)" no-ops, they are still written out below. *)
Definition hit (lb ub : N) (x : ielt) : bool :=
  ((ilo x <=? lb) && (lb <=? ihi x)) || ((lb <=? ilo x) && (ilo x <=? ub)).

Definition nonnull (t : itree) : bool := match t with E => false | T _ _ _ _ _ => true end.

Fixpoint ovl (lb ub : N) (t : itree) : list ielt * bool :=
  match t with
  | E => ([], false)
  | T _ l x _ r =>
      if hit lb ub x then
        (* fn(node); if(left) recurse; if(right) recurse; return true *)
        (x :: (if nonnull l then fst (ovl lb ub l) else [])
           ++ (if nonnull r then fst (ovl lb ub r) else []), true)
      else if (match l with T _ _ _ lmax _ => lb <=? lmax | E => false end) then
        (* if(left && lb <= h(left)->subtree_max) *)
        let '(ol, fl) := ovl lb ub l in
        if fl then (ol ++ (if nonnull r then fst (ovl lb ub r) else []), true)
        else (ol, false)
      else if nonnull r then
        (* else if(right) { if(recurse(right)) return true; }  return false *)
        let '(orr, fr) := ovl lb ub r in
        if fr then (orr, true) else (orr, false)
      else ([], false)
  end.

(* for_overlaps(fn, lb, ub): root null -> nothing *)
Definition for_overlaps_nodes (lb ub : N) (t : itree) : list ielt :=
  match t with E => [] | T _ _ _ _ _ => fst (ovl lb ub t) end.
Definition for_overlaps (lb ub : N) (t : itree) : list N := map iid (for_overlaps_nodes lb ub t).
(* for_overlaps(fn, singleton) *)
Definition for_point (p : N) (t : itree) : list N := for_overlaps p p t.

(* the subtree_max field of every member, in in-order *)
Fixpoint maxes (t : itree) : list (N * N) :=
  match t with E => [] | T _ l x a r => maxes l ++ (iid x, a) :: maxes r end.

(* ---------------------------------------------------------------------------------------------
   aggregate_path on a zipper.  A frame is an ancestor seen from the child the walk comes from:
   side of that child, the ancestor's colour / element / STORED annotation, and its other subtree. *)
Section Path.
  Variables elt annot : Type.
  Variable id_of : elt -> N.
  Variable agg : elt -> option annot -> option annot -> annot.
  Variable aeqb : annot -> annot -> bool.
  Notation tree := (tree elt annot).

  Inductive cframe := CF (sd : side) (c : color) (x : elt) (a : annot) (sib : tree).
  Definition chain := list cframe.      (* innermost (lowest) ancestor first *)

  Definition stored (f : cframe) : annot := let 'CF _ _ _ a _ := f in a.
  Definition set_stored (f : cframe) (a' : annot) : cframe := let 'CF sd c x _ sib := f in CF sd c x a' sib.
  (* A::aggregate(current) computes this from the children's stored values *)
  Definition recompute (f : cframe) (below : option annot) : annot :=
    let 'CF sd _ x _ sib := f in
    match sd with SL => agg x below (ann sib) | SR => agg x (ann sib) below end.

  (* the whole chain recomputed bottom-up (what [mk] on every level of the functional model does) *)
  Fixpoint path_full (below : option annot) (ch : chain) : chain :=
    match ch with
    | [] => []
    | f :: rest => let a' := recompute f below in set_stored f a' :: path_full (Some a') rest
    end.

  (* aggregate_path: while(current) { if(!A::aggregate(current)) break; current = parent; }
     aggregate returns false -- and stores nothing -- iff the new value equals the stored one *)
  Fixpoint path_early (below : option annot) (ch : chain) : chain :=
    match ch with
    | [] => []
    | f :: rest =>
        let a' := recompute f below in
        if aeqb a' (stored f) then f :: rest
        else set_stored f a' :: path_early (Some a') rest
    end.

  Definition plug1 (t : tree) (f : cframe) : tree :=
    match f with CF SL c x a sib => T c t x a sib | CF SR c x a sib => T c sib x a t end.
  Definition plug (t : tree) (ch : chain) : tree := fold_left plug1 ch t.

  (* find the node with identity i (both subtrees: duplicates of the key cannot name a node) *)
  Fixpoint locate (i : N) (t : tree) (k : chain) : option (tree * chain) :=
    match t with
    | E => None
    | T c l x a r =>
        if N.eqb (id_of x) i then Some (t, k)
        else match locate i l (CF SL c x a r :: k) with
             | Some p => Some p
             | None => locate i r (CF SR c x a l :: k)
             end
    end.

  (* tree.aggregate_path(node i): the node itself is the first frame (seen from its left child) *)
  Definition aggregate_path_at (early : bool) (i : N) (t : tree) : tree :=
    match locate i t [] with
    | Some (T c l x a r, k) =>
        plug l ((if early then path_early else path_full) (ann l) (CF SL c x a r :: k))
    | _ => t
    end.

  (* overwrite the element of node i in place; nothing is re-aggregated *)
  Definition set_elt (i : N) (x' : elt) (t : tree) : tree :=
    match locate i t [] with
    | Some (T c l _ a r, k) => plug (T c l x' a r) k
    | _ => t
    end.

  (* aggregate_node on every node, children first *)
  Fixpoint remk (t : tree) : tree :=
    match t with E => E | T c l x _ r => mk agg c (remk l) x (remk r) end.
End Path.

Arguments CF {elt annot} sd c x a sib.
Arguments stored {elt annot} f.
Arguments set_stored {elt annot} f a'.
Arguments recompute {elt annot} agg f below.
Arguments path_full {elt annot} agg below ch.
Arguments path_early {elt annot} agg aeqb below ch.
Arguments plug1 {elt annot} t f.
Arguments plug {elt annot} t ch.
Arguments locate {elt annot} id_of i t k.
Arguments aggregate_path_at {elt annot} id_of agg aeqb early i t.
Arguments set_elt {elt annot} id_of i x' t.
Arguments remk {elt annot} agg t.

(* the interval instance of the path operations *)
Definition iaggregate_path (early : bool) (i : N) (t : itree) : itree :=
  aggregate_path_at iid iagg N.eqb early i t.
(* the user overwrites upper(node i) := hi' (lower unchanged, so the order is kept) *)
Definition iset_hi (i hi' : N) (t : itree) : itree :=
  match locate iid i t [] with
  | Some (T _ _ x _ _, _) => set_elt iid i (mkI (ilo x) hi' (iid x)) t
  | _ => t
  end.
Definition iremk (t : itree) : itree := remk iagg t.
