(* IntervalOrder.v — C07 for ANY endpoint type: the interval tree model and its theorems over a Section whose only
   assumptions about the endpoint type P are a total preorder [leb] (total, transitive) and [ltb a b = negb (leb b a)].
   interval_tree<T, P, ...> is a template in P and only ever compares endpoints (<, <=) -- no arithmetic, no neutral
   element.  Signed integers with negative bounds (instance Z below) and floating-point numbers without NaN are inside
   this quantifier; the extracted model of IntervalModel.v is the instance P = N (agreement lemmas at the end), which is
   what the correspondence check runs (signed / double endpoints of the harness go through an order-isomorphic code).
   Nothing here relies on a least element: the maximum of an empty subtree is "absent" (option), as in the C++. *)
From Coq Require Import NArith ZArith List Bool Sorted Permutation Lia.
From FV Require Import Rb.RbModel Rb.RbInorder Rb.RbInvariant Rb.RbLayout Rb.RbHistory Rb.RbAnnot Interval.IntervalModel.
Import ListNotations.

Section Order.
  Variable P : Type.
  Variables leb ltb : P -> P -> bool.
  Hypothesis leb_total : forall a b, leb a b = true \/ leb b a = true.
  Hypothesis leb_trans : forall a b c, leb a b = true -> leb b c = true -> leb a c = true.
  Hypothesis ltb_leb : forall a b, ltb a b = negb (leb b a).

  (* ---- the model, word for word IntervalModel.v with (leb, ltb) for (N.leb, N.ltb) *)
  Definition gelt := (P * P * N)%type.
  Definition glo (e : gelt) : P := fst (fst e).
  Definition ghi (e : gelt) : P := snd (fst e).
  Definition gid (e : gelt) : N := snd e.
  Definition gless (a b : gelt) : bool := ltb (glo a) (glo b).
  Definition gagg (x : gelt) (l r : option P) : P :=
    let m0 := ghi x in
    let m1 := match l with Some a => if ltb m0 a then a else m0 | None => m0 end in
    match r with Some a => if ltb m1 a then a else m1 | None => m1 end.
  Definition gtree := tree gelt P.
  Definition ginsert (x : gelt) (t : gtree) : option gtree :=
    if leb (glo x) (ghi x) then Some (insert gless gagg x t) else None.
  Definition gremove (i : N) (t : gtree) : gtree := remove gid gagg i t.

  Definition ghit (lb ub : P) (x : gelt) : bool :=
    (leb (glo x) lb && leb lb (ghi x)) || (leb lb (glo x) && leb (glo x) ub).
  Definition gnonnull (t : gtree) : bool := match t with E => false | T _ _ _ _ _ => true end.
  Fixpoint govl (lb ub : P) (t : gtree) : list gelt * bool :=
    match t with
    | E => ([], false)
    | T _ l x _ r =>
        if ghit lb ub x then
          (x :: (if gnonnull l then fst (govl lb ub l) else [])
             ++ (if gnonnull r then fst (govl lb ub r) else []), true)
        else if (match l with T _ _ _ lmax _ => leb lb lmax | E => false end) then
          let '(ol, fl) := govl lb ub l in
          if fl then (ol ++ (if gnonnull r then fst (govl lb ub r) else []), true)
          else (ol, false)
        else if gnonnull r then
          let '(orr, fr) := govl lb ub r in
          if fr then (orr, true) else (orr, false)
        else ([], false)
    end.
  Definition gfor_overlaps_nodes (lb ub : P) (t : gtree) : list gelt :=
    match t with E => [] | T _ _ _ _ _ => fst (govl lb ub t) end.
  Definition gfor_overlaps (lb ub : P) (t : gtree) : list N := map gid (gfor_overlaps_nodes lb ub t).

  (* ---- order facts *)
  Lemma leb_refl a : leb a a = true.
  Proof. destruct (leb_total a a); assumption. Qed.
  Lemma leb_false a b : leb a b = false -> leb b a = true.
  Proof. intros H. destruct (leb_total a b) as [H'|H']; [congruence|exact H']. Qed.
  Lemma ltb_false a b : ltb a b = false -> leb b a = true.
  Proof. rewrite ltb_leb. destruct (leb b a); [reflexivity|discriminate]. Qed.
  Lemma ltb_true a b : ltb a b = true -> leb a b = true /\ leb b a = false.
  Proof. rewrite ltb_leb. destruct (leb b a) eqn:E0; [discriminate|]. intros _. split; [apply leb_false, E0|reflexivity]. Qed.

  (* saturate the context with the consequences of totality and transitivity *)
  Ltac sat :=
    repeat match goal with
      | H : leb ?a ?b = false |- _ =>
          lazymatch goal with _ : leb b a = true |- _ => fail | _ => pose proof (leb_false _ _ H) end
      | H1 : leb ?a ?b = true, H2 : leb ?b ?c = true |- _ =>
          lazymatch goal with _ : leb a c = true |- _ => fail | _ => pose proof (leb_trans _ _ _ H1 H2) end
      end.
  Ltac ord := sat; first [assumption | congruence].

  Lemma gless_asym a b : gless a b = true -> gless b a = false.
  Proof.
    unfold gless. intros H. apply ltb_true in H. destruct H as [H1 H2]. rewrite ltb_leb, H1. reflexivity.
  Qed.
  Lemma gless_negtrans a b c : gless a b = false -> gless b c = false -> gless a c = false.
  Proof.
    unfold gless. intros H1 H2. apply ltb_false in H1, H2. rewrite ltb_leb.
    rewrite (leb_trans _ _ _ H2 H1). reflexivity.
  Qed.

  (* ---- 1. the annotation: [a] is a maximum of the upper bounds of [l] (an upper bound that is attained) *)
  Definition is_max (a : P) (l : list gelt) : Prop :=
    (forall e, In e l -> leb (ghi e) a = true) /\ exists e, In e l /\ ghi e = a.
  Fixpoint gexact (t : gtree) : Prop :=
    match t with
    | E => True
    | T _ l x a r => is_max a (inorder l ++ x :: inorder r) /\ gexact l /\ gexact r
    end.
  Definition omax_ok (o : option P) (l : list gelt) : Prop :=
    match o with None => l = [] | Some a => is_max a l end.

  Lemma ann_omax (t : gtree) : gexact t -> omax_ok (ann t) (inorder t).
  Proof. destruct t as [|c l x a r]; cbn [ann omax_ok inorder gexact]; [reflexivity|tauto]. Qed.

  Lemma is_max_single x : is_max (ghi x) [x].
  Proof.
    split.
    - intros e [<-|[]]. apply leb_refl.
    - exists x. split; [left; reflexivity|reflexivity].
  Qed.

  (* one step of aggregate: candidate maximum m of the elements seen so far, next child annotation o *)
  Lemma step_max m (seen : list gelt) o (l : list gelt) : is_max m seen -> omax_ok o l ->
    is_max (match o with Some a => if ltb m a then a else m | None => m end) (seen ++ l).
  Proof.
    intros [Hub (w & Hw & Hwe)] Ho. destruct o as [a|]; cbn [omax_ok] in Ho.
    - destruct Ho as [Hub' (w' & Hw' & Hwe')]. destruct (ltb m a) eqn:Hc.
      + apply ltb_true in Hc. destruct Hc as [Hc _]. split.
        * intros e He. apply in_app_or in He. destruct He as [He|He]; [|apply Hub', He].
          eapply leb_trans; [apply Hub, He|exact Hc].
        * exists w'. split; [apply in_or_app; right; exact Hw'|exact Hwe'].
      + apply ltb_false in Hc. split.
        * intros e He. apply in_app_or in He. destruct He as [He|He]; [apply Hub, He|].
          eapply leb_trans; [apply Hub', He|exact Hc].
        * exists w. split; [apply in_or_app; left; exact Hw|exact Hwe].
    - subst l. rewrite app_nil_r. split; [exact Hub|]. exists w. auto.
  Qed.

  Lemma is_max_perm a l l' : Permutation l l' -> is_max a l -> is_max a l'.
  Proof.
    intros Hp [Hub (w & Hw & Hwe)]. split.
    - intros e He. apply Hub. eapply Permutation_in; [apply Permutation_sym, Hp|exact He].
    - exists w. split; [eapply Permutation_in; [exact Hp|exact Hw]|exact Hwe].
  Qed.

  Lemma gagg_is_max x ol orr (ll lr : list gelt) : omax_ok ol ll -> omax_ok orr lr ->
    is_max (gagg x ol orr) (ll ++ x :: lr).
  Proof.
    intros Hl Hr. unfold gagg. cbv zeta.
    pose proof (step_max _ _ ol ll (is_max_single x) Hl) as H1.
    pose proof (step_max _ _ orr lr H1 Hr) as H2.
    eapply is_max_perm; [|exact H2].
    replace (ll ++ x :: lr) with ((ll ++ [x]) ++ lr) by (rewrite <- app_assoc; reflexivity).
    apply Permutation_app_tail. apply (Permutation_cons_append ll x).
  Qed.

  Theorem gann_ok_exact (t : gtree) : ann_ok gagg t -> gexact t.
  Proof.
    induction t as [|c l IHl x a r IHr]; cbn [ann_ok gexact]; [tauto|].
    intros (Ha & Hl & Hr). specialize (IHl Hl). specialize (IHr Hr). split; [|tauto].
    rewrite Ha. apply gagg_is_max; apply ann_omax; assumption.
  Qed.

  (* ---- 2. the search *)
  Definition gspec (lb ub : P) (e : gelt) : bool := leb (glo e) ub && leb lb (ghi e).
  Definition gwf (e : gelt) : Prop := leb (glo e) (ghi e) = true.

  Lemma ghit_spec lb ub x : leb lb ub = true -> gwf x -> ghit lb ub x = gspec lb ub x.
  Proof.
    unfold ghit, gspec, gwf. intros Hq Hw.
    destruct (leb (glo x) lb) eqn:E1; destruct (leb lb (ghi x)) eqn:E2;
      destruct (leb lb (glo x)) eqn:E3; destruct (leb (glo x) ub) eqn:E4; cbn; try reflexivity; exfalso; ord.
  Qed.

  Lemma govl_guard lb ub (t : gtree) : (if gnonnull t then fst (govl lb ub t) else []) = fst (govl lb ub t).
  Proof. destruct t; reflexivity. Qed.
  Lemma govl_right_guard lb ub (r : gtree) :
    (if gnonnull r then let '(orr, fr) := govl lb ub r in if fr then (orr, true) else (orr, false) else ([], false))
    = govl lb ub r.
  Proof. destruct r as [|c l x a r']; [reflexivity|]. cbn [gnonnull]. destruct (govl lb ub (T c l x a r')) as [o []]; reflexivity. Qed.

  Lemma gfilter_none {A} (f : A -> bool) l : (forall e, In e l -> f e = false) -> filter f l = [].
  Proof.
    induction l as [|y l IH]; cbn [filter]; [reflexivity|]. intros H.
    rewrite (H y (or_introl eq_refl)). apply IH. intros e He. apply H. right. exact He.
  Qed.
  Lemma gfilter_nil_none {A} (f : A -> bool) l e : filter f l = [] -> In e l -> f e = false.
  Proof.
    intros Hf He. destruct (f e) eqn:E0; [|reflexivity].
    assert (In e (filter f l)) by (apply filter_In; auto). rewrite Hf in H. destruct H.
  Qed.

  Lemma gsorted_le_lo a b : le gless a b -> leb (glo a) (glo b) = true.
  Proof. unfold le, gless. apply ltb_false. Qed.

  Definition ggo_left (lb : P) (l : gtree) : bool := match l with T _ _ _ lmax _ => leb lb lmax | E => false end.

  Lemma ggo_left_true lb l : gexact l -> ggo_left lb l = true -> exists e, In e (inorder l) /\ leb lb (ghi e) = true.
  Proof.
    destruct l as [|c ll x a lr]; cbn [ggo_left]; [discriminate|]. intros (Hm & _ & _) Hlb.
    destruct Hm as (_ & e & He & Hea). exists e. split; [exact He|]. rewrite Hea. exact Hlb.
  Qed.
  Lemma ggo_left_false lb l : gexact l -> ggo_left lb l = false -> forall e, In e (inorder l) -> leb lb (ghi e) = false.
  Proof.
    destruct l as [|c ll x a lr]; cbn [ggo_left]; [intros _ _ e []|]. intros (Hm & _ & _) Hlb e He.
    destruct Hm as (Hub & _). specialize (Hub e He). destruct (leb lb (ghi e)) eqn:E0; [|reflexivity]. exfalso. ord.
  Qed.

  Theorem govl_correct lb ub (t : gtree) : leb lb ub = true ->
    sorted gless (inorder t) -> gexact t -> Forall gwf (inorder t) ->
    Permutation (fst (govl lb ub t)) (filter (gspec lb ub) (inorder t))
    /\ (snd (govl lb ub t) = false -> filter (gspec lb ub) (inorder t) = [])
    /\ (snd (govl lb ub t) = true -> filter (gspec lb ub) (inorder t) <> []).
  Proof.
    intros Hq. induction t as [|c l IHl x a r IHr]; intros Hs Hx Hw.
    - cbn. repeat split; auto. discriminate.
    - cbn [inorder] in *. apply sorted_app_inv in Hs. destruct Hs as (Sl & Sr & Fl & Fr).
      cbn [gexact] in Hx. destruct Hx as (Ha & Xl & Xr).
      apply Forall_app in Hw. destruct Hw as (Wl & Wxr). inversion Wxr as [|? ? Wx Wr]; subst.
      specialize (IHl Sl Xl Wl). specialize (IHr Sr Xr Wr).
      destruct IHl as (Pl & Nl & Tl). destruct IHr as (Pr & Nr & Tr).
      rewrite filter_app. cbn [filter].
      cbn [govl]. rewrite !govl_guard. fold (ggo_left lb l). rewrite govl_right_guard.
      rewrite (ghit_spec lb ub x Hq Wx).
      destruct (gspec lb ub x) eqn:Hx.
      + cbn [fst snd]. split; [|split].
        * apply Permutation_cons_app. apply Permutation_app; assumption.
        * discriminate.
        * intros _ H. apply app_eq_nil in H. destruct H as [_ H]. discriminate.
      + destruct (ggo_left lb l) eqn:Hg.
        * destruct (govl lb ub l) as [ol fl] eqn:El. cbn [fst snd] in *.
          destruct fl.
          -- cbn [fst snd]. split; [|split].
             ++ apply Permutation_app; assumption.
             ++ discriminate.
             ++ intros _ H. apply app_eq_nil in H. destruct H as [H _]. exact (Tl eq_refl H).
          -- cbn [fst snd]. specialize (Nl eq_refl).
             destruct (ggo_left_true lb l Xl Hg) as (e & He & Hlb).
             pose proof (gfilter_nil_none _ _ e Nl He) as Hne. unfold gspec in Hne.
             rewrite Hlb, andb_true_r in Hne.
             rewrite Forall_forall in Fl, Fr.
             pose proof (gsorted_le_lo _ _ (Fl e He)) as Hex.
             assert (Hr : filter (gspec lb ub) (inorder r) = []).
             { apply gfilter_none. intros z Hz. pose proof (gsorted_le_lo _ _ (Fr z Hz)) as Hxz.
               unfold gspec. destruct (leb (glo z) ub) eqn:E0; [|reflexivity]. exfalso. ord. }
             rewrite Nl, Hr. cbn [app]. split; [|split].
             ++ rewrite Nl in Pl. exact Pl.
             ++ reflexivity.
             ++ discriminate.
        * assert (Hl : filter (gspec lb ub) (inorder l) = []).
          { apply gfilter_none. intros e He. unfold gspec. rewrite (ggo_left_false lb l Xl Hg e He). apply andb_false_r. }
          rewrite Hl. cbn [app]. split; [exact Pr|]. split; [exact Nr|exact Tr].
  Qed.

  Lemma gnodup_filter_ids (f : gelt -> bool) l : NoDup (ids gid l) -> NoDup (ids gid (filter f l)).
  Proof.
    induction l as [|e l IH]; cbn [filter ids map]; intros Hn; [constructor|].
    inversion Hn as [|? ? Hni Hn']; subst. destruct (f e); cbn [map]; [|auto].
    constructor; [|apply IH, Hn']. intros Hin. apply Hni.
    unfold ids in *. apply in_map_iff in Hin. destruct Hin as (z & Hz & Hin). apply filter_In in Hin.
    apply in_map_iff. exists z. tauto.
  Qed.

  Theorem goverlaps_exact lb ub (t : gtree) :
    sorted gless (inorder t) -> gexact t -> Forall gwf (inorder t) -> NoDup (ids gid (inorder t)) -> leb lb ub = true ->
    Permutation (gfor_overlaps_nodes lb ub t) (filter (gspec lb ub) (inorder t))
    /\ Permutation (gfor_overlaps lb ub t) (map gid (filter (gspec lb ub) (inorder t)))
    /\ NoDup (gfor_overlaps lb ub t).
  Proof.
    intros Hs Hx Hw Hn Hq.
    assert (Pm : Permutation (gfor_overlaps_nodes lb ub t) (filter (gspec lb ub) (inorder t))).
    { unfold gfor_overlaps_nodes. destruct t as [|c l x a r]; [constructor|].
      apply (govl_correct lb ub _ Hq Hs Hx Hw). }
    split; [exact Pm|]. unfold gfor_overlaps.
    split; [apply Permutation_map, Pm|].
    eapply Permutation_NoDup; [apply Permutation_sym, Permutation_map, Pm|].
    apply (gnodup_filter_ids _ _ Hn).
  Qed.

  (* ---- 3. histories *)
  Definition gstep (ot : option gtree) (o : op gelt) : option gtree :=
    match ot with
    | None => None
    | Some t => match o with OIns x => ginsert x t | ORem i => Some (gremove i t) end
    end.
  Definition grun (ops : list (op gelt)) : option gtree := fold_left gstep ops (Some E).
  Definition gop_wf (o : op gelt) : Prop := match o with OIns x => gwf x | ORem _ => True end.

  Lemma gstep_none ops : fold_left gstep ops None = None.
  Proof. induction ops as [|o ops IH]; cbn [fold_left gstep]; auto. Qed.

  Lemma grun_rb ops (t0 : gtree) :
    Forall gop_wf ops -> fold_left gstep ops (Some t0) = Some (fold_left (rb_step gid gless gagg) ops t0).
  Proof.
    revert t0. induction ops as [|o ops IH]; intros t0 Hw; cbn [fold_left]; [reflexivity|].
    inversion Hw as [|? ? Ho Hw']; subst. destruct o as [x|i]; cbn [gstep rb_step].
    - unfold ginsert. cbn [gop_wf] in Ho. unfold gwf in Ho. rewrite Ho. apply IH, Hw'.
    - apply IH, Hw'.
  Qed.
  Lemma grun_some_wf ops (t0 t : gtree) : fold_left gstep ops (Some t0) = Some t -> Forall gop_wf ops.
  Proof.
    revert t0. induction ops as [|o ops IH]; intros t0 H; [constructor|]. cbn [fold_left] in H.
    destruct o as [x|i]; cbn [gstep] in H.
    - unfold ginsert in H. destruct (leb (glo x) (ghi x)) eqn:E0.
      + constructor; [exact E0|]. eapply IH, H.
      + rewrite gstep_none in H. discriminate.
    - constructor; [exact I|]. eapply IH, H.
  Qed.

  Lemma glist_step_wf l o : Forall gwf l -> gop_wf o -> Forall gwf (list_step gid gless l o).
  Proof.
    intros Hl Ho. destruct o as [x|i]; cbn [list_step].
    - cbn [gop_wf] in Ho. induction l as [|y l IH]; cbn [ins_stable]; [repeat constructor; exact Ho|].
      inversion Hl; subst. destruct (gless x y); repeat constructor; auto.
    - rewrite Forall_forall in *. intros e He. apply filter_In in He. apply Hl, He.
  Qed.
  Lemma ghistory_wf ops l : Forall gwf l -> Forall gop_wf ops -> Forall gwf (fold_left (list_step gid gless) ops l).
  Proof.
    revert l. induction ops as [|o ops IH]; intros l Hl Hw; cbn [fold_left]; [exact Hl|].
    inversion Hw; subst. apply IH; [apply glist_step_wf; assumption|assumption].
  Qed.
  Lemma ghistory_ann ops (t : gtree) : ann_ok gagg t -> ann_ok gagg (fold_left (rb_step gid gless gagg) ops t).
  Proof.
    revert t. induction ops as [|o ops IH]; intros t H; cbn [fold_left]; [exact H|].
    apply IH. destruct o; cbn [rb_step]; [apply (insert_ann _ _ gid)|apply (remove_ann _ _ gid gless)]; exact H.
  Qed.

  Theorem ghistory (ops : list (op gelt)) (t : gtree) :
    ids_fresh gid gless ops -> grun ops = Some t ->
    inorder t = fold_left (list_step gid gless) ops []
    /\ sorted gless (inorder t) /\ NoDup (ids gid (inorder t)) /\ Forall gwf (inorder t)
    /\ rb t /\ (height t <= 2 * Nat.log2 (size t + 1))%nat
    /\ gexact t
    /\ forall lb ub, leb lb ub = true ->
         Permutation (gfor_overlaps lb ub t) (map gid (filter (gspec lb ub) (inorder t)))
         /\ NoDup (gfor_overlaps lb ub t).
  Proof.
    intros Hok Hrun. unfold grun in Hrun.
    pose proof (grun_some_wf _ _ _ Hrun) as Hw. pose proof (grun_rb ops E Hw) as R.
    assert (t = fold_left (rb_step gid gless gagg) ops E) as -> by (unfold gtree in *; congruence). clear R Hrun.
    destruct (history_all gelt P gid gless gagg gless_asym gless_negtrans ops Hok) as (A & B & C & D & F & _).
    set (t := fold_left (rb_step gid gless gagg) ops E) in *.
    assert (W : Forall gwf (inorder t)) by (rewrite A; apply ghistory_wf; [constructor|exact Hw]).
    assert (X : gexact t) by (apply gann_ok_exact, ghistory_ann; exact I).
    repeat (split; [assumption|]).
    intros lb ub Hq. destruct (goverlaps_exact lb ub t B X W C Hq) as (_ & Pm & Nd). split; assumption.
  Qed.
End Order.

(* ---- instance: signed endpoints (negative, mixed sign) *)
Lemma Zleb_total a b : Z.leb a b = true \/ Z.leb b a = true. Proof. lia. Qed.
Lemma Zleb_trans a b c : Z.leb a b = true -> Z.leb b c = true -> Z.leb a c = true. Proof. lia. Qed.
Lemma Zltb_leb a b : Z.ltb a b = negb (Z.leb b a). Proof. lia. Qed.

Theorem history_Z (ops : list (op (gelt Z))) (t : gtree Z) :
  ids_fresh (gid Z) (gless Z Z.ltb) ops -> grun Z Z.leb Z.ltb ops = Some t ->
  sorted (gless Z Z.ltb) (inorder t) /\ NoDup (ids (gid Z) (inorder t))
  /\ gexact Z Z.leb t
  /\ forall lb ub : Z, (lb <= ub)%Z ->
       Permutation (gfor_overlaps Z Z.leb lb ub t)
                   (map (gid Z) (filter (fun e => Z.leb (glo Z e) ub && Z.leb lb (ghi Z e)) (inorder t)))
       /\ NoDup (gfor_overlaps Z Z.leb lb ub t).
Proof.
  intros Hok Hrun.
  destruct (ghistory Z Z.leb Z.ltb Zleb_total Zleb_trans Zltb_leb ops t Hok Hrun) as (_ & S & Nd & _ & _ & _ & X & Q).
  split; [exact S|]. split; [exact Nd|]. split; [exact X|].
  intros lb ub Hq. apply Q. lia.
Qed.

(* ---- the extracted model (IntervalModel.v, endpoints N) IS the instance P = N of the generic model *)
Lemma N_instance_agg : iagg = gagg N N.ltb. Proof. reflexivity. Qed.
Lemma N_instance_less : iless = gless N N.ltb. Proof. reflexivity. Qed.
Lemma N_instance_insert : iinsert = ginsert N N.leb N.ltb. Proof. reflexivity. Qed.
Lemma N_instance_remove : iremove = gremove N N.ltb. Proof. reflexivity. Qed.
Lemma N_instance_ovl : ovl = govl N N.leb. Proof. reflexivity. Qed.
Lemma N_instance_for_overlaps : for_overlaps = gfor_overlaps N N.leb. Proof. reflexivity. Qed.
