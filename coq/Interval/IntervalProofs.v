(* IntervalProofs.v — proofs about the interval tree model (C07):
   1. [ann_ok iagg] (the generic Rb annotation invariant) is exactly "subtree_max = maximum upper bound in the subtree";
   2. [ovl] (= _for_overlaps_in_subtree) reports exactly the overlapping intervals, each once, and its boolean result
      is "some overlap exists", for sorted trees with exact annotations, well-formed intervals and lb <= ub;
   3. everything over arbitrary insert/remove histories. *)
From Coq Require Import NArith List Bool Sorted Lia Permutation.
From Coq Require Import ZifyBool ZifyN.
From FV Require Import Rb.RbModel Rb.RbInorder Rb.RbInvariant Rb.RbLayout Rb.RbHistory Rb.RbAnnot Interval.IntervalModel Interval.IntervalPath.
Import ListNotations.
Local Open Scope N_scope.

(* ---------------------------------------------------------------------------------------------
   the comparator is a strict weak order *)
Lemma iless_asym a b : iless a b = true -> iless b a = false.
Proof. unfold iless. lia. Qed.
Lemma iless_negtrans a b c : iless a b = false -> iless b c = false -> iless a c = false.
Proof. unfold iless. lia. Qed.

(* ---------------------------------------------------------------------------------------------
   1. exactness of the annotation *)
Definition oz (o : option N) : N := match o with Some a => a | None => 0 end.

Lemma iagg_max x l r : iagg x l r = N.max (N.max (ihi x) (oz l)) (oz r).
Proof.
  unfold iagg; cbv zeta. destruct l as [a|], r as [b|]; cbn [oz];
    try (destruct (N.ltb_spec (ihi x) a); cbv iota);
    try match goal with |- context [?p <? ?q] => destruct (N.ltb_spec p q) end; lia.
Qed.

(* maximum upper bound of a list of intervals (0 for the empty list; attained otherwise) *)
Fixpoint hmax (l : list ielt) : N := match l with [] => 0 | e :: l' => N.max (ihi e) (hmax l') end.

Lemma hmax_app a b : hmax (a ++ b) = N.max (hmax a) (hmax b).
Proof. induction a as [|e a IH]; cbn [hmax app]; [lia|]. rewrite IH. lia. Qed.
Lemma hmax_ub l e : In e l -> ihi e <= hmax l.
Proof.
  induction l as [|y l IH]; cbn [In hmax]; [tauto|]. intros [->|H]; [lia|]. specialize (IH H). lia.
Qed.
Lemma hmax_attained l : l <> [] -> exists e, In e l /\ ihi e = hmax l.
Proof.
  induction l as [|y l IH]; [congruence|]. intros _. cbn [hmax].
  destruct l as [|z l'].
  - exists y. cbn. split; [auto|lia].
  - destruct IH as (e & He & Hm); [discriminate|].
    destruct (N.leb_spec (hmax (z :: l')) (ihi y)).
    + exists y. split; [left; reflexivity|lia].
    + exists e. split; [right; exact He|lia].
Qed.

(* for every subtree: stored subtree_max = maximum of the upper bounds over the subtree *)
Fixpoint annot_exact (t : itree) : Prop :=
  match t with
  | E => True
  | T _ l x a r => a = hmax (inorder l ++ x :: inorder r) /\ annot_exact l /\ annot_exact r
  end.

Lemma ann_hmax (t : itree) : ann_ok iagg t -> oz (ann t) = hmax (inorder t).
Proof.
  induction t as [|c l IHl x a r IHr]; cbn [ann_ok ann oz inorder]; [reflexivity|].
  intros (Ha & Hl & Hr). rewrite Ha, iagg_max, (IHl Hl), (IHr Hr), hmax_app. cbn [hmax]. lia.
Qed.

Theorem ann_ok_exact (t : itree) : ann_ok iagg t <-> annot_exact t.
Proof.
  induction t as [|c l IHl x a r IHr]; cbn [ann_ok annot_exact]; [tauto|].
  split.
  - intros (Ha & Hl & Hr). split; [|tauto].
    rewrite Ha, iagg_max, (ann_hmax l Hl), (ann_hmax r Hr), hmax_app. cbn [hmax]. lia.
  - intros (Ha & Hl & Hr). apply IHl in Hl. apply IHr in Hr. split; [|tauto].
    rewrite Ha, iagg_max, (ann_hmax l Hl), (ann_hmax r Hr), hmax_app. cbn [hmax]. lia.
Qed.

(* the readable form: an upper bound that is attained *)
Lemma annot_exact_spec c l x a r : annot_exact (T c l x a r) ->
  (forall e, In e (inorder (T c l x a r)) -> ihi e <= a)
  /\ exists e, In e (inorder (T c l x a r)) /\ ihi e = a.
Proof.
  cbn [annot_exact inorder]. intros (-> & _ & _). split.
  - intros e He. apply hmax_ub, He.
  - apply hmax_attained. destruct (inorder l); discriminate.
Qed.

(* ---------------------------------------------------------------------------------------------
   2. the search *)
(* the property's notion of overlap of [lo e, hi e] with the query [lb, ub] *)
Definition ovl_spec (lb ub : N) (e : ielt) : bool := (ilo e <=? ub) && (lb <=? ihi e).
Definition wf (e : ielt) : Prop := ilo e <= ihi e.

(* the test written in the source is the property's test when lb <= ub and lower <= upper *)
Lemma hit_spec lb ub x : lb <= ub -> wf x -> hit lb ub x = ovl_spec lb ub x.
Proof. unfold hit, ovl_spec, wf. lia. Qed.

Lemma ovl_guard lb ub (t : itree) : (if nonnull t then fst (ovl lb ub t) else []) = fst (ovl lb ub t).
Proof. destruct t; reflexivity. Qed.
Lemma ovl_right_guard lb ub (r : itree) :
  (if nonnull r then let '(orr, fr) := ovl lb ub r in if fr then (orr, true) else (orr, false) else ([], false))
  = ovl lb ub r.
Proof. destruct r as [|c l x a r']; [reflexivity|]. cbn [nonnull]. destruct (ovl lb ub (T c l x a r')) as [o []]; reflexivity. Qed.

Lemma filter_none {A} (f : A -> bool) l : (forall e, In e l -> f e = false) -> filter f l = [].
Proof.
  induction l as [|y l IH]; cbn [filter]; [reflexivity|]. intros H.
  rewrite (H y (or_introl eq_refl)). apply IH. intros e He. apply H. right. exact He.
Qed.
Lemma filter_nil_none {A} (f : A -> bool) l e : filter f l = [] -> In e l -> f e = false.
Proof.
  intros Hf He. destruct (f e) eqn:E0; [|reflexivity].
  assert (In e (filter f l)) by (apply filter_In; auto). rewrite Hf in H. destruct H.
Qed.

Lemma sorted_le_lo a b : le iless a b -> ilo a <= ilo b.
Proof. unfold le, iless. lia. Qed.

Definition go_left (lb : N) (l : itree) : bool := match l with T _ _ _ lmax _ => lb <=? lmax | E => false end.

Lemma go_left_true lb l : annot_exact l -> go_left lb l = true ->
  exists e, In e (inorder l) /\ lb <= ihi e.
Proof.
  destruct l as [|c ll x a lr]; cbn [go_left]; [discriminate|]. intros Hx Hlb.
  destruct (annot_exact_spec _ _ _ _ _ Hx) as (_ & e & He & Hm). exists e. split; [exact He|lia].
Qed.
Lemma go_left_false lb l : annot_exact l -> go_left lb l = false ->
  forall e, In e (inorder l) -> ihi e < lb.
Proof.
  destruct l as [|c ll x a lr]; cbn [go_left]; [intros _ _ e []|]. intros Hx Hlb e He.
  destruct (annot_exact_spec _ _ _ _ _ Hx) as (Hub & _). specialize (Hub e He). lia.
Qed.

Theorem ovl_correct lb ub (t : itree) : lb <= ub ->
  sorted iless (inorder t) -> annot_exact t -> Forall wf (inorder t) ->
  Permutation (fst (ovl lb ub t)) (filter (ovl_spec lb ub) (inorder t))
  /\ (snd (ovl lb ub t) = false -> filter (ovl_spec lb ub) (inorder t) = [])
  /\ (snd (ovl lb ub t) = true -> filter (ovl_spec lb ub) (inorder t) <> []).
Proof.
  intros Hq. induction t as [|c l IHl x a r IHr]; intros Hs Hx Hw.
  - cbn. repeat split; auto. discriminate.
  - cbn [inorder] in *. apply sorted_app_inv in Hs. destruct Hs as (Sl & Sr & Fl & Fr).
    cbn [annot_exact] in Hx. destruct Hx as (Ha & Xl & Xr).
    apply Forall_app in Hw. destruct Hw as (Wl & Wxr). inversion Wxr as [|? ? Wx Wr]; subst.
    specialize (IHl Sl Xl Wl). specialize (IHr Sr Xr Wr).
    destruct IHl as (Pl & Nl & Tl). destruct IHr as (Pr & Nr & Tr).
    rewrite filter_app. cbn [filter].
    cbn [ovl]. rewrite !ovl_guard. fold (go_left lb l). rewrite ovl_right_guard.
    rewrite (hit_spec lb ub x Hq Wx).
    destruct (ovl_spec lb ub x) eqn:Hx.
    + (* the node overlaps: fn(node), both subtrees, true *)
      cbn [fst snd]. split; [|split].
      * apply Permutation_cons_app. apply Permutation_app; assumption.
      * discriminate.
      * intros _ H. apply app_eq_nil in H. destruct H as [_ H]. discriminate.
    + destruct (go_left lb l) eqn:Hg.
      * (* left subtree searched first *)
        destruct (ovl lb ub l) as [ol fl] eqn:El. cbn [fst snd] in *.
        destruct fl.
        -- cbn [fst snd]. split; [|split].
           ++ apply Permutation_app; assumption.
           ++ discriminate.
           ++ intros _ H. apply app_eq_nil in H. destruct H as [H _]. exact (Tl eq_refl H).
        -- (* nothing in the left subtree although lb <= its maximum: nothing in the right subtree either *)
           cbn [fst snd]. specialize (Nl eq_refl).
           destruct (go_left_true lb l Xl Hg) as (e & He & Hlb).
           pose proof (filter_nil_none _ _ e Nl He) as Hne. unfold ovl_spec in Hne.
           assert (Hub : ub < ilo e) by lia.
           rewrite Forall_forall in Fl, Fr.
           pose proof (sorted_le_lo _ _ (Fl e He)) as Hex.
           assert (Hr : filter (ovl_spec lb ub) (inorder r) = []).
           { apply filter_none. intros z Hz. pose proof (sorted_le_lo _ _ (Fr z Hz)) as Hxz.
             unfold ovl_spec. lia. }
           rewrite Nl, Hr. cbn [app]. split; [|split].
           ++ rewrite Nl in Pl. exact Pl.
           ++ reflexivity.
           ++ discriminate.
      * (* left subtree pruned: every upper bound in it is below lb *)
        assert (Hl : filter (ovl_spec lb ub) (inorder l) = []).
        { apply filter_none. intros e He. pose proof (go_left_false lb l Xl Hg e He). unfold ovl_spec. lia. }
        rewrite Hl. cbn [app]. split; [exact Pr|]. split; [exact Nr|exact Tr].
Qed.

(* ---------------------------------------------------------------------------------------------
   the statement of the property for one tree *)
Lemma nodup_filter_ids (f : ielt -> bool) l : NoDup (ids iid l) -> NoDup (ids iid (filter f l)).
Proof.
  induction l as [|e l IH]; cbn [filter ids map]; intros Hn; [constructor|].
  inversion Hn as [|? ? Hni Hn']; subst. destruct (f e); cbn [map]; [|auto].
  constructor; [|apply IH, Hn']. intros Hin. apply Hni.
  unfold ids in *. apply in_map_iff in Hin. destruct Hin as (z & Hz & Hin). apply filter_In in Hin.
  apply in_map_iff. exists z. tauto.
Qed.

Theorem overlaps_exact lb ub (t : itree) :
  sorted iless (inorder t) -> annot_exact t -> Forall wf (inorder t) -> NoDup (ids iid (inorder t)) -> lb <= ub ->
  Permutation (for_overlaps_nodes lb ub t) (filter (ovl_spec lb ub) (inorder t))
  /\ Permutation (for_overlaps lb ub t) (map iid (filter (ovl_spec lb ub) (inorder t)))
  /\ NoDup (for_overlaps lb ub t).
Proof.
  intros Hs Hx Hw Hn Hq.
  assert (P : Permutation (for_overlaps_nodes lb ub t) (filter (ovl_spec lb ub) (inorder t))).
  { unfold for_overlaps_nodes. destruct t as [|c l x a r]; [constructor|].
    apply (ovl_correct lb ub _ Hq Hs Hx Hw). }
  split; [exact P|]. unfold for_overlaps.
  split; [apply Permutation_map, P|].
  eapply Permutation_NoDup; [apply Permutation_sym, Permutation_map, P|].
  apply (nodup_filter_ids _ _ Hn).
Qed.

(* membership form: i is reported iff it names a stored interval overlapping the query *)
Corollary overlaps_in lb ub (t : itree) i :
  sorted iless (inorder t) -> annot_exact t -> Forall wf (inorder t) -> NoDup (ids iid (inorder t)) -> lb <= ub ->
  In i (for_overlaps lb ub t) <-> exists e, In e (inorder t) /\ iid e = i /\ ilo e <= ub /\ lb <= ihi e.
Proof.
  intros Hs Hx Hw Hn Hq. destruct (overlaps_exact lb ub t Hs Hx Hw Hn Hq) as (_ & P & _).
  split.
  - intros Hin. apply (Permutation_in _ P) in Hin. apply in_map_iff in Hin. destruct Hin as (e & He & Hin).
    apply filter_In in Hin. destruct Hin as [Hin Ho]. exists e. unfold ovl_spec in Ho. repeat split; auto; lia.
  - intros (e & He & Hi & H1 & H2). apply (Permutation_in _ (Permutation_sym P)). apply in_map_iff. exists e.
    split; [exact Hi|]. apply filter_In. split; [exact He|]. unfold ovl_spec. lia.
Qed.

(* ---------------------------------------------------------------------------------------------
   3. histories.  [irun] folds interval_tree::insert / remove; None = an insert stopped in FRG_ASSERT *)
Definition istep (ot : option itree) (o : op ielt) : option itree :=
  match ot with
  | None => None
  | Some t => match o with OIns x => iinsert x t | ORem i => Some (iremove i t) end
  end.
Definition irun (ops : list (op ielt)) : option itree := fold_left istep ops (Some E).

Definition op_wf (o : op ielt) : Prop := match o with OIns x => wf x | ORem _ => True end.

Lemma istep_none ops : fold_left istep ops None = None.
Proof. induction ops as [|o ops IH]; cbn [fold_left istep]; auto. Qed.

Lemma irun_rb ops (t0 : itree) :
  Forall op_wf ops -> fold_left istep ops (Some t0) = Some (fold_left (rb_step iid iless iagg) ops t0).
Proof.
  revert t0. induction ops as [|o ops IH]; intros t0 Hw; cbn [fold_left]; [reflexivity|].
  inversion Hw as [|? ? Ho Hw']; subst. destruct o as [x|i]; cbn [istep rb_step].
  - unfold iinsert. cbn [op_wf] in Ho. unfold wf in Ho.
    destruct (N.leb_spec (ilo x) (ihi x)); [|lia]. apply IH, Hw'.
  - apply IH, Hw'.
Qed.

(* the run stops in the assertion exactly when some inserted interval has lower > upper *)
Lemma irun_some_wf ops (t0 t : itree) : fold_left istep ops (Some t0) = Some t -> Forall op_wf ops.
Proof.
  revert t0. induction ops as [|o ops IH]; intros t0 H; [constructor|]. cbn [fold_left] in H.
  destruct o as [x|i]; cbn [istep] in H.
  - unfold iinsert in H. destruct (N.leb_spec (ilo x) (ihi x)).
    + constructor; [exact H0|]. eapply IH, H.
    + rewrite istep_none in H. discriminate.
  - constructor; [exact I|]. eapply IH, H.
Qed.

Theorem irun_assert ops : irun ops = None <-> ~ Forall op_wf ops.
Proof.
  unfold irun. split.
  - intros H Hw. pose proof (irun_rb ops E Hw) as R. unfold itree in *. congruence.
  - intros H. destruct (fold_left istep ops (Some E)) as [t|] eqn:E0; [|reflexivity].
    exfalso. apply H. eapply irun_some_wf, E0.
Qed.

Lemma list_step_wf l o : Forall wf l -> op_wf o -> Forall wf (list_step iid iless l o).
Proof.
  intros Hl Ho. destruct o as [x|i]; cbn [list_step].
  - cbn [op_wf] in Ho. induction l as [|y l IH]; cbn [ins_stable]; [repeat constructor; exact Ho|].
    inversion Hl; subst. destruct (iless x y); repeat constructor; auto.
  - rewrite Forall_forall in *. intros e He. apply filter_In in He. apply Hl, He.
Qed.
Lemma history_wf ops l : Forall wf l -> Forall op_wf ops -> Forall wf (fold_left (list_step iid iless) ops l).
Proof.
  revert l. induction ops as [|o ops IH]; intros l Hl Hw; cbn [fold_left]; [exact Hl|].
  inversion Hw; subst. apply IH; [apply list_step_wf; assumption|assumption].
Qed.

Lemma history_ann ops (t : itree) : ann_ok iagg t -> ann_ok iagg (fold_left (rb_step iid iless iagg) ops t).
Proof.
  revert t. induction ops as [|o ops IH]; intros t H; cbn [fold_left]; [exact H|].
  apply IH. destruct o; cbn [rb_step]; [apply (insert_ann _ _ iid)|apply (remove_ann _ _ iid iless)]; exact H.
Qed.

Theorem history_interval (ops : list (op ielt)) (t : itree) :
  ids_fresh iid iless ops -> irun ops = Some t ->
  inorder t = fold_left (list_step iid iless) ops []
  /\ sorted iless (inorder t) /\ NoDup (ids iid (inorder t)) /\ Forall wf (inorder t)
  /\ rb t /\ (height t <= 2 * Nat.log2 (size t + 1))%nat
  /\ annot_exact t
  /\ forall lb ub, lb <= ub ->
       Permutation (for_overlaps lb ub t) (map iid (filter (ovl_spec lb ub) (inorder t)))
       /\ NoDup (for_overlaps lb ub t)
       /\ (forall i, In i (for_overlaps lb ub t) <->
                     exists e, In e (inorder t) /\ iid e = i /\ ilo e <= ub /\ lb <= ihi e).
Proof.
  intros Hok Hrun. unfold irun in Hrun.
  pose proof (irun_some_wf _ _ _ Hrun) as Hw. pose proof (irun_rb ops E Hw) as R.
  assert (t = fold_left (rb_step iid iless iagg) ops E) as -> by (unfold itree in *; congruence). clear R Hrun.
  destruct (history_all ielt N iid iless iagg iless_asym iless_negtrans ops Hok) as (A & B & C & D & F & _).
  set (t := fold_left (rb_step iid iless iagg) ops E) in *.
  assert (W : Forall wf (inorder t)) by (rewrite A; apply history_wf; [constructor|exact Hw]).
  assert (X : annot_exact t) by (apply ann_ok_exact, history_ann; exact I).
  repeat (split; [assumption|]).
  intros lb ub Hq. destruct (overlaps_exact lb ub t B X W C Hq) as (_ & P & Nd).
  split; [exact P|]. split; [exact Nd|]. intros i. apply overlaps_in; assumption.
Qed.

(* every tree reachable by insert/remove (no freshness needed for this one) has exact annotations *)
Theorem irun_exact (ops : list (op ielt)) (t : itree) : irun ops = Some t -> annot_exact t.
Proof.
  intros Hrun. unfold irun in Hrun.
  pose proof (irun_some_wf _ _ _ Hrun) as Hw. pose proof (irun_rb ops E Hw) as R.
  assert (t = fold_left (rb_step iid iless iagg) ops E) as -> by (unfold itree in *; congruence).
  apply ann_ok_exact, history_ann. exact I.
Qed.

Theorem exact_step (t : itree) : annot_exact t ->
  (forall x, annot_exact (insert iless iagg x t)) /\ (forall i, annot_exact (iremove i t)).
Proof.
  intros H. apply ann_ok_exact in H. split; intros; apply ann_ok_exact.
  - apply (insert_ann _ _ iid), H.
  - apply (remove_ann _ _ iid iless), H.
Qed.

(* the boolean result of _for_overlaps_in_subtree: "some stored interval of the subtree overlaps" *)
Theorem ovl_found lb ub (t : itree) : lb <= ub ->
  sorted iless (inorder t) -> annot_exact t -> Forall wf (inorder t) ->
  snd (ovl lb ub t) = true <-> exists e, In e (inorder t) /\ ilo e <= ub /\ lb <= ihi e.
Proof.
  intros Hq Hs Hx Hw. destruct (ovl_correct lb ub t Hq Hs Hx Hw) as (_ & Nf & Tf). split.
  - intros H. specialize (Tf H). destruct (filter (ovl_spec lb ub) (inorder t)) as [|e l] eqn:E0; [congruence|].
    assert (He : In e (filter (ovl_spec lb ub) (inorder t))) by (rewrite E0; left; reflexivity).
    apply filter_In in He. destruct He as [He Ho]. exists e. unfold ovl_spec in Ho. split; [exact He|lia].
  - intros (e & He & H1 & H2). destruct (snd (ovl lb ub t)); [reflexivity|].
    specialize (Nf eq_refl). pose proof (filter_nil_none _ _ e Nf He) as Hn. unfold ovl_spec in Hn. lia.
Qed.

(* ---------------------------------------------------------------------------------------------
   4. the public aggregate_path on the interval instance: overwrite the element of node i (same identity), call
   aggregate_path(node i) with the early stop: exact again, and the same tree as without the early stop *)
Theorem iaggregate_path_restores (i : N) (x' : ielt) (t : itree) : iid x' = i -> annot_exact t ->
  annot_exact (iaggregate_path true i (set_elt iid i x' t))
  /\ iaggregate_path true i (set_elt iid i x' t) = iaggregate_path false i (set_elt iid i x' t).
Proof.
  intros Hi Hx. apply ann_ok_exact in Hx.
  destruct (set_then_aggregate_path ielt N iid iagg N.eqb N.eqb_eq i x' t Hi Hx) as [A B].
  split; [apply ann_ok_exact, A|exact B].
Qed.

Theorem iaggregate_path_clean (i : N) (t : itree) : annot_exact t -> iaggregate_path true i t = t.
Proof. intros Hx. apply ann_ok_exact in Hx. exact (proj1 (aggregate_path_clean ielt N iid iagg N.eqb N.eqb_eq i t Hx)). Qed.
