(* IntervalPath.v — rbtree.hpp's aggregate_path with its early stop, on the zipper model of IntervalModel.v.
   Generic in the element type and the aggregate function (as the C++ is generic in the aggregator). *)
From Coq Require Import NArith List Bool Lia.
From FV Require Import Rb.RbModel Rb.RbAnnot Interval.IntervalModel.
Import ListNotations.

Section PathProofs.
  Variables elt annot : Type.
  Variable id_of : elt -> N.
  Variable agg : elt -> option annot -> option annot -> annot.
  Variable aeqb : annot -> annot -> bool.
  Hypothesis aeqb_eq : forall a b, aeqb a b = true <-> a = b.
  Notation tree := (tree elt annot).
  Notation cframe := (cframe elt annot).
  Notation chain := (chain elt annot).

  (* every frame's stored aggregate equals the aggregate of its children, the lowest one seeing [below] *)
  Fixpoint chain_ok (below : option annot) (ch : chain) : Prop :=
    match ch with
    | [] => True
    | f :: rest => stored f = recompute agg f below /\ chain_ok (Some (stored f)) rest
    end.
  (* what the early stop really needs: consistency ABOVE the first frame (the node aggregate_path starts at may hold
     anything: a fresh leaf, the replacement in replace_node with its stale value, a node whose upper was changed) *)
  Definition above_ok (ch : chain) : Prop :=
    match ch with [] => True | f :: rest => chain_ok (Some (stored f)) rest end.

  Lemma chain_ok_above below ch : chain_ok below ch -> above_ok ch.
  Proof. destruct ch; cbn; tauto. Qed.

  Lemma set_stored_same (f : cframe) : set_stored f (stored f) = f.
  Proof. destruct f; reflexivity. Qed.
  Lemma stored_set (f : cframe) a : stored (set_stored f a) = a.
  Proof. destruct f; reflexivity. Qed.
  Lemma recompute_set (f : cframe) a b : recompute agg (set_stored f a) b = recompute agg f b.
  Proof. destruct f; reflexivity. Qed.

  (* recomputing a consistent chain changes nothing *)
  Lemma path_full_id below ch : chain_ok below ch -> path_full agg below ch = ch.
  Proof.
    revert below. induction ch as [|f rest IH]; intros below H; cbn [path_full]; [reflexivity|].
    cbn [chain_ok] in H. destruct H as [Hf Hr]. rewrite <- Hf, set_stored_same, (IH _ Hr). reflexivity.
  Qed.

  (* the result of the full recomputation is consistent, whatever was stored before *)
  Lemma path_full_ok below ch : chain_ok below (path_full agg below ch).
  Proof.
    revert below. induction ch as [|f rest IH]; intros below; cbn [path_full chain_ok]; [exact I|].
    rewrite stored_set, recompute_set. split; [reflexivity|apply IH].
  Qed.

  (* aggregate_path's early stop: stopping at the first node whose aggregate did not change yields the same stored
     values as recomputing the whole chain, provided the chain above the starting node was consistent *)
  Theorem early_stop_sound_above new ch : above_ok ch -> path_early agg aeqb new ch = path_full agg new ch.
  Proof.
    revert new. induction ch as [|f rest IH]; intros new H; cbn [path_early path_full]; [reflexivity|].
    cbn [above_ok] in H.
    destruct (aeqb (recompute agg f new) (stored f)) eqn:Hc.
    - apply aeqb_eq in Hc. rewrite Hc, set_stored_same, (path_full_id _ _ H). reflexivity.
    - f_equal. apply IH. eapply chain_ok_above, H.
  Qed.

  Corollary early_stop_sound old new ch : chain_ok old ch -> path_early agg aeqb new ch = path_full agg new ch.
  Proof. intros H. apply early_stop_sound_above. eapply chain_ok_above, H. Qed.

  (* ---- the same on trees *)
  Definition sib_of (f : cframe) : tree := let 'CF _ _ _ _ sib := f in sib.
  Definition sibs_ok (ch : chain) : Prop := Forall (fun f => ann_ok agg (sib_of f)) ch.

  Lemma ann_plug1 (t : tree) f : ann (plug1 t f) = Some (stored f).
  Proof. destruct f as [[] c x a sib]; reflexivity. Qed.
  Lemma ann_ok_plug1 (t : tree) f :
    ann_ok agg (plug1 t f) <-> stored f = recompute agg f (ann t) /\ ann_ok agg t /\ ann_ok agg (sib_of f).
  Proof. destruct f as [[] c x a sib]; cbn [plug1 ann_ok stored recompute sib_of]; tauto. Qed.

  Lemma ann_ok_plug (t : tree) ch :
    ann_ok agg (plug t ch) <-> ann_ok agg t /\ chain_ok (ann t) ch /\ sibs_ok ch.
  Proof.
    revert t. induction ch as [|f rest IH]; intros t; unfold plug; cbn [fold_left chain_ok].
    - unfold sibs_ok. split; [intros H; repeat split; auto|tauto].
    - fold (plug (plug1 t f) rest). rewrite IH, ann_ok_plug1, ann_plug1. unfold sibs_ok.
      split.
      + intros ((A & B & C) & D & F). repeat split; auto.
      + intros (A & (B & C) & D). inversion D; subst. repeat split; auto.
  Qed.

  Lemma sibs_path_full below ch : sibs_ok ch -> sibs_ok (path_full agg below ch).
  Proof.
    revert below. unfold sibs_ok. induction ch as [|f rest IH]; intros below H; cbn [path_full]; [constructor|].
    inversion H; subst. constructor; [destruct f; assumption|apply IH; assumption].
  Qed.

  (* aggregate_path from a node re-establishes the annotation invariant of the WHOLE tree when everything except
     the node's own stored value was consistent (its element may have been changed) *)
  Theorem aggregate_path_node c (l : tree) x a (r : tree) k :
    ann_ok agg l -> ann_ok agg r -> chain_ok (Some a) k -> sibs_ok k ->
    path_early agg aeqb (ann l) (CF SL c x a r :: k) = path_full agg (ann l) (CF SL c x a r :: k)
    /\ ann_ok agg (plug l (path_early agg aeqb (ann l) (CF SL c x a r :: k))).
  Proof.
    intros Hl Hr Hk Hs.
    assert (E0 : path_early agg aeqb (ann l) (CF SL c x a r :: k) = path_full agg (ann l) (CF SL c x a r :: k))
      by (apply early_stop_sound_above; exact Hk).
    split; [exact E0|]. rewrite E0. apply ann_ok_plug. split; [exact Hl|]. split; [apply path_full_ok|].
    apply sibs_path_full. constructor; assumption.
  Qed.

  (* ---- locate *)
  Definition root_is (i : N) (s : tree) : Prop := match s with E => False | T _ _ x _ _ => id_of x = i end.

  Lemma locate_plug i (t : tree) k0 s k : locate id_of i t k0 = Some (s, k) -> plug s k = plug t k0 /\ root_is i s.
  Proof.
    revert k0. induction t as [|c l IHl x a r IHr]; intros k0; cbn [locate]; [discriminate|].
    destruct (N.eqb (id_of x) i) eqn:Hi.
    - intros H. injection H as <- <-. split; [reflexivity|]. apply N.eqb_eq, Hi.
    - destruct (locate id_of i l (CF SL c x a r :: k0)) as [p|] eqn:El.
      + intros H. injection H as ->. destruct (IHl _ El) as [A B]. split; [|exact B]. rewrite A. reflexivity.
      + intros H. destruct (IHr _ H) as [A B]. split; [|exact B]. rewrite A. reflexivity.
  Qed.

  Lemma locate_none_k i (t : tree) k k' : locate id_of i t k = None -> locate id_of i t k' = None.
  Proof.
    revert k k'. induction t as [|c l IHl x a r IHr]; intros k k'; cbn [locate]; [reflexivity|].
    destruct (N.eqb (id_of x) i); [discriminate|].
    destruct (locate id_of i l (CF SL c x a r :: k)) eqn:El; [discriminate|].
    rewrite (IHl _ (CF SL c x a r :: k') El). apply IHr.
  Qed.

  (* replacing the located node by another node with the same identity: it is found at the same place *)
  Lemma locate_replace i (t : tree) k0 s k s' : locate id_of i t k0 = Some (s, k) -> root_is i s' ->
    exists t', locate id_of i t' k0 = Some (s', k) /\ plug t' k0 = plug s' k.
  Proof.
    intros H Hs'. revert k0 H. induction t as [|c l IHl x a r IHr]; intros k0; cbn [locate]; [discriminate|].
    destruct (N.eqb (id_of x) i) eqn:Hi.
    - intros H. injection H as <- <-. exists s'. split; [|reflexivity].
      destruct s' as [|c' l' x' a' r']; [destruct Hs'|]. cbn [locate root_is] in *.
      rewrite (proj2 (N.eqb_eq _ _) Hs'). reflexivity.
    - destruct (locate id_of i l (CF SL c x a r :: k0)) as [p|] eqn:El.
      + intros H. injection H as ->. destruct (IHl _ El) as (l' & A & B).
        exists (T c l' x a r). cbn [locate]. rewrite Hi, A. split; [reflexivity|]. rewrite <- B. reflexivity.
      + intros H. destruct (IHr _ H) as (r' & A & B).
        exists (T c l x a r'). cbn [locate]. rewrite Hi, (locate_none_k i l _ (CF SL c x a r' :: k0) El), A.
        split; [reflexivity|]. rewrite <- B. reflexivity.
  Qed.

  Lemma locate_set_elt i x' (t : tree) c l x a r k : id_of x' = i ->
    locate id_of i t [] = Some (T c l x a r, k) ->
    set_elt id_of i x' t = plug (T c l x' a r) k
    /\ locate id_of i (set_elt id_of i x' t) [] = Some (T c l x' a r, k).
  Proof.
    intros Hi H. unfold set_elt. rewrite H. split; [reflexivity|].
    destruct (locate_replace i t [] _ k (T c l x' a r) H Hi) as (t' & A & B).
    unfold plug at 1 in B. cbn [fold_left] in B. subst t'. exact A.
  Qed.

  (* the intended use of the public aggregate_path: change the data of a node, then call aggregate_path(node) *)
  Theorem set_then_aggregate_path i x' (t : tree) : id_of x' = i -> ann_ok agg t ->
    ann_ok agg (aggregate_path_at id_of agg aeqb true i (set_elt id_of i x' t))
    /\ aggregate_path_at id_of agg aeqb true i (set_elt id_of i x' t)
       = aggregate_path_at id_of agg aeqb false i (set_elt id_of i x' t).
  Proof.
    intros Hi Hok. destruct (locate id_of i t []) as [[s k]|] eqn:El.
    - destruct (locate_plug i t [] s k El) as [Hp Hr].
      destruct s as [|c l x a r]; [destruct Hr|].
      destruct (locate_set_elt i x' t c l x a r k Hi El) as [_ L2].
      unfold aggregate_path_at. rewrite L2.
      unfold plug at 2 in Hp. cbn [fold_left] in Hp. rewrite <- Hp in Hok.
      apply ann_ok_plug in Hok. destruct Hok as (Hn & Hk & Hs). cbn [ann_ok ann] in Hn, Hk.
      destruct Hn as (_ & Hl & Hr').
      destruct (aggregate_path_node c l x' a r k Hl Hr' Hk Hs) as [E0 A]. split; [exact A|]. rewrite E0. reflexivity.
    - unfold set_elt. rewrite El. unfold aggregate_path_at. rewrite El. auto.
  Qed.

  (* on a consistent tree aggregate_path changes nothing (with or without the early stop) *)
  Theorem aggregate_path_clean i (t : tree) : ann_ok agg t ->
    aggregate_path_at id_of agg aeqb true i t = t /\ aggregate_path_at id_of agg aeqb false i t = t.
  Proof.
    intros Hok. unfold aggregate_path_at. destruct (locate id_of i t []) as [[s k]|] eqn:El; [|auto].
    destruct (locate_plug i t [] s k El) as [Hp Hr]. destruct s as [|c l x a r]; [destruct Hr|].
    unfold plug at 2 in Hp. cbn [fold_left] in Hp. rewrite <- Hp in Hok.
    apply ann_ok_plug in Hok. destruct Hok as (Hn & Hk & Hs). cbn [ann_ok ann] in Hn, Hk. destruct Hn as (Ha & Hl & Hr').
    assert (C : chain_ok (ann l) (CF SL c x a r :: k)) by (cbn [chain_ok stored recompute]; auto).
    rewrite (early_stop_sound _ (ann l) _ C), (path_full_id _ _ C).
    unfold plug in *. cbn [fold_left plug1]. auto.
  Qed.
End PathProofs.
