From FV Require Import Common.ExtractTypes Rb.RbModel Rb.RbCases Interval.IntervalModel.
From Coq Require Import NArith.
From Coq Require Extraction.
From Coq Require Import ExtrOcamlBasic.
Extraction "../build/extract/interval_model.ml" types_witness
  iinsert iremove for_overlaps for_point for_overlaps_nodes maxes iaggregate_path iset_hi iremk
  first inorder size height layout layout_list root_id
  insert_cases remove_cases ilo ihi iid mkI iless iagg.
