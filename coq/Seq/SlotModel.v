(* Slot-level storage shared by the sequence-container models (DESIGN 3.4, C13/C16).
   A buffer is a list of [option V]: [None] = raw storage, [Some v] = a constructed element.
   Every loop is a structural [Fixpoint] over the trip count, with the bounds of the C++ source
   supplied by the caller.  Definitions only; proofs are in SlotProofs.v. *)
From Coq Require Import List NArith Arith Bool.
From FV Require Import Common.EventLog.
Import ListNotations.

Definition V := N.
Definition buf := list (option V).

Inductive res (A : Type) := Ok (a : A) | AssertStop | UB | OutOfFuel.
Arguments Ok {A} a.
Arguments AssertStop {A}.
Arguments UB {A}.
Arguments OutOfFuel {A}.

Definition bind {A B} (r : res A) (f : A -> res B) : res B :=
  match r with Ok a => f a | AssertStop => AssertStop | UB => UB | OutOfFuel => OutOfFuel end.

Fixpoint upd {A} (l : list A) (i : nat) (x : A) : list A :=
  match l, i with
  | [], _ => []
  | _ :: r, O => x :: r
  | y :: r, S j => y :: upd r j x
  end.

(* how slot i of a buffer is named in the event log: (block id, slot); the inline storage of
   register r of a small_vector N is block 0, slots r*N .. r*N+N-1 *)
Definition nm := nat -> obj.
Definition heap_nm (b : nat) : nm := fun i => (b, i).
Definition inl_nm (base : nat) : nm := fun i => (0, base + i).

(* read of slot i: UB when outside the buffer or not constructed *)
Definition rd (b : buf) (i : nat) : res V :=
  match nth_error b i with Some (Some v) => Ok v | _ => UB end.

(* placement new into slot i: UB when outside the buffer or over a live object *)
Definition construct (b : buf) (i : nat) (v : V) : res buf :=
  match nth_error b i with Some None => Ok (upd b i (Some v)) | _ => UB end.

(* explicit destructor call on slot i *)
Definition destroy (b : buf) (i : nat) : res buf :=
  match nth_error b i with Some (Some _) => Ok (upd b i None) | _ => UB end.

(* for (i = i0; i < i0+cnt; i++) new (&dst[i]) T(src[i])     (copy or move construction) *)
Fixpoint xfer_loop (cnt i : nat) (sn dn : nm) (src dst : buf) : res (buf * list ev) :=
  match cnt with
  | O => Ok (dst, [])
  | S c =>
    bind (rd src i) (fun v =>
    bind (construct dst i v) (fun dst' =>
    bind (xfer_loop c (S i) sn dn src dst') (fun '(d, e) =>
    Ok (d, EUse (sn i) :: EConstruct (dn i) :: e))))
  end.

(* for (i = i0; i < i0+cnt; i++) b[i].~T() *)
Fixpoint destroy_loop (cnt i : nat) (n : nm) (b : buf) : res (buf * list ev) :=
  match cnt with
  | O => Ok (b, [])
  | S c =>
    bind (destroy b i) (fun b' =>
    bind (destroy_loop c (S i) n b') (fun '(d, e) =>
    Ok (d, EDestroy (n i) :: e)))
  end.

(* for (i = i0; i < i0+cnt; i++) new (&b[i]) T(v)      (v comes from outside the container) *)
Fixpoint fill_loop (cnt i : nat) (n : nm) (b : buf) (v : V) : res (buf * list ev) :=
  match cnt with
  | O => Ok (b, [])
  | S c =>
    bind (construct b i v) (fun b' =>
    bind (fill_loop c (S i) n b' v) (fun '(d, e) =>
    Ok (d, EConstruct (n i) :: e)))
  end.

(* for (i = i0; i < i0+cnt; i++) if (a[i] != b[i]) return false;  return true;
   element comparison is the element type's operator== ([veq], applied as a[i] == b[i]; it need not be
   reflexive, symmetric or bitwise); it reads a[i] first, then b[i] *)
Fixpoint eq_loop (veq : V -> V -> bool) (cnt i : nat) (an bn : nm) (a b : buf) : res (bool * list ev) :=
  match cnt with
  | O => Ok (true, [])
  | S c =>
    bind (rd a i) (fun x =>
    bind (rd b i) (fun y =>
    if veq x y then
      bind (eq_loop veq c (S i) an bn a b) (fun '(r, e) => Ok (r, EUse (an i) :: EUse (bn i) :: e))
    else Ok (false, [EUse (an i); EUse (bn i)])))
  end.

(* Allocator instances.  A container holds an allocator by value; the scripts create the container variables on
   different instances of a stateful allocator.  The block that instance [a] hands out as the [b]-th allocation of
   a script is named [enc a b]; a release through instance [a] names the block [reenc a blk], which is the block's
   own name exactly when [a] is the instance that handed it out. *)
Definition NINST : nat := 4.
Definition enc (a b : nat) : nat := b * NINST + a.
Definition reenc (a blk : nat) : nat := enc a (blk / NINST).
(* allocator.free(p) through instance a: nothing for a null pointer *)
Definition free_ev (a blk : nat) : list ev := if Nat.eqb blk 0 then [] else [EFree (reenc a blk)].

(* observation used by the drivers: the first n slots, None where a slot is raw/outside *)
Definition peek (b : buf) (i : nat) : option V :=
  match nth_error b i with Some (Some v) => Some v | _ => None end.
Definition peek_all (b : buf) (n : nat) : list (option V) := map (peek b) (seq 0 n).

(* results of operations, as printed by the drivers *)
Inductive out := OUnit | OVal (v : V) | OBool (b : bool).
