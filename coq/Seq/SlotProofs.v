(* Closed forms of the slot-level loops of SlotModel.v. *)
From Coq Require Import List NArith Arith Bool Lia.
From FV Require Import Common.EventLog Seq.SlotModel.
Import ListNotations.

(* a buffer of capacity [cap] whose first [length l] slots hold the elements of [l] *)
Definition slots (l : list V) (cap : nat) : buf := map Some l ++ repeat None (cap - length l).

Lemma slots_length l cap : length l <= cap -> length (slots l cap) = cap.
Proof. intros H. unfold slots. rewrite app_length, map_length, repeat_length. lia. Qed.

Lemma nth_error_app_mid {A} (pre : list A) x post : nth_error (pre ++ x :: post) (length pre) = Some x.
Proof. rewrite nth_error_app2 by lia. rewrite Nat.sub_diag. reflexivity. Qed.

Lemma upd_app_mid {A} (pre : list A) x y post : upd (pre ++ x :: post) (length pre) y = pre ++ y :: post.
Proof. induction pre as [|a pre IH]; cbn [app length upd]; [reflexivity|]. now rewrite IH. Qed.

Lemma upd_length {A} (l : list A) i x : length (upd l i x) = length l.
Proof. revert i; induction l as [|a l IH]; intros [|i]; cbn [upd length]; auto. Qed.

Lemma repeat_S_app {A} (x : A) n : repeat x (S n) = repeat x n ++ [x].
Proof. induction n as [|n IH]; [reflexivity|]. cbn [repeat app] in *. now rewrite <- IH. Qed.

(* ---- primitives: an access that succeeds is inside the buffer and respects the slot's state *)
Lemma rd_ok b i v : rd b i = Ok v <-> nth_error b i = Some (Some v).
Proof. unfold rd. destruct (nth_error b i) as [[x|]|]; split; intros H; inversion H; subst; reflexivity. Qed.
Lemma construct_ok b i v b' : construct b i v = Ok b' <-> nth_error b i = Some None /\ b' = upd b i (Some v).
Proof. unfold construct. destruct (nth_error b i) as [[x|]|]; split; intros H; try (inversion H; subst; auto; fail);
  destruct H as [H _]; inversion H. Qed.
Lemma destroy_ok b i b' : destroy b i = Ok b' <-> (exists v, nth_error b i = Some (Some v)) /\ b' = upd b i None.
Proof. unfold destroy. destruct (nth_error b i) as [[x|]|]; split; intros H; try (inversion H; subst; eauto; fail);
  destruct H as [[v H] _]; inversion H. Qed.
Lemma nth_error_in_bounds {A} (b : list A) i x : nth_error b i = Some x -> i < length b.
Proof. intros H. apply nth_error_Some. congruence. Qed.

Lemma rd_mid pre v post : rd (pre ++ Some v :: post) (length pre) = Ok v.
Proof. unfold rd. now rewrite nth_error_app_mid. Qed.
Lemma construct_mid pre v post : construct (pre ++ None :: post) (length pre) v = Ok (pre ++ Some v :: post).
Proof. unfold construct. now rewrite nth_error_app_mid, upd_app_mid. Qed.
Lemma destroy_mid pre v post : destroy (pre ++ Some v :: post) (length pre) = Ok (pre ++ None :: post).
Proof. unfold destroy. now rewrite nth_error_app_mid, upd_app_mid. Qed.

Lemma rd_mid' (l : list V) v post : rd (map Some l ++ Some v :: post) (length l) = Ok v.
Proof. pose proof (rd_mid (map Some l) v post) as H. now rewrite map_length in H. Qed.
Lemma construct_mid' (l : list V) v post : construct (map Some l ++ None :: post) (length l) v = Ok (map Some l ++ Some v :: post).
Proof. pose proof (construct_mid (map Some l) v post) as H. now rewrite map_length in H. Qed.
Lemma destroy_mid' (l : list V) v post : destroy (map Some l ++ Some v :: post) (length l) = Ok (map Some l ++ None :: post).
Proof. pose proof (destroy_mid (map Some l) v post) as H. now rewrite map_length in H. Qed.

Definition xfer_evs (sn dn : nm) (i n : nat) : list ev :=
  flat_map (fun j => [EUse (sn j); EConstruct (dn j)]) (seq i n).

Lemma xfer_loop_gen : forall es sn dn ps qs pd qd,
  length ps = length pd ->
  xfer_loop (length es) (length pd) sn dn (ps ++ map Some es ++ qs) (pd ++ repeat None (length es) ++ qd) =
  Ok (pd ++ map Some es ++ qd, xfer_evs sn dn (length pd) (length es)).
Proof.
  induction es as [|e es IH]; intros sn dn ps qs pd qd Hl.
  - reflexivity.
  - cbn [length xfer_loop map repeat app].
    rewrite <- Hl at 1. rewrite rd_mid. cbn [bind].
    rewrite construct_mid. cbn [bind].
    specialize (IH sn dn (ps ++ [Some e]) qs (pd ++ [Some e]) qd).
    rewrite !app_length in IH. cbn [length] in IH. rewrite !Nat.add_1_r in IH.
    rewrite <- !app_assoc in IH. cbn [app] in IH.
    rewrite IH by lia. cbn [bind]. unfold xfer_evs. cbn [seq flat_map app]. reflexivity.
Qed.

Lemma xfer_loop_slots l sn dn rest n : length l <= n ->
  xfer_loop (length l) 0 sn dn (map Some l ++ rest) (repeat None n) =
  Ok (slots l n, xfer_evs sn dn 0 (length l)).
Proof.
  intros H. pose proof (xfer_loop_gen l sn dn [] rest [] (repeat None (n - length l)) eq_refl) as X.
  cbn [app length] in X. rewrite <- repeat_app in X.
  replace (length l + (n - length l)) with n in X by lia. exact X.
Qed.

Definition destroy_evs (n : nm) (i k : nat) : list ev := map (fun j => EDestroy (n j)) (seq i k).

Lemma destroy_loop_gen : forall es n pre post,
  destroy_loop (length es) (length pre) n (pre ++ map Some es ++ post) =
  Ok (pre ++ repeat None (length es) ++ post, destroy_evs n (length pre) (length es)).
Proof.
  induction es as [|e es IH]; intros n pre post.
  - reflexivity.
  - cbn [length destroy_loop map repeat app]. rewrite destroy_mid. cbn [bind].
    specialize (IH n (pre ++ [None]) post).
    rewrite app_length in IH. cbn [length] in IH. rewrite Nat.add_1_r in IH.
    rewrite <- !app_assoc in IH. cbn [app] in IH.
    rewrite IH. cbn [bind]. unfold destroy_evs. cbn [seq map]. reflexivity.
Qed.

Lemma destroy_loop_at es n pre post i k : i = length pre -> k = length es ->
  destroy_loop k i n (pre ++ map Some es ++ post) = Ok (pre ++ repeat None k ++ post, destroy_evs n i k).
Proof. intros -> ->. apply destroy_loop_gen. Qed.

Definition fill_evs (n : nm) (i k : nat) : list ev := map (fun j => EConstruct (n j)) (seq i k).

Lemma fill_loop_gen : forall k n pre post v,
  fill_loop k (length pre) n (pre ++ repeat None k ++ post) v =
  Ok (pre ++ repeat (Some v) k ++ post, fill_evs n (length pre) k).
Proof.
  induction k as [|k IH]; intros n pre post v.
  - reflexivity.
  - cbn [fill_loop repeat app]. rewrite construct_mid. cbn [bind].
    specialize (IH n (pre ++ [Some v]) post v).
    rewrite app_length in IH. cbn [length] in IH. rewrite Nat.add_1_r in IH.
    rewrite <- !app_assoc in IH. cbn [app] in IH.
    rewrite IH. cbn [bind]. unfold fill_evs. cbn [seq map]. reflexivity.
Qed.

Lemma fill_loop_at k n pre post v i : i = length pre ->
  fill_loop k i n (pre ++ repeat None k ++ post) v = Ok (pre ++ repeat (Some v) k ++ post, fill_evs n i k).
Proof. intros ->. apply fill_loop_gen. Qed.

(* equality loop: the result is list equality; the events are reads of the compared prefixes *)
(* list equality under the element type's operator== [veq] (applied as veq a_i b_i; it need not be reflexive,
   symmetric or Leibniz equality) *)
Fixpoint list_eqb (veq : V -> V -> bool) (a b : list V) : bool :=
  match a, b with
  | [], [] => true
  | x :: a', y :: b' => veq x y && list_eqb veq a' b'
  | _, _ => false
  end.
Lemma list_eqb_eq veq : (forall x y, veq x y = true <-> x = y) -> forall a b, list_eqb veq a b = true <-> a = b.
Proof.
  intros Hv a. induction a as [|x a IH]; intros [|y b]; cbn [list_eqb]; try (split; congruence).
  rewrite andb_true_iff, Hv, IH. split; [intros [-> ->]; reflexivity | intros H; inversion H; auto].
Qed.
Lemma list_eqb_length veq a b : list_eqb veq a b = true -> length a = length b.
Proof.
  revert b; induction a as [|x a IH]; intros [|y b]; cbn [list_eqb length]; try congruence.
  intros H. apply andb_true_iff in H. destruct H as [_ H]. now rewrite (IH b H).
Qed.
Lemma list_eqb_spec veq a b : list_eqb veq a b = true <->
  length a = length b /\ forall i, i < length a -> veq (nth i a 0%N) (nth i b 0%N) = true.
Proof.
  revert b; induction a as [|x a IH]; intros [|y b]; cbn [list_eqb length].
  - split; [intros _; split; [reflexivity | intros i Hi; lia] | reflexivity].
  - split; [discriminate | intros [H _]; discriminate].
  - split; [discriminate | intros [H _]; discriminate].
  - rewrite andb_true_iff, IH. split.
    + intros (Hx & Hl & Hn). split; [lia|]. intros [|i] Hi; [exact Hx | apply Hn; lia].
    + intros (Hl & Hn). split; [apply (Hn 0); lia|]. split; [lia|]. intros i Hi. apply (Hn (S i)). lia.
Qed.

Definition use_only (an bn : nm) (lo hi : nat) (e : list ev) : Prop :=
  Forall (fun x => exists j, lo <= j < hi /\ (x = EUse (an j) \/ x = EUse (bn j))) e.

Lemma eq_loop_gen veq : forall ea eb an bn pa qa pb qb,
  length ea = length eb -> length pa = length pb ->
  exists e, eq_loop veq (length ea) (length pa) an bn (pa ++ map Some ea ++ qa) (pb ++ map Some eb ++ qb) =
            Ok (list_eqb veq ea eb, e) /\ use_only an bn (length pa) (length pa + length ea) e.
Proof.
  induction ea as [|x ea IH]; intros [|y eb] an bn pa qa pb qb Hl Hp; try discriminate.
  - exists []. split; [reflexivity | constructor].
  - cbn [length eq_loop map app list_eqb]. rewrite rd_mid. cbn [bind].
    rewrite Hp. rewrite rd_mid. cbn [bind]. rewrite <- Hp.
    destruct (veq x y) eqn:E.
    + specialize (IH eb an bn (pa ++ [Some x]) qa (pb ++ [Some y]) qb).
      rewrite !app_length in IH. cbn [length] in IH. rewrite !Nat.add_1_r in IH.
      rewrite <- !app_assoc in IH. cbn [app] in IH.
      destruct IH as [e [He Hu]]; [cbn [length] in Hl; lia | lia |].
      rewrite He. cbn [bind andb]. eexists. split; [reflexivity|].
      constructor; [exists (length pa); split; [lia | auto] |].
      constructor; [exists (length pa); split; [lia | auto] |].
      eapply Forall_impl; [|exact Hu]. intros a [j [Hj Ha]]. exists j. split; [lia | exact Ha].
    + cbn [andb]. eexists. split; [reflexivity|].
      constructor; [exists (length pa); split; [lia | auto] |].
      constructor; [exists (length pa); split; [lia | auto] | constructor].
Qed.

(* peek / observation *)
Lemma peek_all_slots l cap : length l <= cap -> peek_all (slots l cap) (length l) = map Some l.
Proof.
  intros H. unfold peek_all, slots.
  apply nth_ext with (d := None) (d' := None).
  - now rewrite !map_length, seq_length.
  - intros i Hi. rewrite map_length, seq_length in Hi.
    rewrite nth_indep with (d' := peek (map Some l ++ repeat None (cap - length l)) 0)
      by (now rewrite map_length, seq_length).
    rewrite map_nth, seq_nth by exact Hi. cbn [Nat.add].
    unfold peek. rewrite nth_error_app1 by (rewrite map_length; lia).
    rewrite nth_error_map, (nth_error_nth' l 0%N Hi). cbn [option_map].
    rewrite nth_indep with (d' := Some 0%N) by (rewrite map_length; lia).
    now rewrite map_nth.
Qed.

Lemma rd_slots_lt l cap i : i < length l -> rd (slots l cap) i = Ok (nth i l 0%N).
Proof.
  intros H. unfold rd, slots. rewrite nth_error_app1 by (rewrite map_length; lia).
  rewrite nth_error_map. rewrite (nth_error_nth' l 0%N H). reflexivity.
Qed.
Lemma rd_slots_ge l cap i : length l <= i -> rd (slots l cap) i = UB.
Proof.
  intros H. unfold rd, slots. rewrite nth_error_app2 by (rewrite map_length; lia).
  rewrite map_length. destruct (nth_error (repeat None (cap - length l)) (i - length l)) as [o|] eqn:E; [|reflexivity].
  apply nth_error_In, repeat_spec in E. now subst.
Qed.

(* ---- the same closed forms on [slots] buffers *)
Lemma slots_split l cap : length l < cap -> slots l cap = map Some l ++ None :: repeat None (cap - length l - 1).
Proof. intros H. unfold slots. remember (cap - length l - 1) as k. replace (cap - length l) with (S k) by lia. reflexivity. Qed.
Lemma slots_snoc l x cap : length l < cap -> map Some l ++ Some x :: repeat None (cap - length l - 1) = slots (l ++ [x]) cap.
Proof. intros H. unfold slots. rewrite map_app, app_length. cbn [map length]. rewrite <- app_assoc. cbn [app].
  do 3 f_equal. lia. Qed.
Lemma slots_nil cap : slots [] cap = repeat None cap.
Proof. unfold slots. cbn [map length app]. now rewrite Nat.sub_0_r. Qed.

Lemma construct_slots l x cap : length l < cap -> construct (slots l cap) (length l) x = Ok (slots (l ++ [x]) cap).
Proof. intros H. rewrite slots_split by lia. rewrite construct_mid'. now rewrite slots_snoc by lia. Qed.
Lemma rd_slots_last l x cap : length l < cap -> rd (slots (l ++ [x]) cap) (length l) = Ok x.
Proof. intros H. rewrite <- slots_snoc by lia. apply rd_mid'. Qed.
Lemma destroy_slots_last l x cap : length l < cap -> destroy (slots (l ++ [x]) cap) (length l) = Ok (slots l cap).
Proof. intros H. rewrite <- slots_snoc by lia. rewrite destroy_mid'. now rewrite <- slots_split by lia. Qed.

Lemma destroy_loop_slots_all l cap n : length l <= cap ->
  destroy_loop (length l) 0 n (slots l cap) = Ok (repeat None cap, destroy_evs n 0 (length l)).
Proof.
  intros H. pose proof (destroy_loop_gen l n [] (repeat None (cap - length l))) as D.
  cbn [app length] in D. unfold slots. rewrite D. rewrite <- repeat_app. do 3 f_equal. lia.
Qed.

Lemma destroy_loop_slots_tail l k cap n : k < length l -> length l <= cap ->
  destroy_loop (length l - k) k n (slots l cap) = Ok (slots (firstn k l) cap, destroy_evs n k (length l - k)).
Proof.
  intros Hk H.
  assert (Hsplit : slots l cap = map Some (firstn k l) ++ map Some (skipn k l) ++ repeat None (cap - length l)).
  { unfold slots. rewrite app_assoc, <- map_app, firstn_skipn. reflexivity. }
  rewrite Hsplit.
  rewrite (destroy_loop_at (skipn k l) n (map Some (firstn k l)) (repeat None (cap - length l)) k (length l - k))
    by (rewrite ?map_length, ?firstn_length, ?skipn_length; lia).
  f_equal. f_equal. unfold slots. rewrite firstn_length, Nat.min_l by lia. rewrite <- repeat_app. do 2 f_equal. lia.
Qed.

Lemma map_repeat {A B} (f : A -> B) x k : map f (repeat x k) = repeat (f x) k.
Proof. induction k as [|k IH]; [reflexivity|]. cbn [repeat map]. now rewrite IH. Qed.

Lemma fill_loop_slots l k x cap n : length l <= k -> k <= cap ->
  fill_loop (k - length l) (length l) n (slots l cap) x =
  Ok (slots (l ++ repeat x (k - length l)) cap, fill_evs n (length l) (k - length l)).
Proof.
  intros Hk H.
  assert (Hsplit : slots l cap = map Some l ++ repeat None (k - length l) ++ repeat None (cap - k)).
  { unfold slots. rewrite <- repeat_app. do 2 f_equal. lia. }
  rewrite Hsplit.
  rewrite (fill_loop_at (k - length l) n (map Some l) (repeat None (cap - k)) x (length l)) by (now rewrite map_length).
  f_equal. f_equal. unfold slots. rewrite map_app, app_length, repeat_length, <- app_assoc, map_repeat.
  do 3 f_equal. lia.
Qed.
