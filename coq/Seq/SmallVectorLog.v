(* frg::small_vector: the event log of every operation sequence followed by the destructors is well-formed
   and closed (C16).  Each container variable r has two footprint slots: 2r = its inline array (block 0,
   slots r*N ..), 2r+1 = its heap block (empty while the vector is small); slot 6 is spare. *)
From Coq Require Import List NArith Arith Bool Lia.
From FV Require Import Common.EventLog Seq.SlotModel Seq.SlotProofs Seq.LogProofs Seq.Footprint
  Seq.VectorModel Seq.VectorProofs Seq.VectorLog Seq.SmallVectorModel Seq.SmallVectorProofs.
Import ListNotations.

Section WithParams.
Variable esz : N.
Variable NI : nat.

Definition SK : nat := 7.
Definition sfp_inl (r : nat) (v : svec) : fpr := mk_fp 0 (r * NI) (if is_small NI v then s_size v else 0) NI None.
Definition sfp_heap (v : svec) : fpr :=
  if is_small NI v then fp0
  else mk_fp (s_blk v) 0 (s_size v) (s_cap v) (Some (s_blk v, (esz * N.of_nat (s_cap v))%N)).
Definition STR (ls : lstate) (fs : nat -> fpr) (nb : nat) : Prop := tracks SK ls fs /\ good SK nb fs /\ fs 6 = fp0.
Definition SL (r : nat) (v : svec) (fs : nat -> fpr) : Prop := fs (2 * r) = sfp_inl r v /\ fs (2 * r + 1) = sfp_heap v.
Definition set2 (fs : nat -> fpr) (r : nat) (v : svec) : nat -> fpr :=
  set_reg (set_reg fs (2 * r) (sfp_inl r v)) (2 * r + 1) (sfp_heap v).
Definition sz (v : svec) : Prop := is_small NI v = true -> s_blk v = 0.

Lemma STR_ext ls fs fs' nb : (forall j, fs' j = fs j) -> STR ls fs nb -> STR ls fs' nb.
Proof.
  intros E (T & G & Esp). split; [eapply tracks_ext; [|exact T]; intros; apply E|].
  split; [eapply good_ext; [|exact G]; intros; apply E | now rewrite E].
Qed.
Lemma STR_nz ls fs nb : STR ls fs nb -> nb <> 0.
Proof. intros (_ & (N & _) & _). exact N. Qed.

Lemma set2_same fs r v : SL r v fs -> forall j, set2 fs r v j = fs j.
Proof.
  intros (A & B) j. unfold set2, set_reg. destruct (Nat.eqb_spec j (2 * r + 1)) as [->|]; [now rewrite B|].
  destruct (Nat.eqb_spec j (2 * r)) as [->|]; [now rewrite A | reflexivity].
Qed.
Lemma SL_set2 fs r v : SL r v (set2 fs r v).
Proof.
  split; unfold set2; [rewrite set_reg_other by lia; now rewrite set_reg_same | now rewrite set_reg_same].
Qed.
Lemma set2_other fs r v j : j <> 2 * r -> j <> 2 * r + 1 -> set2 fs r v j = fs j.
Proof. intros A B. unfold set2. now rewrite !set_reg_other by assumption. Qed.
Lemma set2_set2 fs r v v' j : set2 (set2 fs r v) r v' j = set2 fs r v' j.
Proof. unfold set2, set_reg. destruct (Nat.eqb j (2 * r + 1)), (Nat.eqb j (2 * r)); reflexivity. Qed.

Lemma set2_cong fs fs' r v j : (forall k, fs k = fs' k) -> set2 fs r v j = set2 fs' r v j.
Proof. intros E. unfold set2, set_reg. destruct (Nat.eqb j (2 * r + 1)); [reflexivity|]. destruct (Nat.eqb j (2 * r)); [reflexivity | apply E]. Qed.

(* the footprint slot of the container in use *)
Definition cs (r : nat) (v : svec) : nat := if is_small NI v then 2 * r else 2 * r + 1.
Lemma cs_nm fs r v : SL r v fs -> f_nm (fs (cs r v)) = cont_nm NI (base_of NI r) v.
Proof.
  intros (A & B). unfold cs, cont_nm. destruct (is_small NI v) eqn:E.
  - rewrite A. reflexivity.
  - rewrite B. unfold sfp_heap. rewrite E. reflexivity.
Qed.
Lemma cs_size fs r v : SL r v fs -> f_size (fs (cs r v)) = s_size v.
Proof.
  intros (A & B). unfold cs. destruct (is_small NI v) eqn:E.
  - rewrite A. unfold sfp_inl. now rewrite E.
  - rewrite B. unfold sfp_heap. now rewrite E.
Qed.
Lemma cs_lim fs r v l : SL r v fs -> sinv NI v l -> f_lim (fs (cs r v)) = s_cap v.
Proof.
  intros (A & B) H. unfold cs. destruct (is_small NI v) eqn:E.
  - rewrite A. cbn. symmetry. eapply is_small_cap; eauto.
  - rewrite B. unfold sfp_heap. now rewrite E.
Qed.
Lemma cs_lt r v : r < 3 -> cs r v < 6.
Proof. intros H. unfold cs. destruct (is_small NI v); lia. Qed.

Lemma with_cont_small v l' : is_small NI (with_cont NI v l') = is_small NI v.
Proof. unfold with_cont, set_cont, set_size, is_small. destruct (Nat.leb (s_cap v) NI) eqn:E; cbn [s_cap]; now rewrite E. Qed.
Lemma with_cont_blk v l' : s_blk (with_cont NI v l') = s_blk v.
Proof. unfold with_cont, set_cont, set_size. destruct (is_small NI v); reflexivity. Qed.
Lemma with_cont_cap v l' : s_cap (with_cont NI v l') = s_cap v.
Proof. unfold with_cont, set_cont, set_size. destruct (is_small NI v); reflexivity. Qed.
Lemma with_cont_size v l' : s_size (with_cont NI v l') = length l'.
Proof. unfold with_cont, set_cont, set_size. destruct (is_small NI v); reflexivity. Qed.

(* resizing the footprint of the container in use = the footprints of [with_cont v l'] *)
Lemma set2_with_cont fs r v l' : SL r v fs ->
  forall j, set_reg fs (cs r v) (resize_fp (fs (cs r v)) (length l')) j = set2 fs r (with_cont NI v l') j.
Proof.
  intros (A & B) j. unfold set2, cs, sfp_inl, sfp_heap. rewrite with_cont_small, with_cont_blk, with_cont_cap, with_cont_size.
  destruct (is_small NI v) eqn:E; unfold set_reg.
  - destruct (Nat.eqb_spec j (2 * r + 1)) as [->|N1].
    + destruct (Nat.eqb_spec (2 * r + 1) (2 * r)); [lia|]. rewrite B. unfold sfp_heap. now rewrite E.
    + destruct (Nat.eqb_spec j (2 * r)); [|reflexivity]. rewrite A. reflexivity.
  - destruct (Nat.eqb_spec j (2 * r + 1)) as [->|N1].
    + rewrite B. unfold sfp_heap. rewrite E. reflexivity.
    + destruct (Nat.eqb_spec j (2 * r)) as [->|]; [|reflexivity]. rewrite A. unfold sfp_inl. now rewrite E.
Qed.

Lemma s_fill ls fs nb r v l l' : STR ls fs nb -> r < 3 -> SL r v fs -> sinv NI v l -> length l <= length l' -> length l' <= s_cap v ->
  exists ls', ev_run ls (fill_evs (cont_nm NI (base_of NI r) v) (length l) (length l' - length l)) = Some ls' /\
    STR ls' (set2 fs r (with_cont NI v l')) nb.
Proof.
  intros (T & G & Esp) Hr S H H1 H2. pose proof H as (Hs & _).
  destruct (fp_fill SK ls fs nb (cs r v) (length l') T G) as (ls' & E & T' & G').
  { pose proof (cs_lt r v Hr). unfold SK. lia. }
  { rewrite (cs_size fs r v S). lia. }
  { rewrite (cs_lim fs r v l S H). exact H2. }
  rewrite (cs_nm fs r v S), (cs_size fs r v S), Hs in E.
  exists ls'. split; [exact E|]. eapply STR_ext; [intros j; symmetry; apply (set2_with_cont fs r v l' S)|].
  split; [exact T'|]. split; [exact G'|]. rewrite set_reg_other; [exact Esp | pose proof (cs_lt r v Hr); lia].
Qed.

Lemma s_destroy_tail ls fs nb r v l l' : STR ls fs nb -> r < 3 -> SL r v fs -> sinv NI v l -> length l' <= length l ->
  exists ls', ev_run ls (destroy_evs (cont_nm NI (base_of NI r) v) (length l') (length l - length l')) = Some ls' /\
    STR ls' (set2 fs r (with_cont NI v l')) nb.
Proof.
  intros (T & G & Esp) Hr S H H1. pose proof H as (Hs & _).
  destruct (fp_destroy_tail SK ls fs nb (cs r v) (length l') T G) as (ls' & E & T' & G').
  { pose proof (cs_lt r v Hr). unfold SK. lia. }
  { rewrite (cs_size fs r v S). lia. }
  rewrite (cs_nm fs r v S), (cs_size fs r v S), Hs in E.
  exists ls'. split; [exact E|]. eapply STR_ext; [intros j; symmetry; apply (set2_with_cont fs r v l' S)|].
  split; [exact T'|]. split; [exact G'|]. rewrite set_reg_other; [exact Esp | pose proof (cs_lt r v Hr); lia].
Qed.


(* the allocator instance al is the one that handed out the heap block of v *)
Definition saok (al : nat) (v : svec) : Prop := al < NINST /\ (s_blk v <> 0 -> reenc al (s_blk v) = s_blk v).

Lemma free_ev_heap al v : f_heap (sfp_heap v) <> None -> s_blk v <> 0 -> saok al v ->
  match f_heap (sfp_heap v) with
  | None => free_ev al (s_blk v) = []
  | Some (b, n) => free_ev al (s_blk v) = [EFree b] \/ free_ev al (s_blk v) = [EDealloc b n] end.
Proof.
  intros Hh Hb (_ & Ak). unfold sfp_heap, free_ev in *. destruct (is_small NI v); cbn [f_heap fp0] in *.
  - congruence.
  - rewrite (proj2 (Nat.eqb_neq _ _) Hb). left. now rewrite (Ak Hb).
Qed.

(* the heap block of a vector in heap mode is not null (read off the footprint's well-formedness) *)
Lemma heap_blk_nz ls fs nb r v : STR ls fs nb -> r < 3 -> SL r v fs -> is_small NI v = false -> s_blk v <> 0.
Proof.
  intros (_ & (_ & O & _) & _) Hr (_ & B) E. assert (Hi : 2 * r + 1 < SK) by (unfold SK; lia).
  destruct (O _ Hi) as (_ & _ & _ & D). rewrite B in D. unfold sfp_heap in D. rewrite E in D. cbn [f_heap] in D.
  destruct (D _ _ eq_refl) as (_ & Hz & _). exact Hz.
Qed.

Lemma STR_mono ls fs nb nb' : nb <= nb' -> STR ls fs nb -> STR ls fs nb'.
Proof. intros H (T & G & E). split; [exact T|]. split; [eapply good_mono; eauto | exact E]. Qed.

(* ---- _ensure_capacity *)
Lemma s_grow ls fs al nb r v l c : STR ls fs (NINST * nb) -> r < 3 -> SL r v fs -> sinv NI v l -> sz v -> saok al v ->
  exists ls', ev_run ls (sgrow_evs esz NI al (enc al nb) (base_of NI r) c v l) = Some ls' /\
    STR ls' (set2 fs r (sgrown NI (enc al nb) c v l)) (NINST * grown_nb nb c (mk_vec 0 [] 0 (s_cap v))).
Proof.
  intros TRs Hr SLr H Z Ak. pose proof TRs as (T & G & Esp). pose proof G as (Nz & _). pose proof H as (Hs & Hc & Hn & _).
  pose proof SLr as (SA & SB). pose proof Ak as (Al & _).
  unfold sgrow_evs, sgrown, grown_nb. cbn [v_cap].
  destruct (Nat.leb c (s_cap v)) eqn:E.
  - exists ls. split; [reflexivity|]. eapply STR_ext; [apply (set2_same fs r v SLr) | exact TRs].
  - apply Nat.leb_gt in E. set (b := enc al nb).
    assert (Bz : b <> 0) by (pose proof (enc_ge al nb); unfold b; lia).
    assert (Gsm : is_small NI (mk_sv (repeat None NI) b (slots l (2 * c)) (length l) (2 * c)) = false).
    { unfold is_small. cbn [s_cap]. apply Nat.leb_gt. lia. }
    destruct (is_small NI v) eqn:Esm.
    + (* inline -> heap *)
      rewrite (Z Esm). unfold free_ev. cbn [Nat.eqb]. rewrite app_nil_r.
      assert (H1 : 2 * r + 1 < SK) by (unfold SK; lia). assert (H0 : 2 * r < SK) by (unfold SK; lia).
      destruct (fp_alloc SK ls fs (NINST * nb) b (2 * r + 1) (2 * c) (esz * N.of_nat (2 * c))%N T G H1) as (l1 & E1 & T1 & G1).
      { rewrite SB. unfold sfp_heap. now rewrite Esm. }
      { rewrite SB. unfold sfp_heap. now rewrite Esm. }
      { apply enc_ge. }
      set (f1 := mk_fp b 0 0 (2 * c) (Some (b, (esz * N.of_nat (2 * c))%N))) in *.
      set (fs1 := set_reg fs (2 * r + 1) f1) in *.
      assert (F1a : fs1 (2 * r) = sfp_inl r v) by (unfold fs1; rewrite set_reg_other by lia; exact SA).
      assert (F1b : fs1 (2 * r + 1) = f1) by (unfold fs1; now rewrite set_reg_same).
      destruct (fp_xfer SK l1 fs1 (S b) (2 * r) (2 * r + 1) T1 G1 H0 H1) as (l2 & E2 & T2 & G2); [lia | now rewrite F1b | |].
      { rewrite F1a, F1b. unfold sfp_inl. rewrite Esm. cbn [f_size f_lim f1]. lia. }
      rewrite F1a, F1b in E2, T2, G2. unfold sfp_inl in E2, T2, G2. rewrite Esm in E2, T2, G2.
      cbn [f_size f_nm f_k f_off f1] in E2, T2, G2. rewrite Hs in E2, T2, G2.
      set (fs2 := set_reg fs1 (2 * r + 1) (resize_fp f1 (length l))) in *.
      assert (F2a : fs2 (2 * r) = mk_fp 0 (r * NI) (length l) NI None).
      { unfold fs2. rewrite set_reg_other by lia. rewrite F1a. unfold sfp_inl. now rewrite Esm, Hs. }
      destruct (fp_destroy_tail SK l2 fs2 (S b) (2 * r) 0 T2 G2 H0 (Nat.le_0_l _)) as (l3 & E3 & T3 & G3).
      rewrite F2a in E3, T3, G3. cbn [f_size f_nm f_k f_off] in E3. rewrite Nat.sub_0_r in E3.
      exists l3. split.
      * unfold cont_nm. rewrite Esm. unfold base_of.
        change (EAlloc b ?x :: ?y) with ([EAlloc b x] ++ y).
        rewrite (ev_run_app_some _ _ _ _ E1). rewrite (ev_run_app_some _ _ _ _ E2). exact E3.
      * apply (STR_mono _ _ (S b)); [now apply enc_lt|].
        eapply STR_ext with (fs := set_reg fs2 (2 * r) (resize_fp (mk_fp 0 (r * NI) (length l) NI None) 0)).
        -- intros j. unfold set2, sfp_inl, sfp_heap. rewrite Gsm. cbn [s_blk s_size s_cap].
           unfold fs2, fs1, set_reg, resize_fp, f1. cbn [f_k f_off f_lim f_heap].
           destruct (Nat.eqb_spec j (2 * r + 1)) as [->|N1].
           ++ destruct (Nat.eqb_spec (2 * r + 1) (2 * r)); [lia | reflexivity].
           ++ destruct (Nat.eqb_spec j (2 * r)); reflexivity.
        -- split; [exact T3|]. split; [exact G3|]. unfold fs2, fs1. rewrite !set_reg_other by lia. exact Esp.
    + (* heap -> heap *)
      assert (Hbz : s_blk v <> 0) by (eapply heap_blk_nz; eauto).
      assert (H1 : 2 * r + 1 < SK) by (unfold SK; lia).
      destruct (fp_relocate SK ls fs (NINST * nb) b (2 * r + 1) 6 (2 * c) (esz * N.of_nat (2 * c))%N (free_ev al (s_blk v)) T G H1) as (l1 & E1 & T1 & G1);
        try (unfold SK; lia); try exact Esp.
      { rewrite SB. unfold sfp_heap. rewrite Esm. cbn [f_size]. lia. }
      { apply enc_ge. }
      { rewrite SB. apply free_ev_heap; [|exact Hbz | exact Ak]. unfold sfp_heap. rewrite Esm. discriminate. }
      rewrite SB in E1, T1, G1. unfold sfp_heap in E1, T1, G1. rewrite Esm in E1, T1, G1.
      cbn [f_size f_nm f_k f_off] in E1, T1, G1. rewrite Hs in E1, T1, G1.
      exists l1. split.
      * unfold cont_nm. rewrite Esm. rewrite !heap_nm_nmk. exact E1.
      * apply (STR_mono _ _ (S b)); [now apply enc_lt|].
        eapply STR_ext with (fs := set_reg fs (2 * r + 1) _); [|split; [exact T1|]; split; [exact G1|]; rewrite set_reg_other by lia; exact Esp].
        intros j. unfold set2, sfp_inl, sfp_heap. rewrite Gsm. cbn [s_blk s_size s_cap]. unfold set_reg.
        destruct (Nat.eqb_spec j (2 * r + 1)) as [->|N1]; [reflexivity|].
        destruct (Nat.eqb_spec j (2 * r)) as [->|]; [|reflexivity]. rewrite SA. unfold sfp_inl. now rewrite Esm.
Qed.

Lemma sz_grown nb c v l : sinv NI v l -> sz v -> sz (sgrown NI nb c v l).
Proof.
  intros (_ & _ & Hn & _) Z. unfold sgrown. destruct (Nat.leb c (s_cap v)) eqn:E; [exact Z|].
  intros Hs. unfold is_small in Hs. cbn [s_cap] in Hs. apply Nat.leb_gt in E. apply Nat.leb_le in Hs. lia.
Qed.
Lemma sz_with_cont v l' : sz v -> sz (with_cont NI v l').
Proof. intros Z. unfold sz. rewrite with_cont_small, with_cont_blk. exact Z. Qed.
Lemma sz_empty inl0 : sz (sv_empty NI inl0).
Proof. intros _. reflexivity. Qed.

Lemma sfp_empty r inl0 : sfp_inl r (sv_empty NI inl0) = mk_fp 0 (r * NI) 0 NI None /\ sfp_heap (sv_empty NI inl0) = fp0.
Proof. unfold sfp_inl, sfp_heap, sv_empty, is_small. cbn [s_cap s_size]. now rewrite Nat.leb_refl. Qed.

(* ---- destructor *)
Lemma s_destruct ls fs al nb r v l inl0 : STR ls fs nb -> r < 3 -> SL r v fs -> sinv NI v l -> saok al v ->
  exists ls', ev_run ls (destroy_evs (cont_nm NI (base_of NI r) v) 0 (length l)
                         ++ (if is_small NI v then [] else [EDealloc (reenc al (s_blk v)) (esz * N.of_nat (s_cap v))%N])) = Some ls' /\
    STR ls' (set2 fs r (sv_empty NI inl0)) nb.
Proof.
  intros TRs Hr SLr H (_ & Ak). pose proof TRs as (T & G & Esp). pose proof G as (Nz & _). pose proof H as (Hs & _).
  pose proof SLr as (SA & SB). destruct (sfp_empty r inl0) as (EA & EB).
  destruct (is_small NI v) eqn:Esm.
  - rewrite app_nil_r. assert (H0 : 2 * r < SK) by (unfold SK; lia).
    destruct (fp_destroy_tail SK ls fs nb (2 * r) 0 T G H0 (Nat.le_0_l _)) as (l1 & E1 & T1 & G1).
    rewrite SA in E1, T1, G1. unfold sfp_inl in E1, T1, G1. rewrite Esm in E1, T1, G1.
    cbn [f_size f_nm f_k f_off] in E1. rewrite Nat.sub_0_r, Hs in E1.
    exists l1. split; [unfold cont_nm; rewrite Esm; exact E1|].
    eapply STR_ext with (fs := set_reg fs (2 * r) _); [|split; [exact T1|]; split; [exact G1|]; rewrite set_reg_other by lia; exact Esp].
    intros j. unfold set2. rewrite EA, EB. unfold set_reg.
    destruct (Nat.eqb_spec j (2 * r + 1)) as [->|N1].
    + destruct (Nat.eqb_spec (2 * r + 1) (2 * r)); [lia|]. rewrite SB. unfold sfp_heap. now rewrite Esm.
    + destruct (Nat.eqb_spec j (2 * r)); reflexivity.
  - assert (H1 : 2 * r + 1 < SK) by (unfold SK; lia).
    assert (Hbz : s_blk v <> 0) by (eapply heap_blk_nz; eauto). rewrite (Ak Hbz).
    destruct (fp_destruct SK ls fs nb (2 * r + 1) fp0 [EDealloc (s_blk v) (esz * N.of_nat (s_cap v))%N] T G H1 eq_refl eq_refl) as (l1 & E1 & T1 & G1).
    { now apply fp_ok_fp0. }
    { intros j _ _. apply sep_fp0. }
    { rewrite SB. unfold sfp_heap. rewrite Esm. cbn [f_heap]. now right. }
    rewrite SB in E1. unfold sfp_heap in E1. rewrite Esm in E1. cbn [f_size f_nm f_k f_off] in E1. rewrite Hs in E1.
    exists l1. split; [unfold cont_nm; rewrite Esm; rewrite heap_nm_nmk; exact E1|].
    eapply STR_ext with (fs := set_reg fs (2 * r + 1) fp0); [|split; [exact T1|]; split; [exact G1|]; rewrite set_reg_other by lia; exact Esp].
    intros j. unfold set2. rewrite EA, EB. unfold set_reg.
    destruct (Nat.eqb_spec j (2 * r + 1)) as [->|N1]; [reflexivity|].
    destruct (Nat.eqb_spec j (2 * r)) as [->|]; [|reflexivity]. rewrite SA. unfold sfp_inl. now rewrite Esm.
Qed.

(* ---- copy construction into the (empty) register t from register s *)
Lemma s_copy ls fs al nb s t o l inl0 : STR ls fs (NINST * nb) -> s < 3 -> t < 3 -> s <> t -> SL s o fs -> SL t (sv_empty NI inl0) fs ->
  sinv NI o l -> al < NINST ->
  let g := sgrown NI (enc al nb) (length l) (sv_empty NI (repeat None NI)) [] in
  exists ls', ev_run ls (sgrow_evs esz NI al (enc al nb) (base_of NI t) (length l) (sv_empty NI (repeat None NI)) []
                         ++ xfer_evs (cont_nm NI (base_of NI s) o) (cont_nm NI (base_of NI t) g) 0 (length l)) = Some ls' /\
    STR ls' (set2 fs t (scopied NI (enc al nb) l)) (NINST * grown_nb nb (length l) (mk_vec 0 [] 0 NI)).
Proof.
  intros TRs Hs Ht Nst SLs SLt H Al g. set (b := enc al nb) in *.
  assert (Bz : b <> 0) by (pose proof (enc_ge al nb); pose proof (STR_nz _ _ _ TRs); unfold b; lia). pose proof TRs as (T & G & Esp). pose proof G as (Nz & _). pose proof H as (Os & Oc & On & _).
  pose proof SLt as (TA & TB). destruct (sfp_empty t inl0) as (EA & EB). rewrite EA in TA. rewrite EB in TB.
  assert (Hcs : cs s o < SK) by (pose proof (cs_lt s o Hs); unfold SK; lia).
  unfold sgrow_evs, grown_nb, scopied. cbn [v_cap s_cap sv_empty]. fold g. unfold g, sgrown. cbn [s_cap sv_empty].
  destruct (Nat.leb (length l) NI) eqn:E.
  - (* stays inline *)
    apply Nat.leb_le in E. cbn [app].
    assert (Sm : is_small NI (sv_empty NI (repeat None NI)) = true) by (unfold is_small, sv_empty; cbn [s_cap]; apply Nat.leb_refl).
    assert (H0 : 2 * t < SK) by (unfold SK; lia).
    destruct (fp_xfer SK ls fs (NINST * nb) (cs s o) (2 * t) T G Hcs H0) as (l1 & E1 & T1 & G1).
    { unfold cs. destruct (is_small NI o); lia. }
    { now rewrite TA. }
    { rewrite (cs_size fs s o SLs), TA, Os. cbn [f_lim]. exact E. }
    rewrite (cs_nm fs s o SLs), (cs_size fs s o SLs), TA, Os in E1. rewrite (cs_size fs s o SLs), TA, Os in T1, G1. cbn [f_nm f_k f_off] in E1.
    exists l1. split; [unfold cont_nm at 2; rewrite Sm; exact E1|].
    eapply STR_ext with (fs := set_reg fs (2 * t) _); [|split; [exact T1|]; split; [exact G1|]; rewrite set_reg_other by lia; exact Esp].
    intros j. unfold set2, sfp_inl, sfp_heap. rewrite with_cont_small, with_cont_size, Sm. unfold set_reg, resize_fp. cbn [f_k f_off f_lim f_heap].
    destruct (Nat.eqb_spec j (2 * t + 1)) as [->|N1].
    + destruct (Nat.eqb_spec (2 * t + 1) (2 * t)); [lia | now rewrite TB].
    + destruct (Nat.eqb_spec j (2 * t)); reflexivity.
  - (* directly on the heap *)
    apply Nat.leb_gt in E. unfold free_ev. cbn [length xfer_evs destroy_evs seq flat_map map app s_blk sv_empty Nat.eqb].
    set (gh := mk_sv (repeat None NI) b (slots [] (2 * length l)) 0 (2 * length l)).
    assert (Gsm : is_small NI gh = false) by (unfold is_small, gh; cbn [s_cap]; apply Nat.leb_gt; lia).
    assert (H1 : 2 * t + 1 < SK) by (unfold SK; lia).
    destruct (fp_alloc SK ls fs (NINST * nb) b (2 * t + 1) (2 * length l) (esz * N.of_nat (2 * length l))%N T G H1) as (l1 & E1 & T1 & G1);
      [now rewrite TB | now rewrite TB | apply enc_ge|].
    set (f1 := mk_fp b 0 0 (2 * length l) (Some (b, (esz * N.of_nat (2 * length l))%N))) in *.
    set (fs1 := set_reg fs (2 * t + 1) f1) in *.
    assert (SLs1 : SL s o fs1).
    { destruct SLs as (A & B). split; unfold fs1; rewrite set_reg_other by lia; assumption. }
    assert (F1b : fs1 (2 * t + 1) = f1) by (unfold fs1; now rewrite set_reg_same).
    destruct (fp_xfer SK l1 fs1 (S b) (cs s o) (2 * t + 1) T1 G1 Hcs H1) as (l2 & E2 & T2 & G2).
    { unfold cs. destruct (is_small NI o); lia. }
    { now rewrite F1b. }
    { rewrite (cs_size fs1 s o SLs1), F1b, Os. cbn [f_lim f1]. lia. }
    rewrite (cs_nm fs1 s o SLs1), (cs_size fs1 s o SLs1), F1b, Os in E2. rewrite (cs_size fs1 s o SLs1), F1b, Os in T2, G2. cbn [f_nm f_k f_off f1] in E2.
    exists l2. split.
    + change (EAlloc b ?y :: ?x) with ([EAlloc b y] ++ x).
      rewrite (ev_run_app_some _ _ _ _ E1). unfold cont_nm at 2. rewrite Gsm. unfold gh. cbn [s_blk]. rewrite heap_nm_nmk. exact E2.
    + apply (STR_mono _ _ (S b)); [now apply enc_lt|].
      eapply STR_ext with (fs := set_reg fs1 (2 * t + 1) _);
        [|split; [exact T2|]; split; [exact G2|]; unfold fs1; rewrite !set_reg_other by lia; exact Esp].
      intros j. fold gh. unfold set2, sfp_inl, sfp_heap. rewrite with_cont_small, with_cont_size, with_cont_blk, with_cont_cap, Gsm.
      unfold fs1, set_reg, resize_fp, f1, gh. cbn [f_k f_off f_lim f_heap s_blk s_cap].
      destruct (Nat.eqb_spec j (2 * t + 1)) as [->|N1]; [reflexivity|].
      destruct (Nat.eqb_spec j (2 * t)) as [->|]; [now rewrite TA | reflexivity].
Qed.


(* ---- swap *)
Lemma sinl_size fs r v l : SL r v fs -> sinv NI v l -> f_size (fs (2 * r)) = length (inl_list NI v l) /\ length (inl_list NI v l) <= NI.
Proof.
  intros (A & _) H. destruct (sinv_inl NI v l H) as (_ & Hl). split; [|exact Hl].
  rewrite A. unfold sfp_inl, inl_list. cbn [f_size]. destruct H as (-> & _). now destruct (is_small NI v).
Qed.

Lemma s_swap ls fs nb a b va vb la lb : STR ls fs nb -> a < 3 -> b < 3 -> a <> b -> SL a va fs -> SL b vb fs ->
  sinv NI va la -> sinv NI vb lb ->
  exists ls', ev_run ls (inl_swap_evs (inl_nm (base_of NI a)) (inl_nm (base_of NI b))
                           (length (inl_list NI va la)) (length (inl_list NI vb lb))) = Some ls' /\
    STR ls' (set2 (set2 fs a (swapped NI va vb lb)) b (swapped NI vb va la)) nb.
Proof.
  intros TRs Ha Hb Nab SLa SLb Hva Hvb. pose proof TRs as (T & G & Esp).
  destruct (sinl_size fs a va la SLa Hva) as (Sa & La). destruct (sinl_size fs b vb lb SLb Hvb) as (Sb & Lb).
  pose proof SLa as (AA & AB). pose proof SLb as (BA & BB).
  assert (H2a : 2 * a < SK) by (unfold SK; lia). assert (H2b : 2 * b < SK) by (unfold SK; lia).
  destruct (fp_swap_inline SK ls fs nb (2 * a) (2 * b) T G H2a H2b) as (l1 & E1 & T1 & G1); [lia | | |].
  { rewrite Sb, AA. cbn [f_lim sfp_inl]. exact Lb. }
  { rewrite Sa, BA. cbn [f_lim sfp_inl]. exact La. }
  rewrite Sa, Sb in E1, T1, G1. rewrite AA, BA in E1. cbn [f_nm sfp_inl f_k f_off] in E1.
  exists l1. split; [exact E1|].
  set (fs1 := set_reg (set_reg fs (2 * a) (resize_fp (fs (2 * a)) (length (inl_list NI vb lb)))) (2 * b)
                      (resize_fp (fs (2 * b)) (length (inl_list NI va la)))) in *.
  assert (T2 : STR l1 (swap_slots fs1 (2 * a + 1) (2 * b + 1)) nb).
  { split; [apply tracks_swap; [unfold SK; lia | unfold SK; lia | exact T1]|].
    split; [apply good_swap; [unfold SK; lia | unfold SK; lia | exact G1]|].
    rewrite swap_slots_at. destruct (Nat.eqb_spec 6 (2 * b + 1)); [lia|]. destruct (Nat.eqb_spec 6 (2 * a + 1)); [lia|].
    unfold fs1. rewrite !set_reg_other by lia. exact Esp. }
  eapply STR_ext; [|exact T2]. intros j. rewrite swap_slots_at. unfold set2, fs1.
  assert (Ia : sfp_inl a (swapped NI va vb lb) = resize_fp (fs (2 * a)) (length (inl_list NI vb lb))).
  { rewrite AA. unfold sfp_inl, swapped, resize_fp, is_small, inl_list. cbn [s_cap s_size f_k f_off f_lim f_heap]. unfold is_small.
    destruct Hvb as (-> & _). now destruct (Nat.leb (s_cap vb) NI). }
  assert (Ib : sfp_inl b (swapped NI vb va la) = resize_fp (fs (2 * b)) (length (inl_list NI va la))).
  { rewrite BA. unfold sfp_inl, swapped, resize_fp, is_small, inl_list. cbn [s_cap s_size f_k f_off f_lim f_heap]. unfold is_small.
    destruct Hva as (-> & _). now destruct (Nat.leb (s_cap va) NI). }
  assert (Ha' : sfp_heap (swapped NI va vb lb) = fs (2 * b + 1)).
  { rewrite BB. unfold sfp_heap, swapped, is_small. cbn [s_cap s_size s_blk]. reflexivity. }
  assert (Hb' : sfp_heap (swapped NI vb va la) = fs (2 * a + 1)).
  { rewrite AB. unfold sfp_heap, swapped, is_small. cbn [s_cap s_size s_blk]. reflexivity. }
  rewrite Ia, Ib, Ha', Hb'. unfold set_reg.
  destruct (Nat.eqb_spec j (2 * b + 1)) as [->|N1].
  - destruct (Nat.eqb_spec (2 * a + 1) (2 * b)); [lia|]. destruct (Nat.eqb_spec (2 * a + 1) (2 * a)); [lia | reflexivity].
  - destruct (Nat.eqb_spec j (2 * b)) as [->|N2].
    + destruct (Nat.eqb_spec (2 * b) (2 * a + 1)); [lia | reflexivity].
    + destruct (Nat.eqb_spec j (2 * a + 1)) as [->|N3].
      * destruct (Nat.eqb_spec (2 * b + 1) (2 * b)); [lia|]. destruct (Nat.eqb_spec (2 * b + 1) (2 * a)); [lia | reflexivity].
      * reflexivity.
Qed.

Lemma sz_swapped a b lb : sz b -> sz (swapped NI a b lb).
Proof. intros Z. unfold sz, swapped, is_small. cbn [s_cap s_blk]. exact Z. Qed.

(* ================================================================== the whole register file *)
Definition sfs (rg : nat -> svec) : nat -> fpr := set2 (set2 (set2 (fun _ => fp0) 0 (rg 0)) 1 (rg 1)) 2 (rg 2).

Lemma sfs_SL rg r : r < 3 -> SL r (rg r) (sfs rg).
Proof.
  intros Hr. destruct r as [|[|[|r]]]; try lia; split; unfold sfs, set2, set_reg; cbn [Nat.eqb Nat.mul Nat.add]; reflexivity.
Qed.
Lemma sfs_6 rg : sfs rg 6 = fp0.
Proof. reflexivity. Qed.
Lemma sfs_set rg r v j : r < 3 -> sfs (set_reg rg r v) j = set2 (sfs rg) r v j.
Proof.
  intros Hr. destruct r as [|[|[|r]]]; try lia; unfold sfs, set2, set_reg; cbn [Nat.eqb Nat.mul Nat.add];
    do 7 (destruct j as [|j]; [reflexivity|]); reflexivity.
Qed.

Definition sregs_ok (o : sop) : Prop :=
  match o with
  | SPush r _ | SPushMove r _ | SEmplace r _ | SPop r | SResize r _ _ | SFront r | SBack r | SIndex r _ => r < 3
  | SCopyCtor r s | SMoveCtor r s | SSwap r s => r < 3 /\ s < 3
  end.
(* per-vector side invariants: a small vector has no heap block; the allocator instance handed out the heap block *)
Definition sok (al : nat) (v : svec) : Prop := sz v /\ saok al v.
Definition soks (al : nat -> nat) (rg : nat -> svec) : Prop := forall r, sok (al r) (rg r).
Lemma soks_set al rg r a v : soks al rg -> sok a v -> soks (set_reg al r a) (set_reg rg r v).
Proof. intros Z Hv k. unfold set_reg. destruct (Nat.eqb k r); [exact Hv | apply Z]. Qed.
Lemma soks_set_reg al rg r v : soks al rg -> sok (al r) v -> soks al (set_reg rg r v).
Proof. intros Z Hv k. unfold set_reg. destruct (Nat.eqb_spec k r) as [->|]; [exact Hv | apply Z]. Qed.

Lemma sok_grown al nb c v l : al < NINST -> sinv NI v l -> sok al v -> sok al (sgrown NI (enc al nb) c v l).
Proof.
  intros Al H (Z & A). split; [now apply sz_grown|]. split; [exact Al|].
  unfold sgrown. destruct (Nat.leb c (s_cap v)); [apply A | intros _; cbn [s_blk]; now apply reenc_enc].
Qed.
Lemma sok_with_cont al v l' : sok al v -> sok al (with_cont NI v l').
Proof. intros (Z & Al & A). split; [now apply sz_with_cont|]. split; [exact Al | now rewrite with_cont_blk]. Qed.
Lemma sok_empty al inl0 : al < NINST -> sok al (sv_empty NI inl0).
Proof. intros Al. split; [apply sz_empty|]. split; [exact Al | intros H; cbn in H; congruence]. Qed.
Lemma sok_swapped al a b lb : sok al b -> sok al (swapped NI a b lb).
Proof. intros (Z & Al & A). split; [now apply sz_swapped|]. split; [exact Al | exact A]. Qed.

Lemma STR_reg rg r v' ls' nb' : r < 3 -> STR ls' (set2 (sfs rg) r v') nb' -> STR ls' (sfs (set_reg rg r v')) nb'.
Proof. intros Hr T. eapply STR_ext; [|exact T]. intros j. now apply sfs_set. Qed.

Lemma sstep_log st rs o ls :
  srel NI st rs -> soks (sals st) (sregs st) -> STR ls (sfs (sregs st)) (NINST * snextb st) -> sref_pre rs o -> sregs_ok o ->
  match sref_step rs o with
  | Some (rs', out) =>
    exists st' e ls', sstep esz NI st o = Ok (st', out, e) /\ ev_run ls e = Some ls' /\
      srel NI st' rs' /\ soks (sals st') (sregs st') /\ STR ls' (sfs (sregs st')) (NINST * snextb st')
  | None => sstep esz NI st o = AssertStop
  end.
Proof.
  intros R Z T P RO.
  pose proof (sstep_refines esz NI st rs o R P) as Href.
  destruct (sref_step rs o) as [[rs' out]|] eqn:Eref; [|exact Href].
  destruct Href as (st0 & e0 & Hstep & R').
  destruct st as [rg al nb]. pose proof R as R0. unfold srel in R0. cbn [sregs sals snextb] in *.
  assert (Fin : forall st' e ls', sstep esz NI (mk_sst rg al nb) o = Ok (st', out, e) ->
            ev_run ls e = Some ls' -> soks (sals st') (sregs st') -> STR ls' (sfs (sregs st')) (NINST * snextb st') ->
            exists st' e ls', sstep esz NI (mk_sst rg al nb) o = Ok (st', out, e) /\ ev_run ls e = Some ls' /\
              srel NI st' rs' /\ soks (sals st') (sregs st') /\ STR ls' (sfs (sregs st')) (NINST * snextb st')).
  { intros st' e ls' H1 H2 H3 H4. exists st', e, ls'. split; [exact H1|]. split; [exact H2|]. split; [|split; assumption].
    rewrite Hstep in H1. inversion H1; subst. exact R'. }
  clear Hstep R'.
  destruct o as [r x|r x|r x|r|r n x|r|r|r i|r s|r s|r s]; cbn [sstep sregs sals snextb sref_step sref_pre sregs_ok] in *.
  1-3: (inversion Eref; subst rs' out; clear Eref; destruct (Z r) as (Zr & Ar); pose proof Ar as (Alr & _);
    destruct (s_grow ls (sfs rg) (al r) nb r (rg r) (rs r) (length (rs r) + 1) T RO (sfs_SL rg r RO) (R0 r) Zr Ar) as (l1 & E1 & T1);
    set (g := sgrown NI (enc (al r) nb) (length (rs r) + 1) (rg r) (rs r)) in *;
    destruct (sgrown_inv NI (enc (al r) nb) (length (rs r) + 1) (rg r) (rs r) (R0 r)) as (Gi & Gc); fold g in Gi, Gc;
    destruct (s_fill l1 _ _ r g (rs r) (rs r ++ [x]) T1 RO (SL_set2 _ r g) Gi) as (l2 & E2 & T2);
      [rewrite app_length; cbn [length]; lia | rewrite app_length; cbn [length]; lia |];
    rewrite app_length in E2; cbn [length] in E2; replace (length (rs r) + 1 - length (rs r)) with 1 in E2 by lia;
    eapply Fin; [rewrite (sv_push_eq esz NI (al r) nb (base_of NI r) x (rg r) (rs r) (R0 r)); reflexivity
                | rewrite (ev_run_app_some _ _ _ _ E1); exact E2 | |];
    [cbn [sregs sals]; apply soks_set_reg; [exact Z | apply sok_with_cont; apply sok_grown; [exact Alr | apply R0 | apply Z]]
    | cbn [sregs snextb]; apply STR_reg; [exact RO|]; eapply STR_ext; [|exact T2]; intros j; now rewrite set2_set2]).
  - (* pop_back *)
    destruct (rs r) as [|a l0] eqn:E; [discriminate|]. rewrite <- E in *.
    assert (NE : rs r <> []) by (rewrite E; discriminate).
    destruct (exists_last NE) as (l & x & E'). pose proof (R0 r) as Hr. rewrite E' in Hr.
    inversion Eref; subst rs' out; clear Eref.
    destruct (s_destroy_tail ls (sfs rg) _ r (rg r) (l ++ [x]) l T RO (sfs_SL rg r RO) Hr) as (l1 & E1 & T1); [rewrite app_length; lia|].
    rewrite app_length in E1. cbn [length] in E1. replace (length l + 1 - length l) with 1 in E1 by lia.
    eapply Fin; [rewrite (sv_pop_eq NI (base_of NI r) (rg r) l x Hr); reflexivity | exact E1 | |].
    + cbn [sregs sals]. apply soks_set_reg; [exact Z | apply sok_with_cont, Z].
    + cbn [sregs snextb]. apply STR_reg; [exact RO|]. exact T1.
  - (* resize *)
    inversion Eref; subst rs' out; clear Eref. destruct (Z r) as (Zr & Ar). pose proof Ar as (Alr & _).
    destruct (s_grow ls (sfs rg) (al r) nb r (rg r) (rs r) n T RO (sfs_SL rg r RO) (R0 r) Zr Ar) as (l1 & E1 & T1).
    set (g := sgrown NI (enc (al r) nb) n (rg r) (rs r)) in *.
    destruct (sgrown_inv NI (enc (al r) nb) n (rg r) (rs r) (R0 r)) as (Gi & Gc). fold g in Gi, Gc.
    pose proof (resized_list_length n x (rs r)) as Ln.
    assert (exists l2, ev_run l1 (sresize_evs NI (enc (al r) nb) (base_of NI r) n (rg r) (rs r)) = Some l2 /\
              STR l2 (set2 (set2 (sfs rg) r g) r (with_cont NI g (resized_list n x (rs r)))) (NINST * grown_nb nb n (mk_vec 0 [] 0 (s_cap (rg r))))) as (l2 & E2 & T2).
    { unfold sresize_evs. fold g. destruct (Nat.ltb n (length (rs r))) eqn:En.
      - apply Nat.ltb_lt in En.
        destruct (s_destroy_tail l1 _ _ r g (rs r) (resized_list n x (rs r)) T1 RO (SL_set2 _ r g) Gi) as (l2 & E2 & T2); [lia|].
        rewrite Ln in E2. eauto.
      - apply Nat.ltb_ge in En.
        destruct (s_fill l1 _ _ r g (rs r) (resized_list n x (rs r)) T1 RO (SL_set2 _ r g) Gi) as (l2 & E2 & T2); [lia | lia|].
        rewrite Ln in E2. eauto. }
    eapply Fin; [rewrite (sv_resize_eq esz NI (al r) nb (base_of NI r) n x (rg r) (rs r) (R0 r)); reflexivity
                | rewrite (ev_run_app_some _ _ _ _ E1); exact E2 | |].
    + cbn [sregs sals]. apply soks_set_reg; [exact Z | apply sok_with_cont; apply sok_grown; [exact Alr | apply R0 | apply Z]].
    + cbn [sregs snextb]. apply STR_reg; [exact RO|]. eapply STR_ext; [|exact T2]. intros j. now rewrite set2_set2.
  - (* front *)
    destruct (rs r) as [|y l] eqn:E; [discriminate|]. inversion Eref; subst rs' out; clear Eref.
    eapply Fin; [rewrite (sv_front_eq NI (rg r) (rs r) (R0 r)), E; reflexivity | reflexivity | exact Z | exact T].
  - (* back *)
    destruct (rs r) as [|a l0] eqn:E; [discriminate|]. rewrite <- E in *.
    assert (NE : rs r <> []) by (rewrite E; discriminate).
    destruct (exists_last NE) as (l & x & E'). pose proof (R0 r) as Hr. rewrite E' in Hr.
    inversion Eref; subst rs' out; clear Eref.
    eapply Fin; [rewrite (sv_back_eq NI (rg r) l x Hr); cbn [bind]; rewrite E', last_last; reflexivity | reflexivity | exact Z | exact T].
  - (* index *)
    inversion Eref; subst rs' out; clear Eref.
    eapply Fin; [rewrite (sv_index_eq NI (rg r) (rs r) i (R0 r)); apply Nat.ltb_lt in P; rewrite P; reflexivity | reflexivity | exact Z | exact T].
  - (* copy construction *)
    destruct RO as [Hr Hs]. inversion Eref; subst rs' out; clear Eref. destruct (Z s) as (_ & Als & _).
    destruct (Nat.eqb_spec r s) as [->|Nrs]; [eapply Fin; [reflexivity | reflexivity | exact Z | exact T]|].
    destruct (s_destruct ls (sfs rg) (al r) _ r (rg r) (rs r) (repeat None NI) T Hr (sfs_SL rg r Hr) (R0 r)) as (l1 & E1 & T1); [apply Z|].
    assert (SLs1 : SL s (rg s) (set2 (sfs rg) r (sv_empty NI (repeat None NI)))).
    { destruct (sfs_SL rg s Hs) as (A & B). split; rewrite set2_other by lia; assumption. }
    destruct (s_copy l1 _ (al s) nb s r (rg s) (rs s) (repeat None NI) T1 Hs Hr (not_eq_sym Nrs) SLs1 (SL_set2 _ r _) (R0 s) Als) as (l2 & E2 & T2).
    eapply Fin; [rewrite (sv_destruct_eq esz NI (al r) (base_of NI r) (rg r) (rs r) (R0 r)); cbn [bind];
                 rewrite (sv_copy_ctor_eq esz NI (al s) nb (base_of NI r) (base_of NI s) (rg s) (rs s) (R0 s)); reflexivity
                | rewrite (ev_run_app_some _ _ _ _ E1); exact E2 | |].
    + cbn [sregs sals]. apply soks_set; [exact Z|]. unfold scopied. apply sok_with_cont. apply sok_grown; [exact Als | apply sinv_empty | now apply sok_empty].
    + cbn [sregs snextb]. apply STR_reg; [exact Hr|]. eapply STR_ext; [|exact T2]. intros j. now rewrite set2_set2.
  - (* move construction *)
    destruct RO as [Hr Hs]. inversion Eref; subst rs' out; clear Eref. destruct (Z s) as (_ & Als & _).
    destruct (Nat.eqb_spec r s) as [->|Nrs]; [eapply Fin; [reflexivity | reflexivity | exact Z | exact T]|].
    destruct (s_destruct ls (sfs rg) (al r) _ r (rg r) (rs r) (repeat None NI) T Hr (sfs_SL rg r Hr) (R0 r)) as (l1 & E1 & T1); [apply Z|].
    assert (SLs1 : SL s (rg s) (set2 (sfs rg) r (sv_empty NI (repeat None NI)))).
    { destruct (sfs_SL rg s Hs) as (A & B). split; rewrite set2_other by lia; assumption. }
    destruct (s_swap l1 _ _ r s _ (rg s) [] (rs s) T1 Hr Hs Nrs (SL_set2 _ r _) SLs1 (sinv_empty NI) (R0 s)) as (l2 & E2 & T2).
    eapply Fin; [rewrite (sv_destruct_eq esz NI (al r) (base_of NI r) (rg r) (rs r) (R0 r)); cbn [bind];
                 rewrite (sv_swap_eq NI (base_of NI r) (base_of NI s) _ (rg s) [] (rs s) (sinv_empty NI) (R0 s)); reflexivity
                | rewrite (ev_run_app_some _ _ _ _ E1); exact E2 | |].
    + cbn [sregs sals]. intros k. unfold set_reg.
      destruct (Nat.eqb_spec k s) as [->|Nks].
      * destruct (Nat.eqb_spec s r); [congruence|]. apply (sok_swapped (al s) (rg s) (sv_empty NI (repeat None NI)) []). now apply sok_empty.
      * destruct (Nat.eqb k r); [apply (sok_swapped (al s) _ (rg s) (rs s)), Z | apply Z].
    + cbn [sregs snextb]. eapply STR_ext; [|exact T2]. intros j.
      rewrite sfs_set by exact Hs. apply set2_cong. intros k. rewrite sfs_set by exact Hr. now rewrite set2_set2.
  - (* swap *)
    destruct RO as [Hr Hs]. inversion Eref; subst rs' out; clear Eref.
    destruct (Nat.eqb_spec r s) as [->|Nrs]; [eapply Fin; [reflexivity | reflexivity | exact Z | exact T]|].
    destruct (s_swap ls _ _ r s (rg r) (rg s) (rs r) (rs s) T Hr Hs Nrs (sfs_SL rg r Hr) (sfs_SL rg s Hs) (R0 r) (R0 s)) as (l2 & E2 & T2).
    eapply Fin; [rewrite (sv_swap_eq NI (base_of NI r) (base_of NI s) (rg r) (rg s) (rs r) (rs s) (R0 r) (R0 s)); reflexivity | exact E2 | |].
    + cbn [sregs sals]. intros k. unfold set_reg.
      destruct (Nat.eqb_spec k s) as [->|Nks].
      * destruct (Nat.eqb_spec s r); [congruence|]. apply (sok_swapped (al r) (rg s) (rg r) (rs r)), Z.
      * destruct (Nat.eqb k r); [apply (sok_swapped (al s) (rg r) (rg s) (rs s)), Z | apply Z].
    + cbn [sregs snextb]. eapply STR_ext; [|exact T2]. intros j.
      rewrite sfs_set by exact Hs. apply set2_cong. intros k. now apply sfs_set.
Qed.

Lemma srun_log : forall ops st rs ls,
  srel NI st rs -> soks (sals st) (sregs st) -> STR ls (sfs (sregs st)) (NINST * snextb st) -> sref_ok rs ops -> Forall sregs_ok ops ->
  match sref_run rs ops with
  | Some (rs', outs) =>
    exists st' e ls', srun esz NI st ops = Ok (st', outs, e) /\ ev_run ls e = Some ls' /\
      srel NI st' rs' /\ soks (sals st') (sregs st') /\ STR ls' (sfs (sregs st')) (NINST * snextb st')
  | None => srun esz NI st ops = AssertStop
  end.
Proof.
  induction ops as [|o ops IH]; intros st rs ls R Z T K RO.
  - cbn [sref_run srun]. exists st, [], ls. split; [reflexivity|]. split; [reflexivity|]. split; [exact R|]. split; assumption.
  - destruct K as [P K]. inversion RO as [|? ? RO1 RO2]; subst.
    pose proof (sstep_log st rs o ls R Z T P RO1) as Hs. cbn [srun sref_run].
    destruct (sref_step rs o) as [[rs1 x]|]; [|now rewrite Hs].
    destruct Hs as (st1 & e1 & l1 & H1 & E1 & R1 & Z1 & T1). rewrite H1. cbn [bind].
    specialize (IH st1 rs1 l1 R1 Z1 T1 K RO2). destruct (sref_run rs1 ops) as [[rs2 xs]|].
    + destruct IH as (st2 & e2 & l2 & H2 & E2 & R2 & Z2 & T2). rewrite H2. cbn [bind].
      exists st2, (e1 ++ e2), l2. split; [reflexivity|]. split; [rewrite (ev_run_app_some _ _ _ _ E1); exact E2|].
      split; [exact R2|]. split; assumption.
    + now rewrite IH.
Qed.

Lemma STR0 : STR ls0 (sfs (sregs (sst0 NI))) (NINST * snextb (sst0 NI)).
Proof.
  cbn [sregs snextb sst0]. replace (NINST * 1) with 4 by reflexivity.
  assert (Ok1 : forall r, fp_ok 4 (mk_fp 0 (r * NI) 0 NI None)).
  { intros r. unfold fp_ok. cbn. repeat split; try lia; try congruence; intros; discriminate. }
  assert (Cases : forall j, sfs (fun _ => sv_empty NI (repeat None NI)) j = fp0 \/
                            exists r, r < 3 /\ j = 2 * r /\ sfs (fun _ => sv_empty NI (repeat None NI)) j = mk_fp 0 (r * NI) 0 NI None).
  { intros j. destruct (sfp_empty 0 (repeat None NI)) as (A0 & B0). destruct (sfp_empty 1 (repeat None NI)) as (A1 & _).
    destruct (sfp_empty 2 (repeat None NI)) as (A2 & _).
    unfold sfs, set2, set_reg. cbn [Nat.mul Nat.add]. rewrite A0, A1, A2, B0.
    do 7 (destruct j as [|j]; [cbn [Nat.eqb]; first [now left | right; eexists; split; [|split; [|reflexivity]]; lia]|]).
    now left. }
  split; [|split; [|reflexivity]].
  - split.
    + intros b n. split; [discriminate|]. intros (i & _ & H). destruct (Cases i) as [E|(r & _ & _ & E)]; rewrite E in H; discriminate.
    + intros o. split; [discriminate|]. intros (i & _ & H).
      destruct (Cases i) as [E|(r & _ & _ & E)]; rewrite E in H; unfold f_live in H; cbn in H; apply in_rng_spec in H; cbn in H; lia.
  - split; [lia|]. split.
    + intros i _. destruct (Cases i) as [E|(r & _ & _ & E)]; rewrite E; [apply fp_ok_fp0; lia | apply Ok1].
    + intros i j _ _ Nij.
      destruct (Cases i) as [E|(r & Hr & Ei & E)]; rewrite E; [apply sep_fp0|].
      destruct (Cases j) as [E'|(r' & Hr' & Ej & E')]; rewrite E'; [apply sep_sym, sep_fp0|].
      split; [|intros b n m H; discriminate]. cbn [f_k f_off f_lim]. right.
      assert (r <> r') by (intros ->; lia). destruct (Nat.lt_ge_cases r r'); [left | right]; nia.
Qed.

Lemma sfinish_log st rs ls : srel NI st rs -> soks (sals st) (sregs st) -> STR ls (sfs (sregs st)) (NINST * snextb st) ->
  exists e ls', sfinish esz NI st = Ok e /\ ev_run ls e = Some ls' /\ blocks ls' = [] /\ live ls' = [].
Proof.
  intros R Z T. destruct st as [rg al nb]. cbn [sregs sals snextb] in *. pose proof R as R0. unfold srel in R0. cbn [sregs] in R0.
  unfold sfinish, nregs. cbn [sregs sals sv_destruct_regs].
  rewrite (sv_destruct_eq esz NI (al 0) _ (rg 0) (rs 0) (R0 0)). cbn [bind].
  rewrite (sv_destruct_eq esz NI (al 1) _ (rg 1) (rs 1) (R0 1)). cbn [bind].
  rewrite (sv_destruct_eq esz NI (al 2) _ (rg 2) (rs 2) (R0 2)). cbn [bind].
  set (E0 := sv_empty NI (repeat None NI)).
  destruct (s_destruct ls _ (al 0) _ 0 (rg 0) (rs 0) (repeat None NI) T) as (l1 & E1 & T1); [lia | apply sfs_SL; lia | apply R0 | apply Z|].
  destruct (s_destruct l1 _ (al 1) _ 1 (rg 1) (rs 1) (repeat None NI) T1) as (l2 & E2 & T2); [lia | | apply R0 | apply Z|].
  { destruct (sfs_SL rg 1) as (A & B); [lia|]. split; rewrite set2_other by lia; assumption. }
  destruct (s_destruct l2 _ (al 2) _ 2 (rg 2) (rs 2) (repeat None NI) T2) as (l3 & E3 & T3); [lia | | apply R0 | apply Z|].
  { destruct (sfs_SL rg 2) as (A & B); [lia|]. split; rewrite !set2_other by lia; assumption. }
  eexists. exists l3. split; [reflexivity|]. split.
  - rewrite (ev_run_app_some _ _ _ _ E1), (ev_run_app_some _ _ _ _ E2), app_nil_r. exact E3.
  - (* all footprints are empty: no block, no live object *)
    destruct T3 as ((B & L) & _). fold E0 in B, L.
    assert (Emp : forall j, f_heap (set2 (set2 (set2 (sfs rg) 0 E0) 1 E0) 2 E0 j) = None /\ f_size (set2 (set2 (set2 (sfs rg) 0 E0) 1 E0) 2 E0 j) = 0).
    { intros j. destruct (sfp_empty 0 (repeat None NI)) as (A0 & B0). destruct (sfp_empty 1 (repeat None NI)) as (A1 & _).
      destruct (sfp_empty 2 (repeat None NI)) as (A2 & _). fold E0 in A0, A1, A2, B0.
      unfold set2, set_reg. cbn [Nat.mul Nat.add]. rewrite A0, A1, A2, B0.
      do 6 (destruct j as [|j]; [cbn [Nat.eqb]; split; reflexivity|]). cbn [Nat.eqb]. split; reflexivity. }
    split.
    + destruct (blocks l3) as [|[b n] bl] eqn:Eb; [reflexivity|]. exfalso.
      assert (has_block b l3 = Some n) as Hb by (unfold has_block; rewrite Eb; cbn; now rewrite Nat.eqb_refl).
      apply (B b n) in Hb. destruct Hb as (i & _ & Hb). unfold f_blk in Hb. destruct (Emp i) as (Eh & _). rewrite Eh in Hb. discriminate.
    + destruct (live l3) as [|o lv] eqn:El; [reflexivity|]. exfalso.
      assert (is_live o l3 = true) as Ho by (unfold is_live; rewrite El; cbn; now rewrite obj_eqb_refl).
      apply (L o) in Ho. destruct Ho as (i & _ & Ho). unfold f_live in Ho. destruct (Emp i) as (_ & Es). rewrite Es in Ho. apply in_rng_spec in Ho. lia.
Qed.

Theorem small_vector_log_wf : forall ops, sref_ok rs0 ops -> Forall sregs_ok ops ->
  match sref_run rs0 ops with
  | Some (_, outs) =>
    exists st e fin, srun esz NI (sst0 NI) ops = Ok (st, outs, e) /\ sfinish esz NI st = Ok fin /\ wf_closed (e ++ fin) = true
  | None => srun esz NI (sst0 NI) ops = AssertStop
  end.
Proof.
  intros ops K RO.
  assert (Z0 : soks (sals (sst0 NI)) (sregs (sst0 NI))) by (intros r; apply sok_empty; cbn [sals sst0]; unfold NINST; lia).
  pose proof (srun_log ops (sst0 NI) rs0 ls0 (srel0 NI) Z0 STR0 K RO) as H.
  destruct (sref_run rs0 ops) as [[rs outs]|]; [|exact H].
  destruct H as (st & e & l1 & H & E & R & Z & T).
  destruct (sfinish_log st _ l1 R Z T) as (fin & l2 & F & E2 & B & L).
  exists st, e, fin. split; [exact H|]. split; [exact F|].
  apply (wf_closed_of_run _ l2); [rewrite (ev_run_app_some _ _ _ _ E); exact E2 | exact B | exact L].
Qed.

End WithParams.
