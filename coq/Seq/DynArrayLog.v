(* frg::dyn_array: the event log of every operation sequence followed by the destructors is well-formed and
   closed (C16). *)
From Coq Require Import List NArith Arith Bool Lia.
From FV Require Import Common.EventLog Seq.SlotModel Seq.SlotProofs Seq.LogProofs Seq.Footprint
  Seq.VectorModel Seq.VectorProofs Seq.VectorLog Seq.DynArrayModel Seq.DynStackListProofs.
Import ListNotations.

Section WithElemSize.
Variable esz : N.

Definition dfp (d : darr) : fpr :=
  mk_fp (d_blk d) 0 (d_size d) (if Nat.eqb (d_blk d) 0 then 0 else d_size d)
        (if Nat.eqb (d_blk d) 0 then None else Some (d_blk d, (esz * N.of_nat (d_size d))%N)).

Lemma dfp_default : dfp da_default = fp0.
Proof. reflexivity. Qed.

Definition drel_ev (al : nat) (d : darr) (l : list V) : list ev :=
  if Nat.eqb (d_blk d) 0 then [] else [EDealloc (reenc al (d_blk d)) (esz * N.of_nat (length l))%N].

(* the allocator instance al is the one that handed out the block of d *)
Definition dok (al : nat) (d : darr) : Prop := al < NINST /\ (d_blk d <> 0 -> reenc al (d_blk d) = d_blk d).
Lemma dok_default al : al < NINST -> dok al da_default.
Proof. intros H. split; [exact H | intros C; cbn in C; congruence]. Qed.
Lemma dok_new al nb c n : al < NINST -> dok al (mk_da (enc al nb) c n).
Proof. intros H. split; [exact H | intros _; cbn [d_blk]; now apply reenc_enc]. Qed.

Lemma dg_destruct ls fs al nb r d l : TR ls fs nb -> r < 4 -> fs r = dfp d -> dinv d l -> dok al d ->
  exists ls', ev_run ls (destroy_evs (heap_nm (d_blk d)) 0 (length l) ++ drel_ev al d l) = Some ls' /\
    TR ls' (set_reg fs r fp0) nb.
Proof.
  intros TRs Hr Er (Hs & _) (_ & Ak). pose proof TRs as (T & G & Esp). pose proof G as (Nz & _).
  destruct (fp_destruct VK ls fs nb r fp0 (drel_ev al d l) T G) as (ls' & E & T' & G'); try (unfold VK; lia); try reflexivity.
  { now apply fp_ok_fp0. }
  { intros j _ _. apply sep_fp0. }
  { rewrite Er. unfold dfp, drel_ev. cbn [f_heap]. destruct (Nat.eqb_spec (d_blk d) 0); [reflexivity | right; now rewrite Hs, Ak]. }
  rewrite Er in E. cbn [dfp f_size f_nm f_k f_off] in E. rewrite Hs in E.
  exists ls'. split; [exact E|]. now apply TR_set.
Qed.

Lemma dfp_new nb c n : nb <> 0 -> dfp (mk_da nb c n) = mk_fp nb 0 n n (Some (nb, (esz * N.of_nat n)%N)).
Proof. intros Nz. unfold dfp. cbn [d_blk d_size]. now rewrite (proj2 (Nat.eqb_neq nb 0) Nz). Qed.

(* dyn_array(n) into the empty slot r, on allocator instance al *)
Lemma dg_sized ls fs al nb r n c : TR ls fs (NINST * nb) -> r < 4 -> fs r = fp0 -> al < NINST ->
  exists ls', ev_run ls (EAlloc (enc al nb) (esz * N.of_nat n)%N :: fill_evs (heap_nm (enc al nb)) 0 n) = Some ls' /\
    TR ls' (set_reg fs r (dfp (mk_da (enc al nb) c n))) (NINST * S nb).
Proof.
  intros TRs Hr Er Al. pose proof TRs as (T & G & Esp). pose proof G as (Nz & _). set (b := enc al nb).
  assert (Bz : b <> 0) by (pose proof (enc_ge al nb); unfold b; lia).
  destruct (fp_alloc VK ls fs (NINST * nb) b r n (esz * N.of_nat n)%N T G) as (l1 & E1 & T1 & G1); try (unfold VK; lia); try (now rewrite Er); [apply enc_ge|].
  set (f1 := mk_fp b 0 0 n (Some (b, (esz * N.of_nat n)%N))) in *.
  destruct (fp_fill VK l1 (set_reg fs r f1) (S b) r n T1 G1) as (l2 & E2 & T2 & G2); try (unfold VK; lia); try (rewrite set_reg_same; cbn; lia).
  rewrite set_reg_same in E2, T2, G2. cbn [f1 f_size f_nm f_k f_off] in E2. rewrite Nat.sub_0_r in E2.
  exists l2. split.
  - change (EAlloc b ?x :: ?y) with ([EAlloc b x] ++ y). rewrite (ev_run_app_some _ _ _ _ E1). exact E2.
  - rewrite dfp_new by exact Bz. apply (TR_mono _ _ (S b)); [now apply enc_lt|].
    eapply TR_ext with (fs := set_reg (set_reg fs r f1) r (resize_fp f1 n)).
    + intros j. now rewrite set_reg_set.
    + split; [exact T2|]. split; [exact G2|]. rewrite !set_reg_other by lia. exact Esp.
Qed.

(* copy construction from slot s into the empty slot t, on allocator instance al *)
Lemma dg_copy ls fs al nb s t o l c : TR ls fs (NINST * nb) -> s < 4 -> t < 4 -> s <> t -> fs s = dfp o -> fs t = fp0 -> dinv o l -> al < NINST ->
  exists ls', ev_run ls (EAlloc (enc al nb) (esz * N.of_nat (length l))%N :: xfer_evs (heap_nm (d_blk o)) (heap_nm (enc al nb)) 0 (length l)) = Some ls' /\
    TR ls' (set_reg fs t (dfp (mk_da (enc al nb) c (length l)))) (NINST * S nb).
Proof.
  intros TRs Hs Ht Nst Es Et (Os & _) Al. pose proof TRs as (T & G & Esp). pose proof G as (Nz & _). set (b := enc al nb).
  assert (Bz : b <> 0) by (pose proof (enc_ge al nb); unfold b; lia).
  destruct (fp_alloc VK ls fs (NINST * nb) b t (length l) (esz * N.of_nat (length l))%N T G) as (l1 & E1 & T1 & G1);
    try (unfold VK; lia); try (now rewrite Et); [apply enc_ge|].
  set (f1 := mk_fp b 0 0 (length l) (Some (b, (esz * N.of_nat (length l))%N))) in *.
  set (fs1 := set_reg fs t f1) in *.
  assert (F1s : fs1 s = dfp o) by (unfold fs1; now rewrite set_reg_other).
  assert (F1t : fs1 t = f1) by (unfold fs1; now rewrite set_reg_same).
  destruct (fp_xfer VK l1 fs1 (S b) s t T1 G1) as (l2 & E2 & T2 & G2); try (unfold VK; lia).
  { now rewrite F1t. }
  { rewrite F1s, F1t. cbn [dfp f1 f_size f_lim]. lia. }
  rewrite F1s, F1t in E2, T2, G2. cbn [dfp f1 f_size f_nm f_k f_off] in E2, T2, G2. rewrite Os in E2, T2, G2.
  exists l2. split.
  - change (EAlloc b ?x :: ?y) with ([EAlloc b x] ++ y). rewrite (ev_run_app_some _ _ _ _ E1). exact E2.
  - rewrite dfp_new by exact Bz. apply (TR_mono _ _ (S b)); [now apply enc_lt|].
    eapply TR_ext with (fs := set_reg fs1 t (resize_fp f1 (length l))).
    + intros j. unfold fs1. now rewrite set_reg_set.
    + split; [exact T2|]. split; [exact G2|]. unfold fs1. rewrite !set_reg_other by lia. exact Esp.
Qed.

Definition dfs (rg : nat -> darr) : nat -> fpr := fun i => if Nat.ltb i 3 then dfp (rg i) else fp0.
Lemma dfs_set rg r v j : r < 3 -> dfs (set_reg rg r v) j = set_reg (dfs rg) r (dfp v) j.
Proof.
  intros Hr. unfold dfs, set_reg. destruct (Nat.eqb_spec j r) as [->|N]; [|reflexivity].
  now rewrite (proj2 (Nat.ltb_lt r 3) Hr).
Qed.
Lemma dfs_at rg r : r < 3 -> dfs rg r = dfp (rg r).
Proof. intros Hr. unfold dfs. now rewrite (proj2 (Nat.ltb_lt r 3) Hr). Qed.
Lemma dfs_hi rg j : 3 <= j -> dfs rg j = fp0.
Proof. intros Hj. unfold dfs. now rewrite (proj2 (Nat.ltb_ge j 3) Hj). Qed.
Lemma TR_dreg rg r v' ls' nb' : r < 3 -> TR ls' (set_reg (dfs rg) r (dfp v')) nb' -> TR ls' (dfs (set_reg rg r v')) nb'.
Proof. intros Hr T. eapply TR_ext; [|exact T]. intros j. now apply dfs_set. Qed.

Definition dregs_ok (o : dop) : Prop :=
  match o with
  | DMake r _ | DDefault r | DSet r _ _ | DIndex r _ | DEmpty r => r < 3
  | DAssign r s | DMoveAssign r s | DCopyCtor r s | DMoveCtor r s | DSwap r s => r < 3 /\ s < 3
  end.

Definition doks (al : nat -> nat) (rg : nat -> darr) : Prop := forall r, dok (al r) (rg r).
Lemma doks_set al rg r a v : doks al rg -> dok a v -> doks (set_reg al r a) (set_reg rg r v).
Proof. intros Z Hv k. unfold set_reg. destruct (Nat.eqb k r); [exact Hv | apply Z]. Qed.
Lemma doks_set_reg al rg r v : doks al rg -> dok (al r) v -> doks al (set_reg rg r v).
Proof. intros Z Hv k. unfold set_reg. destruct (Nat.eqb_spec k r) as [->|]; [exact Hv | apply Z]. Qed.

Lemma dstep_log st rs o ls :
  drel st rs -> doks (dals st) (dregs st) -> TR ls (dfs (dregs st)) (NINST * dnextb st) -> dref_pre rs o -> dregs_ok o ->
  exists st' e ls', dstep esz st o = Ok (st', snd (dref_step rs o), e) /\ ev_run ls e = Some ls' /\
    drel st' (fst (dref_step rs o)) /\ doks (dals st') (dregs st') /\ TR ls' (dfs (dregs st')) (NINST * dnextb st').
Proof.
  intros R Z T P RO.
  destruct (dstep_refines esz st rs o R P) as (st0 & e0 & Hstep & R').
  destruct st as [rg al nb]. pose proof R as R0. unfold drel in R0. cbn [dregs dals dnextb] in *.
  assert (Fin : forall st' e ls', dstep esz (mk_dst rg al nb) o = Ok (st', snd (dref_step rs o), e) ->
            ev_run ls e = Some ls' -> doks (dals st') (dregs st') -> TR ls' (dfs (dregs st')) (NINST * dnextb st') ->
            exists st' e ls', dstep esz (mk_dst rg al nb) o = Ok (st', snd (dref_step rs o), e) /\ ev_run ls e = Some ls' /\
              drel st' (fst (dref_step rs o)) /\ doks (dals st') (dregs st') /\ TR ls' (dfs (dregs st')) (NINST * dnextb st')).
  { intros st' e ls' H1 H2 H3 H4. exists st', e, ls'. split; [exact H1|]. split; [exact H2|]. split; [|split; assumption].
    rewrite Hstep in H1. inversion H1; subst. exact R'. }
  clear Hstep R'.
  destruct o as [r n|r|r i x|r i|r|r s|r s|r s|r s|r s]; cbn [dstep dregs dals dnextb dref_step fst snd dref_pre dregs_ok] in *.
  - (* make *)
    destruct (Z r) as (Alr & _).
    destruct (dg_destruct ls _ (al r) _ r (rg r) (rs r) T) as (l1 & E1 & T1); [lia | now apply dfs_at | apply R0 | apply Z|].
    destruct (dg_sized l1 _ (al r) nb r n (map Some (repeat 0%N n)) T1) as (l2 & E2 & T2); [lia | now rewrite set_reg_same | exact Alr|].
    eapply Fin; [rewrite (da_destruct_eq esz (al r) (rg r) (rs r) (R0 r)); cbn [bind]; rewrite da_sized_eq; reflexivity
                | unfold drel_ev in E1; rewrite (ev_run_app_some _ _ _ _ E1); exact E2 | |].
    + cbn [dregs dals]. apply doks_set_reg; [exact Z | now apply dok_new].
    + cbn [dregs dnextb]. eapply TR_ext; [|exact T2]. intros j. rewrite dfs_set by lia. now rewrite set_reg_set.
  - (* default *)
    destruct (Z r) as (Alr & _).
    destruct (dg_destruct ls _ (al r) _ r (rg r) (rs r) T) as (l1 & E1 & T1); [lia | now apply dfs_at | apply R0 | apply Z|].
    eapply Fin; [rewrite (da_destruct_eq esz (al r) (rg r) (rs r) (R0 r)); reflexivity | exact E1 | |].
    + cbn [dregs dals]. apply doks_set_reg; [exact Z | now apply dok_default].
    + cbn [dregs dnextb]. apply TR_dreg; [lia|]. exact T1.
  - (* set *)
    assert (U : ev_run ls [EUse (d_blk (rg r), i)] = Some ls).
    { destruct T as (T & _). apply (fp_uses VK ls (dfs rg) r _ T); [unfold VK; lia|]. rewrite dfs_at by lia.
      constructor; [|constructor]. exists i. split; [|reflexivity]. cbn [dfp f_size]. destruct (R0 r) as (-> & _). exact P. }
    eapply Fin; [rewrite (da_set_eq (rg r) (rs r) i x (R0 r) P); reflexivity | exact U | |].
    + cbn [dregs dals]. apply doks_set_reg; [exact Z | exact (Z r)].
    + cbn [dregs dnextb]. apply TR_dreg; [lia|]. eapply TR_ext; [|exact T]. intros j. unfold set_reg. destruct (Nat.eqb_spec j r) as [->|]; [|reflexivity].
      rewrite dfs_at by lia. unfold dfp. cbn [d_blk d_size]. destruct (R0 r) as (-> & _). reflexivity.
  - (* index *)
    eapply Fin; [rewrite (da_index_eq (rg r) (rs r) i (R0 r)); apply Nat.ltb_lt in P; rewrite P; reflexivity | reflexivity | exact Z | exact T].
  - (* empty *)
    eapply Fin; [rewrite (da_empty_eq (rg r) (rs r) (R0 r)); reflexivity | reflexivity | exact Z | exact T].
  - (* copy assignment *)
    destruct RO as [Hr Hs]. destruct (Z s) as (Als & _).
    destruct (dg_copy ls (dfs rg) (al s) nb s 3 (rg s) (rs s) (map Some (rs s)) T) as (l1 & E1 & T1); [lia | lia | lia | now apply dfs_at | now apply dfs_hi | apply R0 | exact Als|].
    destruct (dg_destruct l1 _ (al r) _ r (rg r) (rs r) T1) as (l2 & E2 & T2); [lia | rewrite set_reg_other by lia; now apply dfs_at | apply R0 | apply Z|].
    eapply Fin; [rewrite (da_copy_ctor_eq esz (al s) nb (rg s) (rs s) (R0 s)); cbn [bind]; rewrite (da_destruct_eq esz (al r) (rg r) (rs r) (R0 r)); reflexivity
                | unfold drel_ev in E2; rewrite (ev_run_app_some _ _ _ _ E1); exact E2 | |].
    + cbn [dregs dals]. apply doks_set; [exact Z | now apply dok_new].
    + cbn [dregs dnextb]. eapply TR_ext; [|apply (TR_swap _ _ _ r 3 T2); lia].
      intros j. rewrite dfs_set by lia. rewrite swap_slots_at. unfold set_reg.
      destruct (Nat.eqb_spec j 3) as [->|N3].
      * destruct (Nat.eqb_spec 3 r); [lia|]. rewrite Nat.eqb_refl. now rewrite dfs_hi by lia.
      * destruct (Nat.eqb_spec j r) as [->|Nr]; [|reflexivity].
        destruct (Nat.eqb_spec 3 r); [lia|]. now rewrite Nat.eqb_refl.
  - (* move assignment *)
    destruct RO as [Hr Hs].
    assert (R1 : drel (mk_dst (set_reg rg s da_default) al nb) (set_reg rs s [])) by (eapply drel_set; [exact R | apply dinv_default]).
    pose proof (R1 r) as Hmine. cbn [dregs] in Hmine.
    pose proof (TR_swap _ _ _ s 3 T) as T0. specialize (T0 ltac:(lia) ltac:(lia)).
    assert (Am : dok (al r) (set_reg rg s da_default r)).
    { unfold set_reg. destruct (Nat.eqb r s); [apply dok_default, Z | apply Z]. }
    destruct (dg_destruct ls _ (al r) _ r (set_reg rg s da_default r) (set_reg rs s [] r) T0) as (l2 & E2 & T2); [lia | | exact Hmine | exact Am|].
    { rewrite swap_slots_at. destruct (Nat.eqb_spec r 3); [lia|]. unfold set_reg. destruct (Nat.eqb_spec r s) as [->|Nrs].
      - rewrite dfs_hi by lia. reflexivity.
      - now apply dfs_at. }
    eapply Fin; [rewrite (da_destruct_eq esz (al r) _ _ Hmine); reflexivity | exact E2 | |].
    + cbn [dregs dals]. apply doks_set; [|apply Z]. intros k. unfold set_reg. destruct (Nat.eqb k s); [apply dok_default, Z | apply Z].
    + cbn [dregs dnextb]. eapply TR_ext; [|apply (TR_swap _ _ _ r 3 T2); lia].
      intros j. rewrite dfs_set by lia. rewrite !swap_slots_at. unfold set_reg at 1 2.
      destruct (Nat.eqb_spec j 3) as [->|N3].
      * destruct (Nat.eqb_spec 3 r); [lia|]. rewrite set_reg_same. unfold dfs. cbn. reflexivity.
      * destruct (Nat.eqb_spec j r) as [->|Nr].
        -- rewrite set_reg_other by lia. rewrite swap_slots_at, Nat.eqb_refl. now rewrite dfs_at by lia.
        -- rewrite set_reg_other by exact Nr. rewrite swap_slots_at. rewrite (proj2 (Nat.eqb_neq j 3) N3).
           destruct (Nat.eqb_spec j s) as [->|Ns].
           ++ rewrite (dfs_hi rg 3) by lia. rewrite dfs_at by lia. now rewrite Nat.eqb_refl.
           ++ unfold dfs, set_reg. now rewrite (proj2 (Nat.eqb_neq j s) Ns).
  - (* copy construction *)
    destruct RO as [Hr Hs]. destruct (Z s) as (Als & _).
    destruct (Nat.eqb_spec r s) as [->|Nrs]; [eapply Fin; [reflexivity | reflexivity | exact Z | exact T]|].
    destruct (dg_destruct ls _ (al r) _ r (rg r) (rs r) T) as (l1 & E1 & T1); [lia | now apply dfs_at | apply R0 | apply Z|].
    destruct (dg_copy l1 _ (al s) nb s r (rg s) (rs s) (map Some (rs s)) T1) as (l2 & E2 & T2); [lia | lia | congruence | rewrite set_reg_other by congruence; now apply dfs_at | now rewrite set_reg_same | apply R0 | exact Als|].
    eapply Fin; [rewrite (da_destruct_eq esz (al r) (rg r) (rs r) (R0 r)); cbn [bind]; rewrite (da_copy_ctor_eq esz (al s) nb (rg s) (rs s) (R0 s)); reflexivity
                | unfold drel_ev in E1; rewrite (ev_run_app_some _ _ _ _ E1); exact E2 | |].
    + cbn [dregs dals]. apply doks_set; [exact Z | now apply dok_new].
    + cbn [dregs dnextb]. eapply TR_ext; [|exact T2]. intros j. rewrite dfs_set by lia. now rewrite set_reg_set.
  - (* move construction *)
    destruct RO as [Hr Hs].
    destruct (Nat.eqb_spec r s) as [->|Nrs]; [eapply Fin; [reflexivity | reflexivity | exact Z | exact T]|].
    destruct (dg_destruct ls _ (al r) _ r (rg r) (rs r) T) as (l1 & E1 & T1); [lia | now apply dfs_at | apply R0 | apply Z|].
    eapply Fin; [rewrite (da_destruct_eq esz (al r) (rg r) (rs r) (R0 r)); reflexivity | exact E1 | |].
    + cbn [dregs dals]. intros k. unfold set_reg.
      destruct (Nat.eqb_spec k s) as [->|Nks].
      * destruct (Nat.eqb_spec s r); [congruence|]. apply dok_default, Z.
      * destruct (Nat.eqb k r); apply Z.
    + cbn [dregs dnextb]. eapply TR_ext; [|apply (TR_swap _ _ _ r s T1); lia].
      intros j. rewrite swap_slots_at. unfold dfs, set_reg.
      destruct (Nat.eqb_spec j s) as [->|Ns].
      * rewrite (proj2 (Nat.ltb_lt s 3) Hs), Nat.eqb_refl. reflexivity.
      * destruct (Nat.eqb_spec j r) as [->|Nr]; [|reflexivity].
        rewrite (proj2 (Nat.ltb_lt r 3) Hr), (proj2 (Nat.ltb_lt s 3) Hs). destruct (Nat.eqb_spec s r); [congruence | reflexivity].
  - (* swap *)
    destruct RO as [Hr Hs].
    eapply Fin; [reflexivity | reflexivity | |].
    + cbn [dregs dals]. intros k. unfold set_reg. destruct (Nat.eqb k s); [apply Z|]. destruct (Nat.eqb k r); apply Z.
    + cbn [dregs dnextb]. eapply TR_ext; [|apply (TR_swap _ _ _ r s T); lia].
      intros j. rewrite swap_slots_at. unfold dfs, set_reg.
      destruct (Nat.eqb_spec j s) as [->|Ns].
      * now rewrite (proj2 (Nat.ltb_lt s 3) Hs), (proj2 (Nat.ltb_lt r 3) Hr).
      * destruct (Nat.eqb_spec j r) as [->|Nr]; [|reflexivity].
        now rewrite (proj2 (Nat.ltb_lt s 3) Hs), (proj2 (Nat.ltb_lt r 3) Hr).
Qed.

Lemma drun_log : forall ops st rs ls,
  drel st rs -> doks (dals st) (dregs st) -> TR ls (dfs (dregs st)) (NINST * dnextb st) -> dref_ok rs ops -> Forall dregs_ok ops ->
  exists st' e ls', drun esz st ops = Ok (st', snd (dref_run rs ops), e) /\ ev_run ls e = Some ls' /\
    drel st' (fst (dref_run rs ops)) /\ doks (dals st') (dregs st') /\ TR ls' (dfs (dregs st')) (NINST * dnextb st').
Proof.
  induction ops as [|o ops IH]; intros st rs ls R Z T K RO.
  - exists st, [], ls. split; [reflexivity|]. split; [reflexivity|]. split; [exact R|]. split; assumption.
  - destruct K as [P K]. inversion RO as [|? ? RO1 RO2]; subst.
    destruct (dstep_log st rs o ls R Z T P RO1) as (st1 & e1 & l1 & H1 & E1 & R1 & Z1 & T1).
    cbn [drun dref_run]. rewrite H1. cbn [bind].
    destruct (dref_step rs o) as [rs1 x] eqn:Es. cbn [fst snd] in *.
    destruct (IH st1 rs1 l1 R1 Z1 T1 K RO2) as (st2 & e2 & l2 & H2 & E2 & R2 & Z2 & T2). rewrite H2. cbn [bind].
    destruct (dref_run rs1 ops) as [rs2 xs]. cbn [fst snd] in *.
    exists st2, (e1 ++ e2), l2. split; [reflexivity|]. split; [rewrite (ev_run_app_some _ _ _ _ E1); exact E2|].
    split; [exact R2|]. split; assumption.
Qed.

Theorem dyn_array_log_wf : forall ops, dref_ok rs0 ops -> Forall dregs_ok ops ->
  exists st outs e fin, drun esz dst0 ops = Ok (st, outs, e) /\ dfinish esz st = Ok fin /\ wf_closed (e ++ fin) = true.
Proof.
  intros ops K RO.
  assert (T0 : TR ls0 (dfs (dregs dst0)) (NINST * dnextb dst0)).
  { assert (E : forall j, dfs (dregs dst0) j = fp0) by (intros j; unfold dfs; destruct (Nat.ltb j 3); reflexivity).
    split; [|split].
    - eapply tracks_ext; [|apply (tracks_ls0 VK)]. intros j _. apply E.
    - split; [cbn; lia|]. split.
      + intros j _. rewrite E. apply fp_ok_fp0. cbn. lia.
      + intros i j _ _ _. rewrite !E. apply sep_fp0.
    - apply E. }
  assert (Z0 : doks (dals dst0) (dregs dst0)) by (intros r; apply dok_default; cbn [dals dst0]; unfold NINST; lia).
  destruct (drun_log ops dst0 rs0 ls0 drel0 Z0 T0 K RO) as (st & e & l1 & H & E & R & Z & T).
  destruct st as [rg al nb]. cbn [dregs dals dnextb] in *. pose proof R as R0. unfold drel in R0. cbn [dregs] in R0.
  set (rsf := fst (dref_run rs0 ops)) in *.
  destruct (dg_destruct l1 _ (al 0) _ 0 (rg 0) (rsf 0) T) as (a1 & E1 & T1); [lia | apply dfs_at; lia | apply R0 | apply Z|].
  destruct (dg_destruct a1 _ (al 1) _ 1 (rg 1) (rsf 1) T1) as (a2 & E2 & T2); [lia | rewrite set_reg_other by lia; apply dfs_at; lia | apply R0 | apply Z|].
  destruct (dg_destruct a2 _ (al 2) _ 2 (rg 2) (rsf 2) T2) as (a3 & E3 & T3); [lia | rewrite !set_reg_other by lia; apply dfs_at; lia | apply R0 | apply Z|].
  exists (mk_dst rg al nb), (snd (dref_run rs0 ops)), e. eexists. split; [exact H|]. split.
  - unfold dfinish, nregs. cbn [dregs dals da_destruct_regs].
    rewrite (da_destruct_eq esz (al 0) (rg 0) _ (R0 0)), (da_destruct_eq esz (al 1) (rg 1) _ (R0 1)), (da_destruct_eq esz (al 2) (rg 2) _ (R0 2)). cbn [bind]. reflexivity.
  - destruct (tracks_all_empty VK a3) as (B & L).
    { destruct T3 as (T3 & _). eapply tracks_ext; [|exact T3]. intros j _. unfold set_reg. destruct j as [|[|[|j]]]; reflexivity. }
    apply (wf_closed_of_run _ a3); [|exact B | exact L].
    unfold drel_ev in *. rewrite (ev_run_app_some _ _ _ _ E), (ev_run_app_some _ _ _ _ E1), (ev_run_app_some _ _ _ _ E2), app_nil_r. exact E3.
Qed.

End WithElemSize.
