(* frg::small_vector: closed forms under the representation invariant and refinement to lists (C13). *)
From Coq Require Import List NArith Arith Bool Lia.
From FV Require Import Common.EventLog Seq.SlotModel Seq.SlotProofs Seq.LogProofs Seq.VectorModel Seq.VectorProofs Seq.SmallVectorModel.
Import ListNotations.

Section WithParams.
Variable esz : N.
Variable NI : nat.

(* v represents l: small mode = the elements live in the inline slots; heap mode = the inline slots are raw *)
Definition sinv (v : svec) (l : list V) : Prop :=
  s_size v = length l /\ length l <= s_cap v /\ NI <= s_cap v /\
  (if is_small NI v then s_inl v = slots l NI else s_inl v = repeat None NI /\ s_heap v = slots l (s_cap v)).

Lemma is_small_cap v l : sinv v l -> is_small NI v = true -> s_cap v = NI.
Proof. intros (_ & _ & H & _) E. unfold is_small in E. apply Nat.leb_le in E. lia. Qed.

Lemma sinv_cont v l : sinv v l -> cont NI v = slots l (s_cap v).
Proof.
  intros H. pose proof H as (_ & _ & _ & C). unfold cont. destruct (is_small NI v) eqn:E.
  - now rewrite (is_small_cap v l H E).
  - now destruct C.
Qed.
Lemma sinv_inl_length v l : sinv v l -> length (s_inl v) = NI.
Proof.
  intros H. pose proof H as (_ & Hc & _ & C). destruct (is_small NI v) eqn:E.
  - rewrite C. apply slots_length. rewrite <- (is_small_cap v l H E). exact Hc.
  - destruct C as [-> _]. apply repeat_length.
Qed.

Lemma sinv_empty : sinv (sv_empty NI (repeat None NI)) [].
Proof.
  unfold sinv, sv_empty, is_small. cbn [s_size s_cap s_inl length]. rewrite Nat.leb_refl.
  repeat split; try lia. now rewrite slots_nil.
Qed.

(* writing new contents [slots l' cap] into the container *)
Definition with_cont (v : svec) (l' : list V) : svec := set_size (set_cont NI v (slots l' (s_cap v))) (length l').
Lemma with_cont_inv v l l' : sinv v l -> length l' <= s_cap v -> sinv (with_cont v l') l'.
Proof.
  intros H Hl. pose proof H as (Hs & Hc & Hn & C). unfold with_cont, set_cont, set_size, sinv.
  destruct (is_small NI v) eqn:E; cbn [s_size s_cap s_inl s_heap s_blk]; unfold is_small in *; cbn [s_cap]; rewrite E.
  - repeat split; auto. now rewrite (is_small_cap v l H E).
  - destruct C as [C1 C2]. repeat split; auto.
Qed.

(* ---- _ensure_capacity *)
Definition sgrown (nb c : nat) (v : svec) (l : list V) : svec :=
  if Nat.leb c (s_cap v) then v else mk_sv (repeat None NI) nb (slots l (2 * c)) (length l) (2 * c).
(* al = the allocator instance of the vector, nb = the name of the new block *)
Definition sgrow_evs (al nb base c : nat) (v : svec) (l : list V) : list ev :=
  if Nat.leb c (s_cap v) then [] else
  EAlloc nb (esz * N.of_nat (2 * c)) :: xfer_evs (cont_nm NI base v) (heap_nm nb) 0 (length l)
    ++ destroy_evs (cont_nm NI base v) 0 (length l) ++ free_ev al (s_blk v).

Lemma sv_ensure_capacity_eq al nb base c v l : sinv v l ->
  sv_ensure_capacity esz NI al nb base c v = Ok (sgrown (enc al nb) c v l, grown_nb nb c (mk_vec 0 [] 0 (s_cap v)), sgrow_evs al (enc al nb) base c v l).
Proof.
  intros H. pose proof H as (Hs & Hc & Hn & C). unfold sv_ensure_capacity, sgrown, grown_nb, sgrow_evs. cbn [v_cap].
  destruct (Nat.leb c (s_cap v)) eqn:E; [reflexivity|]. apply Nat.leb_gt in E.
  rewrite Hs, (sinv_cont v l H). unfold slots at 1. rewrite xfer_loop_slots by lia. cbn [bind].
  rewrite destroy_loop_slots_all by lia. cbn [bind].
  do 3 f_equal. unfold set_cont. destruct (is_small NI v) eqn:Es; cbn [s_inl].
  - now rewrite (is_small_cap v l H Es).
  - now destruct C as [-> _].
Qed.

Lemma sgrown_inv nb c v l : sinv v l -> sinv (sgrown nb c v l) l /\ c <= s_cap (sgrown nb c v l).
Proof.
  intros H. pose proof H as (Hs & Hc & Hn & C). unfold sgrown. destruct (Nat.leb c (s_cap v)) eqn:E.
  - apply Nat.leb_le in E. split; assumption.
  - apply Nat.leb_gt in E. split; [|cbn; lia]. unfold sinv, is_small. cbn [s_size s_cap s_inl s_heap].
    destruct (Nat.leb (2 * c) NI) eqn:E2; [apply Nat.leb_le in E2; lia|]. repeat split; lia.
Qed.
Lemma sgrown_nm nb c v l : sinv v l -> c <= s_cap v -> sgrown nb c v l = v.
Proof. intros _ H. unfold sgrown. apply Nat.leb_le in H. now rewrite H. Qed.

(* ---- push_back / emplace_back *)
Lemma sv_push_eq al nb base x v l : sinv v l ->
  let g := sgrown (enc al nb) (length l + 1) v l in
  sv_push esz NI al nb base x v = Ok (with_cont g (l ++ [x]), grown_nb nb (length l + 1) (mk_vec 0 [] 0 (s_cap v)),
                                   sgrow_evs al (enc al nb) base (length l + 1) v l ++ [EConstruct (cont_nm NI base g (length l))]).
Proof.
  intros H g. unfold sv_push. pose proof H as (Hs & _). rewrite Hs.
  rewrite (sv_ensure_capacity_eq al nb base (length l + 1) v l H). cbn [bind]. fold g.
  destruct (sgrown_inv (enc al nb) (length l + 1) v l H) as (G & Gc). fold g in G, Gc.
  pose proof G as (Gs & _). rewrite (sinv_cont g l G), Gs.
  rewrite construct_slots by lia. cbn [bind]. unfold with_cont. rewrite app_length. cbn [length].
  now rewrite Nat.add_1_r.
Qed.
Lemma sv_pushed_inv nb x v l : sinv v l -> sinv (with_cont (sgrown nb (length l + 1) v l) (l ++ [x])) (l ++ [x]).
Proof.
  intros H. destruct (sgrown_inv nb (length l + 1) v l H) as (G & Gc).
  apply (with_cont_inv _ l); [exact G | rewrite app_length; cbn [length]; lia].
Qed.

(* ---- pop_back *)
Lemma sv_pop_eq base v l x : sinv v (l ++ [x]) ->
  sv_pop NI base v = Ok (with_cont v l, [EDestroy (cont_nm NI base v (length l))]).
Proof.
  intros H. pose proof H as (Hs & Hc & _). rewrite app_length in Hs, Hc. cbn [length] in Hs, Hc.
  unfold sv_pop. replace (s_size v) with (S (length l)) by lia.
  rewrite (sinv_cont v _ H). rewrite destroy_slots_last by lia. reflexivity.
Qed.
Lemma sv_pop_empty v : sinv v [] -> forall base, sv_pop NI base v = AssertStop.
Proof. intros (Hs & _) base. unfold sv_pop. now rewrite Hs. Qed.
Lemma sv_popped_inv v l x : sinv v (l ++ [x]) -> sinv (with_cont v l) l.
Proof. intros H. apply (with_cont_inv _ _ _ H). destruct H as (_ & Hc & _). rewrite app_length in Hc. lia. Qed.

(* ---- resize *)
Definition sresize_evs (nb base n : nat) (v : svec) (l : list V) : list ev :=
  let g := sgrown nb n v l in
  if Nat.ltb n (length l) then destroy_evs (cont_nm NI base g) n (length l - n)
  else fill_evs (cont_nm NI base g) (length l) (n - length l).

Lemma sv_resize_eq al nb base n x v l : sinv v l ->
  sv_resize esz NI al nb base n x v =
  Ok (with_cont (sgrown (enc al nb) n v l) (resized_list n x l), grown_nb nb n (mk_vec 0 [] 0 (s_cap v)),
      sgrow_evs al (enc al nb) base n v l ++ sresize_evs (enc al nb) base n v l).
Proof.
  intros H. unfold sv_resize, sresize_evs.
  rewrite (sv_ensure_capacity_eq al nb base n v l H). cbn [bind].
  destruct (sgrown_inv (enc al nb) n v l H) as (G & Gc). set (g := sgrown (enc al nb) n v l) in *.
  pose proof G as (Gs & Gl & _). rewrite (sinv_cont g l G), Gs. unfold resized_list.
  destruct (Nat.ltb n (length l)) eqn:E.
  - apply Nat.ltb_lt in E. rewrite destroy_loop_slots_tail by lia. cbn [bind].
    unfold with_cont. rewrite firstn_length, Nat.min_l by lia. reflexivity.
  - apply Nat.ltb_ge in E. rewrite fill_loop_slots by lia. cbn [bind].
    unfold with_cont. rewrite app_length, repeat_length. replace (length l + (n - length l)) with n by lia. reflexivity.
Qed.
Lemma sv_resized_inv nb n x v l : sinv v l -> sinv (with_cont (sgrown nb n v l) (resized_list n x l)) (resized_list n x l).
Proof.
  intros H. destruct (sgrown_inv nb n v l H) as (G & Gc).
  apply (with_cont_inv _ l); [exact G | rewrite resized_list_length; lia].
Qed.

(* ---- destructor *)
Lemma sv_destruct_eq al base v l : sinv v l ->
  sv_destruct esz NI al base v =
  Ok (repeat None NI, destroy_evs (cont_nm NI base v) 0 (length l)
                      ++ (if is_small NI v then [] else [EDealloc (reenc al (s_blk v)) (esz * N.of_nat (s_cap v))])).
Proof.
  intros H. pose proof H as (Hs & Hc & Hn & C). unfold sv_destruct. rewrite Hs, (sinv_cont v l H).
  rewrite destroy_loop_slots_all by lia. cbn [bind]. do 2 f_equal.
  unfold set_cont. destruct (is_small NI v) eqn:E; cbn [s_inl].
  - now rewrite (is_small_cap v l H E).
  - now destruct C.
Qed.

(* ---- copy construction into storage whose inline slots are raw *)
Definition scopied (nb : nat) (l : list V) : svec :=
  with_cont (sgrown nb (length l) (sv_empty NI (repeat None NI)) []) l.
Lemma sv_copy_ctor_eq al nb base obase o l : sinv o l ->
  let g := sgrown (enc al nb) (length l) (sv_empty NI (repeat None NI)) [] in
  sv_copy_ctor esz NI al nb base obase (repeat None NI) o =
  Ok (scopied (enc al nb) l, grown_nb nb (length l) (mk_vec 0 [] 0 NI),
      sgrow_evs al (enc al nb) base (length l) (sv_empty NI (repeat None NI)) []
      ++ xfer_evs (cont_nm NI obase o) (cont_nm NI base g) 0 (length l)).
Proof.
  intros H g. pose proof H as (Hs & Hc & _). unfold sv_copy_ctor. rewrite Hs.
  rewrite (sv_ensure_capacity_eq al nb base (length l) _ [] sinv_empty). cbn [bind]. fold g.
  destruct (sgrown_inv (enc al nb) (length l) _ [] sinv_empty) as (G & Gc). fold g in G, Gc.
  rewrite (sinv_cont o l H), (sinv_cont g [] G). rewrite slots_nil. unfold slots at 1.
  rewrite xfer_loop_slots by lia. cbn [bind]. reflexivity.
Qed.
Lemma scopied_inv nb l : sinv (scopied nb l) l.
Proof.
  destruct (sgrown_inv nb (length l) _ [] sinv_empty) as (G & Gc).
  unfold scopied. apply (with_cont_inv _ []); assumption.
Qed.

(* ---- element access *)
Lemma sv_front_eq v l : sinv v l -> sv_front NI v = match l with [] => AssertStop | x :: _ => Ok x end.
Proof.
  intros H. pose proof H as (Hs & _). unfold sv_front. rewrite Hs, (sinv_cont v l H). destruct l as [|x l]; [reflexivity|].
  cbn [length]. rewrite rd_slots_lt by (cbn; lia). reflexivity.
Qed.
Lemma sv_back_eq v l x : sinv v (l ++ [x]) -> sv_back NI v = Ok x.
Proof.
  intros H. pose proof H as (Hs & Hc & _). rewrite app_length in Hs, Hc. cbn [length] in Hs, Hc.
  unfold sv_back. replace (s_size v) with (S (length l)) by lia.
  rewrite (sinv_cont v _ H). apply rd_slots_last. lia.
Qed.
Lemma sv_back_empty v : sinv v [] -> sv_back NI v = AssertStop.
Proof. intros (Hs & _). unfold sv_back. now rewrite Hs. Qed.
Lemma sv_index_eq v l i : sinv v l -> sv_index NI v i = if Nat.ltb i (length l) then Ok (nth i l 0%N) else UB.
Proof.
  intros H. unfold sv_index. rewrite (sinv_cont v l H). destruct (Nat.ltb i (length l)) eqn:E.
  - apply Nat.ltb_lt in E. now apply rd_slots_lt.
  - apply Nat.ltb_ge in E. now apply rd_slots_ge.
Qed.
Lemma sv_iterate_eq v l : sinv v l -> sv_iterate NI v = map Some l.
Proof.
  intros H. pose proof H as (Hs & Hc & _). unfold sv_iterate. rewrite Hs, (sinv_cont v l H). now apply peek_all_slots.
Qed.


(* ---- swap: the loops *)
Lemma swap_loop_gen : forall ea eb an bn pa qa pb qb,
  length ea = length eb -> length pa = length pb ->
  swap_loop (length ea) (length pa) an bn (pa ++ map Some ea ++ qa) (pb ++ map Some eb ++ qb) =
  Ok (pa ++ map Some eb ++ qa, pb ++ map Some ea ++ qb, swap_evs an bn (length pa) (length ea)).
Proof.
  induction ea as [|x ea IH]; intros [|y eb] an bn pa qa pb qb Hl Hp; try discriminate.
  - reflexivity.
  - cbn [length swap_loop map app]. rewrite rd_mid. cbn [bind]. rewrite destroy_mid. cbn [bind].
    rewrite Hp. rewrite rd_mid. cbn [bind]. rewrite <- Hp. rewrite construct_mid. cbn [bind].
    rewrite Hp. rewrite destroy_mid. cbn [bind]. rewrite construct_mid. cbn [bind]. rewrite <- Hp.
    specialize (IH eb an bn (pa ++ [Some y]) qa (pb ++ [Some x]) qb).
    rewrite !app_length in IH. cbn [length] in IH. rewrite !Nat.add_1_r in IH.
    rewrite <- !app_assoc in IH. cbn [app] in IH.
    rewrite IH by (cbn [length] in Hl; lia). cbn [bind]. unfold swap_evs. cbn [seq flat_map app]. reflexivity.
Qed.

Lemma reloc_loop_gen : forall es sn dn ps qs pd qd,
  length ps = length pd ->
  reloc_loop (length es) (length ps) sn dn (ps ++ map Some es ++ qs) (pd ++ repeat None (length es) ++ qd) =
  Ok (ps ++ repeat None (length es) ++ qs, pd ++ map Some es ++ qd, reloc_evs sn dn (length ps) (length es)).
Proof.
  induction es as [|e es IH]; intros sn dn ps qs pd qd Hp.
  - reflexivity.
  - cbn [length reloc_loop map repeat app]. rewrite rd_mid. cbn [bind].
    rewrite Hp. rewrite construct_mid. cbn [bind]. rewrite <- Hp. rewrite destroy_mid. cbn [bind].
    specialize (IH sn dn (ps ++ [None]) qs (pd ++ [Some e]) qd).
    rewrite !app_length in IH. cbn [length] in IH. rewrite !Nat.add_1_r in IH.
    rewrite <- !app_assoc in IH. cbn [app] in IH.
    rewrite IH by lia. cbn [bind]. unfold reloc_evs. cbn [seq flat_map app]. reflexivity.
Qed.

Lemma reloc_loop_at es sn dn ps qs pd qd i k : i = length ps -> k = length es -> length ps = length pd ->
  reloc_loop k i sn dn (ps ++ map Some es ++ qs) (pd ++ repeat None k ++ qd) =
  Ok (ps ++ repeat None k ++ qs, pd ++ map Some es ++ qd, reloc_evs sn dn i k).
Proof. intros -> -> H. now apply reloc_loop_gen. Qed.

(* the three loops of swap() on two inline arrays holding la and lb exchange their contents *)
Lemma inl_swap an bn (la lb : list V) n : length la <= n -> length lb <= n ->
  let c := Nat.min (length la) (length lb) in
  bind (swap_loop c 0 an bn (slots la n) (slots lb n)) (fun '(ia, ib, e1) =>
  bind (reloc_loop (length la - c) c an bn ia ib) (fun '(ia2, ib2, e2) =>
  bind (reloc_loop (length lb - c) c bn an ib2 ia2) (fun '(ib3, ia3, e3) =>
  Ok (ia3, ib3, e1 ++ e2 ++ e3)))) =
  Ok (slots lb n, slots la n, inl_swap_evs an bn (length la) (length lb)).
Proof.
  intros Ha Hb. cbn zeta. unfold inl_swap_evs.
  destruct (Nat.le_ge_cases (length la) (length lb)) as [L|L].
  - rewrite Nat.min_l by lia.
    assert (Sa : slots la n = [] ++ map Some la ++ repeat None (n - length la)) by reflexivity.
    assert (Sb : slots lb n = [] ++ map Some (firstn (length la) lb) ++ (map Some (skipn (length la) lb) ++ repeat None (n - length lb))).
    { unfold slots. cbn [app]. rewrite app_assoc, <- map_app, firstn_skipn. reflexivity. }
    rewrite Sa, Sb.
    pose proof (swap_loop_gen la (firstn (length la) lb) an bn [] (repeat None (n - length la)) []
                  (map Some (skipn (length la) lb) ++ repeat None (n - length lb))) as X.
    cbn [length] in X. rewrite X by (rewrite ?firstn_length; cbn [length]; lia). clear X.
    cbn [bind app]. rewrite Nat.sub_diag. cbn [reloc_loop bind].
    assert (Hd : repeat (@None V) (n - length la) = repeat None (length lb - length la) ++ repeat None (n - length lb)).
    { rewrite <- repeat_app. f_equal. lia. }
    rewrite Hd.
    rewrite (reloc_loop_at (skipn (length la) lb) bn an (map Some la) (repeat None (n - length lb)) (map Some (firstn (length la) lb))
               (repeat None (n - length lb)) (length la) (length lb - length la))
      by (rewrite ?map_length, ?firstn_length, ?skipn_length; lia).
    cbn [bind seq flat_map reloc_evs app]. reflexivity.
  - rewrite Nat.min_r by lia.
    assert (Sb : slots lb n = [] ++ map Some lb ++ repeat None (n - length lb)) by reflexivity.
    assert (Sa : slots la n = [] ++ map Some (firstn (length lb) la) ++ (map Some (skipn (length lb) la) ++ repeat None (n - length la))).
    { unfold slots. cbn [app]. rewrite app_assoc, <- map_app, firstn_skipn. reflexivity. }
    rewrite Sa, Sb.
    pose proof (swap_loop_gen (firstn (length lb) la) lb an bn [] (map Some (skipn (length lb) la) ++ repeat None (n - length la)) []
                  (repeat None (n - length lb))) as X.
    cbn [length] in X. rewrite firstn_length, Nat.min_l in X by lia. rewrite X by (rewrite ?firstn_length; cbn [length]; lia). clear X.
    cbn [bind app].
    assert (Hd : repeat (@None V) (n - length lb) = repeat None (length la - length lb) ++ repeat None (n - length la)).
    { rewrite <- repeat_app. f_equal. lia. }
    rewrite Hd.
    rewrite (reloc_loop_at (skipn (length lb) la) an bn (map Some lb) (repeat None (n - length la)) (map Some (firstn (length lb) la))
               (repeat None (n - length la)) (length lb) (length la - length lb))
      by (rewrite ?map_length, ?firstn_length, ?skipn_length; lia).
    cbn [bind]. rewrite Nat.sub_diag. cbn [reloc_loop bind seq flat_map reloc_evs]. now rewrite !app_nil_r.
Qed.

(* what the inline array of v holds *)
Definition inl_list (v : svec) (l : list V) : list V := if is_small NI v then l else [].
Lemma sinv_inl v l : sinv v l -> s_inl v = slots (inl_list v l) NI /\ length (inl_list v l) <= NI.
Proof.
  intros H. pose proof H as (_ & Hc & _ & C). unfold inl_list. destruct (is_small NI v) eqn:E.
  - split; [exact C | rewrite <- (is_small_cap v l H E); exact Hc].
  - destruct C as [-> _]. split; [now rewrite slots_nil | cbn; lia].
Qed.

Definition swapped (a b : svec) (lb : list V) : svec :=
  mk_sv (slots (inl_list b lb) NI) (s_blk b) (s_heap b) (s_size b) (s_cap b).

Lemma sv_swap_eq abase bbase a b la lb : sinv a la -> sinv b lb ->
  sv_swap NI abase bbase a b =
  Ok (swapped a b lb, swapped b a la,
      inl_swap_evs (inl_nm abase) (inl_nm bbase) (length (inl_list a la)) (length (inl_list b lb))).
Proof.
  intros Ha Hb. destruct (sinv_inl a la Ha) as (Ia & La). destruct (sinv_inl b lb Hb) as (Ib & Lb).
  unfold sv_swap. rewrite Ia, Ib.
  assert (Ea : (if is_small NI a then s_size a else 0) = length (inl_list a la)).
  { unfold inl_list. destruct Ha as (-> & _). now destruct (is_small NI a). }
  assert (Eb : (if is_small NI b then s_size b else 0) = length (inl_list b lb)).
  { unfold inl_list. destruct Hb as (-> & _). now destruct (is_small NI b). }
  rewrite Ea, Eb.
  pose proof (inl_swap (inl_nm abase) (inl_nm bbase) (inl_list a la) (inl_list b lb) NI La Lb) as X. cbn zeta in X.
  destruct (swap_loop _ 0 _ _ _ _) as [[[ia ib] e1]| | |]; cbn [bind] in X |- *; try discriminate.
  destruct (reloc_loop _ _ (inl_nm abase) _ ia ib) as [[[ia2 ib2] e2]| | |]; cbn [bind] in X |- *; try discriminate.
  destruct (reloc_loop _ _ (inl_nm bbase) _ ib2 ia2) as [[[ib3 ia3] e3]| | |]; cbn [bind] in X |- *; try discriminate.
  inversion X; subst. reflexivity.
Qed.

Lemma swapped_inv a b lb : sinv b lb -> sinv (swapped a b lb) lb.
Proof.
  intros H. pose proof H as (Hs & Hc & Hn & C). unfold swapped, sinv, inl_list, is_small in *. cbn [s_size s_cap s_inl s_heap].
  destruct (Nat.leb (s_cap b) NI) eqn:E.
  - repeat split; auto.
  - destruct C as [C1 C2]. repeat split; auto. now rewrite slots_nil.
Qed.


(* ================================================================== refinement to lists (C13) *)
(* unchecked precondition: operator[] within size.  pop_back/front/back of an empty vector are asserted. *)
Definition sref_pre (rs : rstate) (o : sop) : Prop :=
  match o with SIndex r i => i < length (rs r) | _ => True end.

(* None = FRG_ASSERT stops the operation *)
Definition sref_step (rs : rstate) (o : sop) : option (rstate * out) :=
  match o with
  | SPush r x | SPushMove r x | SEmplace r x => Some (set_reg rs r (rs r ++ [x]), OUnit)
  | SPop r => match rs r with [] => None | _ => Some (set_reg rs r (removelast (rs r)), OUnit) end
  | SResize r n x => Some (set_reg rs r (resized_list n x (rs r)), OUnit)
  | SFront r => match rs r with [] => None | x :: _ => Some (rs, OVal x) end
  | SBack r => match rs r with [] => None | _ => Some (rs, OVal (last (rs r) 0%N)) end
  | SIndex r i => Some (rs, OVal (nth i (rs r) 0%N))
  | SCopyCtor r s => Some (if Nat.eqb r s then rs else set_reg rs r (rs s), OUnit)
  | SMoveCtor r s => Some (if Nat.eqb r s then rs else set_reg (set_reg rs r (rs s)) s [], OUnit)
  | SSwap r s => Some (if Nat.eqb r s then rs else set_reg (set_reg rs r (rs s)) s (rs r), OUnit)
  end.

Fixpoint sref_run (rs : rstate) (ops : list sop) : option (rstate * list out) :=
  match ops with
  | [] => Some (rs, [])
  | o :: r =>
    match sref_step rs o with
    | None => None
    | Some (rs1, x) => match sref_run rs1 r with None => None | Some (rs2, xs) => Some (rs2, x :: xs) end
    end
  end.
Fixpoint sref_ok (rs : rstate) (ops : list sop) : Prop :=
  match ops with
  | [] => True
  | o :: r => sref_pre rs o /\ match sref_step rs o with None => True | Some (rs1, _) => sref_ok rs1 r end
  end.

Definition srel (st : sst) (rs : rstate) : Prop := forall r, sinv (sregs st r) (rs r).

Lemma srel_set rg al al' nb nb' rs r v l : srel (mk_sst rg al nb) rs -> sinv v l ->
  srel (mk_sst (set_reg rg r v) al' nb') (set_reg rs r l).
Proof. intros H Hv k. cbn [sregs]. unfold set_reg. destruct (Nat.eqb k r); [exact Hv | apply (H k)]. Qed.

Lemma sstep_refines st rs o : srel st rs -> sref_pre rs o ->
  match sref_step rs o with
  | Some (rs', out) => exists st' e, sstep esz NI st o = Ok (st', out, e) /\ srel st' rs'
  | None => sstep esz NI st o = AssertStop
  end.
Proof.
  intros R P. destruct st as [rg al nb]. pose proof R as R0. unfold srel in R0. cbn [sregs] in R0.
  destruct o as [r x|r x|r x|r|r n x|r|r|r i|r s|r s|r s]; cbn [sstep sregs sals snextb sref_step sref_pre] in *.
  1-3: rewrite (sv_push_eq (al r) nb (base_of NI r) x (rg r) (rs r) (R0 r)); cbn [bind]; do 2 eexists; split; [reflexivity|];
       eapply srel_set; [exact R | apply sv_pushed_inv, R0].
  - (* pop_back *)
    destruct (rs r) as [|a l0] eqn:E.
    + pose proof (R0 r) as Hr. rewrite E in Hr. now rewrite (sv_pop_empty _ Hr).
    + rewrite <- E. assert (NE : rs r <> []) by (rewrite E; discriminate).
      destruct (exists_last NE) as (l & x & E'). pose proof (R0 r) as Hr. rewrite E' in Hr.
      rewrite (sv_pop_eq (base_of NI r) (rg r) l x Hr). cbn [bind]. rewrite E', removelast_last.
      do 2 eexists; split; [reflexivity|]. eapply srel_set; [exact R | eapply sv_popped_inv; exact Hr].
  - (* resize *)
    rewrite (sv_resize_eq (al r) nb (base_of NI r) n x (rg r) (rs r) (R0 r)). cbn [bind].
    do 2 eexists; split; [reflexivity|]. eapply srel_set; [exact R | apply sv_resized_inv, R0].
  - (* front *)
    rewrite (sv_front_eq (rg r) (rs r) (R0 r)). destruct (rs r) as [|x l]; [reflexivity|]. cbn [bind].
    do 2 eexists; split; [reflexivity | exact R].
  - (* back *)
    destruct (rs r) as [|a l0] eqn:E.
    + pose proof (R0 r) as Hr. rewrite E in Hr. now rewrite (sv_back_empty _ Hr).
    + rewrite <- E. assert (NE : rs r <> []) by (rewrite E; discriminate).
      destruct (exists_last NE) as (l & x & E'). pose proof (R0 r) as Hr. rewrite E' in Hr.
      rewrite (sv_back_eq (rg r) l x Hr). cbn [bind]. rewrite E', last_last.
      do 2 eexists; split; [reflexivity | exact R].
  - (* index *)
    rewrite (sv_index_eq (rg r) (rs r) i (R0 r)). apply Nat.ltb_lt in P. rewrite P. cbn [bind].
    do 2 eexists; split; [reflexivity | exact R].
  - (* copy construction *)
    destruct (Nat.eqb r s) eqn:E; [do 2 eexists; split; [reflexivity | exact R]|].
    rewrite (sv_destruct_eq (al r) (base_of NI r) (rg r) (rs r) (R0 r)). cbn [bind].
    rewrite (sv_copy_ctor_eq (al s) nb (base_of NI r) (base_of NI s) (rg s) (rs s) (R0 s)). cbn [bind].
    do 2 eexists; split; [reflexivity|]. eapply srel_set; [exact R | apply scopied_inv].
  - (* move construction *)
    destruct (Nat.eqb r s) eqn:E; [do 2 eexists; split; [reflexivity | exact R]|].
    rewrite (sv_destruct_eq (al r) (base_of NI r) (rg r) (rs r) (R0 r)). cbn [bind].
    rewrite (sv_swap_eq (base_of NI r) (base_of NI s) _ (rg s) [] (rs s) sinv_empty (R0 s)). cbn [bind].
    do 2 eexists; split; [reflexivity|].
    eapply srel_set with (al := al) (nb := nb); [eapply srel_set with (al := al) (al' := al) (nb := nb) (nb' := nb); [exact R | apply swapped_inv, R0] | apply swapped_inv, sinv_empty].
  - (* swap *)
    destruct (Nat.eqb r s) eqn:E; [do 2 eexists; split; [reflexivity | exact R]|].
    rewrite (sv_swap_eq (base_of NI r) (base_of NI s) (rg r) (rg s) (rs r) (rs s) (R0 r) (R0 s)). cbn [bind].
    do 2 eexists; split; [reflexivity|].
    eapply srel_set with (al := al) (nb := nb); [eapply srel_set with (al := al) (al' := al) (nb := nb) (nb' := nb); [exact R | apply swapped_inv, R0] | apply swapped_inv, R0].
Qed.

Lemma sstep_pre_exact st rs o : srel st rs -> ~ sref_pre rs o -> sstep esz NI st o = UB.
Proof.
  intros R P. destruct st as [rg al nb]. pose proof R as R0. unfold srel in R0. cbn [sregs] in R0.
  destruct o as [r x|r x|r x|r|r n x|r|r|r i|r s|r s|r s]; cbn [sref_pre] in P; try (exfalso; apply P; exact I).
  cbn [sstep sregs sals]. rewrite (sv_index_eq (rg r) (rs r) i (R0 r)).
  destruct (Nat.ltb i (length (rs r))) eqn:E; [apply Nat.ltb_lt in E; contradiction | reflexivity].
Qed.

Lemma srun_refines : forall ops st rs, srel st rs -> sref_ok rs ops ->
  match sref_run rs ops with
  | Some (rs', outs) => exists st' e, srun esz NI st ops = Ok (st', outs, e) /\ srel st' rs'
  | None => srun esz NI st ops = AssertStop
  end.
Proof.
  induction ops as [|o ops IH]; intros st rs R K.
  - do 2 eexists; split; [reflexivity | exact R].
  - destruct K as [P K]. pose proof (sstep_refines st rs o R P) as Hs. cbn [srun sref_run].
    destruct (sref_step rs o) as [[rs1 x]|]; [|now rewrite Hs].
    destruct Hs as (st1 & e1 & H1 & R1). rewrite H1. cbn [bind].
    specialize (IH st1 rs1 R1 K). destruct (sref_run rs1 ops) as [[rs2 xs]|].
    + destruct IH as (st2 & e2 & H2 & R2). rewrite H2. cbn [bind]. do 2 eexists; split; [reflexivity | exact R2].
    + now rewrite IH.
Qed.

Lemma srel0 : srel (sst0 NI) rs0.
Proof. intros r. apply sinv_empty. Qed.

Lemma sv_observers v l : sinv v l ->
  sv_size v = length l /\ (sv_is_empty v = true <-> l = []) /\ sv_iterate NI v = map Some l /\
  (forall i, i < length l -> sv_index NI v i = Ok (nth i l 0%N)) /\
  (l <> [] -> sv_front NI v = Ok (hd 0%N l) /\ sv_back NI v = Ok (last l 0%N)) /\
  length (cont NI v) = s_cap v /\ (is_small NI v = true <-> s_cap v <= NI).
Proof.
  intros H. pose proof H as (Hs & Hc & Hn & C). unfold sv_is_empty, sv_size. rewrite Hs.
  split; [reflexivity|]. split; [rewrite Nat.eqb_eq; split; [intros E; now apply length_zero_iff_nil | intros ->; reflexivity]|].
  split; [now apply sv_iterate_eq|].
  split; [intros i Hi; rewrite (sv_index_eq v l i H); apply Nat.ltb_lt in Hi; now rewrite Hi|].
  split; [|split].
  - intros Hne. split.
    + rewrite (sv_front_eq v l H). destruct l; [congruence | reflexivity].
    + destruct (exists_last Hne) as (l' & x & E). subst l. rewrite (sv_back_eq v l' x H), last_last. reflexivity.
  - rewrite (sinv_cont v l H). now apply slots_length.
  - unfold is_small. apply Nat.leb_le.
Qed.

End WithParams.
