(* Footprints: which objects / which allocator block a container object accounts for, and how the event
   lists of the container operations move the lifetime state from one footprint assignment to the next. *)
From Coq Require Import List NArith Arith Bool Lia.
From FV Require Import Common.EventLog Seq.SlotModel Seq.SlotProofs Seq.LogProofs Seq.VectorModel.
Import ListNotations.

(* objects (f_k, f_off + j), j < f_size; the storage has room for f_lim objects; f_heap = the allocator block
   (id, bytes) this container has to give back *)
Record fpr := mk_fp { f_k : nat; f_off : nat; f_size : nat; f_lim : nat; f_heap : option (nat * N) }.
Definition fp0 : fpr := mk_fp 0 0 0 0 None.

Definition f_live (f : fpr) (o : obj) : bool := in_rng o (f_k f) (f_off f) (f_off f + f_size f).
Definition f_room (f : fpr) (o : obj) : bool := in_rng o (f_k f) (f_off f) (f_off f + f_lim f).
Definition f_blk (f : fpr) (b : nat) : option N :=
  match f_heap f with Some (b', n) => if Nat.eqb b b' then Some n else None | None => None end.
Definition f_nm (f : fpr) : nm := nmk (f_k f) (f_off f).

Section Tracks.
Variable K : nat.      (* footprint slots 0 .. K-1 *)

Definition btracks (Bf : nat -> option N) (fs : nat -> fpr) : Prop :=
  forall b n, Bf b = Some n <-> exists i, i < K /\ f_blk (fs i) b = Some n.
Definition ltracks (Lf : obj -> bool) (fs : nat -> fpr) : Prop :=
  forall o, Lf o = true <-> exists i, i < K /\ f_live (fs i) o = true.
Definition tracks (ls : lstate) (fs : nat -> fpr) : Prop :=
  btracks (fun b => has_block b ls) fs /\ ltracks (fun o => is_live o ls) fs.

Definition fp_ok (nb : nat) (f : fpr) : Prop :=
  f_size f <= f_lim f /\ f_k f < nb /\
  (f_k f <> 0 -> exists n, f_heap f = Some (f_k f, n)) /\
  (forall b n, f_heap f = Some (b, n) -> b = f_k f /\ b <> 0 /\ b < nb).

Definition sep (f g : fpr) : Prop :=
  (f_k f <> f_k g \/ f_off f + f_lim f <= f_off g \/ f_off g + f_lim g <= f_off f) /\
  (forall b n m, f_heap f = Some (b, n) -> f_heap g = Some (b, m) -> False).

Definition good (nb : nat) (fs : nat -> fpr) : Prop :=
  nb <> 0 /\ (forall i, i < K -> fp_ok nb (fs i)) /\
  (forall i j, i < K -> j < K -> i <> j -> sep (fs i) (fs j)).

Lemma sep_sym f g : sep f g -> sep g f.
Proof. intros (A & B). split; [lia | intros b n m H1 H2; eapply B; eauto]. Qed.

Lemma f_live_room f o : f_size f <= f_lim f -> f_live f o = true -> f_room f o = true.
Proof. intros H E. apply in_rng_spec in E. apply in_rng_spec. lia. Qed.

Lemma sep_room f g o : sep f g -> f_room f o = true -> f_room g o = true -> False.
Proof. intros (A & _) E1 E2. apply in_rng_spec in E1, E2. lia. Qed.

Lemma set_reg_same {A} (f : nat -> A) r x : set_reg f r x r = x.
Proof. unfold set_reg. now rewrite Nat.eqb_refl. Qed.
Lemma set_reg_other {A} (f : nat -> A) r x k : k <> r -> set_reg f r x k = f k.
Proof. intros H. unfold set_reg. now rewrite (proj2 (Nat.eqb_neq k r) H). Qed.

Lemma tracks_ext ls fs fs' : (forall i, i < K -> fs' i = fs i) -> tracks ls fs -> tracks ls fs'.
Proof.
  intros E (B & L). split.
  - intros b n. split.
    + intros H. apply (B b n) in H. destruct H as (i & Hi & H). exists i. split; [exact Hi | now rewrite E].
    + intros (i & Hi & H). apply (B b n). exists i. split; [exact Hi | now rewrite <- E].
  - intros o. split.
    + intros H. apply (L o) in H. destruct H as (i & Hi & H). exists i. split; [exact Hi | now rewrite E].
    + intros (i & Hi & H). apply (L o). exists i. split; [exact Hi | now rewrite <- E].
Qed.
Lemma good_ext nb fs fs' : (forall i, i < K -> fs' i = fs i) -> good nb fs -> good nb fs'.
Proof.
  intros E (N & O & S). split; [exact N|]. split.
  - intros i Hi. rewrite E by exact Hi. now apply O.
  - intros i j Hi Hj Nij. rewrite !E by assumption. now apply S.
Qed.
Lemma good_mono nb nb' fs : nb <= nb' -> good nb fs -> good nb' fs.
Proof.
  intros Hn (N & O & S). split; [lia|]. split; [|exact S].
  intros i Hi. destruct (O i Hi) as (A & B & C & D). repeat split; auto; try lia.
  - destruct (D b n H) as (? & ? & ?); assumption.
  - destruct (D b n H) as (? & ? & ?); assumption.
  - destruct (D b n H) as (? & ? & ?); lia.
Qed.

(* the live part of [tracks] after an update of slot i: objects D disappear, objects A appear *)
Lemma ltracks_update Lf Lf' fs i f' (A D : obj -> bool) nb :
  ltracks Lf fs -> good nb fs -> i < K ->
  (forall o, Lf' o = (Lf o && negb (D o)) || A o) ->
  (forall o, D o = true -> f_room (fs i) o = true) ->
  (forall o, f_live f' o = (f_live (fs i) o && negb (D o)) || A o) ->
  ltracks Lf' (set_reg fs i f').
Proof.
  intros L (_ & O & S) Hi HL HD HF o. rewrite HL. split.
  - intros H. apply orb_true_iff in H. destruct H as [H|H].
    + apply andb_true_iff in H. destruct H as [H1 H2]. apply L in H1. destruct H1 as (j & Hj & H1).
      destruct (Nat.eq_dec j i) as [->|N].
      * exists i. split; [exact Hi|]. rewrite set_reg_same, HF, H1, H2. reflexivity.
      * exists j. split; [exact Hj|]. now rewrite set_reg_other.
    + exists i. split; [exact Hi|]. rewrite set_reg_same, HF, H. apply orb_true_r.
  - intros (j & Hj & H). destruct (Nat.eq_dec j i) as [->|N].
    + rewrite set_reg_same, HF in H. apply orb_true_iff in H. destruct H as [H|H]; [|rewrite H; apply orb_true_r].
      apply andb_true_iff in H. destruct H as [H1 H2]. rewrite H2.
      assert (Lf o = true) as -> by (apply L; eauto). reflexivity.
    + rewrite set_reg_other in H by exact N.
      assert (Lf o = true) as -> by (apply L; eauto).
      destruct (D o) eqn:ED; [|reflexivity]. exfalso.
      apply (sep_room (fs i) (fs j) o); [apply S; auto | now apply HD |].
      apply f_live_room; [apply (O j Hj) | exact H].
Qed.

(* the block part of [tracks] when only slot i changes and the blocks stay the same *)
Lemma btracks_same Bf Bf' fs i f' :
  btracks Bf fs -> (forall b, Bf' b = Bf b) -> f_heap f' = f_heap (fs i) ->
  btracks Bf' (set_reg fs i f').
Proof.
  intros B HB HH b n. rewrite HB, (B b n). split; intros (j & Hj & H); exists j; (split; [exact Hj|]);
    (destruct (Nat.eq_dec j i) as [->|N]; [rewrite set_reg_same in *; unfold f_blk in *; now rewrite ?HH in * | now rewrite set_reg_other in *]).
Qed.

Lemma good_update nb fs i f' :
  good nb fs -> i < K -> fp_ok nb f' -> (forall j, j < K -> j <> i -> sep f' (fs j)) -> good nb (set_reg fs i f').
Proof.
  intros (N & O & S) Hi Ok Sp. split; [exact N|]. split.
  - intros j Hj. destruct (Nat.eq_dec j i) as [->|Nj]; [now rewrite set_reg_same | rewrite set_reg_other by exact Nj; now apply O].
  - intros a b Ha Hb Nab.
    destruct (Nat.eq_dec a i) as [->|Na]; destruct (Nat.eq_dec b i) as [->|Nb]; try congruence.
    + rewrite set_reg_same, set_reg_other by exact Nb. now apply Sp.
    + rewrite set_reg_same, set_reg_other by exact Na. apply sep_sym. now apply Sp.
    + rewrite !set_reg_other by assumption. now apply S.
Qed.

(* a footprint that keeps its place (k, off, lim, heap) and only changes its size *)
Definition resize_fp (f : fpr) (n : nat) : fpr := mk_fp (f_k f) (f_off f) n (f_lim f) (f_heap f).

Lemma good_resize nb fs i n : good nb fs -> i < K -> n <= f_lim (fs i) -> good nb (set_reg fs i (resize_fp (fs i) n)).
Proof.
  intros G Hi Hn. pose proof G as (N & O & S). apply good_update; auto.
  - destruct (O i Hi) as (A & B & C & D). split; [exact Hn|]. split; [exact B|]. split; [exact C | exact D].
  - intros j Hj Nj. destruct (S i j Hi Hj (not_eq_sym Nj)) as (X & Y). split; [exact X | exact Y].
Qed.

Lemma blk_ok_fp ls fs nb i : tracks ls fs -> good nb fs -> i < K -> blk_ok (f_k (fs i)) ls.
Proof.
  intros (B & _) (_ & O & _) Hi. destruct (Nat.eq_dec (f_k (fs i)) 0) as [E|N]; [now left|]. right.
  destruct (O i Hi) as (_ & _ & C & _). destruct (C N) as (n & Hn).
  assert (has_block (f_k (fs i)) ls = Some n) as ->; [|discriminate].
  apply B. exists i. split; [exact Hi|]. unfold f_blk. now rewrite Hn, Nat.eqb_refl.
Qed.

(* ---- destroy the objects [n, size) of slot i *)
Lemma fp_destroy_tail ls fs nb i n :
  tracks ls fs -> good nb fs -> i < K -> n <= f_size (fs i) ->
  exists ls', ev_run ls (destroy_evs (f_nm (fs i)) n (f_size (fs i) - n)) = Some ls' /\
    tracks ls' (set_reg fs i (resize_fp (fs i) n)) /\ good nb (set_reg fs i (resize_fp (fs i) n)).
Proof.
  intros T G Hi Hn. pose proof T as (B & L). pose proof G as (_ & O & _). destruct (O i Hi) as (Hsz & _).
  set (f := fs i) in *.
  destruct (run_destroy_evs (f_k f) (f_off f) (f_size f - n) n ls) as (ls' & E & B' & L').
  { intros j Hj. apply L. exists i. split; [exact Hi|]. fold f. unfold f_live. rewrite in_rng_nmk.
    apply andb_true_iff. split; [apply Nat.leb_le | apply Nat.ltb_lt]; lia. }
  exists ls'. split; [exact E|]. split; [|apply good_resize; auto; fold f; lia].
  split.
  - apply (btracks_same _ _ fs i _ B B'). reflexivity.
  - apply (ltracks_update _ _ fs i _ (fun _ => false) (fun o => in_rng o (f_k f) (f_off f + n) (f_off f + n + (f_size f - n))) nb L G Hi).
    + intros o. rewrite L'. now rewrite orb_false_r.
    + intros o Ho. fold f. apply in_rng_spec in Ho. apply in_rng_spec. lia.
    + intros o. fold f. unfold f_live, resize_fp, in_rng. cbn [f_k f_off f_size]. rewrite orb_false_r.
      destruct (Nat.eqb (fst o) (f_k f)); cbn [andb negb]; [|reflexivity].
      destruct (Nat.leb_spec (f_off f) (snd o)), (Nat.ltb_spec (snd o) (f_off f + n)), (Nat.ltb_spec (snd o) (f_off f + f_size f)),
               (Nat.leb_spec (f_off f + n) (snd o)), (Nat.ltb_spec (snd o) (f_off f + n + (f_size f - n))); cbn; try reflexivity; lia.
Qed.

(* ---- construct the objects [size, n) of slot i *)
Lemma fp_fill ls fs nb i n :
  tracks ls fs -> good nb fs -> i < K -> f_size (fs i) <= n -> n <= f_lim (fs i) ->
  exists ls', ev_run ls (fill_evs (f_nm (fs i)) (f_size (fs i)) (n - f_size (fs i))) = Some ls' /\
    tracks ls' (set_reg fs i (resize_fp (fs i) n)) /\ good nb (set_reg fs i (resize_fp (fs i) n)).
Proof.
  intros T G Hi Hn Hl. pose proof T as (B & L). pose proof G as (_ & O & S). destruct (O i Hi) as (Hsz & _).
  pose proof (blk_ok_fp ls fs nb i T G Hi) as Bk.
  set (f := fs i) in *.
  destruct (run_fill_evs (f_k f) (f_off f) (n - f_size f) (f_size f) ls Bk) as (ls' & E & B' & L').
  { intros j Hj. destruct (is_live (nmk (f_k f) (f_off f) j) ls) eqn:El; [|reflexivity]. exfalso.
    apply L in El. destruct El as (a & Ha & El). destruct (Nat.eq_dec a i) as [->|Na].
    - fold f in El. unfold f_live in El. rewrite in_rng_nmk in El. apply andb_true_iff in El. destruct El as [_ El].
      apply Nat.ltb_lt in El. lia.
    - apply (sep_room f (fs a) (nmk (f_k f) (f_off f) j)); [apply S; auto | |].
      + unfold f_room. rewrite in_rng_nmk. apply andb_true_iff. split; [apply Nat.leb_le | apply Nat.ltb_lt]; lia.
      + apply f_live_room; [apply (O a Ha) | exact El]. }
  exists ls'. split; [exact E|]. split; [|apply good_resize; auto].
  split.
  - apply (btracks_same _ _ fs i _ B B'). reflexivity.
  - apply (ltracks_update _ _ fs i _ (fun o => in_rng o (f_k f) (f_off f + f_size f) (f_off f + f_size f + (n - f_size f))) (fun _ => false) nb L G Hi).
    + intros o. rewrite L'. now rewrite andb_true_r.
    + intros o Ho. discriminate.
    + intros o. fold f. unfold f_live, resize_fp, in_rng. cbn [f_k f_off f_size negb]. rewrite andb_true_r.
      destruct (Nat.eqb (fst o) (f_k f)); cbn [andb orb]; [|reflexivity].
      destruct (Nat.leb_spec (f_off f) (snd o)), (Nat.ltb_spec (snd o) (f_off f + n)), (Nat.ltb_spec (snd o) (f_off f + f_size f)),
               (Nat.leb_spec (f_off f + f_size f) (snd o)), (Nat.ltb_spec (snd o) (f_off f + f_size f + (n - f_size f))); cbn; try reflexivity; lia.
Qed.

(* ---- reads of live objects of slot i *)
Lemma fp_uses ls fs i e :
  tracks ls fs -> i < K ->
  Forall (fun x => exists j, j < f_size (fs i) /\ x = EUse (f_nm (fs i) j)) e -> ev_run ls e = Some ls.
Proof.
  intros (_ & L) Hi H. apply run_uses. eapply Forall_impl; [|exact H].
  intros x (j & Hj & ->). eexists. split; [reflexivity|]. apply L. exists i. split; [exact Hi|].
  unfold f_live, f_nm. rewrite in_rng_nmk. apply andb_true_iff. split; [apply Nat.leb_le | apply Nat.ltb_lt]; lia.
Qed.


(* ---- permutation of two slots *)
Definition swap_slots (fs : nat -> fpr) (a b : nat) : nat -> fpr := set_reg (set_reg fs a (fs b)) b (fs a).
Lemma swap_slots_at fs a b j : swap_slots fs a b j = if Nat.eqb j b then fs a else if Nat.eqb j a then fs b else fs j.
Proof. reflexivity. Qed.
Lemma swap_slots_inv fs a b j : swap_slots fs a b (if Nat.eqb j b then a else if Nat.eqb j a then b else j) = fs j.
Proof.
  rewrite swap_slots_at. destruct (Nat.eqb_spec j b) as [->|Nb].
  - destruct (Nat.eqb_spec a b) as [->|]; [reflexivity|]. now rewrite Nat.eqb_refl.
  - destruct (Nat.eqb_spec j a) as [->|Na]; [now rewrite Nat.eqb_refl|].
    now rewrite (proj2 (Nat.eqb_neq j b) Nb), (proj2 (Nat.eqb_neq j a) Na).
Qed.
Definition tr (a b j : nat) : nat := if Nat.eqb j b then a else if Nat.eqb j a then b else j.
Lemma tr_lt a b j : a < K -> b < K -> j < K -> tr a b j < K.
Proof. intros. unfold tr. destruct (Nat.eqb j b), (Nat.eqb j a); assumption. Qed.
Lemma tr_invol a b j : tr a b (tr a b j) = j.
Proof.
  unfold tr. destruct (Nat.eqb_spec j b) as [->|Nb].
  - destruct (Nat.eqb_spec a b) as [->|Nab]; [reflexivity|]. now rewrite Nat.eqb_refl.
  - destruct (Nat.eqb_spec j a) as [->|Na].
    + now rewrite Nat.eqb_refl.
    + destruct (Nat.eqb_spec j b); [congruence|]. destruct (Nat.eqb_spec j a); [congruence | reflexivity].
Qed.
Lemma swap_slots_tr fs a b j : swap_slots fs a b j = fs (tr a b j).
Proof.
  rewrite swap_slots_at. unfold tr. destruct (Nat.eqb_spec j b) as [->|Nb]; [reflexivity|].
  destruct (Nat.eqb_spec j a); reflexivity.
Qed.

Lemma tracks_swap ls fs a b : a < K -> b < K -> tracks ls fs -> tracks ls (swap_slots fs a b).
Proof.
  intros Ha Hb (B & L). split.
  - intros x n. split.
    + intros H. apply (B x n) in H. destruct H as (j & Hj & H). exists (tr a b j). split; [now apply tr_lt|].
      now rewrite swap_slots_tr, tr_invol.
    + intros (j & Hj & H). apply (B x n). exists (tr a b j). split; [now apply tr_lt|]. now rewrite <- swap_slots_tr.
  - intros o. split.
    + intros H. apply (L o) in H. destruct H as (j & Hj & H). exists (tr a b j). split; [now apply tr_lt|].
      now rewrite swap_slots_tr, tr_invol.
    + intros (j & Hj & H). apply (L o). exists (tr a b j). split; [now apply tr_lt|]. now rewrite <- swap_slots_tr.
Qed.
Lemma good_swap nb fs a b : a < K -> b < K -> good nb fs -> good nb (swap_slots fs a b).
Proof.
  intros Ha Hb (N & O & S). split; [exact N|]. split.
  - intros j Hj. rewrite swap_slots_tr. apply O. now apply tr_lt.
  - intros i j Hi Hj Nij. rewrite !swap_slots_tr. apply S; try now apply tr_lt.
    intros E. apply Nij. rewrite <- (tr_invol a b i), <- (tr_invol a b j). now rewrite E.
Qed.

(* ---- no live object in the room of an empty slot *)
Lemma room_dead Lf fs nb i o : ltracks Lf fs -> good nb fs -> i < K -> f_size (fs i) = 0 ->
  f_room (fs i) o = true -> Lf o = false.
Proof.
  intros L (_ & O & S) Hi Hz Hr. destruct (Lf o) eqn:E; [|reflexivity]. exfalso.
  apply (L o) in E. destruct E as (j & Hj & E). destruct (Nat.eq_dec j i) as [->|N].
  - unfold f_live in E. rewrite Hz in E. apply in_rng_spec in E. lia.
  - apply (sep_room (fs i) (fs j) o); [apply S; auto | exact Hr|]. apply f_live_room; [apply (O j Hj) | exact E].
Qed.

(* ---- allocate a block (named b, not below the bound nb) for the empty, block-less slot i *)
Lemma fp_alloc ls fs nb b i lim bytes :
  tracks ls fs -> good nb fs -> i < K -> f_size (fs i) = 0 -> f_heap (fs i) = None -> nb <= b ->
  let f' := mk_fp b 0 0 lim (Some (b, bytes)) in
  exists ls', ev_run ls [EAlloc b bytes] = Some ls' /\ tracks ls' (set_reg fs i f') /\ good (S b) (set_reg fs i f').
Proof.
  intros T G Hi Hz Hh Hb f'. pose proof T as (B & L). pose proof G as (Nz & O & Sp).
  assert (Bz : b <> 0) by lia.
  assert (Fresh : has_block b ls = None).
  { destruct (has_block b ls) as [n|] eqn:E; [|reflexivity]. exfalso. apply (B b n) in E. destruct E as (j & Hj & E).
    unfold f_blk in E. destruct (f_heap (fs j)) as [[b' m]|] eqn:Eh; [|discriminate].
    destruct (Nat.eqb_spec b b') as [<-|]; [|discriminate]. destruct (O j Hj) as (_ & _ & _ & D). destruct (D b m Eh) as (_ & _ & ?). lia. }
  destruct (step_alloc ls b bytes Bz Fresh) as (ls' & E & B' & L').
  exists ls'. split; [cbn [ev_run]; now rewrite E|]. split; [split|].
  - intros x n. rewrite B'. split.
    + destruct (Nat.eqb_spec x b) as [->|Nb].
      * intros H. inversion H; subst. exists i. split; [exact Hi|]. rewrite set_reg_same. unfold f_blk, f'. cbn [f_heap]. now rewrite Nat.eqb_refl.
      * intros H. apply (B x n) in H. destruct H as (j & Hj & H). exists j. split; [exact Hj|].
        destruct (Nat.eq_dec j i) as [->|Nj]; [unfold f_blk in H; rewrite Hh in H; discriminate | now rewrite set_reg_other].
    + intros (j & Hj & H). destruct (Nat.eq_dec j i) as [->|Nj].
      * rewrite set_reg_same in H. unfold f_blk, f' in H. cbn [f_heap] in H. destruct (Nat.eqb x b); [exact H | discriminate].
      * rewrite set_reg_other in H by exact Nj. destruct (Nat.eqb_spec x b) as [->|Nb].
        -- exfalso. unfold f_blk in H. destruct (f_heap (fs j)) as [[b' m']|] eqn:Eh; [|discriminate].
           destruct (Nat.eqb_spec b b') as [<-|]; [|discriminate]. destruct (O j Hj) as (_ & _ & _ & D). destruct (D b m' Eh) as (_ & _ & ?). lia.
        -- apply (B x n). eauto.
  - intros o. rewrite L'. split.
    + intros H. apply (L o) in H. destruct H as (j & Hj & H). exists j. split; [exact Hj|].
      destruct (Nat.eq_dec j i) as [->|Nj]; [|now rewrite set_reg_other].
      unfold f_live in H. rewrite Hz in H. apply in_rng_spec in H. lia.
    + intros (j & Hj & H). destruct (Nat.eq_dec j i) as [->|Nj].
      * rewrite set_reg_same in H. unfold f_live, f' in H. cbn in H. apply in_rng_spec in H. cbn in H. lia.
      * rewrite set_reg_other in H by exact Nj. apply (L o). eauto.
  - apply good_update; [apply (good_mono nb (S b) fs); [lia | exact G] | exact Hi | |].
    + unfold fp_ok, f'. cbn [f_size f_lim f_k f_heap]. split; [lia|]. split; [lia|]. split.
      * intros _. eauto.
      * intros x n H. inversion H; subst. repeat split; lia.
    + intros j Hj Nj. destruct (O j Hj) as (_ & Hk & _ & D). split.
      * left. unfold f'. cbn [f_k]. lia.
      * intros x n m H1 H2. unfold f' in H1. cbn [f_heap] in H1. injection H1 as Eb En. rewrite <- Eb in H2. destruct (D b m H2) as (_ & _ & ?). lia.
Qed.

(* ---- copy/move construction of the objects of slot s into the empty slot t *)
Lemma fp_xfer ls fs nb s t :
  tracks ls fs -> good nb fs -> s < K -> t < K -> s <> t -> f_size (fs t) = 0 -> f_size (fs s) <= f_lim (fs t) ->
  exists ls', ev_run ls (xfer_evs (f_nm (fs s)) (f_nm (fs t)) 0 (f_size (fs s))) = Some ls' /\
    tracks ls' (set_reg fs t (resize_fp (fs t) (f_size (fs s)))) /\
    good nb (set_reg fs t (resize_fp (fs t) (f_size (fs s)))).
Proof.
  intros T G Hs Ht Nst Hz Hl. pose proof T as (B & L). pose proof G as (_ & O & S).
  pose proof (blk_ok_fp ls fs nb t T G Ht) as Bk.
  destruct (run_xfer_evs (f_k (fs s)) (f_off (fs s)) (f_k (fs t)) (f_off (fs t)) (f_size (fs s)) 0 ls Bk) as (ls' & E & B' & L').
  { intros j Hj. apply (L _). exists s. split; [exact Hs|]. unfold f_live. rewrite in_rng_nmk.
    apply andb_true_iff. split; [apply Nat.leb_le | apply Nat.ltb_lt]; lia. }
  { intros j Hj. apply (room_dead _ fs nb t _ L G Ht Hz). unfold f_room. rewrite in_rng_nmk.
    apply andb_true_iff. split; [apply Nat.leb_le | apply Nat.ltb_lt]; lia. }
  exists ls'. split; [exact E|]. split; [|apply good_resize; auto].
  split.
  - apply (btracks_same _ _ fs t _ B B'). reflexivity.
  - apply (ltracks_update _ _ fs t _ (fun o => in_rng o (f_k (fs t)) (f_off (fs t) + 0) (f_off (fs t) + 0 + f_size (fs s))) (fun _ => false) nb L G Ht).
    + intros o. rewrite L'. now rewrite andb_true_r.
    + intros o Ho. discriminate.
    + intros o. unfold f_live, resize_fp. cbn [f_k f_off f_size negb]. rewrite Hz, andb_true_r, !Nat.add_0_r.
      destruct (in_rng o (f_k (fs t)) (f_off (fs t)) (f_off (fs t))) eqn:E0; [apply in_rng_spec in E0; lia | reflexivity].
Qed.

(* ---- destructor of slot i: destroy every object, give the block back; the slot becomes [fe] *)
Lemma fp_destruct ls fs nb i fe rel :
  tracks ls fs -> good nb fs -> i < K ->
  f_size fe = 0 -> f_heap fe = None -> fp_ok nb fe -> (forall j, j < K -> j <> i -> sep fe (fs j)) ->
  match f_heap (fs i) with
  | None => rel = []
  | Some (b, n) => rel = [EFree b] \/ rel = [EDealloc b n]
  end ->
  exists ls', ev_run ls (destroy_evs (f_nm (fs i)) 0 (f_size (fs i)) ++ rel) = Some ls' /\
    tracks ls' (set_reg fs i fe) /\ good nb (set_reg fs i fe).
Proof.
  intros T G Hi Hz Hh Hok Hsep Hrel.
  destruct (fp_destroy_tail ls fs nb i 0 T G Hi (Nat.le_0_l _)) as (ls1 & E1 & T1 & G1).
  rewrite Nat.sub_0_r in E1. rewrite (ev_run_app_some _ _ _ _ E1).
  pose proof T1 as (B1 & L1). pose proof G as (_ & O & S).
  assert (Gfe : good nb (set_reg fs i fe)) by (apply good_update; assumption).
  assert (Lfe : ltracks (fun o => is_live o ls1) (set_reg fs i fe)).
  { intros o. split.
    - intros H. apply (L1 o) in H. destruct H as (j & Hj & H). exists j. split; [exact Hj|].
      destruct (Nat.eq_dec j i) as [->|Nj]; [|now rewrite set_reg_other in *].
      rewrite set_reg_same in H. unfold f_live, resize_fp in H. cbn in H. apply in_rng_spec in H. lia.
    - intros (j & Hj & H). apply (L1 o). exists j. split; [exact Hj|].
      destruct (Nat.eq_dec j i) as [->|Nj]; [|now rewrite set_reg_other in *].
      rewrite set_reg_same in H. unfold f_live in H. rewrite Hz in H. apply in_rng_spec in H. lia. }
  destruct (f_heap (fs i)) as [[b n]|] eqn:Eh.
  - assert (Hb1 : has_block b ls1 = Some n).
    { apply (B1 b n). exists i. split; [exact Hi|]. rewrite set_reg_same. unfold f_blk, resize_fp. cbn [f_heap]. now rewrite Eh, Nat.eqb_refl. }
    destruct (O i Hi) as (_ & _ & _ & D). destruct (D b n Eh) as (Ek & Hbz & Hbn).
    assert (Dead : forall o, is_live o ls1 = true -> fst o <> b).
    { intros o Ho Eo. apply (L1 o) in Ho. destruct Ho as (j & Hj & Ho). destruct (Nat.eq_dec j i) as [->|Nj].
      - rewrite set_reg_same in Ho. unfold f_live, resize_fp in Ho. cbn in Ho. apply in_rng_spec in Ho. lia.
      - rewrite set_reg_other in Ho by exact Nj. apply in_rng_spec in Ho. destruct Ho as [Hk _].
        destruct (O j Hj) as (_ & _ & C & _). destruct C as (m & Hm); [lia|].
        destruct (S i j Hi Hj (not_eq_sym Nj)) as (_ & Cl). apply (Cl b n m Eh). rewrite Hm. f_equal. f_equal. lia. }
    assert (exists ls', ev_run ls1 rel = Some ls' /\ (forall b', has_block b' ls' = if Nat.eqb b' b then None else has_block b' ls1)
                        /\ (forall o, is_live o ls' = is_live o ls1)) as (ls' & E & B' & L').
    { destruct Hrel as [->| ->]; cbn [ev_run].
      - destruct (step_free ls1 b) as (ls' & E & B' & L'); [congruence | exact Dead|]. rewrite E. eauto.
      - destruct (step_dealloc ls1 b n Hb1 Dead) as (ls' & E & B' & L'). rewrite E. eauto. }
    exists ls'. split; [exact E|]. split; [split|exact Gfe].
    + intros x m. rewrite B'. split.
      * destruct (Nat.eqb_spec x b) as [->|Nx]; [discriminate|]. intros H. apply (B1 x m) in H. destruct H as (j & Hj & H).
        exists j. split; [exact Hj|]. destruct (Nat.eq_dec j i) as [->|Nj]; [|now rewrite set_reg_other in *].
        rewrite set_reg_same in H. unfold f_blk, resize_fp in H. cbn [f_heap] in H. rewrite Eh in H.
        destruct (Nat.eqb_spec x b); [congruence | discriminate].
      * intros (j & Hj & H). destruct (Nat.eq_dec j i) as [->|Nj].
        -- rewrite set_reg_same in H. unfold f_blk in H. rewrite Hh in H. discriminate.
        -- rewrite set_reg_other in H by exact Nj. destruct (Nat.eqb_spec x b) as [->|Nx].
           ++ exfalso. unfold f_blk in H. destruct (f_heap (fs j)) as [[b' m']|] eqn:Ej; [|discriminate].
              destruct (Nat.eqb_spec b b') as [<-|]; [|discriminate].
              destruct (S i j Hi Hj (not_eq_sym Nj)) as (_ & Cl). apply (Cl b n m' Eh Ej).
           ++ apply (B1 x m). exists j. split; [exact Hj | now rewrite set_reg_other].
    + intros o. rewrite L'. apply Lfe.
  - subst rel. exists ls1. split; [reflexivity|]. split; [split|exact Gfe]; [|exact Lfe].
    intros x m. split.
    + intros H. apply (B1 x m) in H. destruct H as (j & Hj & H). exists j. split; [exact Hj|].
      destruct (Nat.eq_dec j i) as [->|Nj]; [|now rewrite set_reg_other in *].
      rewrite set_reg_same in H. unfold f_blk, resize_fp in H. cbn [f_heap] in H. rewrite Eh in H. discriminate.
    + intros (j & Hj & H). apply (B1 x m). exists j. split; [exact Hj|].
      destruct (Nat.eq_dec j i) as [->|Nj]; [|now rewrite set_reg_other in *].
      rewrite set_reg_same in H. unfold f_blk in H. rewrite Hh in H. discriminate.
Qed.


Lemma sep_fp0 g : sep fp0 g.
Proof. split; [right; left; cbn; lia | intros b n m H; discriminate]. Qed.
Lemma fp_ok_fp0 nb : nb <> 0 -> fp_ok nb fp0.
Proof. intros H. unfold fp_ok, fp0. cbn. repeat split; try lia; try congruence; intros; discriminate. Qed.

(* ---- relocation of slot i into a fresh block (vector growth), using the spare slot sp *)
Lemma fp_relocate ls fs nb b i sp lim bytes rel :
  tracks ls fs -> good nb fs -> i < K -> sp < K -> i <> sp -> fs sp = fp0 -> f_size (fs i) <= lim -> nb <= b ->
  match f_heap (fs i) with None => rel = [] | Some (b', n) => rel = [EFree b'] \/ rel = [EDealloc b' n] end ->
  let f' := mk_fp b 0 (f_size (fs i)) lim (Some (b, bytes)) in
  exists ls', ev_run ls (EAlloc b bytes :: xfer_evs (f_nm (fs i)) (nmk b 0) 0 (f_size (fs i))
                         ++ destroy_evs (f_nm (fs i)) 0 (f_size (fs i)) ++ rel) = Some ls' /\
    tracks ls' (set_reg fs i f') /\ good (S b) (set_reg fs i f').
Proof.
  intros T G Hi Hsp Nisp Esp Hl Hb Hrel f'.
  destruct (fp_alloc ls fs nb b sp lim bytes T G Hsp) as (l1 & E1 & T1 & G1); [now rewrite Esp | now rewrite Esp | exact Hb|].
  set (fs1 := set_reg fs sp (mk_fp b 0 0 lim (Some (b, bytes)))) in *.
  assert (F1i : fs1 i = fs i) by (unfold fs1; now rewrite set_reg_other).
  assert (F1s : fs1 sp = mk_fp b 0 0 lim (Some (b, bytes))) by (unfold fs1; now rewrite set_reg_same).
  destruct (fp_xfer l1 fs1 (S b) i sp T1 G1 Hi Hsp Nisp) as (l2 & E2 & T2 & G2); [now rewrite F1s | rewrite F1i, F1s; exact Hl|].
  rewrite F1i, F1s in E2, T2, G2. unfold f_nm at 2 in E2. cbn [f_k f_off] in E2.
  set (fs2 := set_reg fs1 sp (resize_fp (mk_fp b 0 0 lim (Some (b, bytes))) (f_size (fs i)))) in *.
  assert (F2i : fs2 i = fs i) by (unfold fs2; now rewrite set_reg_other).
  destruct (fp_destruct l2 fs2 (S b) i fp0 rel T2 G2 Hi eq_refl eq_refl) as (l3 & E3 & T3 & G3).
  { apply fp_ok_fp0. lia. }
  { intros j _ _. apply sep_fp0. }
  { now rewrite F2i. }
  rewrite F2i in E3.
  exists l3. split.
  - change (EAlloc b bytes :: ?x) with ([EAlloc b bytes] ++ x).
    rewrite (ev_run_app_some _ _ _ _ E1), (ev_run_app_some _ _ _ _ E2). exact E3.
  - set (fs3 := set_reg fs2 i fp0) in *.
    assert (Ext : forall j, j < K -> set_reg fs i f' j = swap_slots fs3 i sp j).
    { intros j _. rewrite swap_slots_at.
      destruct (Nat.eqb_spec j sp) as [->|Njs].
      - rewrite set_reg_other by congruence. unfold fs3. now rewrite set_reg_same.
      - destruct (Nat.eqb_spec j i) as [->|Nji].
        + rewrite set_reg_same. unfold fs3. rewrite set_reg_other by congruence. unfold fs2. rewrite set_reg_same. reflexivity.
        + rewrite set_reg_other by exact Nji. unfold fs3, fs2, fs1. now rewrite !set_reg_other by assumption. }
    split; [eapply tracks_ext; [exact Ext | apply tracks_swap; assumption] | eapply good_ext; [exact Ext | apply good_swap; assumption]].
Qed.


(* an object in the room of slot i beyond its live range is dead *)
Lemma room_free Lf fs nb i o : ltracks Lf fs -> good nb fs -> i < K ->
  f_room (fs i) o = true -> f_live (fs i) o = false -> Lf o = false.
Proof.
  intros L (_ & O & S) Hi Hr Hn. destruct (Lf o) eqn:E; [|reflexivity]. exfalso.
  apply (L o) in E. destruct E as (j & Hj & E). destruct (Nat.eq_dec j i) as [->|N]; [congruence|].
  apply (sep_room (fs i) (fs j) o); [apply S; auto | exact Hr|]. apply f_live_room; [apply (O j Hj) | exact E].
Qed.

(* ---- element-wise swap of the contents of two slots that stay in place (small_vector inline arrays) *)
Lemma fp_swap_inline ls fs nb i j :
  tracks ls fs -> good nb fs -> i < K -> j < K -> i <> j ->
  f_size (fs j) <= f_lim (fs i) -> f_size (fs i) <= f_lim (fs j) ->
  let fs' := set_reg (set_reg fs i (resize_fp (fs i) (f_size (fs j)))) j (resize_fp (fs j) (f_size (fs i))) in
  exists ls', ev_run ls (inl_swap_evs (f_nm (fs i)) (f_nm (fs j)) (f_size (fs i)) (f_size (fs j))) = Some ls' /\
    tracks ls' fs' /\ good nb fs'.
Proof.
  intros T G Hi Hj Nij Hji Hij fs'. pose proof T as (B & L). pose proof G as (Nz & O & S).
  set (fi := fs i) in *. set (fj := fs j) in *. set (ca := f_size fi) in *. set (cb := f_size fj) in *.
  destruct (O i Hi) as (Hsi & _). destruct (O j Hj) as (Hsj & _). fold fi in Hsi. fold fj in Hsj. fold ca in Hsi. fold cb in Hsj.
  assert (Dist : forall x y, x < f_lim fi -> y < f_lim fj -> nmk (f_k fi) (f_off fi) x <> nmk (f_k fj) (f_off fj) y).
  { intros x y Hx Hy E. destruct (S i j Hi Hj Nij) as (Sp & _). fold fi fj in Sp. unfold nmk in E. inversion E. lia. }
  pose proof (blk_ok_fp ls fs nb i T G Hi) as Bi. pose proof (blk_ok_fp ls fs nb j T G Hj) as Bj. fold fi in Bi. fold fj in Bj.
  assert (Li : forall x, x < ca -> is_live (nmk (f_k fi) (f_off fi) x) ls = true).
  { intros x Hx. apply (L _). exists i. split; [exact Hi|]. fold fi. unfold f_live. rewrite in_rng_nmk.
    apply andb_true_iff. split; [apply Nat.leb_le | apply Nat.ltb_lt]; lia. }
  assert (Lj : forall x, x < cb -> is_live (nmk (f_k fj) (f_off fj) x) ls = true).
  { intros x Hx. apply (L _). exists j. split; [exact Hj|]. fold fj. unfold f_live. rewrite in_rng_nmk.
    apply andb_true_iff. split; [apply Nat.leb_le | apply Nat.ltb_lt]; lia. }
  assert (Fi : forall x, ca <= x < f_lim fi -> is_live (nmk (f_k fi) (f_off fi) x) ls = false).
  { intros x Hx. apply (room_free _ fs nb i _ L G Hi); fold fi.
    - unfold f_room. rewrite in_rng_nmk. apply andb_true_iff. split; [apply Nat.leb_le | apply Nat.ltb_lt]; lia.
    - unfold f_live. rewrite in_rng_nmk. fold ca. apply andb_false_iff. right. apply Nat.ltb_ge. lia. }
  assert (Fj : forall x, cb <= x < f_lim fj -> is_live (nmk (f_k fj) (f_off fj) x) ls = false).
  { intros x Hx. apply (room_free _ fs nb j _ L G Hj); fold fj.
    - unfold f_room. rewrite in_rng_nmk. apply andb_true_iff. split; [apply Nat.leb_le | apply Nat.ltb_lt]; lia.
    - unfold f_live. rewrite in_rng_nmk. fold cb. apply andb_false_iff. right. apply Nat.ltb_ge. lia. }
  unfold inl_swap_evs, f_nm. fold fi fj.
  destruct (run_swap_evs (f_k fi) (f_off fi) (f_k fj) (f_off fj) (Nat.min ca cb) 0 ls Bi Bj) as (l1 & E1 & B1 & L1).
  { intros x y Hx Hy. apply Dist; lia. }
  { intros x Hx. apply Li. lia. }
  { intros x Hx. apply Lj. lia. }
  rewrite (ev_run_app_some _ _ _ _ E1).
  assert (G1 : good nb (set_reg fs j (resize_fp fj ca))) by (apply good_resize; auto).
  assert (Ej : set_reg fs j (resize_fp fj ca) i = fi) by (rewrite set_reg_other by exact Nij; reflexivity).
  assert (Efs' : forall t, t < K -> fs' t = set_reg (set_reg fs j (resize_fp fj ca)) i (resize_fp fi cb) t).
  { intros t _. unfold fs', set_reg. fold fi fj ca cb. destruct (Nat.eqb_spec t j) as [Et|Nt]; destruct (Nat.eqb_spec t i) as [Et'|Nt']; subst; try reflexivity; congruence. }
  assert (Gf : good nb fs').
  { eapply good_ext; [exact Efs'|]. replace (resize_fp fi cb) with (resize_fp (set_reg fs j (resize_fp fj ca) i) cb) by now rewrite Ej.
    apply good_resize; auto. rewrite Ej. exact Hji. }
  destruct (Nat.le_ge_cases ca cb) as [Le|Le].
  - rewrite Nat.min_l by lia. rewrite Nat.sub_diag. cbn [reloc_evs seq flat_map app].
    destruct (run_reloc_evs (f_k fj) (f_off fj) (f_k fi) (f_off fi) (cb - ca) ca l1) as (l2 & E2 & B2 & L2).
    { destruct Bi as [->|Bi]; [now left | right; now rewrite B1]. }
    { intros x y Hx Hy E. apply (Dist y x); [lia | lia | now symmetry]. }
    { intros x Hx. rewrite L1. apply Lj. lia. }
    { intros x Hx. rewrite L1. apply Fi. lia. }
    exists l2. split; [exact E2|]. split; [|exact Gf]. eapply tracks_ext; [exact Efs'|]. split.
    + apply (btracks_same (fun b => has_block b ls) (fun b => has_block b l2) _ i); [apply (btracks_same (fun b => has_block b ls) (fun b => has_block b ls) fs j); [exact B | reflexivity | reflexivity]| |].
      * intros b. now rewrite B2, B1.
      * now rewrite Ej.
    + apply (ltracks_update (fun o => is_live o ls && negb (in_rng o (f_k fj) (f_off fj + ca) (f_off fj + ca + (cb - ca)))) _ _ i _
               (fun o => in_rng o (f_k fi) (f_off fi + ca) (f_off fi + ca + (cb - ca))) (fun _ => false) nb).
      * apply (ltracks_update _ _ fs j _ (fun _ => false) (fun o => in_rng o (f_k fj) (f_off fj + ca) (f_off fj + ca + (cb - ca))) nb L G Hj).
        -- intros o. now rewrite orb_false_r.
        -- intros o Ho. fold fj. apply in_rng_spec in Ho. apply in_rng_spec. lia.
        -- intros o. fold fj. unfold f_live, resize_fp, in_rng. cbn [f_k f_off f_size]. fold cb. rewrite orb_false_r.
           destruct (Nat.eqb (fst o) (f_k fj)); cbn [andb negb]; [|reflexivity].
           destruct (Nat.leb_spec (f_off fj) (snd o)), (Nat.ltb_spec (snd o) (f_off fj + ca)), (Nat.ltb_spec (snd o) (f_off fj + cb)),
                    (Nat.leb_spec (f_off fj + ca) (snd o)), (Nat.ltb_spec (snd o) (f_off fj + ca + (cb - ca))); cbn; try reflexivity; lia.
      * exact G1.
      * exact Hi.
      * intros o. rewrite L2, L1. now rewrite andb_true_r.
      * intros o Ho. discriminate.
      * intros o. rewrite Ej. unfold f_live, resize_fp, in_rng. cbn [f_k f_off f_size negb]. fold ca. rewrite andb_true_r.
        destruct (Nat.eqb (fst o) (f_k fi)); cbn [andb orb]; [|reflexivity].
        destruct (Nat.leb_spec (f_off fi) (snd o)), (Nat.ltb_spec (snd o) (f_off fi + cb)), (Nat.ltb_spec (snd o) (f_off fi + ca)),
                 (Nat.leb_spec (f_off fi + ca) (snd o)), (Nat.ltb_spec (snd o) (f_off fi + ca + (cb - ca))); cbn; try reflexivity; lia.
  - rewrite Nat.min_r by lia. rewrite Nat.sub_diag. cbn [reloc_evs seq flat_map]. rewrite app_nil_r.
    destruct (run_reloc_evs (f_k fi) (f_off fi) (f_k fj) (f_off fj) (ca - cb) cb l1) as (l2 & E2 & B2 & L2).
    { destruct Bj as [->|Bj]; [now left | right; now rewrite B1]. }
    { intros x y Hx Hy. apply Dist; lia. }
    { intros x Hx. rewrite L1. apply Li. lia. }
    { intros x Hx. rewrite L1. apply Fj. lia. }
    exists l2. split; [exact E2|]. split; [|exact Gf].
    assert (G2 : good nb (set_reg fs i (resize_fp fi cb))) by (apply good_resize; auto).
    assert (Ei : set_reg fs i (resize_fp fi cb) j = fj) by (rewrite set_reg_other by congruence; reflexivity).
    split.
    + apply (btracks_same (fun b => has_block b ls) (fun b => has_block b l2) _ j); [apply (btracks_same (fun b => has_block b ls) (fun b => has_block b ls) fs i); [exact B | reflexivity | reflexivity]| |].
      * intros b. now rewrite B2, B1.
      * now rewrite Ei.
    + apply (ltracks_update (fun o => is_live o ls && negb (in_rng o (f_k fi) (f_off fi + cb) (f_off fi + cb + (ca - cb)))) _ _ j _
               (fun o => in_rng o (f_k fj) (f_off fj + cb) (f_off fj + cb + (ca - cb))) (fun _ => false) nb).
      * apply (ltracks_update _ _ fs i _ (fun _ => false) (fun o => in_rng o (f_k fi) (f_off fi + cb) (f_off fi + cb + (ca - cb))) nb L G Hi).
        -- intros o. now rewrite orb_false_r.
        -- intros o Ho. fold fi. apply in_rng_spec in Ho. apply in_rng_spec. lia.
        -- intros o. fold fi. unfold f_live, resize_fp, in_rng. cbn [f_k f_off f_size]. fold ca. rewrite orb_false_r.
           destruct (Nat.eqb (fst o) (f_k fi)); cbn [andb negb]; [|reflexivity].
           destruct (Nat.leb_spec (f_off fi) (snd o)), (Nat.ltb_spec (snd o) (f_off fi + cb)), (Nat.ltb_spec (snd o) (f_off fi + ca)),
                    (Nat.leb_spec (f_off fi + cb) (snd o)), (Nat.ltb_spec (snd o) (f_off fi + cb + (ca - cb))); cbn; try reflexivity; lia.
      * exact G2.
      * exact Hj.
      * intros o. rewrite L2, L1. now rewrite andb_true_r.
      * intros o Ho. discriminate.
      * intros o. rewrite Ei. unfold f_live, resize_fp, in_rng. cbn [f_k f_off f_size negb]. fold cb. rewrite andb_true_r.
        destruct (Nat.eqb (fst o) (f_k fj)); cbn [andb orb]; [|reflexivity].
        destruct (Nat.leb_spec (f_off fj) (snd o)), (Nat.ltb_spec (snd o) (f_off fj + ca)), (Nat.ltb_spec (snd o) (f_off fj + cb)),
                 (Nat.leb_spec (f_off fj + cb) (snd o)), (Nat.ltb_spec (snd o) (f_off fj + cb + (ca - cb))); cbn; try reflexivity; lia.
Qed.

End Tracks.

Lemma tracks_all_empty K ls : tracks K ls (fun _ => fp0) -> blocks ls = [] /\ live ls = [].
Proof.
  intros (B & L). split.
  - destruct (blocks ls) as [|[b n] bl] eqn:E; [reflexivity|]. exfalso.
    assert (has_block b ls = Some n) as H by (unfold has_block; rewrite E; cbn; now rewrite Nat.eqb_refl).
    apply (B b n) in H. destruct H as (i & _ & H). discriminate.
  - destruct (live ls) as [|o lv] eqn:E; [reflexivity|]. exfalso.
    assert (is_live o ls = true) as H by (unfold is_live; rewrite E; cbn; now rewrite obj_eqb_refl).
    apply (L o) in H. destruct H as (i & _ & H). unfold f_live, fp0 in H. cbn in H. apply in_rng_spec in H. cbn in H. lia.
Qed.
Lemma tracks_ls0 K : tracks K ls0 (fun _ => fp0).
Proof.
  split.
  - intros b n. split; [discriminate | intros (i & _ & H); discriminate].
  - intros o. split; [discriminate|]. intros (i & _ & H). unfold f_live, fp0 in H. cbn in H. apply in_rng_spec in H. cbn in H. lia.
Qed.
