(* Executable model of frg::stack (include/frg/stack.hpp): a vector used through
   back()/pop()/push_back()/emplace_back()/size()/empty().  Definitions only. *)
From Coq Require Import List NArith Arith Bool.
From FV Require Import Common.EventLog Seq.SlotModel Seq.VectorModel.
Import ListNotations.

Record stk := mk_stk { container : vec }.
Definition stk_empty : stk := mk_stk vec_empty.

Section WithElemSize.
Variable esz : N.
(* the stack of a script lives on allocator instance 0 *)

Definition stk_top (s : stk) : res V := back (container s).
(* pop(): _container.pop(); the returned element is discarded *)
Definition stk_pop (s : stk) : res (stk * list ev) :=
  bind (pop (container s)) (fun '(v, _, e) => Ok (mk_stk v, e)).
Definition stk_push (nb : nat) (x : V) (s : stk) : res (stk * nat * list ev) :=
  bind (push esz 0 nb x (container s)) (fun '(v, nb1, e) => Ok (mk_stk v, nb1, e)).
Definition stk_size (s : stk) : nat := size (container s).
Definition stk_is_empty (s : stk) : bool := empty (container s).
Definition stk_destruct (s : stk) : res (list ev) := destruct 0 (container s).

Inductive kop := KPush (x : V) | KEmplace (x : V) | KPop | KTop.

Definition kstep (st : stk * nat) (o : kop) : res ((stk * nat) * out * list ev) :=
  let '(s, nb) := st in
  match o with
  | KPush x | KEmplace x => bind (stk_push nb x s) (fun '(s1, nb1, e) => Ok ((s1, nb1), OUnit, e))
  | KPop => bind (stk_pop s) (fun '(s1, e) => Ok ((s1, nb), OUnit, e))
  | KTop => bind (stk_top s) (fun x => Ok (st, OVal x, []))
  end.

Fixpoint krun (st : stk * nat) (ops : list kop) : res ((stk * nat) * list out * list ev) :=
  match ops with
  | [] => Ok (st, [], [])
  | o :: r =>
    bind (kstep st o) (fun '(st1, x, e1) =>
    bind (krun st1 r) (fun '(st2, xs, e2) => Ok (st2, x :: xs, e1 ++ e2)))
  end.
Definition kfinish (st : stk * nat) : res (list ev) := stk_destruct (fst st).

End WithElemSize.
