(* Pointer-level model of frg::intrusive_list (include/frg/list.hpp:29-232) with raw-pointer hooks
   (default_list_hook): every operation is transliterated assignment by assignment.
   Pointers are naturals, 0 = nullptr; [hooks p] is the intrusive_list_hook of object p.
   Definitions only (proofs: IListProofs.v). *)
From Coq Require Import List NArith Arith Bool.
From FV Require Import Seq.SlotModel.
Import ListNotations.

Record hook := mk_hook { h_next : nat; h_prev : nat; h_in : bool }.
Definition hook0 : hook := mk_hook 0 0 false.                 (* intrusive_list_hook() *)
Record ilist := mk_il { l_front : nat; l_back : nat }.
Definition il0 : ilist := mk_il 0 0.                          (* intrusive_list() *)

(* the heap: all hooks, and the list objects (registers) *)
Record ist := mk_ist { hooks : nat -> hook; lists : nat -> ilist }.
Definition ist0 : ist := mk_ist (fun _ => hook0) (fun _ => il0).

Definition setf {A} (f : nat -> A) (k : nat) (x : A) : nat -> A :=
  fun j => if Nat.eqb j k then x else f j.

(* h(ptr): dereferences ptr *)
Definition H (hs : nat -> hook) (p : nat) : res hook := if Nat.eqb p 0 then UB else Ok (hs p).
Definition set_next (hs : nat -> hook) (p v : nat) : res (nat -> hook) :=
  if Nat.eqb p 0 then UB else Ok (setf hs p (mk_hook v (h_prev (hs p)) (h_in (hs p)))).
Definition set_prev (hs : nat -> hook) (p v : nat) : res (nat -> hook) :=
  if Nat.eqb p 0 then UB else Ok (setf hs p (mk_hook (h_next (hs p)) v (h_in (hs p)))).
Definition set_in (hs : nat -> hook) (p : nat) (v : bool) : res (nat -> hook) :=
  if Nat.eqb p 0 then UB else Ok (setf hs p (mk_hook (h_next (hs p)) (h_prev (hs p)) v)).
Definition assert (b : bool) : res unit := if b then Ok tt else AssertStop.

Notation "x <- e ;; k" := (bind e (fun x => k)) (at level 61, e at next level, right associativity).
Notation "e ;;; k" := (bind e (fun _ => k)) (at level 61, right associativity).

Definition isnull (p : nat) : bool := Nat.eqb p 0.

(* push_front(element), list.hpp:86-101; L = *this *)
Definition push_front (hs : nat -> hook) (L : ilist) (x : nat) : res ((nat -> hook) * ilist) :=
  assert (negb (isnull x)) ;;;
  hb <- H hs x ;;
  assert (negb (h_in hb)) ;;;
  assert (isnull (h_next hb)) ;;;
  assert (isnull (h_prev hb)) ;;;
  r <- (if isnull (l_front L) then Ok (hs, mk_il (l_front L) x)
        else hs1 <- set_next hs x (l_front L) ;;
             hs2 <- set_prev hs1 (l_front L) x ;;
             Ok (hs2, L)) ;;
  let '(hs3, L3) := r in
  let L4 := mk_il x (l_back L3) in
  hs5 <- set_in hs3 x true ;;
  Ok (hs5, L4).

(* push_back(element), list.hpp:103-118 *)
Definition push_back (hs : nat -> hook) (L : ilist) (x : nat) : res ((nat -> hook) * ilist) :=
  assert (negb (isnull x)) ;;;
  hb <- H hs x ;;
  assert (negb (h_in hb)) ;;;
  assert (isnull (h_next hb)) ;;;
  assert (isnull (h_prev hb)) ;;;
  r <- (if isnull (l_back L) then Ok (hs, mk_il x (l_back L))
        else hs1 <- set_prev hs x (l_back L) ;;
             hs2 <- set_next hs1 (l_back L) x ;;
             Ok (hs2, L)) ;;
  let '(hs3, L3) := r in
  let L4 := mk_il (l_front L3) x in
  hs5 <- set_in hs3 x true ;;
  Ok (hs5, L4).

(* insert(before, element), list.hpp:120-141; before = 0 is end() *)
Definition insert (hs : nat -> hook) (L : ilist) (before x : nat) : res ((nat -> hook) * ilist) :=
  if isnull before then push_back hs L x
  else if Nat.eqb before (l_front L) then push_front hs L x
  else
  assert (negb (isnull x)) ;;;
  hb <- H hs x ;;
  assert (negb (h_in hb)) ;;;
  assert (isnull (h_next hb)) ;;;
  assert (isnull (h_prev hb)) ;;;
  hbef <- H hs before ;;
  let previous := h_prev hbef in
  hp <- H hs previous ;;
  let next := h_next hp in
  hs1 <- set_next hs previous x ;;
  hs2 <- set_prev hs1 next x ;;
  hs3 <- set_prev hs2 x previous ;;
  hs4 <- set_next hs3 x next ;;
  hs5 <- set_in hs4 x true ;;
  Ok (hs5, L).

(* iterator_to(ptr), list.hpp:78-81 *)
Definition iterator_to (hs : nat -> hook) (p : nat) : res nat :=
  hp <- H hs p ;; assert (h_in hp) ;;; Ok p.

(* erase(it), list.hpp:163-194; returns the erased owner pointer *)
Definition erase (hs : nat -> hook) (L : ilist) (cur : nat) : res ((nat -> hook) * ilist * nat) :=
  assert (negb (isnull cur)) ;;;
  hc <- H hs cur ;;
  assert (h_in hc) ;;;
  let next := h_next hc in
  let previous := h_prev hc in
  r <- (if isnull next then
          assert (Nat.eqb (l_back L) cur) ;;;
          Ok (hs, mk_il (l_front L) previous)
        else
          hn <- H hs next ;;
          assert (Nat.eqb (h_prev hn) cur) ;;;
          hs1 <- set_prev hs next previous ;;
          Ok (hs1, L)) ;;
  let '(hs2, L2) := r in
  r2 <- (if isnull previous then
           assert (Nat.eqb (l_front L2) cur) ;;;
           Ok (hs2, mk_il next (l_back L2), l_front L2)
         else
           hp <- H hs2 previous ;;
           assert (Nat.eqb (h_next hp) cur) ;;;
           hs3 <- set_next hs2 previous next ;;
           Ok (hs3, L2, h_next hp)) ;;
  let '(hs4, L4, erased) := r2 in
  assert (Nat.eqb erased cur) ;;;
  hs5 <- set_next hs4 cur 0 ;;
  hs6 <- set_prev hs5 cur 0 ;;
  hs7 <- set_in hs6 cur false ;;
  Ok (hs7, L4, erased).

(* pop_front(), pop_back(), list.hpp:154-161 *)
Definition pop_front (hs : nat -> hook) (L : ilist) : res ((nat -> hook) * ilist * nat) :=
  hf <- H hs (l_front L) ;; assert (h_in hf) ;;; erase hs L (l_front L).
Definition pop_back (hs : nat -> hook) (L : ilist) : res ((nat -> hook) * ilist * nat) :=
  hb <- H hs (l_back L) ;; assert (h_in hb) ;;; erase hs L (l_back L).

(* empty(), front(), back() *)
Definition il_empty (L : ilist) : bool := isnull (l_front L).

(* clear(): while(!empty()) pop_front(); *)
Fixpoint clear (fuel : nat) (hs : nat -> hook) (L : ilist) : res ((nat -> hook) * ilist) :=
  if il_empty L then Ok (hs, L) else
  match fuel with
  | O => OutOfFuel
  | S f => r <- pop_front hs L ;; let '(hs1, L1, _) := r in clear f hs1 L1
  end.

(* splice(it, other), list.hpp:201-220; it = 0 is end(); returns (hooks, *this, other) *)
Definition splice (hs : nat -> hook) (L : ilist) (it : nat) (O : ilist) : res ((nat -> hook) * ilist * ilist) :=
  assert (isnull it) ;;;
  if isnull (l_front O) then Ok (hs, L, O) else
  let borrow := l_front O in
  hb <- H hs borrow ;;
  assert (h_in hb) ;;;
  assert (isnull (h_prev hb)) ;;;
  r <- (if isnull (l_back L) then Ok (hs, mk_il (l_front O) (l_back L))
        else hs1 <- set_prev hs borrow (l_back L) ;;
             hs2 <- set_next hs1 (l_back L) (l_front O) ;;
             Ok (hs2, L)) ;;
  let '(hs3, L3) := r in
  let L4 := mk_il (l_front L3) (l_back O) in
  Ok (hs3, L4, il0).

(* for(it = begin(); it != end(); ++it): the pointers visited *)
Fixpoint walk (fuel : nat) (hs : nat -> hook) (p : nat) : res (list nat) :=
  if isnull p then Ok [] else
  match fuel with
  | O => OutOfFuel
  | S f => r <- walk f hs (h_next (hs p)) ;; Ok (p :: r)
  end.
(* the same through the back links, starting at back() *)
Fixpoint walk_back (fuel : nat) (hs : nat -> hook) (p : nat) : res (list nat) :=
  if isnull p then Ok [] else
  match fuel with
  | O => OutOfFuel
  | S f => r <- walk_back f hs (h_prev (hs p)) ;; Ok (p :: r)
  end.

Inductive iop :=
| IPushFront (l x : nat) | IPushBack (l x : nat)
| IInsert (l before x : nat)     (* before = 0: insert(end(), x); else insert(iterator_to(before), x) *)
| IErase (l x : nat)             (* erase(iterator_to(x)) *)
| IPopFront (l : nat) | IPopBack (l : nat)
| IClear (l : nat)
| ISplice (l m : nat).           (* lists[l].splice(lists[l].end(), lists[m])   (l <> m) *)

Definition istep (fuel : nat) (st : ist) (o : iop) : res (ist * out) :=
  let hs := hooks st in
  let ls := lists st in
  match o with
  | IPushFront l x => r <- push_front hs (ls l) x ;; let '(hs1, L1) := r in Ok (mk_ist hs1 (setf ls l L1), OUnit)
  | IPushBack l x => r <- push_back hs (ls l) x ;; let '(hs1, L1) := r in Ok (mk_ist hs1 (setf ls l L1), OUnit)
  | IInsert l before x =>
    it <- (if isnull before then Ok 0 else iterator_to hs before) ;;
    r <- insert hs (ls l) it x ;; let '(hs1, L1) := r in Ok (mk_ist hs1 (setf ls l L1), OUnit)
  | IErase l x =>
    it <- iterator_to hs x ;;
    r <- erase hs (ls l) it ;; let '(hs1, L1, e) := r in Ok (mk_ist hs1 (setf ls l L1), OVal (N.of_nat e))
  | IPopFront l => r <- pop_front hs (ls l) ;; let '(hs1, L1, e) := r in Ok (mk_ist hs1 (setf ls l L1), OVal (N.of_nat e))
  | IPopBack l => r <- pop_back hs (ls l) ;; let '(hs1, L1, e) := r in Ok (mk_ist hs1 (setf ls l L1), OVal (N.of_nat e))
  | IClear l => r <- clear fuel hs (ls l) ;; let '(hs1, L1) := r in Ok (mk_ist hs1 (setf ls l L1), OUnit)
  | ISplice l m =>
    r <- splice hs (ls l) 0 (ls m) ;; let '(hs1, L1, M1) := r in
    Ok (mk_ist hs1 (setf (setf ls l L1) m M1), OUnit)
  end.

Fixpoint irun (fuel : nat) (st : ist) (ops : list iop) : res (ist * list out) :=
  match ops with
  | [] => Ok (st, [])
  | o :: r =>
    x <- istep fuel st o ;; let '(st1, y) := x in
    z <- irun fuel st1 r ;; let '(st2, ys) := z in Ok (st2, y :: ys)
  end.
