From FV Require Import Common.ExtractTypes Common.EventLog Seq.SlotModel Seq.VectorModel Seq.SmallVectorModel
  Seq.DynArrayModel Seq.StackModel Seq.ListModel Seq.IListModel.
From Coq Require Extraction.
From Coq Require Import ExtrOcamlBasic.
Extraction "../build/extract/seq_model.ml" types_witness
  peek peek_all
  vst0 vstep vfinish size empty iterate v_cap regs
  sst0 sstep sfinish sv_size sv_is_empty sv_iterate s_cap sregs
  dst0 dstep dfinish da_size da_empty da_iterate dregs
  stk_empty kstep kfinish stk_size stk_is_empty container
  fl_empty lstep lfinish fl_is_empty items
  ist0 istep walk walk_back il_empty hooks lists.
