(* Executable slot-level model of frg::dyn_array (include/frg/dyn_array.hpp) as it is in /repo.
   Definitions only (proofs: DynArrayProofs.v). *)
From Coq Require Import List NArith Arith Bool.
From FV Require Import Common.EventLog Seq.SlotModel Seq.VectorModel.
Import ListNotations.

(* elements_ (block id, 0 = nullptr) with the block's slots, size_ *)
Record darr := mk_da { d_blk : nat; d_cells : buf; d_size : nat }.
Definition da_default : darr := mk_da 0 [] 0.          (* dyn_array() / dyn_array(Allocator) *)

Record dst := mk_dst { dregs : nat -> darr; dals : nat -> nat; dnextb : nat }.
Definition dst0 : dst := mk_dst (fun _ => da_default) (fun r => Nat.min r (NINST - 1)) 1.

Section WithElemSize.
Variable esz : N.

(* dyn_array(size_t size, Allocator) : allocate, then new (&elements_[i]) T{} *)
Definition da_sized (al nb n : nat) : res (darr * nat * list ev) :=
  let nblk := enc al nb in
  bind (fill_loop n 0 (heap_nm nblk) (repeat None n) 0%N) (fun '(c, e) =>
  Ok (mk_da nblk c n, S nb, EAlloc nblk (esz * N.of_nat n) :: e)).

(* dyn_array(const dyn_array &other) *)
Definition da_copy_ctor (al nb : nat) (o : darr) : res (darr * nat * list ev) :=
  let nblk := enc al nb in
  bind (xfer_loop (d_size o) 0 (heap_nm (d_blk o)) (heap_nm nblk) (d_cells o) (repeat None (d_size o))) (fun '(c, e) =>
  Ok (mk_da nblk c (d_size o), S nb, EAlloc nblk (esz * N.of_nat (d_size o)) :: e)).

(* ~dyn_array(): deallocate(elements_, sizeof(T) * size_); a null pointer is handed to the
   allocator with size 0, which is not an event *)
Definition da_destruct (al : nat) (d : darr) : res (list ev) :=
  bind (destroy_loop (d_size d) 0 (heap_nm (d_blk d)) (d_cells d)) (fun '(_, e) =>
  Ok (e ++ (if Nat.eqb (d_blk d) 0 then [] else [EDealloc (reenc al (d_blk d)) (esz * N.of_nat (d_size d))]))).

Definition da_size (d : darr) : nat := d_size d.
(* dyn_array.hpp:71-73  bool empty() const { return size_ == 0; } *)
Definition da_empty (d : darr) : bool := Nat.eqb (d_size d) 0.
Definition da_index (d : darr) (i : nat) : res V := rd (d_cells d) i.
Definition da_iterate (d : darr) : list (option V) := peek_all (d_cells d) (d_size d).
(* a[i] = T(x) : assignment to the element operator[] designates *)
Definition da_set (d : darr) (i : nat) (x : V) : res (darr * list ev) :=
  bind (rd (d_cells d) i) (fun _ =>
  Ok (mk_da (d_blk d) (upd (d_cells d) i (Some x)) (d_size d), [EUse (d_blk d, i)])).

Inductive dop :=
| DMake (r n : nat)          (* r.~dyn_array(); new (&r) dyn_array(n) *)
| DDefault (r : nat)         (* r.~dyn_array(); new (&r) dyn_array() *)
| DSet (r i : nat) (x : V)
| DIndex (r i : nat)
| DEmpty (r : nat)
| DAssign (r s : nat) | DMoveAssign (r s : nat)
| DCopyCtor (r s : nat) | DMoveCtor (r s : nat)
| DSwap (r s : nat).

(* DMake/DDefault re-construct the variable on the allocator instance it held before; copy and move construction
   start from the source's allocator, swap() exchanges allocator_. *)
Definition dstep (st : dst) (o : dop) : res (dst * out * list ev) :=
  let rg := dregs st in
  let al := dals st in
  match o with
  | DMake r n =>
    bind (da_destruct (al r) (rg r)) (fun e1 =>
    bind (da_sized (al r) (dnextb st) n) (fun '(d, nb, e2) =>
    Ok (mk_dst (set_reg rg r d) al nb, OUnit, e1 ++ e2)))
  | DDefault r =>
    bind (da_destruct (al r) (rg r)) (fun e1 => Ok (mk_dst (set_reg rg r da_default) al (dnextb st), OUnit, e1))
  | DSet r i x =>
    bind (da_set (rg r) i x) (fun '(d, e) => Ok (mk_dst (set_reg rg r d) al (dnextb st), OUnit, e))
  | DIndex r i => bind (da_index (rg r) i) (fun x => Ok (st, OVal x, []))
  | DEmpty r => Ok (st, OBool (da_empty (rg r)), [])
  | DAssign r s =>
    bind (da_copy_ctor (al s) (dnextb st) (rg s)) (fun '(other, nb, e1) =>
    bind (da_destruct (al r) (rg r)) (fun e2 =>
    Ok (mk_dst (set_reg rg r other) (set_reg al r (al s)) nb, OUnit, e1 ++ e2)))
  | DMoveAssign r s =>
    let other := rg s in
    let rg1 := set_reg rg s da_default in
    let mine := rg1 r in
    bind (da_destruct (al r) mine) (fun e =>
    Ok (mk_dst (set_reg rg1 r other) (set_reg al r (al s)) (dnextb st), OUnit, e))
  | DCopyCtor r s =>
    if Nat.eqb r s then Ok (st, OUnit, []) else
    bind (da_destruct (al r) (rg r)) (fun e1 =>
    bind (da_copy_ctor (al s) (dnextb st) (rg s)) (fun '(d, nb, e2) =>
    Ok (mk_dst (set_reg rg r d) (set_reg al r (al s)) nb, OUnit, e1 ++ e2)))
  | DMoveCtor r s =>
    if Nat.eqb r s then Ok (st, OUnit, []) else
    bind (da_destruct (al r) (rg r)) (fun e1 =>
    Ok (mk_dst (set_reg (set_reg rg r (rg s)) s da_default) (set_reg al r (al s)) (dnextb st), OUnit, e1))
  | DSwap r s =>
    Ok (mk_dst (set_reg (set_reg rg r (rg s)) s (rg r)) (set_reg (set_reg al r (al s)) s (al r)) (dnextb st), OUnit, [])
  end.

Fixpoint drun (st : dst) (ops : list dop) : res (dst * list out * list ev) :=
  match ops with
  | [] => Ok (st, [], [])
  | o :: r =>
    bind (dstep st o) (fun '(st1, x, e1) =>
    bind (drun st1 r) (fun '(st2, xs, e2) => Ok (st2, x :: xs, e1 ++ e2)))
  end.

Fixpoint da_destruct_regs (rg : nat -> darr) (al : nat -> nat) (k n : nat) : res (list ev) :=
  match n with
  | O => Ok []
  | S m => bind (da_destruct (al k) (rg k)) (fun e1 => bind (da_destruct_regs rg al (S k) m) (fun e2 => Ok (e1 ++ e2)))
  end.
Definition dfinish (st : dst) : res (list ev) := da_destruct_regs (dregs st) (dals st) 0 nregs.

End WithElemSize.
