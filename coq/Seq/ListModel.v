(* Executable model of frg::list<T, Allocator> (include/frg/list.hpp:245-291) as it is in /repo:
   one allocator block per item (the element is slot 0 of its block), items in list order.
   Definitions only (proofs: ListProofs.v). *)
From Coq Require Import List NArith Arith Bool.
From FV Require Import Common.EventLog Seq.SlotModel.
Import ListNotations.

Record flist := mk_fl { items : list (nat * V) }.      (* (block of the item, value), front first *)
Definition fl_empty : flist := mk_fl [].

Section WithItemSize.
Variable isz : N.      (* sizeof(item) = element + hook *)

(* emplace_back(args): frg::construct<item>(allocator_, args...); items_.push_back(e) *)
Definition fl_emplace_back (nb : nat) (x : V) (l : flist) : flist * nat * list ev :=
  (mk_fl (items l ++ [(nb, x)]), S nb, [EAlloc nb isz; EConstruct (nb, 0)]).

Definition fl_is_empty (l : flist) : bool := match items l with [] => true | _ => false end.

(* front(): items_.front()->object; a null front is dereferenced when the list is empty *)
Definition fl_front (l : flist) : res V :=
  match items l with [] => UB | (_, x) :: _ => Ok x end.

(* pop_front(): items_.pop_front() (dereferences _front), frg::destruct(allocator_, e) *)
Definition fl_pop_front (l : flist) : res (flist * list ev) :=
  match items l with
  | [] => UB
  | (b, _) :: r => Ok (mk_fl r, [EDestroy (b, 0); EDealloc b isz])
  end.

(* ~list(): while(!empty()) pop_front(); *)
Fixpoint fl_drain (it : list (nat * V)) : list ev :=
  match it with
  | [] => []
  | (b, _) :: r => EDestroy (b, 0) :: EDealloc b isz :: fl_drain r
  end.
Definition fl_destruct (l : flist) : list ev := fl_drain (items l).

Inductive lop := LEmplaceBack (x : V) | LPopFront | LFront | LEmpty.

Definition lstep (st : flist * nat) (o : lop) : res ((flist * nat) * out * list ev) :=
  let '(l, nb) := st in
  match o with
  | LEmplaceBack x => let '(l1, nb1, e) := fl_emplace_back nb x l in Ok ((l1, nb1), OUnit, e)
  | LPopFront => bind (fl_pop_front l) (fun '(l1, e) => Ok ((l1, nb), OUnit, e))
  | LFront => bind (fl_front l) (fun x => Ok (st, OVal x, []))
  | LEmpty => Ok (st, OBool (fl_is_empty l), [])
  end.

Fixpoint lrun (st : flist * nat) (ops : list lop) : res ((flist * nat) * list out * list ev) :=
  match ops with
  | [] => Ok (st, [], [])
  | o :: r =>
    bind (lstep st o) (fun '(st1, x, e1) =>
    bind (lrun st1 r) (fun '(st2, xs, e2) => Ok (st2, x :: xs, e1 ++ e2)))
  end.
Definition lfinish (st : flist * nat) : list ev := fl_destruct (fst st).

End WithItemSize.
