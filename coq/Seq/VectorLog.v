(* frg::vector: the event log of every operation sequence followed by the destructors is well-formed and
   closed (C16). *)
From Coq Require Import List NArith Arith Bool Lia.
From FV Require Import Common.EventLog Seq.SlotModel Seq.SlotProofs Seq.LogProofs Seq.Footprint
  Seq.VectorModel Seq.VectorProofs.
Import ListNotations.

Section WithElem.
Variable esz : N.
Variable veq : V -> V -> bool.

(* footprint slots: 0..2 the registers, 3 the by-value parameter of operator=, 4 spare (growth) *)
Definition VK : nat := 5.

Definition vfp (v : vec) : fpr :=
  mk_fp (v_blk v) 0 (v_size v) (if Nat.eqb (v_blk v) 0 then 0 else v_cap v)
        (if Nat.eqb (v_blk v) 0 then None else Some (v_blk v, (esz * N.of_nat (v_cap v))%N)).

Lemma vfp_empty : vfp vec_empty = fp0.
Proof. reflexivity. Qed.

(* names of blocks: enc al nb is fresh above the bound NINST * nb and below NINST * S nb; a release through the
   instance that handed the block out names the block itself *)
Lemma enc_ge al nb : NINST * nb <= enc al nb.
Proof. unfold enc. lia. Qed.
Lemma enc_lt al nb : al < NINST -> S (enc al nb) <= NINST * S nb.
Proof. unfold enc. lia. Qed.
Lemma reenc_enc al nb : al < NINST -> reenc al (enc al nb) = enc al nb.
Proof.
  intros H. unfold reenc, enc. f_equal. f_equal. rewrite Nat.div_add_l by (unfold NINST; lia).
  rewrite Nat.div_small by exact H. lia.
Qed.

(* the allocator instance al is the one that handed out the block of v *)
Definition aok (al : nat) (v : vec) : Prop := al < NINST /\ (v_blk v <> 0 -> reenc al (v_blk v) = v_blk v).

Lemma vfp_rel al v : aok al v ->
  match f_heap (vfp v) with
  | None => free_ev al (v_blk v) = []
  | Some (b, n) => free_ev al (v_blk v) = [EFree b] \/ free_ev al (v_blk v) = [EDealloc b n] end.
Proof.
  intros (_ & A). unfold vfp, free_ev. cbn [f_heap]. destruct (Nat.eqb_spec (v_blk v) 0); [reflexivity | left; now rewrite A].
Qed.

Lemma heap_nm_nmk b : heap_nm b = nmk b 0.
Proof. reflexivity. Qed.

Definition TR (ls : lstate) (fs : nat -> fpr) (nb : nat) : Prop := tracks VK ls fs /\ good VK nb fs /\ fs 4 = fp0.

(* the vector in slot r keeps (blk <> 0 or cap = 0): read off the footprint's well-formedness *)
Lemma TR_size_cap ls fs nb r v : TR ls fs nb -> r < VK -> fs r = vfp v -> v_blk v = 0 -> v_size v = 0.
Proof.
  intros (_ & (_ & O & _) & _) Hr E Hb. destruct (O r Hr) as (Hs & _). rewrite E in Hs. unfold vfp in Hs. cbn in Hs.
  rewrite Hb in Hs. cbn in Hs. lia.
Qed.

Lemma TR_mono ls fs nb nb' : nb <= nb' -> TR ls fs nb -> TR ls fs nb'.
Proof. intros H (T & G & E). split; [exact T|]. split; [eapply good_mono; eauto | exact E]. Qed.

(* ---- _ensure_capacity *)
Lemma g_grow ls fs al nb r v l c : TR ls fs (NINST * nb) -> r < 4 -> fs r = vfp v -> vinv v l -> aok al v ->
  exists ls', ev_run ls (grow_evs esz al (enc al nb) c v l) = Some ls' /\
    TR ls' (set_reg fs r (vfp (grown (enc al nb) c v l))) (NINST * grown_nb nb c v).
Proof.
  intros (T & G & Esp) Hr Er (Hs & Hc & _) Ak. unfold grow_evs, grown, grown_nb.
  destruct (Nat.leb c (v_cap v)) eqn:E.
  - exists ls. split; [reflexivity|]. split; [|split].
    + eapply tracks_ext; [|exact T]. intros j _. unfold set_reg. destruct (Nat.eqb_spec j r); [now subst | reflexivity].
    + eapply good_ext; [|exact G]. intros j _. unfold set_reg. destruct (Nat.eqb_spec j r); [now subst | reflexivity].
    + rewrite set_reg_other by lia. exact Esp.
  - apply Nat.leb_gt in E. pose proof G as (Nz & _). pose proof Ak as (Al & _).
    assert (Bz : enc al nb <> 0) by (pose proof (enc_ge al nb); lia).
    destruct (fp_relocate VK ls fs (NINST * nb) (enc al nb) r 4 (2 * c) (esz * N.of_nat (2 * c))%N (free_ev al (v_blk v)) T G) as (ls' & E' & T' & G');
      try (unfold VK; lia); try exact Esp.
    { rewrite Er. cbn [vfp f_size]. lia. }
    { apply enc_ge. }
    { rewrite Er. apply vfp_rel. exact Ak. }
    rewrite Er in E', T', G'. cbn [vfp f_size f_nm f_k f_off] in E', T', G'. rewrite Hs in E', T', G'.
    exists ls'. split; [rewrite !heap_nm_nmk; exact E'|].
    assert (Ef : vfp (mk_vec (enc al nb) (slots l (2 * c)) (length l) (2 * c)) =
                 mk_fp (enc al nb) 0 (length l) (2 * c) (Some (enc al nb, (esz * N.of_nat (2 * c))%N))).
    { unfold vfp. cbn [v_blk v_size v_cap]. now rewrite (proj2 (Nat.eqb_neq (enc al nb) 0) Bz). }
    rewrite Ef. apply (TR_mono _ _ (S (enc al nb))); [now apply enc_lt|].
    split; [exact T' | split; [exact G' | rewrite set_reg_other by lia; exact Esp]].
Qed.

Lemma grown_blk_size nb c v l : vinv v l -> v_size (grown nb c v l) = length l.
Proof. intros (Hs & _). unfold grown. destruct (Nat.leb c (v_cap v)); [exact Hs | reflexivity]. Qed.

(* a vector whose footprint is in slot r, after a change of its size only *)
Lemma vfp_resize v n : resize_fp (vfp v) n = vfp (mk_vec (v_blk v) (v_cells v) n (v_cap v)).
Proof. reflexivity. Qed.
Lemma vfp_cells v c : vfp (mk_vec (v_blk v) c (v_size v) (v_cap v)) = vfp v.
Proof. reflexivity. Qed.

Lemma TR_set ls fs nb r f' : fs 4 = fp0 -> r < 4 -> tracks VK ls (set_reg fs r f') -> good VK nb (set_reg fs r f') -> TR ls (set_reg fs r f') nb.
Proof. intros Esp Hr T G. split; [exact T|]. split; [exact G|]. rewrite set_reg_other by lia. exact Esp. Qed.

Lemma set_reg_set {A} (f : nat -> A) r x y j : set_reg (set_reg f r x) r y j = set_reg f r y j.
Proof. unfold set_reg. destruct (Nat.eqb j r); reflexivity. Qed.

Lemma TR_ext ls fs fs' nb : (forall j, fs' j = fs j) -> TR ls fs nb -> TR ls fs' nb.
Proof.
  intros E (T & G & Esp). split; [eapply tracks_ext; [|exact T]; intros; apply E|].
  split; [eapply good_ext; [|exact G]; intros; apply E | now rewrite E].
Qed.

(* fill / destroy on the vector in slot r, whatever its cells *)
Lemma g_fill ls fs nb r v n : TR ls fs nb -> r < 4 -> fs r = vfp v -> v_size v <= n -> n <= v_cap v -> v_blk v <> 0 \/ n = 0 ->
  exists ls', ev_run ls (fill_evs (heap_nm (v_blk v)) (v_size v) (n - v_size v)) = Some ls' /\
    TR ls' (set_reg fs r (resize_fp (vfp v) n)) nb.
Proof.
  intros TRs Hr Er H1 H2 H3. pose proof TRs as (T & G & Esp).
  destruct (fp_fill VK ls fs nb r n T G) as (ls' & E & T' & G'); try (unfold VK; lia).
  { now rewrite Er. }
  { rewrite Er. unfold vfp. cbn [f_lim]. destruct (Nat.eqb_spec (v_blk v) 0); lia. }
  rewrite Er in E, T', G'. exists ls'. split; [exact E|]. now apply TR_set.
Qed.
Lemma g_destroy_tail ls fs nb r v n : TR ls fs nb -> r < 4 -> fs r = vfp v -> n <= v_size v ->
  exists ls', ev_run ls (destroy_evs (heap_nm (v_blk v)) n (v_size v - n)) = Some ls' /\
    TR ls' (set_reg fs r (resize_fp (vfp v) n)) nb.
Proof.
  intros TRs Hr Er H1. pose proof TRs as (T & G & Esp).
  destruct (fp_destroy_tail VK ls fs nb r n T G) as (ls' & E & T' & G'); try (unfold VK; lia).
  { now rewrite Er. }
  rewrite Er in E, T', G'. exists ls'. split; [exact E|]. now apply TR_set.
Qed.
Lemma g_uses ls fs nb r v e : TR ls fs nb -> r < 4 -> fs r = vfp v ->
  Forall (fun x => exists j, j < v_size v /\ x = EUse (v_blk v, j)) e -> ev_run ls e = Some ls.
Proof.
  intros (T & _) Hr Er H. apply (fp_uses VK ls fs r e T); [unfold VK; lia|]. rewrite Er. exact H.
Qed.

(* ---- destructor of the vector in slot r *)
Lemma g_destruct ls fs al nb r v l : TR ls fs nb -> r < 4 -> fs r = vfp v -> vinv v l -> aok al v ->
  exists ls', ev_run ls (destroy_evs (heap_nm (v_blk v)) 0 (length l) ++ free_ev al (v_blk v)) = Some ls' /\
    TR ls' (set_reg fs r fp0) nb.
Proof.
  intros TRs Hr Er (Hs & _) Ak. pose proof TRs as (T & G & Esp). pose proof G as (Nz & _).
  destruct (fp_destruct VK ls fs nb r fp0 (free_ev al (v_blk v)) T G) as (ls' & E & T' & G'); try (unfold VK; lia); try reflexivity.
  { now apply fp_ok_fp0. }
  { intros j _ _. apply sep_fp0. }
  { rewrite Er. now apply vfp_rel. }
  rewrite Er in E. cbn [vfp f_size f_nm f_k f_off] in E. rewrite Hs in E.
  exists ls'. split; [exact E|]. now apply TR_set.
Qed.

(* ---- copy construction from the vector in slot s into the empty slot t; the new vector is on instance al *)
Lemma g_copy ls fs al nb s t o l : TR ls fs (NINST * nb) -> s < 4 -> t < 4 -> s <> t -> fs s = vfp o -> fs t = fp0 -> vinv o l ->
  al < NINST ->
  exists ls', ev_run ls (copy_evs esz (enc al nb) o l) = Some ls' /\
    TR ls' (set_reg fs t (vfp (copied (enc al nb) l))) (NINST * copied_nb nb l).
Proof.
  intros TRs Hs Ht Nst Es Et (Os & Oc & _) Al. pose proof TRs as (T & G & Esp). pose proof G as (Nz & _).
  unfold copy_evs, copied, copied_nb. destruct (Nat.leb (length l) 0) eqn:E.
  - apply Nat.leb_le in E. assert (length l = 0) as L0 by lia. rewrite L0. cbn [app xfer_evs seq flat_map].
    exists ls. split; [reflexivity|]. rewrite vfp_empty.
    eapply TR_ext; [|exact TRs]. intros j. unfold set_reg. destruct (Nat.eqb_spec j t); [now subst | reflexivity].
  - apply Nat.leb_gt in E. set (b := enc al nb).
    assert (Bz : b <> 0) by (pose proof (enc_ge al nb); unfold b; lia).
    destruct (fp_alloc VK ls fs (NINST * nb) b t (2 * length l) ((esz * N.of_nat (2 * length l))%N) T G) as (l1 & E1 & T1 & G1);
      try (unfold VK; lia); try (now rewrite Et); [apply enc_ge|].
    set (fs1 := set_reg fs t (mk_fp b 0 0 (2 * length l) (Some (b, (esz * N.of_nat (2 * length l))%N)))) in *.
    assert (F1s : fs1 s = vfp o) by (unfold fs1; now rewrite set_reg_other).
    assert (F1t : fs1 t = mk_fp b 0 0 (2 * length l) (Some (b, (esz * N.of_nat (2 * length l))%N))) by (unfold fs1; now rewrite set_reg_same).
    destruct (fp_xfer VK l1 fs1 (S b) s t T1 G1) as (l2 & E2 & T2 & G2); try (unfold VK; lia).
    { now rewrite F1t. }
    { rewrite F1s, F1t. cbn [vfp f_size f_lim]. lia. }
    rewrite F1s, F1t in E2, T2, G2. cbn [vfp f_size f_nm f_k f_off resize_fp f_lim f_heap] in E2, T2, G2. rewrite Os in E2, T2, G2.
    exists l2. split.
    + rewrite (ev_run_app_some _ _ _ _ E1). rewrite !heap_nm_nmk. exact E2.
    + assert (Ef : vfp (mk_vec b (slots l (2 * length l)) (length l) (2 * length l)) =
                   mk_fp b 0 (length l) (2 * length l) (Some (b, (esz * N.of_nat (2 * length l))%N))).
      { unfold vfp. cbn [v_blk v_size v_cap]. now rewrite (proj2 (Nat.eqb_neq b 0) Bz). }
      rewrite Ef. apply (TR_mono _ _ (S b)); [now apply enc_lt|]. eapply TR_ext with (fs := set_reg fs1 t _).
      * intros j. unfold fs1. now rewrite set_reg_set.
      * split; [exact T2|]. split; [exact G2|]. unfold fs1. rewrite !set_reg_other by lia. exact Esp.
Qed.

(* per-vector side invariants: a null block has no capacity; the vector's allocator instance handed out its block *)
Definition vz (v : vec) : Prop := v_blk v = 0 -> v_cap v = 0.
Definition vok (al : nat) (v : vec) : Prop := vz v /\ aok al v.

Lemma vz_grown nb c v l : nb <> 0 -> vz v -> vz (grown nb c v l).
Proof. intros N Z. unfold grown. destruct (Nat.leb c (v_cap v)); [exact Z | intros H; cbn in H; congruence]. Qed.
Lemma enc_nz al nb : nb <> 0 -> enc al nb <> 0.
Proof. intros H. pose proof (enc_ge al nb). unfold NINST in *. lia. Qed.
Lemma vok_grown al nb c v l : nb <> 0 -> vok al v -> vok al (grown (enc al nb) c v l).
Proof.
  intros N (Z & Al & A). split; [apply vz_grown; [now apply (enc_nz al) | exact Z]|]. split; [exact Al|].
  unfold grown. destruct (Nat.leb c (v_cap v)); [exact A | intros _; cbn [v_blk]; now apply reenc_enc].
Qed.
Lemma vok_copied al nb l : nb <> 0 -> al < NINST -> vok al (copied (enc al nb) l).
Proof.
  intros N Al. unfold copied. destruct (Nat.leb (length l) 0).
  - split; [intros _; reflexivity | split; [exact Al | intros H; cbn in H; congruence]].
  - split; [intros H; cbn in H; apply (enc_nz al) in N; congruence | split; [exact Al | intros _; cbn [v_blk]; now apply reenc_enc]].
Qed.
Lemma vok_empty al : al < NINST -> vok al vec_empty.
Proof. intros Al. split; [intros _; reflexivity | split; [exact Al | intros H; cbn in H; congruence]]. Qed.
Lemma vok_same_blk al v v' : v_blk v' = v_blk v -> v_cap v' = v_cap v -> vok al v -> vok al v'.
Proof. intros Eb Ec (Z & Al & A). split; [intros H; rewrite Ec; apply Z; congruence | split; [exact Al | rewrite Eb; exact A]]. Qed.

Lemma TR_nz ls fs nb : TR ls fs nb -> nb <> 0.
Proof. intros (_ & (N & _) & _). exact N. Qed.
Lemma grown_blk_nz nb c v l : nb <> 0 -> vz v -> vinv v l -> 0 < c -> v_blk (grown nb c v l) <> 0.
Proof.
  intros N Z (Hs & Hc & _) Hc0. unfold grown. destruct (Nat.leb c (v_cap v)) eqn:E; [|exact N].
  apply Nat.leb_le in E. intros B. specialize (Z B). lia.
Qed.

(* ---- push / emplace_back *)
Lemma g_push ls fs al nb r v l x : TR ls fs (NINST * nb) -> r < 4 -> fs r = vfp v -> vinv v l -> vok al v ->
  exists ls', ev_run ls (grow_evs esz al (enc al nb) (length l + 1) v l ++ [EConstruct (v_blk (grown (enc al nb) (length l + 1) v l), length l)]) = Some ls' /\
    TR ls' (set_reg fs r (vfp (pushed (enc al nb) x v l))) (NINST * grown_nb nb (length l + 1) v).
Proof.
  intros T Hr Er Hv (Z & Ak). pose proof (TR_nz _ _ _ T) as Nz. assert (Nb : nb <> 0) by (unfold NINST in Nz; lia).
  destruct (g_grow ls fs al nb r v l (length l + 1) T Hr Er Hv Ak) as (l1 & E1 & T1).
  set (g := grown (enc al nb) (length l + 1) v l) in *.
  destruct (grown_inv (enc al nb) (length l + 1) v l Hv) as ((Gs & Gc & _) & Gcap). fold g in Gs, Gc, Gcap.
  destruct (g_fill l1 _ _ r g (length l + 1) T1 Hr) as (l2 & E2 & T2).
  { now rewrite set_reg_same. }
  { lia. }
  { lia. }
  { left. apply grown_blk_nz; auto; [now apply (enc_nz al) | lia]. }
  rewrite Gs in E2. replace (length l + 1 - length l) with 1 in E2 by lia.
  exists l2. split; [rewrite (ev_run_app_some _ _ _ _ E1); exact E2|].
  eapply TR_ext; [|exact T2]. intros j. rewrite set_reg_set. unfold set_reg. destruct (Nat.eqb j r); [|reflexivity].
  unfold pushed. fold g. unfold resize_fp, vfp. cbn [f_k f_off f_lim f_heap v_blk v_size v_cap]. f_equal. lia.
Qed.

(* ---- pop *)
Lemma g_pop ls fs nb r v l x : TR ls fs nb -> r < 4 -> fs r = vfp v -> vinv v (l ++ [x]) ->
  exists ls', ev_run ls [EUse (v_blk v, length l); EDestroy (v_blk v, length l)] = Some ls' /\
    TR ls' (set_reg fs r (vfp (mk_vec (v_blk v) (slots l (v_cap v)) (length l) (v_cap v)))) nb.
Proof.
  intros T Hr Er (Hs & _). rewrite app_length in Hs. cbn [length] in Hs.
  assert (U : ev_run ls [EUse (v_blk v, length l)] = Some ls).
  { apply (g_uses ls fs nb r v _ T Hr Er). constructor; [|constructor]. exists (length l). split; [lia | reflexivity]. }
  destruct (g_destroy_tail ls fs nb r v (length l) T Hr Er) as (l1 & E1 & T1); [lia|].
  replace (v_size v - length l) with 1 in E1 by lia.
  exists l1. split.
  - change [EUse (v_blk v, length l); EDestroy (v_blk v, length l)] with ([EUse (v_blk v, length l)] ++ [EDestroy (v_blk v, length l)]).
    rewrite (ev_run_app_some _ _ _ _ U). exact E1.
  - exact T1.
Qed.

(* ---- resize *)
Lemma g_resize ls fs al nb r v l n x : TR ls fs (NINST * nb) -> r < 4 -> fs r = vfp v -> vinv v l -> vok al v ->
  exists ls', ev_run ls (grow_evs esz al (enc al nb) n v l ++ resize_evs (enc al nb) n v l) = Some ls' /\
    TR ls' (set_reg fs r (vfp (resized (enc al nb) n x v l))) (NINST * grown_nb nb n v).
Proof.
  intros T Hr Er Hv (Z & Ak). pose proof (TR_nz _ _ _ T) as Nz. assert (Nb : nb <> 0) by (unfold NINST in Nz; lia).
  destruct (g_grow ls fs al nb r v l n T Hr Er Hv Ak) as (l1 & E1 & T1).
  unfold resize_evs. set (g := grown (enc al nb) n v l) in *.
  destruct (grown_inv (enc al nb) n v l Hv) as ((Gs & Gc & _) & Gcap). fold g in Gs, Gc, Gcap.
  assert (F1 : set_reg fs r (vfp g) r = vfp g) by now rewrite set_reg_same.
  destruct (Nat.ltb n (length l)) eqn:E.
  - apply Nat.ltb_lt in E.
    destruct (g_destroy_tail l1 _ _ r g n T1 Hr F1) as (l2 & E2 & T2); [lia|]. rewrite Gs in E2.
    exists l2. split; [rewrite (ev_run_app_some _ _ _ _ E1); exact E2|].
    eapply TR_ext; [|exact T2]. intros j. rewrite set_reg_set. reflexivity.
  - apply Nat.ltb_ge in E.
    destruct (g_fill l1 _ _ r g n T1 Hr F1) as (l2 & E2 & T2); [lia | lia | |].
    { destruct (Nat.eq_dec n 0) as [->|Nn]; [now right | left]. apply grown_blk_nz; auto; [now apply (enc_nz al) | lia]. }
    rewrite Gs in E2.
    exists l2. split; [rewrite (ev_run_app_some _ _ _ _ E1); exact E2|].
    eapply TR_ext; [|exact T2]. intros j. rewrite set_reg_set. reflexivity.
Qed.

(* ---- clear *)
Lemma g_clear ls fs nb r v l : TR ls fs nb -> r < 4 -> fs r = vfp v -> vinv v l ->
  exists ls', ev_run ls (destroy_evs (heap_nm (v_blk v)) 0 (length l)) = Some ls' /\
    TR ls' (set_reg fs r (vfp (mk_vec (v_blk v) (slots [] (v_cap v)) 0 (v_cap v)))) nb.
Proof.
  intros T Hr Er (Hs & _).
  destruct (g_destroy_tail ls fs nb r v 0 T Hr Er) as (l1 & E1 & T1); [lia|].
  rewrite Nat.sub_0_r, Hs in E1. exists l1. split; [exact E1 | exact T1].
Qed.

(* ---- operator== *)
Lemma g_equal ls fs nb r s a b la lb e : TR ls fs nb -> r < 4 -> s < 4 -> fs r = vfp a -> fs s = vfp b ->
  vinv a la -> vinv b lb -> length lb = length la ->
  use_only (heap_nm (v_blk b)) (heap_nm (v_blk a)) 0 (length la) e -> ev_run ls e = Some ls.
Proof.
  intros (T & _) Hr Hs Er Es (As & _) (Bs & _) El U. apply run_uses. destruct T as (_ & L).
  eapply Forall_impl; [|exact U]. intros y (j & Hj & [-> | ->]); eexists; (split; [reflexivity|]); apply (L _).
  - exists s. split; [unfold VK; lia|]. rewrite Es. apply in_rng_spec. unfold vfp, heap_nm. cbn [f_k f_off f_size fst snd]. split; [reflexivity | lia].
  - exists r. split; [unfold VK; lia|]. rewrite Er. apply in_rng_spec. unfold vfp, heap_nm. cbn [f_k f_off f_size fst snd]. split; [reflexivity | lia].
Qed.

(* ================================================================== the whole register file *)
Definition vfs (rg : nat -> vec) : nat -> fpr := fun i => if Nat.ltb i 3 then vfp (rg i) else fp0.

Lemma vfs_set rg r v j : r < 3 -> vfs (set_reg rg r v) j = set_reg (vfs rg) r (vfp v) j.
Proof.
  intros Hr. unfold vfs, set_reg. destruct (Nat.eqb_spec j r) as [->|N]; [|reflexivity].
  now rewrite (proj2 (Nat.ltb_lt r 3) Hr).
Qed.
Lemma vfs_at rg r : r < 3 -> vfs rg r = vfp (rg r).
Proof. intros Hr. unfold vfs. now rewrite (proj2 (Nat.ltb_lt r 3) Hr). Qed.
Lemma vfs_hi rg j : 3 <= j -> vfs rg j = fp0.
Proof. intros Hj. unfold vfs. now rewrite (proj2 (Nat.ltb_ge j 3) Hj). Qed.

Definition regs_ok (o : vop) : Prop :=
  match o with
  | VPush r _ | VPushMove r _ | VEmplace r _ | VPop r | VResize r _ _ | VClear r | VFront r | VBack r | VIndex r _ => r < 3
  | VEq r s | VAssign r s | VMoveAssign r s | VCopyCtor r s | VMoveCtor r s | VSwap r s => r < 3 /\ s < 3
  end.

Definition voks (al : nat -> nat) (rg : nat -> vec) : Prop := forall r, vok (al r) (rg r).
Lemma voks_set al rg r a v : voks al rg -> vok a v -> voks (set_reg al r a) (set_reg rg r v).
Proof. intros Z Hv k. unfold set_reg. destruct (Nat.eqb k r); [exact Hv | apply Z]. Qed.
Lemma voks_set_reg al rg r v : voks al rg -> vok (al r) v -> voks al (set_reg rg r v).
Proof. intros Z Hv k. unfold set_reg. destruct (Nat.eqb_spec k r) as [->|]; [exact Hv | apply Z]. Qed.

Lemma TR_swap ls fs nb a b : TR ls fs nb -> a < 4 -> b < 4 -> TR ls (swap_slots fs a b) nb.
Proof.
  intros (T & G & Esp) Ha Hb. split; [apply tracks_swap; [unfold VK; lia | unfold VK; lia | exact T]|].
  split; [apply good_swap; [unfold VK; lia | unfold VK; lia | exact G]|].
  rewrite swap_slots_at. destruct (Nat.eqb_spec 4 b); [lia|]. destruct (Nat.eqb_spec 4 a); [lia | exact Esp].
Qed.

Lemma TR_reg rg r v' ls' nb' : r < 3 -> TR ls' (set_reg (vfs rg) r (vfp v')) nb' -> TR ls' (vfs (set_reg rg r v')) nb'.
Proof. intros Hr T. eapply TR_ext; [|exact T]. intros j. now apply vfs_set. Qed.

Lemma vstep_log st rs o ls :
  vrel st rs -> voks (als st) (regs st) -> TR ls (vfs (regs st)) (NINST * nextb st) -> ref_pre rs o -> regs_ok o ->
  exists st' e ls', vstep esz veq st o = Ok (st', snd (ref_step veq rs o), e) /\ ev_run ls e = Some ls' /\
    vrel st' (fst (ref_step veq rs o)) /\ voks (als st') (regs st') /\ TR ls' (vfs (regs st')) (NINST * nextb st').
Proof.
  intros R Z T P RO.
  destruct (vstep_refines esz veq st rs o R P) as (st0 & e0 & Hstep & R').
  destruct st as [rg al nb]. pose proof R as R0. unfold vrel in R0. cbn [regs als nextb] in *.
  pose proof (TR_nz _ _ _ T) as Nz. assert (Nb : nb <> 0) by (unfold NINST in Nz; lia).
  assert (Fin : forall st' e ls', vstep esz veq (mk_vst rg al nb) o = Ok (st', snd (ref_step veq rs o), e) ->
            ev_run ls e = Some ls' -> voks (als st') (regs st') -> TR ls' (vfs (regs st')) (NINST * nextb st') ->
            exists st' e ls', vstep esz veq (mk_vst rg al nb) o = Ok (st', snd (ref_step veq rs o), e) /\ ev_run ls e = Some ls' /\
              vrel st' (fst (ref_step veq rs o)) /\ voks (als st') (regs st') /\ TR ls' (vfs (regs st')) (NINST * nextb st')).
  { intros st' e ls' H1 H2 H3 H4. exists st', e, ls'. split; [exact H1|]. split; [exact H2|]. split; [|split; assumption].
    rewrite Hstep in H1. inversion H1; subst. exact R'. }
  clear Hstep R'.
  destruct o as [r x|r x|r x|r|r n x|r|r|r|r i|r s|r s|r s|r s|r s|r s]; cbn [vstep regs als nextb ref_step fst snd ref_pre regs_ok] in *.
  1-3: (destruct (g_push ls (vfs rg) (al r) nb r (rg r) (rs r) x T) as (l1 & E1 & T1); [lia | now apply vfs_at | apply R0 | apply Z|];
        eapply Fin; [rewrite (push_eq esz (al r) nb x (rg r) (rs r) (R0 r)); reflexivity | exact E1 | |];
        [cbn [regs als]; apply voks_set_reg; [exact Z|]; apply (vok_same_blk _ (grown (enc (al r) nb) (length (rs r) + 1) (rg r) (rs r)));
           [reflexivity | reflexivity | apply vok_grown; [exact Nb | apply Z]]
        | cbn [regs nextb]; now apply TR_reg]).
  - (* pop *)
    destruct (exists_last P) as (l & x & E). pose proof (R0 r) as Hr. rewrite E in Hr.
    destruct (g_pop ls (vfs rg) (NINST * nb) r (rg r) l x T) as (l1 & E1 & T1); [lia | now apply vfs_at | exact Hr|].
    eapply Fin; [rewrite (pop_eq (rg r) l x Hr); cbn [bind]; rewrite E, last_last; reflexivity | exact E1 | |].
    + cbn [regs als]. apply voks_set_reg; [exact Z|]. apply (vok_same_blk _ (rg r)); [reflexivity | reflexivity | apply Z].
    + cbn [regs nextb]. now apply TR_reg.
  - (* resize *)
    destruct (g_resize ls (vfs rg) (al r) nb r (rg r) (rs r) n x T) as (l1 & E1 & T1); [lia | now apply vfs_at | apply R0 | apply Z|].
    eapply Fin; [rewrite (resize_eq esz (al r) nb n x (rg r) (rs r) (R0 r)); reflexivity | exact E1 | |].
    + cbn [regs als]. apply voks_set_reg; [exact Z|]. apply (vok_same_blk _ (grown (enc (al r) nb) n (rg r) (rs r)));
        [reflexivity | reflexivity | apply vok_grown; [exact Nb | apply Z]].
    + cbn [regs nextb]. now apply TR_reg.
  - (* clear *)
    destruct (g_clear ls (vfs rg) (NINST * nb) r (rg r) (rs r) T) as (l1 & E1 & T1); [lia | now apply vfs_at | apply R0|].
    eapply Fin; [rewrite (clear_eq (rg r) (rs r) (R0 r)); reflexivity | exact E1 | |].
    + cbn [regs als]. apply voks_set_reg; [exact Z|]. apply (vok_same_blk _ (rg r)); [reflexivity | reflexivity | apply Z].
    + cbn [regs nextb]. now apply TR_reg.
  - (* front *)
    eapply Fin; [rewrite (front_eq (rg r) (rs r) (R0 r)); destruct (rs r) as [|y l]; [congruence | reflexivity] | reflexivity | exact Z | exact T].
  - (* back *)
    destruct (exists_last P) as (l & x & E). pose proof (R0 r) as Hr. rewrite E in Hr.
    eapply Fin; [rewrite (back_eq (rg r) l x Hr); cbn [bind]; rewrite E, last_last; reflexivity | reflexivity | exact Z | exact T].
  - (* index *)
    eapply Fin; [rewrite (index_eq (rg r) (rs r) i (R0 r)); apply Nat.ltb_lt in P; rewrite P; reflexivity | reflexivity | exact Z | exact T].
  - (* == *)
    destruct RO as [Hr Hs].
    destruct (equal_eq veq (rg r) (rg s) (rs r) (rs s) (R0 r) (R0 s)) as (e & He & U).
    assert (Er : ev_run ls e = Some ls).
    { unfold equal in He. destruct (R0 r) as (Hsr & _). destruct (R0 s) as (Hss & _). rewrite Hsr, Hss in He.
      destruct (Nat.eqb_spec (length (rs s)) (length (rs r))) as [El|Nl]; cbn [negb] in He.
      - apply (g_equal ls (vfs rg) (NINST * nb) r s (rg r) (rg s) (rs r) (rs s) e T); try lia; try (now apply vfs_at); try apply R0; assumption.
      - inversion He; subst. reflexivity. }
    eapply Fin; [rewrite He; reflexivity | exact Er | exact Z | exact T].
  - (* copy assignment *)
    destruct RO as [Hr Hs]. destruct (Z s) as (_ & Als & _).
    destruct (g_copy ls (vfs rg) (al s) nb s 3 (rg s) (rs s) T) as (l1 & E1 & T1); [lia | lia | lia | now apply vfs_at | now apply vfs_hi | apply R0 | exact Als|].
    destruct (g_destruct l1 _ (al r) _ r (rg r) (rs r) T1) as (l2 & E2 & T2); [lia | rewrite set_reg_other by lia; now apply vfs_at | apply R0 | apply Z|].
    eapply Fin; [rewrite (copy_ctor_eq esz (al s) nb (rg s) (rs s) (R0 s)); cbn [bind]; rewrite (destruct_eq (al r) (rg r) (rs r) (R0 r)); reflexivity
                | rewrite (ev_run_app_some _ _ _ _ E1); exact E2 | |].
    + cbn [regs als]. apply voks_set; [exact Z | now apply vok_copied].
    + cbn [regs nextb]. eapply TR_ext; [|apply (TR_swap _ _ _ r 3 T2); lia].
      intros j. rewrite vfs_set by lia. rewrite swap_slots_at. unfold set_reg.
      destruct (Nat.eqb_spec j 3) as [->|N3].
      * destruct (Nat.eqb_spec 3 r); [lia|]. rewrite Nat.eqb_refl. now rewrite vfs_hi by lia.
      * destruct (Nat.eqb_spec j r) as [->|Nr]; [|reflexivity].
        destruct (Nat.eqb_spec 3 r); [lia|]. now rewrite Nat.eqb_refl.
  - (* move assignment *)
    destruct RO as [Hr Hs].
    assert (R1 : vrel (mk_vst (set_reg rg s vec_empty) al nb) (set_reg rs s [])) by (eapply vrel_set; [exact R | apply vinv_empty]).
    pose proof (R1 r) as Hmine. cbn [regs] in Hmine.
    pose proof (TR_swap _ _ _ s 3 T) as T0. specialize (T0 ltac:(lia) ltac:(lia)).
    assert (Am : aok (al r) (set_reg rg s vec_empty r)).
    { unfold set_reg. destruct (Nat.eqb r s); [apply vok_empty, Z | apply Z]. }
    destruct (g_destruct ls _ (al r) _ r (set_reg rg s vec_empty r) (set_reg rs s [] r) T0) as (l2 & E2 & T2); [lia | | exact Hmine | exact Am|].
    { rewrite swap_slots_at. destruct (Nat.eqb_spec r 3); [lia|]. unfold set_reg. destruct (Nat.eqb_spec r s) as [->|Nrs].
      - rewrite vfs_hi by lia. reflexivity.
      - now apply vfs_at. }
    eapply Fin; [rewrite (destruct_eq (al r) _ _ Hmine); reflexivity | exact E2 | |].
    + cbn [regs als]. apply voks_set; [|apply Z]. intros k. unfold set_reg. destruct (Nat.eqb k s); [apply vok_empty, Z | apply Z].
    + cbn [regs nextb]. eapply TR_ext; [|apply (TR_swap _ _ _ r 3 T2); lia].
      intros j. rewrite vfs_set by lia. rewrite !swap_slots_at. unfold set_reg at 1 2.
      destruct (Nat.eqb_spec j 3) as [->|N3].
      * destruct (Nat.eqb_spec 3 r); [lia|]. rewrite set_reg_same. unfold vfs. cbn. reflexivity.
      * destruct (Nat.eqb_spec j r) as [->|Nr].
        -- rewrite set_reg_other by lia. rewrite swap_slots_at, Nat.eqb_refl. now rewrite vfs_at by lia.
        -- rewrite set_reg_other by exact Nr. rewrite swap_slots_at. rewrite (proj2 (Nat.eqb_neq j 3) N3).
           destruct (Nat.eqb_spec j s) as [->|Ns].
           ++ rewrite (vfs_hi rg 3) by lia. rewrite vfs_at by lia. now rewrite Nat.eqb_refl.
           ++ unfold vfs, set_reg. now rewrite (proj2 (Nat.eqb_neq j s) Ns).
  - (* copy construction *)
    destruct RO as [Hr Hs]. destruct (Z s) as (_ & Als & _).
    destruct (Nat.eqb_spec r s) as [->|Nrs]; [eapply Fin; [reflexivity | reflexivity | exact Z | exact T]|].
    destruct (g_destruct ls _ (al r) _ r (rg r) (rs r) T) as (l1 & E1 & T1); [lia | now apply vfs_at | apply R0 | apply Z|].
    destruct (g_copy l1 _ (al s) nb s r (rg s) (rs s) T1) as (l2 & E2 & T2); [lia | lia | congruence | rewrite set_reg_other by congruence; now apply vfs_at | now rewrite set_reg_same | apply R0 | exact Als|].
    eapply Fin; [rewrite (destruct_eq (al r) (rg r) (rs r) (R0 r)); cbn [bind]; rewrite (copy_ctor_eq esz (al s) nb (rg s) (rs s) (R0 s)); reflexivity
                | rewrite (ev_run_app_some _ _ _ _ E1); exact E2 | |].
    + cbn [regs als]. apply voks_set; [exact Z | now apply vok_copied].
    + cbn [regs nextb]. eapply TR_ext; [|exact T2]. intros j. rewrite vfs_set by lia. now rewrite set_reg_set.
  - (* move construction *)
    destruct RO as [Hr Hs].
    destruct (Nat.eqb_spec r s) as [->|Nrs]; [eapply Fin; [reflexivity | reflexivity | exact Z | exact T]|].
    destruct (g_destruct ls _ (al r) _ r (rg r) (rs r) T) as (l1 & E1 & T1); [lia | now apply vfs_at | apply R0 | apply Z|].
    eapply Fin; [rewrite (destruct_eq (al r) (rg r) (rs r) (R0 r)); reflexivity | exact E1 | |].
    + cbn [regs als]. intros k. unfold set_reg.
      destruct (Nat.eqb_spec k s) as [->|Nks].
      * destruct (Nat.eqb_spec s r); [congruence|]. apply vok_empty, Z.
      * destruct (Nat.eqb k r); apply Z.
    + cbn [regs nextb]. eapply TR_ext; [|apply (TR_swap _ _ _ r s T1); lia].
      intros j. rewrite swap_slots_at. unfold vfs, set_reg.
      destruct (Nat.eqb_spec j s) as [->|Ns].
      * rewrite (proj2 (Nat.ltb_lt s 3) Hs), Nat.eqb_refl. reflexivity.
      * destruct (Nat.eqb_spec j r) as [->|Nr]; [|reflexivity].
        rewrite (proj2 (Nat.ltb_lt r 3) Hr), (proj2 (Nat.ltb_lt s 3) Hs). destruct (Nat.eqb_spec s r); [congruence | reflexivity].
  - (* swap *)
    destruct RO as [Hr Hs].
    eapply Fin; [reflexivity | reflexivity | |].
    + cbn [regs als]. intros k. unfold set_reg. destruct (Nat.eqb k s); [apply Z|]. destruct (Nat.eqb k r); apply Z.
    + cbn [regs nextb]. eapply TR_ext; [|apply (TR_swap _ _ _ r s T); lia].
      intros j. rewrite swap_slots_at. unfold vfs, set_reg.
      destruct (Nat.eqb_spec j s) as [->|Ns].
      * now rewrite (proj2 (Nat.ltb_lt s 3) Hs), (proj2 (Nat.ltb_lt r 3) Hr).
      * destruct (Nat.eqb_spec j r) as [->|Nr]; [|reflexivity].
        now rewrite (proj2 (Nat.ltb_lt s 3) Hs), (proj2 (Nat.ltb_lt r 3) Hr).
Qed.

Lemma vrun_log : forall ops st rs ls,
  vrel st rs -> voks (als st) (regs st) -> TR ls (vfs (regs st)) (NINST * nextb st) -> ref_ok veq rs ops -> Forall regs_ok ops ->
  exists st' e ls', vrun esz veq st ops = Ok (st', snd (ref_run veq rs ops), e) /\ ev_run ls e = Some ls' /\
    vrel st' (fst (ref_run veq rs ops)) /\ voks (als st') (regs st') /\ TR ls' (vfs (regs st')) (NINST * nextb st').
Proof.
  induction ops as [|o ops IH]; intros st rs ls R Z T K RO.
  - exists st, [], ls. split; [reflexivity|]. split; [reflexivity|]. split; [exact R|]. split; [exact Z | exact T].
  - destruct K as [P K]. inversion RO as [|? ? RO1 RO2]; subst.
    destruct (vstep_log st rs o ls R Z T P RO1) as (st1 & e1 & l1 & H1 & E1 & R1 & Z1 & T1).
    cbn [vrun ref_run]. rewrite H1. cbn [bind].
    destruct (ref_step veq rs o) as [rs1 x] eqn:Es. cbn [fst snd] in *.
    destruct (IH st1 rs1 l1 R1 Z1 T1 K RO2) as (st2 & e2 & l2 & H2 & E2 & R2 & Z2 & T2). rewrite H2. cbn [bind].
    destruct (ref_run veq rs1 ops) as [rs2 xs]. cbn [fst snd] in *.
    exists st2, (e1 ++ e2), l2. split; [reflexivity|]. split; [rewrite (ev_run_app_some _ _ _ _ E1); exact E2|].
    split; [exact R2|]. split; [exact Z2 | exact T2].
Qed.

Lemma TR0 : TR ls0 (vfs (regs vst0)) (NINST * nextb vst0).
Proof.
  assert (E : forall j, vfs (regs vst0) j = fp0) by (intros j; unfold vfs; destruct (Nat.ltb j 3); reflexivity).
  split; [|split].
  - eapply tracks_ext; [|apply (tracks_ls0 VK)]. intros j _. apply E.
  - split; [cbn; lia|]. split.
    + intros j _. rewrite E. apply fp_ok_fp0. cbn. lia.
    + intros i j _ _ _. rewrite !E. apply sep_fp0.
  - apply E.
Qed.
Lemma voks0 : voks (als vst0) (regs vst0).
Proof. intros r. apply vok_empty. cbn [als vst0]. unfold NINST. lia. Qed.

Lemma vfinish_log st rs ls : vrel st rs -> voks (als st) (regs st) -> TR ls (vfs (regs st)) (NINST * nextb st) ->
  exists e ls', vfinish st = Ok e /\ ev_run ls e = Some ls' /\ blocks ls' = [] /\ live ls' = [].
Proof.
  intros R Z T. destruct st as [rg al nb]. cbn [regs als nextb] in *. pose proof R as R0. unfold vrel in R0. cbn [regs] in R0.
  unfold vfinish, nregs. cbn [regs als destruct_regs].
  rewrite (destruct_eq (al 0) (rg 0) (rs 0) (R0 0)), (destruct_eq (al 1) (rg 1) (rs 1) (R0 1)), (destruct_eq (al 2) (rg 2) (rs 2) (R0 2)). cbn [bind].
  destruct (g_destruct ls _ (al 0) _ 0 (rg 0) (rs 0) T) as (l1 & E1 & T1); [lia | apply vfs_at; lia | apply R0 | apply Z|].
  destruct (g_destruct l1 _ (al 1) _ 1 (rg 1) (rs 1) T1) as (l2 & E2 & T2); [lia | rewrite set_reg_other by lia; apply vfs_at; lia | apply R0 | apply Z|].
  destruct (g_destruct l2 _ (al 2) _ 2 (rg 2) (rs 2) T2) as (l3 & E3 & T3); [lia | rewrite !set_reg_other by lia; apply vfs_at; lia | apply R0 | apply Z|].
  eexists. exists l3. split; [reflexivity|]. split.
  - rewrite (ev_run_app_some _ _ _ _ E1), (ev_run_app_some _ _ _ _ E2), app_nil_r. exact E3.
  - apply (tracks_all_empty VK). destruct T3 as (T3 & _). eapply tracks_ext; [|exact T3].
    intros j _. unfold set_reg. destruct j as [|[|[|j]]]; reflexivity.
Qed.

Lemma wf_closed_of_run l ls : ev_run ls0 l = Some ls -> blocks ls = [] -> live ls = [] -> wf_closed l = true.
Proof. intros E B L. unfold wf_closed. now rewrite E, B, L. Qed.

Theorem vector_log_wf : forall ops, ref_ok veq rs0 ops -> Forall regs_ok ops ->
  exists st outs e fin, vrun esz veq vst0 ops = Ok (st, outs, e) /\ vfinish st = Ok fin /\ wf_closed (e ++ fin) = true.
Proof.
  intros ops K RO.
  destruct (vrun_log ops vst0 rs0 ls0 vrel0 voks0 TR0 K RO) as (st & e & l1 & H & E & R & Z & T).
  destruct (vfinish_log st _ l1 R Z T) as (fin & l2 & F & E2 & B & L).
  exists st, (snd (ref_run veq rs0 ops)), e, fin. split; [exact H|]. split; [exact F|].
  apply (wf_closed_of_run _ l2); [rewrite (ev_run_app_some _ _ _ _ E); exact E2 | exact B | exact L].
Qed.

End WithElem.
