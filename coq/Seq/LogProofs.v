(* Event logs as views: what each event / each loop's event list does to "which blocks exist" and
   "which objects are alive" (used for the C16 statements of the sequence containers). *)
From Coq Require Import List NArith Arith Bool Lia.
From FV Require Import Common.EventLog Seq.SlotModel Seq.SlotProofs.
Import ListNotations.

Lemma obj_eqb_spec a b : reflect (a = b) (obj_eqb a b).
Proof.
  destruct a as [a1 a2], b as [b1 b2]. unfold obj_eqb. cbn [fst snd].
  destruct (Nat.eqb_spec a1 b1), (Nat.eqb_spec a2 b2); cbn; constructor; congruence.
Qed.
Lemma obj_eqb_refl a : obj_eqb a a = true.
Proof. destruct (obj_eqb_spec a a); congruence. Qed.
Lemma obj_eqb_sym a b : obj_eqb a b = obj_eqb b a.
Proof. destruct (obj_eqb_spec a b), (obj_eqb_spec b a); congruence. Qed.

Lemma has_block_cons b0 n bl lv b :
  has_block b (mk_ls ((b0, n) :: bl) lv) = if Nat.eqb b0 b then Some n else has_block b (mk_ls bl lv).
Proof. unfold has_block. cbn [blocks find fst snd]. now destruct (Nat.eqb b0 b). Qed.

Lemma has_block_drop b s b' : has_block b' (drop_block b s) = if Nat.eqb b' b then None else has_block b' s.
Proof.
  unfold has_block, drop_block. cbn [blocks]. induction (blocks s) as [|[k n] bl IH]; cbn [filter find fst snd].
  - now destruct (Nat.eqb b' b).
  - destruct (Nat.eqb_spec k b) as [->|Nk]; cbn [negb].
    + rewrite IH. destruct (Nat.eqb_spec b' b) as [->|Nb]; [reflexivity|].
      destruct (Nat.eqb_spec b b'); [congruence | reflexivity].
    + cbn [find fst snd]. destruct (Nat.eqb_spec k b') as [->|Nk']; [|exact IH].
      destruct (Nat.eqb_spec b' b); [congruence | reflexivity].
Qed.

Lemma is_live_filter o o' lv :
  existsb (obj_eqb o') (filter (fun x => negb (obj_eqb o x)) lv) = existsb (obj_eqb o') lv && negb (obj_eqb o o').
Proof.
  induction lv as [|x lv IH]; [reflexivity|]. cbn [filter existsb].
  destruct (obj_eqb_spec o x) as [->|N]; cbn [negb].
  - rewrite IH. destruct (obj_eqb_spec o' x) as [->|N']; cbn [orb].
    + rewrite obj_eqb_refl. cbn. now rewrite andb_false_r.
    + reflexivity.
  - cbn [existsb]. rewrite IH. destruct (obj_eqb_spec o' x) as [->|N']; cbn [orb]; [|reflexivity].
    destruct (obj_eqb_spec o x); [congruence | reflexivity].
Qed.

Lemma no_live_in_spec b s : no_live_in b s = true <-> forall o, is_live o s = true -> fst o <> b.
Proof.
  unfold no_live_in, is_live. rewrite forallb_forall. split.
  - intros H o Ho. apply existsb_exists in Ho. destruct Ho as (x & Hx & E).
    destruct (obj_eqb_spec o x); [subst|discriminate]. specialize (H x Hx).
    destruct (Nat.eqb_spec (fst x) b); [discriminate | assumption].
  - intros H x Hx. destruct (Nat.eqb_spec (fst x) b) as [E|]; [|reflexivity].
    exfalso. apply (H x); [|exact E]. apply existsb_exists. exists x. split; [exact Hx | apply obj_eqb_refl].
Qed.

(* ---- one event *)
Lemma step_alloc ls b n : b <> 0 -> has_block b ls = None ->
  exists ls', ev_step ls (EAlloc b n) = Some ls' /\
    (forall b', has_block b' ls' = if Nat.eqb b' b then Some n else has_block b' ls) /\
    (forall o, is_live o ls' = is_live o ls).
Proof.
  intros Hb Hn. cbn [ev_step]. rewrite (proj2 (Nat.eqb_neq b 0) Hb), Hn. eexists. split; [reflexivity|]. split.
  - intros b'. destruct ls as [bl lv]. cbn [blocks live]. rewrite has_block_cons.
    rewrite (Nat.eqb_sym b' b). reflexivity.
  - reflexivity.
Qed.

Lemma step_free ls b : has_block b ls <> None -> (forall o, is_live o ls = true -> fst o <> b) ->
  exists ls', ev_step ls (EFree b) = Some ls' /\
    (forall b', has_block b' ls' = if Nat.eqb b' b then None else has_block b' ls) /\
    (forall o, is_live o ls' = is_live o ls).
Proof.
  intros Hb Hn. cbn [ev_step]. destruct (has_block b ls); [|congruence].
  rewrite (proj2 (no_live_in_spec b ls) Hn). eexists. split; [reflexivity|]. split.
  - intros b'. apply has_block_drop.
  - reflexivity.
Qed.

Lemma step_dealloc ls b n : has_block b ls = Some n -> (forall o, is_live o ls = true -> fst o <> b) ->
  exists ls', ev_step ls (EDealloc b n) = Some ls' /\
    (forall b', has_block b' ls' = if Nat.eqb b' b then None else has_block b' ls) /\
    (forall o, is_live o ls' = is_live o ls).
Proof.
  intros Hb Hn. cbn [ev_step]. rewrite Hb, N.eqb_refl.
  rewrite (proj2 (no_live_in_spec b ls) Hn). cbn [andb]. eexists. split; [reflexivity|]. split.
  - intros b'. apply has_block_drop.
  - reflexivity.
Qed.

Definition blk_ok (b : nat) (ls : lstate) : Prop := b = 0 \/ has_block b ls <> None.

Lemma step_construct ls o : blk_ok (fst o) ls -> is_live o ls = false ->
  exists ls', ev_step ls (EConstruct o) = Some ls' /\
    (forall b', has_block b' ls' = has_block b' ls) /\
    (forall o', is_live o' ls' = obj_eqb o' o || is_live o' ls).
Proof.
  intros Hb Hn. cbn [ev_step].
  assert (block_ok (fst o) ls = true) as ->.
  { unfold block_ok. destruct Hb as [->|Hb]; [reflexivity|]. destruct (has_block (fst o) ls); [apply orb_true_r | congruence]. }
  rewrite Hn. cbn [negb andb]. eexists. split; [reflexivity|]. split; reflexivity.
Qed.

Lemma step_destroy ls o : is_live o ls = true ->
  exists ls', ev_step ls (EDestroy o) = Some ls' /\
    (forall b', has_block b' ls' = has_block b' ls) /\
    (forall o', is_live o' ls' = is_live o' ls && negb (obj_eqb o o')).
Proof.
  intros Hl. cbn [ev_step]. rewrite Hl. eexists. split; [reflexivity|]. split; [reflexivity|].
  intros o'. unfold is_live. cbn [live]. apply is_live_filter.
Qed.

Lemma step_use ls o : is_live o ls = true -> ev_step ls (EUse o) = Some ls.
Proof. intros Hl. cbn [ev_step]. now rewrite Hl. Qed.

(* ---- names of the slots of one buffer: block k, slots off+0, off+1, ... *)
Definition nmk (k off : nat) : nm := fun j => (k, off + j).
Definition in_rng (o : obj) (k lo hi : nat) : bool := Nat.eqb (fst o) k && Nat.leb lo (snd o) && Nat.ltb (snd o) hi.

Lemma in_rng_spec o k lo hi : in_rng o k lo hi = true <-> fst o = k /\ lo <= snd o < hi.
Proof. unfold in_rng. rewrite !andb_true_iff, Nat.eqb_eq, Nat.leb_le, Nat.ltb_lt. tauto. Qed.
Lemma in_rng_nmk k off j lo hi : in_rng (nmk k off j) k lo hi = Nat.leb lo (off + j) && Nat.ltb (off + j) hi.
Proof. unfold in_rng, nmk. cbn [fst snd]. now rewrite Nat.eqb_refl. Qed.

Lemma obj_eqb_nmk o k off j : obj_eqb o (nmk k off j) = Nat.eqb (fst o) k && Nat.eqb (snd o) (off + j).
Proof. destruct o. reflexivity. Qed.

(* destroy events for slots [i, i+cnt) *)
Lemma run_destroy_evs k off : forall cnt i ls,
  (forall j, i <= j < i + cnt -> is_live (nmk k off j) ls = true) ->
  exists ls', ev_run ls (destroy_evs (nmk k off) i cnt) = Some ls' /\
    (forall b, has_block b ls' = has_block b ls) /\
    (forall o, is_live o ls' = is_live o ls && negb (in_rng o k (off + i) (off + i + cnt))).
Proof.
  induction cnt as [|cnt IH]; intros i ls H.
  - exists ls. split; [reflexivity|]. split; [reflexivity|]. intros o.
    assert (in_rng o k (off + i) (off + i + 0) = false) as ->; [|now rewrite andb_true_r].
    destruct (in_rng o k (off + i) (off + i + 0)) eqn:E; [|reflexivity]. apply in_rng_spec in E. lia.
  - unfold destroy_evs. cbn [seq map]. cbn [ev_run].
    destruct (step_destroy ls (nmk k off i)) as (ls1 & E1 & B1 & L1); [apply H; lia|].
    rewrite E1.
    destruct (IH (S i) ls1) as (ls2 & E2 & B2 & L2).
    { intros j Hj. rewrite L1, H by lia. cbn [andb]. rewrite obj_eqb_nmk. unfold nmk. cbn [fst snd].
      rewrite Nat.eqb_refl. cbn [andb]. destruct (Nat.eqb_spec (off + i) (off + j)); [lia | reflexivity]. }
    fold (destroy_evs (nmk k off) (S i) cnt). rewrite E2. exists ls2. split; [reflexivity|]. split.
    + intros b. now rewrite B2, B1.
    + intros o. rewrite L2, L1. rewrite <- andb_assoc. f_equal.
      rewrite (obj_eqb_sym (nmk k off i) o), obj_eqb_nmk. unfold in_rng.
      destruct (Nat.eqb_spec (fst o) k); cbn [andb negb]; [|reflexivity].
      destruct (Nat.eqb_spec (snd o) (off + i)), (Nat.leb_spec (off + S i) (snd o)), (Nat.ltb_spec (snd o) (off + S i + cnt)),
               (Nat.leb_spec (off + i) (snd o)), (Nat.ltb_spec (snd o) (off + i + S cnt)); cbn; try reflexivity; lia.
Qed.

(* construct events for slots [i, i+cnt) *)
Lemma run_fill_evs k off : forall cnt i ls,
  blk_ok k ls ->
  (forall j, i <= j < i + cnt -> is_live (nmk k off j) ls = false) ->
  exists ls', ev_run ls (fill_evs (nmk k off) i cnt) = Some ls' /\
    (forall b, has_block b ls' = has_block b ls) /\
    (forall o, is_live o ls' = is_live o ls || in_rng o k (off + i) (off + i + cnt)).
Proof.
  induction cnt as [|cnt IH]; intros i ls Hk H.
  - exists ls. split; [reflexivity|]. split; [reflexivity|]. intros o.
    assert (in_rng o k (off + i) (off + i + 0) = false) as ->; [|now rewrite orb_false_r].
    destruct (in_rng o k (off + i) (off + i + 0)) eqn:E; [|reflexivity]. apply in_rng_spec in E. lia.
  - unfold fill_evs. cbn [seq map]. cbn [ev_run].
    destruct (step_construct ls (nmk k off i)) as (ls1 & E1 & B1 & L1); [exact Hk | apply H; lia|].
    rewrite E1.
    destruct (IH (S i) ls1) as (ls2 & E2 & B2 & L2).
    { destruct Hk as [->|Hk]; [now left | right; now rewrite B1]. }
    { intros j Hj. rewrite L1, H by lia. rewrite orb_false_r, obj_eqb_nmk. unfold nmk. cbn [fst snd].
      rewrite Nat.eqb_refl. cbn [andb]. destruct (Nat.eqb_spec (off + j) (off + i)); [lia | reflexivity]. }
    fold (fill_evs (nmk k off) (S i) cnt). rewrite E2. exists ls2. split; [reflexivity|]. split.
    + intros b. now rewrite B2, B1.
    + intros o. rewrite L2, L1. rewrite obj_eqb_nmk. unfold in_rng.
      destruct (is_live o ls); cbn [orb]; [now rewrite orb_true_r|].
      destruct (Nat.eqb_spec (fst o) k); cbn [andb]; [|reflexivity].
      destruct (Nat.eqb_spec (snd o) (off + i)), (Nat.leb_spec (off + S i) (snd o)), (Nat.ltb_spec (snd o) (off + S i + cnt)),
               (Nat.leb_spec (off + i) (snd o)), (Nat.ltb_spec (snd o) (off + i + S cnt)); cbn; try reflexivity; lia.
Qed.

(* copy/move construction of dst slots [i, i+cnt) from the live src slots [i, i+cnt) *)
Lemma run_xfer_evs ks offs kd offd : forall cnt i ls,
  blk_ok kd ls ->
  (forall j, i <= j < i + cnt -> is_live (nmk ks offs j) ls = true) ->
  (forall j, i <= j < i + cnt -> is_live (nmk kd offd j) ls = false) ->
  exists ls', ev_run ls (xfer_evs (nmk ks offs) (nmk kd offd) i cnt) = Some ls' /\
    (forall b, has_block b ls' = has_block b ls) /\
    (forall o, is_live o ls' = is_live o ls || in_rng o kd (offd + i) (offd + i + cnt)).
Proof.
  induction cnt as [|cnt IH]; intros i ls Hk Hs Hn.
  - exists ls. split; [reflexivity|]. split; [reflexivity|]. intros o.
    assert (in_rng o kd (offd + i) (offd + i + 0) = false) as ->; [|now rewrite orb_false_r].
    destruct (in_rng o kd (offd + i) (offd + i + 0)) eqn:E; [|reflexivity]. apply in_rng_spec in E. lia.
  - unfold xfer_evs. cbn [seq flat_map app]. cbn [ev_run].
    rewrite (step_use ls (nmk ks offs i)) by (apply Hs; lia).
    destruct (step_construct ls (nmk kd offd i)) as (ls1 & E1 & B1 & L1); [exact Hk | apply Hn; lia|].
    rewrite E1.
    destruct (IH (S i) ls1) as (ls2 & E2 & B2 & L2).
    { destruct Hk as [->|Hk]; [now left | right; now rewrite B1]. }
    { intros j Hj. rewrite L1, Hs by lia. apply orb_true_r. }
    { intros j Hj. rewrite L1, Hn by lia. rewrite orb_false_r, obj_eqb_nmk. unfold nmk. cbn [fst snd].
      rewrite Nat.eqb_refl. cbn [andb]. destruct (Nat.eqb_spec (offd + j) (offd + i)); [lia | reflexivity]. }
    fold (xfer_evs (nmk ks offs) (nmk kd offd) (S i) cnt). rewrite E2. exists ls2. split; [reflexivity|]. split.
    + intros b. now rewrite B2, B1.
    + intros o. rewrite L2, L1. rewrite obj_eqb_nmk. unfold in_rng.
      destruct (is_live o ls); cbn [orb]; [now rewrite orb_true_r|].
      destruct (Nat.eqb_spec (fst o) kd); cbn [andb]; [|reflexivity].
      destruct (Nat.eqb_spec (snd o) (offd + i)), (Nat.leb_spec (offd + S i) (snd o)), (Nat.ltb_spec (snd o) (offd + S i + cnt)),
               (Nat.leb_spec (offd + i) (snd o)), (Nat.ltb_spec (snd o) (offd + i + S cnt)); cbn; try reflexivity; lia.
Qed.

(* reads of live objects leave the state unchanged *)
Lemma run_uses ls e : Forall (fun x => exists o, x = EUse o /\ is_live o ls = true) e -> ev_run ls e = Some ls.
Proof.
  induction e as [|x e IH]; intros H; [reflexivity|]. inversion H as [|? ? (o & -> & Ho) Hr]; subst.
  cbn [ev_run]. rewrite (step_use ls o Ho). now apply IH.
Qed.

Lemma ev_run_app_some s l1 l2 s1 : ev_run s l1 = Some s1 -> ev_run s (l1 ++ l2) = ev_run s1 l2.
Proof. intros H. now rewrite ev_run_app, H. Qed.

(* element-wise exchange of the live slots [i, i+cnt) of two buffers: the view does not change *)
Definition swap_evs (an bn : nm) (i k : nat) : list ev :=
  flat_map (fun j => [EUse (an j); EDestroy (an j); EUse (bn j); EConstruct (an j); EDestroy (bn j); EConstruct (bn j)]) (seq i k).
Definition reloc_evs (sn dn : nm) (i k : nat) : list ev :=
  flat_map (fun j => [EUse (sn j); EConstruct (dn j); EDestroy (sn j)]) (seq i k).

Lemma run_swap_evs ka offa kb offb : forall cnt i ls,
  blk_ok ka ls -> blk_ok kb ls ->
  (forall a b, i <= a < i + cnt -> i <= b < i + cnt -> nmk ka offa a <> nmk kb offb b) ->
  (forall j, i <= j < i + cnt -> is_live (nmk ka offa j) ls = true) ->
  (forall j, i <= j < i + cnt -> is_live (nmk kb offb j) ls = true) ->
  exists ls', ev_run ls (swap_evs (nmk ka offa) (nmk kb offb) i cnt) = Some ls' /\
    (forall b, has_block b ls' = has_block b ls) /\ (forall o, is_live o ls' = is_live o ls).
Proof.
  induction cnt as [|cnt IH]; intros i ls Ha Hb Hd La Lb.
  - exists ls. repeat split; reflexivity.
  - unfold swap_evs. cbn [seq flat_map app]. cbn [ev_run].
    set (a := nmk ka offa i). set (b := nmk kb offb i).
    assert (Hab : obj_eqb a b = false) by (destruct (obj_eqb_spec a b) as [E|]; [exfalso; apply (Hd i i); [lia | lia | exact E] | reflexivity]).
    assert (Hla : is_live a ls = true) by (apply La; lia).
    assert (Hlb : is_live b ls = true) by (apply Lb; lia).
    rewrite (step_use ls a Hla).
    destruct (step_destroy ls a Hla) as (l1 & E1 & B1 & L1). rewrite E1.
    assert (Lb1 : is_live b l1 = true) by (rewrite L1, Hlb; now rewrite Hab).
    rewrite (step_use l1 b Lb1).
    destruct (step_construct l1 a) as (l2 & E2 & B2 & L2).
    { destruct Ha as [->|Ha]; [now left | right; now rewrite B1]. }
    { rewrite L1. now rewrite obj_eqb_refl, andb_false_r. }
    rewrite E2.
    destruct (step_destroy l2 b) as (l3 & E3 & B3 & L3); [rewrite L2, Lb1; apply orb_true_r|]. rewrite E3.
    destruct (step_construct l3 b) as (l4 & E4 & B4 & L4).
    { destruct Hb as [->|Hb]; [now left | right; now rewrite B3, B2, B1]. }
    { rewrite L3. now rewrite obj_eqb_refl, andb_false_r. }
    rewrite E4.
    assert (Lv4 : forall o, is_live o l4 = is_live o ls).
    { intros o. rewrite L4, L3, L2, L1.
      destruct (obj_eqb_spec o b) as [->|Nb].
      - cbn [orb]. now rewrite Hlb.
      - cbn [orb]. destruct (obj_eqb_spec b o); [congruence|]. cbn [negb]. rewrite andb_true_r.
        destruct (obj_eqb_spec o a) as [->|Na]; cbn [orb]; [now rewrite Hla|].
        destruct (obj_eqb_spec a o); [congruence|]. cbn [negb]. now rewrite andb_true_r. }
    destruct (IH (S i) l4) as (l5 & E5 & B5 & L5).
    { destruct Ha as [->|Ha]; [now left | right; now rewrite B4, B3, B2, B1]. }
    { destruct Hb as [->|Hb]; [now left | right; now rewrite B4, B3, B2, B1]. }
    { intros x y Hx Hy. apply Hd; lia. }
    { intros j Hj. rewrite Lv4. apply La; lia. }
    { intros j Hj. rewrite Lv4. apply Lb; lia. }
    fold (swap_evs (nmk ka offa) (nmk kb offb) (S i) cnt). rewrite E5. exists l5. split; [reflexivity|]. split.
    + intros b'. now rewrite B5, B4, B3, B2, B1.
    + intros o. now rewrite L5, Lv4.
Qed.

(* relocation of the live slots [i, i+cnt) of src into the raw slots [i, i+cnt) of dst *)
Lemma run_reloc_evs ks offs kd offd : forall cnt i ls,
  blk_ok kd ls ->
  (forall a b, i <= a < i + cnt -> i <= b < i + cnt -> nmk ks offs a <> nmk kd offd b) ->
  (forall j, i <= j < i + cnt -> is_live (nmk ks offs j) ls = true) ->
  (forall j, i <= j < i + cnt -> is_live (nmk kd offd j) ls = false) ->
  exists ls', ev_run ls (reloc_evs (nmk ks offs) (nmk kd offd) i cnt) = Some ls' /\
    (forall b, has_block b ls' = has_block b ls) /\
    (forall o, is_live o ls' = (is_live o ls && negb (in_rng o ks (offs + i) (offs + i + cnt)))
                               || in_rng o kd (offd + i) (offd + i + cnt)).
Proof.
  induction cnt as [|cnt IH]; intros i ls Hk Hd Ls Ld.
  - exists ls. split; [reflexivity|]. split; [reflexivity|]. intros o.
    assert (in_rng o ks (offs + i) (offs + i + 0) = false) as -> by (destruct (in_rng o ks (offs + i) (offs + i + 0)) eqn:E; [apply in_rng_spec in E; lia | reflexivity]).
    assert (in_rng o kd (offd + i) (offd + i + 0) = false) as -> by (destruct (in_rng o kd (offd + i) (offd + i + 0)) eqn:E; [apply in_rng_spec in E; lia | reflexivity]).
    now rewrite andb_true_r, orb_false_r.
  - unfold reloc_evs. cbn [seq flat_map app]. cbn [ev_run].
    set (s := nmk ks offs i). set (d := nmk kd offd i).
    assert (Hsd : obj_eqb s d = false) by (destruct (obj_eqb_spec s d) as [E|]; [exfalso; apply (Hd i i); [lia | lia | exact E] | reflexivity]).
    assert (Hls : is_live s ls = true) by (apply Ls; lia).
    assert (Hld : is_live d ls = false) by (apply Ld; lia).
    rewrite (step_use ls s Hls).
    destruct (step_construct ls d Hk Hld) as (l1 & E1 & B1 & L1). rewrite E1.
    destruct (step_destroy l1 s) as (l2 & E2 & B2 & L2); [rewrite L1, Hls; apply orb_true_r|]. rewrite E2.
    destruct (IH (S i) l2) as (l3 & E3 & B3 & L3).
    { destruct Hk as [->|Hk]; [now left | right; now rewrite B2, B1]. }
    { intros x y Hx Hy. apply Hd; lia. }
    { intros j Hj. rewrite L2, L1, Ls by lia. rewrite orb_true_r. cbn [andb].
      destruct (obj_eqb_spec s (nmk ks offs j)) as [E|]; [|reflexivity]. unfold s, nmk in E. inversion E. lia. }
    { intros j Hj. rewrite L2, L1, Ld by lia. rewrite orb_false_r.
      destruct (obj_eqb_spec (nmk kd offd j) d) as [E|]; [|reflexivity]. unfold d, nmk in E. inversion E. lia. }
    fold (reloc_evs (nmk ks offs) (nmk kd offd) (S i) cnt). rewrite E3. exists l3. split; [reflexivity|]. split.
    + intros b. now rewrite B3, B2, B1.
    + intros o. rewrite L3, L2, L1.
      rewrite (obj_eqb_sym s o). unfold s, d. rewrite !obj_eqb_nmk. unfold in_rng.
      destruct (is_live o ls); cbn [orb andb];
      destruct (Nat.eqb_spec (fst o) ks), (Nat.eqb_spec (fst o) kd); cbn [andb orb negb];
      repeat match goal with
      | |- context [Nat.eqb ?a ?b] => destruct (Nat.eqb_spec a b)
      | |- context [Nat.leb ?a ?b] => destruct (Nat.leb_spec a b)
      | |- context [Nat.ltb ?a ?b] => destruct (Nat.ltb_spec a b)
      end; cbn; try reflexivity; try lia;
      try (exfalso; apply (Hd (snd o - offs) (snd o - offd)); [lia | lia | unfold nmk; f_equal; lia]).
Qed.

(* the events of the three loops of small_vector's swap() on two inline arrays holding ca and cb elements *)
Definition inl_swap_evs (an bn : nm) (ca cb : nat) : list ev :=
  swap_evs an bn 0 (Nat.min ca cb) ++ reloc_evs an bn (Nat.min ca cb) (ca - Nat.min ca cb)
  ++ reloc_evs bn an (Nat.min ca cb) (cb - Nat.min ca cb).
