(* Executable slot-level model of frg::small_vector<T, N, Allocator> (include/frg/small_vector.hpp)
   as it is in /repo.  The inline array of the object in register r is block 0, slots r*N .. r*N+N-1.
   Definitions only (proofs: SmallVectorProofs.v). *)
From Coq Require Import List NArith Arith Bool.
From FV Require Import Common.EventLog Seq.SlotModel Seq.VectorModel.
Import ListNotations.

(* _array (N slots), _elements (block id, 0 = nullptr) with that block's slots, _size, _capacity *)
Record svec := mk_sv { s_inl : buf; s_blk : nat; s_heap : buf; s_size : nat; s_cap : nat }.

Record sst := mk_sst { sregs : nat -> svec; sals : nat -> nat; snextb : nat }.

Section WithParams.
Variable esz : N.      (* sizeof(T) *)
Variable NI : nat.     (* the template parameter N *)

(* small_vector(Allocator): _elements(nullptr), _size(0), _capacity(N); the inline bytes are whatever
   the storage holds (all raw for a fresh object) *)
Definition sv_empty (inl0 : buf) : svec := mk_sv inl0 0 [] 0 NI.
Definition sst0 : sst := mk_sst (fun _ => sv_empty (repeat None NI)) (fun r => Nat.min r (NINST - 1)) 1.

Definition is_small (v : svec) : bool := Nat.leb (s_cap v) NI.
(* _get_container() *)
Definition cont_nm (base : nat) (v : svec) : nm := if is_small v then inl_nm base else heap_nm (s_blk v).
Definition cont (v : svec) : buf := if is_small v then s_inl v else s_heap v.
Definition set_cont (v : svec) (c : buf) : svec :=
  if is_small v then mk_sv c (s_blk v) (s_heap v) (s_size v) (s_cap v)
  else mk_sv (s_inl v) (s_blk v) c (s_size v) (s_cap v).
Definition set_size (v : svec) (n : nat) : svec := mk_sv (s_inl v) (s_blk v) (s_heap v) n (s_cap v).

(* _ensure_capacity(c), small_vector.hpp:163-181 *)
Definition sv_ensure_capacity (al nb base c : nat) (v : svec) : res (svec * nat * list ev) :=
  if Nat.leb c (s_cap v) then Ok (v, nb, []) else
  let ncap := 2 * c in
  let nblk := enc al nb in
  (* small_vector.hpp:170  for(size_t i = 0; i < _size; i++) *)
  bind (xfer_loop (s_size v) 0 (cont_nm base v) (heap_nm nblk) (cont v) (repeat None ncap)) (fun '(d, e1) =>
  bind (destroy_loop (s_size v) 0 (cont_nm base v) (cont v)) (fun '(c', e2) =>
  let v' := set_cont v c' in
  Ok (mk_sv (s_inl v') nblk d (s_size v) ncap, S nb,
      EAlloc nblk (esz * N.of_nat ncap) :: e1 ++ e2 ++ free_ev al (s_blk v)))).

(* push_back(const T&) / push_back(T&&) / emplace_back(args) *)
Definition sv_push (al nb base : nat) (x : V) (v : svec) : res (svec * nat * list ev) :=
  bind (sv_ensure_capacity al nb base (s_size v + 1) v) (fun '(v1, nb1, e1) =>
  bind (construct (cont v1) (s_size v1) x) (fun c =>
  Ok (set_size (set_cont v1 c) (S (s_size v1)), nb1, e1 ++ [EConstruct (cont_nm base v1 (s_size v1))]))).

(* pop_back() *)
Definition sv_pop (base : nat) (v : svec) : res (svec * list ev) :=
  match s_size v with
  | O => AssertStop                                            (* FRG_ASSERT(_size) *)
  | S n =>
    bind (destroy (cont v) n) (fun c =>
    Ok (set_size (set_cont v c) n, [EDestroy (cont_nm base v n)]))
  end.

(* resize(new_size, args...) *)
Definition sv_resize (al nb base n : nat) (x : V) (v : svec) : res (svec * nat * list ev) :=
  bind (sv_ensure_capacity al nb base n v) (fun '(v1, nb1, e1) =>
  bind (if Nat.ltb n (s_size v1)
        then destroy_loop (s_size v1 - n) n (cont_nm base v1) (cont v1)
        else fill_loop (n - s_size v1) (s_size v1) (cont_nm base v1) (cont v1) x) (fun '(c, e2) =>
  Ok (set_size (set_cont v1 c) n, nb1, e1 ++ e2))).

(* ~small_vector(): returns the state of the inline storage afterwards *)
Definition sv_destruct (al base : nat) (v : svec) : res (buf * list ev) :=
  bind (destroy_loop (s_size v) 0 (cont_nm base v) (cont v)) (fun '(c, e) =>
  Ok (s_inl (set_cont v c),
      e ++ (if is_small v then [] else [EDealloc (reenc al (s_blk v)) (esz * N.of_nat (s_cap v))]))).

(* small_vector(const small_vector &other) constructed into storage whose inline slots are [inl] *)
Definition sv_copy_ctor (al nb base obase : nat) (inl0 : buf) (o : svec) : res (svec * nat * list ev) :=
  bind (sv_ensure_capacity al nb base (s_size o) (sv_empty inl0)) (fun '(v1, nb1, e1) =>
  bind (xfer_loop (s_size o) 0 (cont_nm obase o) (cont_nm base v1) (cont o) (cont v1)) (fun '(c, e2) =>
  Ok (set_size (set_cont v1 c) (s_size o), nb1, e1 ++ e2))).

(* swap(a, b), small_vector.hpp:20-50: the inline elements are relocated one by one, the heap pointer,
   size and capacity are exchanged.
   first loop:  T tmp(move(a[i])); a[i].~T(); new (&a[i]) T(move(b[i])); b[i].~T(); new (&b[i]) T(move(tmp)); *)
Fixpoint swap_loop (cnt i : nat) (an bn : nm) (a b : buf) : res (buf * buf * list ev) :=
  match cnt with
  | O => Ok (a, b, [])
  | S c =>
    bind (rd a i) (fun va =>
    bind (destroy a i) (fun a1 =>
    bind (rd b i) (fun vb =>
    bind (construct a1 i vb) (fun a2 =>
    bind (destroy b i) (fun b1 =>
    bind (construct b1 i va) (fun b2 =>
    bind (swap_loop c (S i) an bn a2 b2) (fun '(a3, b3, e) =>
    Ok (a3, b3, EUse (an i) :: EDestroy (an i) :: EUse (bn i) :: EConstruct (an i)
                :: EDestroy (bn i) :: EConstruct (bn i) :: e))))))))
  end.
(* second/third loop:  new (&dst[i]) T(move(src[i])); src[i].~T(); *)
Fixpoint reloc_loop (cnt i : nat) (sn dn : nm) (src dst : buf) : res (buf * buf * list ev) :=
  match cnt with
  | O => Ok (src, dst, [])
  | S c =>
    bind (rd src i) (fun v =>
    bind (construct dst i v) (fun d1 =>
    bind (destroy src i) (fun s1 =>
    bind (reloc_loop c (S i) sn dn s1 d1) (fun '(s2, d2, e) =>
    Ok (s2, d2, EUse (sn i) :: EConstruct (dn i) :: EDestroy (sn i) :: e)))))
  end.
Definition sv_swap (abase bbase : nat) (a b : svec) : res (svec * svec * list ev) :=
  let ac := if is_small a then s_size a else 0 in
  let bc := if is_small b then s_size b else 0 in
  let common := Nat.min ac bc in
  bind (swap_loop common 0 (inl_nm abase) (inl_nm bbase) (s_inl a) (s_inl b)) (fun '(ia, ib, e1) =>
  bind (reloc_loop (ac - common) common (inl_nm abase) (inl_nm bbase) ia ib) (fun '(ia2, ib2, e2) =>
  bind (reloc_loop (bc - common) common (inl_nm bbase) (inl_nm abase) ib2 ia2) (fun '(ib3, ia3, e3) =>
  Ok (mk_sv ia3 (s_blk b) (s_heap b) (s_size b) (s_cap b),
      mk_sv ib3 (s_blk a) (s_heap a) (s_size a) (s_cap a), e1 ++ e2 ++ e3)))).

Definition sv_front (v : svec) : res V :=
  match s_size v with O => AssertStop | S _ => rd (cont v) 0 end.
Definition sv_back (v : svec) : res V :=
  match s_size v with O => AssertStop | S n => rd (cont v) n end.
Definition sv_index (v : svec) (i : nat) : res V := rd (cont v) i.
Definition sv_size (v : svec) : nat := s_size v.
Definition sv_is_empty (v : svec) : bool := Nat.eqb (s_size v) 0.
Definition sv_iterate (v : svec) : list (option V) := peek_all (cont v) (s_size v).

Inductive sop :=
| SPush (r : nat) (x : V) | SPushMove (r : nat) (x : V) | SEmplace (r : nat) (x : V)
| SPop (r : nat)
| SResize (r n : nat) (x : V)
| SFront (r : nat) | SBack (r : nat) | SIndex (r i : nat)
| SCopyCtor (r s : nat)      (* r.~small_vector(); new (&r) small_vector(s)             (r <> s) *)
| SMoveCtor (r s : nat)      (* r.~small_vector(); new (&r) small_vector(std::move(s))  (r <> s) *)
| SSwap (r s : nat).

Definition base_of (r : nat) : nat := r * NI.

(* The allocator travels with the heap block: swap() exchanges _allocator, copy and move construction start from
   small_vector(other._allocator). *)
Definition sstep (st : sst) (o : sop) : res (sst * out * list ev) :=
  let rg := sregs st in
  let al := sals st in
  match o with
  | SPush r x | SPushMove r x | SEmplace r x =>
    bind (sv_push (al r) (snextb st) (base_of r) x (rg r)) (fun '(v, nb, e) => Ok (mk_sst (set_reg rg r v) al nb, OUnit, e))
  | SPop r =>
    bind (sv_pop (base_of r) (rg r)) (fun '(v, e) => Ok (mk_sst (set_reg rg r v) al (snextb st), OUnit, e))
  | SResize r n x =>
    bind (sv_resize (al r) (snextb st) (base_of r) n x (rg r)) (fun '(v, nb, e) => Ok (mk_sst (set_reg rg r v) al nb, OUnit, e))
  | SFront r => bind (sv_front (rg r)) (fun x => Ok (st, OVal x, []))
  | SBack r => bind (sv_back (rg r)) (fun x => Ok (st, OVal x, []))
  | SIndex r i => bind (sv_index (rg r) i) (fun x => Ok (st, OVal x, []))
  | SCopyCtor r s =>
    if Nat.eqb r s then Ok (st, OUnit, []) else
    bind (sv_destruct (al r) (base_of r) (rg r)) (fun '(inl0, e1) =>
    bind (sv_copy_ctor (al s) (snextb st) (base_of r) (base_of s) inl0 (rg s)) (fun '(v, nb, e2) =>
    Ok (mk_sst (set_reg rg r v) (set_reg al r (al s)) nb, OUnit, e1 ++ e2)))
  | SMoveCtor r s =>
    if Nat.eqb r s then Ok (st, OUnit, []) else
    bind (sv_destruct (al r) (base_of r) (rg r)) (fun '(inl0, e1) =>
    bind (sv_swap (base_of r) (base_of s) (sv_empty inl0) (rg s)) (fun '(a, b, e2) =>
    Ok (mk_sst (set_reg (set_reg rg r a) s b) (set_reg al r (al s)) (snextb st), OUnit, e1 ++ e2)))
  | SSwap r s =>
    if Nat.eqb r s then Ok (st, OUnit, []) else        (* if(&a == &b) return; *)
    bind (sv_swap (base_of r) (base_of s) (rg r) (rg s)) (fun '(a, b, e) =>
    Ok (mk_sst (set_reg (set_reg rg r a) s b) (set_reg (set_reg al r (al s)) s (al r)) (snextb st), OUnit, e))
  end.

Fixpoint srun (st : sst) (ops : list sop) : res (sst * list out * list ev) :=
  match ops with
  | [] => Ok (st, [], [])
  | o :: r =>
    bind (sstep st o) (fun '(st1, x, e1) =>
    bind (srun st1 r) (fun '(st2, xs, e2) => Ok (st2, x :: xs, e1 ++ e2)))
  end.

Fixpoint sv_destruct_regs (rg : nat -> svec) (al : nat -> nat) (k n : nat) : res (list ev) :=
  match n with
  | O => Ok []
  | S m => bind (sv_destruct (al k) (base_of k) (rg k)) (fun '(_, e1) =>
           bind (sv_destruct_regs rg al (S k) m) (fun e2 => Ok (e1 ++ e2)))
  end.
Definition sfinish (st : sst) : res (list ev) := sv_destruct_regs (sregs st) (sals st) 0 nregs.

End WithParams.
