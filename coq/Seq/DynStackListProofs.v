(* frg::dyn_array, frg::stack, frg::list: closed forms and refinement to lists (C13). *)
From Coq Require Import List NArith Arith Bool Lia.
From FV Require Import Common.EventLog Seq.SlotModel Seq.SlotProofs Seq.VectorModel Seq.VectorProofs
  Seq.DynArrayModel Seq.StackModel Seq.ListModel.
Import ListNotations.

Lemma slots_full l : slots l (length l) = map Some l.
Proof. unfold slots. rewrite Nat.sub_diag. apply app_nil_r. Qed.

Lemma upd_map_some (l : list V) i x : upd (map Some l) i (Some x) = map Some (upd l i x).
Proof. revert i; induction l as [|a l IH]; intros [|i]; cbn [map upd]; auto. now rewrite IH. Qed.

Section DynArray.
Variable esz : N.

Definition dinv (d : darr) (l : list V) : Prop := d_size d = length l /\ d_cells d = map Some l.

Lemma dinv_default : dinv da_default [].
Proof. split; reflexivity. Qed.

Lemma da_sized_eq al nb n :
  da_sized esz al nb n = Ok (mk_da (enc al nb) (map Some (repeat 0%N n)) n, S nb,
                          EAlloc (enc al nb) (esz * N.of_nat n) :: fill_evs (heap_nm (enc al nb)) 0 n).
Proof.
  unfold da_sized. pose proof (fill_loop_gen n (heap_nm (enc al nb)) [] [] 0%N) as F. cbn [app length] in F.
  rewrite app_nil_r in F. rewrite F. cbn [bind]. now rewrite app_nil_r, map_repeat.
Qed.
Lemma da_sized_inv nb n : dinv (mk_da nb (map Some (repeat 0%N n)) n) (repeat 0%N n).
Proof. split; cbn; [now rewrite repeat_length | reflexivity]. Qed.

Lemma da_copy_ctor_eq al nb o l : dinv o l ->
  da_copy_ctor esz al nb o = Ok (mk_da (enc al nb) (map Some l) (length l), S nb,
                              EAlloc (enc al nb) (esz * N.of_nat (length l)) :: xfer_evs (heap_nm (d_blk o)) (heap_nm (enc al nb)) 0 (length l)).
Proof.
  intros (Hs & Hc). unfold da_copy_ctor. rewrite Hs, Hc.
  pose proof (xfer_loop_gen l (heap_nm (d_blk o)) (heap_nm (enc al nb)) [] [] [] [] eq_refl) as X.
  cbn [app length] in X. rewrite !app_nil_r in X. rewrite X. reflexivity.
Qed.
Lemma da_copied_inv nb l : dinv (mk_da nb (map Some l) (length l)) l.
Proof. split; reflexivity. Qed.

Lemma da_destruct_eq al d l : dinv d l ->
  da_destruct esz al d = Ok (destroy_evs (heap_nm (d_blk d)) 0 (length l)
                          ++ (if Nat.eqb (d_blk d) 0 then [] else [EDealloc (reenc al (d_blk d)) (esz * N.of_nat (length l))])).
Proof.
  intros (Hs & Hc). unfold da_destruct. rewrite Hs, Hc.
  pose proof (destroy_loop_gen l (heap_nm (d_blk d)) [] []) as D. cbn [app length] in D. rewrite !app_nil_r in D.
  rewrite D. reflexivity.
Qed.

Lemma da_index_eq d l i : dinv d l -> da_index d i = if Nat.ltb i (length l) then Ok (nth i l 0%N) else UB.
Proof.
  intros (_ & Hc). unfold da_index. rewrite Hc, <- slots_full. destruct (Nat.ltb i (length l)) eqn:E.
  - apply Nat.ltb_lt in E. now apply rd_slots_lt.
  - apply Nat.ltb_ge in E. now apply rd_slots_ge.
Qed.
Lemma da_set_eq d l i x : dinv d l -> i < length l ->
  da_set d i x = Ok (mk_da (d_blk d) (map Some (upd l i x)) (length l), [EUse (d_blk d, i)]).
Proof.
  intros (Hs & Hc) Hi. unfold da_set. fold (da_index d i). rewrite (da_index_eq d l i (conj Hs Hc)).
  apply Nat.ltb_lt in Hi. rewrite Hi. cbn [bind]. now rewrite Hc, upd_map_some, Hs.
Qed.
Lemma da_set_ub d l i x : dinv d l -> ~ i < length l -> da_set d i x = UB.
Proof.
  intros H Hi. unfold da_set. fold (da_index d i). rewrite (da_index_eq d l i H).
  destruct (Nat.ltb i (length l)) eqn:E; [apply Nat.ltb_lt in E; contradiction | reflexivity].
Qed.
Lemma da_set_inv d l i x : dinv (mk_da (d_blk d) (map Some (upd l i x)) (length l)) (upd l i x).
Proof. split; cbn; [now rewrite upd_length | reflexivity]. Qed.

Lemma da_iterate_eq d l : dinv d l -> da_iterate d = map Some l.
Proof. intros (Hs & Hc). unfold da_iterate. rewrite Hs, Hc. rewrite <- (slots_full l) at 1. now apply peek_all_slots. Qed.

Lemma da_empty_eq d l : dinv d l -> da_empty d = match l with [] => true | _ => false end.
Proof. intros (Hs & _). unfold da_empty. rewrite Hs. now destruct l. Qed.

Definition dref_pre (rs : rstate) (o : dop) : Prop :=
  match o with DSet r i _ | DIndex r i => i < length (rs r) | _ => True end.
Definition dref_step (rs : rstate) (o : dop) : rstate * out :=
  match o with
  | DMake r n => (set_reg rs r (repeat 0%N n), OUnit)
  | DDefault r => (set_reg rs r [], OUnit)
  | DSet r i x => (set_reg rs r (upd (rs r) i x), OUnit)
  | DIndex r i => (rs, OVal (nth i (rs r) 0%N))
  | DEmpty r => (rs, OBool (match rs r with [] => true | _ => false end))
  | DAssign r s => (set_reg rs r (rs s), OUnit)
  | DMoveAssign r s => (set_reg (set_reg rs s []) r (rs s), OUnit)
  | DCopyCtor r s => (if Nat.eqb r s then rs else set_reg rs r (rs s), OUnit)
  | DMoveCtor r s => (if Nat.eqb r s then rs else set_reg (set_reg rs r (rs s)) s [], OUnit)
  | DSwap r s => (set_reg (set_reg rs r (rs s)) s (rs r), OUnit)
  end.
Fixpoint dref_run (rs : rstate) (ops : list dop) : rstate * list out :=
  match ops with
  | [] => (rs, [])
  | o :: r => let '(rs1, x) := dref_step rs o in let '(rs2, xs) := dref_run rs1 r in (rs2, x :: xs)
  end.
Fixpoint dref_ok (rs : rstate) (ops : list dop) : Prop :=
  match ops with [] => True | o :: r => dref_pre rs o /\ dref_ok (fst (dref_step rs o)) r end.

Definition drel (st : dst) (rs : rstate) : Prop := forall r, dinv (dregs st r) (rs r).
Lemma drel_set rg al al' nb nb' rs r v l : drel (mk_dst rg al nb) rs -> dinv v l ->
  drel (mk_dst (set_reg rg r v) al' nb') (set_reg rs r l).
Proof. intros H Hv k. cbn [dregs]. unfold set_reg. destruct (Nat.eqb k r); [exact Hv | apply (H k)]. Qed.

Lemma dstep_refines st rs o : drel st rs -> dref_pre rs o ->
  exists st' e, dstep esz st o = Ok (st', snd (dref_step rs o), e) /\ drel st' (fst (dref_step rs o)).
Proof.
  intros R P. destruct st as [rg al nb]. pose proof R as R0. unfold drel in R0. cbn [dregs] in R0.
  destruct o as [r n|r|r i x|r i|r|r s|r s|r s|r s|r s]; cbn [dstep dregs dals dnextb dref_step fst snd dref_pre] in *.
  - rewrite (da_destruct_eq (al r) (rg r) (rs r) (R0 r)). cbn [bind]. rewrite da_sized_eq. cbn [bind].
    do 2 eexists; split; [reflexivity|]. eapply drel_set; [exact R | apply da_sized_inv].
  - rewrite (da_destruct_eq (al r) (rg r) (rs r) (R0 r)). cbn [bind].
    do 2 eexists; split; [reflexivity|]. eapply drel_set; [exact R | apply dinv_default].
  - rewrite (da_set_eq (rg r) (rs r) i x (R0 r) P). cbn [bind].
    do 2 eexists; split; [reflexivity|]. eapply drel_set; [exact R | apply da_set_inv].
  - rewrite (da_index_eq (rg r) (rs r) i (R0 r)). apply Nat.ltb_lt in P. rewrite P. cbn [bind].
    do 2 eexists; split; [reflexivity | exact R].
  - rewrite (da_empty_eq (rg r) (rs r) (R0 r)). do 2 eexists; split; [reflexivity | exact R].
  - rewrite (da_copy_ctor_eq (al s) nb (rg s) (rs s) (R0 s)). cbn [bind].
    rewrite (da_destruct_eq (al r) (rg r) (rs r) (R0 r)). cbn [bind].
    do 2 eexists; split; [reflexivity|]. eapply drel_set; [exact R | apply da_copied_inv].
  - assert (R1 : drel (mk_dst (set_reg rg s da_default) al nb) (set_reg rs s [])) by (eapply drel_set; [exact R | apply dinv_default]).
    pose proof (R1 r) as Hr. cbn [dregs] in Hr.
    rewrite (da_destruct_eq (al r) _ _ Hr). cbn [bind].
    do 2 eexists; split; [reflexivity|]. eapply drel_set; [exact R1 | apply R0].
  - destruct (Nat.eqb r s) eqn:E; [do 2 eexists; split; [reflexivity | exact R]|].
    rewrite (da_destruct_eq (al r) (rg r) (rs r) (R0 r)). cbn [bind].
    rewrite (da_copy_ctor_eq (al s) nb (rg s) (rs s) (R0 s)). cbn [bind].
    do 2 eexists; split; [reflexivity|]. eapply drel_set; [exact R | apply da_copied_inv].
  - destruct (Nat.eqb r s) eqn:E; [do 2 eexists; split; [reflexivity | exact R]|].
    rewrite (da_destruct_eq (al r) (rg r) (rs r) (R0 r)). cbn [bind].
    do 2 eexists; split; [reflexivity|].
    eapply drel_set with (al := al) (nb := nb); [eapply drel_set with (al := al) (al' := al) (nb := nb) (nb' := nb); [exact R | apply R0] | apply dinv_default].
  - do 2 eexists; split; [reflexivity|].
    eapply drel_set with (al := al) (nb := nb); [eapply drel_set with (al := al) (al' := al) (nb := nb) (nb' := nb); [exact R | apply R0] | apply R0].
Qed.

Lemma dstep_pre_exact st rs o : drel st rs -> ~ dref_pre rs o -> dstep esz st o = UB.
Proof.
  intros R P. destruct st as [rg al nb]. pose proof R as R0. unfold drel in R0. cbn [dregs] in R0.
  destruct o as [r n|r|r i x|r i|r|r s|r s|r s|r s|r s]; cbn [dref_pre] in P; try (exfalso; apply P; exact I); cbn [dstep dregs dals].
  - now rewrite (da_set_ub (rg r) (rs r) i x (R0 r) P).
  - rewrite (da_index_eq (rg r) (rs r) i (R0 r)).
    destruct (Nat.ltb i (length (rs r))) eqn:E; [apply Nat.ltb_lt in E; contradiction | reflexivity].
Qed.

Lemma drun_refines : forall ops st rs, drel st rs -> dref_ok rs ops ->
  exists st' e, drun esz st ops = Ok (st', snd (dref_run rs ops), e) /\ drel st' (fst (dref_run rs ops)).
Proof.
  induction ops as [|o ops IH]; intros st rs R K.
  - do 2 eexists; split; [reflexivity | exact R].
  - destruct K as [P K]. destruct (dstep_refines st rs o R P) as (st1 & e1 & H1 & R1).
    cbn [drun dref_run]. rewrite H1. cbn [bind].
    destruct (dref_step rs o) as [rs1 x] eqn:Es. cbn [fst snd] in *.
    destruct (IH st1 rs1 R1 K) as (st2 & e2 & H2 & R2). rewrite H2. cbn [bind].
    destruct (dref_run rs1 ops) as [rs2 xs]. cbn [fst snd] in *.
    do 2 eexists; split; [reflexivity | exact R2].
Qed.
Lemma drel0 : drel dst0 rs0.
Proof. intros r. apply dinv_default. Qed.

Lemma da_observers d l : dinv d l ->
  da_size d = length l /\ (da_empty d = true <-> l = []) /\ (da_empty d = true <-> da_size d = 0) /\
  da_iterate d = map Some l /\ (forall i, i < length l -> da_index d i = Ok (nth i l 0%N)).
Proof.
  intros H. pose proof H as (Hs & Hc). unfold da_size. split; [exact Hs|].
  split; [rewrite (da_empty_eq d l H); destruct l; split; congruence|].
  split; [unfold da_empty; apply Nat.eqb_eq|].
  split; [now apply da_iterate_eq|].
  intros i Hi. rewrite (da_index_eq d l i H). apply Nat.ltb_lt in Hi. now rewrite Hi.
Qed.
End DynArray.

(* ------------------------------------------------------------------------------------------ stack *)
Section Stack.
Variable esz : N.

Inductive kref := KOk (l : list V) (o : out).
Definition kref_pre (l : list V) (o : kop) : Prop := match o with KPop | KTop => l <> [] | _ => True end.
Definition kref_step (l : list V) (o : kop) : list V * out :=
  match o with
  | KPush x | KEmplace x => (l ++ [x], OUnit)
  | KPop => (removelast l, OUnit)
  | KTop => (l, OVal (last l 0%N))
  end.
Fixpoint kref_run (l : list V) (ops : list kop) : list V * list out :=
  match ops with
  | [] => (l, [])
  | o :: r => let '(l1, x) := kref_step l o in let '(l2, xs) := kref_run l1 r in (l2, x :: xs)
  end.
Fixpoint kref_ok (l : list V) (ops : list kop) : Prop :=
  match ops with [] => True | o :: r => kref_pre l o /\ kref_ok (fst (kref_step l o)) r end.

Definition kinv (st : stk * nat) (l : list V) : Prop := vinv (container (fst st)) l.

Lemma kstep_refines st l o : kinv st l -> kref_pre l o ->
  exists st' e, kstep esz st o = Ok (st', snd (kref_step l o), e) /\ kinv st' (fst (kref_step l o)).
Proof.
  intros H P. destruct st as [[v] nb]. unfold kinv in *. cbn [fst container] in *.
  destruct o as [x|x| |]; cbn [kstep kref_step fst snd kref_pre] in *; unfold stk_push, stk_pop, stk_top; cbn [container].
  1-2: rewrite (push_eq esz 0 nb x v l H); cbn [bind]; do 2 eexists; split; [reflexivity|]; cbn [fst container]; now apply pushed_inv.
  - destruct (exists_last P) as (l' & x & ->). rewrite (pop_eq v l' x H). cbn [bind]. rewrite removelast_last.
    do 2 eexists; split; [reflexivity|]. cbn [fst container]. eapply popped_inv; exact H.
  - destruct (exists_last P) as (l' & x & ->). rewrite (back_eq v l' x H). cbn [bind]. rewrite last_last.
    do 2 eexists; split; [reflexivity | exact H].
Qed.
Lemma kstep_pre_exact st l o : kinv st l -> ~ kref_pre l o -> kstep esz st o = UB.
Proof.
  intros H P. destruct st as [[v] nb]. unfold kinv in *. cbn [fst container] in *.
  destruct o as [x|x| |]; cbn [kref_pre] in P; try (exfalso; apply P; exact I);
    (assert (l = []) as -> by (destruct l; [reflexivity | exfalso; apply P; discriminate]));
    cbn [kstep]; unfold stk_pop, stk_top; cbn [container].
  - now rewrite (pop_empty_ub v H).
  - now rewrite (back_empty_ub v H).
Qed.
Lemma krun_refines : forall ops st l, kinv st l -> kref_ok l ops ->
  exists st' e, krun esz st ops = Ok (st', snd (kref_run l ops), e) /\ kinv st' (fst (kref_run l ops)).
Proof.
  induction ops as [|o ops IH]; intros st l R K.
  - do 2 eexists; split; [reflexivity | exact R].
  - destruct K as [P K]. destruct (kstep_refines st l o R P) as (st1 & e1 & H1 & R1).
    cbn [krun kref_run]. rewrite H1. cbn [bind].
    destruct (kref_step l o) as [l1 x] eqn:Es. cbn [fst snd] in *.
    destruct (IH st1 l1 R1 K) as (st2 & e2 & H2 & R2). rewrite H2. cbn [bind].
    destruct (kref_run l1 ops) as [l2 xs]. cbn [fst snd] in *.
    do 2 eexists; split; [reflexivity | exact R2].
Qed.
Lemma kinv0 : kinv (stk_empty, 1) [].
Proof. apply vinv_empty. Qed.
Lemma stk_observers st l : kinv st l ->
  stk_size (fst st) = length l /\ (stk_is_empty (fst st) = true <-> l = []) /\
  (l <> [] -> stk_top (fst st) = Ok (last l 0%N)).
Proof.
  intros H. unfold kinv in H. destruct (observers _ _ H) as (A & B & _ & _ & C & _).
  split; [exact A|]. split; [exact B|]. intros NE. now destruct (C NE).
Qed.
End Stack.

(* -------------------------------------------------------------------------------------- frg::list *)
Section FList.
Variable isz : N.

Definition fabs (l : flist) : list V := map snd (items l).
Definition lref_pre (l : list V) (o : lop) : Prop := match o with LPopFront | LFront => l <> [] | _ => True end.
Definition lref_step (l : list V) (o : lop) : list V * out :=
  match o with
  | LEmplaceBack x => (l ++ [x], OUnit)
  | LPopFront => (tl l, OUnit)
  | LFront => (l, OVal (hd 0%N l))
  | LEmpty => (l, OBool (match l with [] => true | _ => false end))
  end.
Fixpoint lref_run (l : list V) (ops : list lop) : list V * list out :=
  match ops with
  | [] => (l, [])
  | o :: r => let '(l1, x) := lref_step l o in let '(l2, xs) := lref_run l1 r in (l2, x :: xs)
  end.
Fixpoint lref_ok (l : list V) (ops : list lop) : Prop :=
  match ops with [] => True | o :: r => lref_pre l o /\ lref_ok (fst (lref_step l o)) r end.

Lemma lstep_refines st o : lref_pre (fabs (fst st)) o ->
  exists st' e, lstep isz st o = Ok (st', snd (lref_step (fabs (fst st)) o), e) /\
                fabs (fst st') = fst (lref_step (fabs (fst st)) o).
Proof.
  intros P. destruct st as [[it] nb]. unfold fabs in *. cbn [fst items] in *.
  destruct o as [x| | |]; cbn [lstep lref_step fst snd lref_pre fl_emplace_back fl_pop_front fl_front fl_is_empty items] in *.
  - unfold fl_emplace_back. cbn [items]. do 2 eexists; split; [reflexivity|]. cbn [fst items]. now rewrite map_app.
  - destruct it as [|[b x] r]; [cbn in P; congruence|]. unfold fl_pop_front. cbn [items bind map tl]. do 2 eexists; split; reflexivity.
  - destruct it as [|[b x] r]; [cbn in P; congruence|]. unfold fl_front. cbn [items bind map hd snd]. do 2 eexists; split; reflexivity.
  - exists ({| items := it |}, nb), []. split; [|reflexivity]. unfold fl_is_empty. cbn [items]. now destruct it.
Qed.
Lemma lstep_pre_exact st o : ~ lref_pre (fabs (fst st)) o -> lstep isz st o = UB.
Proof.
  intros P. destruct st as [[it] nb]. unfold fabs in *. cbn [fst items] in *.
  destruct o as [x| | |]; cbn [lref_pre] in P; try (exfalso; apply P; exact I);
    (destruct it as [|[b x] r]; [reflexivity | exfalso; apply P; cbn; discriminate]).
Qed.
Lemma lrun_refines : forall ops st, lref_ok (fabs (fst st)) ops ->
  exists st' e, lrun isz st ops = Ok (st', snd (lref_run (fabs (fst st)) ops), e) /\
                fabs (fst st') = fst (lref_run (fabs (fst st)) ops).
Proof.
  induction ops as [|o ops IH]; intros st K.
  - do 2 eexists; split; reflexivity.
  - destruct K as [P K]. destruct (lstep_refines st o P) as (st1 & e1 & H1 & R1).
    cbn [lrun lref_run]. rewrite H1. cbn [bind].
    destruct (lref_step (fabs (fst st)) o) as [l1 x] eqn:Es. cbn [fst snd] in *. rewrite <- R1 in K.
    destruct (IH st1 K) as (st2 & e2 & H2 & R2). rewrite H2. cbn [bind]. rewrite R1 in *.
    destruct (lref_run l1 ops) as [l2 xs]. cbn [fst snd] in *.
    do 2 eexists; split; [reflexivity | exact R2].
Qed.
Lemma fl_observers l : (fl_is_empty l = true <-> fabs l = []) /\
  (fabs l <> [] -> fl_front l = Ok (hd 0%N (fabs l))).
Proof.
  destruct l as [[|[b x] r]]; unfold fabs, fl_is_empty, fl_front; cbn; split; try split; try congruence; auto.
Qed.
End FList.
